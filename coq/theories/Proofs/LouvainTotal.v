(* C20 / C13: the Louvain model reaches NO Panic site.  The C13 development proves what a returned
   value is and that the fuel suffices; every structural lemma there starts from "the step returned
   Ok".  This file proves that each step DOES return Ok on the states the invariants describe:
   generate_graph (get_node / node2com unwraps, add_node, get_edge, add_edge), modularity on a level
   graph, size, the level loop, convert_graph (to_single_edges / set_all_edge_weights / node_map
   unwraps, the constructor's Result), convert_back.  The one hypothesis that is not about the graph
   is on the model's shuffle oracle [perms] (the table standing for the seeded `shuffle`): it has,
   for every node count k that can occur, a row of k indexes below k. *)
From Coq Require Import String List Bool ZArith Arith Lia Permutation QArith.
From GV Require Import Base.Outcome Base.AMap Model.GState Model.Creation Model.Query Model.Derived
     Model.Partition Model.Louvain Spec.AGraph Spec.PartitionDef Spec.History
     Proofs.AMapOk Proofs.WFDefs Proofs.WFNode Proofs.Refine Proofs.CreationNodes Proofs.QueryOk
     Proofs.AdjOk Proofs.DerivedContent Proofs.HistoryOk Proofs.DegreeOk Proofs.QueryTotal
     Proofs.LouvainOk Proofs.MoveGainOk Proofs.LouvainSets Proofs.LouvainStructOk
     Proofs.PartitionOk Proofs.AggregationOk Proofs.LouvainGenGraphOk.
Import ListNotations.
Open Scope list_scope.
Open Scope nat_scope.

Lemma ofold_total_inv : forall {S X} (Inv : S -> Prop) (f : S -> X -> outcome S) (l : list X) (P : X -> Prop),
  (forall s x, Inv s -> P x -> exists s', f s x = Ok s' /\ Inv s') ->
  (forall x, In x l -> P x) ->
  forall s, Inv s -> exists s', ofold f l s = Ok s' /\ Inv s'.
Proof.
  intros S X Inv f l P Hstep. induction l as [|x t IH]; intros HP s Hs; cbn [ofold]; [eauto|].
  destruct (Hstep s x Hs (HP x (or_introl eq_refl))) as (s1 & -> & Hs1). cbn [bind].
  apply IH; [intros y Hy; apply HP; right; exact Hy | exact Hs1].
Qed.

(* ---------------------------------------------------------------- generate_graph *)
Section GenGraphTotal.
  Variable g : lgraph.
  Hypothesis W : WFn g.

  Lemma gg_inner_total i nd acc : In nd (namesn g) -> exists r, gg_inner g i acc nd = Ok r.
  Proof.
    intros Hnd. destruct acc as [n2c nodes]. unfold gg_inner.
    rewrite (get_node_spec Nat.eqb Nat.ltb neqb_spec g nd W). cbn [unwrap_res bind].
    destruct (find (fun n : lnode => Nat.eqb (nname n) nd) (nodes_vec g)) as [nobj|] eqn:Ef.
    - cbn [unwrap_at bind]. eauto.
    - exfalso. exact (find_in_names Nat.eqb neqb_spec g nd Hnd Ef).
  Qed.

  Lemma gg_inner_fold_total i part : (forall u, In u part -> In u (namesn g)) ->
    forall acc, exists r, ofold (gg_inner g i) part acc = Ok r.
  Proof.
    intros Hp acc.
    destruct (ofold_total_inv (fun _ => True) (gg_inner g i) part (fun u => In u (namesn g))) with (s := acc)
      as (r & Hr & _); [|exact Hp|exact I|eauto].
    intros s x _ Hx. destruct (gg_inner_total i x s Hx) as (r & Hr). eauto.
  Qed.

  Lemma gg_outer_total pre ng n2c part :
    P1 g pre ng n2c -> (forall u, In u part -> In u (namesn g)) ->
    exists r, gg_outer g (ng, n2c) (part, length pre) = Ok r.
  Proof.
    intros HP Hpart. unfold gg_outer.
    destruct (gg_inner_fold_total (length pre) part Hpart (n2c, [])) as ((n2c' & nodes) & ->). cbn [bind].
    assert (Hfresh : ~ In (nname (mknode (length pre) (Some nodes))) (namesn ng)).
    { rewrite (p1_names _ _ _ _ HP). cbn [nname]. rewrite in_seq. lia. }
    destruct (WFNode.add_node_fresh Nat.eqb Nat.ltb neqb_spec ng _ (p1_wf _ _ _ _ HP) Hfresh) as (g' & -> & _).
    cbn [bind]. eauto.
  Qed.

  Lemma gg_outer_fold_total : forall rest pre ng n2c,
    P1 g pre ng n2c -> (forall l u, In l rest -> In u l -> In u (namesn g)) ->
    exists ng' n2c', ofold (gg_outer g) (enumerate_from (length pre) rest) (ng, n2c) = Ok (ng', n2c') /\
                     P1 g (pre ++ rest) ng' n2c'.
  Proof.
    induction rest as [|part t IH]; intros pre ng n2c HP Hr; cbn [enumerate_from ofold].
    - exists ng, n2c. split; [reflexivity|]. rewrite app_nil_r. exact HP.
    - destruct (gg_outer_total pre ng n2c part HP (fun u Hu => Hr part u (or_introl eq_refl) Hu)) as ((ng1 & n2c1) & H1).
      rewrite H1. cbn [bind].
      pose proof (gg_outer_step g pre ng n2c part ng1 n2c1 HP H1) as HP1.
      destruct (IH (pre ++ [part]) ng1 n2c1 HP1 (fun l u Hl Hu => Hr l u (or_intror Hl) Hu)) as (ng' & n2c' & H2 & HP2).
      rewrite app_length in H2. cbn [length] in H2. rewrite Nat.add_1_r in H2.
      exists ng', n2c'. split; [exact H2|]. rewrite <- app_assoc in HP2. exact HP2.
  Qed.

  (* phase 2: one edge.  The new graph allows self-loops and keeps the last of two edges on a
     pair, so add_edge cannot refuse an edge between two existing nodes *)
  Lemma gg_edge_total n2c (ng : lgraph) (e : ledge) :
    WFn ng -> selfloops (sp ng) = true -> dd (sp ng) = DKeepLast ->
    (forall u c, lookup Nat.eqb u n2c = Some c -> In c (namesn ng)) ->
    (exists c, lookup Nat.eqb (eu e) n2c = Some c) -> (exists c, lookup Nat.eqb (ev e) n2c = Some c) ->
    exists ng', gg_edge n2c ng e = Ok ng'.
  Proof.
    intros Wn Hsl Hdd Hn2c (c1 & H1) (c2 & H2). unfold gg_edge. rewrite H1, H2. cbn [unwrap_at bind].
    pose proof (get_edge_total Nat.eqb Nat.ltb neqb_spec nltb_asym nltb_total ng c1 c2 Wn) as Hge.
    set (old := match get_edge Nat.eqb ng c1 c2 with
                | Ok x => Ok (ew x) | Err _ => Ok (Some 0%Z) | Panic st => Panic st | OutOfFuel => OutOfFuel end).
    assert (Hold : exists o, old = Ok o).
    { unfold old. destruct (get_edge Nat.eqb ng c1 c2); try discriminate; eauto. }
    destruct Hold as (o & ->). cbn [bind].
    set (e' := mkedge c1 c2 (wadd (ew e) o) (None : option (list nat))).
    pose proof (add_edge_refines Nat.eqb Nat.ltb neqb_spec nltb_asym nltb_total ng e' Wn) as (_ & Hout & _).
    rewrite spec_add_edge_known in Hout.
    - cbn [snd] in Hout. destruct (add_edge Nat.eqb Nat.ltb ng e') as [ng' r]. cbn [snd] in Hout. subst r. eauto.
    - apply (a_has_names Nat.eqb neqb_spec). cbn [e' eu]. exact (Hn2c _ _ H1).
    - apply (a_has_names Nat.eqb neqb_spec). cbn [e' ev]. exact (Hn2c _ _ H2).
    - exact Hsl.
    - exact Hdd.
  Qed.

  Theorem generate_graph_total (I : list (list nat)) :
    (forall l u, In l I -> In u l -> In u (namesn g)) ->
    (forall u, In u (namesn g) -> exists l, In l I /\ In u l) ->
    exists g2, generate_graph g I = Ok g2.
  Proof.
    intros Hin Hcov. rewrite generate_graph_unfold.
    destruct (gg_outer_fold_total I [] (new (gg_specs (sp g))) [] (P1_start g) Hin) as (ng0 & n2c & H1 & HP).
    cbn [length app] in H1, HP. rewrite H1. cbn [bind].
    assert (Hlk : forall u, In u (namesn g) -> exists c, lookup Nat.eqb u n2c = Some c).
    { intros u Hu. destruct (Hcov u Hu) as (l & Hl & Hul). apply In_nth_error in Hl. destruct Hl as (i & Hi).
      exact (p1_n2c_b _ _ _ _ HP u i l Hi Hul). }
    destruct (ofold_total_inv
                (fun ng : lgraph => WFn ng /\ sp ng = sp ng0 /\ nodes_vec ng = nodes_vec ng0)
                (gg_edge n2c) (sort_by edge_ltb (get_all_edges g))
                (fun e : ledge => In e (get_all_edges g))) with (s := ng0) as (g2 & Hg2 & _).
    - intros ng e (Wn & Hsp & Hvec) He.
      assert (Hn : forall u c, lookup Nat.eqb u n2c = Some c -> In c (namesn ng)).
      { intros u c Hc. unfold names. rewrite Hvec. exact (P1_n2c_names _ _ _ _ HP u c Hc). }
      destruct (endpoints_in_names Nat.eqb Nat.ltb neqb_spec g e W He) as (Iu & Iv).
      destruct (gg_edge_total n2c ng e Wn) as (ng' & Hstep).
      + rewrite Hsp, (p1_sp _ _ _ _ HP). reflexivity.
      + rewrite Hsp, (p1_sp _ _ _ _ HP). reflexivity.
      + exact Hn.
      + exact (Hlk _ Iu).
      + exact (Hlk _ Iv).
      + exists ng'. split; [exact Hstep|].
        destruct (gg_edge_step n2c ng e ng' Wn Hn Hstep) as (_ & _ & _ & _ & _ & _ & _ & W1 & Hsp1 & Hvec1).
        split; [exact W1|]. split; congruence.
    - intros e He. apply (Permutation_in _ (sort_by_permutation edge_ltb (get_all_edges g))). exact He.
    - split; [exact (p1_wf _ _ _ _ HP)|]. split; reflexivity.
    - eauto.
  Qed.
End GenGraphTotal.

(* ---------------------------------------------------------------- the shuffle oracle *)
(* [perms] stands for the seeded `shuffle` of the node list: row k-1 is the permutation applied to
   a list of k nodes.  Well formed up to N: for 1 <= k <= N there is a row of k indexes below k. *)
Definition shuffle_ok (perms : list (list nat)) (N : nat) : Prop :=
  forall k, 1 <= k <= N ->
  exists row, nth_error perms (k - 1) = Some row /\ length row = k /\ forall i, In i row -> i < k.

Lemma omapM_total_l : forall {X Y} (f : X -> outcome Y) l,
  (forall x, In x l -> exists y, f x = Ok y) -> exists r, omapM f l = Ok r.
Proof.
  intros X Y f. induction l as [ | x t IH ]; intros H; [eexists; reflexivity | ]. cbn [omapM].
  destruct (H x (or_introl eq_refl)) as (y & Hy). rewrite Hy. cbn [bind].
  destruct (IH (fun z Hz => H z (or_intror Hz))) as (r & Hr). rewrite Hr. cbn [bind]. eauto.
Qed.

Lemma shuffled_total (g : lgraph) perms N :
  shuffle_ok perms N -> length (get_all_nodes g) <= N ->
  exists order, get_shuffled_node_names g perms = Ok order.
Proof.
  intros Hs Hn. unfold get_shuffled_node_names.
  remember (map nname (get_all_nodes g)) as nm eqn:E.
  assert (Hl : length nm <= N) by (subst nm; rewrite map_length; exact Hn).
  destruct nm as [|x t]; [eauto|]. cbv zeta.
  destruct (Hs (length (x :: t))) as (row & Hrow & Hlen & Hlt); [cbn [length] in *; lia|].
  rewrite Hrow. cbn [unwrap_at bind]. rewrite Hlen, Nat.eqb_refl. cbn [negb].
  apply omapM_total_l. intros i Hi. specialize (Hlt i Hi).
  destruct (nth_error (x :: t) i) as [y|] eqn:Ey; [cbn; eauto|]. apply nth_error_None in Ey. lia.
Qed.

(* ---------------------------------------------------------------- modularity on a level graph *)
From GV Require Import Proofs.LouvainNumOk Proofs.LouvainTermOk Proofs.LouvainLevelOk Proofs.LouvainAggOk
     Proofs.LouvainConvertOk Proofs.LouvainLevelsOk Proofs.LouvainNoFuelOk Proofs.LouvainModelOk Proofs.TotalAll.

Lemma level_modularity_ok (gk : lgraph) nk (I : list (list nat)) weighted res :
  LevelGraph gk nk ->
  Forall (@NoDup nat) I ->
  (forall u, In u (seq 0 nk) <-> exists l, In l I /\ In u l) ->
  ForallOrdPairs (fun a b => forall x, In x a -> ~ In x b) I ->
  exists q, modularity Nat.eqb Nat.ltb gk I weighted res = Ok q.
Proof.
  intros LG Hnd Hcov Hdis.
  pose proof (total_modularity Nat.eqb Nat.ltb neqb_spec nltb_total gk I weighted res (lg_wf gk nk LG)) as H.
  assert (Hip : is_partition_model Nat.eqb (get_all_node_names gk) I = true).
  { apply (is_partition_model_correct Nat.eqb neqb_spec).
    - exact (wf_nodup _ _ _ (lg_wf gk nk LG)).
    - exact Hnd.
    - split; [exact Hdis|]. split.
      + intros c x Hc Hx. apply (LG_names gk nk LG). apply Hcov. exists c. split; assumption.
      + intros x Hx. apply (LG_names gk nk LG) in Hx. apply Hcov in Hx. exact Hx. }
  rewrite Hip in H. apply H. intros _ e z He Hz.
  destruct (lg_real gk nk LG e He) as (z' & Hz' & Hpos). congruence.
Qed.

Lemma PIok_modularity_ok (gk : lgraph) nk P I weighted res :
  LevelGraph gk nk -> PIok (seq 0 nk) (attr_of gk) P I ->
  exists q, modularity Nat.eqb Nat.ltb gk I weighted res = Ok q.
Proof.
  intros LG HPI. apply (level_modularity_ok gk nk I weighted res LG).
  - pose proof (pi_al _ _ _ _ HPI) as Hal. clear -Hal. induction Hal as [|p l P' I' Hpl _ IH]; constructor; [|exact IH].
    destruct Hpl as (_ & Hl & _). exact Hl.
  - exact (pi_cover _ _ _ _ HPI).
  - exact (pi_disj _ _ _ _ HPI).
Qed.

Lemma singletons_modularity_ok (gk : lgraph) nk weighted res :
  LevelGraph gk nk ->
  exists q, modularity Nat.eqb Nat.ltb gk (map (fun k => [k]) (seq 0 nk)) weighted res = Ok q.
Proof.
  intros LG. apply (level_modularity_ok gk nk _ weighted res LG).
  - apply Forall_forall. intros l Hl. apply in_map_iff in Hl. destruct Hl as (k & <- & _).
    constructor; [intros []|constructor].
  - intros u. split.
    + intros Hu. exists [u]. split; [apply in_map_iff; exists u; split; [reflexivity|exact Hu]|left; reflexivity].
    + intros (l & Hl & Hu). apply in_map_iff in Hl. destruct Hl as (k & <- & Hk). destruct Hu as [<-|[]]. exact Hk.
  - generalize (seq_NoDup nk 0). generalize (seq 0 nk). induction l as [|k t IH]; intros Hnd; cbn [map]; [constructor|].
    inversion Hnd as [|? ? Hni Hnd']. subst. constructor; [|apply IH; exact Hnd'].
    apply Forall_forall. intros b Hb x [<-|[]] Hx. apply in_map_iff in Hb. destruct Hb as (j & <- & Hj).
    destruct Hx as [<-|[]]. exact (Hni Hj).
Qed.

(* ---------------------------------------------------------------- the level loop *)
Section LoopTotal.
  Open Scope Q_scope.
  Variable es0 : list wedgeN.
  Variable dir0 : bool.
  Variable orig : list nat.
  Variables m res : Q.
  Hypothesis Hm0 : m == total_w es0.
  Hypothesis Hmpos : 0 <= m.
  Hypothesis Hres : 0 <= res.

  (* the local-moving phase on the aggregated graph returns *)
  Lemma phase_total : forall gk nk partition inner g2 sf perms N,
    LInv es0 dir0 orig gk nk partition inner ->
    generate_graph gk inner = Ok g2 ->
    (length inner <= N)%nat -> (N ^ N <= sf)%nat -> shuffle_ok perms N ->
    exists p2 i2 imp tie2, compute_one_level sf g2 m partition res perms = Ok (p2, i2, imp, tie2).
  Proof.
    intros gk nk partition inner g2 sf perms N HL Hg2 HN Hsf Hsh.
    pose proof HL as [LG Hd HF AO HPI].
    destruct (generate_graph_struct gk inner g2 Hg2) as [W2 [Hn2 [Hsp2 Hat2]]].
    pose proof (pi_al _ _ _ _ HPI) as Hal.
    assert (Hlen : length partition = length inner) by (eapply F2_length; exact Hal).
    assert (Hlv : level_ok orig partition) by (eapply PIok_level_ok; eassumption).
    assert (Hpa : forall c p, nth_error partition c = Some p ->
                NoDup p /\ NoDup (attr_of g2 c) /\ forall x, In x p <-> In x (attr_of g2 c)).
    { intros c p Hp. destruct (nth_error inner c) as [l|] eqn:El.
      - destruct (Forall2_nth_inv _ _ _ Hal c p l Hp El) as [Hndp [_ [_ Hpx]]].
        destruct (Hat2 c l El) as [Hnda Hax]. split; [exact Hndp|]. split; [exact Hnda|].
        intro x. rewrite Hpx, Hax. reflexivity.
      - apply nth_error_None in El. assert ((c < length partition)%nat) by (apply nth_error_Some; congruence). lia. }
    assert (AO2 : AttrOk orig (seq 0 (length inner)) (attr_of g2)).
    { apply (AttrOk_of_level orig partition); [exact Hlv | exact Hlen |].
      intros i p Hp. destruct (Hpa i p Hp) as [_ [Hnd Hx]]. split; [exact Hnd|]. intro x. symmetry. apply Hx. }
    assert (LG2 : LevelGraph g2 (length inner)).
    { constructor.
      - exact W2.
      - rewrite Hsp2. cbn [multi]. apply (lg_single gk nk LG).
      - rewrite Hn2. apply Permutation_refl.
      - apply (generate_graph_weights gk inner g2 (lg_wf gk nk LG) Hg2). apply (lg_real gk nk LG).
      - apply (ao_disj _ _ _ AO2). }
    destruct (shuffled_total g2 perms N Hsh) as (order & Hord).
    { change (length (get_all_nodes g2)) with (length (nodes_vec g2)).
      rewrite <- (map_length nname (nodes_vec g2)). change (map nname (nodes_vec g2)) with (gnames g2).
      rewrite Hn2, seq_length. exact HN. }
    destruct (level_total g2 (length inner) LG2 m res Hmpos Hres sf partition perms order Hlen) as [p2 [i2 [imp [tie2 [Hc _]]]]].
    - intros c p Hp. destruct (Hpa c p Hp) as [Hnd [_ Hx]]. split; assumption.
    - exact Hord.
    - apply Nat.le_trans with (N ^ N)%nat; [apply pow_self_mono; exact HN | exact Hsf].
    - eauto.
  Qed.

  Lemma level_loop_total :
    forall fuel sf weighted thr perms gk nk partition inner md acc tie N,
      LInv es0 dir0 orig gk nk partition inner ->
      (length inner < fuel)%nat -> (length inner <= N)%nat -> (N ^ N <= sf)%nat -> shuffle_ok perms N ->
      exists r, level_loop fuel sf weighted res thr perms m gk partition inner md acc tie = Ok r.
  Proof.
    induction fuel as [|f IH]; intros sf weighted thr perms gk nk partition inner md acc tie N HL Hf HN Hsf Hsh; [lia|].
    cbn [level_loop]. pose proof HL as [LG Hd HF AO HPI].
    destruct (PIok_modularity_ok gk nk partition inner weighted res LG HPI) as (new_mod & ->). cbn [unwrap_res bind].
    destruct (gain_small new_mod md thr) as [small close]. destruct small; [eauto|].
    destruct (generate_graph_total gk (lg_wf gk nk LG) inner) as (g2 & Hg2).
    { intros l u Hl Hu. apply (LG_names gk nk LG). apply (pi_cover _ _ _ _ HPI). exists l. split; assumption. }
    { intros u Hu. apply (LG_names gk nk LG) in Hu. apply (pi_cover _ _ _ _ HPI). exact Hu. }
    rewrite Hg2. cbn [bind].
    destruct (phase_total gk nk partition inner g2 sf perms N HL Hg2 HN Hsf Hsh) as (p2 & i2 & imp & tie2 & Hc).
    rewrite Hc. cbn [bind]. destruct imp; [|eauto].
    destruct (LInv_step es0 dir0 orig m res Hm0 Hmpos Hres gk nk partition inner g2 sf perms p2 i2 true tie2 HL Hg2 Hc)
      as [HL2 [_ Hshr]].
    specialize (Hshr eq_refl).
    apply (IH sf weighted thr perms g2 (length inner) p2 i2 new_mod (acc ++ [partition]) _ N HL2); [lia | lia | exact Hsf | exact Hsh].
  Qed.
End LoopTotal.

(* ---------------------------------------------------------------- the constructor on a relabelled edge list *)
(* spec level (Spec/AGraph.v): adding, to a graph without edges whose nodes are all present, a
   list of edges with pairwise different canonical pairs and no forbidden self-loop succeeds
   whatever the duplicate / missing-node policies are *)
Section SpecBuild.
  Context {T A : Type}.
  Variable teqb : T -> T -> bool.
  Variable tltb : T -> T -> bool.
  Hypothesis teqb_spec : forall x y, teqb x y = true <-> x = y.
  Notation agraph := (agraph T A).
  Notation edge := (edge T A).
  Notation node := (node T A).

  Lemma spec_add_node_sp (a : agraph) n : a_sp (spec_add_node teqb a n) = a_sp a.
  Proof. unfold spec_add_node. destruct (a_has teqb a (nname n)); reflexivity. Qed.

  Lemma spec_add_nodes_sp : forall ns (a : agraph), a_sp (spec_add_nodes teqb a ns) = a_sp a.
  Proof.
    induction ns as [|n t IH]; intros a; [reflexivity|]. unfold spec_add_nodes in *. cbn [fold_left].
    rewrite IH. apply spec_add_node_sp.
  Qed.

  Lemma a_has_add_node_mono (a : agraph) n x : a_has teqb a x = true -> a_has teqb (spec_add_node teqb a n) x = true.
  Proof.
    intros H. unfold spec_add_node. destruct (a_has teqb a (nname n)) eqn:E; unfold a_has in *; cbn [a_nodes].
    - apply existsb_exists in H. destruct H as (m & Hm & Hx). apply existsb_exists.
      exists (if teqb (nname m) (nname n) then n else m). split.
      + apply in_map_iff. exists m. split; [reflexivity|exact Hm].
      + destruct (teqb (nname m) (nname n)) eqn:E2; [|exact Hx].
        apply teqb_spec in E2. rewrite <- E2. exact Hx.
    - rewrite existsb_app, H. reflexivity.
  Qed.

  Lemma a_has_add_node_self (a : agraph) n : a_has teqb (spec_add_node teqb a n) (nname n) = true.
  Proof.
    destruct (a_has teqb a (nname n)) eqn:E.
    - apply a_has_add_node_mono. exact E.
    - unfold spec_add_node. rewrite E. unfold a_has. cbn [a_nodes]. rewrite existsb_app. cbn [existsb].
      rewrite (proj2 (teqb_spec _ _) eq_refl). rewrite orb_true_r. reflexivity.
  Qed.

  Lemma a_has_add_nodes : forall ns (a : agraph) x,
    (a_has teqb a x = true \/ In x (map nname ns)) -> a_has teqb (spec_add_nodes teqb a ns) x = true.
  Proof.
    induction ns as [|n t IH]; intros a x H; unfold spec_add_nodes in *; cbn [fold_left].
    - destruct H as [H|[]]. exact H.
    - apply IH. destruct H as [H|[<-|H]].
      + left. apply a_has_add_node_mono. exact H.
      + left. apply a_has_add_node_self.
      + right. exact H.
  Qed.

  Definition pair_of (e : edge) : T * T := (eu e, ev e).

  Lemma spec_add_edges_ok : forall (es : list edge) (a : agraph),
    multi (a_sp a) = false ->
    (forall e, In e es -> a_has teqb a (eu e) = true /\ a_has teqb a (ev e) = true) ->
    (selfloops (a_sp a) = false -> forall e, In e es -> teqb (eu e) (ev e) = false) ->
    (forall e x, In e es -> In x (a_edges a) -> same_pair teqb (canon tltb (a_sp a) e) x = false) ->
    ForallOrdPairs (fun e1 e2 => same_pair teqb (canon tltb (a_sp a) e2) (canon tltb (a_sp a) e1) = false) es ->
    exists a', spec_add_edges teqb tltb a es = (a', Ok tt).
  Proof.
    induction es as [|e t IH]; intros a Hm Hhas Hsl Hold Hpw; cbn [spec_add_edges]; [eauto|].
    destruct (Hhas e (or_introl eq_refl)) as (Hu & Hv).
    assert (Hstep : spec_add_edge teqb tltb a e =
                    (mka (a_sp a) (a_nodes a) (a_edges a ++ [canon tltb (a_sp a) e]), Ok tt)).
    { unfold spec_add_edge.
      assert (E1 : negb (selfloops (a_sp a)) && teqb (eu e) (ev e) = false).
      { destruct (selfloops (a_sp a)) eqn:Es; [reflexivity|]. cbn [negb andb]. apply (Hsl eq_refl e). left. reflexivity. }
      rewrite E1, Hu, Hv. cbn [negb andb]. rewrite andb_false_r. unfold ensure_node. rewrite Hu, Hv, Hm.
      assert (E2 : existsb (same_pair teqb (canon tltb (a_sp a) e)) (a_edges a) = false).
      { destruct (existsb (same_pair teqb (canon tltb (a_sp a) e)) (a_edges a)) eqn:Ex; [|reflexivity].
        apply existsb_exists in Ex. destruct Ex as (x & Hx & Hs). rewrite (Hold e x (or_introl eq_refl) Hx) in Hs. discriminate. }
      rewrite E2. reflexivity. }
    rewrite Hstep. inversion Hpw as [|? ? Hhd Htl]. subst.
    apply IH; cbn [a_sp a_nodes a_edges].
    - exact Hm.
    - intros e' He'. unfold a_has. cbn [a_nodes]. apply (Hhas e' (or_intror He')).
    - intros Hs e' He'. apply (Hsl Hs e'). right. exact He'.
    - intros e' x He' Hx. apply in_app_or in Hx. destruct Hx as [Hx|[<-|[]]].
      + apply (Hold e' x (or_intror He') Hx).
      + rewrite Forall_forall in Hhd. apply (Hhd e' He').
    - exact Htl.
  Qed.
End SpecBuild.

(* ---------------------------------------------------------------- convert_graph / convert_back *)
From GV Require Import Proofs.DerivedOk Proofs.GraphMLStateOk.

Lemma omapM_map_ok : forall {X Y} (f : X -> outcome Y) (h : X -> Y) l,
  (forall x, In x l -> f x = Ok (h x)) -> omapM f l = Ok (map h l).
Proof.
  intros X Y f h l H. induction l as [ | x t IH ]; [reflexivity | ]. cbn [omapM map].
  rewrite (H x (or_introl eq_refl)). cbn [bind]. rewrite IH; [reflexivity | ]. intros y Hy. apply H. cbn. tauto.
Qed.

Lemma FOP_map_NoDup : forall {X Y K} (key : X -> K) (f : X -> Y) (R : Y -> Y -> Prop) (l : list X),
  NoDup (map key l) ->
  (forall a b, In a l -> In b l -> key a <> key b -> R (f a) (f b)) ->
  ForallOrdPairs R (map f l).
Proof.
  intros X Y K key f R. induction l as [|x t IH]; intros Hnd HR; cbn [map]; [constructor|].
  cbn [map] in Hnd. inversion Hnd as [|? ? Hni Hnd']. subst. constructor.
  - apply Forall_forall. intros y Hy. apply in_map_iff in Hy. destruct Hy as (b & <- & Hb).
    apply HR; [left; reflexivity|right; exact Hb|]. intros E. apply Hni. rewrite E. apply in_map. exact Hb.
  - apply IH; [exact Hnd'|]. intros a b Ha Hb. apply HR; right; assumption.
Qed.

Section ConvertTotal.
  Context {T A : Type}.
  Variable teqb tltb : T -> T -> bool.
  Hypothesis teqb_spec : forall x y, teqb x y = true <-> x = y.
  Hypothesis tltb_asym : forall x y, tltb x y = true -> tltb y x = false.
  Hypothesis tltb_total : forall x y, tltb x y = false -> tltb y x = false -> x = y.

  (* the rank of a name in the sorted name list *)
  Definition rk (g : gstate T A) (x : T) : nat :=
    match lookup teqb x (node_map_of tltb g) with Some u => u | None => 0 end.

  Section OnGraph.
    Variable g : gstate T A.
    Hypothesis W : WF teqb tltb g.
    Let l := sort_by tltb (map nname (nodes_vec g)).

    Lemma l_perm : Permutation l (names g).
    Proof. apply sort_by_permutation. Qed.
    Lemma l_nodup : NoDup l.
    Proof. apply (Permutation_NoDup (Permutation_sym l_perm) (wf_nodup _ _ _ W)). Qed.

    Lemma rk_lookup x : In x (names g) ->
      exists j, lookup teqb x (node_map_of tltb g) = Some j /\ nth_error l j = Some x /\ rk g x = j.
    Proof.
      intros Hx. apply (Permutation_in _ (Permutation_sym l_perm)) in Hx. apply In_nth_error in Hx.
      destruct Hx as (j & Hj).
      pose proof (nth_lookup_enum teqb teqb_spec l 0 x j l_nodup Hj) as H. cbn [plus] in H.
      exists j. unfold rk, node_map_of, get_all_nodes. fold l. rewrite H. auto.
    Qed.

    Lemma rk_inj x y : In x (names g) -> In y (names g) -> rk g x = rk g y -> x = y.
    Proof.
      intros Hx Hy E. destruct (rk_lookup x Hx) as (i & _ & Hi & Ei). destruct (rk_lookup y Hy) as (j & _ & Hj & Ej).
      congruence.
    Qed.

    Lemma rk_lt x : In x (names g) -> rk g x < length (nodes_vec g).
    Proof.
      intros Hx. destruct (rk_lookup x Hx) as (j & _ & Hj & ->).
      assert (j < length l) by (apply nth_error_Some; congruence).
      rewrite (Permutation_length l_perm) in H. unfold names in H. rewrite map_length in H. exact H.
    Qed.
  End OnGraph.

  Definition relabel (g : gstate T A) (e : edge T A) : ledge :=
    mkedge (rk g (eu e)) (rk g (ev e)) (ew e) (None : option (list nat)).

  (* the constructor on the relabelled node and edge lists of a single-edge coherent state with
     the same node list *)
  Lemma relabelled_build_ok (g g2 : gstate T A) :
    WF teqb tltb g -> WF teqb tltb g2 -> nodes_vec g2 = nodes_vec g -> multi (sp g2) = false ->
    exists gu,
      new_from_nodes_and_edges Nat.eqb Nat.ltb
        (map (fun n : node T A => mknode (rk g (nname n)) (Some [rk g (nname n)])) (nodes_vec g2))
        (map (relabel g) (get_all_edges g2)) (sp g2) = Ok gu.
  Proof.
    intros W W2 Hv2 Hm2.
    set (ns := map (fun n : node T A => mknode (rk g (nname n)) (Some [rk g (nname n)])) (nodes_vec g2)).
    set (es := map (relabel g) (get_all_edges g2)).
    assert (Hnames2 : names g2 = names g) by (unfold names; rewrite Hv2; reflexivity).
    assert (Hns : forall x, In x (names g) -> In (rk g x) (map nname ns)).
    { intros x Hx. unfold ns. rewrite map_map. cbn [nname]. rewrite <- Hnames2 in Hx. unfold names in Hx.
      apply in_map_iff in Hx. destruct Hx as (n & <- & Hn). apply in_map_iff. exists n. split; [reflexivity|exact Hn]. }
    assert (Hedge : forall e, In e (get_all_edges g2) -> edge_ok tltb (sp g2) (names g) e).
    { intros e He. rewrite <- Hnames2. apply (stored_edge_ok teqb tltb teqb_spec g2 e W2 He). }
    pose proof (new_from_refines Nat.eqb Nat.ltb nat_eqb_spec nltb_asym nltb_total ns es (sp g2)) as Href.
    assert (Hspec : exists a, spec_new_from Nat.eqb Nat.ltb ns es (sp g2) = Ok a).
    { unfold spec_new_from.
      set (a0 := spec_add_nodes Nat.eqb (a_new (sp g2)) ns).
      assert (Hsp0 : a_sp a0 = sp g2) by (unfold a0; rewrite spec_add_nodes_sp; reflexivity).
      destruct (spec_add_edges_ok Nat.eqb Nat.ltb es a0) as (a' & ->); [| | | | |eauto].
      - rewrite Hsp0. exact Hm2.
      - intros e' He'. unfold es in He'. apply in_map_iff in He'. destruct He' as (e & <- & He).
        destruct (Hedge e He) as (Iu & Iv & _). cbn [relabel eu ev]. unfold a0.
        split; apply (a_has_add_nodes Nat.eqb nat_eqb_spec); right; apply Hns; assumption.
      - rewrite Hsp0. intros Hs e' He'. unfold es in He'. apply in_map_iff in He'. destruct He' as (e & <- & He).
        destruct (Hedge e He) as (Iu & Iv & Hsl & _). cbn [relabel eu ev].
        apply Nat.eqb_neq. intros E. apply (Hsl Hs). apply (rk_inj g W _ _ Iu Iv E).
      - intros e' x _ Hx. unfold a0 in Hx. rewrite spec_add_nodes_edges in Hx. destruct Hx.
      - rewrite Hsp0. unfold es.
        apply (FOP_map_NoDup (ekey (T:=T) (A:=A)) (relabel g)); [apply (stored_distinct teqb tltb teqb_spec g2 W2 Hm2)|].
        intros e1 e2 H1 H2 Hk.
        destruct (Hedge e1 H1) as (Iu1 & Iv1 & _ & Ho1). destruct (Hedge e2 H2) as (Iu2 & Iv2 & _ & Ho2).
        destruct (same_pair Nat.eqb (canon Nat.ltb (sp g2) (relabel g e2)) (canon Nat.ltb (sp g2) (relabel g e1))) eqn:Es;
          [|reflexivity].
        exfalso. apply Hk. unfold ekey.
        assert (Hcases : (rk g (eu e2) = rk g (eu e1) /\ rk g (ev e2) = rk g (ev e1)) \/
                         (directed (sp g2) = false /\ rk g (eu e2) = rk g (ev e1) /\ rk g (ev e2) = rk g (eu e1))).
        { unfold same_pair, canon in Es. apply andb_true_iff in Es. destruct Es as (Ea & Eb).
          destruct (directed (sp g2)); cbn [negb andb] in Ea, Eb.
          - apply Nat.eqb_eq in Ea. apply Nat.eqb_eq in Eb. left. cbn in Ea, Eb. auto.
          - destruct (Nat.ltb (ev (relabel g e2)) (eu (relabel g e2))); destruct (Nat.ltb (ev (relabel g e1)) (eu (relabel g e1)));
              cbn in Ea, Eb; apply Nat.eqb_eq in Ea; apply Nat.eqb_eq in Eb; auto. }
        destruct Hcases as [(Ea & Eb)|(Hd & Ea & Eb)].
        + rewrite (rk_inj g W _ _ Iu2 Iu1 Ea), (rk_inj g W _ _ Iv2 Iv1 Eb). reflexivity.
        + pose proof (rk_inj g W _ _ Iu2 Iv1 Ea) as X1. pose proof (rk_inj g W _ _ Iv2 Iu1 Eb) as X2.
          specialize (Ho1 Hd). specialize (Ho2 Hd). rewrite X1, X2 in Ho2.
          pose proof (tltb_total _ _ Ho1 Ho2) as X3. congruence. }
    destruct Hspec as (a & Ha). rewrite Ha in Href.
    destruct (new_from_nodes_and_edges Nat.eqb Nat.ltb ns es (sp g2)) as [gu| | |]; [eauto|destruct Href..].
  Qed.

  Theorem convert_graph_total (g : gstate T A) weighted :
    WF teqb tltb g -> exists gu, convert_graph teqb tltb g weighted (node_map_of tltb g) = Ok gu.
  Proof.
    intros W. unfold convert_graph.
    (* the single-edge graph *)
    assert (G1 : exists g1, (if multi (sp g)
                             then unwrap_res "louvain.rs:convert_graph to_single_edges unwrap" (to_single_edges teqb tltb g)
                             else Ok g) = Ok g1 /\
                            WF teqb tltb g1 /\ nodes_vec g1 = nodes_vec g /\ multi (sp g1) = false).
    { destruct (multi (sp g)) eqn:Hm.
      - destruct (to_single_edges_content teqb tltb teqb_spec tltb_total g W Hm) as (h & Hh & Hv & Hmh & _).
        exists h. rewrite Hh. split; [reflexivity|].
        destruct (to_single_edges_WF teqb tltb teqb_spec tltb_asym tltb_total g h Hh) as (W1 & _). auto.
      - exists g. auto. }
    destruct G1 as (g1 & -> & W1 & Hv1 & Hm1). cbn [bind].
    assert (G2 : exists g2, (if weighted then Ok g1 else set_all_edge_weights teqb tltb g1 (Some 1%Z)) = Ok g2 /\
                            WF teqb tltb g2 /\ nodes_vec g2 = nodes_vec g /\ multi (sp g2) = false).
    { destruct weighted.
      - exists g1. auto.
      - destruct (set_all_edge_weights_content teqb tltb teqb_spec tltb_total g1 (Some 1%Z) W1) as (h & Hh & Hv & Hs & _).
        exists h. split; [exact Hh|].
        destruct (set_all_edge_weights_WF teqb tltb teqb_spec tltb_asym tltb_total g1 h _ Hh) as (W2 & _).
        split; [exact W2|]. split; [congruence|]. rewrite Hs. exact Hm1. }
    destruct G2 as (g2 & -> & W2 & Hv2 & Hm2). cbn [bind].
    assert (Hnames2 : names g2 = names g) by (unfold names; rewrite Hv2; reflexivity).
    rewrite (omapM_map_ok _ (fun n : node T A => mknode (rk g (nname n)) (Some [rk g (nname n)])) (get_all_nodes g2)).
    2:{ intros n Hn. assert (Hx : In (nname n) (names g)) by (rewrite <- Hnames2; unfold names; apply in_map; exact Hn).
        destruct (rk_lookup g W (nname n) Hx) as (j & Hl & _ & Hr). rewrite Hl. cbn [unwrap_at bind]. rewrite Hr. reflexivity. }
    cbn [bind].
    rewrite (omapM_map_ok _ (relabel g) (get_all_edges g2)).
    2:{ intros e He. destruct (stored_edge_ok teqb tltb teqb_spec g2 e W2 He) as (Iu & Iv & _). rewrite Hnames2 in Iu, Iv.
        destruct (rk_lookup g W (eu e) Iu) as (j & Hl & _ & Hr). destruct (rk_lookup g W (ev e) Iv) as (k & Hl' & _ & Hr').
        rewrite Hl. cbn [unwrap_at bind]. rewrite Hl'. cbn [unwrap_at bind]. unfold relabel. rewrite Hr, Hr'. reflexivity. }
    cbn [bind]. unfold get_all_nodes.
    destruct (relabelled_build_ok g g2 W W2 Hv2 Hm2) as (gu & ->). cbn [unwrap_res]. eauto.
  Qed.

  (* convert_back: every index of every level is a rank *)
  Theorem convert_back_total (g : gstate T A) (levels : list (list (list nat))) :
    WF teqb tltb g ->
    (forall lv c u, In lv levels -> In c lv -> In u c -> u < length (nodes_vec g)) ->
    exists ls, convert_back (node_map_of tltb g) levels = Ok ls.
  Proof.
    intros W Hr. unfold convert_back, node_map_of, get_all_nodes.
    set (l := sort_by tltb (map nname (nodes_vec g))).
    assert (Hlen : length l = length (nodes_vec g)).
    { unfold l. rewrite (Permutation_length (sort_by_permutation tltb _)), map_length. reflexivity. }
    assert (Hrev : forall k u, u < k + length l -> k <= u ->
              exists x, lookup Nat.eqb u (map (fun kv : T * nat => (snd kv, fst kv)) (enumerate_from k l)) = Some x).
    { clear Hlen. induction l as [|y t IH]; intros k u Hu Hk; cbn [length] in Hu; [lia|].
      cbn [enumerate_from map lookup fst snd]. destruct (Nat.eqb u k) eqn:E; [eauto|].
      apply Nat.eqb_neq in E. apply IH; lia. }
    apply omapM_total_l. intros lv Hlv. apply omapM_total_l. intros c Hc. apply omapM_total_l. intros u Hu.
    destruct (Hrev 0 u) as (x & ->); [rewrite Hlen; cbn; apply (Hr lv c u Hlv Hc Hu)|lia|]. cbn. eauto.
  Qed.
End ConvertTotal.

(* ---------------------------------------------------------------- the entry points *)
Section EntryTotal.
  Open Scope Q_scope.
  Context {T A : Type}.
  Variable teqb tltb : T -> T -> bool.
  Hypothesis teqb_spec : forall x y, teqb x y = true <-> x = y.
  Hypothesis tltb_asym : forall x y, tltb x y = true -> tltb y x = false.
  Hypothesis tltb_total : forall x y, tltb x y = false -> tltb y x = false -> x = y.

  Lemma size_q_total (gu : lgraph) weighted :
    (forall e, In e (get_all_edges gu) -> exists z, ew e = Some z) -> exists m, size_q gu weighted = Ok m.
  Proof.
    intros Hreal. unfold size_q. destruct weighted; [|eauto].
    unfold size_weighted. rewrite (wsum_real (get_all_edges gu) Hreal). cbn [q_of_w]. eauto.
  Qed.

  Theorem louvain_partitions_t_total :
    forall lf sf (g : gstate T A) weighted res thr perms,
      WF teqb tltb g -> weights_ok g weighted -> 0 <= res ->
      (length (nodes_vec g) < lf)%nat -> (length (nodes_vec g) ^ length (nodes_vec g) <= sf)%nat ->
      shuffle_ok perms (length (nodes_vec g)) ->
      exists r, louvain_partitions_t teqb tltb lf sf g weighted res thr perms = Ok r.
  Proof.
    intros lf sf g weighted res thr perms W Hwok Hres Hlf Hsf Hsh. unfold louvain_partitions_t.
    rewrite (weights_ok_guard_false g weighted Hwok).
    destruct (convert_graph_total teqb tltb teqb_spec tltb_asym tltb_total g weighted W) as (gu & Hgu).
    rewrite Hgu. cbn [bind].
    destruct (convert_graph_struct teqb tltb teqb_spec tltb_asym tltb_total g weighted gu W Hgu)
      as [Wu [Hperm [Hattr [Hmul [_ [Hone Hnn]]]]]].
    assert (Hw : forall e, In e (get_all_edges gu) -> exists z, ew e = Some z /\ (0 <= z)%Z).
    { destruct weighted.
      - apply Hnn. apply Hwok. reflexivity.
      - intros e He. exists 1%Z. split; [apply Hone; [reflexivity | exact He] | lia]. }
    destruct (size_q_total gu weighted) as (m & Hsz).
    { intros e He. destruct (Hw e He) as (z & Hz & _). eauto. }
    destruct (first_graph teqb tltb teqb_spec tltb_asym tltb_total g weighted gu m W Hwok Hgu Hsz)
      as [LG [HF [AO [Hmt [Hmp [Hsing Hstart]]]]]].
    set (N := length (nodes_vec g)) in *. rewrite Hsing.
    destruct (singletons_modularity_ok gu N weighted res LG) as (mod0 & ->). cbn [unwrap_res bind].
    rewrite Hsz. cbn [bind].
    assert (HlenS : length (map (fun k : nat => [k]) (seq 0 N)) = N) by (rewrite map_length, seq_length; reflexivity).
    destruct (shuffled_total gu perms N Hsh) as (order & Hord).
    { change (length (get_all_nodes gu)) with (length (nodes_vec gu)).
      rewrite <- (map_length nname (nodes_vec gu)). change (map nname (nodes_vec gu)) with (gnames gu).
      rewrite (Permutation_length Hperm), seq_length. fold N. lia. }
    destruct (level_total gu N LG m res Hmp Hres sf _ perms order HlenS Hstart Hord Hsf) as [p1 [i1 [b [tie1 [Hc _]]]]].
    rewrite Hc. cbn [bind].
    destruct (compute_one_level_struct sf gu m _ res perms N (seq 0 N) p1 i1 b tie1 (lg_names gu N LG) AO HlenS Hstart Hc)
      as [HPI _].
    assert (HL : LInv (wedges gu) (directed (sp gu)) (seq 0 N) gu N p1 i1)
      by (constructor; [exact LG | reflexivity | exact HF | exact AO | exact HPI]).
    pose proof (level_result_length gu N LG m res Hmp Hres sf _ perms p1 i1 b tie1 HlenS Hstart Hc) as Hlen1.
    destruct (level_loop_total (wedges gu) (directed (sp gu)) (seq 0 N) m res Hmt Hmp Hres
                lf sf weighted thr perms gu N p1 i1 mod0 [] tie1 N HL) as ((levels & tie) & Hl);
      [lia | exact Hlen1 | exact Hsf | exact Hsh |].
    rewrite Hl. cbn [bind].
    assert (Hlv : levels_ok (seq 0 N) levels).
    { apply (level_loop_levels lf sf weighted res thr perms m (seq 0 N) gu N p1 i1 mod0 [] tie1 levels tie
               (lg_names gu N LG) AO HPI); [constructor | cbn; exact I | exact Hl]. }
    destruct (convert_back_total teqb tltb g levels W) as (ls & ->); [|cbn [bind]; eauto].
    intros lv c u Hlvi Hc' Hu. destruct Hlv as (_ & Hall & _). rewrite Forall_forall in Hall.
    destruct (Hall lv Hlvi) as ((_ & Hin & _) & _). specialize (Hin c u Hc' Hu). apply in_seq in Hin. fold N. lia.
  Qed.

  (* FULL: on every coherent graph without negative weight (when weighted), every resolution >= 0,
     every threshold, with the closed-form fuel and a well-formed shuffle table, both entry points
     RETURN a value - no Panic site, no fuel exhaustion, no Err (not even NoPartitions) *)
  Theorem louvain_total :
    forall lf sf (g : gstate T A) weighted res thr perms,
      WF teqb tltb g -> weights_ok g weighted -> 0 <= res ->
      (length (nodes_vec g) < lf)%nat -> (length (nodes_vec g) ^ length (nodes_vec g) <= sf)%nat ->
      shuffle_ok perms (length (nodes_vec g)) ->
      exists ls, louvain_partitions teqb tltb lf sf g weighted res thr perms = Ok ls /\
                 levels_ok (map nname (nodes_vec g)) ls /\
                 louvain_communities teqb tltb lf sf g weighted res thr perms = Ok (last ls []).
  Proof.
    intros lf sf g weighted res thr perms W Hwok Hres Hlf Hsf Hsh.
    destruct (louvain_partitions_t_total lf sf g weighted res thr perms W Hwok Hres Hlf Hsf Hsh) as ((ls & tie) & Ht).
    assert (Hp : louvain_partitions teqb tltb lf sf g weighted res thr perms = Ok ls).
    { unfold louvain_partitions. rewrite Ht. reflexivity. }
    exists ls. split; [exact Hp|]. split.
    - exact (louvain_partitions_levels_ok teqb tltb teqb_spec tltb_asym tltb_total lf sf g weighted res thr perms ls W Hp).
    - exact (proj1 (louvain_communities_of_partitions teqb tltb teqb_spec tltb_asym tltb_total
                      lf sf g weighted res thr perms ls W Hp)).
  Qed.

  (* With the guard of F23 in the model the non-negativity half of [weights_ok] is no longer a
     hypothesis: a weighted call on a graph all of whose edges HAVE a weight is answered either by
     the guard (some weight is negative: InvalidArgument from both entry points) or, the weights
     being non-negative, by [louvain_total]. *)
  Definition has_negative_edge (g : gstate T A) : Prop :=
    exists e z, In e (get_all_edges g) /\ ew e = Some z /\ (z < 0)%Z.

  Theorem louvain_total_guarded :
    forall lf sf (g : gstate T A) weighted res thr perms,
      WF teqb tltb g -> (weighted = true -> all_real (get_all_edges g)) -> 0 <= res ->
      (length (nodes_vec g) < lf)%nat -> (length (nodes_vec g) ^ length (nodes_vec g) <= sf)%nat ->
      shuffle_ok perms (length (nodes_vec g)) ->
      (weighted = true /\ has_negative_edge g /\
       louvain_partitions teqb tltb lf sf g weighted res thr perms = Err InvalidArgument /\
       louvain_communities teqb tltb lf sf g weighted res thr perms = Err InvalidArgument) \/
      (weights_ok g weighted /\
       exists ls, louvain_partitions teqb tltb lf sf g weighted res thr perms = Ok ls /\
                  levels_ok (map nname (nodes_vec g)) ls /\
                  louvain_communities teqb tltb lf sf g weighted res thr perms = Ok (last ls [])).
  Proof.
    intros lf sf g weighted res thr perms W Hreal Hres Hlf Hsf Hsh.
    destruct (negative_weight_guard g weighted) eqn:Hg.
    - left. unfold negative_weight_guard in Hg. apply andb_true_iff in Hg. destruct Hg as [Hw Hn].
      apply has_negative_weight_true_iff in Hn. split; [exact Hw|]. split; [exact Hn|].
      destruct (louvain_negative_weights_rejected teqb tltb lf sf g weighted res thr perms Hw Hn) as [_ [Hp Hc]].
      split; assumption.
    - right. pose proof (guard_false_weights_ok g weighted Hg Hreal) as Hwok. split; [exact Hwok|].
      exact (louvain_total lf sf g weighted res thr perms W Hwok Hres Hlf Hsf Hsh).
  Qed.

  (* hence, on these inputs, InvalidArgument is returned for the graphs with a negative weight and
     ONLY for them *)
  Corollary louvain_invalid_argument_iff :
    forall lf sf (g : gstate T A) weighted res thr perms,
      WF teqb tltb g -> (weighted = true -> all_real (get_all_edges g)) -> 0 <= res ->
      (length (nodes_vec g) < lf)%nat -> (length (nodes_vec g) ^ length (nodes_vec g) <= sf)%nat ->
      shuffle_ok perms (length (nodes_vec g)) ->
      (louvain_partitions teqb tltb lf sf g weighted res thr perms = Err InvalidArgument <->
       weighted = true /\ has_negative_edge g) /\
      (louvain_communities teqb tltb lf sf g weighted res thr perms = Err InvalidArgument <->
       weighted = true /\ has_negative_edge g).
  Proof.
    intros lf sf g weighted res thr perms W Hreal Hres Hlf Hsf Hsh.
    destruct (louvain_total_guarded lf sf g weighted res thr perms W Hreal Hres Hlf Hsf Hsh)
      as [[Hw [Hn [Hp Hc]]]|[_ [ls [Hp [_ Hc]]]]].
    - split; split; auto.
    - split; split; try (intro H; congruence); intros [Hw Hn];
        destruct (louvain_negative_weights_rejected teqb tltb lf sf g weighted res thr perms Hw Hn) as [_ [Hp' Hc']];
        congruence.
  Qed.
End EntryTotal.
