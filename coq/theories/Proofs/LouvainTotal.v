(* C20 / C13: the Louvain model reaches NO Panic site.  The C13 development proves what a returned
   value is and that the fuel suffices; every structural lemma there starts from "the step returned
   Ok".  This file proves that each step DOES return Ok on the states the invariants describe:
   generate_graph (get_node / node2com unwraps, add_node, get_edge, add_edge), modularity on a level
   graph, size, the level loop, convert_graph (to_single_edges / set_all_edge_weights / node_map
   unwraps, the constructor's Result), convert_back.  The one hypothesis that is not about the graph
   is on the model's shuffle oracle [perms] (the table standing for the seeded `shuffle`): it has,
   for every node count k that can occur, a row of k indexes below k. *)
From Coq Require Import String List Bool ZArith Arith Lia Permutation QArith.
From GV Require Import Base.Outcome Base.AMap Model.GState Model.Creation Model.Query Model.Derived
     Model.Partition Model.Louvain Spec.AGraph Spec.PartitionDef Spec.History
     Proofs.AMapOk Proofs.WFDefs Proofs.WFNode Proofs.Refine Proofs.CreationNodes Proofs.QueryOk
     Proofs.AdjOk Proofs.DerivedContent Proofs.HistoryOk Proofs.DegreeOk Proofs.QueryTotal
     Proofs.LouvainOk Proofs.MoveGainOk Proofs.LouvainSets Proofs.LouvainStructOk
     Proofs.PartitionOk Proofs.AggregationOk Proofs.LouvainGenGraphOk.
Import ListNotations.
Open Scope list_scope.
Open Scope nat_scope.

Lemma ofold_total_inv : forall {S X} (Inv : S -> Prop) (f : S -> X -> outcome S) (l : list X) (P : X -> Prop),
  (forall s x, Inv s -> P x -> exists s', f s x = Ok s' /\ Inv s') ->
  (forall x, In x l -> P x) ->
  forall s, Inv s -> exists s', ofold f l s = Ok s' /\ Inv s'.
Proof.
  intros S X Inv f l P Hstep. induction l as [|x t IH]; intros HP s Hs; cbn [ofold]; [eauto|].
  destruct (Hstep s x Hs (HP x (or_introl eq_refl))) as (s1 & -> & Hs1). cbn [bind].
  apply IH; [intros y Hy; apply HP; right; exact Hy | exact Hs1].
Qed.

(* ---------------------------------------------------------------- generate_graph *)
Section GenGraphTotal.
  Variable g : lgraph.
  Hypothesis W : WFn g.

  Lemma gg_inner_total i nd acc : In nd (namesn g) -> exists r, gg_inner g i acc nd = Ok r.
  Proof.
    intros Hnd. destruct acc as [n2c nodes]. unfold gg_inner.
    rewrite (get_node_spec Nat.eqb Nat.ltb neqb_spec g nd W). cbn [unwrap_res bind].
    destruct (find (fun n : lnode => Nat.eqb (nname n) nd) (nodes_vec g)) as [nobj|] eqn:Ef.
    - cbn [unwrap_at bind]. eauto.
    - exfalso. exact (find_in_names Nat.eqb neqb_spec g nd Hnd Ef).
  Qed.

  Lemma gg_inner_fold_total i part : (forall u, In u part -> In u (namesn g)) ->
    forall acc, exists r, ofold (gg_inner g i) part acc = Ok r.
  Proof.
    intros Hp acc.
    destruct (ofold_total_inv (fun _ => True) (gg_inner g i) part (fun u => In u (namesn g))) with (s := acc)
      as (r & Hr & _); [|exact Hp|exact I|eauto].
    intros s x _ Hx. destruct (gg_inner_total i x s Hx) as (r & Hr). eauto.
  Qed.

  Lemma gg_outer_total pre ng n2c part :
    P1 g pre ng n2c -> (forall u, In u part -> In u (namesn g)) ->
    exists r, gg_outer g (ng, n2c) (part, length pre) = Ok r.
  Proof.
    intros HP Hpart. unfold gg_outer.
    destruct (gg_inner_fold_total (length pre) part Hpart (n2c, [])) as ((n2c' & nodes) & ->). cbn [bind].
    assert (Hfresh : ~ In (nname (mknode (length pre) (Some nodes))) (namesn ng)).
    { rewrite (p1_names _ _ _ _ HP). cbn [nname]. rewrite in_seq. lia. }
    destruct (WFNode.add_node_fresh Nat.eqb Nat.ltb neqb_spec ng _ (p1_wf _ _ _ _ HP) Hfresh) as (g' & -> & _).
    cbn [bind]. eauto.
  Qed.

  Lemma gg_outer_fold_total : forall rest pre ng n2c,
    P1 g pre ng n2c -> (forall l u, In l rest -> In u l -> In u (namesn g)) ->
    exists ng' n2c', ofold (gg_outer g) (enumerate_from (length pre) rest) (ng, n2c) = Ok (ng', n2c') /\
                     P1 g (pre ++ rest) ng' n2c'.
  Proof.
    induction rest as [|part t IH]; intros pre ng n2c HP Hr; cbn [enumerate_from ofold].
    - exists ng, n2c. split; [reflexivity|]. rewrite app_nil_r. exact HP.
    - destruct (gg_outer_total pre ng n2c part HP (fun u Hu => Hr part u (or_introl eq_refl) Hu)) as ((ng1 & n2c1) & H1).
      rewrite H1. cbn [bind].
      pose proof (gg_outer_step g pre ng n2c part ng1 n2c1 HP H1) as HP1.
      destruct (IH (pre ++ [part]) ng1 n2c1 HP1 (fun l u Hl Hu => Hr l u (or_intror Hl) Hu)) as (ng' & n2c' & H2 & HP2).
      rewrite app_length in H2. cbn [length] in H2. rewrite Nat.add_1_r in H2.
      exists ng', n2c'. split; [exact H2|]. rewrite <- app_assoc in HP2. exact HP2.
  Qed.

  (* phase 2: one edge.  The new graph allows self-loops and keeps the last of two edges on a
     pair, so add_edge cannot refuse an edge between two existing nodes *)
  Lemma gg_edge_total n2c (ng : lgraph) (e : ledge) :
    WFn ng -> selfloops (sp ng) = true -> dd (sp ng) = DKeepLast ->
    (forall u c, lookup Nat.eqb u n2c = Some c -> In c (namesn ng)) ->
    (exists c, lookup Nat.eqb (eu e) n2c = Some c) -> (exists c, lookup Nat.eqb (ev e) n2c = Some c) ->
    exists ng', gg_edge n2c ng e = Ok ng'.
  Proof.
    intros Wn Hsl Hdd Hn2c (c1 & H1) (c2 & H2). unfold gg_edge. rewrite H1, H2. cbn [unwrap_at bind].
    pose proof (get_edge_total Nat.eqb Nat.ltb neqb_spec nltb_asym nltb_total ng c1 c2 Wn) as Hge.
    set (old := match get_edge Nat.eqb ng c1 c2 with
                | Ok x => Ok (ew x) | Err _ => Ok (Some 0%Z) | Panic st => Panic st | OutOfFuel => OutOfFuel end).
    assert (Hold : exists o, old = Ok o).
    { unfold old. destruct (get_edge Nat.eqb ng c1 c2); try discriminate; eauto. }
    destruct Hold as (o & ->). cbn [bind].
    set (e' := mkedge c1 c2 (wadd (ew e) o) (None : option (list nat))).
    pose proof (add_edge_refines Nat.eqb Nat.ltb neqb_spec nltb_asym nltb_total ng e' Wn) as (_ & Hout & _).
    rewrite spec_add_edge_known in Hout.
    - cbn [snd] in Hout. destruct (add_edge Nat.eqb Nat.ltb ng e') as [ng' r]. cbn [snd] in Hout. subst r. eauto.
    - apply (a_has_names Nat.eqb neqb_spec). cbn [e' eu]. exact (Hn2c _ _ H1).
    - apply (a_has_names Nat.eqb neqb_spec). cbn [e' ev]. exact (Hn2c _ _ H2).
    - exact Hsl.
    - exact Hdd.
  Qed.

  Theorem generate_graph_total (I : list (list nat)) :
    (forall l u, In l I -> In u l -> In u (namesn g)) ->
    (forall u, In u (namesn g) -> exists l, In l I /\ In u l) ->
    exists g2, generate_graph g I = Ok g2.
  Proof.
    intros Hin Hcov. rewrite generate_graph_unfold.
    destruct (gg_outer_fold_total I [] (new (gg_specs (sp g))) [] (P1_start g) Hin) as (ng0 & n2c & H1 & HP).
    cbn [length app] in H1, HP. rewrite H1. cbn [bind].
    assert (Hlk : forall u, In u (namesn g) -> exists c, lookup Nat.eqb u n2c = Some c).
    { intros u Hu. destruct (Hcov u Hu) as (l & Hl & Hul). apply In_nth_error in Hl. destruct Hl as (i & Hi).
      exact (p1_n2c_b _ _ _ _ HP u i l Hi Hul). }
    destruct (ofold_total_inv
                (fun ng : lgraph => WFn ng /\ sp ng = sp ng0 /\ nodes_vec ng = nodes_vec ng0)
                (gg_edge n2c) (sort_by edge_ltb (get_all_edges g))
                (fun e : ledge => In e (get_all_edges g))) with (s := ng0) as (g2 & Hg2 & _).
    - intros ng e (Wn & Hsp & Hvec) He.
      assert (Hn : forall u c, lookup Nat.eqb u n2c = Some c -> In c (namesn ng)).
      { intros u c Hc. unfold names. rewrite Hvec. exact (P1_n2c_names _ _ _ _ HP u c Hc). }
      destruct (endpoints_in_names Nat.eqb Nat.ltb neqb_spec g e W He) as (Iu & Iv).
      destruct (gg_edge_total n2c ng e Wn) as (ng' & Hstep).
      + rewrite Hsp, (p1_sp _ _ _ _ HP). reflexivity.
      + rewrite Hsp, (p1_sp _ _ _ _ HP). reflexivity.
      + exact Hn.
      + exact (Hlk _ Iu).
      + exact (Hlk _ Iv).
      + exists ng'. split; [exact Hstep|].
        destruct (gg_edge_step n2c ng e ng' Wn Hn Hstep) as (_ & _ & _ & _ & _ & _ & _ & W1 & Hsp1 & Hvec1).
        split; [exact W1|]. split; congruence.
    - intros e He. apply (Permutation_in _ (sort_by_permutation edge_ltb (get_all_edges g))). exact He.
    - split; [exact (p1_wf _ _ _ _ HP)|]. split; reflexivity.
    - eauto.
  Qed.
End GenGraphTotal.
