(* C13, deepening: TRANSPORT of Newman's modularity between the input graph and the
   integer-named working graph of louvain_partitions.  For a non-multi coherent input graph g,
   the working graph gu = convert_graph g has, for every family of sets of integers, the same
   modularity as g (on its own weighted edge list) has for the renamed family; convert_back
   produces (up to the order inside a community) exactly that renamed family.  Hence the
   monotonicity of the levels proved on gu (Proofs/LouvainModelOk.v) holds on g itself. *)
From Coq Require Import String List Bool ZArith Arith QArith Lia Lqa Permutation Setoid Morphisms.
From GV Require Import Base.Outcome Base.AMap Model.GState Model.Creation Model.Query Model.Derived
     Model.Partition Model.Louvain Spec.AGraph Spec.PartitionDef.
From GV Require Import Proofs.AMapOk Proofs.WFDefs Proofs.WFNode Proofs.Refine Proofs.HistoryOk Proofs.QueryOk
     Proofs.DegreeOk Proofs.CreationRebuild Proofs.DerivedContent Proofs.DerivedOk
     Proofs.PartitionOk Proofs.MoveGainOk Proofs.AggregationOk
     Proofs.LouvainSets Proofs.LouvainStructOk Proofs.LouvainNumOk
     Proofs.LouvainAggOk Proofs.LouvainConvertOk Proofs.LouvainModelOk.
Import ListNotations.
Open Scope Q_scope.

(* ---------------- the constructor on a list of pairwise distinct, accepted edges ---------------- *)
Section Build.
  Context {T A : Type}.
  Variable teqb : T -> T -> bool.
  Variable tltb : T -> T -> bool.
  Hypothesis teqb_spec : forall x y, teqb x y = true <-> x = y.
  Hypothesis tltb_asym : forall x y, tltb x y = true -> tltb y x = false.
  Hypothesis tltb_total : forall x y, tltb x y = false -> tltb y x = false -> x = y.

  Notation all_edges := (fun g : gstate T A => flat_map snd (edges g)).
  Notation samep := (@CreationRebuild.same_pair T A).

  (* two canonically oriented edges on the same stored pair come from the same pair up to orientation *)
  Lemma canon_same_pair : forall s (e e' : edge T A),
    AGraph.same_pair teqb (canon tltb s e) (canon tltb s e') = true -> samep s e e'.
  Proof.
    intros s e e' H. unfold AGraph.same_pair in H. apply andb_true_iff in H. destruct H as [H1 H2].
    apply teqb_spec in H1. apply teqb_spec in H2. unfold canon in H1, H2. unfold CreationRebuild.same_pair.
    destruct (directed s) eqn:Ed; cbn [negb andb] in H1, H2; [left; split; assumption|].
    destruct (tltb (ev e) (eu e)); destruct (tltb (ev e') (eu e')); cbn [a_reversed eu ev] in H1, H2.
    - left. split; assumption.
    - right. split; [reflexivity|]. split; assumption.
    - right. split; [reflexivity|]. split; assumption.
    - left. split; assumption.
  Qed.

  (* an accepted edge that is neither a forbidden self-loop nor a repeated pair is appended *)
  Lemma spec_add_edge_fresh : forall (a : agraph T A) e,
    (selfloops (a_sp a) = false -> eu e <> ev e) ->
    (forall x, In x (a_edges a) -> AGraph.same_pair teqb (canon tltb (a_sp a) e) x = false) ->
    snd (spec_add_edge teqb tltb a e) = Ok tt ->
    a_edges (fst (spec_add_edge teqb tltb a e)) = a_edges a ++ [canon tltb (a_sp a) e].
  Proof.
    intros a e Hsl Hnew Hok. unfold spec_add_edge in *.
    assert (E0 : negb (selfloops (a_sp a)) && teqb (eu e) (ev e) = false).
    { destruct (selfloops (a_sp a)) eqn:Es; [reflexivity|]. cbn [negb andb].
      destruct (teqb (eu e) (ev e)) eqn:Et; [|reflexivity]. apply teqb_spec in Et.
      exfalso. exact (Hsl eq_refl Et). }
    rewrite E0 in *.
    destruct ((match ms (a_sp a) with MErr => true | MCreate => false end) &&
              negb (a_has teqb a (eu e) && a_has teqb a (ev e))); [cbn [snd] in Hok; discriminate|].
    set (a2 := ensure_node teqb (ensure_node teqb a (eu e)) (ev e)) in *.
    assert (E2 : a_edges a2 = a_edges a) by (unfold a2; rewrite !ensure_node_edges; reflexivity).
    destruct (multi (a_sp a)); [cbn [fst a_edges]; rewrite E2; reflexivity|].
    assert (Ex : existsb (AGraph.same_pair teqb (canon tltb (a_sp a) e)) (a_edges a2) = false).
    { destruct (existsb _ _) eqn:Ex; [|reflexivity]. apply existsb_exists in Ex.
      destruct Ex as [x [Hx Hs]]. rewrite E2 in Hx. rewrite (Hnew x Hx) in Hs. discriminate. }
    rewrite Ex. cbn [fst a_edges]. rewrite E2. reflexivity.
  Qed.

  Lemma add_edges_perm : forall es (g : gstate T A) done g',
    WF teqb tltb g ->
    Permutation (all_edges g) (map (canon tltb (sp g)) done) ->
    (forall e, In e es -> selfloops (sp g) = false -> eu e <> ev e) ->
    (forall e e', In e es -> In e' done -> ~ samep (sp g) e e') ->
    distinct_pairs (sp g) es ->
    add_edges teqb tltb g es = (g', Ok tt) ->
    Permutation (all_edges g') (map (canon tltb (sp g)) (done ++ es)).
  Proof.
    induction es as [|e0 es IH]; intros g done g' W Hp Hsl Hd Hdis H; cbn [add_edges] in H.
    - inversion H. subst g'. rewrite app_nil_r. exact Hp.
    - destruct (add_edge_refines teqb tltb teqb_spec tltb_asym tltb_total g e0 W)
        as (W1 & Hsnd & Hsp1 & _ & Hp1 & _).
      destruct (add_edge teqb tltb g e0) as [g1 r] eqn:E1. cbn [fst snd] in *.
      destruct r as [[]| | |]; try (inversion H; fail).
      assert (Hfresh : a_edges (fst (spec_add_edge teqb tltb (Abs g) e0)) =
                       a_edges (Abs g) ++ [canon tltb (a_sp (Abs g)) e0]).
      { apply spec_add_edge_fresh.
        - cbn [Abs a_sp]. apply Hsl. left. reflexivity.
        - cbn [Abs a_sp a_edges]. intros x Hx. apply (Permutation_in _ Hp) in Hx.
          apply in_map_iff in Hx. destruct Hx as [e' [<- He']].
          destruct (AGraph.same_pair teqb (canon tltb (sp g) e0) (canon tltb (sp g) e')) eqn:Es; [|reflexivity].
          exfalso. apply canon_same_pair in Es. apply (Hd e0 e' (or_introl eq_refl) He'). exact Es.
        - symmetry. exact Hsnd. }
      rewrite Hfresh in Hp1. cbn [Abs a_sp a_edges] in Hp1.
      cbn [distinct_pairs] in Hdis. destruct Hdis as [Hhead Htail].
      replace (done ++ e0 :: es) with ((done ++ [e0]) ++ es) by (rewrite <- app_assoc; reflexivity).
      rewrite <- Hsp1. apply (IH g1 (done ++ [e0]) g' W1).
      + rewrite Hsp1. eapply Permutation_trans; [exact Hp1|]. rewrite map_app. cbn [map].
        apply Permutation_app_tail. exact Hp.
      + rewrite Hsp1. intros e He. apply Hsl. right. exact He.
      + rewrite Hsp1. intros e e' He He'. apply in_app_iff in He'. destruct He' as [He'|[<-|[]]].
        * apply Hd; [right; exact He | exact He'].
        * apply Hhead. exact He.
      + rewrite Hsp1. exact Htail.
      + exact H.
  Qed.

  Theorem new_from_perm : forall (ns : list (node T A)) (es : list (edge T A)) s g,
    (forall e, In e es -> selfloops s = false -> eu e <> ev e) ->
    distinct_pairs s es ->
    new_from_nodes_and_edges teqb tltb ns es s = Ok g ->
    Permutation (get_all_edges g) (map (canon tltb s) es).
  Proof.
    intros ns es s g Hsl Hdis H. unfold new_from_nodes_and_edges in H.
    destruct (add_nodes_WF teqb tltb teqb_spec ns (new s) (WF_new teqb tltb s)) as (g1 & H1 & W1 & Ha).
    rewrite H1 in H. cbn [bind] in H.
    assert (E1 : all_edges g1 = []).
    { change (a_edges (Abs g1) = []). rewrite Ha, spec_add_nodes_edges. reflexivity. }
    assert (Hs1 : sp g1 = s).
    { rewrite (add_nodes_sp teqb tltb teqb_spec ns (new s) g1 (WF_new teqb tltb s) H1).
      reflexivity. }
    destruct (add_edges teqb tltb g1 es) as [g2 r] eqn:E2.
    destruct r as [[]| | |]; inversion H. subst g2.
    unfold get_all_edges. rewrite <- Hs1.
    apply (add_edges_perm es g1 [] g W1).
    - rewrite E1. apply Permutation_refl.
    - rewrite Hs1. exact Hsl.
    - intros e e' _ [].
    - rewrite Hs1. exact Hdis.
    - exact E2.
  Qed.
End Build.

(* ---------------- Newman's modularity: what it depends on ---------------- *)
Lemma wsel_perm : forall {T} (p : @wedge T -> bool) a b, Permutation a b -> wsel p a == wsel p b.
Proof.
  intros T p a b H. induction H as [|x a b _ IH|x y a|a b c _ IH1 _ IH2].
  - reflexivity.
  - rewrite !wsel_cons. destruct (p x); rewrite IH; reflexivity.
  - rewrite !wsel_cons. destruct (p x), (p y); ring.
  - rewrite IH1. exact IH2.
Qed.

Lemma newman_perm_edges : forall dirb (A B : list wedgeN) res X, Permutation A B ->
  newman Nat.eqb dirb A res X == newman Nat.eqb dirb B res X.
Proof. intros dirb A B res X H. apply newman_of_wsel. intros p _. apply wsel_perm. exact H. Qed.

Lemma newman_canon : forall dirb (es : list wedgeN) res X,
  newman Nat.eqb dirb (map (canon_e (negb dirb)) es) res X == newman Nat.eqb dirb es res X.
Proof.
  intros dirb es res X. destruct dirb.
  - rewrite map_canon_directed. reflexivity.
  - cbn [negb]. unfold newman. apply qsum_ext. intros c _.
    rewrite (L_of_canon true es c), (K_of_canon true es c), (total_w_canon true es). reflexivity.
Qed.

Lemma newman_perm_comms : forall {T} (teqb : T -> T -> bool) dirb es res X Y, Permutation X Y ->
  newman teqb dirb es res X == newman teqb dirb es res Y.
Proof. intros T teqb dirb es res X Y H. unfold newman. apply qsum_perm. apply Permutation_map. exact H. Qed.

Section NewmanExt.
  Context {T : Type}.
  Variable teqb : T -> T -> bool.
  Hypothesis teqb_spec : forall x y, teqb x y = true <-> x = y.
  Variable es : list (@wedge T).

  Lemma memb_ext_In : forall X Y, (forall x, In x X <-> In x Y) ->
    forall x, PartitionDef.memb teqb x X = PartitionDef.memb teqb x Y.
  Proof.
    intros X Y H x. destruct (PartitionDef.memb teqb x Y) eqn:E.
    - apply (memb_In teqb teqb_spec). apply H. apply (memb_In teqb teqb_spec). exact E.
    - apply (memb_false teqb teqb_spec). intro Hx. apply H in Hx.
      apply (memb_In teqb teqb_spec) in Hx. congruence.
  Qed.

  Lemma newman_ext_gen : forall dirb res X Y,
    Forall2 (fun a b => forall x, In x a <-> In x b) X Y ->
    newman teqb dirb es res X == newman teqb dirb es res Y.
  Proof.
    intros dirb res X Y H. unfold newman. induction H as [|a b X' Y' Hab _ IH]; [reflexivity|].
    cbn [map qsum]. rewrite IH.
    assert (HL : L_of teqb es a == L_of teqb es b).
    { unfold L_of. apply wsel_ext. intros e _. rewrite !(memb_ext_In a b Hab). reflexivity. }
    assert (HO : Kout_of teqb es a == Kout_of teqb es b).
    { unfold Kout_of. apply wsel_ext. intros e _. rewrite !(memb_ext_In a b Hab). reflexivity. }
    assert (HI : Kin_of teqb es a == Kin_of teqb es b).
    { unfold Kin_of. apply wsel_ext. intros e _. rewrite !(memb_ext_In a b Hab). reflexivity. }
    destruct dirb; unfold K_of; rewrite HL, HO, HI; reflexivity.
  Qed.
End NewmanExt.

Lemma F2_eq_map : forall {X Y} (f : X -> Y) a b, Forall2 (fun x y => y = f x) a b -> b = map f a.
Proof. intros X Y f a b H. induction H as [|x y a b Hxy _ IH]; [reflexivity|]. cbn [map]. rewrite Hxy, IH. reflexivity. Qed.

Lemma F2_seq_nth : forall {X} (l pre : list X),
  Forall2 (fun k x => nth_error (pre ++ l) k = Some x) (seq (length pre) (length l)) l.
Proof.
  intros X l. induction l as [|x t IH]; intro pre; cbn [length seq]; [constructor|]. constructor.
  - rewrite nth_error_app2 by lia. rewrite Nat.sub_diag. reflexivity.
  - specialize (IH (pre ++ [x])). rewrite <- app_assoc, app_length in IH. cbn [app length] in IH.
    rewrite Nat.add_1_r in IH. exact IH.
Qed.

(* the abstract weighted edge of an edge with a real weight / of any edge when unweighted *)
Section WedgesOf.
  Context {T A : Type}.
  Definition zwT (e : edge T A) : Z := match ew e with Some z => z | None => 0%Z end.
  Definition wqT (e : edge T A) : T * T * Q := (eu e, ev e, inject_Z (zwT e)).

  Lemma wedges_of_true_gen : forall (l : list (edge T A)) es,
    wedges_of true l = Some es -> es = map wqT l.
  Proof.
    induction l as [|e t IH]; intros es H; cbn [wedges_of] in H.
    - inversion H. reflexivity.
    - unfold wedge_of in H. destruct (ew e) as [z|] eqn:Ez; [|discriminate].
      destruct (wedges_of true t) as [r|] eqn:Er; [|discriminate]. inversion H. subst es.
      cbn [map]. unfold wqT at 1, zwT. rewrite Ez. rewrite (IH r eq_refl). reflexivity.
  Qed.

  Lemma wedges_of_false_gen : forall (l : list (edge T A)) es,
    wedges_of false l = Some es -> es = map (fun e => (eu e, ev e, 1)) l.
  Proof.
    induction l as [|e t IH]; intros es H; cbn [wedges_of] in H.
    - inversion H. reflexivity.
    - unfold wedge_of in H. destruct (wedges_of false t) as [r|] eqn:Er; [|discriminate]. inversion H. subst es.
      cbn [map]. rewrite (IH r eq_refl). reflexivity.
  Qed.
End WedgesOf.

(* ---------------- the transport ---------------- *)
Section Transport.
  Context {T A : Type}.
  Variable teqb tltb : T -> T -> bool.
  Hypothesis teqb_spec : forall x y, teqb x y = true <-> x = y.
  Hypothesis tltb_asym : forall x y, tltb x y = true -> tltb y x = false.
  Hypothesis tltb_total : forall x y, tltb x y = false -> tltb y x = false -> x = y.

  Notation all_edges := (fun g : gstate T A => flat_map snd (edges g)).

  Definition com_of (g : gstate T A) (x : T) : nat :=
    match lookup teqb x (node_map_of tltb g) with Some i => i | None => 0%nat end.

  (* the renaming of an edge *)
  Definition ren (g : gstate T A) (e : edge T A) : ledge :=
    mkedge (com_of g (eu e)) (com_of g (ev e)) (ew e) None.

  Notation sorted_names g := (sort_by tltb (map nname (nodes_vec g))).

  Lemma sorted_names_facts : forall (g : gstate T A), WF teqb tltb g ->
    NoDup (sorted_names g) /\ (forall x, In x (sorted_names g) <-> In x (names g)) /\
    length (sorted_names g) = length (nodes_vec g).
  Proof.
    intros g W. pose proof (sort_by_permutation tltb (map nname (nodes_vec g))) as Hp. split; [|split].
    - apply (Permutation_NoDup (Permutation_sym Hp)). apply (wf_nodup _ _ _ W).
    - intro x. split; [apply (Permutation_in _ Hp) | apply (Permutation_in _ (Permutation_sym Hp))].
    - rewrite (Permutation_length Hp), map_length. reflexivity.
  Qed.

  Lemma com_of_nth : forall (g : gstate T A) j x, WF teqb tltb g ->
    nth_error (sorted_names g) j = Some x -> com_of g x = j.
  Proof.
    intros g j x W Hj. destruct (sorted_names_facts g W) as [Hnd _].
    unfold com_of, node_map_of, get_all_nodes.
    rewrite (nth_lookup_enum teqb teqb_spec _ 0 x j Hnd Hj). reflexivity.
  Qed.

  Lemma com_of_name : forall (g : gstate T A) x, WF teqb tltb g -> In x (names g) ->
    nth_error (sorted_names g) (com_of g x) = Some x.
  Proof.
    intros g x W Hx. destruct (sorted_names_facts g W) as [_ [Hin _]].
    apply Hin in Hx. apply In_nth_error in Hx. destruct Hx as [j Hj].
    rewrite (com_of_nth g j x W Hj). exact Hj.
  Qed.

  Lemma com_of_inj : forall (g : gstate T A) x y, WF teqb tltb g -> In x (names g) -> In y (names g) ->
    com_of g x = com_of g y -> x = y.
  Proof.
    intros g x y W Hx Hy E. pose proof (com_of_name g x W Hx) as H1. pose proof (com_of_name g y W Hy) as H2.
    rewrite E in H1. congruence.
  Qed.

  Lemma com_of_lookup : forall (g : gstate T A) x u, lookup teqb x (node_map_of tltb g) = Some u -> com_of g x = u.
  Proof. intros g x u H. unfold com_of. rewrite H. reflexivity. Qed.

  Lemma distinct_pairs_ren : forall (g : gstate T A) s (l : list (edge T A)), WF teqb tltb g ->
    (forall e, In e l -> In (eu e) (names g) /\ In (ev e) (names g)) ->
    distinct_pairs s l -> distinct_pairs s (map (ren g) l).
  Proof.
    intros g s l W. induction l as [|e t IH]; intros Hin Hd; cbn [map distinct_pairs]; [exact I|].
    cbn [distinct_pairs] in Hd. destruct Hd as [Hhead Htail]. split.
    - intros e' He' Hs. apply in_map_iff in He'. destruct He' as [e0 [<- He0]].
      destruct (Hin e (or_introl eq_refl)) as [Iu Iv]. destruct (Hin e0 (or_intror He0)) as [Iu0 Iv0].
      apply (Hhead e0 He0). unfold CreationRebuild.same_pair in *. cbn [ren eu ev] in Hs.
      destruct Hs as [[H1 H2]|[Hdir [H1 H2]]].
      + left. split; apply (com_of_inj g _ _ W); assumption.
      + right. split; [exact Hdir|]. split; apply (com_of_inj g _ _ W); assumption.
    - apply IH; [intros e0 He0; apply Hin; right; exact He0 | exact Htail].
  Qed.

  Lemma wq_canon : forall s (l : list ledge),
    map wq (map (canon Nat.ltb s) l) = map (canon_e (negb (directed s))) (map wq l).
  Proof.
    intros s l. rewrite !map_map. apply map_ext. intro e. unfold canon, canon_e, wq at 2 3 4.
    cbn [wu wv ww fst snd]. destruct (negb (directed s) && Nat.ltb (ev e) (eu e)); reflexivity.
  Qed.

  Lemma wq_ren : forall (g : gstate T A) (l : list (edge T A)),
    map wq (map (ren g) l) = map (relabel (com_of g)) (map wqT l).
  Proof. intros g l. rewrite !map_map. apply map_ext. intro e. reflexivity. Qed.

  (* the stored edges of the working graph *)
  Lemma convert_graph_edges : forall (g : gstate T A) weighted gu esT,
    WF teqb tltb g -> multi (sp g) = false ->
    convert_graph teqb tltb g weighted (node_map_of tltb g) = Ok gu ->
    wedges_of weighted (get_all_edges g) = Some esT ->
    Permutation (wedges gu)
                (map (canon_e (negb (directed (sp g)))) (map (relabel (com_of g)) esT)) /\
    (forall e, In e esT -> In (wu e) (names g) /\ In (wv e) (names g)).
  Proof.
    intros g weighted gu esT W Hm H HesT.
    unfold convert_graph in H. rewrite Hm in H. cbn [bind] in H.
    apply bind_ok in H. destruct H as (g2 & H2 & H).
    apply bind_ok in H. destruct H as (ns & Hns & H).
    apply bind_ok in H. destruct H as (es & Hes & H).
    apply unwrap_res_ok in H.
    assert (G2 : WF teqb tltb g2 /\ nodes_vec g2 = nodes_vec g /\ sp g2 = sp g /\
                 Permutation (map wqT (all_edges g2)) esT).
    { destruct weighted.
      - inversion H2. subst g2. split; [exact W|]. split; [reflexivity|]. split; [reflexivity|].
        rewrite (wedges_of_true_gen _ _ HesT). apply Permutation_refl.
      - destruct (set_all_edge_weights_content teqb tltb teqb_spec tltb_total g (Some 1%Z) W)
          as (h & Hh & Hv & Hs & Hp).
        rewrite H2 in Hh. inversion Hh. subst h.
        destruct (set_all_edge_weights_WF teqb tltb teqb_spec tltb_asym tltb_total g g2 _ H2) as (W2 & _).
        split; [exact W2|]. split; [exact Hv|]. split; [exact Hs|].
        rewrite (wedges_of_false_gen _ _ HesT).
        eapply Permutation_trans; [apply Permutation_map; exact Hp|].
        rewrite map_map. apply Permutation_refl. }
    destruct G2 as (W2 & Hv2 & Hs2 & HpT).
    assert (Hm2 : multi (sp g2) = false) by (rewrite Hs2; exact Hm).
    assert (Hnames2 : forall e, In e (all_edges g2) -> In (eu e) (names g) /\ In (ev e) (names g)).
    { intros e He. destruct (endpoints_in_names teqb tltb teqb_spec g2 e W2 He) as (Iu & Iv).
      unfold names in *. rewrite Hv2 in Iu, Iv. split; assumption. }
    (* the edge list handed to the constructor *)
    assert (Ees : es = map (ren g) (all_edges g2)).
    { apply omapM_ok in Hes. apply F2_eq_map. eapply F2_impl; [|exact Hes]. intros e e' Hee. cbv beta in Hee.
      apply bind_ok in Hee. destruct Hee as (u & Hu & Hee). apply unwrap_at_ok in Hu.
      apply bind_ok in Hee. destruct Hee as (v & Hv & Hee). apply unwrap_at_ok in Hv.
      inversion Hee. unfold ren. rewrite (com_of_lookup g _ _ Hu), (com_of_lookup g _ _ Hv). reflexivity. }
    assert (Hd2 : distinct_pairs (sp g2) (all_edges g2)).
    { apply (distinct_from_keys tltb tltb_total).
      - apply (stored_distinct teqb tltb teqb_spec g2 W2 Hm2).
      - intros Hd e He. apply (stored_edge_ok teqb tltb teqb_spec g2 e W2 He). exact Hd. }
    assert (Hperm : Permutation (get_all_edges gu) (map (canon Nat.ltb (sp g2)) es)).
    { apply (new_from_perm Nat.eqb Nat.ltb nat_eqb_spec nat_ltb_asym nat_ltb_total ns es (sp g2) gu); [| |exact H].
      - intros e' He' Hsl. rewrite Ees in He'. apply in_map_iff in He'. destruct He' as [e [<- He]].
        cbn [ren eu ev]. intro E. destruct (Hnames2 e He) as [Iu Iv].
        apply (com_of_inj g _ _ W Iu Iv) in E. revert E.
        apply (stored_edge_ok teqb tltb teqb_spec g2 e W2 He). exact Hsl.
      - rewrite Ees. apply (distinct_pairs_ren g (sp g2) _ W Hnames2 Hd2). }
    split.
    - unfold wedges. eapply Permutation_trans; [apply Permutation_map; exact Hperm|].
      rewrite Ees, wq_canon, wq_ren, Hs2. apply Permutation_map. apply Permutation_map. exact HpT.
    - intros e He. apply (Permutation_in _ (Permutation_sym HpT)) in He.
      apply in_map_iff in He. destruct He as [e0 [<- He0]]. apply (Hnames2 e0 He0).
  Qed.

  Theorem convert_graph_newman : forall (g : gstate T A) weighted gu esT,
    WF teqb tltb g -> multi (sp g) = false ->
    convert_graph teqb tltb g weighted (node_map_of tltb g) = Ok gu ->
    wedges_of weighted (get_all_edges g) = Some esT ->
    forall res (P' : list (list nat)),
      newman Nat.eqb (directed (sp gu)) (wedges gu) res P'
      == newman teqb (directed (sp g)) esT res (map (induced (com_of g) (map nname (nodes_vec g))) P').
  Proof.
    intros g weighted gu esT W Hm Hgu HesT res P'.
    destruct (convert_graph_struct teqb tltb teqb_spec tltb_asym tltb_total g weighted gu W Hgu)
      as (_ & _ & _ & _ & Hdir & _).
    destruct (convert_graph_edges g weighted gu esT W Hm Hgu HesT) as [Hp Hends].
    rewrite Hdir.
    rewrite (newman_perm_edges (directed (sp g)) _ _ res P' Hp).
    rewrite newman_canon.
    apply (newman_relabel teqb teqb_spec (com_of g) (map nname (nodes_vec g)) esT Hends).
  Qed.

  (* ---------------- convert_back ---------------- *)
  Definition renamed (g : gstate T A) (u : nat) (x : T) : Prop := nth_error (sorted_names g) u = Some x.

  Lemma convert_back_F2 : forall (g : gstate T A) levels ls,
    convert_back (node_map_of tltb g) levels = Ok ls ->
    Forall2 (Forall2 (Forall2 (renamed g))) levels ls.
  Proof.
    intros g levels ls H. unfold convert_back, node_map_of, get_all_nodes in H.
    apply omapM_ok in H. eapply F2_impl; [|exact H]. intros lv lv' H1. cbv beta in H1.
    apply omapM_ok in H1. eapply F2_impl; [|exact H1]. intros c c' H2. cbv beta in H2.
    apply omapM_ok in H2. eapply F2_impl; [|exact H2]. intros u x H3. cbv beta in H3.
    apply unwrap_at_ok in H3. apply lookup_rev_enum in H3. destruct H3 as (j & -> & Hj). exact Hj.
  Qed.

  Lemma renamed_induced : forall (g : gstate T A) c c', WF teqb tltb g ->
    Forall2 (renamed g) c c' ->
    forall x, In x c' <-> In x (induced (com_of g) (names g) c).
  Proof.
    intros g c c' W F x. destruct (sorted_names_facts g W) as [_ [Hin _]]. unfold induced. rewrite filter_In. split.
    - intro Hx. destruct (Forall2_In_r _ _ _ x F Hx) as (u & Hu & Hux). unfold renamed in Hux. split.
      + apply Hin. eapply nth_error_In. exact Hux.
      + apply (memb_In Nat.eqb nat_eqb_spec). rewrite (com_of_nth g u x W Hux). exact Hu.
    - intros [Hx Hc]. apply (memb_In Nat.eqb nat_eqb_spec) in Hc.
      destruct (Forall2_In_l _ _ _ _ F Hc) as (x' & Hx' & Hux'). unfold renamed in Hux'.
      rewrite (com_of_name g x W Hx) in Hux'. inversion Hux'. subst x'. exact Hx'.
  Qed.

  Lemma F2_flip : forall {X Y} (R : X -> Y -> Prop) a b, Forall2 R a b -> Forall2 (fun y x => R x y) b a.
  Proof. intros X Y R a b F. induction F; constructor; auto. Qed.

  Lemma renamed_newman : forall (g : gstate T A) level lvT, WF teqb tltb g ->
    Forall2 (Forall2 (renamed g)) level lvT ->
    forall dirb esT res,
      newman teqb dirb esT res lvT
      == newman teqb dirb esT res (map (induced (com_of g) (names g)) level).
  Proof.
    intros g level lvT W F dirb esT res. apply (newman_ext_gen teqb teqb_spec).
    apply F2_map_r. apply F2_flip. eapply F2_impl; [|exact F].
    intros c c' Fc. cbv beta. apply (renamed_induced g c c' W Fc).
  Qed.

  Theorem convert_back_newman : forall (g : gstate T A) weighted gu esT level (lvT : list (list T)),
    WF teqb tltb g -> multi (sp g) = false ->
    convert_graph teqb tltb g weighted (node_map_of tltb g) = Ok gu ->
    wedges_of weighted (get_all_edges g) = Some esT ->
    (forall c i, In c level -> In i c -> (i < length (nodes_vec g))%nat) ->
    convert_back (node_map_of tltb g) [level] = Ok [lvT] ->
    forall res, newman teqb (directed (sp g)) esT res lvT
                == newman Nat.eqb (directed (sp gu)) (wedges gu) res level.
  Proof.
    intros g weighted gu esT level lvT W Hm Hgu HesT _ Hcb res.
    apply convert_back_F2 in Hcb. inversion Hcb as [|? ? ? ? F _]. subst.
    rewrite (renamed_newman g level lvT W F).
    symmetry. apply (convert_graph_newman g weighted gu esT W Hm Hgu HesT).
  Qed.

  (* ---------------- monotonicity of the levels, on the input graph ---------------- *)
  Lemma chain_transport : forall (QN : list (list nat) -> Q) (QT : list (list T) -> Q) levels ls,
    Forall2 (fun a b => QN a == QT b) levels ls ->
    chain (fun a b => QN a <= QN b) levels -> chain (fun a b => QT a <= QT b) ls.
  Proof.
    intros QN QT levels ls F. induction F as [|a b lx ly Hab F IH]; intros Hc; [exact I|].
    cbn [chain] in *. destruct F as [|a2 b2 lx ly Hab2 F]; [exact I|].
    destruct Hc as (H1 & H2). split; [rewrite <- Hab, <- Hab2; exact H1|]. apply IH. exact H2.
  Qed.

  Lemma singletons_induced : forall (g : gstate T A), WF teqb tltb g ->
    Forall2 (fun a b => forall x : T, In x a <-> In x b)
            (map (induced (com_of g) (names g)) (map (fun k => [k]) (seq 0 (length (nodes_vec g)))))
            (map (fun x => [x]) (sorted_names g)).
  Proof.
    intros g W. destruct (sorted_names_facts g W) as [_ [Hin Hlen]].
    apply F2_map_l, F2_map_l, F2_map_r. rewrite <- Hlen.
    pose proof (F2_seq_nth (sorted_names g) []) as F. cbn [app length] in F.
    eapply F2_impl; [|exact F]. intros k x Hk y. cbv beta in Hk. unfold induced. rewrite filter_In. split.
    - intros [Hy Hc]. apply (memb_In Nat.eqb nat_eqb_spec) in Hc. destruct Hc as [Hc|[]].
      pose proof (com_of_name g y W Hy) as Hn. rewrite <- Hc, Hk in Hn. inversion Hn. left. reflexivity.
    - intros [<-|[]]. split.
      + apply Hin. eapply nth_error_In. exact Hk.
      + apply (memb_In Nat.eqb nat_eqb_spec). rewrite (com_of_nth g k x W Hk). left. reflexivity.
  Qed.

  Theorem louvain_levels_monotone_input :
    forall lf sf (g : gstate T A) weighted res thr perms ls esT,
      WF teqb tltb g -> multi (sp g) = false -> weights_ok g weighted -> 0 <= res ->
      wedges_of weighted (get_all_edges g) = Some esT ->
      louvain_partitions teqb tltb lf sf g weighted res thr perms = Ok ls ->
      let QT := newman teqb (directed (sp g)) esT res in
      chain (fun a b => QT a <= QT b) ls /\
      exists first rest, ls = first :: rest /\
        QT (map (fun x => [x]) (map nname (nodes_vec g))) <= QT first.
  Proof.
    intros lf sf g weighted res thr perms ls esT W Hm Hwok Hres HesT H QT.
    unfold louvain_partitions in H. apply bind_ok in H. destruct H as [[ls0 tie] [Ht H]].
    cbn [fst] in H. inversion H. subst ls0. clear H.
    destruct (louvain_levels_monotone teqb tltb teqb_spec tltb_asym tltb_total
                lf sf g weighted res thr perms ls tie W Hwok Hres Ht)
      as (gu & levels & first & rest & Hgu & Hcb & Hlv & _ & Hsing & Hch).
    set (QN := newman Nat.eqb (directed (sp gu)) (wedges gu) res) in *.
    pose proof (convert_back_F2 g levels ls Hcb) as F.
    assert (FQ : Forall2 (fun a b => QN a == QT b) levels ls).
    { eapply F2_impl; [|exact F]. intros level lvT Fl. cbv beta. unfold QN, QT.
      rewrite (renamed_newman g level lvT W Fl).
      apply (convert_graph_newman g weighted gu esT W Hm Hgu HesT). }
    split; [apply (chain_transport QN QT levels ls FQ Hch)|].
    subst levels. inversion FQ as [|? firstT ? restT Hf _]. subst.
    exists firstT, restT. split; [reflexivity|].
    rewrite <- Hf.
    assert (E : QT (map (fun x => [x]) (map nname (nodes_vec g)))
                == QN (map (fun k => [k]) (seq 0 (length (nodes_vec g))))).
    { unfold QN, QT. rewrite (convert_graph_newman g weighted gu esT W Hm Hgu HesT).
      rewrite (newman_ext_gen teqb teqb_spec esT _ res _ _ (singletons_induced g W)).
      apply newman_perm_comms. apply Permutation_map. apply Permutation_sym. apply sort_by_permutation. }
    rewrite E. exact Hsing.
  Qed.

  (* Since the guard of F23 is in the model, [weights_ok] follows from the other two hypotheses:
     a returned value means the guard was false (no real negative weight), and the edge list
     having an abstract weighted form means every edge has a weight when weighted. *)
  Lemma wedges_of_true_real : forall (l : list (edge T A)) es,
    wedges_of true l = Some es -> forall e, In e l -> exists z, ew e = Some z.
  Proof.
    induction l as [|e t IH]; intros es H e0 He0; [destruct He0|]. cbn [wedges_of] in H.
    unfold wedge_of in H. destruct (ew e) as [z|] eqn:Ez; [|discriminate].
    destruct (wedges_of true t) as [r|] eqn:Er; [|discriminate].
    destruct He0 as [<-|He0]; [eauto | exact (IH r eq_refl e0 He0)].
  Qed.

  Lemma louvain_partitions_ok_guard_false : forall lf sf (g : gstate T A) weighted res thr perms ls,
    louvain_partitions teqb tltb lf sf g weighted res thr perms = Ok ls ->
    negative_weight_guard g weighted = false.
  Proof.
    intros lf sf g weighted res thr perms ls H. unfold louvain_partitions, louvain_partitions_t in H.
    destruct (negative_weight_guard g weighted); [discriminate | reflexivity].
  Qed.

  Theorem louvain_levels_monotone_input_guarded :
    forall lf sf (g : gstate T A) weighted res thr perms ls esT,
      WF teqb tltb g -> multi (sp g) = false -> 0 <= res ->
      wedges_of weighted (get_all_edges g) = Some esT ->
      louvain_partitions teqb tltb lf sf g weighted res thr perms = Ok ls ->
      let QT := newman teqb (directed (sp g)) esT res in
      chain (fun a b => QT a <= QT b) ls /\
      exists first rest, ls = first :: rest /\
        QT (map (fun x => [x]) (map nname (nodes_vec g))) <= QT first.
  Proof.
    intros lf sf g weighted res thr perms ls esT W Hm Hres HesT H.
    apply (louvain_levels_monotone_input lf sf g weighted res thr perms ls esT W Hm); try assumption.
    apply guard_false_weights_ok.
    - exact (louvain_partitions_ok_guard_false lf sf g weighted res thr perms ls H).
    - intros Hw. subst weighted. exact (wedges_of_true_real _ _ HesT).
  Qed.
End Transport.

(* ---- the hypotheses are jointly satisfiable: an evaluated instance (names 3, 1, 2, 4 become 2, 0, 1, 3;
   the stored edge (1, 3) is renamed to (0, 2), (2, 4) to (1, 3)) ---- *)
Local Notation tr_ex_graph :=
  (new_from_nodes_and_edges Z.eqb Z.ltb
    [mknode 3%Z (None : option Z); mknode 1%Z None; mknode 2%Z None; mknode 4%Z None]
    [mkedge 3%Z 1%Z (Some 5%Z) None; mkedge 4%Z 2%Z (Some 7%Z) None; mkedge 1%Z 2%Z (Some 1%Z) None]
    (mkspecs false DErr MCreate false true SErr)) (only parsing).

Example transport_nonvacuous :
  exists g gu esT ls,
    tr_ex_graph = Ok g /\ WF Z.eqb Z.ltb g /\ multi (sp g) = false /\ weights_ok g true /\ 0 <= 1 /\
    convert_graph Z.eqb Z.ltb g true (node_map_of Z.ltb g) = Ok gu /\
    wedges_of true (get_all_edges g) = Some esT /\
    louvain_partitions Z.eqb Z.ltb 10 50 g true 1 (1 # 10000000) [[0]; [1; 0]; [2; 0; 1]; [3; 1; 0; 2]]%nat = Ok ls /\
    ls <> [].
Proof.
  assert (Zasym : forall x y : Z, Z.ltb x y = true -> Z.ltb y x = false).
  { intros x y H. apply Z.ltb_lt in H. apply Z.ltb_ge. lia. }
  assert (Ztot : forall x y : Z, Z.ltb x y = false -> Z.ltb y x = false -> x = y).
  { intros x y H1 H2. apply Z.ltb_ge in H1. apply Z.ltb_ge in H2. lia. }
  assert (R : match tr_ex_graph with
              | Ok g =>
                multi (sp g) = false /\
                forallb (fun e : edge Z Z => match ew e with Some z => (0 <=? z)%Z | None => false end)
                        (get_all_edges g) = true /\
                match convert_graph Z.eqb Z.ltb g true (node_map_of Z.ltb g),
                      wedges_of true (get_all_edges g),
                      louvain_partitions Z.eqb Z.ltb 10 50 g true 1 (1 # 10000000)
                                         [[0]; [1; 0]; [2; 0; 1]; [3; 1; 0; 2]]%nat with
                | Ok _, Some _, Ok (_ :: _) => True
                | _, _, _ => False
                end
              | _ => False
              end) by (vm_compute; repeat split; reflexivity).
  destruct tr_ex_graph as [g|k|s|] eqn:E; try contradiction.
  destruct R as [Rm [Rw R]].
  destruct (convert_graph Z.eqb Z.ltb g true (node_map_of Z.ltb g)) as [gu| | |] eqn:Egu; try contradiction.
  destruct (wedges_of true (get_all_edges g)) as [esT|] eqn:EesT; try contradiction.
  destruct (louvain_partitions Z.eqb Z.ltb 10 50 g true 1 (1 # 10000000) _) as [[|l0 ls]| | |] eqn:Els; try contradiction.
  exists g, gu, esT, (l0 :: ls). split; [reflexivity|]. split.
  - apply (WF_reachable Z.eqb Z.ltb Z.eqb_eq Zasym Ztot (mkspecs false DErr MCreate false true SErr)).
    eapply new_from_reachable; [exact Z.eqb_eq | exact E].
  - split; [exact Rm|]. split.
    + intros _ e He. rewrite forallb_forall in Rw. specialize (Rw e He).
      destruct (ew e) as [z|]; [|discriminate]. exists z. split; [reflexivity | apply Z.leb_le; exact Rw].
    + split; [lra|]. split; [exact Egu|]. split; [exact EesT|]. split; [exact Els | discriminate].
Qed.
