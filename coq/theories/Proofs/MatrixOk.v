(* C09: the sparse adjacency matrix of a single-edge graph, observed as its list of
   (row, column, value) triplets: entry (i,j) is present iff an edge is stored from the
   i-th to the j-th node (either orientation when undirected), its value is the edge's
   weight (1 for an unweighted edge), hence the matrix is symmetric for undirected graphs. *)
From Coq Require Import String List Bool Arith ZArith Lia Permutation.
From GV Require Import Base.Outcome Base.AMap Model.GState Model.Creation Model.Query Model.Derived Spec.AGraph.
From GV Require Import Proofs.AMapOk Proofs.WFDefs Proofs.WFNode Proofs.WFAdj Proofs.WFEdge.
Import ListNotations.

Section MatrixOk.
  Context {T A : Type}.
  Variable teqb : T -> T -> bool.
  Variable tltb : T -> T -> bool.
  Hypothesis teqb_spec : forall x y, teqb x y = true <-> x = y.
  Hypothesis tltb_asym : forall x y, tltb x y = true -> tltb y x = false.
  Hypothesis tltb_total : forall x y, tltb x y = false -> tltb y x = false -> x = y.
  Notation edge := (edge T A).
  Notation gstate := (gstate T A).
  Notation WF := (@WF T A teqb tltb).
  Notation grp_of := (@grp_of T A teqb tltb).
  Notation group_idx := (@group_idx T A).

  Definition mweight (e : edge) : weight := match ew e with None => Some 1%Z | Some z => Some z end.

  Definition entries (s : specs) (u v : nat) (es : list edge) : list (nat * nat * weight) :=
    match es with
    | [] => []
    | e :: _ => (u, v, mweight e) :: (if negb (directed s) && negb (Nat.eqb u v) then [(v, u, mweight e)] else [])
    end.

  Lemma inner_fold (s : specs) (u : nat) : forall (hm : list (nat * list edge)) acc,
    (forall v es, In (v, es) hm -> es <> []) ->
    ofold (matrix_cell s u) hm acc = Ok (acc ++ flat_map (fun ve => entries s u (fst ve) (snd ve)) hm).
  Proof.
    induction hm as [|[v es] t IH]; intros acc Hne; simpl; [rewrite app_nil_r; reflexivity|].
    destruct es as [|e es']; [exfalso; apply (Hne v []); [left; reflexivity|reflexivity]|].
    simpl. rewrite IH by (intros v' es'' H; apply (Hne v' es''); right; exact H).
    f_equal. unfold mweight. destruct (negb (directed s) && negb (Nat.eqb u v)); simpl;
      rewrite <- !app_assoc; reflexivity.
  Qed.

  Lemma outer_fold (s : specs) : forall (m : list (nat * list (nat * list edge))) acc,
    (forall u hm v es, In (u, hm) m -> In (v, es) hm -> es <> []) ->
    ofold (matrix_row s) m acc
    = Ok (acc ++ flat_map (fun uv => flat_map (fun ve => entries s (fst uv) (fst ve) (snd ve)) (snd uv)) m).
  Proof.
    induction m as [|[u hm] t IH]; intros acc Hne; simpl; [rewrite app_nil_r; reflexivity|].
    rewrite (inner_fold s u hm acc) by (intros v es H; apply (Hne u hm v es); [left; reflexivity|exact H]).
    simpl. rewrite IH by (intros u' hm' v es H1 H2; apply (Hne u' hm' v es); [right; exact H1|exact H2]).
    rewrite <- app_assoc. reflexivity.
  Qed.

  Lemma in_edges_map_group (g : gstate) u hm v es :
    WF g -> In (u, hm) (edges_map g) -> In (v, es) hm -> group_idx g u v = Some es.
  Proof.
    intros W H1 H2. destruct (wf_emkeys _ _ _ W) as (Hk & Hin).
    pose proof (In_lookup Nat.eqb (nat_eqb_spec) _ _ _ Hk H1) as L1.
    pose proof (In_lookup Nat.eqb (nat_eqb_spec) _ _ _ (Hin u hm L1) H2) as L2.
    unfold WFDefs.group_idx. rewrite L1. exact L2.
  Qed.

  Lemma grp_of_nonempty (g : gstate) i j es : WF g -> grp_of g i j = Some es -> es <> [].
  Proof.
    intros W H. unfold WFDefs.grp_of in H. destruct (name_at g i); [|discriminate]. destruct (name_at g j); [|discriminate].
    destruct (wf_egroup _ _ _ W _ _ H) as (Hne & _). exact Hne.
  Qed.

  Lemma group_idx_grp (g : gstate) u v es :
    WF g -> group_idx g u v = Some es -> grp_of g u v = Some es /\ (directed (sp g) = true \/ u <= v).
  Proof.
    intros W H. rewrite (wf_emap _ _ _ W) in H.
    destruct (directed (sp g)) eqn:Hd; simpl in H; [split; [exact H|left; reflexivity]|].
    destruct (Nat.leb u v) eqn:E; [|discriminate]. apply Nat.leb_le in E. split; [exact H|right; exact E].
  Qed.

  Theorem matrix_spec (g : gstate) :
    WF g -> multi (sp g) = false ->
    exists tr, matrix_triplets g = Ok tr /\
      forall i j w, In (i, j, w) tr <->
                    exists e es, grp_of g i j = Some (e :: es) /\ w = mweight e.
  Proof.
    intros W Hm. unfold matrix_triplets. rewrite Hm.
    rewrite (outer_fold (sp g) (edges_map g) []).
    2:{ intros u hm v es H1 H2. pose proof (in_edges_map_group g u hm v es W H1 H2) as Hg.
        apply (group_idx_grp g u v es W) in Hg. eapply grp_of_nonempty; [exact W|apply Hg]. }
    eexists. split; [reflexivity|]. simpl.
    intros i j w. rewrite in_flat_map. split.
    - intros ((u & hm) & H1 & H). rewrite in_flat_map in H. destruct H as ((v & es) & H2 & H3). simpl in H3.
      pose proof (in_edges_map_group g u hm v es W H1 H2) as Hg.
      destruct (group_idx_grp g u v es W Hg) as (Hgo & _).
      unfold entries in H3. destruct es as [|e es']; [destruct H3|].
      destruct H3 as [H3|H3].
      + inversion H3; subst. exists e, es'. split; [exact Hgo|reflexivity].
      + destruct (negb (directed (sp g)) && negb (Nat.eqb u v)) eqn:Eb; [|destruct H3].
        destruct H3 as [H3|[]]. inversion H3; subst.
        apply andb_true_iff in Eb. destruct Eb as (Hd & _). apply negb_true_iff in Hd.
        exists e, es'. split; [|reflexivity].
        rewrite (grp_of_sym teqb tltb tltb_asym tltb_total g i j Hd). exact Hgo.
    - intros (e & es & Hg & ->).
      assert (Hfind : forall u v, group_idx g u v = Some (e :: es) ->
                exists hm, In (u, hm) (edges_map g) /\ In (v, e :: es) hm).
      { intros u v H. unfold WFDefs.group_idx in H.
        destruct (lookup Nat.eqb u (edges_map g)) as [hm|] eqn:L1; [|discriminate].
        exists hm. split; [apply (lookup_In Nat.eqb nat_eqb_spec); exact L1|
                           apply (lookup_In Nat.eqb nat_eqb_spec); exact H]. }
      destruct (directed (sp g)) eqn:Hd.
      + assert (Hgi : group_idx g i j = Some (e :: es)) by (rewrite (wf_emap _ _ _ W), Hd; exact Hg).
        destruct (Hfind i j Hgi) as (hm & H1 & H2).
        exists (i, hm). split; [exact H1|]. rewrite in_flat_map. exists (j, e :: es). split; [exact H2|].
        simpl. left. reflexivity.
      + destruct (Nat.leb i j) eqn:E.
        * assert (Hgi : group_idx g i j = Some (e :: es)) by (rewrite (wf_emap _ _ _ W), Hd, E; exact Hg).
          destruct (Hfind i j Hgi) as (hm & H1 & H2).
          exists (i, hm). split; [exact H1|]. rewrite in_flat_map. exists (j, e :: es). split; [exact H2|].
          simpl. left. reflexivity.
        * apply Nat.leb_gt in E.
          assert (Hgi : group_idx g j i = Some (e :: es)).
          { rewrite (wf_emap _ _ _ W), Hd. simpl. assert (Nat.leb j i = true) as -> by (apply Nat.leb_le; lia).
            rewrite (grp_of_sym teqb tltb tltb_asym tltb_total g j i Hd). exact Hg. }
          destruct (Hfind j i Hgi) as (hm & H1 & H2).
          exists (j, hm). split; [exact H1|]. rewrite in_flat_map. exists (i, e :: es). split; [exact H2|].
          simpl. right. rewrite Hd. simpl.
          assert (Nat.eqb j i = false) as -> by (apply Nat.eqb_neq; lia). simpl. left. reflexivity.
  Qed.

  (* ---- every position is emitted at most once (TriMat::to_csr would otherwise add duplicates up) ---- *)
  Definition pos (t : nat * nat * weight) : nat * nat := (fst (fst t), snd (fst t)).

  Lemma nodup_app {X} (a b : list X) :
    NoDup a -> NoDup b -> (forall x, In x a -> In x b -> False) -> NoDup (a ++ b).
  Proof.
    induction a as [|h t IH]; intros Ha Hb Hd; [exact Hb|]. simpl. inversion Ha as [|? ? Hni Ht]; subst.
    constructor.
    - rewrite in_app_iff. intros [H|H]; [exact (Hni H)|exact (Hd h (or_introl eq_refl) H)].
    - apply IH; [exact Ht|exact Hb|]. intros x H1 H2. exact (Hd x (or_intror H1) H2).
  Qed.

  Lemma nodup_flat_map {X Y} (f : X -> list Y) : forall (l : list X),
    NoDup l -> (forall x, In x l -> NoDup (f x)) ->
    (forall x1 x2 y, In x1 l -> In x2 l -> In y (f x1) -> In y (f x2) -> x1 = x2) ->
    NoDup (flat_map f l).
  Proof.
    induction l as [|a t IH]; intros Hl Hf Hinj; [constructor|]. simpl. inversion Hl as [|? ? Hni Ht]; subst.
    apply nodup_app.
    - apply Hf. left. reflexivity.
    - apply IH; [exact Ht| |].
      + intros x Hx. apply Hf. right. exact Hx.
      + intros x1 x2 y H1 H2. apply Hinj; right; assumption.
    - intros y H1 H2. apply in_flat_map in H2. destruct H2 as (x & Hx & Hy).
      assert (a = x) by (apply (Hinj a x y); [left; reflexivity|right; exact Hx|exact H1|exact Hy]).
      subst x. exact (Hni Hx).
  Qed.

  Lemma map_flat_map {X Y Z} (h : Y -> Z) (f : X -> list Y) (l : list X) :
    map h (flat_map f l) = flat_map (fun x => map h (f x)) l.
  Proof. induction l as [|a t IH]; simpl; [reflexivity|]. rewrite map_app, IH. reflexivity. Qed.

  Lemma flat_map_flat_map {X Y Z} (f : X -> list Y) (h : Y -> list Z) (l : list X) :
    flat_map h (flat_map f l) = flat_map (fun x => flat_map h (f x)) l.
  Proof. induction l as [|a t IH]; simpl; [reflexivity|]. rewrite flat_map_app, IH. reflexivity. Qed.

  Definition cells (g : gstate) : list (nat * nat * list edge) :=
    flat_map (fun uv : nat * list (nat * list edge) =>
                map (fun ve : nat * list edge => (fst uv, fst ve, snd ve)) (snd uv)) (edges_map g).

  Lemma cells_group (g : gstate) u v es : WF g -> In (u, v, es) (cells g) -> group_idx g u v = Some es.
  Proof.
    intros W H. unfold cells in H. apply in_flat_map in H. destruct H as ((u' & hm) & H1 & H2).
    apply in_map_iff in H2. destruct H2 as ((v' & es') & E & H2). simpl in E. inversion E; subst.
    exact (in_edges_map_group g u hm v es W H1 H2).
  Qed.

  Lemma NoDup_keys_NoDup {K V} (m : list (K * V)) : NoDup (keys m) -> NoDup m.
  Proof.
    unfold keys. induction m as [|[k v] t IH]; intros H; [constructor|]. simpl in H. inversion H as [|? ? Hni Ht]; subst.
    constructor; [|exact (IH Ht)]. intros Hin. apply Hni. change k with (fst (k, v)). apply in_map. exact Hin.
  Qed.

  Lemma cells_nodup (g : gstate) : WF g -> NoDup (cells g).
  Proof.
    intros W. destruct (wf_emkeys _ _ _ W) as (Hk & Hin). unfold cells. apply nodup_flat_map.
    - apply NoDup_keys_NoDup. exact Hk.
    - intros (u & hm) H. simpl.
      pose proof (In_lookup Nat.eqb nat_eqb_spec _ _ _ Hk H) as L.
      pose proof (NoDup_keys_NoDup hm (Hin u hm L)) as Hnd.
      clear - Hnd. induction hm as [|[v es] t IH]; simpl; [constructor|]. inversion Hnd as [|? ? Hni Ht]; subst.
      constructor; [|exact (IH Ht)]. intros Hc. apply in_map_iff in Hc. destruct Hc as ((v' & es') & E & Hc).
      simpl in E. inversion E; subst. exact (Hni Hc).
    - intros (u1 & hm1) (u2 & hm2) y H1 H2 Hy1 Hy2. simpl in Hy1, Hy2.
      apply in_map_iff in Hy1. destruct Hy1 as ((v1 & es1) & E1 & _).
      apply in_map_iff in Hy2. destruct Hy2 as ((v2 & es2) & E2 & _). subst y. simpl in E2. inversion E2; subst.
      pose proof (In_lookup Nat.eqb nat_eqb_spec _ _ _ Hk H1) as L1.
      pose proof (In_lookup Nat.eqb nat_eqb_spec _ _ _ Hk H2) as L2. congruence.
  Qed.

  Lemma triplets_cells (g : gstate) :
    flat_map (fun uv : nat * list (nat * list edge) =>
                flat_map (fun ve : nat * list edge => entries (sp g) (fst uv) (fst ve) (snd ve)) (snd uv)) (edges_map g)
    = flat_map (fun c : nat * nat * list edge => entries (sp g) (fst (fst c)) (snd (fst c)) (snd c)) (cells g).
  Proof.
    unfold cells. rewrite flat_map_flat_map. apply flat_map_ext. intros (u & hm). simpl.
    induction hm as [|[v es] t IH]; simpl; [reflexivity|]. rewrite IH. reflexivity.
  Qed.

  Theorem matrix_positions_nodup (g : gstate) tr :
    WF g -> multi (sp g) = false -> matrix_triplets g = Ok tr -> NoDup (map pos tr).
  Proof.
    intros W Hm Htr. unfold matrix_triplets in Htr. rewrite Hm in Htr.
    rewrite (outer_fold (sp g) (edges_map g) []) in Htr.
    2:{ intros u hm v es H1 H2. pose proof (in_edges_map_group g u hm v es W H1 H2) as Hg.
        apply (group_idx_grp g u v es W) in Hg. eapply grp_of_nonempty; [exact W|apply Hg]. }
    simpl in Htr. inversion Htr as [E]. clear Htr E. rewrite triplets_cells, map_flat_map.
    apply nodup_flat_map.
    - exact (cells_nodup g W).
    - intros ((u & v) & es) Hc. simpl. unfold entries. destruct es as [|e es']; [constructor|]. simpl.
      destruct (negb (directed (sp g)) && negb (Nat.eqb u v)) eqn:Eb; simpl.
      + apply andb_true_iff in Eb. destruct Eb as (_ & Hne). apply negb_true_iff, Nat.eqb_neq in Hne.
        constructor; [|constructor; [intros []|constructor]]. intros [H|[]]. inversion H. congruence.
      + constructor; [intros []|constructor].
    - intros ((u1 & v1) & es1) ((u2 & v2) & es2) y Hc1 Hc2 Hy1 Hy2. simpl in Hy1, Hy2.
      pose proof (cells_group g u1 v1 es1 W Hc1) as G1. pose proof (cells_group g u2 v2 es2 W Hc2) as G2.
      destruct (group_idx_grp g u1 v1 es1 W G1) as (_ & O1). destruct (group_idx_grp g u2 v2 es2 W G2) as (_ & O2).
      assert (Hpos : forall u v (es : list edge) y, In y (map pos (entries (sp g) u v es)) ->
                y = (u, v) \/ (y = (v, u) /\ directed (sp g) = false /\ u <> v)).
      { intros u v es y0 H. unfold entries in H. destruct es as [|e es']; [destruct H|]. simpl in H.
        destruct H as [H|H]; [left; symmetry; exact H|].
        destruct (negb (directed (sp g)) && negb (Nat.eqb u v)) eqn:Eb; [|destruct H].
        apply andb_true_iff in Eb. destruct Eb as (Hd & Hne). apply negb_true_iff in Hd.
        apply negb_true_iff, Nat.eqb_neq in Hne. destruct H as [H|[]]. right. split; [symmetry; exact H|split; assumption]. }
      apply Hpos in Hy1. apply Hpos in Hy2.
      assert (Huv : u1 = u2 /\ v1 = v2).
      { destruct Hy1 as [->|(-> & Hd1 & Hn1)]; destruct Hy2 as [E|(E & Hd2 & Hn2)]; inversion E; subst.
        - split; reflexivity.
        - destruct O1 as [O1|O1]; [congruence|]. destruct O2 as [O2|O2]; [congruence|]. split; lia.
        - destruct O1 as [O1|O1]; [congruence|]. destruct O2 as [O2|O2]; [congruence|]. split; lia.
        - split; reflexivity. }
      destruct Huv as (-> & ->). rewrite G1 in G2. inversion G2. reflexivity.
  Qed.

  (* symmetric for undirected graphs *)
  Corollary matrix_symmetric (g : gstate) tr i j w :
    WF g -> multi (sp g) = false -> directed (sp g) = false ->
    matrix_triplets g = Ok tr -> In (i, j, w) tr -> In (j, i, w) tr.
  Proof.
    intros W Hm Hd Htr Hin. destruct (matrix_spec g W Hm) as (tr' & Htr' & Hmem).
    rewrite Htr in Htr'. inversion Htr'. subst tr'.
    apply Hmem in Hin. destruct Hin as (e & es & Hg & Hw). apply Hmem. exists e, es. split; [|exact Hw].
    rewrite (grp_of_sym teqb tltb tltb_asym tltb_total g j i Hd). exact Hg.
  Qed.
End MatrixOk.
