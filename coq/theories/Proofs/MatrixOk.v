(* C09: the sparse adjacency matrix of a single-edge graph, observed as its list of
   (row, column, value) triplets: entry (i,j) is present iff an edge is stored from the
   i-th to the j-th node (either orientation when undirected), its value is the edge's
   weight (1 for an unweighted edge), hence the matrix is symmetric for undirected graphs. *)
From Coq Require Import String List Bool Arith ZArith Lia Permutation.
From GV Require Import Base.Outcome Base.AMap Model.GState Model.Creation Model.Query Model.Derived Spec.AGraph.
From GV Require Import Proofs.AMapOk Proofs.WFDefs Proofs.WFNode Proofs.WFAdj Proofs.WFEdge.
Import ListNotations.

Section MatrixOk.
  Context {T A : Type}.
  Variable teqb : T -> T -> bool.
  Variable tltb : T -> T -> bool.
  Hypothesis teqb_spec : forall x y, teqb x y = true <-> x = y.
  Hypothesis tltb_asym : forall x y, tltb x y = true -> tltb y x = false.
  Hypothesis tltb_total : forall x y, tltb x y = false -> tltb y x = false -> x = y.
  Notation edge := (edge T A).
  Notation gstate := (gstate T A).
  Notation WF := (@WF T A teqb tltb).
  Notation grp_of := (@grp_of T A teqb tltb).
  Notation group_idx := (@group_idx T A).

  Definition mweight (e : edge) : weight := match ew e with None => Some 1%Z | Some z => Some z end.

  Definition entries (s : specs) (u v : nat) (es : list edge) : list (nat * nat * weight) :=
    match es with
    | [] => []
    | e :: _ => (u, v, mweight e) :: (if negb (directed s) && negb (Nat.eqb u v) then [(v, u, mweight e)] else [])
    end.

  Lemma inner_fold (s : specs) (u : nat) : forall (hm : list (nat * list edge)) acc,
    (forall v es, In (v, es) hm -> es <> []) ->
    ofold (matrix_cell s u) hm acc = Ok (acc ++ flat_map (fun ve => entries s u (fst ve) (snd ve)) hm).
  Proof.
    induction hm as [|[v es] t IH]; intros acc Hne; simpl; [rewrite app_nil_r; reflexivity|].
    destruct es as [|e es']; [exfalso; apply (Hne v []); [left; reflexivity|reflexivity]|].
    simpl. rewrite IH by (intros v' es'' H; apply (Hne v' es''); right; exact H).
    f_equal. unfold mweight. destruct (negb (directed s) && negb (Nat.eqb u v)); simpl;
      rewrite <- !app_assoc; reflexivity.
  Qed.

  Lemma outer_fold (s : specs) : forall (m : list (nat * list (nat * list edge))) acc,
    (forall u hm v es, In (u, hm) m -> In (v, es) hm -> es <> []) ->
    ofold (matrix_row s) m acc
    = Ok (acc ++ flat_map (fun uv => flat_map (fun ve => entries s (fst uv) (fst ve) (snd ve)) (snd uv)) m).
  Proof.
    induction m as [|[u hm] t IH]; intros acc Hne; simpl; [rewrite app_nil_r; reflexivity|].
    rewrite (inner_fold s u hm acc) by (intros v es H; apply (Hne u hm v es); [left; reflexivity|exact H]).
    simpl. rewrite IH by (intros u' hm' v es H1 H2; apply (Hne u' hm' v es); [right; exact H1|exact H2]).
    rewrite <- app_assoc. reflexivity.
  Qed.

  Lemma in_edges_map_group (g : gstate) u hm v es :
    WF g -> In (u, hm) (edges_map g) -> In (v, es) hm -> group_idx g u v = Some es.
  Proof.
    intros W H1 H2. destruct (wf_emkeys _ _ _ W) as (Hk & Hin).
    pose proof (In_lookup Nat.eqb (nat_eqb_spec) _ _ _ Hk H1) as L1.
    pose proof (In_lookup Nat.eqb (nat_eqb_spec) _ _ _ (Hin u hm L1) H2) as L2.
    unfold WFDefs.group_idx. rewrite L1. exact L2.
  Qed.

  Lemma grp_of_nonempty (g : gstate) i j es : WF g -> grp_of g i j = Some es -> es <> [].
  Proof.
    intros W H. unfold WFDefs.grp_of in H. destruct (name_at g i); [|discriminate]. destruct (name_at g j); [|discriminate].
    destruct (wf_egroup _ _ _ W _ _ H) as (Hne & _). exact Hne.
  Qed.

  Lemma group_idx_grp (g : gstate) u v es :
    WF g -> group_idx g u v = Some es -> grp_of g u v = Some es /\ (directed (sp g) = true \/ u <= v).
  Proof.
    intros W H. rewrite (wf_emap _ _ _ W) in H.
    destruct (directed (sp g)) eqn:Hd; simpl in H; [split; [exact H|left; reflexivity]|].
    destruct (Nat.leb u v) eqn:E; [|discriminate]. apply Nat.leb_le in E. split; [exact H|right; exact E].
  Qed.

  Theorem matrix_spec (g : gstate) :
    WF g -> multi (sp g) = false ->
    exists tr, matrix_triplets g = Ok tr /\
      forall i j w, In (i, j, w) tr <->
                    exists e es, grp_of g i j = Some (e :: es) /\ w = mweight e.
  Proof.
    intros W Hm. unfold matrix_triplets. rewrite Hm.
    rewrite (outer_fold (sp g) (edges_map g) []).
    2:{ intros u hm v es H1 H2. pose proof (in_edges_map_group g u hm v es W H1 H2) as Hg.
        apply (group_idx_grp g u v es W) in Hg. eapply grp_of_nonempty; [exact W|apply Hg]. }
    eexists. split; [reflexivity|]. simpl.
    intros i j w. rewrite in_flat_map. split.
    - intros ((u & hm) & H1 & H). rewrite in_flat_map in H. destruct H as ((v & es) & H2 & H3). simpl in H3.
      pose proof (in_edges_map_group g u hm v es W H1 H2) as Hg.
      destruct (group_idx_grp g u v es W Hg) as (Hgo & _).
      unfold entries in H3. destruct es as [|e es']; [destruct H3|].
      destruct H3 as [H3|H3].
      + inversion H3; subst. exists e, es'. split; [exact Hgo|reflexivity].
      + destruct (negb (directed (sp g)) && negb (Nat.eqb u v)) eqn:Eb; [|destruct H3].
        destruct H3 as [H3|[]]. inversion H3; subst.
        apply andb_true_iff in Eb. destruct Eb as (Hd & _). apply negb_true_iff in Hd.
        exists e, es'. split; [|reflexivity].
        rewrite (grp_of_sym teqb tltb tltb_asym tltb_total g i j Hd). exact Hgo.
    - intros (e & es & Hg & ->).
      assert (Hfind : forall u v, group_idx g u v = Some (e :: es) ->
                exists hm, In (u, hm) (edges_map g) /\ In (v, e :: es) hm).
      { intros u v H. unfold WFDefs.group_idx in H.
        destruct (lookup Nat.eqb u (edges_map g)) as [hm|] eqn:L1; [|discriminate].
        exists hm. split; [apply (lookup_In Nat.eqb nat_eqb_spec); exact L1|
                           apply (lookup_In Nat.eqb nat_eqb_spec); exact H]. }
      destruct (directed (sp g)) eqn:Hd.
      + assert (Hgi : group_idx g i j = Some (e :: es)) by (rewrite (wf_emap _ _ _ W), Hd; exact Hg).
        destruct (Hfind i j Hgi) as (hm & H1 & H2).
        exists (i, hm). split; [exact H1|]. rewrite in_flat_map. exists (j, e :: es). split; [exact H2|].
        simpl. left. reflexivity.
      + destruct (Nat.leb i j) eqn:E.
        * assert (Hgi : group_idx g i j = Some (e :: es)) by (rewrite (wf_emap _ _ _ W), Hd, E; exact Hg).
          destruct (Hfind i j Hgi) as (hm & H1 & H2).
          exists (i, hm). split; [exact H1|]. rewrite in_flat_map. exists (j, e :: es). split; [exact H2|].
          simpl. left. reflexivity.
        * apply Nat.leb_gt in E.
          assert (Hgi : group_idx g j i = Some (e :: es)).
          { rewrite (wf_emap _ _ _ W), Hd. simpl. assert (Nat.leb j i = true) as -> by (apply Nat.leb_le; lia).
            rewrite (grp_of_sym teqb tltb tltb_asym tltb_total g j i Hd). exact Hg. }
          destruct (Hfind j i Hgi) as (hm & H1 & H2).
          exists (j, hm). split; [exact H1|]. rewrite in_flat_map. exists (i, e :: es). split; [exact H2|].
          simpl. right. rewrite Hd. simpl.
          assert (Nat.eqb j i = false) as -> by (apply Nat.eqb_neq; lia). simpl. left. reflexivity.
  Qed.

  (* symmetric for undirected graphs *)
  Corollary matrix_symmetric (g : gstate) tr i j w :
    WF g -> multi (sp g) = false -> directed (sp g) = false ->
    matrix_triplets g = Ok tr -> In (i, j, w) tr -> In (j, i, w) tr.
  Proof.
    intros W Hm Hd Htr Hin. destruct (matrix_spec g W Hm) as (tr' & Htr' & Hmem).
    rewrite Htr in Htr'. inversion Htr'. subst tr'.
    apply Hmem in Hin. destruct Hin as (e & es & Hg & Hw). apply Hmem. exists e, es. split; [|exact Hw].
    rewrite (grp_of_sym teqb tltb tltb_asym tltb_total g j i Hd). exact Hg.
  Qed.
End MatrixOk.
