(* C12, deepening (round 2): the twelve-field transcription of partitions.rs::modularity
   (Model/Partition.v: is_partition over nodes_map / nodes_map_rev, the *_for_all_nodes degree maps
   of degree.rs over successors / predecessors / edges, get_subgraph + size of subgraph.rs /
   query.rs) computes, on every state satisfying the coherence invariant WF, the list-level
   computation [modularity_abs] over the node list and the edge multiset [get_all_edges] — hence
   Newman's formula.  Before this file the equality was only evaluated per generated case
   (observation 210). *)
From Coq Require Import String List Bool ZArith NArith Arith QArith Lia Lqa Permutation Setoid Morphisms.
From GV Require Import Base.Outcome Base.AMap Model.GState Model.Creation Model.Query Model.Derived
     Model.Partition Spec.AGraph Spec.History Spec.PartitionDef.
From GV Require Import Proofs.AMapOk Proofs.WFDefs Proofs.WFNode Proofs.WFEdge Proofs.Refine Proofs.AdjOk
     Proofs.QueryOk Proofs.DegreeOk Proofs.DerivedContent Proofs.DerivedOk Proofs.HistoryOk
     Proofs.PartitionOk Proofs.PartitionStateOk.
Import ListNotations.

(* ---------------- option-Q values up to Qeq ---------------- *)
Definition oeq (o : oq) (q : Q) : Prop := exists q', o = Some q' /\ q' == q.

Lemma oeq_some q q' : q == q' -> oeq (Some q) q'.
Proof. intros H. exists q. split; [reflexivity|exact H]. Qed.

Lemma oeq_op (f : Q -> Q -> Q) (Hf : Proper (Qeq ==> Qeq ==> Qeq) f) a b x y :
  oeq a x -> oeq b y -> oeq (oq2 f a b) (f x y).
Proof.
  intros (a' & -> & Ha) (b' & -> & Hb). exists (f a' b'). split; [reflexivity|]. apply Hf; assumption.
Qed.

Lemma oeq_plus a b x y : oeq a x -> oeq b y -> oeq (oq2 Qplus a b) (x + y).
Proof. apply oeq_op. exact Qplus_comp. Qed.
Lemma oeq_minus a b x y : oeq a x -> oeq b y -> oeq (oq2 Qminus a b) (x - y).
Proof. apply oeq_op. exact Qminus_comp. Qed.
Lemma oeq_mult a b x y : oeq a x -> oeq b y -> oeq (oq2 Qmult a b) (x * y).
Proof. apply oeq_op. exact Qmult_comp. Qed.
Lemma oeq_div a b x y : oeq a x -> oeq b y -> oeq (oq2 Qdiv a b) (x / y).
Proof. apply oeq_op. exact Qdiv_comp. Qed.

Lemma oeq_eq o q q' : oeq o q -> q == q' -> oeq o q'.
Proof. intros (a & -> & Ha) H. exists a. split; [reflexivity|]. rewrite Ha. exact H. Qed.

Lemma oeq_red o q : oeq o q -> oeq (oq_red o) q.
Proof. intros (a & -> & Ha). exists (Qred a). split; [reflexivity|]. rewrite Qred_correct. exact Ha. Qed.

Lemma qsum_perm (l l' : list Q) : Permutation l l' -> qsum l == qsum l'.
Proof.
  induction 1 as [|x l l' _ IH|x y l|l l' l'' _ IH1 _ IH2]; cbn [qsum].
  - reflexivity.
  - rewrite IH. reflexivity.
  - ring.
  - rewrite IH1. exact IH2.
Qed.

Lemma filter_map_comm {X Y} (f : X -> Y) (p : Y -> bool) (l : list X) :
  filter p (map f l) = map f (filter (fun x => p (f x)) l).
Proof.
  induction l as [|h t IH]; cbn [map filter]; [reflexivity|].
  destruct (p (f h)); cbn [map]; rewrite IH; reflexivity.
Qed.

Section ModularityState.
  Context {T A : Type}.
  Variable teqb : T -> T -> bool.
  Variable tltb : T -> T -> bool.
  Hypothesis teqb_spec : forall x y, teqb x y = true <-> x = y.
  Hypothesis tltb_asym : forall x y, tltb x y = true -> tltb y x = false.
  Hypothesis tltb_total : forall x y, tltb x y = false -> tltb y x = false -> x = y.

  Notation node := (node T A).
  Notation edge := (edge T A).
  Notation gstate := (gstate T A).
  Notation WF := (@WF T A teqb tltb).
  Notation names := (@names T A).
  Notation all_edges := (fun g : gstate => flat_map snd (edges g)).
  Notation all_real := (@all_real T A).

  (* ---------------- is_partition: the coherence hypothesis follows from WF ---------------- *)
  Lemma WF_nodes_coherent (g : gstate) : WF g -> nodes_coherent teqb g.
  Proof.
    intros W. split.
    - intros x. rewrite <- (contains_key_In teqb teqb_spec).
      apply (contains_key_names teqb tltb g x W).
    - intros x i Hl. apply (wf_nmap _ _ _ W) in Hl. rewrite (wf_nrev _ _ _ W).
      apply (proj1 (name_at_nodes g i x)) in Hl. destruct Hl as (n & Hn & _). rewrite Hn. discriminate.
  Qed.

  Theorem is_partition_WF (g : gstate) comms :
    WF g -> is_partition teqb g comms = Ok (is_partition_model teqb (names g) comms).
  Proof. intros W. apply (is_partition_state_eq teqb teqb_spec g comms (WF_nodes_coherent g W)). Qed.

  (* ---------------- the abstract weighted edge list of a state ---------------- *)
  Definition wq (weighted : bool) (e : edge) : Q :=
    if weighted then match ew e with Some z => inject_Z z | None => 0 end else 1.
  Definition toW (weighted : bool) (e : edge) : T * T * Q := (eu e, ev e, wq weighted e).

  Lemma wedges_of_Some weighted : forall (l : list edge) ws,
    wedges_of weighted l = Some ws -> ws = map (toW weighted) l /\ (weighted = true -> all_real l).
  Proof.
    induction l as [|e t IH]; intros ws H; cbn [wedges_of] in H.
    - inversion H. split; [reflexivity|]. intros _ e [].
    - destruct (wedge_of weighted e) as [x|] eqn:Ex; [|discriminate].
      destruct (wedges_of weighted t) as [r|] eqn:Er; [|discriminate].
      inversion H. subst ws. destruct (IH r eq_refl) as (-> & Hreal). split.
      + cbn [map]. f_equal. unfold wedge_of in Ex. unfold toW, wq. destruct weighted.
        * destruct (ew e); inversion Ex. reflexivity.
        * inversion Ex. reflexivity.
      + intros Hw e0 [<-|H0]; [|apply (Hreal Hw e0 H0)].
        unfold wedge_of in Ex. rewrite Hw in Ex. destruct (ew e) as [z|]; [exists z; reflexivity|discriminate].
  Qed.

  Lemma wedges_of_total weighted : forall (l : list edge),
    (weighted = true -> all_real l) -> wedges_of weighted l = Some (map (toW weighted) l).
  Proof.
    induction l as [|e t IH]; intros H; cbn [wedges_of map]; [reflexivity|].
    rewrite IH by (intros Hw e0 H0; apply (H Hw); right; exact H0).
    unfold wedge_of, toW, wq. destruct weighted; [|reflexivity].
    destruct (H eq_refl e (or_introl eq_refl)) as (z & ->). reflexivity.
  Qed.

  (* the value the code forms for a list of edges: the f64 sum of their weights / their count *)
  Definition val (weighted : bool) (l : list edge) : oq :=
    if weighted then oq_of_w (wsum (map ew l)) else Some (inject_Z (Z.of_nat (length l))).

  Lemma val_spec weighted : forall l : list edge,
    (weighted = true -> all_real l) -> oeq (val weighted l) (qsum (map (wq weighted) l)).
  Proof.
    intros l H. unfold val, wq. destruct weighted.
    - specialize (H eq_refl). induction l as [|e t IH]; cbn [map wsum qsum].
      + apply oeq_some. reflexivity.
      + destruct (H e (or_introl eq_refl)) as (z & Hz). rewrite Hz.
        destruct IH as (q & Hq & Eq); [intros e0 H0; apply H; right; exact H0|].
        destruct (wsum (map ew t)) as [s|]; [|discriminate]. cbn [wadd oq_of_w] in *.
        inversion Hq. subst q. apply oeq_some. rewrite inject_Z_plus, Eq. reflexivity.
    - clear H. induction l as [|e t IH]; cbn [map qsum length].
      + apply oeq_some. reflexivity.
      + destruct IH as (q & Hq & Eq). inversion Hq. subst q. apply oeq_some.
        rewrite Nat2Z.inj_succ, <- Z.add_1_l, inject_Z_plus, Eq. reflexivity.
  Qed.

  Lemma all_real_perm (l l' : list edge) : Permutation l l' -> all_real l -> all_real l'.
  Proof. intros Hp H e He. apply H. apply (Permutation_in _ (Permutation_sym Hp) He). Qed.

  Lemma all_real_filter (p : edge -> bool) (l : list edge) : all_real l -> all_real (filter p l).
  Proof. intros H e He. apply filter_In in He. apply H. apply He. Qed.

  Lemma val_perm weighted (l l' : list edge) :
    Permutation l l' -> (weighted = true -> all_real l') ->
    oeq (val weighted l) (qsum (map (wq weighted) l')).
  Proof.
    intros Hp H. eapply oeq_eq.
    - apply val_spec. intros Hw. apply (all_real_perm l' l (Permutation_sym Hp) (H Hw)).
    - apply qsum_perm. apply Permutation_map. exact Hp.
  Qed.

  (* wsel over the translated list = sum of wq over the filtered edges *)
  Lemma wsel_toW weighted (p : T * T * Q -> bool) (q : edge -> bool) (l : list edge) :
    (forall e, p (toW weighted e) = q e) ->
    wsel p (map (toW weighted) l) = qsum (map (wq weighted) (filter q l)).
  Proof.
    intros H. unfold wsel. rewrite filter_map_comm, map_map.
    rewrite (filter_ext _ q) by exact H. reflexivity.
  Qed.

  (* ---------------- per-node values and the *_for_all_nodes maps ---------------- *)
  Definition dmap_ok (dm : list (T * oq)) (ns : list T) (d : T -> Q) : Prop :=
    map fst dm = ns /\ forall x o, In (x, o) dm -> oeq o (d x).

  Lemma for_all_nodes_rel {X} (g : gstate) (f : gstate -> T -> outcome (option X)) (P : T -> X -> Prop) :
    (forall x, In x (names g) -> exists v, f g x = Ok (Some v) /\ P x v) ->
    exists r, for_all_nodes g f = Ok r /\ map fst r = names g /\ forall x v, In (x, v) r -> P x v.
  Proof.
    unfold for_all_nodes, WFDefs.names. generalize (nodes_vec g) as ns.
    induction ns as [|n ns IH]; intros H; cbn [omapM map].
    - exists []. split; [reflexivity|]. split; [reflexivity|]. intros x v [].
    - destruct (H (nname n) (or_introl eq_refl)) as (v & Hv & Pv). rewrite Hv. cbn [bind].
      destruct (IH (fun x Hx => H x (or_intror Hx))) as (r & Hr & Hk & Hp). rewrite Hr. cbn [bind].
      exists ((nname n, v) :: r). split; [reflexivity|]. split; [cbn [map fst]; rewrite Hk; reflexivity|].
      intros x v0 [E|Hin]; [inversion E; subst; exact Pv | apply (Hp x v0 Hin)].
  Qed.

  Lemma w_values_ok (r : list (T * weight)) ns (d : T -> Q) :
    map fst r = ns -> (forall x v, In (x, v) r -> oeq (oq_of_w v) (d x)) -> dmap_ok (w_values (T:=T) r) ns d.
  Proof.
    intros Hk Hp. split.
    - unfold w_values. rewrite map_map. cbn [fst]. exact Hk.
    - intros x o Hin. unfold w_values in Hin. apply in_map_iff in Hin. destruct Hin as ((k & v) & E & Hin).
      cbn [fst snd] in E. inversion E. subst. apply (Hp x v Hin).
  Qed.

  Lemma nat_values_ok (r : list (T * nat)) ns (d : T -> Q) :
    map fst r = ns -> (forall x v, In (x, v) r -> inject_Z (Z.of_nat v) == d x) -> dmap_ok (nat_values (T:=T) r) ns d.
  Proof.
    intros Hk Hp. split.
    - unfold nat_values. rewrite map_map. cbn [fst]. exact Hk.
    - intros x o Hin. unfold nat_values in Hin. apply in_map_iff in Hin. destruct Hin as ((k & v) & E & Hin).
      cbn [fst snd] in E. inversion E. subst. apply oeq_some. apply (Hp x v Hin).
  Qed.

  Lemma oq_sum_dmap dm ns d : dmap_ok dm ns d -> oeq (oq_sum (map snd dm)) (qsum (map d ns)).
  Proof.
    intros (Hk & Hp). subst ns. induction dm as [|[x o] t IH]; cbn [map oq_sum qsum fst snd].
    - apply oeq_some. reflexivity.
    - apply oeq_plus; [apply (Hp x o); left; reflexivity|].
      apply IH. intros y o' Hin. apply Hp. right. exact Hin.
  Qed.

  Lemma lookup_dmap dm ns d x : dmap_ok dm ns d -> In x ns ->
    exists o, lookup teqb x dm = Some o /\ oeq o (d x).
  Proof.
    intros (Hk & Hp) Hx. subst ns. induction dm as [|[k o] t IH]; cbn [map fst] in Hx; [destruct Hx|].
    cbn [lookup]. destruct (teqb x k) eqn:E.
    - apply teqb_spec in E. subst k. exists o. split; [reflexivity|]. apply Hp. left. reflexivity.
    - destruct Hx as [Hx|Hx]; [subst k; rewrite (proj2 (teqb_spec x x) eq_refl) in E; discriminate|].
      apply IH; [|exact Hx]. intros y o' Hin. apply Hp. right. exact Hin.
  Qed.

  Lemma sum_over_dmap site dm ns d : dmap_ok dm ns d -> forall c, incl c ns ->
    exists o, Partition.sum_over teqb site dm c = Ok o /\ oeq o (qsum (map d c)).
  Proof.
    intros Hd. induction c as [|x c IH]; intros Hi; cbn [Partition.sum_over map qsum].
    - exists (Some 0). split; [reflexivity|]. apply oeq_some. reflexivity.
    - destruct (lookup_dmap dm ns d x Hd (Hi x (or_introl eq_refl))) as (o & Ho & Eo). rewrite Ho.
      destruct (IH (fun y Hy => Hi y (or_intror Hy))) as (r & Hr & Er). rewrite Hr. cbn [bind].
      eexists. split; [reflexivity|]. apply oeq_plus; assumption.
  Qed.

  Section OnState.
    Variable g : gstate.
    Variable weighted : bool.
    Hypothesis W : WF g.
    Hypothesis Hreal : weighted = true -> all_real (all_edges g).

    Let E := all_edges g.
    Let es := map (toW weighted) E.

    Lemma weighted_cases : weighted = true \/ weighted = false.
    Proof. destruct weighted; auto. Qed.
    Lemma val_true (l : list edge) : weighted = true -> val weighted l = oq_of_w (wsum (map ew l)).
    Proof. intros ->. reflexivity. Qed.
    Lemma val_false (l : list edge) : weighted = false -> val weighted l = Some (inject_Z (Z.of_nat (length l))).
    Proof. intros ->. reflexivity. Qed.

    Lemma out_deg_es x : PartitionDef.out_deg teqb es x = qsum (map (wq weighted) (out_edges_of teqb g x)).
    Proof. unfold PartitionDef.out_deg, es. apply wsel_toW. intros e. reflexivity. Qed.

    Lemma in_deg_es x : PartitionDef.in_deg teqb es x = qsum (map (wq weighted) (in_edges_of teqb g x)).
    Proof. unfold PartitionDef.in_deg, es. apply wsel_toW. intros e. reflexivity. Qed.

    Lemma und_deg_es x :
      und_deg teqb es x = qsum (map (wq weighted) (touching teqb g x)) +
                          qsum (map (wq weighted) (filter (is_loop_at teqb x) E)).
    Proof.
      unfold und_deg, es. f_equal; apply wsel_toW; intros e; reflexivity.
    Qed.

    Lemma real_sub (p : edge -> bool) : weighted = true -> all_real (filter p E).
    Proof. intros Hw. apply all_real_filter. apply (Hreal Hw). Qed.

    (* directed graphs: the out-degree and in-degree maps *)
    Lemma out_map_ok s1 s2 : directed (sp g) = true ->
      exists od,
        (if weighted
         then do r <- unwrap_res s1 (get_weighted_out_degree_for_all_nodes teqb g); Ok (w_values r)
         else do r <- unwrap_res s2 (get_out_degree_for_all_nodes teqb g); Ok (nat_values r)) = Ok od /\
        dmap_ok od (names g) (PartitionDef.out_deg teqb es).
    Proof.
      intros Hd. destruct (weighted_cases) as [Hw|Hw]; rewrite Hw.
      - unfold get_weighted_out_degree_for_all_nodes. rewrite Hd. cbn [negb].
        destruct (for_all_nodes_rel g (get_node_weighted_out_degree teqb)
                    (fun x v => oeq (oq_of_w v) (PartitionDef.out_deg teqb es x))) as (r & Hr & Hk & Hp).
        { intros x Hx. unfold get_node_weighted_out_degree.
          destruct (get_out_edges_for_node_spec teqb tltb teqb_spec g x W Hd Hx) as (l & Hl & Hperm).
          rewrite Hl. cbn [opt_wsum]. eexists. split; [reflexivity|]. rewrite out_deg_es.
          rewrite <- (val_true l Hw). apply (val_perm weighted l _ Hperm). intros Hw'. apply (real_sub _ Hw'). }
        rewrite Hr. cbn [unwrap_res bind]. eexists. split; [reflexivity|]. apply w_values_ok; assumption.
      - unfold get_out_degree_for_all_nodes. rewrite Hd. cbn [negb].
        destruct (for_all_nodes_rel g (get_node_out_degree teqb)
                    (fun x v => inject_Z (Z.of_nat v) == PartitionDef.out_deg teqb es x)) as (r & Hr & Hk & Hp).
        { intros x Hx. unfold get_node_out_degree.
          destruct (get_out_edges_for_node_spec teqb tltb teqb_spec g x W Hd Hx) as (l & Hl & Hperm).
          rewrite Hl. cbn [opt_len]. eexists. split; [reflexivity|]. rewrite out_deg_es.
          destruct (val_perm weighted l _ Hperm) as (q & Hq & Eq); [intros Hw'; congruence|].
          rewrite (val_false l Hw) in Hq. inversion Hq. subst q. exact Eq. }
        rewrite Hr. cbn [unwrap_res bind]. eexists. split; [reflexivity|]. apply nat_values_ok; assumption.
    Qed.

    Lemma in_map_ok s1 s2 : directed (sp g) = true ->
      exists id,
        (if weighted
         then do r <- unwrap_res s1 (get_weighted_in_degree_for_all_nodes teqb g); Ok (w_values r)
         else do r <- unwrap_res s2 (get_in_degree_for_all_nodes teqb g); Ok (nat_values r)) = Ok id /\
        dmap_ok id (names g) (PartitionDef.in_deg teqb es).
    Proof.
      intros Hd. destruct (weighted_cases) as [Hw|Hw]; rewrite Hw.
      - unfold get_weighted_in_degree_for_all_nodes. rewrite Hd. cbn [negb].
        destruct (for_all_nodes_rel g (get_node_weighted_in_degree teqb)
                    (fun x v => oeq (oq_of_w v) (PartitionDef.in_deg teqb es x))) as (r & Hr & Hk & Hp).
        { intros x Hx. unfold get_node_weighted_in_degree.
          destruct (get_in_edges_for_node_spec teqb tltb teqb_spec g x W Hd Hx) as (l & Hl & Hperm).
          rewrite Hl. cbn [opt_wsum]. eexists. split; [reflexivity|]. rewrite in_deg_es.
          rewrite <- (val_true l Hw). apply (val_perm weighted l _ Hperm). intros Hw'. apply (real_sub _ Hw'). }
        rewrite Hr. cbn [unwrap_res bind]. eexists. split; [reflexivity|]. apply w_values_ok; assumption.
      - unfold get_in_degree_for_all_nodes. rewrite Hd. cbn [negb].
        destruct (for_all_nodes_rel g (get_node_in_degree teqb)
                    (fun x v => inject_Z (Z.of_nat v) == PartitionDef.in_deg teqb es x)) as (r & Hr & Hk & Hp).
        { intros x Hx. unfold get_node_in_degree.
          destruct (get_in_edges_for_node_spec teqb tltb teqb_spec g x W Hd Hx) as (l & Hl & Hperm).
          rewrite Hl. cbn [opt_len]. eexists. split; [reflexivity|]. rewrite in_deg_es.
          destruct (val_perm weighted l _ Hperm) as (q & Hq & Eq); [intros Hw'; congruence|].
          rewrite (val_false l Hw) in Hq. inversion Hq. subst q. exact Eq. }
        rewrite Hr. cbn [unwrap_res bind]. eexists. split; [reflexivity|]. apply nat_values_ok; assumption.
    Qed.

    (* both graph kinds: the degree map (a self-loop counts twice) *)
    Lemma loops_of_touching x (l : list edge) :
      Permutation l (touching teqb g x) ->
      Permutation (filter (is_loop_at teqb x) l) (filter (is_loop_at teqb x) E).
    Proof.
      intros Hp.
      assert (Hf : filter (is_loop_at teqb x) (touching teqb g x) = filter (is_loop_at teqb x) E).
      { unfold QueryOk.touching. apply filter_filter_imp. intros e He. unfold is_loop_at in He.
        apply andb_true_iff in He. destruct He as (-> & _). reflexivity. }
      rewrite <- Hf. clear Hf. induction Hp; cbn [filter].
      - constructor.
      - destruct (is_loop_at teqb x x0); [constructor|]; exact IHHp.
      - destruct (is_loop_at teqb x x0); destruct (is_loop_at teqb x y); try apply Permutation_refl. constructor.
      - eapply Permutation_trans; eassumption.
    Qed.

    Lemma deg_map_ok :
      exists dg,
        (if weighted
         then do r <- get_weighted_degree_for_all_nodes teqb tltb g; Ok (w_values r)
         else do r <- get_degree_for_all_nodes teqb tltb g; Ok (nat_values r)) = Ok dg /\
        dmap_ok dg (names g) (und_deg teqb es).
    Proof.
      destruct (weighted_cases) as [Hw|Hw]; rewrite Hw.
      - unfold get_weighted_degree_for_all_nodes.
        destruct (for_all_nodes_rel g (get_node_weighted_degree teqb tltb)
                    (fun x v => oeq (oq_of_w v) (und_deg teqb es x))) as (r & Hr & Hk & Hp).
        { intros x Hx. unfold get_node_weighted_degree.
          destruct (get_edges_for_node_spec teqb tltb teqb_spec tltb_total g x W Hx) as (l & Hl & Hperm).
          rewrite Hl. eexists. split; [reflexivity|]. rewrite und_deg_es.
          destruct (val_perm weighted l _ Hperm) as (q1 & Hq1 & E1); [intros Hw'; apply (real_sub _ Hw')|].
          destruct (val_perm weighted _ _ (loops_of_touching x l Hperm)) as (q2 & Hq2 & E2);
            [intros Hw'; apply (real_sub _ Hw')|].
          rewrite (val_true _ Hw) in Hq1. rewrite (val_true _ Hw) in Hq2.
          destruct (wsum (map ew l)) as [z1|]; [|discriminate].
          destruct (wsum (map ew (filter (is_loop_at teqb x) l))) as [z2|]; [|discriminate].
          cbn [oq_of_w] in Hq1, Hq2. inversion Hq1. inversion Hq2. subst q1 q2.
          cbn [wadd oq_of_w]. apply oeq_some. rewrite inject_Z_plus, E1, E2. reflexivity. }
        rewrite Hr. cbn [bind]. eexists. split; [reflexivity|]. apply w_values_ok; assumption.
      - unfold get_degree_for_all_nodes.
        destruct (for_all_nodes_rel g (get_node_degree teqb tltb)
                    (fun x v => inject_Z (Z.of_nat v) == und_deg teqb es x)) as (r & Hr & Hk & Hp).
        { intros x Hx. unfold get_node_degree.
          destruct (get_edges_for_node_spec teqb tltb teqb_spec tltb_total g x W Hx) as (l & Hl & Hperm).
          rewrite Hl. eexists. split; [reflexivity|]. rewrite und_deg_es.
          destruct (val_perm weighted l _ Hperm) as (q1 & Hq1 & E1); [intros Hw'; congruence|].
          destruct (val_perm weighted _ _ (loops_of_touching x l Hperm)) as (q2 & Hq2 & E2); [intros Hw'; congruence|].
          rewrite (val_false _ Hw) in Hq1. rewrite (val_false _ Hw) in Hq2. inversion Hq1. inversion Hq2. subst q1 q2.
          rewrite Nat2Z.inj_add, inject_Z_plus, E1, E2. reflexivity. }
        rewrite Hr. cbn [bind]. eexists. split; [reflexivity|]. apply nat_values_ok; assumption.
    Qed.

    (* the induced subgraph's size *)
    Lemma subgraph_size_ok c :
      exists sub, get_subgraph teqb tltb g c = Ok sub /\
        oeq (if weighted then oq_of_w (size_weighted sub)
             else Some (inject_Z (Z.of_nat (size_unweighted sub))))
            (total_w (subgraph_edges teqb es c)).
    Proof.
      destruct (get_subgraph_content teqb tltb teqb_spec tltb_total g c W) as (h & Hh & _ & _ & Hp).
      exists h. split; [exact Hh|].
      change (oeq (val weighted (all_edges h)) (total_w (subgraph_edges teqb es c))).
      assert (Ht : total_w (subgraph_edges teqb es c) =
                   qsum (map (wq weighted)
                           (filter (fun e => mem_name teqb (eu e) c && mem_name teqb (ev e) c) E))).
      { unfold total_w, subgraph_edges, es. rewrite filter_map_comm, map_map. reflexivity. }
      rewrite Ht. apply (val_perm weighted _ _ Hp). intros Hw. apply (real_sub _ Hw).
    Qed.

    (* one entry per community: size of the induced subgraph, out- and in-degree sums *)
    Definition part_rel (dout din : T -> Q) (c : list T) (p : oq * oq * oq) : Prop :=
      let '(w, ods, ids) := p in
      oeq w (total_w (subgraph_edges teqb es c)) /\ oeq ods (qsum (map dout c)) /\
      oeq ids (if directed (sp g) then qsum (map din c) else qsum (map dout c)).

    Lemma parts_ok s1 s2 od id dout din :
      dmap_ok od (names g) dout -> dmap_ok id (names g) din ->
      forall comms, (forall c, In c comms -> incl c (names g)) ->
      exists parts,
        omapM (fun c =>
                 do sub <- get_subgraph teqb tltb g c;
                 let w := if weighted then oq_of_w (size_weighted sub)
                          else Some (inject_Z (Z.of_nat (size_unweighted sub))) in
                 do ods <- Partition.sum_over teqb s1 od c;
                 do ids <- (if directed (sp g) then Partition.sum_over teqb s2 id c else Ok ods);
                 Ok (w, ods, ids)) comms = Ok parts /\
        Forall2 (part_rel dout din) comms parts.
    Proof.
      intros Hod Hid. induction comms as [|c comms IH]; intros Hin; cbn [omapM].
      - exists []. split; [reflexivity|constructor].
      - destruct (subgraph_size_ok c) as (sub & Hsub & Hw). rewrite Hsub. cbn [bind].
        destruct (sum_over_dmap s1 od _ dout Hod c (Hin c (or_introl eq_refl))) as (o1 & Ho1 & E1).
        rewrite Ho1. cbn [bind].
        destruct (IH (fun c' Hc' => Hin c' (or_intror Hc'))) as (parts & Hparts & Hrel).
        cbv zeta in Hparts.
        destruct (directed (sp g)) eqn:Hd.
        + destruct (sum_over_dmap s2 id _ din Hid c (Hin c (or_introl eq_refl))) as (o2 & Ho2 & E2).
          rewrite Ho2. cbn [bind]. rewrite Hparts. cbn [bind].
          eexists. split; [reflexivity|]. constructor; [|exact Hrel].
          unfold part_rel. rewrite Hd. auto.
        + cbn [bind]. cbn [bind] in Hparts. rewrite Hparts. cbn [bind].
          eexists. split; [reflexivity|]. constructor; [|exact Hrel].
          unfold part_rel. rewrite Hd. auto.
    Qed.

    (* the final sum *)
    Lemma finish_ok dout din gamma mq nb M NB : mq == M -> nb == NB ->
      forall comms parts, Forall2 (part_rel dout din) comms parts ->
      oeq (oq_sum (map (fun p : oq * oq * oq =>
               let '(w, ods, ids) := p in
               oq2 Qminus (oq2 Qdiv w (Some mq))
                   (oq2 Qmult (oq2 Qmult (oq2 Qmult (Some gamma) ods) ids)
                        (Some ((1 / nb) * (1 / nb))))) parts))
          (qsum (map (fun c =>
                   total_w (subgraph_edges teqb es c) / M
                   - gamma * qsum (map dout c) *
                     (if directed (sp g) then qsum (map din c) else qsum (map dout c)) *
                     ((1 / NB) * (1 / NB))) comms)).
    Proof.
      intros Hm Hn comms parts H. induction H as [|c [[w ods] ids] comms parts (Hw & Ho & Hi) _ IH];
        cbn [map oq_sum qsum].
      - apply oeq_some. reflexivity.
      - apply oeq_plus; [|exact IH]. apply oeq_minus.
        + apply oeq_div; [exact Hw|apply oeq_some; exact Hm].
        + apply oeq_mult; [apply oeq_mult; [apply oeq_mult; [apply oeq_some; reflexivity|exact Ho]|exact Hi]|].
          apply oeq_some. rewrite Hn. reflexivity.
    Qed.

    Lemma es_endpoints : forall e, In e es -> In (wu e) (names g) /\ In (wv e) (names g).
    Proof.
      intros e He. unfold es in He. apply in_map_iff in He. destruct He as (e0 & <- & H0).
      apply (endpoints_in_names teqb tltb teqb_spec g e0 W H0).
    Qed.

    Lemma total_out : qsum (map (PartitionDef.out_deg teqb es) (names g)) == total_w es.
    Proof.
      rewrite (sum_out_deg teqb teqb_spec es (names g) (wf_nodup _ _ _ W)).
      apply (Kout_all teqb teqb_spec). intros e He. apply (es_endpoints e He).
    Qed.

    Lemma total_und : qsum (map (und_deg teqb es) (names g)) == 2 * total_w es.
    Proof.
      rewrite (sum_und_deg teqb teqb_spec es (names g) (wf_nodup _ _ _ W)). unfold K_of.
      rewrite (Kout_all teqb teqb_spec), (Kin_all teqb teqb_spec); [ring| |];
        intros e He; apply (es_endpoints e He).
    Qed.

    (* ---------------- the state-level computation is the list-level one ---------------- *)
    Lemma partition_incl comms :
      is_partition_model teqb (names g) comms = true -> forall c, In c comms -> incl c (names g).
    Proof.
      intros H c Hc x Hx. apply (is_partition_model_char teqb teqb_spec) in H. destruct H as (_ & Hi & _).
      apply Hi. apply in_concat. exists c. split; assumption.
    Qed.

    Theorem modularity_state_abs comms gamma :
      is_partition_model teqb (names g) comms = true ->
      ~ total_w es == 0 ->
      exists q, modularity teqb tltb g comms weighted gamma = Ok (Some q) /\
                q == modularity_abs teqb (directed (sp g)) (names g) es gamma comms.
    Proof.
      intros Hip Hnz. pose proof (partition_incl comms Hip) as Hinc.
      unfold modularity. rewrite (is_partition_WF g comms W), Hip. cbn [bind negb].
      destruct (directed (sp g)) eqn:Hd.
      - destruct (out_map_ok "partitions.rs:97" "partitions.rs:101" Hd) as (od & Hod & Dod).
        destruct (in_map_ok "partitions.rs:98" "partitions.rs:102" Hd) as (id & Hid & Did).
        rewrite Hod. cbn [bind]. rewrite Hid. cbn [bind].
        destruct (parts_ok "partitions.rs:125" "partitions.rs:127" od id _ _ Dod Did comms Hinc)
          as (parts & Hparts & Hrel).
        rewrite Hd in Hparts. cbv zeta in Hparts. cbn [bind] in Hparts. rewrite Hparts. cbn [bind].
        destruct (oq_sum_dmap od _ _ Dod) as (mq & Hm & Em). rewrite Hm.
        assert (Hz : Qeq_bool mq 0 = false).
        { destruct (Qeq_bool mq 0) eqn:Eb; [|reflexivity]. exfalso. apply Qeq_bool_eq in Eb.
          apply Hnz. rewrite <- total_out, <- Em. exact Eb. }
        rewrite Hz.
        destruct (oeq_red _ _ (finish_ok _ _ gamma mq mq _ _ Em Em comms parts Hrel)) as (q & Hq & Eq).
        exists q. split; [f_equal; exact Hq|]. rewrite Eq. rewrite Hd. unfold modularity_abs.
        apply (qsum_ext). intros c _. reflexivity.
      - destruct deg_map_ok as (dg & Hdg & Ddg). rewrite Hdg. cbn [bind].
        destruct (parts_ok "partitions.rs:125" "partitions.rs:127" dg dg _ _ Ddg Ddg comms Hinc)
          as (parts & Hparts & Hrel).
        rewrite Hd in Hparts. cbv zeta in Hparts. cbn [bind] in Hparts. rewrite Hparts. cbn [bind].
        destruct (oq_sum_dmap dg _ _ Ddg) as (ds & Hs & Es). rewrite Hs. cbn [oq2].
        assert (Hz : Qeq_bool (ds / 2) 0 = false).
        { destruct (Qeq_bool (ds / 2) 0) eqn:Eb; [|reflexivity]. exfalso. apply Qeq_bool_eq in Eb.
          apply Hnz. rewrite Es, total_und in Eb. field_simplify in Eb. lra. }
        rewrite Hz.
        assert (Em : ds / 2 == qsum (map (und_deg teqb es) (names g)) / 2) by (rewrite Es; reflexivity).
        destruct (oeq_red _ _ (finish_ok _ _ gamma (ds / 2) ds _ _ Em Es comms parts Hrel)) as (q & Hq & Eq).
        exists q. split; [f_equal; exact Hq|]. rewrite Eq. rewrite Hd. unfold modularity_abs.
        apply (qsum_ext). intros c _. reflexivity.
    Qed.
    (* ---------------- total weight 0 (non-negative weights): 0/0, i.e. NaN ---------------- *)
    Lemma qsum_nonneg_zero : forall l : list Q, (forall x, In x l -> 0 <= x) -> qsum l == 0 ->
      forall x, In x l -> x == 0.
    Proof.
      induction l as [|a l IH]; intros Hpos Hz x Hx; [destruct Hx|]. cbn [qsum] in Hz.
      assert (Ha : 0 <= a) by (apply Hpos; left; reflexivity).
      assert (Hl : 0 <= qsum l).
      { clear -Hpos. induction l as [|b l IHl]; cbn [qsum]; [lra|].
        assert (0 <= b) by (apply Hpos; right; left; reflexivity).
        assert (0 <= qsum l) by (apply IHl; intros y [Hy|Hy]; apply Hpos; [left; exact Hy|right; right; exact Hy]). lra. }
      destruct Hx as [<-|Hx]; [lra|]. apply IH; [intros y Hy; apply Hpos; right; exact Hy|lra|exact Hx].
    Qed.

    Lemma wsel_zero (p : T * T * Q -> bool) :
      (forall e, In e es -> 0 <= ww e) -> total_w es == 0 -> wsel p es == 0.
    Proof.
      intros Hpos Hz.
      assert (Hall : forall e, In e es -> ww e == 0).
      { intros e He. apply (qsum_nonneg_zero (map (@ww T) es)); [|exact Hz|apply in_map; exact He].
        intros x Hx. apply in_map_iff in Hx. destruct Hx as (e0 & <- & H0). apply Hpos. exact H0. }
      unfold wsel. generalize Hall. generalize es as l. induction l as [|e l IH]; intros Hl; [reflexivity|].
      cbn [filter]. destruct (p e); cbn [map qsum].
      - rewrite (Hl e (or_introl eq_refl)), IH by (intros e0 H0; apply Hl; right; exact H0). reflexivity.
      - apply IH. intros e0 H0. apply Hl. right. exact H0.
    Qed.

    Lemma qsum_all_zero {X} (f : X -> Q) (l : list X) : (forall x, f x == 0) -> qsum (map f l) == 0.
    Proof. intros H. induction l as [|x l IH]; cbn [map qsum]; [reflexivity|]. rewrite H, IH. reflexivity. Qed.

    Lemma parts_all_zero dout din comms parts :
      (forall c, total_w (subgraph_edges teqb es c) == 0) ->
      (forall c, qsum (map dout c) == 0) -> (forall c, qsum (map din c) == 0) ->
      Forall2 (part_rel dout din) comms parts ->
      forallb (fun p : oq * oq * oq =>
                 match p with
                 | (Some w, Some a, Some b) => Qeq_bool w 0 && Qeq_bool a 0 && Qeq_bool b 0
                 | _ => true
                 end) parts = true.
    Proof.
      intros HW HO HI H. induction H as [|c [[w ods] ids] comms parts (Hw & Ho & Hi) _ IH]; [reflexivity|].
      cbn [forallb]. rewrite IH, andb_true_r.
      destruct Hw as (w' & -> & Ew). destruct Ho as (o' & -> & Eo). destruct Hi as (i' & -> & Ei).
      rewrite (proj2 (Qeq_bool_iff w' 0)) by (rewrite Ew; apply HW).
      rewrite (proj2 (Qeq_bool_iff o' 0)) by (rewrite Eo; apply HO).
      rewrite (proj2 (Qeq_bool_iff i' 0)); [reflexivity|]. rewrite Ei. destruct (directed (sp g)); [apply HI|apply HO].
    Qed.

    Theorem modularity_state_zero comms gamma :
      is_partition_model teqb (names g) comms = true ->
      (forall e, In e es -> 0 <= ww e) -> total_w es == 0 ->
      modularity teqb tltb g comms weighted gamma =
      Ok (match comms with [] => Some 0 | _ => None end).
    Proof.
      intros Hip Hpos Hz. pose proof (partition_incl comms Hip) as Hinc.
      assert (HW : forall c, total_w (subgraph_edges teqb es c) == 0).
      { intros c. unfold total_w, subgraph_edges. apply (wsel_zero _ Hpos Hz). }
      assert (HO : forall x, PartitionDef.out_deg teqb es x == 0) by (intros x; apply (wsel_zero _ Hpos Hz)).
      assert (HI : forall x, PartitionDef.in_deg teqb es x == 0) by (intros x; apply (wsel_zero _ Hpos Hz)).
      assert (HU : forall x, und_deg teqb es x == 0).
      { intros x. unfold und_deg. rewrite !(wsel_zero _ Hpos Hz). reflexivity. }
      unfold modularity. rewrite (is_partition_WF g comms W), Hip. cbn [bind negb].
      destruct (directed (sp g)) eqn:Hd.
      - destruct (out_map_ok "partitions.rs:97" "partitions.rs:101" Hd) as (od & Hod & Dod).
        destruct (in_map_ok "partitions.rs:98" "partitions.rs:102" Hd) as (id & Hid & Did).
        rewrite Hod. cbn [bind]. rewrite Hid. cbn [bind].
        destruct (parts_ok "partitions.rs:125" "partitions.rs:127" od id _ _ Dod Did comms Hinc)
          as (parts & Hparts & Hrel).
        rewrite Hd in Hparts. cbv zeta in Hparts. cbn [bind] in Hparts. rewrite Hparts. cbn [bind].
        destruct (oq_sum_dmap od _ _ Dod) as (mq & Hm & Em). rewrite Hm.
        rewrite (proj2 (Qeq_bool_iff mq 0)) by (rewrite Em; apply qsum_all_zero; exact HO).
        destruct comms as [|c0 comms']; [reflexivity|].
        pose proof (parts_all_zero _ _ _ _ HW (fun c => qsum_all_zero _ c HO) (fun c => qsum_all_zero _ c HI) Hrel) as Hpz.
        match goal with |- (if ?b then _ else _) = _ => replace b with true by (symmetry; exact Hpz) end.
        reflexivity.
      - destruct deg_map_ok as (dg & Hdg & Ddg). rewrite Hdg. cbn [bind].
        destruct (parts_ok "partitions.rs:125" "partitions.rs:127" dg dg _ _ Ddg Ddg comms Hinc)
          as (parts & Hparts & Hrel).
        rewrite Hd in Hparts. cbv zeta in Hparts. cbn [bind] in Hparts. rewrite Hparts. cbn [bind].
        destruct (oq_sum_dmap dg _ _ Ddg) as (ds & Hs & Es). rewrite Hs. cbn [oq2].
        assert (Ez : ds / 2 == 0).
        { rewrite Es, (qsum_all_zero _ (names g) HU). reflexivity. }
        rewrite (proj2 (Qeq_bool_iff (ds / 2) 0) Ez).
        destruct comms as [|c0 comms']; [reflexivity|].
        pose proof (parts_all_zero _ _ _ _ HW (fun c => qsum_all_zero _ c HU) (fun c => qsum_all_zero _ c HU) Hrel) as Hpz.
        match goal with |- (if ?b then _ else _) = _ => replace b with true by (symmetry; exact Hpz) end.
        reflexivity.
    Qed.
  End OnState.

  (* ---------------- totality: on a partition the call never returns an Err ---------------- *)
  Section Total.
    Variable g : gstate.
    Hypothesis W : WF g.

    Lemma fan_keys {X} (f : gstate -> T -> outcome (option X)) :
      (forall x, In x (names g) -> exists v, f g x = Ok (Some v)) ->
      exists r, for_all_nodes g f = Ok r /\ map fst r = names g.
    Proof.
      intros H. destruct (for_all_nodes_rel g f (fun _ _ => True)) as (r & Hr & Hk & _).
      - intros x Hx. destruct (H x Hx) as (v & Hv). exists v. split; [exact Hv|exact I].
      - exists r. split; assumption.
    Qed.

    Lemma w_values_keys (r : list (T * weight)) : map fst (w_values (T:=T) r) = map fst r.
    Proof. unfold w_values. rewrite map_map. reflexivity. Qed.
    Lemma nat_values_keys (r : list (T * nat)) : map fst (nat_values (T:=T) r) = map fst r.
    Proof. unfold nat_values. rewrite map_map. reflexivity. Qed.

    Lemma out_keys (weighted : bool) s1 s2 : directed (sp g) = true ->
      exists od,
        (if weighted
         then do r <- unwrap_res s1 (get_weighted_out_degree_for_all_nodes teqb g); Ok (w_values r)
         else do r <- unwrap_res s2 (get_out_degree_for_all_nodes teqb g); Ok (nat_values r)) = Ok od /\
        map fst od = names g.
    Proof.
      intros Hd. destruct weighted.
      - unfold get_weighted_out_degree_for_all_nodes. rewrite Hd. cbn [negb].
        destruct (fan_keys (get_node_weighted_out_degree teqb)) as (r & Hr & Hk).
        { intros x Hx. unfold get_node_weighted_out_degree.
          destruct (get_out_edges_for_node_spec teqb tltb teqb_spec g x W Hd Hx) as (l & Hl & _).
          rewrite Hl. eexists. reflexivity. }
        rewrite Hr. cbn [unwrap_res bind]. eexists. split; [reflexivity|]. rewrite w_values_keys. exact Hk.
      - unfold get_out_degree_for_all_nodes. rewrite Hd. cbn [negb].
        destruct (fan_keys (get_node_out_degree teqb)) as (r & Hr & Hk).
        { intros x Hx. unfold get_node_out_degree.
          destruct (get_out_edges_for_node_spec teqb tltb teqb_spec g x W Hd Hx) as (l & Hl & _).
          rewrite Hl. eexists. reflexivity. }
        rewrite Hr. cbn [unwrap_res bind]. eexists. split; [reflexivity|]. rewrite nat_values_keys. exact Hk.
    Qed.

    Lemma in_keys (weighted : bool) s1 s2 : directed (sp g) = true ->
      exists id,
        (if weighted
         then do r <- unwrap_res s1 (get_weighted_in_degree_for_all_nodes teqb g); Ok (w_values r)
         else do r <- unwrap_res s2 (get_in_degree_for_all_nodes teqb g); Ok (nat_values r)) = Ok id /\
        map fst id = names g.
    Proof.
      intros Hd. destruct weighted.
      - unfold get_weighted_in_degree_for_all_nodes. rewrite Hd. cbn [negb].
        destruct (fan_keys (get_node_weighted_in_degree teqb)) as (r & Hr & Hk).
        { intros x Hx. unfold get_node_weighted_in_degree.
          destruct (get_in_edges_for_node_spec teqb tltb teqb_spec g x W Hd Hx) as (l & Hl & _).
          rewrite Hl. eexists. reflexivity. }
        rewrite Hr. cbn [unwrap_res bind]. eexists. split; [reflexivity|]. rewrite w_values_keys. exact Hk.
      - unfold get_in_degree_for_all_nodes. rewrite Hd. cbn [negb].
        destruct (fan_keys (get_node_in_degree teqb)) as (r & Hr & Hk).
        { intros x Hx. unfold get_node_in_degree.
          destruct (get_in_edges_for_node_spec teqb tltb teqb_spec g x W Hd Hx) as (l & Hl & _).
          rewrite Hl. eexists. reflexivity. }
        rewrite Hr. cbn [unwrap_res bind]. eexists. split; [reflexivity|]. rewrite nat_values_keys. exact Hk.
    Qed.

    Lemma deg_keys (weighted : bool) :
      exists dg,
        (if weighted
         then do r <- get_weighted_degree_for_all_nodes teqb tltb g; Ok (w_values r)
         else do r <- get_degree_for_all_nodes teqb tltb g; Ok (nat_values r)) = Ok dg /\
        map fst dg = names g.
    Proof.
      destruct weighted.
      - unfold get_weighted_degree_for_all_nodes.
        destruct (fan_keys (get_node_weighted_degree teqb tltb)) as (r & Hr & Hk).
        { intros x Hx. unfold get_node_weighted_degree.
          destruct (get_edges_for_node_spec teqb tltb teqb_spec tltb_total g x W Hx) as (l & Hl & _).
          rewrite Hl. eexists. reflexivity. }
        rewrite Hr. cbn [bind]. eexists. split; [reflexivity|]. rewrite w_values_keys. exact Hk.
      - unfold get_degree_for_all_nodes.
        destruct (fan_keys (get_node_degree teqb tltb)) as (r & Hr & Hk).
        { intros x Hx. unfold get_node_degree.
          destruct (get_edges_for_node_spec teqb tltb teqb_spec tltb_total g x W Hx) as (l & Hl & _).
          rewrite Hl. eexists. reflexivity. }
        rewrite Hr. cbn [bind]. eexists. split; [reflexivity|]. rewrite nat_values_keys. exact Hk.
    Qed.

    Lemma sum_over_keys site (dm : list (T * oq)) : forall c, incl c (map fst dm) ->
      exists o, Partition.sum_over teqb site dm c = Ok o.
    Proof.
      induction c as [|x c IH]; intros Hi; cbn [Partition.sum_over]; [eexists; reflexivity|].
      assert (Hl : exists o, lookup teqb x dm = Some o).
      { specialize (Hi x (or_introl eq_refl)). clear IH. induction dm as [|[k o] t IHt]; [destruct Hi|].
        cbn [lookup]. destruct (teqb x k) eqn:E; [eexists; reflexivity|].
        destruct Hi as [Hx|Hx]; [cbn [fst] in Hx; subst k; rewrite (proj2 (teqb_spec x x) eq_refl) in E; discriminate|].
        apply IHt. exact Hx. }
      destruct Hl as (o & ->). destruct (IH (fun y Hy => Hi y (or_intror Hy))) as (r & ->). cbn [bind].
      eexists. reflexivity.
    Qed.

    Lemma parts_total (weighted : bool) s1 s2 (od id : list (T * oq)) :
      map fst od = names g -> map fst id = names g ->
      forall comms, (forall c, In c comms -> incl c (names g)) ->
      exists parts,
        omapM (fun c =>
                 do sub <- get_subgraph teqb tltb g c;
                 do ods <- Partition.sum_over teqb s1 od c;
                 do ids <- (if directed (sp g) then Partition.sum_over teqb s2 id c else Ok ods);
                 Ok (if weighted then oq_of_w (size_weighted sub)
                     else Some (inject_Z (Z.of_nat (size_unweighted sub))), ods, ids)) comms = Ok parts.
    Proof.
      intros Hod Hid. induction comms as [|c comms IH]; intros Hin; cbn [omapM]; [eexists; reflexivity|].
      destruct (get_subgraph_content teqb tltb teqb_spec tltb_total g c W) as (h & Hh & _). rewrite Hh. cbn [bind].
      destruct (sum_over_keys s1 od c) as (o1 & ->); [rewrite Hod; apply Hin; left; reflexivity|]. cbn [bind].
      destruct (IH (fun c' Hc' => Hin c' (or_intror Hc'))) as (parts & Hparts).
      destruct (directed (sp g)).
      - destruct (sum_over_keys s2 id c) as (o2 & ->); [rewrite Hid; apply Hin; left; reflexivity|]. cbn [bind].
        rewrite Hparts. cbn [bind]. eexists. reflexivity.
      - cbn [bind]. cbn [bind] in Hparts. rewrite Hparts. cbn [bind]. eexists. reflexivity.
    Qed.

    Theorem modularity_total comms weighted gamma :
      is_partition_model teqb (names g) comms = true ->
      forall k, modularity teqb tltb g comms weighted gamma <> Err k.
    Proof.
      intros Hip k.
      assert (Hinc : forall c, In c comms -> incl c (names g)).
      { intros c Hc x Hx. apply (is_partition_model_char teqb teqb_spec) in Hip. destruct Hip as (_ & Hi & _).
        apply Hi. apply in_concat. exists c. split; assumption. }
      unfold modularity. rewrite (is_partition_WF g comms W), Hip. cbn [bind negb].
      destruct (directed (sp g)) eqn:Hd.
      - destruct (out_keys weighted "partitions.rs:97" "partitions.rs:101" Hd) as (od & Hod & Kod).
        destruct (in_keys weighted "partitions.rs:98" "partitions.rs:102" Hd) as (id & Hid & Kid).
        rewrite Hod. cbn [bind]. rewrite Hid. cbn [bind].
        destruct (parts_total weighted "partitions.rs:125" "partitions.rs:127" od id Kod Kid comms Hinc)
          as (parts & Hparts).
        rewrite Hd in Hparts. rewrite Hparts. cbn [bind].
        repeat match goal with |- context [match ?x with _ => _ end] => destruct x end; discriminate.
      - destruct (deg_keys weighted) as (dg & Hdg & Kdg). rewrite Hdg. cbn [bind].
        destruct (parts_total weighted "partitions.rs:125" "partitions.rs:127" dg dg Kdg Kdg comms Hinc)
          as (parts & Hparts).
        rewrite Hd in Hparts. cbn [bind] in Hparts. rewrite Hparts. cbn [bind].
        repeat match goal with |- context [match ?x with _ => _ end] => destruct x end; discriminate.
    Qed.

    (* ---------------- an unweighted (NaN) edge under weighted = true: the result is NaN ---------------- *)
    Lemma wsum_none : forall l : list weight, In None l -> wsum l = None.
    Proof.
      induction l as [|w l IH]; intros H; [destruct H|]. cbn [wsum]. destruct H as [->|H]; [reflexivity|].
      rewrite (IH H). destruct w; reflexivity.
    Qed.

    Lemma oq_sum_none : forall l : list oq, In None l -> oq_sum l = None.
    Proof.
      induction l as [|w l IH]; intros H; [destruct H|]. cbn [oq_sum]. destruct H as [->|H]; [reflexivity|].
      rewrite (IH H). destruct w; reflexivity.
    Qed.

    Lemma nan_entry (r : list (T * weight)) x :
      map fst r = names g -> In x (names g) -> (forall y v, In (y, v) r -> y = x -> v = None) ->
      In None (map snd (w_values (T:=T) r)).
    Proof.
      intros Hk Hx Hp. rewrite <- Hk in Hx. apply in_map_iff in Hx. destruct Hx as ((y & v) & Ey & Hin).
      cbn [fst] in Ey. subst y. rewrite (Hp x v Hin eq_refl) in Hin.
      unfold w_values. rewrite map_map. apply in_map_iff. exists (x, None). split; [reflexivity|exact Hin].
    Qed.

    Theorem modularity_nan comms gamma :
      is_partition_model teqb (names g) comms = true ->
      (exists e, In e (all_edges g) /\ ew e = None) ->
      modularity teqb tltb g comms true gamma = Ok None.
    Proof.
      intros Hip (e & He & Hwe).
      destruct (endpoints_in_names teqb tltb teqb_spec g e W He) as (Hu & _).
      assert (Hinc : forall c, In c comms -> incl c (names g)).
      { intros c Hc x Hx. apply (is_partition_model_char teqb teqb_spec) in Hip. destruct Hip as (_ & Hi & _).
        apply Hi. apply in_concat. exists c. split; assumption. }
      assert (Hne : comms <> []).
      { intros ->. apply (is_partition_model_char teqb teqb_spec) in Hip. destruct Hip as (_ & _ & Hl).
        cbn in Hl. destruct (names g); [destruct Hu|discriminate]. }
      unfold modularity. rewrite (is_partition_WF g comms W), Hip. cbn [bind negb].
      destruct (directed (sp g)) eqn:Hd.
      - unfold get_weighted_out_degree_for_all_nodes. rewrite Hd. cbn [negb].
        destruct (for_all_nodes_rel g (get_node_weighted_out_degree teqb)
                    (fun x v => x = eu e -> v = None)) as (r & Hr & Hk & Hp).
        { intros x Hx. unfold get_node_weighted_out_degree.
          destruct (get_out_edges_for_node_spec teqb tltb teqb_spec g x W Hd Hx) as (l & Hl & Hperm).
          rewrite Hl. cbn [opt_wsum]. eexists. split; [reflexivity|]. intros ->. apply wsum_none.
          apply in_map_iff. exists e. split; [exact Hwe|]. apply (Permutation_in _ (Permutation_sym Hperm)).
          unfold QueryOk.out_edges_of. apply filter_In. split; [exact He|apply teqb_spec; reflexivity]. }
        rewrite Hr. cbn [unwrap_res bind].
        destruct (in_keys true "partitions.rs:98" "partitions.rs:102" Hd) as (id & Hid & Kid).
        rewrite Hid. cbn [bind].
        destruct (parts_total true "partitions.rs:125" "partitions.rs:127" (w_values r) id
                    ltac:(rewrite w_values_keys; exact Hk) Kid comms Hinc) as (parts & Hparts).
        rewrite Hd in Hparts. rewrite Hparts. cbn [bind].
        rewrite (oq_sum_none _ (nan_entry r (eu e) Hk Hu (fun y v Hin Hy => Hp y v Hin Hy))).
        destruct comms; [congruence|reflexivity].
      - unfold get_weighted_degree_for_all_nodes.
        destruct (for_all_nodes_rel g (get_node_weighted_degree teqb tltb)
                    (fun x v => x = eu e -> v = None)) as (r & Hr & Hk & Hp).
        { intros x Hx. unfold get_node_weighted_degree.
          destruct (get_edges_for_node_spec teqb tltb teqb_spec tltb_total g x W Hx) as (l & Hl & Hperm).
          rewrite Hl. eexists. split; [reflexivity|]. intros ->.
          assert (Hn : wsum (map ew l) = None).
          { apply wsum_none. apply in_map_iff. exists e. split; [exact Hwe|].
            apply (Permutation_in _ (Permutation_sym Hperm)). unfold QueryOk.touching. apply filter_In.
            split; [exact He|]. rewrite (proj2 (teqb_spec (eu e) (eu e)) eq_refl). reflexivity. }
          rewrite Hn. reflexivity. }
        rewrite Hr. cbn [bind].
        destruct (parts_total true "partitions.rs:125" "partitions.rs:127" (w_values r) (w_values r)
                    ltac:(rewrite w_values_keys; exact Hk) ltac:(rewrite w_values_keys; exact Hk) comms Hinc)
          as (parts & Hparts).
        rewrite Hd in Hparts. cbn [bind] in Hparts. rewrite Hparts. cbn [bind].
        rewrite (oq_sum_none _ (nan_entry r (eu e) Hk Hu (fun y v Hin Hy => Hp y v Hin Hy))).
        cbn [oq2]. destruct comms; [congruence|reflexivity].
    Qed.
  End Total.

  (* ---------------- end to end, on every coherent state ---------------- *)
  Theorem modularity_WF_abs (g : gstate) comms weighted gamma es :
    WF g -> wedges_of weighted (get_all_edges g) = Some es ->
    is_partition_model teqb (names g) comms = true -> ~ total_w es == 0 ->
    exists q, modularity teqb tltb g comms weighted gamma = Ok (Some q) /\
              q == modularity_abs teqb (directed (sp g)) (names g) es gamma comms.
  Proof.
    intros W Hes Hip Hnz. apply wedges_of_Some in Hes. destruct Hes as (-> & Hreal).
    apply (modularity_state_abs g weighted W Hreal comms gamma Hip Hnz).
  Qed.

  Theorem modularity_WF_newman (g : gstate) comms weighted gamma es :
    WF g -> Forall (@NoDup T) comms -> wedges_of weighted (get_all_edges g) = Some es ->
    is_partition_spec (names g) comms -> ~ total_w es == 0 ->
    exists q, modularity teqb tltb g comms weighted gamma = Ok (Some q) /\
              q == newman teqb (directed (sp g)) es gamma comms.
  Proof.
    intros W Hc Hes Hip Hnz.
    apply (is_partition_model_correct teqb teqb_spec _ _ (wf_nodup _ _ _ W) Hc) in Hip.
    destruct (modularity_WF_abs g comms weighted gamma es W Hes Hip Hnz) as (q & Hq & Eq).
    exists q. split; [exact Hq|]. rewrite Eq.
    apply (modularity_abs_newman teqb teqb_spec); [apply (wf_nodup _ _ _ W)| |exact Hc].
    apply wedges_of_Some in Hes. destruct Hes as (-> & _). apply (es_endpoints g weighted W).
  Qed.

  Theorem modularity_WF_rejects (g : gstate) comms weighted gamma :
    WF g -> Forall (@NoDup T) comms -> ~ is_partition_spec (names g) comms ->
    modularity teqb tltb g comms weighted gamma = Err NotAPartition.
  Proof.
    intros W Hc Hn. apply modularity_rejects. rewrite (is_partition_WF g comms W). f_equal.
    apply (not_partition_rejected teqb teqb_spec _ _ (wf_nodup _ _ _ W) Hc Hn).
  Qed.

  (* the degenerate values: total weight 0 (non-negative weights) is 0/0 = NaN; an edge without a
     weight under weighted = true makes every term NaN *)
  Theorem modularity_WF_zero (g : gstate) comms weighted gamma es :
    WF g -> wedges_of weighted (get_all_edges g) = Some es ->
    is_partition_model teqb (names g) comms = true ->
    (forall e, In e es -> 0 <= ww e) -> total_w es == 0 ->
    modularity teqb tltb g comms weighted gamma = Ok (match comms with [] => Some 0 | _ => None end).
  Proof.
    intros W Hes Hip Hpos Hz. apply wedges_of_Some in Hes. destruct Hes as (-> & Hreal).
    apply (modularity_state_zero g weighted W Hreal comms gamma Hip Hpos Hz).
  Qed.

  Theorem modularity_WF_nan (g : gstate) comms gamma :
    WF g -> is_partition_model teqb (names g) comms = true ->
    (exists e, In e (get_all_edges g) /\ ew e = None) ->
    modularity teqb tltb g comms true gamma = Ok None.
  Proof. intros W Hip He. apply (modularity_nan g W comms gamma Hip He). Qed.

  (* NotAPartition exactly when the family is not a partition (and no other error kind at all) *)
  Theorem modularity_WF_err_iff (g : gstate) comms weighted gamma k :
    WF g -> Forall (@NoDup T) comms ->
    (modularity teqb tltb g comms weighted gamma = Err k <->
     k = NotAPartition /\ ~ is_partition_spec (names g) comms).
  Proof.
    intros W Hc. split.
    - intros He. destruct (is_partition_model teqb (names g) comms) eqn:Hip.
      + exfalso. apply (modularity_total g W comms weighted gamma Hip k He).
      + assert (Hn : ~ is_partition_spec (names g) comms).
        { intros Hs. apply (is_partition_model_correct teqb teqb_spec _ _ (wf_nodup _ _ _ W) Hc) in Hs. congruence. }
        rewrite (modularity_WF_rejects g comms weighted gamma W Hc Hn) in He. inversion He. split; [reflexivity|exact Hn].
    - intros (-> & Hn). apply (modularity_WF_rejects g comms weighted gamma W Hc Hn).
  Qed.

  Theorem is_partition_WF_spec (g : gstate) comms :
    WF g -> Forall (@NoDup T) comms ->
    (is_partition teqb g comms = Ok true <-> is_partition_spec (names g) comms).
  Proof.
    intros W Hc.
    apply (is_partition_state_correct teqb teqb_spec g comms (WF_nodes_coherent g W) (wf_nodup _ _ _ W) Hc).
  Qed.
End ModularityState.

(* ---- the hypotheses of the end-to-end theorems are satisfiable: the path 1 - 2 - 3 built through
   the public constructor is a reachable state, {1,2},{3} is a partition of its node names, the total
   weight is 2, and the twelve-field model returns Newman's value -1/8 (cf. modularity_abs_path);
   a directed weighted instance; a family that is not a partition is rejected ---- *)
Example modularity_state_nonvacuous :
  match new_from_nodes_and_edges Z.eqb Z.ltb
          [mknode 3%Z (None : option Z); mknode 1%Z None; mknode 2%Z None]
          [mkedge 1%Z 2%Z None None; mkedge 2%Z 3%Z None None]
          (mkspecs false DErr MCreate false true SErr) with
  | Ok g =>
    reachable Z.eqb Z.ltb (mkspecs false DErr MCreate false true SErr) g /\
    (exists es, wedges_of false (get_all_edges g) = Some es /\ ~ total_w es == 0 /\
                newman Z.eqb false es 1 [[1; 2]; [3]]%Z == - (1 # 8)) /\
    is_partition_model Z.eqb (get_all_node_names g) [[1; 2]; [3]]%Z = true /\
    modularity Z.eqb Z.ltb g [[1; 2]; [3]]%Z false 1 = Ok (Some (- (1 # 8))) /\
    modularity Z.eqb Z.ltb g [[1; 2]; [2]]%Z false 1 = Err NotAPartition
  | _ => False
  end.
Proof.
  destruct (new_from_nodes_and_edges Z.eqb Z.ltb
              [mknode 3%Z (None : option Z); mknode 1%Z None; mknode 2%Z None]
              [mkedge 1%Z 2%Z None None; mkedge 2%Z 3%Z None None]
              (mkspecs false DErr MCreate false true SErr)) as [g| | |] eqn:Hg;
    try (vm_compute in Hg; discriminate).
  split; [exact (new_from_reachable Z.eqb Z.ltb (fun x y => Z.eqb_eq x y) _ _ _ g Hg)|].
  vm_compute in Hg. inversion Hg. subst g. clear Hg.
  split; [eexists; split; [vm_compute; reflexivity|split; [vm_compute; discriminate|vm_compute; reflexivity]]|].
  vm_compute. repeat split.
Qed.

Example modularity_state_directed_weighted :
  match new_from_nodes_and_edges Z.eqb Z.ltb
          [mknode 1%Z (None : option Z); mknode 2%Z None; mknode 3%Z None]
          [mkedge 1%Z 2%Z (Some 2%Z) None; mkedge 2%Z 1%Z (Some 1%Z) None; mkedge 2%Z 3%Z (Some 1%Z) None]
          (mkspecs true DErr MCreate false true SErr) with
  | Ok g =>
    exists es q, wedges_of true (get_all_edges g) = Some es /\ ~ total_w es == 0 /\
                 modularity Z.eqb Z.ltb g [[1; 2]; [3]]%Z true 1 = Ok (Some q) /\
                 q == newman Z.eqb true es 1 [[1; 2]; [3]]%Z
  | _ => False
  end.
Proof. vm_compute. eexists. eexists. split; [reflexivity|]. split; [discriminate|]. split; reflexivity. Qed.
