(* C13, deepening: the move-gain identity on actual edge multisets, and the
   repaired scan rule "a node moves only to a community whose gain is strictly
   larger than that of staying". *)
From Coq Require Import String List Bool ZArith NArith Arith QArith Lia Lqa Permutation Setoid Morphisms.
From GV Require Import Base.Outcome Base.AMap Model.GState Model.Louvain Spec.PartitionDef
     Proofs.PartitionOk Proofs.LouvainOk.
Import ListNotations.

Section MoveGain.
  Context {T : Type}.
  Variable teqb : T -> T -> bool.
  Hypothesis teqb_spec : forall x y, teqb x y = true <-> x = y.
  Notation memb := (PartitionDef.memb teqb).
  Notation wedge := (@wedge T).

  (* weight of the edges between u and the set X, in either direction *)
  Definition between (es : list wedge) (u : T) (X : list T) : Q :=
    wsel (fun e => (teqb (wu e) u && memb (wv e) X) || (memb (wu e) X && teqb (wv e) u)) es.
  (* weight of u's self-loops *)
  Definition loops_at (es : list wedge) (u : T) : Q :=
    wsel (fun e => teqb (wu e) u && teqb (wv e) u) es.

  Lemma memb_cons : forall x u X, memb x (u :: X) = teqb x u || memb x X.
  Proof. reflexivity. Qed.

  Lemma excl : forall x u X, ~ In u X -> teqb x u = true -> memb x X = false.
  Proof.
    intros x u X Hu Hx. apply teqb_spec in Hx. subst x.
    apply (memb_false teqb teqb_spec). exact Hu.
  Qed.

  Ltac bool4 e Hu :=
    let Hab := fresh "Hab" in let Hcd := fresh "Hcd" in
    pose proof (excl (wu e) _ _ Hu) as Hab; pose proof (excl (wv e) _ _ Hu) as Hcd;
    revert Hab Hcd; rewrite ?memb_cons;
    match goal with
    | |- context [teqb (wu e) ?u] =>
      match goal with
      | |- context [memb (wu e) ?X] =>
        destruct (teqb (wu e) u), (memb (wu e) X), (teqb (wv e) u), (memb (wv e) X)
      end
    end; cbn; intuition congruence.

  Lemma L_of_cons : forall (es : list wedge) u X, ~ In u X ->
    L_of teqb es (u :: X) == L_of teqb es X + between es u X + loops_at es u.
  Proof.
    intros es u X Hu. unfold L_of, between, loops_at.
    rewrite <- wsel_or_disjoint.
    - rewrite <- wsel_or_disjoint.
      + apply wsel_ext. intros e _. bool4 e Hu.
      + intros e _. bool4 e Hu.
    - intros e _. bool4 e Hu.
  Qed.

  Lemma Kout_of_cons : forall (es : list wedge) u X, ~ In u X ->
    Kout_of teqb es (u :: X) == Kout_of teqb es [u] + Kout_of teqb es X.
  Proof.
    intros es u X Hu. unfold Kout_of.
    rewrite <- wsel_or_disjoint.
    - apply wsel_ext. intros e _. rewrite !memb_cons. cbn. rewrite orb_false_r. reflexivity.
    - intros e _ H. rewrite memb_cons in H. cbn in H. rewrite orb_false_r in H. exact (excl _ _ _ Hu H).
  Qed.

  Lemma Kin_of_cons : forall (es : list wedge) u X, ~ In u X ->
    Kin_of teqb es (u :: X) == Kin_of teqb es [u] + Kin_of teqb es X.
  Proof.
    intros es u X Hu. unfold Kin_of.
    rewrite <- wsel_or_disjoint.
    - apply wsel_ext. intros e _. rewrite !memb_cons. cbn. rewrite orb_false_r. reflexivity.
    - intros e _ H. rewrite memb_cons in H. cbn in H. rewrite orb_false_r in H. exact (excl _ _ _ Hu H).
  Qed.

  Lemma K_of_cons : forall (es : list wedge) u X, ~ In u X ->
    K_of teqb es (u :: X) == K_of teqb es X + K_of teqb es [u].
  Proof.
    intros es u X Hu. unfold K_of. rewrite (Kout_of_cons es u X Hu), (Kin_of_cons es u X Hu). ring.
  Qed.

  (* one term of the undirected Newman sum *)
  Definition term_u (es : list wedge) (gamma : Q) (c : list T) : Q :=
    L_of teqb es c / total_w es
    - gamma * ((K_of teqb es c / (2 * total_w es)) * (K_of teqb es c / (2 * total_w es))).

  (* the number louvain.rs compares for candidate community X of node u, with
     Stot_X = K_X (for u's own community: without u) and the weight between u and X *)
  Definition gain_u (es : list wedge) (gamma : Q) (u : T) (X : list T) : Q :=
    2 * between es u X - gamma * (K_of teqb es X * K_of teqb es [u]) / total_w es.

  Theorem move_gain_terms : forall (es : list wedge) gamma u C D,
    ~ In u C -> ~ In u D -> ~ total_w es == 0 ->
    (term_u es gamma (u :: C) + term_u es gamma D) - (term_u es gamma C + term_u es gamma (u :: D))
    == (gain_u es gamma u C - gain_u es gamma u D) / (2 * total_w es).
  Proof.
    intros es gamma u C D HC HD Hm. unfold term_u, gain_u.
    rewrite (L_of_cons es u C HC), (L_of_cons es u D HD), (K_of_cons es u C HC), (K_of_cons es u D HD).
    field. exact Hm.
  Qed.

  Lemma newman_undirected_cons : forall (es : list wedge) gamma c rest,
    newman teqb false es gamma (c :: rest) == term_u es gamma c + newman teqb false es gamma rest.
  Proof. intros. unfold newman, term_u. cbn [map qsum]. reflexivity. Qed.

  (* moving u from community u::D to community C changes Newman's modularity of
     the whole family by (gain C - gain D) / 2m *)
  Theorem move_gain_newman : forall (es : list wedge) gamma u C D rest,
    ~ In u C -> ~ In u D -> ~ total_w es == 0 ->
    newman teqb false es gamma (D :: (u :: C) :: rest) - newman teqb false es gamma ((u :: D) :: C :: rest)
    == (gain_u es gamma u C - gain_u es gamma u D) / (2 * total_w es).
  Proof.
    intros es gamma u C D rest HC HD Hm.
    rewrite !newman_undirected_cons.
    rewrite <- (move_gain_terms es gamma u C D HC HD Hm). ring.
  Qed.

  Corollary accepted_move_increases_Q : forall (es : list wedge) gamma u C D rest,
    ~ In u C -> ~ In u D -> 0 < total_w es ->
    gain_u es gamma u D < gain_u es gamma u C ->
    newman teqb false es gamma ((u :: D) :: C :: rest) < newman teqb false es gamma (D :: (u :: C) :: rest).
  Proof.
    intros es gamma u C D rest HC HD Hm Hg.
    assert (Hm0 : ~ total_w es == 0) by (intro E; rewrite E in Hm; discriminate).
    pose proof (move_gain_newman es gamma u C D rest HC HD Hm0) as E.
    assert (Hpos : 0 < (gain_u es gamma u C - gain_u es gamma u D) / (2 * total_w es)).
    { apply Qlt_shift_div_l; lra. }
    lra.
  Qed.

  (* ---- directed ---- *)
  Definition term_d (es : list wedge) (gamma : Q) (c : list T) : Q :=
    L_of teqb es c / total_w es
    - gamma * (Kout_of teqb es c * Kin_of teqb es c) / (total_w es * total_w es).

  (* the repaired directed gain: weight between u and X in both directions *)
  Definition gain_d (es : list wedge) (gamma : Q) (u : T) (X : list T) : Q :=
    between es u X
    - gamma * (Kout_of teqb es [u] * Kin_of teqb es X + Kin_of teqb es [u] * Kout_of teqb es X) / total_w es.

  Theorem move_gain_terms_directed : forall (es : list wedge) gamma u C D,
    ~ In u C -> ~ In u D -> ~ total_w es == 0 ->
    (term_d es gamma (u :: C) + term_d es gamma D) - (term_d es gamma C + term_d es gamma (u :: D))
    == (gain_d es gamma u C - gain_d es gamma u D) / total_w es.
  Proof.
    intros es gamma u C D HC HD Hm. unfold term_d, gain_d.
    rewrite (L_of_cons es u C HC), (L_of_cons es u D HD).
    rewrite (Kout_of_cons es u C HC), (Kout_of_cons es u D HD), (Kin_of_cons es u C HC), (Kin_of_cons es u D HD).
    field. exact Hm.
  Qed.

  Lemma newman_directed_cons : forall (es : list wedge) gamma c rest,
    newman teqb true es gamma (c :: rest) == term_d es gamma c + newman teqb true es gamma rest.
  Proof. intros. unfold newman, term_d. cbn [map qsum]. reflexivity. Qed.

  Theorem move_gain_newman_directed : forall (es : list wedge) gamma u C D rest,
    ~ In u C -> ~ In u D -> ~ total_w es == 0 ->
    newman teqb true es gamma (D :: (u :: C) :: rest) - newman teqb true es gamma ((u :: D) :: C :: rest)
    == (gain_d es gamma u C - gain_d es gamma u D) / total_w es.
  Proof.
    intros es gamma u C D rest HC HD Hm.
    rewrite !newman_directed_cons.
    rewrite <- (move_gain_terms_directed es gamma u C D HC HD Hm). ring.
  Qed.

  Corollary accepted_move_increases_Q_directed : forall (es : list wedge) gamma u C D rest,
    ~ In u C -> ~ In u D -> 0 < total_w es ->
    gain_d es gamma u D < gain_d es gamma u C ->
    newman teqb true es gamma ((u :: D) :: C :: rest) < newman teqb true es gamma (D :: (u :: C) :: rest).
  Proof.
    intros es gamma u C D rest HC HD Hm Hg.
    assert (Hm0 : ~ total_w es == 0) by (intro E; rewrite E in Hm; discriminate).
    pose proof (move_gain_newman_directed es gamma u C D rest HC HD Hm0) as E.
    assert (Hpos : 0 < (gain_d es gamma u C - gain_d es gamma u D) / total_w es).
    { apply Qlt_shift_div_l; lra. }
    lra.
  Qed.
End MoveGain.

(* ------------------------------------------------------------------ *)
(* the repaired scan rule                                              *)
(* ------------------------------------------------------------------ *)

Lemma ins_sorted_perm : forall {X} (ltb : X -> X -> bool) x l, Permutation (ins_sorted ltb x l) (x :: l).
Proof.
  intros X ltb x l. induction l as [|y t IH]; cbn; [reflexivity|].
  destruct (ltb y x); [|reflexivity].
  rewrite IH. apply perm_swap.
Qed.

Lemma sort_by_permutation : forall {X} (ltb : X -> X -> bool) l, Permutation (sort_by ltb l) l.
Proof.
  intros X ltb l. induction l as [|x t IH]; [reflexivity|].
  unfold sort_by in *. cbn [fold_right]. rewrite ins_sorted_perm. constructor. exact IH.
Qed.

Lemma sort_candidates_In : forall own l p, In p (sort_candidates own l) <-> In p l.
Proof.
  intros own l p. unfold sort_candidates. split; apply Permutation_in.
  - apply sort_by_permutation.
  - symmetry. apply sort_by_permutation.
Qed.

(* the node's own community, when it is a candidate, is scanned first *)
Lemma sort_candidates_own_first : forall own l wo,
  NoDup (map fst l) -> In (own, wo) l ->
  exists rest, sort_candidates own l = (own, wo) :: rest.
Proof.
  intros own l wo. unfold sort_candidates, sort_by. induction l as [|x t IH]; intros Hnd Hin; [contradiction|].
  cbn [fold_right]. cbn [map] in Hnd. inversion Hnd as [|? ? Hx Hnd']. subst.
  destruct Hin as [Hin|Hin].
  - subst x. cbn [fst] in Hx.
    destruct (fold_right (ins_sorted (cand_ltb own)) [] t) as [|y s'] eqn:Es.
    + exists []. reflexivity.
    + cbn [ins_sorted].
      assert (Hy : In y t).
      { apply (Permutation_in y (sort_by_permutation (cand_ltb own) t)). unfold sort_by. rewrite Es. left. reflexivity. }
      assert (Hk : fst y <> own).
      { intro E. apply Hx. rewrite <- E. apply in_map. exact Hy. }
      assert (Hlt : cand_ltb own y (own, wo) = false).
      { unfold cand_ltb. cbn [fst]. rewrite Nat.eqb_refl. apply Nat.eqb_neq in Hk. rewrite Hk. reflexivity. }
      rewrite Hlt. eexists. reflexivity.
  - destruct (IH Hnd' Hin) as [rest Hr]. rewrite Hr. cbn [ins_sorted].
    assert (Hk : fst x <> own).
    { intro E. apply Hx. rewrite E. change own with (fst (own, wo)). apply in_map. exact Hin. }
    assert (Hlt : cand_ltb own (own, wo) x = true).
    { unfold cand_ltb. cbn [fst]. rewrite Nat.eqb_refl. apply Nat.eqb_neq in Hk. rewrite Hk. reflexivity. }
    rewrite Hlt. eexists. reflexivity.
Qed.

Section ScanRule.
  Variable di : deginfo.
  Variables m res : Q.
  Variable dir : bool.

  (* invariant of the scan: the running best never decreases, dominates every gain
     seen, and a change of community comes with a strictly larger gain *)
  Lemma scan_candidates_inv : forall cands bc bm seen bc' bm' seen',
    scan_candidates di m res dir cands bc bm seen = Ok (bc', bm', seen') ->
    bm <= bm' /\
    (forall c w g, In (c, w) cands -> gain_of di m res dir c w = Ok (Some g) -> g <= bm') /\
    ((bc' = bc /\ bm' = bm) \/
     (exists w, In (bc', w) cands /\ gain_of di m res dir bc' w = Ok (Some bm') /\ bm < bm')).
  Proof.
    induction cands as [|[c w] t IH]; intros bc bm seen bc' bm' seen' H; cbn [scan_candidates] in H.
    - inversion H. subst. split; [apply Qle_refl|]. split; [intros; contradiction|]. left. split; reflexivity.
    - destruct (gain_of di m res dir c w) as [[gq|]| | |] eqn:Eg; cbn [bind] in H; try discriminate.
      + destruct (Qlt_le_dec bm gq) as [Hlt|Hle].
        * apply IH in H. destruct H as [H1 [H2 H3]].
          split; [apply Qle_trans with gq; [apply Qlt_le_weak; exact Hlt | exact H1]|].
          split.
          -- intros c0 w0 g [Hin|Hin] Hg; [|eapply H2; eassumption].
             inversion Hin. subst. rewrite Eg in Hg. inversion Hg. subst. exact H1.
          -- right. destruct H3 as [[Hb Hm]|[w' [Hin [Hg Hlt']]]].
             ++ subst. exists w. split; [left; reflexivity|]. split; [exact Eg | exact Hlt].
             ++ exists w'. split; [right; exact Hin|]. split; [exact Hg|].
                apply Qlt_trans with gq; assumption.
        * apply IH in H. destruct H as [H1 [H2 H3]].
          split; [exact H1|]. split.
          -- intros c0 w0 g [Hin|Hin] Hg; [|eapply H2; eassumption].
             inversion Hin. subst. rewrite Eg in Hg. inversion Hg. subst.
             apply Qle_trans with bm; assumption.
          -- destruct H3 as [[Hb Hm]|[w' [Hin [Hg Hlt']]]].
             ++ left. split; assumption.
             ++ right. exists w'. split; [right; exact Hin|]. split; assumption.
      + apply IH in H. destruct H as [H1 [H2 H3]].
        split; [exact H1|]. split.
        * intros c0 w0 g [Hin|Hin] Hg; [|eapply H2; eassumption].
          inversion Hin. subst. rewrite Eg in Hg. discriminate.
        * destruct H3 as [[Hb Hm]|[w' [Hin [Hg Hlt']]]].
          -- left. split; assumption.
          -- right. exists w'. split; [right; exact Hin|]. split; assumption.
  Qed.

  (* A node leaves its community only for a community whose gain is positive, at least
     as large as every other candidate's, and STRICTLY larger than the gain of staying. *)
  Theorem move_only_if_strictly_better : forall own w2c bc tie,
    NoDup (map fst w2c) ->
    update_best_com own w2c di m res dir = Ok (bc, tie) -> bc <> own ->
    exists wt g, In (bc, wt) w2c /\ gain_of di m res dir bc wt = Ok (Some g) /\ 0 < g /\
      (forall c w gc, In (c, w) w2c -> gain_of di m res dir c w = Ok (Some gc) -> gc <= g) /\
      (forall wo go, In (own, wo) w2c -> gain_of di m res dir own wo = Ok (Some go) -> go < g).
  Proof.
    intros own w2c bc tie Hnd H Hne. unfold update_best_com in H.
    destruct (scan_candidates di m res dir (sort_candidates own w2c) own 0 []) as [[[bc' bm'] seen']| | |] eqn:Es;
      cbn [bind] in H; try discriminate.
    inversion H. subst bc'. clear H.
    pose proof (scan_candidates_inv _ _ _ _ _ _ _ Es) as [I1 [I2 I3]].
    destruct I3 as [[Hb _]|[wt [Hin [Hg Hlt]]]]; [contradiction|].
    exists wt, bm'. split; [apply sort_candidates_In in Hin; exact Hin|].
    split; [exact Hg|]. split; [exact Hlt|]. split.
    - intros c w gc Hc Hgc. apply (I2 c w gc); [apply sort_candidates_In; exact Hc | exact Hgc].
    - intros wo go Hown Hgo.
      destruct (sort_candidates_own_first own w2c wo Hnd Hown) as [rest Hr].
      rewrite Hr in Es. cbn [scan_candidates] in Es. rewrite Hgo in Es. cbn [bind] in Es.
      destruct (Qlt_le_dec 0 go) as [Hpos|Hnpos].
      + apply scan_candidates_inv in Es. destruct Es as [_ [_ [[Hb _]|[w' [_ [_ Hlt']]]]]].
        * contradiction.
        * exact Hlt'.
      + apply Qle_lt_trans with 0; assumption.
  Qed.
End ScanRule.

(* ---- the hypotheses are satisfiable: small evaluated instances ---- *)
Example accepted_move_nonvacuous :
  let es : list (Z * Z * Q) := [((1, 2)%Z, 1); ((2, 3)%Z, 1); ((3, 4)%Z, 1)] in
  ~ In 2%Z [1%Z] /\ ~ In 2%Z [] /\ 0 < total_w es /\
  gain_u Z.eqb es 1 2%Z [] < gain_u Z.eqb es 1 2%Z [1%Z] /\
  newman Z.eqb false es 1 [[2]; [1]; [3; 4]]%Z < newman Z.eqb false es 1 [[]; [2; 1]; [3; 4]]%Z.
Proof.
  cbn zeta. split; [intros [H|[]]; discriminate|]. split; [intros []|].
  repeat split; vm_compute; reflexivity.
Qed.

Example move_only_if_strictly_better_nonvacuous :
  let di := mkdi [] [] [] [] [(0%nat, 1); (1%nat, 2); (2%nat, 1)] [0; 2; 1] 1 0 0 in
  NoDup (map fst [(2%nat, 1%Q); (1%nat, 1%Q)]) /\
  update_best_com 0 [(2%nat, 1); (1%nat, 1)] di 2 1 false = Ok (2%nat, false) /\ 2%nat <> 0%nat.
Proof.
  cbn zeta. split; [repeat constructor; cbn; intuition discriminate|].
  split; [vm_compute; reflexivity | discriminate].
Qed.

(* ------------------------------------------------------------------ *)
(* the model's decision, under the bookkeeping equalities              *)
(* ------------------------------------------------------------------ *)
(* If, when the state-level model visits u, its bookkeeping agrees with the edge multiset —
   m = total weight, degree = K_[u], Stot[bc] = K_C, Stot[own] = K_D (D: u's community without u),
   the candidate weights are the weights [between] u and the communities — then a move it decides
   (best_com <> own) strictly increases Newman's modularity.  The equalities are exactly the
   invariants L1-L3; the correspondence run evaluates them on every case (observation 77). *)
Section ModelMove.
  Context {T : Type}.
  Variable teqb : T -> T -> bool.
  Hypothesis teqb_spec : forall x y, teqb x y = true <-> x = y.

  Lemma ok_some_inj : forall {X} (a b : X), @Ok (option X) (Some a) = Ok (Some b) -> a = b.
  Proof. intros X a b H. inversion H. reflexivity. Qed.

  Lemma gain_of_undirected_inv : forall di m res c wt g,
    gain_of di m res false c wt = Ok (Some g) ->
    exists st, nth_error (stot di) c = Some st /\ ~ m == 0 /\ g == 2 * wt - res * (st * degree di) / m.
  Proof.
    intros di m res c wt g H. unfold gain_of, vec_get, unwrap_at in H.
    destruct (nth_error (stot di) c) as [st|] eqn:E; cbn [bind] in H; [|discriminate].
    destruct (Qeq_bool m 0) eqn:Em; [discriminate|].
    apply ok_some_inj in H. exists st. split; [reflexivity|]. split.
    - intro Hm. apply Qeq_bool_iff in Hm. congruence.
    - rewrite <- H. apply Qred_correct.
  Qed.

  Lemma gain_of_undirected_some : forall di m res c wt st,
    nth_error (stot di) c = Some st -> ~ m == 0 ->
    exists g, gain_of di m res false c wt = Ok (Some g) /\ g == 2 * wt - res * (st * degree di) / m.
  Proof.
    intros di m res c wt st E Hm. unfold gain_of, vec_get, unwrap_at. rewrite E. cbn [bind].
    destruct (Qeq_bool m 0) eqn:Em; [apply Qeq_bool_iff in Em; contradiction|].
    eexists. split; [reflexivity | apply Qred_correct].
  Qed.

  Theorem model_move_increases_Q :
    forall (es : list (T * T * Q)) gamma (u : T) C D rest di m own bc w2c tie sC sD,
      NoDup (map fst w2c) ->
      update_best_com own w2c di m gamma false = Ok (bc, tie) -> bc <> own ->
      ~ In u C -> ~ In u D -> 0 < total_w es ->
      m == total_w es -> degree di == K_of teqb es [u] ->
      nth_error (stot di) bc = Some sC -> sC == K_of teqb es C ->
      nth_error (stot di) own = Some sD -> sD == K_of teqb es D ->
      (forall w, In (bc, w) w2c -> w == between teqb es u C) ->
      (forall w, In (own, w) w2c -> w == between teqb es u D) ->
      (~ In own (map fst w2c) -> between teqb es u D == 0) ->
      0 <= gamma * (K_of teqb es D * K_of teqb es [u]) ->
      newman teqb false es gamma ((u :: D) :: C :: rest) < newman teqb false es gamma (D :: (u :: C) :: rest).
  Proof.
    intros es gamma u C D rest di m own bc w2c tie sC sD Hnd Hupd Hne HC HD Hpos Hm Hdeg HsC HKC HsD HKD HwC HwD HwD0 Hnn.
    apply (accepted_move_increases_Q teqb teqb_spec); try assumption.
    destruct (move_only_if_strictly_better di m gamma false own w2c bc tie Hnd Hupd Hne)
      as [wt [g [Hin [Hg [Hg0 [_ Hown]]]]]].
    apply gain_of_undirected_inv in Hg as Hg'. destruct Hg' as [st [Est [Hm0 Hgeq]]].
    rewrite HsC in Est. inversion Est. subst st. clear Est.
    assert (HgC : g == gain_u teqb es gamma u C).
    { unfold gain_u. rewrite Hgeq, (HwC wt Hin), HKC, Hdeg, Hm. reflexivity. }
    rewrite <- HgC.
    destruct (in_dec Nat.eq_dec own (map fst w2c)) as [Hmem|Hnmem].
    - apply in_map_iff in Hmem. destruct Hmem as [[o wo] [Ho Hino]]. cbn in Ho. subst o.
      destruct (gain_of_undirected_some di m gamma own wo sD HsD Hm0) as [go [Hgo Hgoeq]].
      specialize (Hown wo go Hino Hgo).
      assert (HgD : go == gain_u teqb es gamma u D).
      { unfold gain_u. rewrite Hgoeq, (HwD wo Hino), HKD, Hdeg, Hm. reflexivity. }
      rewrite <- HgD. exact Hown.
    - unfold gain_u. rewrite (HwD0 Hnmem).
      apply Qle_lt_trans with 0; [|exact Hg0].
      assert (Hdiv : 0 <= gamma * (K_of teqb es D * K_of teqb es [u]) / total_w es).
      { apply Qle_shift_div_l; [exact Hpos | lra]. }
      lra.
  Qed.
End ModelMove.

Example model_move_nonvacuous :
  let es : list (Z * Z * Q) := [((1, 2)%Z, 1); ((2, 3)%Z, 1); ((3, 4)%Z, 1)] in
  let di := mkdi [] [] [] [] [(0%nat, 1); (1%nat, 2); (2%nat, 2); (3%nat, 1)] [1; 0; 2; 1] 2 0 0 in
  let w2c := [(0%nat, 1%Q); (2%nat, 1%Q)] in
  NoDup (map fst w2c) /\
  update_best_com 1 w2c di 3 1 false = Ok (0%nat, false) /\
  3 == total_w es /\ degree di == K_of Z.eqb es [2%Z] /\
  nth_error (stot di) 0 = Some 1 /\ 1 == K_of Z.eqb es [1%Z] /\
  nth_error (stot di) 1 = Some 0 /\ 0 == K_of Z.eqb es [] /\
  1 == between Z.eqb es 2%Z [1%Z] /\ between Z.eqb es 2%Z [] == 0 /\
  ~ In 1%nat (map fst w2c).
Proof.
  cbn zeta. split; [repeat constructor; cbn; intuition discriminate|].
  split; [vm_compute; reflexivity|].
  repeat (split; [vm_compute; reflexivity|]).
  cbn. intuition discriminate.
Qed.
