(* C13, deepening (deep16): Newman's modularity is invariant under COLLAPSING PARALLEL EDGES into
   one edge that carries the sum of their weights.

   List level (first half, generic name type): [collapse] groups a weighted edge list by its
   (ordered) end-point pair and sums the weights; [collapse_graph dir] first orients every edge
   canonically (smaller name first) when the graph is undirected.  Every selection that looks at
   the end points only has the same weight before and after ([collapse_wsel]); L_c, Kout_c, Kin_c
   and m are such selections, so [newman_collapse] / [newman_collapse_graph] hold for EVERY family
   of communities (no partition, no NoDup hypothesis), every resolution, directed and undirected,
   self-loops included.  [collapse_keys_distinct] / [collapse_weight]: the result has one entry per
   end-point pair, carrying the total weight of the pair - so [collapse] is the collapse.

   Model level (second half): through the exact content theorem of to_single_edges
   ([to_single_edges_content], pinned as C15_to_single_edges_content) the weighted edge list of
   [to_single_edges g] has the same end-point selections as the input multigraph's own weighted edge
   list, hence the same modularity as it and as its list-level collapse
   ([to_single_edges_newman]).  With it the monotonicity of the Louvain levels is transported to
   EVERY input graph ([louvain_levels_monotone_all_inputs]).

   What the code does on an UNWEIGHTED multigraph: convert_graph first collapses (to_single_edges),
   then overwrites every weight with 1 (set_all_edge_weights) - a pair joined by k parallel edges
   counts ONCE.  The levels are therefore monotone for the modularity of the SUPPORT graph
   ([support_wedges]: one unit edge per adjacent pair), which is what the all-inputs theorem states
   in that case; for the modularity that counts every parallel edge (what `modularity(graph, ..,
   weighted = false)` computes on the same multigraph, C12) the statement is FALSE:
   [louvain_unweighted_multigraph_refuted] is an evaluated counterexample. *)
From Coq Require Import String List Bool ZArith Arith QArith Lia Lqa Permutation Setoid Morphisms.
From GV Require Import Base.Outcome Base.AMap Model.GState Model.Creation Model.Query Model.Derived
     Model.Partition Model.Louvain Spec.AGraph Spec.PartitionDef.
From GV Require Import Proofs.AMapOk Proofs.WFDefs Proofs.WFNode Proofs.Refine Proofs.HistoryOk Proofs.QueryOk
     Proofs.DegreeOk Proofs.CreationRebuild Proofs.DerivedContent Proofs.DerivedOk
     Proofs.PartitionOk Proofs.MoveGainOk Proofs.AggregationOk
     Proofs.LouvainSets Proofs.LouvainStructOk Proofs.LouvainNumOk
     Proofs.LouvainAggOk Proofs.LouvainConvertOk Proofs.LouvainModelOk Proofs.LouvainTransportOk.
Import ListNotations.
Open Scope Q_scope.

(* ====================================================================================== *)
(* List level                                                                               *)
(* ====================================================================================== *)
Section Collapse.
  Context {T : Type}.
  Variable teqb : T -> T -> bool.
  Hypothesis teqb_spec : forall x y, teqb x y = true <-> x = y.

  Notation wedgeT := (@wedge T).
  Notation membT := (PartitionDef.memb teqb).

  (* a selection that looks at the end points only *)
  Definition ends_onlyT (p : wedgeT -> bool) : Prop :=
    forall e e', wu e = wu e' -> wv e = wv e' -> p e = p e'.

  Definition same_endsT (a b : T) (e : wedgeT) : bool := teqb (wu e) a && teqb (wv e) b.

  (* add weight w to the entry of the pair (a, b); append the entry if there is none *)
  Fixpoint cadd (a b : T) (w : Q) (acc : list wedgeT) : list wedgeT :=
    match acc with
    | [] => [(a, b, w)]
    | e :: t => if same_endsT a b e then (a, b, ww e + w) :: t else e :: cadd a b w t
    end.

  (* group by ordered end-point pair, sum the weights *)
  Definition collapse (es : list wedgeT) : list wedgeT :=
    fold_left (fun acc e => cadd (wu e) (wv e) (ww e) acc) es [].

  Lemma same_endsT_true : forall a b e, same_endsT a b e = true <-> wu e = a /\ wv e = b.
  Proof.
    intros a b e. unfold same_endsT. rewrite andb_true_iff, !teqb_spec. reflexivity.
  Qed.

  Lemma wsel_nilT : forall p : wedgeT -> bool, wsel p [] == 0.
  Proof. intro p. reflexivity. Qed.

  Lemma wsel_appT : forall (p : wedgeT -> bool) a b, wsel p (a ++ b) == wsel p a + wsel p b.
  Proof.
    intros p a b. induction a as [|e t IH]; cbn [app].
    - rewrite wsel_nilT. ring.
    - rewrite !(@wsel_cons T). destruct (p e); rewrite IH; ring.
  Qed.

  Lemma cadd_wsel : forall p a b w acc, ends_onlyT p ->
    wsel p (cadd a b w acc) == (if p (a, b, w) then w else 0) + wsel p acc.
  Proof.
    intros p a b w acc Hp. induction acc as [|e t IH]; cbn [cadd].
    - rewrite (@wsel_cons T). cbn [ww snd]. destruct (p (a, b, w)); rewrite !wsel_nilT; ring.
    - destruct (same_endsT a b e) eqn:E.
      + apply same_endsT_true in E. destruct E as [E1 E2].
        rewrite !(@wsel_cons T).
        assert (H1 : p (a, b, ww e + w) = p (a, b, w)) by (apply Hp; reflexivity).
        assert (H2 : p e = p (a, b, w)) by (apply Hp; cbn; assumption).
        rewrite H1, H2. destruct (p (a, b, w)); cbn [ww snd]; ring.
      + rewrite !(@wsel_cons T). destruct (p e); rewrite IH; ring.
  Qed.

  Lemma fold_cadd_wsel : forall p es acc, ends_onlyT p ->
    wsel p (fold_left (fun acc e => cadd (wu e) (wv e) (ww e) acc) es acc) == wsel p es + wsel p acc.
  Proof.
    intros p es. induction es as [|e t IH]; intros acc Hp; cbn [fold_left].
    - rewrite wsel_nilT. ring.
    - rewrite (IH _ Hp). rewrite (cadd_wsel p _ _ _ acc Hp). rewrite (@wsel_cons T).
      assert (H : p (wu e, wv e, ww e) = p e) by (apply Hp; reflexivity).
      rewrite H. destruct (p e); ring.
  Qed.

  (* THE REGROUPING LEMMA: every end-point selection weighs the same before and after *)
  Theorem collapse_wsel : forall p es, ends_onlyT p -> wsel p (collapse es) == wsel p es.
  Proof.
    intros p es Hp. unfold collapse. rewrite (fold_cadd_wsel p es [] Hp). rewrite wsel_nilT. ring.
  Qed.

  (* the selections of Newman's formula look at end points only *)
  Lemma ends_onlyT_L : forall c, ends_onlyT (fun e => membT (wu e) c && membT (wv e) c).
  Proof. intros c e e' Hu Hv. rewrite Hu, Hv. reflexivity. Qed.
  Lemma ends_onlyT_out : forall c, ends_onlyT (fun e => membT (wu e) c).
  Proof. intros c e e' Hu Hv. rewrite Hu. reflexivity. Qed.
  Lemma ends_onlyT_in : forall c, ends_onlyT (fun e => membT (wv e) c).
  Proof. intros c e e' Hu Hv. rewrite Hv. reflexivity. Qed.
  Lemma ends_onlyT_true : ends_onlyT (fun _ => true).
  Proof. intros e e' _ _. reflexivity. Qed.
  Lemma ends_onlyT_same : forall a b, ends_onlyT (same_endsT a b).
  Proof. intros a b e e' Hu Hv. unfold same_endsT. rewrite Hu, Hv. reflexivity. Qed.

  Lemma total_w_wselT : forall es : list wedgeT, total_w es == wsel (fun _ => true) es.
  Proof. intro es. symmetry. apply wsel_all. reflexivity. Qed.

  (* two edge lists with the same end-point selections have the same modularity, for every family *)
  Theorem newman_of_wselT : forall dirb (A B : list wedgeT) res X,
    (forall p, ends_onlyT p -> wsel p A == wsel p B) ->
    newman teqb dirb A res X == newman teqb dirb B res X.
  Proof.
    intros dirb A B res X H. unfold newman.
    assert (Hm : total_w A == total_w B).
    { rewrite (total_w_wselT A), (total_w_wselT B). apply H. exact ends_onlyT_true. }
    apply qsum_ext. intros c _.
    assert (HL : L_of teqb A c == L_of teqb B c) by (apply H; apply ends_onlyT_L).
    assert (HO : Kout_of teqb A c == Kout_of teqb B c) by (apply H; apply ends_onlyT_out).
    assert (HI : Kin_of teqb A c == Kin_of teqb B c) by (apply H; apply ends_onlyT_in).
    destruct dirb; unfold K_of; rewrite HL, HO, HI, Hm; reflexivity.
  Qed.

  (* NEWMAN'S FORMULA IS INVARIANT UNDER THE COLLAPSE: every family of communities (partition or
     not, with or without repetitions), every resolution, both graph kinds, self-loops included *)
  Theorem newman_collapse : forall dirb (es : list wedgeT) res X,
    newman teqb dirb (collapse es) res X == newman teqb dirb es res X.
  Proof.
    intros dirb es res X. apply newman_of_wselT. intros p Hp. apply collapse_wsel. exact Hp.
  Qed.

  Theorem total_w_collapse : forall es : list wedgeT, total_w (collapse es) == total_w es.
  Proof.
    intro es. rewrite (total_w_wselT (collapse es)), (total_w_wselT es).
    apply collapse_wsel. exact ends_onlyT_true.
  Qed.

  (* [collapse] is the collapse: one entry per ordered end-point pair ... *)
  Definition keyT (e : wedgeT) : T * T := (wu e, wv e).

  Lemma cadd_keys : forall a b w acc k,
    In k (map keyT (cadd a b w acc)) <-> k = (a, b) \/ In k (map keyT acc).
  Proof.
    intros a b w acc k. induction acc as [|e t IH]; cbn [cadd].
    - cbn. intuition.
    - destruct (same_endsT a b e) eqn:E.
      + apply same_endsT_true in E. destruct E as [E1 E2]. cbn [map In]. unfold keyT at 1 3.
        cbn [wu wv fst snd]. rewrite E1, E2. intuition.
      + cbn [map In]. rewrite IH. intuition.
  Qed.

  Lemma cadd_NoDup : forall a b w acc, NoDup (map keyT acc) -> NoDup (map keyT (cadd a b w acc)).
  Proof.
    intros a b w acc. induction acc as [|e t IH]; intro Hnd; cbn [cadd].
    - cbn. constructor; [intros [] | constructor].
    - inversion Hnd as [|? ? Hni Hnd']. subst. destruct (same_endsT a b e) eqn:E.
      + apply same_endsT_true in E. destruct E as [E1 E2]. cbn [map]. unfold keyT at 1.
        cbn [wu wv fst snd]. constructor; [|exact Hnd']. unfold keyT in Hni. rewrite E1, E2 in Hni. exact Hni.
      + cbn [map]. constructor; [|apply IH; exact Hnd'].
        intro Hin. apply cadd_keys in Hin. destruct Hin as [Hk|Hin]; [|exact (Hni Hin)].
        unfold keyT in Hk. inversion Hk as [[H1 H2]].
        assert (Et : same_endsT a b e = true) by (apply same_endsT_true; split; assumption).
        congruence.
  Qed.

  Theorem collapse_keys_distinct : forall es, NoDup (map keyT (collapse es)).
  Proof.
    intro es. unfold collapse.
    assert (H : forall acc, NoDup (map keyT acc) ->
                NoDup (map keyT (fold_left (fun acc e => cadd (wu e) (wv e) (ww e) acc) es acc))).
    { induction es as [|e t IH]; intros acc Hacc; cbn [fold_left]; [exact Hacc|].
      apply IH. apply cadd_NoDup. exact Hacc. }
    apply H. constructor.
  Qed.

  Theorem collapse_keys : forall es k, In k (map keyT (collapse es)) <-> In k (map keyT es).
  Proof.
    intros es k. unfold collapse.
    assert (H : forall acc, In k (map keyT (fold_left (fun acc e => cadd (wu e) (wv e) (ww e) acc) es acc))
                            <-> In k (map keyT es) \/ In k (map keyT acc)).
    { induction es as [|e t IH]; intro acc; cbn [fold_left map In].
      - intuition.
      - rewrite IH, cadd_keys. unfold keyT at 3. intuition. }
    rewrite H. cbn [map In]. intuition.
  Qed.

  (* ... that carries the total weight of the pair in the input list *)
  Theorem collapse_weight : forall es e, In e (collapse es) ->
    ww e == wsel (same_endsT (wu e) (wv e)) es.
  Proof.
    intros es e He. rewrite <- (collapse_wsel _ es (ends_onlyT_same (wu e) (wv e))).
    pose proof (collapse_keys_distinct es) as Hnd. revert He Hnd.
    generalize (collapse es). intro l. induction l as [|x t IH]; intros He Hnd; [destruct He|].
    cbn [map] in Hnd. inversion Hnd as [|? ? Hni Hnd']. subst. rewrite (@wsel_cons T). destruct He as [<-|He].
    - assert (E : same_endsT (wu x) (wv x) x = true) by (apply same_endsT_true; split; reflexivity).
      rewrite E.
      assert (Z : wsel (same_endsT (wu x) (wv x)) t == 0).
      { rewrite <- (wsel_none t). apply wsel_ext. intros y Hy.
        destruct (same_endsT (wu x) (wv x) y) eqn:Ey; [|reflexivity]. exfalso.
        apply same_endsT_true in Ey. destruct Ey as [E1 E2]. apply Hni. apply in_map_iff.
        exists y. split; [unfold keyT; rewrite E1, E2; reflexivity | exact Hy]. }
      rewrite Z. ring.
    - assert (E : same_endsT (wu e) (wv e) x = false).
      { destruct (same_endsT (wu e) (wv e) x) eqn:Ex; [|reflexivity]. exfalso.
        apply same_endsT_true in Ex. destruct Ex as [E1 E2]. apply Hni. apply in_map_iff.
        exists e. split; [unfold keyT; rewrite E1, E2; reflexivity | exact He]. }
      rewrite E. apply IH; assumption.
  Qed.

  (* ---- canonical orientation (undirected graphs store the smaller name first) ---- *)
  Variable tltb : T -> T -> bool.

  Definition canonT (undirected : bool) (e : wedgeT) : wedgeT :=
    if undirected && tltb (wv e) (wu e) then (wv e, wu e, ww e) else e.

  Lemma canonT_cases : forall und e, canonT und e = e \/ canonT und e = (wv e, wu e, ww e).
  Proof. intros und e. unfold canonT. destruct (und && tltb (wv e) (wu e)); [right | left]; reflexivity. Qed.

  Lemma map_canonT_directed : forall es, map (canonT false) es = es.
  Proof. intro es. induction es as [|e t IH]; [reflexivity|]. cbn [map]. rewrite IH. reflexivity. Qed.

  Lemma L_of_canonT : forall und es c, L_of teqb (map (canonT und) es) c == L_of teqb es c.
  Proof.
    intros und es c. unfold L_of. induction es as [|e t IH]; [reflexivity|].
    cbn [map]. rewrite !(@wsel_cons T).
    destruct (canonT_cases und e) as [E|E]; rewrite E; cbn [wu wv ww fst snd].
    - destruct (membT (wu e) c && membT (wv e) c); rewrite IH; reflexivity.
    - rewrite (andb_comm (membT (wv e) c)). destruct (membT (wu e) c && membT (wv e) c); rewrite IH; reflexivity.
  Qed.

  Lemma K_of_canonT : forall und es c, K_of teqb (map (canonT und) es) c == K_of teqb es c.
  Proof.
    intros und es c. unfold K_of, Kout_of, Kin_of. induction es as [|e t IH]; [reflexivity|].
    cbn [map]. rewrite !(@wsel_cons T).
    destruct (canonT_cases und e) as [E|E]; rewrite E; cbn [wu wv ww fst snd];
      destruct (membT (wu e) c), (membT (wv e) c); lra.
  Qed.

  Lemma total_w_canonT : forall und es, total_w (map (canonT und) es) == total_w es.
  Proof.
    intros und es. unfold total_w. induction es as [|e t IH]; [reflexivity|].
    cbn [map qsum]. destruct (canonT_cases und e) as [E|E]; rewrite E; cbn [ww snd]; rewrite IH; reflexivity.
  Qed.

  (* orientation does not matter for the undirected formula *)
  Theorem newman_canonT : forall dirb (es : list wedgeT) res X,
    newman teqb dirb (map (canonT (negb dirb)) es) res X == newman teqb dirb es res X.
  Proof.
    intros dirb es res X. destruct dirb.
    - cbn [negb]. rewrite map_canonT_directed. reflexivity.
    - cbn [negb]. unfold newman. apply qsum_ext. intros c _.
      rewrite (L_of_canonT true es c), (K_of_canonT true es c), (total_w_canonT true es). reflexivity.
  Qed.

  (* the collapse of a GRAPH's edge list: parallel edges of an undirected graph are the edges on the
     same unordered pair *)
  Definition collapse_graph (dirb : bool) (es : list wedgeT) : list wedgeT :=
    collapse (map (canonT (negb dirb)) es).

  Theorem newman_collapse_graph : forall dirb (es : list wedgeT) res X,
    newman teqb dirb (collapse_graph dirb es) res X == newman teqb dirb es res X.
  Proof.
    intros dirb es res X. unfold collapse_graph. rewrite newman_collapse. apply newman_canonT.
  Qed.

  (* the support: one unit edge per adjacent pair *)
  Definition unit_edges (es : list wedgeT) : list wedgeT := map (fun e => (wu e, wv e, 1)) es.
  Definition support_graph (dirb : bool) (es : list wedgeT) : list wedgeT := unit_edges (collapse_graph dirb es).
End Collapse.

Example collapse_example :
  collapse Z.eqb [((1, 2)%Z, 3); ((2, 3)%Z, 1); ((1, 2)%Z, 4); ((2, 2)%Z, 5); ((2, 2)%Z, 1)]
  = [((1, 2)%Z, 3 + 4); ((2, 3)%Z, 1); ((2, 2)%Z, 5 + 1)] /\
  collapse_graph Z.eqb Z.ltb false [((2, 1)%Z, 3); ((1, 2)%Z, 4)] = [((1, 2)%Z, 3 + 4)] /\
  collapse_graph Z.eqb Z.ltb true [((2, 1)%Z, 3); ((1, 2)%Z, 4)] = [((2, 1)%Z, 3); ((1, 2)%Z, 4)].
Proof. repeat split. Qed.

(* ====================================================================================== *)
(* Model level: to_single_edges, convert_graph, louvain_partitions                          *)
(* ====================================================================================== *)
Section ModelCollapse.
  Context {T A : Type}.
  Variable teqb tltb : T -> T -> bool.
  Hypothesis teqb_spec : forall x y, teqb x y = true <-> x = y.
  Hypothesis tltb_asym : forall x y, tltb x y = true -> tltb y x = false.
  Hypothesis tltb_total : forall x y, tltb x y = false -> tltb y x = false -> x = y.

  Notation all_edges := (fun g : gstate T A => flat_map snd (edges g)).
  Notation wedgeT := (@wedge T).

  (* the integer sum of the weights of a group of parallel edges *)
  Definition zsumT (l : list (edge T A)) : Z := fold_right (fun e acc => (zwT e + acc)%Z) 0%Z l.

  Lemma wsum_real : forall l : list (edge T A),
    (forall e, In e l -> exists z, ew e = Some z) -> wsum (map ew l) = Some (zsumT l).
  Proof.
    induction l as [|e t IH]; intro H; cbn [map wsum zsumT fold_right]; [reflexivity|].
    destruct (H e (or_introl eq_refl)) as [z Ez].
    rewrite (IH (fun x Hx => H x (or_intror Hx))). unfold zwT at 1. rewrite Ez. reflexivity.
  Qed.

  Lemma wedges_of_true_total : forall l : list (edge T A),
    (forall e, In e l -> exists z, ew e = Some z) -> wedges_of true l = Some (map wqT l).
  Proof.
    induction l as [|e t IH]; intro H; cbn [wedges_of map]; [reflexivity|].
    destruct (H e (or_introl eq_refl)) as [z Ez].
    rewrite (IH (fun x Hx => H x (or_intror Hx))). unfold wedge_of. rewrite Ez.
    replace (wqT e) with (eu e, ev e, inject_Z z) by (unfold wqT, zwT; rewrite Ez; reflexivity). reflexivity.
  Qed.

  Lemma wedges_of_false_total : forall l : list (edge T A),
    wedges_of false l = Some (map (fun e => (eu e, ev e, 1)) l).
  Proof. induction l as [|e t IH]; cbn [wedges_of map]; [reflexivity|]. rewrite IH. reflexivity. Qed.

  (* one group of parallel edges: its members select like its key, and weigh their sum *)
  Lemma group_wsel : forall (p : wedgeT -> bool) k (l : list (edge T A)),
    ends_onlyT p -> (forall e, In e l -> (eu e, ev e) = k) ->
    wsel p (map wqT l) == if p (fst k, snd k, 0) then inject_Z (zsumT l) else 0.
  Proof.
    intros p k l Hp. induction l as [|e t IH]; intro Hk; cbn [map zsumT fold_right].
    - destruct (p (fst k, snd k, 0)); reflexivity.
    - rewrite (@wsel_cons T). pose proof (IH (fun x Hx => Hk x (or_intror Hx))) as IH'.
      pose proof (Hk e (or_introl eq_refl)) as Ek.
      assert (E : p (wqT e) = p (fst k, snd k, 0)).
      { apply Hp; unfold wqT; cbn [wu wv fst snd]; rewrite <- Ek; reflexivity. }
      rewrite E. fold (zsumT t). destruct (p (fst k, snd k, 0)).
      + rewrite IH'. unfold wqT. cbn [ww snd]. rewrite inject_Z_plus. reflexivity.
      + exact IH'.
  Qed.

  (* the stored groups, collapsed one by one, against the flat edge list *)
  Lemma grouped_wsel : forall (p : wedgeT -> bool) (m : list ((T * T) * list (edge T A))),
    ends_onlyT p ->
    (forall k l, In (k, l) m ->
       (forall e, In e l -> (eu e, ev e) = k) /\ (forall e, In e l -> exists z, ew e = Some z)) ->
    wsel p (map wqT (map collapse_edges m)) == wsel p (map wqT (flat_map snd m)).
  Proof.
    intros p m Hp. induction m as [|[k l] t IH]; intro H; cbn [map flat_map]; [reflexivity|].
    destruct (H k l (or_introl eq_refl)) as [Hk Hr].
    pose proof (IH (fun k' l' Hin => H k' l' (or_intror Hin))) as IH'.
    pose proof (group_wsel p k l Hp Hk) as Hg.
    assert (E : wqT (collapse_edges (k, l)) = (fst k, snd k, inject_Z (zsumT l))).
    { unfold wqT, collapse_edges, zwT. cbn [eu ev ew fst snd]. rewrite (wsum_real l Hr). reflexivity. }
    assert (Ep : p (fst k, snd k, inject_Z (zsumT l)) = p (fst k, snd k, 0)) by (apply Hp; reflexivity).
    rewrite map_app, wsel_appT, (@wsel_cons T). cbn [snd]. rewrite E, Ep, Hg.
    destruct (p (fst k, snd k, 0)); cbn [ww snd]; rewrite IH'; ring.
  Qed.

  (* the groups of a coherent state *)
  Lemma stored_groups : forall (g : gstate T A) k l, WF teqb tltb g -> In (k, l) (edges g) ->
    forall e, In e l -> (eu e, ev e) = k.
  Proof.
    intros g k l W Hin.
    pose proof (In_lookup (peqb teqb) (peqb_spec teqb teqb_spec) _ _ _ (wf_ekeys _ _ _ W) Hin) as Hl.
    destruct (wf_egroup _ _ _ W _ _ Hl) as (_ & Hall & _). exact Hall.
  Qed.

  (* TO_SINGLE_EDGES keeps every end-point selection of the weighted edge list *)
  Theorem to_single_edges_wsel : forall (g h : gstate T A) esT,
    WF teqb tltb g -> multi (sp g) = true ->
    to_single_edges teqb tltb g = Ok h ->
    wedges_of true (get_all_edges g) = Some esT ->
    exists esH, wedges_of true (get_all_edges h) = Some esH /\
      forall p, ends_onlyT p -> wsel p esH == wsel p esT.
  Proof.
    intros g h esT W Hm Hh HesT.
    destruct (to_single_edges_content teqb tltb teqb_spec tltb_total g W Hm) as (h' & Hh' & _ & _ & _ & Hp).
    rewrite Hh in Hh'. inversion Hh'. subst h'. clear Hh'.
    pose proof (wedges_of_true_real _ _ HesT) as Hreal.
    assert (Hgr : forall k l, In (k, l) (edges g) ->
              (forall e, In e l -> (eu e, ev e) = k) /\ (forall e, In e l -> exists z, ew e = Some z)).
    { intros k l Hin. split; [exact (stored_groups g k l W Hin)|].
      intros e He. apply Hreal. unfold get_all_edges. apply in_flat_map. exists (k, l). split; [exact Hin | exact He]. }
    assert (HrealH : forall e, In e (get_all_edges h) -> exists z, ew e = Some z).
    { intros e He. unfold get_all_edges in He. apply (Permutation_in _ Hp) in He.
      apply in_map_iff in He. destruct He as ((k & l) & <- & Hin). unfold collapse_edges. cbn [ew snd].
      rewrite (wsum_real l (proj2 (Hgr k l Hin))). eauto. }
    exists (map wqT (get_all_edges h)). split; [exact (wedges_of_true_total _ HrealH)|].
    intros p Hpp. rewrite (wedges_of_true_gen _ _ HesT). unfold get_all_edges.
    rewrite (wsel_perm p _ _ (Permutation_map wqT Hp)).
    exact (grouped_wsel p (edges g) Hpp Hgr).
  Qed.

  (* hence the same modularity as the input multigraph, and as the list-level collapse of its edge list *)
  Theorem to_single_edges_newman : forall (g h : gstate T A) esT,
    WF teqb tltb g -> multi (sp g) = true ->
    to_single_edges teqb tltb g = Ok h ->
    wedges_of true (get_all_edges g) = Some esT ->
    exists esH, wedges_of true (get_all_edges h) = Some esH /\
      forall dirb res X,
        newman teqb dirb esH res X == newman teqb dirb esT res X /\
        newman teqb dirb esH res X == newman teqb dirb (collapse teqb esT) res X /\
        newman teqb (directed (sp g)) esH res X
        == newman teqb (directed (sp g)) (collapse_graph teqb tltb (directed (sp g)) esT) res X.
  Proof.
    intros g h esT W Hm Hh HesT.
    destruct (to_single_edges_wsel g h esT W Hm Hh HesT) as (esH & HesH & Hsel).
    exists esH. split; [exact HesH|]. intros dirb res X.
    assert (E : forall d, newman teqb d esH res X == newman teqb d esT res X).
    { intro d. apply newman_of_wselT. exact Hsel. }
    split; [exact (E dirb)|]. split.
    - rewrite (newman_collapse teqb teqb_spec). exact (E dirb).
    - rewrite (newman_collapse_graph teqb teqb_spec). exact (E _).
  Qed.

  (* ---- the support of a multigraph: one unit edge per adjacent pair (what the code measures when
     weighted = false: to_single_edges, then every weight overwritten with 1) ---- *)
  Definition support_wedges (g : gstate T A) : list wedgeT :=
    map (fun kv : (T * T) * list (edge T A) => (fst (fst kv), snd (fst kv), 1)) (edges g).

  (* the edge list on which the returned levels are monotone *)
  Definition measured_wedges (g : gstate T A) (weighted : bool) (esT : list wedgeT) : list wedgeT :=
    if multi (sp g) && negb weighted then support_wedges g else esT.

  Lemma node_map_of_same : forall (g h : gstate T A), nodes_vec h = nodes_vec g ->
    node_map_of tltb h = node_map_of tltb g.
  Proof. intros g h Hv. unfold node_map_of, get_all_nodes. rewrite Hv. reflexivity. Qed.

  Lemma com_of_same : forall (g h : gstate T A), nodes_vec h = nodes_vec g ->
    com_of teqb tltb h = com_of teqb tltb g.
  Proof. intros g h Hv. unfold com_of. rewrite (node_map_of_same g h Hv). reflexivity. Qed.

  (* on a multigraph convert_graph is convert_graph of the collapsed graph *)
  Lemma convert_graph_multi : forall (g : gstate T A) weighted gu,
    WF teqb tltb g -> multi (sp g) = true ->
    convert_graph teqb tltb g weighted (node_map_of tltb g) = Ok gu ->
    exists h, to_single_edges teqb tltb g = Ok h /\ WF teqb tltb h /\ nodes_vec h = nodes_vec g /\
              multi (sp h) = false /\ directed (sp h) = directed (sp g) /\
              Permutation (all_edges h) (map collapse_edges (edges g)) /\
              convert_graph teqb tltb h weighted (node_map_of tltb h) = Ok gu.
  Proof.
    intros g weighted gu W Hm H.
    destruct (to_single_edges_content teqb tltb teqb_spec tltb_total g W Hm) as (h & Hh & Hv & Hmh & Hdh & Hp).
    destruct (to_single_edges_WF teqb tltb teqb_spec tltb_asym tltb_total g h Hh) as (Wh & _).
    exists h. split; [exact Hh|]. split; [exact Wh|]. split; [exact Hv|]. split; [exact Hmh|].
    split; [exact Hdh|]. split; [exact Hp|].
    rewrite (node_map_of_same g h Hv).
    unfold convert_graph in *. rewrite Hm, Hh in H. rewrite Hmh. exact H.
  Qed.

  (* THE TRANSPORT FOR EVERY INPUT: the working graph's modularity of a family of integer sets is the
     modularity of the renamed family on [measured_wedges] of the input *)
  Theorem convert_graph_newman_all : forall (g : gstate T A) weighted gu esT,
    WF teqb tltb g ->
    convert_graph teqb tltb g weighted (node_map_of tltb g) = Ok gu ->
    wedges_of weighted (get_all_edges g) = Some esT ->
    forall res (P' : list (list nat)),
      newman Nat.eqb (directed (sp gu)) (wedges gu) res P'
      == newman teqb (directed (sp g)) (measured_wedges g weighted esT) res
                (map (induced (com_of teqb tltb g) (map nname (nodes_vec g))) P').
  Proof.
    intros g weighted gu esT W Hgu HesT res P'. unfold measured_wedges.
    destruct (multi (sp g)) eqn:Hm; cbn [andb].
    - destruct (convert_graph_multi g weighted gu W Hm Hgu) as (h & Hh & Wh & Hv & Hmh & Hdh & Hp & Hguh).
      destruct weighted; cbn [negb].
      + destruct (to_single_edges_wsel g h esT W Hm Hh HesT) as (esH & HesH & Hsel).
        rewrite (convert_graph_newman teqb tltb teqb_spec tltb_asym tltb_total h true gu esH Wh Hmh Hguh HesH res P').
        rewrite Hdh, Hv, (com_of_same g h Hv).
        apply newman_of_wselT. exact Hsel.
      + pose proof (wedges_of_false_total (get_all_edges h)) as HesH.
        rewrite (convert_graph_newman teqb tltb teqb_spec tltb_asym tltb_total h false gu _ Wh Hmh Hguh HesH res P').
        rewrite Hdh, Hv, (com_of_same g h Hv).
        apply newman_of_wselT. intros p _. apply wsel_perm. unfold get_all_edges, support_wedges.
        eapply Permutation_trans; [apply Permutation_map; exact Hp|].
        rewrite map_map. apply Permutation_refl.
    - exact (convert_graph_newman teqb tltb teqb_spec tltb_asym tltb_total g weighted gu esT W Hm Hgu HesT res P').
  Qed.

  (* ---------------- monotonicity of the levels, every input ---------------- *)
  Theorem louvain_levels_monotone_all_inputs_wok :
    forall lf sf (g : gstate T A) weighted res thr perms ls esT,
      WF teqb tltb g -> weights_ok g weighted -> 0 <= res ->
      wedges_of weighted (get_all_edges g) = Some esT ->
      louvain_partitions teqb tltb lf sf g weighted res thr perms = Ok ls ->
      let QT := newman teqb (directed (sp g)) (measured_wedges g weighted esT) res in
      chain (fun a b => QT a <= QT b) ls /\
      exists first rest, ls = first :: rest /\
        QT (map (fun x => [x]) (map nname (nodes_vec g))) <= QT first.
  Proof.
    intros lf sf g weighted res thr perms ls esT W Hwok Hres HesT H QT.
    unfold louvain_partitions in H. apply bind_ok in H. destruct H as [[ls0 tie] [Ht H]].
    cbn [fst] in H. inversion H. subst ls0. clear H.
    destruct (louvain_levels_monotone teqb tltb teqb_spec tltb_asym tltb_total
                lf sf g weighted res thr perms ls tie W Hwok Hres Ht)
      as (gu & levels & first & rest & Hgu & Hcb & Hlv & _ & Hsing & Hch).
    set (QN := newman Nat.eqb (directed (sp gu)) (wedges gu) res) in *.
    pose proof (convert_back_F2 tltb g levels ls Hcb) as F.
    assert (FQ : Forall2 (fun a b => QN a == QT b) levels ls).
    { eapply F2_impl; [|exact F]. intros level lvT Fl. cbv beta. unfold QN, QT.
      rewrite (renamed_newman teqb tltb teqb_spec g level lvT W Fl).
      apply (convert_graph_newman_all g weighted gu esT W Hgu HesT). }
    split; [apply (chain_transport QN QT levels ls FQ Hch)|].
    subst levels. inversion FQ as [|? firstT ? restT Hf _]. subst.
    exists firstT, restT. split; [reflexivity|].
    rewrite <- Hf.
    assert (E : QT (map (fun x => [x]) (map nname (nodes_vec g)))
                == QN (map (fun k => [k]) (seq 0 (length (nodes_vec g))))).
    { unfold QN, QT. rewrite (convert_graph_newman_all g weighted gu esT W Hgu HesT).
      rewrite (newman_ext_gen teqb teqb_spec _ _ res _ _ (singletons_induced teqb tltb teqb_spec g W)).
      apply newman_perm_comms. apply Permutation_map. apply Permutation_sym. apply sort_by_permutation. }
    rewrite E. exact Hsing.
  Qed.

  (* without [weights_ok]: a returned value means the guard of F23 was false *)
  Theorem louvain_levels_monotone_all_inputs :
    forall lf sf (g : gstate T A) weighted res thr perms ls esT,
      WF teqb tltb g -> 0 <= res ->
      wedges_of weighted (get_all_edges g) = Some esT ->
      louvain_partitions teqb tltb lf sf g weighted res thr perms = Ok ls ->
      let QT := newman teqb (directed (sp g)) (measured_wedges g weighted esT) res in
      chain (fun a b => QT a <= QT b) ls /\
      exists first rest, ls = first :: rest /\
        QT (map (fun x => [x]) (map nname (nodes_vec g))) <= QT first.
  Proof.
    intros lf sf g weighted res thr perms ls esT W Hres HesT H.
    apply (louvain_levels_monotone_all_inputs_wok lf sf g weighted res thr perms ls esT W); try assumption.
    apply guard_false_weights_ok.
    - exact (louvain_partitions_ok_guard_false teqb tltb lf sf g weighted res thr perms ls H).
    - intros Hw. subst weighted. exact (wedges_of_true_real _ _ HesT).
  Qed.

  (* the weighted case spelled out: the modularity of the INPUT multigraph's own weighted edge list *)
  Corollary louvain_levels_monotone_weighted :
    forall lf sf (g : gstate T A) res thr perms ls esT,
      WF teqb tltb g -> 0 <= res ->
      wedges_of true (get_all_edges g) = Some esT ->
      louvain_partitions teqb tltb lf sf g true res thr perms = Ok ls ->
      let QT := newman teqb (directed (sp g)) esT res in
      chain (fun a b => QT a <= QT b) ls /\
      exists first rest, ls = first :: rest /\
        QT (map (fun x => [x]) (map nname (nodes_vec g))) <= QT first.
  Proof.
    intros lf sf g res thr perms ls esT W Hres HesT H.
    pose proof (louvain_levels_monotone_all_inputs lf sf g true res thr perms ls esT W Hres HesT H) as R.
    unfold measured_wedges in R. rewrite andb_false_r in R. exact R.
  Qed.

  (* ---- the support, from the edge list alone: on a coherent state [support_wedges g] is (a
     permutation of) the list-level support of the input's edge list ---- *)
  Lemma stored_canonT : forall (g : gstate T A) esT, WF teqb tltb g ->
    wedges_of false (get_all_edges g) = Some esT ->
    map (canonT tltb (negb (directed (sp g)))) esT = esT.
  Proof.
    intros g esT W HesT. rewrite (wedges_of_false_gen _ _ HesT). rewrite map_map.
    apply map_ext_in. intros e He. unfold canonT. cbn [wu wv fst snd].
    destruct (directed (sp g)) eqn:Hd; cbn [negb andb]; [reflexivity|].
    destruct (stored_edge_ok teqb tltb teqb_spec g e W He) as (_ & _ & _ & Ho).
    rewrite (Ho Hd). reflexivity.
  Qed.

  Theorem support_wedges_perm : forall (g : gstate T A) esT, WF teqb tltb g ->
    wedges_of false (get_all_edges g) = Some esT ->
    Permutation (support_wedges g) (support_graph teqb tltb (directed (sp g)) esT).
  Proof.
    intros g esT W HesT. unfold support_graph, collapse_graph. rewrite (stored_canonT g esT W HesT).
    set (f := fun k : T * T => (fst k, snd k, 1)).
    assert (E1 : support_wedges g = map f (keys (edges g))).
    { unfold support_wedges, keys. rewrite map_map. reflexivity. }
    assert (E2 : unit_edges (collapse teqb esT) = map f (map keyT (collapse teqb esT))).
    { unfold unit_edges. rewrite map_map. reflexivity. }
    rewrite E1, E2. apply Permutation_map. apply NoDup_Permutation.
    - apply (wf_ekeys _ _ _ W).
    - apply (collapse_keys_distinct teqb teqb_spec).
    - intro k. rewrite (collapse_keys teqb teqb_spec). rewrite (wedges_of_false_gen _ _ HesT).
      unfold get_all_edges. rewrite map_map. unfold keyT. cbn [wu wv fst snd]. split.
      + intro Hk. unfold keys in Hk. apply in_map_iff in Hk. destruct Hk as ([k' l] & Ek & Hin).
        cbn [fst] in Ek. subst k'.
        pose proof (In_lookup (peqb teqb) (peqb_spec teqb teqb_spec) _ _ _ (wf_ekeys _ _ _ W) Hin) as Hl.
        destruct (wf_egroup _ _ _ W _ _ Hl) as (Hne & Hall & _).
        destruct l as [|e l']; [congruence|].
        apply in_map_iff. exists e. split; [apply Hall; left; reflexivity|].
        apply in_flat_map. exists (k, e :: l'). split; [exact Hin | left; reflexivity].
      + intro Hk. apply in_map_iff in Hk. destruct Hk as (e & Ek & He).
        apply in_flat_map in He. destruct He as ([k' l] & Hin & He). cbn [snd] in He.
        rewrite (stored_groups g k' l W Hin e He) in Ek. subst k'.
        unfold keys. apply in_map_iff. exists (k, l). split; [reflexivity | exact Hin].
  Qed.

  (* the unweighted case spelled out, on the edge list alone: a single-edge graph is measured on its
     own unit edge list, a multigraph on the SUPPORT of its edge list (each adjacent pair once) *)
  Corollary louvain_levels_monotone_unweighted :
    forall lf sf (g : gstate T A) res thr perms ls esT,
      WF teqb tltb g -> 0 <= res ->
      wedges_of false (get_all_edges g) = Some esT ->
      louvain_partitions teqb tltb lf sf g false res thr perms = Ok ls ->
      let QT := newman teqb (directed (sp g))
                  (if multi (sp g) then support_graph teqb tltb (directed (sp g)) esT else esT) res in
      chain (fun a b => QT a <= QT b) ls /\
      exists first rest, ls = first :: rest /\
        QT (map (fun x => [x]) (map nname (nodes_vec g))) <= QT first.
  Proof.
    intros lf sf g res thr perms ls esT W Hres HesT H.
    pose proof (louvain_levels_monotone_all_inputs lf sf g false res thr perms ls esT W Hres HesT H) as R.
    unfold measured_wedges in R. rewrite andb_true_r in R. cbv zeta in *.
    destruct (multi (sp g)); [|exact R].
    assert (E : forall X, newman teqb (directed (sp g)) (support_wedges g) res X
                          == newman teqb (directed (sp g)) (support_graph teqb tltb (directed (sp g)) esT) res X).
    { intro X. apply newman_of_wselT. intros p _. apply wsel_perm. exact (support_wedges_perm g esT W HesT). }
    destruct R as [Rc (first & rest & Els & Rf)]. split.
    - clear - Rc E. induction ls as [|a t IH]; [exact I|]. cbn [chain] in *. destruct t as [|b t']; [exact I|].
      destruct Rc as [R1 R2]. split; [rewrite <- !E; exact R1 | exact (IH R2)].
    - exists first, rest. split; [exact Els|]. rewrite <- !E. exact Rf.
  Qed.
End ModelCollapse.

(* ====================================================================================== *)
(* Evaluated instances                                                                      *)
(* ====================================================================================== *)
Lemma Zltb_asym : forall x y : Z, Z.ltb x y = true -> Z.ltb y x = false.
Proof. intros x y H. apply Z.ltb_lt in H. apply Z.ltb_ge. lia. Qed.
Lemma Zltb_total : forall x y : Z, Z.ltb x y = false -> Z.ltb y x = false -> x = y.
Proof. intros x y H1 H2. apply Z.ltb_ge in H1. apply Z.ltb_ge in H2. lia. Qed.

(* ---- non-vacuity of the all-inputs theorem on a WEIGHTED MULTIGRAPH with a doubled edge: the pair
   1-2 is joined by two parallel edges (weights 2 and 3, collapsed to 5 by to_single_edges); Louvain
   returns one level, {1,2} {3,4} ---- *)
Notation nc_ex_graph :=
  (new_from_nodes_and_edges Z.eqb Z.ltb
    [mknode 1%Z (None : option Z); mknode 2%Z None; mknode 3%Z None; mknode 4%Z None]
    [mkedge 1%Z 2%Z (Some 2%Z) None; mkedge 2%Z 1%Z (Some 3%Z) None; mkedge 3%Z 4%Z (Some 4%Z) None;
     mkedge 2%Z 3%Z (Some 1%Z) None]
    (mkspecs false DErr MCreate true true SErr)) (only parsing).
Definition nc_ex_perms : list (list nat) := [[0]; [0; 1]; [0; 1; 2]; [0; 1; 2; 3]]%nat.

Example collapse_monotone_nonvacuous :
  exists (g : gstate Z Z) esT first,
    nc_ex_graph = Ok g /\ WF Z.eqb Z.ltb g /\ multi (sp g) = true /\ 0 <= 1 /\
    wedges_of true (get_all_edges g) = Some esT /\ length esT = 4%nat /\
    length (collapse_graph Z.eqb Z.ltb (directed (sp g)) esT) = 3%nat /\
    louvain_partitions Z.eqb Z.ltb 10 50 g true 1 (1 # 10000000) nc_ex_perms = Ok [first] /\
    (exists c, In c first /\ (2 <= length c)%nat) /\
    newman Z.eqb (directed (sp g)) esT 1 (map (fun x => [x]) (map nname (nodes_vec g)))
    < newman Z.eqb (directed (sp g)) esT 1 first.
Proof.
  assert (R : match nc_ex_graph with
              | Ok g =>
                multi (sp g) = true /\
                match wedges_of true (get_all_edges g),
                      louvain_partitions Z.eqb Z.ltb 10 50 g true 1 (1 # 10000000) nc_ex_perms with
                | Some esT, Ok [first] =>
                  length esT = 4%nat /\
                  length (collapse_graph Z.eqb Z.ltb (directed (sp g)) esT) = 3%nat /\
                  existsb (fun c => Nat.leb 2 (length c)) first = true /\
                  newman Z.eqb (directed (sp g)) esT 1 (map (fun x => [x]) (map nname (nodes_vec g)))
                  < newman Z.eqb (directed (sp g)) esT 1 first
                | _, _ => False
                end
              | _ => False
              end) by (vm_compute; repeat split; reflexivity).
  destruct nc_ex_graph as [g|k|s|] eqn:E; try contradiction.
  destruct R as [Rm R].
  destruct (wedges_of true (get_all_edges g)) as [esT|] eqn:EesT; try contradiction.
  destruct (louvain_partitions Z.eqb Z.ltb 10 50 g true 1 (1 # 10000000) nc_ex_perms)
    as [[|first [|second rest]]| | |] eqn:Els; try contradiction.
  destruct R as (R1 & R2 & R3 & R4).
  exists g, esT, first. split; [reflexivity|]. split.
  - apply (WF_reachable Z.eqb Z.ltb Z.eqb_eq Zltb_asym Zltb_total (mkspecs false DErr MCreate true true SErr)).
    eapply new_from_reachable; [exact Z.eqb_eq | exact E].
  - split; [exact Rm|]. split; [lra|]. split; [exact EesT|]. split; [exact R1|]. split; [exact R2|].
    split; [exact Els|]. split; [|exact R4].
    apply existsb_exists in R3. destruct R3 as (c & Hc & Hl). exists c. split; [exact Hc|].
    apply Nat.leb_le. exact Hl.
Qed.

(* ---- THE UNWEIGHTED MULTIGRAPH CASE IS FALSE for the modularity that counts every parallel edge.
   Input (undirected multigraph, no weights): nodes 1 2 3 4; edges 1-2, 3-4 once, 2-3 and 1-4 four
   times each.  convert_graph collapses the parallel edges and then sets every weight to 1, so
   Louvain sees the plain 4-cycle and (visiting order 0 1 2 3 - what rand 0.8 derives from seed 0)
   returns the single level {1,2} {3,4}, with no tie.  On the input multigraph (m = 10, every degree
   5) that level has modularity 2 (1/10 - 1/4) = -3/10, the all-singletons partition -1/4. ---- *)
Notation rf_ex_graph :=
  (new_from_nodes_and_edges Z.eqb Z.ltb
    [mknode 1%Z (None : option Z); mknode 2%Z None; mknode 3%Z None; mknode 4%Z None]
    ([mkedge 1%Z 2%Z None None; mkedge 3%Z 4%Z None None]
     ++ repeat (mkedge 2%Z 3%Z None None) 4 ++ repeat (mkedge 1%Z 4%Z None None) 4)
    (mkspecs false DErr MCreate true true SErr)) (only parsing).
Definition rf_ex_perms : list (list nat) := [[0]; [0; 1]; [0; 1; 2]; [0; 1; 2; 3]]%nat.
Definition rf_ex_level : list (list Z) := [[2; 1]; [4; 3]]%Z.

Example louvain_unweighted_multigraph_refuted :
  exists (g : gstate Z Z) esT,
    rf_ex_graph = Ok g /\ WF Z.eqb Z.ltb g /\ multi (sp g) = true /\ directed (sp g) = false /\
    wedges_of false (get_all_edges g) = Some esT /\ length esT = 10%nat /\
    louvain_partitions_t Z.eqb Z.ltb 10 50 g false 1 (1 # 10000000) rf_ex_perms = Ok ([rf_ex_level], false) /\
    louvain_partitions Z.eqb Z.ltb 10 50 g false 1 (1 # 10000000) rf_ex_perms = Ok [rf_ex_level] /\
    newman Z.eqb false esT 1 rf_ex_level == - (3 # 10) /\
    newman Z.eqb false esT 1 (map (fun x => [x]) (map nname (nodes_vec g))) == - (1 # 4) /\
    (* ... while on the support graph, which is what the code optimises, the level is an improvement *)
    newman Z.eqb false (support_graph Z.eqb Z.ltb false esT) 1 (map (fun x => [x]) (map nname (nodes_vec g)))
    < newman Z.eqb false (support_graph Z.eqb Z.ltb false esT) 1 rf_ex_level.
Proof.
  assert (R : match rf_ex_graph with
              | Ok g =>
                multi (sp g) = true /\ directed (sp g) = false /\
                match wedges_of false (get_all_edges g) with
                | Some esT =>
                  length esT = 10%nat /\
                  louvain_partitions_t Z.eqb Z.ltb 10 50 g false 1 (1 # 10000000) rf_ex_perms
                  = Ok ([rf_ex_level], false) /\
                  newman Z.eqb false esT 1 rf_ex_level == - (3 # 10) /\
                  newman Z.eqb false esT 1 (map (fun x => [x]) (map nname (nodes_vec g))) == - (1 # 4) /\
                  newman Z.eqb false (support_graph Z.eqb Z.ltb false esT) 1
                         (map (fun x => [x]) (map nname (nodes_vec g)))
                  < newman Z.eqb false (support_graph Z.eqb Z.ltb false esT) 1 rf_ex_level
                | None => False
                end
              | _ => False
              end) by (vm_compute; repeat split; reflexivity).
  destruct rf_ex_graph as [g|k|s|] eqn:E; try contradiction.
  destruct R as (Rm & Rd & R).
  destruct (wedges_of false (get_all_edges g)) as [esT|] eqn:EesT; try contradiction.
  destruct R as (R1 & R2 & R3 & R4 & R5).
  exists g, esT. split; [reflexivity|]. split.
  - apply (WF_reachable Z.eqb Z.ltb Z.eqb_eq Zltb_asym Zltb_total (mkspecs false DErr MCreate true true SErr)).
    eapply new_from_reachable; [exact Z.eqb_eq | exact E].
  - split; [exact Rm|]. split; [exact Rd|]. split; [exact EesT|]. split; [exact R1|]. split; [exact R2|].
    split; [unfold louvain_partitions; rewrite R2; reflexivity|]. split; [exact R3|]. split; [exact R4 | exact R5].
Qed.

(* hence the all-inputs statement CANNOT be stated with the multigraph's own unit edge list when
   weighted = false: its universal closure over gstate Z Z is refuted *)
Theorem louvain_multiplicity_monotone_refuted :
  ~ (forall lf sf (g : gstate Z Z) res thr perms ls esT,
       WF Z.eqb Z.ltb g -> 0 <= res ->
       wedges_of false (get_all_edges g) = Some esT ->
       louvain_partitions Z.eqb Z.ltb lf sf g false res thr perms = Ok ls ->
       let QT := newman Z.eqb (directed (sp g)) esT res in
       chain (fun a b => QT a <= QT b) ls /\
       exists first rest, ls = first :: rest /\
         QT (map (fun x => [x]) (map nname (nodes_vec g))) <= QT first).
Proof.
  intro H.
  destruct louvain_unweighted_multigraph_refuted as (g & esT & _ & W & _ & Hd & HesT & _ & _ & Hl & Q1 & Q2 & _).
  assert (Hres : 0 <= 1) by lra.
  destruct (H _ _ g 1 _ _ _ esT W Hres HesT Hl) as [_ (first & rest & Els & Hle)].
  inversion Els. subst first rest. rewrite Hd in Hle. rewrite Q1, Q2 in Hle. lra.
Qed.
