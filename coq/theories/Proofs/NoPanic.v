(* C20 (graph-structure part): under the coherence invariant no modelled mutation or
   query reaches a Panic site (an unwrap / index / lookup the Rust code performs), and an
   absent name is answered through the error channel. *)
From Coq Require Import String List Bool Arith Lia Permutation.
From GV Require Import Base.Outcome Base.AMap Model.GState Model.Creation Model.Query Spec.AGraph.
From GV Require Import Proofs.AMapOk Proofs.WFDefs Proofs.WFNode Proofs.WFEdge Proofs.Refine Proofs.HistoryOk
     Proofs.AdjOk Proofs.QueryOk Proofs.DegreeOk.
Import ListNotations.

Section NoPanic.
  Context {T A : Type}.
  Variable teqb : T -> T -> bool.
  Variable tltb : T -> T -> bool.
  Hypothesis teqb_spec : forall x y, teqb x y = true <-> x = y.
  Hypothesis tltb_asym : forall x y, tltb x y = true -> tltb y x = false.
  Hypothesis tltb_total : forall x y, tltb x y = false -> tltb y x = false -> x = y.
  Notation gstate := (gstate T A).
  Notation node := (node T A).
  Notation WF := (@WF T A teqb tltb).
  Notation names := (@names T A).

  Lemma find_absent (g : gstate) x :
    ~ In x (names g) -> find (fun n : node => teqb (nname n) x) (nodes_vec g) = None.
  Proof.
    intros Hx. destruct (find _ _) as [n|] eqn:E; [|reflexivity]. exfalso.
    apply find_some in E. destruct E as (Hin & Ht). apply teqb_spec in Ht. apply Hx.
    rewrite <- Ht. unfold WFDefs.names. apply in_map. exact Hin.
  Qed.

  Theorem get_edge_no_panic (g : gstate) u v : WF g -> is_panic (get_edge teqb g u v) = false.
  Proof.
    intros W. rewrite (get_edge_spec teqb tltb teqb_spec tltb_asym tltb_total g u v W).
    destruct (multi (sp g)); [reflexivity|]. destruct (_ || _); [reflexivity|].
    destruct (stored_between teqb tltb g u v); reflexivity.
  Qed.

  Theorem get_edges_no_panic (g : gstate) u v : WF g -> is_panic (get_edges teqb g u v) = false.
  Proof.
    intros W. rewrite (get_edges_spec teqb tltb teqb_spec tltb_asym tltb_total g u v W).
    destruct (negb (multi (sp g))); [reflexivity|]. destruct (_ || _); [reflexivity|].
    destruct (stored_between teqb tltb g u v); reflexivity.
  Qed.

  Theorem get_edges_for_node_absent (g : gstate) x :
    WF g -> ~ In x (names g) -> get_edges_for_node teqb tltb g x = Err NodeNotFound.
  Proof.
    intros W Hx. unfold get_edges_for_node, node_is_none.
    rewrite (get_node_spec teqb tltb teqb_spec g x W), (find_absent g x Hx). reflexivity.
  Qed.

  Theorem get_node_degree_absent (g : gstate) x :
    WF g -> ~ In x (names g) -> get_node_degree teqb tltb g x = Ok None.
  Proof. intros W Hx. unfold get_node_degree. rewrite (get_edges_for_node_absent g x W Hx). reflexivity. Qed.

  Theorem get_in_edges_for_node_absent (g : gstate) x :
    WF g -> ~ In x (names g) ->
    get_in_edges_for_node teqb g x = Err (if directed (sp g) then NodeNotFound else WrongMethod).
  Proof.
    intros W Hx. unfold get_in_edges_for_node, node_is_none. destruct (directed (sp g)); [|reflexivity]. simpl.
    rewrite (get_node_spec teqb tltb teqb_spec g x W), (find_absent g x Hx). reflexivity.
  Qed.

  Theorem get_out_edges_for_node_absent (g : gstate) x :
    WF g -> ~ In x (names g) ->
    get_out_edges_for_node teqb g x = Err (if directed (sp g) then NodeNotFound else WrongMethod).
  Proof.
    intros W Hx. unfold get_out_edges_for_node, node_is_none. destruct (directed (sp g)); [|reflexivity]. simpl.
    rewrite (get_node_spec teqb tltb teqb_spec g x W), (find_absent g x Hx). reflexivity.
  Qed.

  (* on the wrong kind of graph the directed-only per-node queries answer WrongMethod *)
  Theorem in_out_edges_wrong_kind (g : gstate) x :
    directed (sp g) = false ->
    get_in_edges_for_node teqb g x = Err WrongMethod /\ get_out_edges_for_node teqb g x = Err WrongMethod /\
    get_predecessor_nodes teqb g x = Err WrongMethod /\ get_successor_nodes teqb g x = Err WrongMethod.
  Proof.
    intros H. unfold get_in_edges_for_node, get_out_edges_for_node, get_predecessor_nodes, get_successor_nodes.
    rewrite H. auto.
  Qed.

  Theorem add_node_no_panic (g : gstate) (n : node) : WF g -> exists g', add_node teqb g n = Ok g'.
  Proof. intros W. destruct (add_node_refines teqb tltb teqb_spec g n W) as (g' & H & _). eauto. Qed.
End NoPanic.
