(* C07, per function: for each of the five functions with a rayon path, the
   transcribed parallel arm under ANY schedule equals the transcribed serial arm
   — exact equality of outcomes, for every graph state and every argument —
   and both equal the algorithm model the correspondence check ties to the code.
   Engine: Proofs/ParOk.v ([par_then_post_eq_seq], i.e. C07_gather_then_post).
   Nothing is assumed about the per-source functions or about the combine
   functions (accumulate_betweenness, HashMap insert): the proofs never unfold
   them, so the equalities hold in any number structure. *)
From Coq Require Import String List Bool ZArith QArith Arith Lia Sorting.Permutation.
From GV Require Import Base.Outcome Base.AMap Model.GState Model.Creation Model.Query Model.Derived.
From GV Require Import Model.Par Model.Dijkstra Model.Cent Model.Brandes Model.Closeness Model.ParFns.
From GV Require Import Spec.ShortestPathDef Spec.ShortestPathCheck Spec.EdgeStoreGraph Proofs.WFDefs Proofs.DerivedContent Proofs.ParOk Proofs.BrandesOk Proofs.DijkstraTotalOk Proofs.DijkstraModelOk Proofs.DijkstraNamesOk.
From GV Require Import Proofs.DijkstraErrKind Proofs.DijkstraWF.
Import ListNotations.
Close Scope Q_scope.
Open Scope nat_scope.
Open Scope list_scope.

Definition schedule (n : nat) (pi : list nat) : Prop := Permutation pi (seq 0 n).

(* all failing items fail with the same Error / panic site (vacuously true when no item fails) *)
Definition fail_alike {X Y} (f : X -> outcome Y) (xs : list X) : Prop :=
  forall x x', In x xs -> In x' xs -> is_ok (f x) = false -> is_ok (f x') = false ->
               @as_failure Y unit (f x) = as_failure (f x').

Lemma all_ok_fail_alike {X Y} (f : X -> outcome Y) xs :
  (forall x, In x xs -> is_ok (f x) = true) -> fail_alike f xs.
Proof. intros H x x' Hx _ Hf. rewrite (H x Hx) in Hf. discriminate. Qed.

Lemma as_failure_retype {Y Z1} (o o' : outcome Y) :
  @as_failure Y unit o = as_failure o' -> @as_failure Y Z1 o = as_failure o'.
Proof. destruct o, o'; cbn; congruence. Qed.

(* ------------------------------------------------------------------ the region *)
Section GatherOk.
  Context {X Y : Type}.
  Variable f : X -> outcome Y.

  Lemma first_failure_map xs : first_failure (map f xs) = omapM f xs.
  Proof. induction xs as [|x t IH]; cbn [map first_failure omapM]; [reflexivity|]. now rewrite IH. Qed.

  (* the region under any schedule = the sequential map/collect, failures included *)
  Theorem gather_par_eq_seq pi xs : schedule (length xs) pi -> gather_par pi f xs = gather_seq f xs.
  Proof.
    intros P. unfold gather_par, gather_seq. rewrite (par_then_post_eq_seq f first_failure pi xs P).
    unfold seq_then_post, run_seq. cbn [bind flatten]. apply first_failure_map.
  Qed.

  Corollary gather_par_two_schedules pi1 pi2 xs :
    schedule (length xs) pi1 -> schedule (length xs) pi2 -> gather_par pi1 f xs = gather_par pi2 f xs.
  Proof. intros P1 P2. now rewrite !gather_par_eq_seq. Qed.

  (* ---- the fork-join plan semantics with rayon::join's panic rule gives the same ---- *)
  Lemma omapM_app a b : omapM f (a ++ b) = join_results (omapM f a) (omapM f b).
  Proof.
    induction a as [|x t IH]; cbn [app omapM].
    - cbn [join_results]. destruct (omapM f b); reflexivity.
    - destruct (f x) as [y| | |]; cbn [bind join_results]; try reflexivity.
      rewrite IH. destruct (omapM f t) as [va| | |]; cbn [bind join_results]; try reflexivity.
      destruct (omapM f b); reflexivity.
  Qed.

  Lemma firstn_add {Z} n m (l : list Z) : firstn (n + m) l = firstn n l ++ firstn m (skipn n l).
  Proof.
    revert l. induction n as [|n IH]; intros l; cbn [Nat.add firstn skipn app]; [reflexivity|].
    destruct l as [|z l]; cbn [firstn skipn app]; [now rewrite firstn_nil | now rewrite IH].
  Qed.

  Lemma skipn_add {Z} n m (l : list Z) : skipn m (skipn n l) = skipn (n + m) l.
  Proof.
    revert l. induction n as [|n IH]; intros l; cbn [Nat.add skipn]; [reflexivity|].
    destruct l as [|z l]; cbn [skipn]; [now rewrite skipn_nil | apply IH].
  Qed.

  Lemma slice_split (xs : list X) lo m hi : lo <= m <= hi -> slice lo hi xs = slice lo m xs ++ slice m hi xs.
  Proof.
    intros H. unfold slice. replace (hi - lo) with ((m - lo) + (hi - m)) by lia.
    rewrite firstn_add, skipn_add. replace (lo + (m - lo)) with m by lia. reflexivity.
  Qed.

  Lemma run_plan_slice p xs : forall lo hi, lo <= hi -> run_plan p f xs lo hi = omapM f (slice lo hi xs).
  Proof.
    induction p as [|mid rf l IHl r IHr]; intros lo hi H; cbn [run_plan]; [reflexivity|].
    set (m := Nat.min hi (Nat.max lo mid)).
    assert (Hm : lo <= m <= hi) by (unfold m; lia).
    rewrite IHl, IHr by lia. rewrite (slice_split xs lo m hi Hm). symmetry. apply omapM_app.
  Qed.

  Theorem run_plan_eq_seq p xs : run_plan p f xs 0 (length xs) = gather_seq f xs.
  Proof.
    rewrite run_plan_slice by lia. unfold slice, gather_seq. cbn [skipn]. rewrite Nat.sub_0_r.
    now rewrite firstn_all.
  Qed.

  (* schedule semantics = plan semantics: reading the slots in index order IS join's panic rule *)
  Corollary gather_par_eq_plan pi p xs :
    schedule (length xs) pi -> gather_par pi f xs = run_plan p f xs 0 (length xs).
  Proof. intros P. now rewrite run_plan_eq_seq, gather_par_eq_seq. Qed.

  (* ---- the pessimistic semantics (the failing item executed first aborts the region) ---- *)
  Lemma omapM_ok_all xs ys : omapM f xs = Ok ys -> forall x, In x xs -> is_ok (f x) = true.
  Proof.
    revert ys. induction xs as [|x t IH]; intros ys H z Hz; [destruct Hz|].
    cbn [omapM] in H. destruct (f x) as [y| | |] eqn:Ex; cbn [bind] in H; try discriminate.
    destruct (omapM f t) as [yt| | |] eqn:Et; cbn [bind] in H; try discriminate.
    destruct Hz as [<- | Hz]; [now rewrite Ex | eapply IH; eauto].
  Qed.

  Lemma omapM_fail xs : is_ok (omapM f xs) = false ->
    exists x, In x xs /\ is_ok (f x) = false /\ omapM f xs = as_failure (f x).
  Proof.
    induction xs as [|x t IH]; intros H; cbn [omapM] in *; [discriminate|].
    destruct (f x) as [y| | |] eqn:Ex; cbn [bind] in *.
    - destruct (omapM f t) as [yt| | |] eqn:Et; cbn [bind] in *; try discriminate;
        destruct (IH eq_refl) as (z & Hz & Hf & E); exists z; (split; [now right|]); (split; [exact Hf|]);
        rewrite <- E; reflexivity.
    - exists x. rewrite Ex. cbn. auto.
    - exists x. rewrite Ex. cbn. auto.
    - exists x. rewrite Ex. cbn. auto.
  Qed.

  Lemma ffe_none pi xs : (forall x, In x xs -> is_ok (f x) = true) -> first_failing_executed pi f xs = None.
  Proof.
    intros H. induction pi as [|i t IH]; cbn [first_failing_executed]; [reflexivity|].
    destruct (nth_error xs i) as [x|] eqn:E; [|exact IH].
    rewrite (H x (nth_error_In _ _ E)). exact IH.
  Qed.

  Lemma ffe_some pi xs i x : In i pi -> nth_error xs i = Some x -> is_ok (f x) = false ->
    exists x', In x' xs /\ is_ok (f x') = false /\ first_failing_executed pi f xs = Some (as_failure (f x')).
  Proof.
    intros Hi Hx Hf. induction pi as [|j t IH]; [destruct Hi|]. cbn [first_failing_executed].
    destruct (nth_error xs j) as [xj|] eqn:Ej.
    - destruct (is_ok (f xj)) eqn:Oj.
      + destruct Hi as [-> | Hi]; [rewrite Hx in Ej; inversion Ej; subst; congruence | now apply IH].
      + exists xj. split; [eapply nth_error_In; eauto|]. auto.
    - destruct Hi as [-> | Hi]; [congruence | now apply IH].
  Qed.

  (* success, and the value on success, do not depend on the failure semantics *)
  Theorem gather_abort_ok pi xs ys : schedule (length xs) pi ->
    gather_seq f xs = Ok ys -> gather_abort pi f xs = Ok ys.
  Proof.
    intros P H. unfold gather_abort. rewrite (ffe_none pi xs (omapM_ok_all xs ys H)).
    now rewrite gather_par_eq_seq.
  Qed.

  (* on failure the region fails with the failure of SOME failing item *)
  Theorem gather_abort_fail pi xs : schedule (length xs) pi -> is_ok (gather_seq f xs) = false ->
    exists x, In x xs /\ is_ok (f x) = false /\ gather_abort pi f xs = as_failure (f x).
  Proof.
    intros P H. destruct (omapM_fail xs H) as (x & Hx & Hf & _).
    destruct (In_nth_error _ _ Hx) as [i Hi].
    assert (Hin : In i pi).
    { apply (Permutation_in i (Permutation_sym P)). apply in_seq.
      assert (i < length xs) by (apply nth_error_Some; congruence). lia. }
    destruct (ffe_some pi xs i x Hin Hi Hf) as (x' & Hx' & Hf' & E).
    exists x'. unfold gather_abort. rewrite E. auto.
  Qed.

  (* hence: when all failing items fail alike (in particular when no item fails) even the
     pessimistic semantics agrees exactly with the serial arm *)
  Theorem gather_abort_eq_seq pi xs : schedule (length xs) pi -> fail_alike f xs ->
    gather_abort pi f xs = gather_seq f xs.
  Proof.
    intros P U. destruct (is_ok (gather_seq f xs)) eqn:O.
    - destruct (gather_seq f xs) as [ys| | |] eqn:E; try discriminate. now apply gather_abort_ok.
    - destruct (gather_abort_fail pi xs P O) as (x & Hx & Hf & Ea).
      destruct (omapM_fail xs O) as (x0 & Hx0 & Hf0 & E0).
      unfold gather_seq. rewrite Ea, E0. apply as_failure_retype. now apply U.
  Qed.

  (* ---- the Result-collecting region: items return `Result`, rayon's `collect::<Result<Vec<_>, E>>()` ---- *)
  Lemma all_ok_omapM xs : (forall x, In x xs -> is_ok (f x) = true) -> is_ok (omapM f xs) = true.
  Proof.
    induction xs as [|x t IH]; intros H; cbn [omapM]; [reflexivity|].
    pose proof (H x (or_introl eq_refl)) as Hx. destruct (f x) as [y| | |]; try discriminate. cbn [bind].
    specialize (IH (fun z Hz => H z (or_intror Hz))). destruct (omapM f t); try discriminate. reflexivity.
  Qed.

  Lemma fpf_none_ok xs : forall k ran, (forall x, In x xs -> is_ok (f x) = true) -> first_panic_from k ran f xs = None.
  Proof.
    induction xs as [|x t IH]; intros k ran H; cbn [first_panic_from]; [reflexivity|].
    pose proof (H x (or_introl eq_refl)) as Hx. destruct (f x) as [y| | |]; try discriminate. cbn [panics].
    rewrite andb_false_r. apply IH. intros z Hz. apply H. now right.
  Qed.

  Lemma fpf_some xs : forall k ran e, first_panic_from k ran f xs = Some e ->
    exists x, In x xs /\ is_ok (f x) = false /\ e = as_failure (f x).
  Proof.
    induction xs as [|x t IH]; intros k ran e H; cbn [first_panic_from] in H; [discriminate|].
    destruct (existsb (Nat.eqb k) ran && panics (f x)) eqn:E.
    - inversion H; subst e. apply andb_true_iff in E. destruct E as [_ E]. exists x. split; [now left|].
      split; [|reflexivity]. destruct (f x); cbn in *; congruence.
    - destruct (IH _ _ _ H) as (z & Hz & Hf & He). exists z. split; [now right | auto].
  Qed.

  Lemma fpf_none_inv xs : forall k ran, first_panic_from k ran f xs = None ->
    forall j x, nth_error xs j = Some x -> In (k + j) ran -> panics (f x) = false.
  Proof.
    induction xs as [|x0 t IH]; intros k ran H j x Hj Hin; [destruct j; discriminate|].
    cbn [first_panic_from] in H. destruct (existsb (Nat.eqb k) ran && panics (f x0)) eqn:E; [discriminate|].
    destruct j as [|j]; cbn [nth_error] in Hj.
    - inversion Hj; subst x0. apply andb_false_iff in E. destruct E as [E | E]; [|exact E].
      exfalso. rewrite Nat.add_0_r in Hin.
      assert (C : existsb (Nat.eqb k) ran = true) by (apply existsb_exists; exists k; split; [exact Hin | apply Nat.eqb_refl]).
      congruence.
    - apply (IH (S k) ran H j x Hj). replace (S k + j) with (k + S j) by lia. exact Hin.
  Qed.

  Lemma rec_none_ok pi xs : (forall x, In x xs -> is_ok (f x) = true) -> recorded_error pi f xs = None.
  Proof.
    intros H. induction pi as [|i t IH]; cbn [recorded_error]; [reflexivity|].
    destruct (nth_error xs i) as [x|] eqn:E; [|exact IH].
    pose proof (H x (nth_error_In _ _ E)) as Hx. destruct (f x); try discriminate. exact IH.
  Qed.

  Lemma rec_some pi xs k : recorded_error pi f xs = Some k -> exists x, In x xs /\ f x = Err k.
  Proof.
    induction pi as [|i t IH]; cbn [recorded_error]; [discriminate|].
    destruct (nth_error xs i) as [x|] eqn:E; [|exact IH].
    destruct (f x) as [y|k'| |] eqn:Ex; try exact IH.
    intros H. inversion H; subst k'. exists x. split; [eapply nth_error_In; eauto | exact Ex].
  Qed.

  Lemma rec_none_inv pi xs : recorded_error pi f xs = None ->
    (forall i x, In i pi -> nth_error xs i = Some x -> returns_err (f x) = false) /\ started pi f xs = pi.
  Proof.
    induction pi as [|i t IH]; cbn [recorded_error started]; intros H; [split; [intros i x []|reflexivity]|].
    destruct (nth_error xs i) as [x|] eqn:E.
    - destruct (f x) as [y|k| |] eqn:Ex; try discriminate; destruct (IH H) as [H1 H2]; cbn [returns_err]; rewrite H2;
        (split; [|reflexivity]); intros j z [<- | Hj] Hz; try (now apply (H1 j z));
        rewrite E in Hz; inversion Hz; subst z; rewrite Ex; reflexivity.
    - destruct (IH H) as [H1 H2]. rewrite H2. split; [|reflexivity].
      intros j z [<- | Hj] Hz; [congruence | now apply (H1 j z)].
  Qed.

  (* success, and the value on success, do not depend on the schedule *)
  Theorem gather_result_ok pi xs ys : schedule (length xs) pi ->
    gather_seq f xs = Ok ys -> gather_result_par pi f xs = Ok ys.
  Proof.
    intros P H. unfold gather_result_par. pose proof (omapM_ok_all xs ys H) as A.
    rewrite (fpf_none_ok xs 0 _ A), (rec_none_ok pi xs A). now rewrite gather_par_eq_seq.
  Qed.

  (* on failure the region fails with the failure — the returned `Err`, or the panic — of SOME failing item *)
  Theorem gather_result_fail pi xs : schedule (length xs) pi -> is_ok (gather_seq f xs) = false ->
    exists x, In x xs /\ is_ok (f x) = false /\ gather_result_par pi f xs = as_failure (f x).
  Proof.
    intros P H. unfold gather_result_par.
    destruct (first_panic_from 0 (started pi f xs) f xs) as [e|] eqn:Ep.
    - destruct (fpf_some xs 0 _ e Ep) as (x & Hx & Hf & He). exists x. auto.
    - destruct (recorded_error pi f xs) as [k|] eqn:Er.
      + destruct (rec_some pi xs k Er) as (x & Hx & Ex). exists x. rewrite Ex. auto.
      + exfalso. destruct (rec_none_inv pi xs Er) as [Hne Hst]. rewrite Hst in Ep.
        assert (A : forall x, In x xs -> is_ok (f x) = true).
        { intros x Hx. destruct (In_nth_error _ _ Hx) as [i Hi].
          assert (Hin : In i pi).
          { apply (Permutation_in i (Permutation_sym P)). apply in_seq.
            assert (i < length xs) by (apply nth_error_Some; congruence). lia. }
          pose proof (Hne i x Hin Hi) as N1. pose proof (fpf_none_inv xs 0 pi Ep i x Hi Hin) as N2.
          destruct (f x); cbn in *; congruence. }
        unfold gather_seq in H. rewrite (all_ok_omapM xs A) in H. discriminate.
  Qed.

  (* hence: when all failing items fail alike — here: when every item error has the same kind and no item
     panics — the error rayon happens to keep is the one the serial collect returns *)
  Theorem gather_result_eq_seq pi xs : schedule (length xs) pi -> fail_alike f xs ->
    gather_result_par pi f xs = gather_seq f xs.
  Proof.
    intros P U. destruct (is_ok (gather_seq f xs)) eqn:O.
    - destruct (gather_seq f xs) as [ys| | |] eqn:E; try discriminate. now apply gather_result_ok.
    - destruct (gather_result_fail pi xs P O) as (x & Hx & Hf & Ea).
      destruct (omapM_fail xs O) as (x0 & Hx0 & Hf0 & E0).
      unfold gather_seq. rewrite Ea, E0. apply as_failure_retype. now apply U.
  Qed.
End GatherOk.

Theorem result_region {X Y} (f : X -> outcome Y) (pi : list nat) (xs : list X) :
  schedule (length xs) pi ->
  (forall ys, gather_seq f xs = Ok ys -> gather_result_par pi f xs = Ok ys) /\
  (is_ok (gather_seq f xs) = false ->
   exists x, In x xs /\ is_ok (f x) = false /\ gather_result_par pi f xs = as_failure (f x)) /\
  (fail_alike f xs -> gather_result_par pi f xs = gather_seq f xs).
Proof.
  intros P. split; [|split].
  - intros ys. now apply gather_result_ok.
  - now apply gather_result_fail.
  - now apply gather_result_eq_seq.
Qed.

Theorem pessimistic_region {X Y} (f : X -> outcome Y) (pi : list nat) (xs : list X) :
  schedule (length xs) pi ->
  (forall ys, gather_seq f xs = Ok ys -> gather_abort pi f xs = Ok ys) /\
  (is_ok (gather_seq f xs) = false ->
   exists x, In x xs /\ is_ok (f x) = false /\ gather_abort pi f xs = as_failure (f x)) /\
  (fail_alike f xs -> gather_abort pi f xs = gather_seq f xs).
Proof.
  intros P. split; [|split].
  - intros ys. now apply gather_abort_ok.
  - now apply gather_abort_fail.
  - now apply gather_abort_eq_seq.
Qed.

(* ------------------------------------------------------------------ the two shapes *)
Section ShapesOk.
  Context {X Y B R : Type}.
  Variable f : X -> outcome Y.

  Theorem post_arm_par_eq_serial (post : list Y -> outcome R) pi xs :
    schedule (length xs) pi -> fail_alike f xs ->
    post_arm (Rayon pi) f post xs = post_arm Serial f post xs.
  Proof. intros P U. unfold post_arm. cbn [gather_result]. now rewrite gather_result_eq_seq. Qed.

  Theorem post_arm_abort_eq_serial (post : list Y -> outcome R) pi xs :
    schedule (length xs) pi -> fail_alike f xs ->
    post_arm (RayonAbort pi) f post xs = post_arm Serial f post xs.
  Proof. intros P U. unfold post_arm. cbn [gather_result]. now rewrite gather_abort_eq_seq. Qed.

  (* whatever the items do: an Ok outcome and its value are those of the serial arm *)
  Theorem post_arm_par_ok (post : list Y -> outcome R) pi xs ys :
    schedule (length xs) pi -> gather_seq f xs = Ok ys ->
    post_arm (Rayon pi) f post xs = post_arm Serial f post xs.
  Proof. intros P H. unfold post_arm. cbn [gather_result]. rewrite H. now rewrite (gather_result_ok f pi xs ys P H). Qed.

  Lemma omapM_then_fold (combine : B -> Y -> B) xs : forall init,
    (do ys <- omapM f xs; Ok (fold_left combine ys init)) =
    ofold (fun acc x => do y <- f x; Ok (combine acc y)) xs init.
  Proof.
    induction xs as [|x t IH]; intros init; cbn [omapM ofold bind fold_left]; [reflexivity|].
    destruct (f x) as [y| | |]; cbn [bind]; try reflexivity.
    rewrite <- IH. destruct (omapM f t); reflexivity.
  Qed.

  (* for an ARBITRARY combine: gather under any schedule, then fold in index order = the serial loop *)
  Theorem loop_arm_par_eq_serial (combine : B -> Y -> B) pi xs init :
    schedule (length xs) pi -> loop_arm (Rayon pi) f combine xs init = loop_arm Serial f combine xs init.
  Proof.
    intros P. cbn [loop_arm]. rewrite gather_par_eq_seq by exact P. apply omapM_then_fold.
  Qed.

  Theorem loop_arm_abort_eq_serial (combine : B -> Y -> B) pi xs init :
    schedule (length xs) pi -> fail_alike f xs ->
    loop_arm (RayonAbort pi) f combine xs init = loop_arm Serial f combine xs init.
  Proof.
    intros P U. cbn [loop_arm]. rewrite gather_abort_eq_seq by assumption. apply omapM_then_fold.
  Qed.
End ShapesOk.

(* ------------------------------------------------------------------ dijkstra.rs *)
(* Since the repair of F22 the items of all_pairs / multi_source return the per-source `Result` and the
   region is collected into `Result<Vec<_>, Error>`; rayon keeps the error of SOME failing item.  The arms
   therefore agree
     - on EVERY graph state as far as success is concerned: one arm returns Ok v iff the other does
       ([*_ok_any_state]);
     - exactly (Ok value, Err kind) whenever the failing items fail alike — which is the case on every
       coherent state, whatever the weights: the per-source search neither panics nor runs out of fuel
       (DijkstraTotalOk) and the only `Err` it can return is ContradictoryPaths (DijkstraErrKind), and for
       multi_source the source / target names have been checked up front, so NodeNotFound is excluded. *)
Section DijkstraArmsOk.
  Context {T A : Type}.
  Variable teqb : T -> T -> bool.
  Notation gstate := (gstate T A).

  (* on every graph state: the up-front check `has_nodes` / `has_node` succeeded, so the names are keys of
     nodes_map *)
  Lemma has_node_true_lookup : forall (g : gstate) x,
    has_node teqb g x = Ok true -> exists i, lookup teqb x (nodes_map g) = Some i.
  Proof.
    intros g x H. unfold has_node, get_node, contains_key, get_node_index in H.
    destruct (lookup teqb x (nodes_map g)) as [i|]; [eauto | cbn in H; discriminate].
  Qed.

  Lemma has_nodes_true_lookup : forall (g : gstate) xs,
    has_nodes teqb g xs = Ok true -> forall x, In x xs -> exists i, lookup teqb x (nodes_map g) = Some i.
  Proof.
    intros g. induction xs as [|y t IH]; intros H x Hx; [destruct Hx|]. cbn [has_nodes] in H.
    destruct (has_node teqb g y) as [b| | |] eqn:E; cbn [bind] in H; try discriminate.
    destruct b; [|discriminate]. destruct Hx as [<- | Hx]; [now apply has_node_true_lookup | now apply IH].
  Qed.

  (* --- the items --- *)
  (* multi_source: every item is Ok or Err ContradictoryPaths once the names are present — ANY weights,
     any cutoff *)
  Lemma multi_source_items_fail_alike : forall (g : gstate) weighted sources target cutoff fo wp,
    wf_adj g -> names_wf teqb g ->
    (forall s, In s sources -> exists si, lookup teqb s (nodes_map g) = Some si) ->
    (forall t, target = Some t -> exists i, lookup teqb t (nodes_map g) = Some i) ->
    fail_alike (multi_source_item teqb g weighted target cutoff fo wp) sources.
  Proof.
    intros g weighted sources target cutoff fo wp W N Hs Ht x x' Hx Hx' Hf Hf'. unfold multi_source_item in *.
    destruct (single_source_present_cases teqb g weighted x target cutoff fo wp W N (Hs x Hx) Ht) as [[m E] | E];
      rewrite E in Hf |- *; [discriminate|].
    destruct (single_source_present_cases teqb g weighted x' target cutoff fo wp W N (Hs x' Hx') Ht) as [[m E'] | E'];
      rewrite E' in Hf' |- *; [discriminate|]. reflexivity.
  Qed.

  (* all_pairs: on a well-formed adjacency the per-source search neither panics nor runs out of fuel
     (DijkstraTotalOk) and its only Err is ContradictoryPaths: the failing items fail alike, whatever
     the weights *)
  Lemma all_pairs_items_fail_alike : forall (g : gstate) weighted target ti cutoff fo wp,
    wf_adj g ->
    fail_alike (all_pairs_item g weighted target ti cutoff fo wp) (seq 0 (number_of_nodes g)).
  Proof.
    intros g weighted target ti cutoff fo wp W x x' Hx Hx' Hf Hf'.
    apply in_seq in Hx. apply in_seq in Hx'.
    assert (F := run_from_index_fine_adj g weighted x target ti cutoff fo wp W ltac:(lia)).
    assert (F' := run_from_index_fine_adj g weighted x' target ti cutoff fo wp W ltac:(lia)).
    unfold all_pairs_item in *.
    destruct (run_from_index g weighted x target ti cutoff fo wp) as [r|k| |] eqn:E; cbn in F, Hf |- *; try contradiction; try discriminate.
    destruct (run_from_index g weighted x' target ti cutoff fo wp) as [r'|k'| |] eqn:E'; cbn in F', Hf' |- *; try contradiction; try discriminate.
    rewrite (run_from_index_err g weighted x target ti cutoff fo wp k E).
    rewrite (run_from_index_err g weighted x' target ti cutoff fo wp k' E'). reflexivity.
  Qed.

  (* --- multi_source --- *)
  (* generic form: any graph state, under "the failing items fail alike" *)
  Theorem multi_source_parallel_eq_serial : forall pi (g : gstate) weighted sources target cutoff fo wp,
    schedule (length sources) pi ->
    fail_alike (multi_source_item teqb g weighted target cutoff fo wp) sources ->
    multi_source_arm teqb (Rayon pi) g weighted sources target cutoff fo wp =
    multi_source_arm teqb Serial g weighted sources target cutoff fo wp.
  Proof.
    intros pi g weighted sources target cutoff fo wp P U. unfold multi_source_arm.
    now rewrite post_arm_par_eq_serial.
  Qed.

  Theorem multi_source_abort_eq_serial : forall pi (g : gstate) weighted sources target cutoff fo wp,
    schedule (length sources) pi ->
    fail_alike (multi_source_item teqb g weighted target cutoff fo wp) sources ->
    multi_source_arm teqb (RayonAbort pi) g weighted sources target cutoff fo wp =
    multi_source_arm teqb Serial g weighted sources target cutoff fo wp.
  Proof.
    intros pi g weighted sources target cutoff fo wp P U. unfold multi_source_arm.
    now rewrite post_arm_abort_eq_serial.
  Qed.

  (* coherent adjacency and name indexes: ANY weights, any names (absent ones are rejected up front by
     both arms alike), any options *)
  Lemma multi_source_arms_wf : forall (a : arm) (g : gstate) weighted sources target cutoff fo wp,
    wf_adj g -> names_wf teqb g ->
    (fail_alike (multi_source_item teqb g weighted target cutoff fo wp) sources ->
     post_arm a (multi_source_item teqb g weighted target cutoff fo wp) (fun l => Ok (collect_map teqb l)) sources =
     post_arm Serial (multi_source_item teqb g weighted target cutoff fo wp) (fun l => Ok (collect_map teqb l)) sources) ->
    multi_source_arm teqb a g weighted sources target cutoff fo wp =
    multi_source_arm teqb Serial g weighted sources target cutoff fo wp.
  Proof.
    intros a g weighted sources target cutoff fo wp W N H. unfold multi_source_arm.
    destruct (has_nodes teqb g sources) as [b| | |] eqn:Eb; cbn [bind]; try reflexivity.
    destruct b; cbn [negb]; [|reflexivity].
    destruct (match target with Some t => has_node teqb g t | None => Ok true end) as [tb| | |] eqn:Et; cbn [bind]; try reflexivity.
    destruct tb; cbn [negb]; [|reflexivity].
    apply H. apply multi_source_items_fail_alike; [exact W | exact N | now apply has_nodes_true_lookup |].
    intros t ->. now apply has_node_true_lookup.
  Qed.

  Theorem multi_source_parallel_eq_serial_wf : forall pi (g : gstate) weighted sources target cutoff fo wp,
    wf_adj g -> names_wf teqb g -> schedule (length sources) pi ->
    multi_source_arm teqb (Rayon pi) g weighted sources target cutoff fo wp =
    multi_source_arm teqb Serial g weighted sources target cutoff fo wp.
  Proof.
    intros pi g weighted sources target cutoff fo wp W N P. apply multi_source_arms_wf; [exact W | exact N|].
    intros U. now apply post_arm_par_eq_serial.
  Qed.

  Theorem multi_source_abort_eq_serial_wf : forall pi (g : gstate) weighted sources target cutoff fo wp,
    wf_adj g -> names_wf teqb g -> schedule (length sources) pi ->
    multi_source_arm teqb (RayonAbort pi) g weighted sources target cutoff fo wp =
    multi_source_arm teqb Serial g weighted sources target cutoff fo wp.
  Proof.
    intros pi g weighted sources target cutoff fo wp W N P. apply multi_source_arms_wf; [exact W | exact N|].
    intros U. now apply post_arm_abort_eq_serial.
  Qed.

  (* every graph state: success and the value on success do not depend on the arm *)
  Theorem multi_source_ok_any_state : forall pi (g : gstate) weighted sources target cutoff fo wp mm,
    schedule (length sources) pi ->
    (multi_source_arm teqb (Rayon pi) g weighted sources target cutoff fo wp = Ok mm <->
     multi_source_arm teqb Serial g weighted sources target cutoff fo wp = Ok mm).
  Proof.
    intros pi g weighted sources target cutoff fo wp mm P. unfold multi_source_arm.
    destruct (has_nodes teqb g sources) as [b| | |]; cbn [bind]; try tauto.
    destruct (negb b); [tauto|].
    destruct (match target with Some t => has_node teqb g t | None => Ok true end) as [tb| | |]; cbn [bind]; try tauto.
    destruct (negb tb); [tauto|]. unfold post_arm. cbn [gather_result].
    set (f := multi_source_item teqb g weighted target cutoff fo wp).
    destruct (is_ok (gather_seq f sources)) eqn:O.
    - destruct (gather_seq f sources) as [ys| | |] eqn:E; try discriminate.
      rewrite (gather_result_ok f pi sources ys P E). tauto.
    - destruct (gather_result_fail f pi sources P O) as (x & _ & Hf & Ea). rewrite Ea.
      destruct (f x); try discriminate; destruct (gather_seq f sources); try discriminate; cbn; split; discriminate.
  Qed.

  Theorem multi_source_serial_is_model : forall threads (g : gstate) weighted sources target cutoff fo wp,
    multi_source_arm teqb Serial g weighted sources target cutoff fo wp =
    multi_source teqb threads g weighted sources target cutoff fo wp.
  Proof.
    intros. unfold multi_source_arm, multi_source, post_arm, multi_source_item. cbn [gather_result]. unfold gather_seq.
    destruct (parallel g threads); reflexivity.
  Qed.

  Theorem multi_source_sched_unobservable : forall threads pi threads' (g : gstate) weighted sources target cutoff fo wp,
    wf_adj g -> names_wf teqb g -> schedule (length sources) pi ->
    multi_source_sched teqb threads pi g weighted sources target cutoff fo wp =
    multi_source teqb threads' g weighted sources target cutoff fo wp.
  Proof.
    intros threads pi threads' g weighted sources target cutoff fo wp W N P.
    unfold multi_source_sched, arm_of. destruct (parallel g threads).
    - rewrite multi_source_parallel_eq_serial_wf by assumption. apply multi_source_serial_is_model.
    - apply multi_source_serial_is_model.
  Qed.

  (* --- all_pairs --- *)
  Lemma all_pairs_iter_arms_wf : forall (a : arm) (g : gstate) weighted target cutoff fo wp,
    wf_adj g ->
    (forall ti, gather_result a (all_pairs_item g weighted target ti cutoff fo wp) (seq 0 (number_of_nodes g)) =
                gather_seq (all_pairs_item g weighted target ti cutoff fo wp) (seq 0 (number_of_nodes g))) ->
    all_pairs_iter_arm teqb a g weighted target cutoff fo wp =
    all_pairs_iter_arm teqb Serial g weighted target cutoff fo wp.
  Proof.
    intros a g weighted target cutoff fo wp W H. unfold all_pairs_iter_arm.
    destruct (match target with
              | Some t => do i <- unwrap_result "dijkstra.rs:153" (get_node_index teqb g t); Ok (Some i)
              | None => Ok None
              end) as [ti| | |]; cbn [bind]; try reflexivity.
    rewrite H. reflexivity.
  Qed.

  Theorem all_pairs_iter_parallel_eq_serial : forall pi (g : gstate) weighted target cutoff fo wp,
    wf_adj g -> schedule (number_of_nodes g) pi ->
    all_pairs_iter_arm teqb (Rayon pi) g weighted target cutoff fo wp =
    all_pairs_iter_arm teqb Serial g weighted target cutoff fo wp.
  Proof.
    intros pi g weighted target cutoff fo wp W P. apply all_pairs_iter_arms_wf; [exact W|]. intros ti. cbn [gather_result].
    apply gather_result_eq_seq; [now rewrite seq_length | now apply all_pairs_items_fail_alike].
  Qed.

  Theorem all_pairs_iter_serial_is_model : forall (g : gstate) weighted target cutoff fo wp,
    all_pairs_iter_arm teqb Serial g weighted target cutoff fo wp =
    all_pairs_iter teqb g weighted target cutoff fo wp.
  Proof. reflexivity. Qed.

  Theorem all_pairs_parallel_eq_serial : forall pi (g : gstate) weighted target cutoff fo wp,
    wf_adj g -> schedule (number_of_nodes g) pi ->
    all_pairs_arm teqb (Rayon pi) g weighted target cutoff fo wp =
    all_pairs_arm teqb Serial g weighted target cutoff fo wp.
  Proof.
    intros pi g weighted target cutoff fo wp W P. unfold all_pairs_arm.
    now rewrite all_pairs_iter_parallel_eq_serial.
  Qed.

  Theorem all_pairs_abort_eq_serial : forall pi (g : gstate) weighted target cutoff fo wp,
    wf_adj g -> schedule (number_of_nodes g) pi ->
    all_pairs_arm teqb (RayonAbort pi) g weighted target cutoff fo wp =
    all_pairs_arm teqb Serial g weighted target cutoff fo wp.
  Proof.
    intros pi g weighted target cutoff fo wp W P. unfold all_pairs_arm.
    assert (E : all_pairs_iter_arm teqb (RayonAbort pi) g weighted target cutoff fo wp =
                all_pairs_iter_arm teqb Serial g weighted target cutoff fo wp).
    { apply all_pairs_iter_arms_wf; [exact W|]. intros ti. cbn [gather_result].
      apply gather_abort_eq_seq; [now rewrite seq_length | now apply all_pairs_items_fail_alike]. }
    now rewrite E.
  Qed.

  (* every graph state: success and the value on success do not depend on the arm *)
  Theorem all_pairs_ok_any_state : forall pi (g : gstate) weighted target cutoff fo wp mm,
    schedule (number_of_nodes g) pi ->
    (all_pairs_arm teqb (Rayon pi) g weighted target cutoff fo wp = Ok mm <->
     all_pairs_arm teqb Serial g weighted target cutoff fo wp = Ok mm).
  Proof.
    intros pi g weighted target cutoff fo wp mm P. unfold all_pairs_arm.
    destruct (if weighted then ensure_weighted g else Ok tt) as [u| | |]; cbn [bind]; try tauto.
    destruct (match target with Some t => do _ <- get_node_index teqb g t; Ok tt | None => Ok tt end) as [u'| | |];
      cbn [bind]; try tauto.
    unfold all_pairs_iter_arm.
    destruct (match target with
              | Some t => do i <- unwrap_result "dijkstra.rs:153" (get_node_index teqb g t); Ok (Some i)
              | None => Ok None
              end) as [ti| | |]; cbn [bind]; try tauto.
    cbn [gather_result]. set (f := all_pairs_item g weighted target ti cutoff fo wp).
    assert (P' : schedule (length (seq 0 (number_of_nodes g))) pi) by now rewrite seq_length.
    destruct (is_ok (gather_seq f (seq 0 (number_of_nodes g)))) eqn:O.
    - destruct (gather_seq f (seq 0 (number_of_nodes g))) as [ys| | |] eqn:E; try discriminate.
      rewrite (gather_result_ok f pi _ ys P' E). tauto.
    - destruct (gather_result_fail f pi _ P' O) as (x & _ & Hf & Ea). rewrite Ea.
      destruct (f x); try discriminate; destruct (gather_seq f (seq 0 (number_of_nodes g))); try discriminate;
        cbn; split; discriminate.
  Qed.

  Theorem all_pairs_serial_is_model : forall threads (g : gstate) weighted target cutoff fo wp,
    all_pairs_arm teqb Serial g weighted target cutoff fo wp =
    all_pairs teqb threads g weighted target cutoff fo wp.
  Proof.
    intros. unfold all_pairs_arm, all_pairs. rewrite all_pairs_iter_serial_is_model.
    destruct (parallel g threads); reflexivity.
  Qed.

  Theorem all_pairs_sched_unobservable : forall threads pi threads' (g : gstate) weighted target cutoff fo wp,
    wf_adj g -> schedule (number_of_nodes g) pi ->
    all_pairs_sched teqb threads pi g weighted target cutoff fo wp =
    all_pairs teqb threads' g weighted target cutoff fo wp.
  Proof.
    intros threads pi threads' g weighted target cutoff fo wp W P.
    unfold all_pairs_sched, arm_of. destruct (parallel g threads).
    - rewrite all_pairs_parallel_eq_serial by assumption. apply all_pairs_serial_is_model.
    - apply all_pairs_serial_is_model.
  Qed.

  (* --- get_all_shortest_paths_involving --- *)
  Theorem involving_parallel_eq_serial : forall pi (g : gstate) node_name weighted,
    wf_adj g -> schedule (number_of_nodes g) pi ->
    get_all_shortest_paths_involving_arm teqb (Rayon pi) g node_name weighted =
    get_all_shortest_paths_involving_arm teqb Serial g node_name weighted.
  Proof.
    intros pi g node_name weighted W P. unfold get_all_shortest_paths_involving_arm.
    now rewrite all_pairs_parallel_eq_serial.
  Qed.

  Theorem involving_abort_eq_serial : forall pi (g : gstate) node_name weighted,
    wf_adj g -> schedule (number_of_nodes g) pi ->
    get_all_shortest_paths_involving_arm teqb (RayonAbort pi) g node_name weighted =
    get_all_shortest_paths_involving_arm teqb Serial g node_name weighted.
  Proof.
    intros pi g node_name weighted W P. unfold get_all_shortest_paths_involving_arm.
    now rewrite all_pairs_abort_eq_serial.
  Qed.

  Theorem involving_serial_is_model : forall threads (g : gstate) node_name weighted,
    get_all_shortest_paths_involving_arm teqb Serial g node_name weighted =
    get_all_shortest_paths_involving teqb threads g node_name weighted.
  Proof.
    intros. unfold get_all_shortest_paths_involving_arm, get_all_shortest_paths_involving.
    now rewrite (all_pairs_serial_is_model threads).
  Qed.

  Theorem involving_sched_unobservable : forall threads pi threads' (g : gstate) node_name weighted,
    wf_adj g -> schedule (number_of_nodes g) pi ->
    get_all_shortest_paths_involving_sched teqb threads pi g node_name weighted =
    get_all_shortest_paths_involving teqb threads' g node_name weighted.
  Proof.
    intros threads pi threads' g node_name weighted W P.
    unfold get_all_shortest_paths_involving_sched, arm_of. destruct (parallel g threads).
    - rewrite involving_parallel_eq_serial by assumption. apply involving_serial_is_model.
    - apply involving_serial_is_model.
  Qed.
End DijkstraArmsOk.

(* every state a mutation history can reach is WF, hence has a coherent adjacency and name index
   (Proofs/DijkstraWF.v); the size bound [small_adj] (the i32 counter) is the one thing WF cannot give *)
Section DijkstraArmsWF.
  Context {T A : Type}.
  Variable teqb : T -> T -> bool.
  Variable tltb : T -> T -> bool.
  Notation gstate := (gstate T A).

  Theorem multi_source_parallel_eq_serial_WF : forall pi (g : gstate) weighted sources target cutoff fo wp,
    @WF T A teqb tltb g -> small_adj g -> schedule (length sources) pi ->
    multi_source_arm teqb (Rayon pi) g weighted sources target cutoff fo wp =
    multi_source_arm teqb Serial g weighted sources target cutoff fo wp.
  Proof.
    intros pi g weighted sources target cutoff fo wp W Hs P.
    apply multi_source_parallel_eq_serial_wf; [eapply WF_wf_adj; eauto | eapply WF_names_wf; eauto | exact P].
  Qed.

  Theorem all_pairs_parallel_eq_serial_WF : forall pi (g : gstate) weighted target cutoff fo wp,
    @WF T A teqb tltb g -> small_adj g -> schedule (number_of_nodes g) pi ->
    all_pairs_arm teqb (Rayon pi) g weighted target cutoff fo wp =
    all_pairs_arm teqb Serial g weighted target cutoff fo wp.
  Proof.
    intros pi g weighted target cutoff fo wp W Hs P.
    apply all_pairs_parallel_eq_serial; [eapply WF_wf_adj; eauto | exact P].
  Qed.
End DijkstraArmsWF.

(* ------------------------------------------------------------------ betweenness.rs *)
Theorem bc_parallel_eq_serial : forall pi lw weighted (g : qadj),
  schedule (length g) pi -> bc_arm (Rayon pi) lw weighted g = bc_arm Serial lw weighted g.
Proof.
  intros pi lw weighted g P. unfold bc_arm. apply loop_arm_par_eq_serial. now rewrite seq_length.
Qed.

Lemma bc_stage_fail_alike : forall lw weighted (g : qadj) xs, fail_alike (bc_stage lw weighted g) xs.
Proof.
  intros lw weighted g xs x x' _ _ Hf Hf'. unfold bc_stage in *.
  destruct (Brandes.single_source lw weighted g x); [discriminate|].
  destruct (Brandes.single_source lw weighted g x'); [discriminate|]. reflexivity.
Qed.

Theorem bc_abort_eq_serial : forall pi lw weighted (g : qadj),
  schedule (length g) pi -> bc_arm (RayonAbort pi) lw weighted g = bc_arm Serial lw weighted g.
Proof.
  intros pi lw weighted g P. unfold bc_arm.
  apply loop_arm_abort_eq_serial; [now rewrite seq_length | apply bc_stage_fail_alike].
Qed.

Lemma opt_fold_none {X R0 B0} (st : X -> option R0) (c : B0 -> R0 -> B0) xs :
  fold_left (fun ob x => match ob with
                         | None => None
                         | Some b => match st x with Some r => Some (c b r) | None => None end
                         end) xs None = None.
Proof. induction xs as [|x t IH]; cbn [fold_left]; auto. Qed.

Lemma ofold_opt_fold {X R0 B0} (st : X -> option R0) (c : B0 -> R0 -> B0) xs : forall init,
  ofold (fun acc x => do y <- opt_out (st x); Ok (c acc y)) xs init =
  opt_out (fold_left (fun ob x => match ob with
                                  | None => None
                                  | Some b => match st x with Some r => Some (c b r) | None => None end
                                  end) xs (Some init)).
Proof.
  induction xs as [|x t IH]; intros init; cbn [ofold fold_left]; [reflexivity|].
  destruct (st x) as [r|]; cbn [opt_out bind].
  - apply IH.
  - now rewrite opt_fold_none.
Qed.

(* the serial arm is the serial path of Model/Brandes.v, and so is the thresholded core *)
Theorem bc_serial_is_model : forall lw weighted (g : qadj),
  bc_arm Serial lw weighted g = opt_out (bc_serial lw weighted g).
Proof. intros. unfold bc_arm, bc_stage, bc_serial. cbn [loop_arm]. apply ofold_opt_fold. Qed.

Theorem bc_serial_is_core : forall lw weighted (g : qadj),
  bc_arm Serial lw weighted g = opt_out (bc_core lw weighted g).
Proof.
  intros. rewrite bc_serial_is_model. unfold bc_core.
  destruct (Nat.ltb PAR_THRESHOLD (length g)); [now rewrite parallel_eq_serial | reflexivity].
Qed.

Section BetweennessArmsOk.
  Context {T A : Type}.
  Notation gstate := (gstate T A).

  (* the schedule ranges over the items 0..n-1, n = number_of_nodes *)
  Theorem betweenness_parallel_eq_serial : forall pi lw (g : gstate) weighted normalized,
    schedule (number_of_nodes g) pi ->
    betweenness_centrality_arm (Rayon pi) lw g weighted normalized =
    betweenness_centrality_arm Serial lw g weighted normalized.
  Proof.
    intros pi lw g weighted normalized P. unfold betweenness_centrality_arm.
    destruct (conv_adj weighted (successors_vec g)) as [ad|]; [|reflexivity].
    destruct (adj_ok (number_of_nodes g) ad) eqn:Hok; cbn [negb]; [|reflexivity].
    rewrite bc_parallel_eq_serial; [reflexivity|].
    unfold adj_ok in Hok. apply andb_true_iff in Hok. destruct Hok as [Hl _].
    apply Nat.eqb_eq in Hl. now rewrite Hl.
  Qed.

  Theorem betweenness_abort_eq_serial : forall pi lw (g : gstate) weighted normalized,
    schedule (number_of_nodes g) pi ->
    betweenness_centrality_arm (RayonAbort pi) lw g weighted normalized =
    betweenness_centrality_arm Serial lw g weighted normalized.
  Proof.
    intros pi lw g weighted normalized P. unfold betweenness_centrality_arm.
    destruct (conv_adj weighted (successors_vec g)) as [ad|]; [|reflexivity].
    destruct (adj_ok (number_of_nodes g) ad) eqn:Hok; cbn [negb]; [|reflexivity].
    rewrite bc_abort_eq_serial; [reflexivity|].
    unfold adj_ok in Hok. apply andb_true_iff in Hok. destruct Hok as [Hl _].
    apply Nat.eqb_eq in Hl. now rewrite Hl.
  Qed.

  Theorem betweenness_serial_is_model : forall lw (g : gstate) weighted normalized,
    betweenness_centrality_arm Serial lw g weighted normalized =
    betweenness_centrality lw g weighted normalized.
  Proof.
    intros. unfold betweenness_centrality_arm, betweenness_centrality.
    destruct (conv_adj weighted (successors_vec g)) as [ad|]; [|reflexivity].
    destruct (negb (adj_ok (number_of_nodes g) ad)); [reflexivity|].
    rewrite bc_serial_is_core. destruct (bc_core lw weighted ad); reflexivity.
  Qed.

  Theorem betweenness_sched_unobservable : forall threads pi lw (g : gstate) weighted normalized,
    schedule (number_of_nodes g) pi ->
    betweenness_centrality_sched threads pi lw g weighted normalized =
    betweenness_centrality lw g weighted normalized.
  Proof.
    intros threads pi lw g weighted normalized P. unfold betweenness_centrality_sched, cent_arm_of.
    destruct (cent_parallel g threads).
    - rewrite betweenness_parallel_eq_serial by exact P. apply betweenness_serial_is_model.
    - apply betweenness_serial_is_model.
  Qed.
End BetweennessArmsOk.

(* ------------------------------------------------------------------ closeness.rs *)
Section ClosenessArmsOk.
  Context {T A : Type}.
  Variable teqb : T -> T -> bool.
  Variable tltb : T -> T -> bool.
  Notation gstate := (gstate T A).

  (* the items are the node indices of `the_graph` (the reversed copy when directed) *)
  Definition closeness_schedule (g : gstate) (pi : list nat) : Prop :=
    forall tg, closeness_graph teqb tltb g = Ok tg -> schedule (number_of_nodes tg) pi.

  Theorem closeness_parallel_eq_serial : forall pi lw (g : gstate) weighted wf,
    closeness_schedule g pi ->
    closeness_centrality_arm teqb tltb (Rayon pi) lw g weighted wf =
    closeness_centrality_arm teqb tltb Serial lw g weighted wf.
  Proof.
    intros pi lw g weighted wf P. unfold closeness_centrality_arm. unfold closeness_schedule in P.
    destruct (closeness_graph teqb tltb g) as [tg| | |]; cbn [bind]; try reflexivity.
    destruct (conv_adj weighted (successors_vec tg)) as [ad|]; [|reflexivity].
    destruct (negb (adj_ok (number_of_nodes tg) ad)); [reflexivity|].
    apply loop_arm_par_eq_serial. rewrite seq_length. now apply P.
  Qed.

  (* the model of package B returns the (name, cc) pairs in index order; the arms insert
     them into the HashMap ([collect_map] = the sequential inserts) *)
  Theorem closeness_serial_is_model : forall lw (g : gstate) weighted wf,
    closeness_centrality_arm teqb tltb Serial lw g weighted wf =
    do l <- closeness_centrality teqb tltb lw g weighted wf; Ok (collect_map teqb l).
  Proof.
    intros. unfold closeness_centrality_arm, closeness_centrality, closeness_graph.
    destruct (if directed (sp g)
              then match reverse teqb tltb g with
                   | Ok r => Ok r
                   | Err _ => Panic "closeness.rs:55"
                   | Panic s => Panic s
                   | OutOfFuel => OutOfFuel
                   end
              else Ok g) as [tg| | |]; cbn [bind]; try reflexivity.
    destruct (conv_adj weighted (successors_vec tg)) as [ad|]; [|reflexivity].
    destruct (negb (adj_ok (number_of_nodes tg) ad)); [reflexivity|].
    cbn [loop_arm]. rewrite <- omapM_then_fold. reflexivity.
  Qed.

  Theorem closeness_sched_unobservable : forall threads pi lw (g : gstate) weighted wf,
    closeness_schedule g pi ->
    closeness_centrality_sched teqb tltb threads pi lw g weighted wf =
    do l <- closeness_centrality teqb tltb lw g weighted wf; Ok (collect_map teqb l).
  Proof.
    intros threads pi lw g weighted wf P. unfold closeness_centrality_sched, cent_arm_of.
    destruct (cent_parallel g threads).
    - rewrite closeness_parallel_eq_serial by exact P. apply closeness_serial_is_model.
    - apply closeness_serial_is_model.
  Qed.

  (* pessimistic failure rule: agreement as soon as the failing items fail alike *)
  Theorem closeness_abort_eq_serial : forall pi lw (g : gstate) weighted wf,
    closeness_schedule g pi ->
    (forall tg ad, closeness_graph teqb tltb g = Ok tg -> conv_adj weighted (successors_vec tg) = Some ad ->
       fail_alike (closeness_one lw weighted wf tg ad (number_of_nodes tg)) (seq 0 (number_of_nodes tg))) ->
    closeness_centrality_arm teqb tltb (RayonAbort pi) lw g weighted wf =
    closeness_centrality_arm teqb tltb Serial lw g weighted wf.
  Proof.
    intros pi lw g weighted wf P U. unfold closeness_centrality_arm. unfold closeness_schedule in P.
    destruct (closeness_graph teqb tltb g) as [tg| | |]; cbn [bind]; try reflexivity.
    destruct (conv_adj weighted (successors_vec tg)) as [ad|] eqn:Ec; [|reflexivity].
    destruct (negb (adj_ok (number_of_nodes tg) ad)); [reflexivity|].
    apply loop_arm_abort_eq_serial; [rewrite seq_length; now apply P | now apply U].
  Qed.

  (* undirected graphs: the loop runs on the graph itself *)
  Lemma closeness_schedule_undirected : forall (g : gstate) pi,
    directed (sp g) = false -> schedule (number_of_nodes g) pi -> closeness_schedule g pi.
  Proof.
    intros g pi Hd P tg H. unfold closeness_graph in H. rewrite Hd in H. inversion H; subst. exact P.
  Qed.
End ClosenessArmsOk.

(* on a coherent graph state the reversed copy has the same nodes, so the schedule is one of 0..n-1 *)
Section ClosenessWF.
  Context {T A : Type}.
  Variable teqb : T -> T -> bool.
  Variable tltb : T -> T -> bool.
  Hypothesis teqb_spec : forall x y, teqb x y = true <-> x = y.
  Hypothesis tltb_total : forall x y, tltb x y = false -> tltb y x = false -> x = y.

  Lemma closeness_schedule_WF : forall (g : gstate T A) pi,
    @WF T A teqb tltb g -> schedule (number_of_nodes g) pi -> closeness_schedule teqb tltb g pi.
  Proof.
    intros g pi W P tg H. unfold closeness_graph in H. destruct (directed (sp g)) eqn:Hd.
    - destruct (reverse_content teqb tltb teqb_spec tltb_total g W Hd) as (h & Hh & Hv & _).
      rewrite Hh in H. inversion H; subst tg. unfold number_of_nodes in *. now rewrite Hv.
    - inversion H; subst. exact P.
  Qed.

  Theorem closeness_parallel_eq_serial_WF : forall pi lw (g : gstate T A) weighted wf,
    @WF T A teqb tltb g -> schedule (number_of_nodes g) pi ->
    closeness_centrality_arm teqb tltb (Rayon pi) lw g weighted wf =
    closeness_centrality_arm teqb tltb Serial lw g weighted wf.
  Proof. intros. apply closeness_parallel_eq_serial. now apply closeness_schedule_WF. Qed.
End ClosenessWF.

(* ------------------------------------------------------------------ non-vacuity *)
(* a graph built by the transcribed constructor (4 nodes 5,3,7,1, positive weights), a
   schedule that is not the index order: every arm of every function computes the same *)
Example arms_agree_example :
  match ex_state with
  | Ok g =>
    schedule (number_of_nodes g) [3; 1; 0; 2] /\
    (exists r, all_pairs_arm Z.eqb (Rayon [3; 1; 0; 2]) g true None None false true = Ok r /\
               all_pairs_arm Z.eqb Serial g true None None false true = Ok r /\
               all_pairs_arm Z.eqb (RayonAbort [3; 1; 0; 2]) g true None None false true = Ok r /\
               length r = 4) /\
    (exists r, multi_source_arm Z.eqb (Rayon [1; 0]) g true [7%Z; 5%Z] None None false true = Ok r /\
               multi_source_arm Z.eqb Serial g true [7%Z; 5%Z] None None false true = Ok r /\ length r = 2) /\
    (exists r, get_all_shortest_paths_involving_arm Z.eqb (Rayon [3; 1; 0; 2]) g 3%Z true = Ok r /\
               get_all_shortest_paths_involving_arm Z.eqb Serial g 3%Z true = Ok r /\ length r = 4) /\
    (exists r, betweenness_centrality_arm (Rayon [3; 1; 0; 2]) false g true false = Ok r /\
               betweenness_centrality_arm Serial false g true false = Ok r /\ length r = 4) /\
    (exists r, closeness_centrality_arm Z.eqb Z.ltb (Rayon [3; 1; 0; 2]) false g true true = Ok r /\
               closeness_centrality_arm Z.eqb Z.ltb Serial false g true true = Ok r /\ length r = 4)
  | _ => False
  end.
Proof.
  vm_compute. split.
  - apply Permutation_sym.
    apply (perm_trans (l' := [1; 0; 2; 3])); [apply perm_swap|].
    apply (perm_trans (l' := [1; 0; 3; 2])); [do 2 constructor; apply perm_swap|].
    apply (perm_trans (l' := [1; 3; 0; 2])); [constructor; apply perm_swap|]. apply perm_swap.
  - repeat split; eexists; repeat split; reflexivity.
Qed.

(* failing items are covered: with a negative weight the per-source search of this graph from node 1
   returns ContradictoryPaths (F22's graph); the closure returns that `Err`, the region collects into
   `Result`, and all three arms of all_pairs / multi_source return Err ContradictoryPaths, whatever the
   schedule; get_all_shortest_paths_involving (no error channel) maps it to the empty vector in every arm *)
Example arms_agree_on_err :
  match ex_neg with
  | Ok g =>
    all_pairs_arm Z.eqb Serial g true None None false true = Err ContradictoryPaths /\
    all_pairs_arm Z.eqb (Rayon [0; 1; 2]) g true None None false true = Err ContradictoryPaths /\
    all_pairs_arm Z.eqb (Rayon [2; 0; 1]) g true None None false true = Err ContradictoryPaths /\
    all_pairs_arm Z.eqb (Rayon [2; 1; 0]) g true None None false true = Err ContradictoryPaths /\
    all_pairs_arm Z.eqb (RayonAbort [2; 0; 1]) g true None None false true = Err ContradictoryPaths /\
    all_pairs_arm Z.eqb (RayonAbort [1; 2; 0]) g true None None false true = Err ContradictoryPaths /\
    multi_source_arm Z.eqb (Rayon [2; 0; 1]) g true [2%Z; 1%Z; 3%Z] None None false true = Err ContradictoryPaths /\
    multi_source_arm Z.eqb Serial g true [2%Z; 1%Z; 3%Z] None None false true = Err ContradictoryPaths /\
    multi_source_arm Z.eqb (RayonAbort [2; 0; 1]) g true [2%Z; 1%Z; 3%Z] None None false true = Err ContradictoryPaths /\
    get_all_shortest_paths_involving_arm Z.eqb (Rayon [2; 0; 1]) g 3%Z true = Ok [] /\
    get_all_shortest_paths_involving_arm Z.eqb Serial g 3%Z true = Ok []
  | _ => False
  end.
Proof. vm_compute. repeat split. Qed.

(* the schedule hypothesis is needed: a list that misses an item is not an execution of the region *)
Example incomplete_schedule_differs :
  match ex_state with
  | Ok g => all_pairs_arm Z.eqb (Rayon [0; 1]) g true None None false true
            = Panic "rayon collect: a slot was not written"
  | _ => False
  end.
Proof. vm_compute. reflexivity. Qed.

(* the two failure rules differ exactly when two items fail differently: join's rule reports the
   failure of the lower index (= the serial loop), the pessimistic rule the one executed first *)
Example failure_rules_differ :
  let f := fun x : nat => match x with 0 => Panic "site A" | 1 => Panic "site B" | _ => Ok x end in
  gather_seq f [0; 1; 2] = Panic "site A" /\
  gather_par [1; 2; 0] f [0; 1; 2] = Panic "site A" /\
  run_plan (PFork 1 true PSeq PSeq) f [0; 1; 2] 0 3 = Panic "site A" /\
  gather_abort [1; 2; 0] f [0; 1; 2] = Panic "site B".
Proof. vm_compute. repeat split. Qed.

(* the Result-collecting region really is schedule dependent when the items return DIFFERENT errors
   (rayon: "If there are multiple errors, the one returned is not deterministic"): the error of the
   erring item that ran first is kept, the serial collect returns the one of the lowest index; an item
   that would have panicked is not even started once an error has been recorded.  This is why the
   per-function theorems need "the failing items fail alike" — which dijkstra.rs guarantees: after the
   up-front name checks the only per-source error is ContradictoryPaths. *)
Example result_region_keeps_some_error :
  let f := fun x : nat => match x with
                          | 0 => Err NodeNotFound | 1 => Err ContradictoryPaths | 3 => Panic "site C" | _ => Ok x
                          end in
  gather_seq f [0; 1; 2; 3] = Err NodeNotFound /\
  gather_result_par [0; 1; 2; 3] f [0; 1; 2; 3] = Err NodeNotFound /\
  gather_result_par [1; 2; 3; 0] f [0; 1; 2; 3] = Err ContradictoryPaths /\
  gather_result_par [2; 3; 1; 0] f [0; 1; 2; 3] = Panic "site C" /\
  gather_abort [1; 2; 3; 0] f [0; 1; 2; 3] = Err ContradictoryPaths /\
  (* ... and not when they fail alike *)
  (let h := fun x : nat => match x with 0 | 2 => Err ContradictoryPaths | _ => Ok x end in
   gather_seq h [0; 1; 2] = Err ContradictoryPaths /\
   gather_result_par [2; 1; 0] h [0; 1; 2] = Err ContradictoryPaths /\
   gather_result_par [1; 2; 0] h [0; 1; 2] = Err ContradictoryPaths).
Proof. vm_compute. repeat split. Qed.
