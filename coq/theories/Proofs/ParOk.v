(* C07: the result of the modelled rayon fragment does not depend on the
   schedule, and "gather in parallel, then combine sequentially in index order"
   equals the serial loop for ANY combine function (so also for a
   non-associative floating-point accumulation: the order of every sum is the
   same on both paths, which is what bit-for-bit equality needs). *)
From Coq Require Import String List Arith Lia Sorting.Permutation.
From GV Require Import Base.Outcome Model.Par.
Import ListNotations.

Section ParOk.
  Context {X Y : Type}.
  Variable f : X -> Y.

  Lemma write_length i (y : Y) s : length (write i y s) = length s.
  Proof.
    revert i. induction s as [|h t IH]; intros [|i]; cbn [write length]; auto.
  Qed.

  Lemma write_same i (y : Y) s : i < length s -> nth_error (write i y s) i = Some (Some y).
  Proof.
    revert i. induction s as [|h t IH]; intros [|i] H; cbn [length] in H; try lia;
      cbn [write nth_error]; auto. apply IH. lia.
  Qed.

  Lemma write_other i j (y : Y) s : i <> j -> nth_error (write i y s) j = nth_error s j.
  Proof.
    revert i j. induction s as [|h t IH]; intros [|i] [|j] H; cbn [write nth_error]; auto; try lia.
  Qed.

  Lemma exec_length xs s i : length (exec_item f xs s i) = length s.
  Proof. unfold exec_item. destruct (nth_error xs i); auto. apply write_length. Qed.

  Lemma fold_exec_length xs pi : forall s, length (fold_left (exec_item f xs) pi s) = length s.
  Proof.
    induction pi as [|a pi IH]; intros s; cbn [fold_left]; auto. now rewrite IH, exec_length.
  Qed.

  (* after executing the items of [pi], slot i holds f xs[i] as soon as i was
     executed at least once (or already held it) — later executions of other
     items do not disturb it, a re-execution of i rewrites the same value *)
  Lemma fold_exec_slot xs x i : nth_error xs i = Some x -> forall pi s,
    length s = length xs ->
    nth_error s i = Some (Some (f x)) \/ In i pi ->
    nth_error (fold_left (exec_item f xs) pi s) i = Some (Some (f x)).
  Proof.
    intros Hx. induction pi as [|a pi IH]; intros s Hl H; cbn [fold_left].
    - destruct H as [H | []]. exact H.
    - apply IH; [now rewrite exec_length|].
      destruct (Nat.eq_dec a i) as [-> | Na].
      + left. unfold exec_item. rewrite Hx. apply write_same.
        rewrite Hl. apply nth_error_Some. congruence.
      + destruct H as [H | [H | H]]; [left | congruence | now right].
        unfold exec_item. destruct (nth_error xs a); auto. now rewrite write_other.
  Qed.

  Lemma nth_error_ext {Z} (l l' : list Z) : (forall i, nth_error l i = nth_error l' i) -> l = l'.
  Proof.
    revert l'. induction l as [|a t IH]; intros [|b t'] H; auto.
    - specialize (H 0). discriminate.
    - specialize (H 0). discriminate.
    - f_equal; [specialize (H 0); now injection H|]. apply IH. intros i. apply (H (S i)).
  Qed.

  Lemma collect_all_some (l : list Y) : collect_slots (map Some l) = Ok l.
  Proof. induction l as [|y t IH]; cbn [map collect_slots]; auto. now rewrite IH. Qed.

  (* every schedule that executes every item (at least once) fills the slots with map f xs *)
  Lemma run_slots_complete pi xs :
    (forall i, i < length xs -> In i pi) -> run_slots pi f xs = map Some (map f xs).
  Proof.
    intros Hall. apply nth_error_ext. intros i. unfold run_slots.
    destruct (nth_error xs i) as [x|] eqn:Hx.
    - rewrite (fold_exec_slot xs x i Hx); [|now rewrite repeat_length|right; apply Hall; apply nth_error_Some; congruence].
      rewrite !nth_error_map, Hx. reflexivity.
    - assert (Hi : length xs <= i) by (now apply nth_error_None).
      rewrite (proj2 (nth_error_None _ _)); [|now rewrite fold_exec_length, repeat_length].
      rewrite (proj2 (nth_error_None _ _)); [reflexivity|now rewrite !map_length].
  Qed.

  (* THE schedule-independence theorem: for every schedule pi that is a
     permutation of the item indices, and every pure f *)
  Theorem run_par_schedule_independent pi xs :
    Permutation pi (seq 0 (length xs)) -> run_par pi f xs = Ok (map f xs).
  Proof.
    intros P. unfold run_par. rewrite run_slots_complete; [apply collect_all_some|].
    intros i Hi. apply (Permutation_in i (Permutation_sym P)). apply in_seq. lia.
  Qed.

  Corollary run_par_eq_run_seq pi xs :
    Permutation pi (seq 0 (length xs)) -> run_par pi f xs = run_seq f xs.
  Proof. intros P. now rewrite run_par_schedule_independent. Qed.

  Corollary run_par_two_schedules pi1 pi2 xs :
    Permutation pi1 (seq 0 (length xs)) -> Permutation pi2 (seq 0 (length xs)) ->
    run_par pi1 f xs = run_par pi2 f xs.
  Proof. intros P1 P2. now rewrite !run_par_schedule_independent. Qed.

  (* (a) gather, then post-process the whole vector sequentially *)
  Theorem par_then_post_eq_seq {R} (post : list Y -> R) pi xs :
    Permutation pi (seq 0 (length xs)) -> par_then_post post pi f xs = seq_then_post post f xs.
  Proof. intros P. unfold par_then_post, seq_then_post. now rewrite run_par_eq_run_seq. Qed.

  (* (b) gather, then fold sequentially in index order = the serial loop,
     for an arbitrary (possibly non-associative, non-commutative) combine *)
  Theorem par_then_fold_eq_serial_loop {A} (combine : A -> Y -> A) (init : A) pi xs :
    Permutation pi (seq 0 (length xs)) ->
    par_then_fold combine init pi f xs = serial_loop combine init f xs.
  Proof.
    intros P. unfold par_then_fold, serial_loop. rewrite run_par_schedule_independent by exact P.
    cbn [bind]. f_equal. clear P. revert init.
    induction xs as [|x t IH]; intros init; cbn [map fold_left]; auto.
  Qed.

  (* the hypothesis is not vacuous and the model does distinguish bad schedules *)
  Example schedule_example : Permutation [2; 0; 3; 1] (seq 0 (length [10; 20; 30; 40])).
  Proof.
    cbn. apply Permutation_sym.
    apply (perm_trans (l' := [0; 2; 1; 3])).
    - constructor. apply perm_swap.
    - apply (perm_trans (l' := [2; 0; 1; 3])); [apply perm_swap|].
      do 2 constructor. apply perm_swap.
  Qed.
End ParOk.

(* every fork-join plan, whichever half runs first at every split, is a schedule *)
Lemma plan_order_perm p : forall lo hi, lo <= hi -> Permutation (plan_order p lo hi) (seq lo (hi - lo)).
Proof.
  induction p as [|mid rf l IHl r IHr]; intros lo hi H; cbn [plan_order]; [apply Permutation_refl|].
  set (m := Nat.min hi (Nat.max lo mid)).
  assert (Hm : lo <= m <= hi) by (unfold m; lia).
  replace (hi - lo) with ((m - lo) + (hi - m)) by lia.
  rewrite seq_app. replace (lo + (m - lo)) with m by lia.
  destruct rf.
  - eapply perm_trans; [apply Permutation_app_comm|].
    apply Permutation_app; [apply IHl | apply IHr]; lia.
  - apply Permutation_app; [apply IHl | apply IHr]; lia.
Qed.

Theorem run_par_plan_independent {X Y} (f : X -> Y) (p : plan) (xs : list X) :
  run_par (plan_order p 0 (length xs)) f xs = Ok (map f xs).
Proof.
  apply run_par_schedule_independent.
  pose proof (plan_order_perm p 0 (length xs) (Nat.le_0_l _)) as H. now rewrite Nat.sub_0_r in H.
Qed.

Example plan_example :
  plan_order (PFork 2 true (PFork 1 false PSeq PSeq) (PFork 4 true PSeq PSeq)) 0 6 = [4; 5; 2; 3; 0; 1].
Proof. reflexivity. Qed.

Example incomplete_schedule_panics :
  run_par [0; 2] (fun x => x + 1) [10; 20; 30] = Panic "rayon collect: a slot was not written".
Proof. reflexivity. Qed.

Example any_order_same_result :
  run_par [2; 0; 1] (fun x => x * x) [3; 4; 5] = Ok [9; 16; 25] /\
  run_par [1; 2; 0] (fun x => x * x) [3; 4; 5] = Ok [9; 16; 25].
Proof. split; reflexivity. Qed.
