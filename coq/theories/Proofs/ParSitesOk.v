(* C07: the hypotheses of the schedule model (Model/Par.v, Proofs/ParOk.v) hold
   for every rayon call site of the CURRENT source tree: re-proved by
   vm_compute on Gen/ParSites.v, which tools/gen_parsites.py regenerates on
   every ./check run.  A `.reduce / .sum / .fold / .for_each / par_bridge`, an
   unindexed source, a collect into a HashMap (anything but a Vec or a
   Result<Vec<_>, E>), a Mutex / atomic in a closure,
   any `unsafe` or interior mutability in the crate, a new parallel function or
   a raised node-count threshold makes this file fail to compile. *)
From Coq Require Import String List Bool ZArith Arith.
From GV Require Import Spec.ParSiteDef Gen.ParSites.
Import ListNotations.
Open Scope string_scope.

Definition no_unsafe : bool := is_nil unsafe_hits.
Definition no_interior_mutability : bool := is_nil interior_mutability_hits.

(* the functions the property names (performance.md), by the site that serves them *)
Definition expected_site_fns : list string :=
  ["betweenness_centrality"; "closeness_centrality"; "all_pairs"; "multi_source"].
Definition expected_callers : list (string * string) :=
  [("get_all_shortest_paths_involving", "all_pairs")].

Definition string_list_eqb (a b : list string) : bool :=
  Nat.eqb (length a) (length b) && forallb (fun p => String.eqb (fst p) (snd p)) (combine a b).

Definition par_sites_check : bool :=
  String.eqb par_extractor_error "" &&
  Nat.ltb 0 par_files_scanned &&
  forallb site_ok par_sites &&
  no_unsafe && no_interior_mutability &&
  string_list_eqb (map ps_fn par_sites) expected_site_fns &&
  string_list_eqb (map fst par_callers) (map fst expected_callers) &&
  string_list_eqb (map snd par_callers) (map snd expected_callers) &&
  forallb (fun t => Z.leb (snd t) 20) par_thresholds &&
  string_list_eqb (map fst par_thresholds) ["all_pairs"; "betweenness_centrality"; "closeness_centrality"; "multi_source"].

Theorem par_sites_ok :
  forallb site_ok par_sites = true /\
  no_unsafe = true /\ no_interior_mutability = true /\
  map ps_fn par_sites = expected_site_fns /\
  par_callers = expected_callers /\
  Forall (fun t => (snd t <= 20)%Z) par_thresholds /\
  map fst par_thresholds = ["all_pairs"; "betweenness_centrality"; "closeness_centrality"; "multi_source"] /\
  par_extractor_error = "" /\ (0 < par_files_scanned)%nat.
Proof.
  split; [vm_compute; reflexivity|]. split; [vm_compute; reflexivity|].
  split; [vm_compute; reflexivity|]. split; [vm_compute; reflexivity|].
  split; [vm_compute; reflexivity|].
  split.
  { assert (H : forallb (fun t => Z.leb (snd t) 20) par_thresholds = true) by (vm_compute; reflexivity).
    rewrite forallb_forall in H. apply Forall_forall. intros t Ht. apply Z.leb_le. now apply H. }
  split; [vm_compute; reflexivity|]. split; [vm_compute; reflexivity|].
  apply Nat.ltb_lt. vm_compute. reflexivity.
Qed.

(* every extracted site is inside the modelled fragment *)
Theorem par_sites_modelled :
  forall s, In s par_sites ->
    exists k, site_shape s = ShapeIndexedMapCollect k \/ site_shape s = ShapeIndexedMapCollectResult k.
Proof.
  assert (H : forallb site_ok par_sites = true) by (vm_compute; reflexivity).
  rewrite forallb_forall in H. intros s Hs. unfold site_shape. rewrite (H s Hs).
  exists (length (ps_adaptors s)). destruct (ps_sink s); auto.
Qed.

(* which region each function uses — this is what Model/ParFns.v transcribes: the two centrality loops
   collect into a Vec ([loop_arm]: gather_par), all_pairs and multi_source collect `Result` items into
   `Result<Vec<_>, Error>` ([post_arm]: gather_result; since the repair of F22).  Fails to compile if the
   source and the transcription part ways (e.g. the `.unwrap()` inside the closures comes back). *)
Definition expected_site_shapes : list (string * par_shape) :=
  [("betweenness_centrality", ShapeIndexedMapCollect 1); ("closeness_centrality", ShapeIndexedMapCollect 1);
   ("all_pairs", ShapeIndexedMapCollectResult 1); ("multi_source", ShapeIndexedMapCollectResult 1)].

Theorem par_site_shapes : map (fun s => (ps_fn s, site_shape s)) par_sites = expected_site_shapes.
Proof. vm_compute. reflexivity. Qed.
