(* Proofs for C12 and the verified level checker of C13:
   - [is_partition_model] decides exactly "pairwise disjoint, only nodes, every node";
   - [modularity_abs] (the step-by-step computation of partitions.rs on the
     abstract graph) equals Newman's closed formula on the edge multiset;
   - [check_levels] is sound for [levels_ok]. *)
From Coq Require Import List Bool ZArith QArith Lia Lqa Permutation Setoid Morphisms.
From GV Require Import Base.Outcome Model.GState Model.Partition Spec.PartitionDef.
Import ListNotations.

Section PartitionOk.
  Context {T : Type}.
  Variable teqb : T -> T -> bool.
  Hypothesis teqb_spec : forall x y, teqb x y = true <-> x = y.

  Notation memb := (memb teqb).

  Lemma memb_In : forall x l, memb x l = true <-> In x l.
  Proof.
    intros x l. unfold PartitionDef.memb. rewrite existsb_exists. split.
    - intros [y [Hy He]]. apply teqb_spec in He. subst. exact Hy.
    - intros H. exists x. split; [exact H|]. apply teqb_spec. reflexivity.
  Qed.

  Lemma memb_false : forall x l, memb x l = false <-> ~ In x l.
  Proof.
    intros x l. rewrite <- memb_In. destruct (memb x l); split; intro H; congruence.
  Qed.

  Lemma teqb_refl : forall x, teqb x x = true.
  Proof. intro x. apply teqb_spec. reflexivity. Qed.

  Lemma teqb_false : forall x y, teqb x y = false <-> x <> y.
  Proof.
    intros x y. rewrite <- teqb_spec. destruct (teqb x y); split; intro H; congruence.
  Qed.

  (* ------------------------------------------------------------------ *)
  (* is_partition                                                        *)
  (* ------------------------------------------------------------------ *)

  Lemma scan_names_some : forall nodes names seen s,
    scan_names teqb nodes names seen = Some s ->
    s = rev names ++ seen /\ incl names nodes /\ NoDup names /\ (forall x, In x names -> ~ In x seen).
  Proof.
    intros nodes names. induction names as [|x t IH]; intros seen s H; cbn in H.
    - inversion H. subst. repeat split; try constructor; intros; try contradiction.
      intros y Hy. contradiction.
    - destruct (memb x nodes) eqn:Hn; cbn in H; [|discriminate].
      destruct (memb x seen) eqn:Hs; cbn in H; [discriminate|].
      apply IH in H. destruct H as [Hs' [Hi [Hnd Hd]]].
      apply memb_In in Hn. apply memb_false in Hs.
      split; [|split; [|split]].
      + subst s. cbn. rewrite <- app_assoc. reflexivity.
      + intros y [Hy|Hy]; [subst; exact Hn | apply Hi; exact Hy].
      + constructor; [|exact Hnd]. intro Hx. apply (Hd x Hx). left. reflexivity.
      + intros y [Hy|Hy]; [subst; exact Hs|]. intro Hys. apply (Hd y Hy). right. exact Hys.
  Qed.

  Lemma scan_names_complete : forall nodes names seen,
    incl names nodes -> NoDup names -> (forall x, In x names -> ~ In x seen) ->
    scan_names teqb nodes names seen = Some (rev names ++ seen).
  Proof.
    intros nodes names. induction names as [|x t IH]; intros seen Hi Hnd Hd; cbn.
    - reflexivity.
    - assert (Hn : memb x nodes = true) by (apply memb_In; apply Hi; left; reflexivity).
      assert (Hs : memb x seen = false) by (apply memb_false; apply Hd; left; reflexivity).
      rewrite Hn, Hs. cbn. inversion Hnd as [|? ? Hx Hnd']. subst.
      rewrite IH.
      + rewrite <- app_assoc. reflexivity.
      + intros y Hy. apply Hi. right. exact Hy.
      + exact Hnd'.
      + intros y Hy [Hys|Hys]; [subst; contradiction|]. apply (Hd y); [right; exact Hy | exact Hys].
  Qed.

  Lemma is_partition_model_char : forall nodes comms,
    is_partition_model teqb nodes comms = true <->
    (NoDup (concat comms) /\ incl (concat comms) nodes /\ length (concat comms) = length nodes).
  Proof.
    intros nodes comms. unfold is_partition_model. split.
    - destruct (scan_names teqb nodes (concat comms) []) as [s|] eqn:Hsc; [|discriminate].
      intro Hl. apply scan_names_some in Hsc. destruct Hsc as [Hs [Hi [Hnd _]]].
      apply Nat.eqb_eq in Hl. subst s. rewrite app_nil_r, rev_length in Hl. auto.
    - intros [Hnd [Hi Hl]]. rewrite scan_names_complete; auto.
      rewrite app_nil_r, rev_length. apply Nat.eqb_eq. exact Hl.
  Qed.

  Lemma NoDup_app_iff : forall (a b : list T),
    NoDup (a ++ b) <-> (NoDup a /\ NoDup b /\ (forall x, In x a -> ~ In x b)).
  Proof.
    induction a as [|y a' IH]; intro b; cbn.
    - split.
      + intro H. split; [constructor|]. split; [exact H|]. intros x Hx. contradiction.
      + intros [_ [H _]]. exact H.
    - split.
      + intro H. inversion H as [|? ? Hy Hnd]. subst. apply IH in Hnd. destruct Hnd as [Ha [Hb Hd]].
        split; [|split].
        * constructor; [|exact Ha]. intro Hin. apply Hy. apply in_or_app. left. exact Hin.
        * exact Hb.
        * intros x [Hx|Hx]; [subst; intro Hin; apply Hy; apply in_or_app; right; exact Hin|].
          apply Hd. exact Hx.
      + intros [Ha [Hb Hd]]. inversion Ha as [|? ? Hy Ha']. subst. constructor.
        * intro Hin. apply in_app_or in Hin. destruct Hin as [Hin|Hin]; [contradiction|].
          apply (Hd y (or_introl eq_refl)). exact Hin.
        * apply IH. split; [exact Ha'|]. split; [exact Hb|]. intros x Hx. apply Hd. right. exact Hx.
  Qed.

  Lemma NoDup_concat : forall comms : list (list T),
    Forall (@NoDup T) comms ->
    (NoDup (concat comms) <-> pairwise_disjoint comms).
  Proof.
    intros comms Hall. unfold pairwise_disjoint. induction comms as [|c t IH]; cbn.
    - split; intro; constructor.
    - inversion Hall as [|? ? Hc Ht]. subst. specialize (IH Ht). rewrite NoDup_app_iff. split.
      + intros [_ [Hnd Hd]]. constructor.
        * apply Forall_forall. intros d Hd' x Hxc Hxd. apply (Hd x Hxc).
          apply in_concat. exists d. split; assumption.
        * apply IH. exact Hnd.
      + intro Hp. inversion Hp as [|? ? Hfa Hp']. subst. split; [exact Hc|]. split.
        * apply IH. exact Hp'.
        * intros x Hxc Hin. apply in_concat in Hin. destruct Hin as [d [Hd Hxd]].
          rewrite Forall_forall in Hfa. exact (Hfa d Hd x Hxc Hxd).
  Qed.

  Theorem is_partition_model_correct : forall nodes comms,
    NoDup nodes -> Forall (@NoDup T) comms ->
    (is_partition_model teqb nodes comms = true <-> is_partition_spec nodes comms).
  Proof.
    intros nodes comms Hn Hc. rewrite is_partition_model_char. unfold is_partition_spec.
    rewrite <- (NoDup_concat comms Hc). split.
    - intros [Hnd [Hi Hl]]. split; [exact Hnd|]. split.
      + intros c x Hcin Hx. apply Hi. apply in_concat. exists c. split; assumption.
      + intros x Hx.
        assert (Hin : In x (concat comms)).
        { apply (@NoDup_length_incl T (concat comms) nodes Hnd); [lia | exact Hi | exact Hx]. }
        apply in_concat in Hin. destruct Hin as [c [Hc1 Hc2]]. exists c. split; assumption.
    - intros [Hnd [Hsub Hcov]].
      assert (Hi : incl (concat comms) nodes).
      { intros x Hx. apply in_concat in Hx. destruct Hx as [c [Hc1 Hc2]]. eapply Hsub; eassumption. }
      assert (Hi2 : incl nodes (concat comms)).
      { intros x Hx. destruct (Hcov x Hx) as [c [Hc1 Hc2]]. apply in_concat. exists c. split; assumption. }
      split; [exact Hnd|]. split; [exact Hi|].
      apply Nat.le_antisymm; apply NoDup_incl_length; assumption.
  Qed.

  (* ------------------------------------------------------------------ *)
  (* checker for levels                                                  *)
  (* ------------------------------------------------------------------ *)

  Lemma nodupb_NoDup : forall l, nodupb teqb l = true -> NoDup l.
  Proof.
    induction l as [|x t IH]; cbn; intro H; [constructor|].
    apply andb_true_iff in H. destruct H as [H1 H2]. constructor.
    - apply memb_false. apply negb_true_iff. exact H1.
    - apply IH. exact H2.
  Qed.

  Lemma subsetb_incl : forall a b, subsetb teqb a b = true -> incl a b.
  Proof.
    intros a b H x Hx. unfold subsetb in H. rewrite forallb_forall in H. apply memb_In. apply H. exact Hx.
  Qed.

  Lemma disjointb_spec : forall a b, disjointb teqb a b = true -> forall x, In x a -> ~ In x b.
  Proof.
    intros a b H x Hx. unfold disjointb in H. rewrite forallb_forall in H.
    apply memb_false. apply negb_true_iff. apply H. exact Hx.
  Qed.

  Lemma check_level_ok : forall nodes l,
    NoDup nodes -> check_level teqb nodes l = true -> level_ok nodes l.
  Proof.
    intros nodes l Hn H. unfold check_level in H.
    apply andb_true_iff in H. destruct H as [H H3].
    apply andb_true_iff in H. destruct H as [H1 H2].
    assert (Hall : Forall (@NoDup T) l).
    { apply Forall_forall. intros c Hc. apply nodupb_NoDup. rewrite forallb_forall in H1. apply H1. exact Hc. }
    split.
    - apply is_partition_model_correct; assumption.
    - apply Forall_forall. intros c Hc. rewrite forallb_forall in H3. specialize (H3 c Hc).
      destruct c; [discriminate|]. discriminate.
  Qed.

  Lemma check_coarsening_ok : forall nodes prev next,
    is_partition_spec nodes prev -> is_partition_spec nodes next ->
    check_coarsening teqb prev next = true -> coarsening prev next.
  Proof.
    intros nodes prev next [_ [_ Hcov]] [_ [Hsub _]] H c Hc.
    unfold check_coarsening in H. rewrite forallb_forall in H. specialize (H c Hc).
    rewrite forallb_forall in H.
    exists (filter (fun d => subsetb teqb d c) prev). split.
    - intros d Hd. apply filter_In in Hd. tauto.
    - intro x. split.
      + intro Hx. destruct (Hcov x (Hsub c x Hc Hx)) as [d [Hd Hxd]].
        specialize (H d Hd). apply orb_true_iff in H. destruct H as [H|H].
        * apply in_concat. exists d. split; [|exact Hxd]. apply filter_In. split; assumption.
        * exfalso. exact (disjointb_spec d c H x Hxd Hx).
      + intro Hx. apply in_concat in Hx. destruct Hx as [d [Hd Hxd]].
        apply filter_In in Hd. destruct Hd as [_ Hs]. exact (subsetb_incl d c Hs x Hxd).
  Qed.

  Theorem check_levels_sound : forall nodes levels,
    check_levels teqb nodes levels = true -> levels_ok nodes levels.
  Proof.
    intros nodes levels H. unfold check_levels in H.
    apply andb_true_iff in H. destruct H as [H Hch].
    apply andb_true_iff in H. destruct H as [H Hlv].
    apply andb_true_iff in H. destruct H as [Hne Hnd].
    apply nodupb_NoDup in Hnd.
    assert (Hall : Forall (level_ok nodes) levels).
    { apply Forall_forall. intros l Hl. apply check_level_ok; [exact Hnd|].
      rewrite forallb_forall in Hlv. apply Hlv. exact Hl. }
    split; [|split].
    - destruct levels; [discriminate | discriminate].
    - exact Hall.
    - clear Hne Hlv. induction levels as [|a t IH]; [exact I|].
      cbn in Hch |- *. destruct t as [|b t']; [exact I|].
      apply andb_true_iff in Hch. destruct Hch as [Hc1 Hc2].
      inversion Hall as [|? ? Ha Ht]. subst. inversion Ht as [|? ? Hb _]. subst.
      split.
      + eapply check_coarsening_ok; [exact (proj1 Ha) | exact (proj1 Hb) | exact Hc1].
      + apply IH; assumption.
  Qed.

  (* ------------------------------------------------------------------ *)
  (* modularity                                                          *)
  (* ------------------------------------------------------------------ *)

  Notation wedge := (@wedge T).

  Lemma qsum_ext : forall {X} (f g : X -> Q) l,
    (forall x, In x l -> f x == g x) -> qsum (map f l) == qsum (map g l).
  Proof.
    intros X f g l. induction l as [|x t IH]; intro H; cbn; [reflexivity|].
    rewrite (H x (or_introl eq_refl)). rewrite IH; [reflexivity|].
    intros y Hy. apply H. right. exact Hy.
  Qed.

  Lemma wsel_cons : forall p (e : wedge) es,
    wsel p (e :: es) = if p e then ww e + wsel p es else wsel p es.
  Proof. intros p e es. unfold wsel. cbn. destruct (p e); reflexivity. Qed.

  Lemma wsel_ext : forall p q (es : list wedge),
    (forall e, In e es -> p e = q e) -> wsel p es == wsel q es.
  Proof.
    intros p q es. induction es as [|e t IH]; intro H; [reflexivity|].
    rewrite !wsel_cons. rewrite <- (H e (or_introl eq_refl)).
    assert (IH' := IH (fun x Hx => H x (or_intror Hx))).
    destruct (p e); [rewrite IH'; reflexivity | exact IH'].
  Qed.

  Lemma wsel_all : forall p (es : list wedge),
    (forall e, In e es -> p e = true) -> wsel p es == total_w es.
  Proof.
    intros p es. induction es as [|e t IH]; intro H; [reflexivity|].
    rewrite wsel_cons. rewrite (H e (or_introl eq_refl)). unfold total_w. cbn.
    rewrite IH; [reflexivity|]. intros x Hx. apply H. right. exact Hx.
  Qed.

  Lemma wsel_none : forall (es : list wedge), wsel (fun _ => false) es == 0.
  Proof. induction es as [|e t IH]; [reflexivity|]. rewrite wsel_cons. exact IH. Qed.

  (* inclusion-exclusion over the edge list *)
  Lemma wsel_or_and : forall p q (es : list wedge),
    wsel (fun e => p e || q e) es + wsel (fun e => p e && q e) es == wsel p es + wsel q es.
  Proof.
    intros p q es. induction es as [|e t IH]; [reflexivity|].
    rewrite !wsel_cons. destruct (p e), (q e); cbn; lra.
  Qed.

  Lemma wsel_or_disjoint : forall p q (es : list wedge),
    (forall e, In e es -> p e = true -> q e = false) ->
    wsel (fun e => p e || q e) es == wsel p es + wsel q es.
  Proof.
    intros p q es H. rewrite <- wsel_or_and.
    assert (Hz : wsel (fun e => p e && q e) es == 0).
    { rewrite <- (wsel_none es). apply wsel_ext. intros e He.
      destruct (p e) eqn:Hp; [|reflexivity]. cbn. apply H; assumption. }
    rewrite Hz. ring.
  Qed.

  (* exchanging the sum over the members of a community with the sum over edges *)
  Lemma sum_over_members : forall (f : wedge -> T) (es : list wedge) c,
    NoDup c ->
    qsum (map (fun x => wsel (fun e => teqb (f e) x) es) c) == wsel (fun e => memb (f e) c) es.
  Proof.
    intros f es c. induction c as [|x c' IH]; intro Hnd; cbn [map qsum].
    - symmetry. apply wsel_none.
    - inversion Hnd as [|? ? Hx Hnd']. subst. rewrite (IH Hnd').
      rewrite <- wsel_or_disjoint.
      + apply wsel_ext. intros e _. reflexivity.
      + intros e _ He. apply teqb_spec in He. subst x. apply memb_false. exact Hx.
  Qed.

  Lemma und_deg_split : forall (es : list wedge) x,
    und_deg teqb es x == out_deg teqb es x + in_deg teqb es x.
  Proof. intros es x. unfold und_deg, out_deg, in_deg. apply wsel_or_and. Qed.

  Lemma qsum_plus : forall {X} (f g : X -> Q) l,
    qsum (map (fun x => f x + g x) l) == qsum (map f l) + qsum (map g l).
  Proof.
    intros X f g l. induction l as [|x t IH]; cbn; [reflexivity|]. rewrite IH. ring.
  Qed.

  Lemma sum_out_deg : forall (es : list wedge) c, NoDup c ->
    qsum (map (out_deg teqb es) c) == Kout_of teqb es c.
  Proof. intros es c H. unfold out_deg, Kout_of. apply (sum_over_members (@wu T)). exact H. Qed.

  Lemma sum_in_deg : forall (es : list wedge) c, NoDup c ->
    qsum (map (in_deg teqb es) c) == Kin_of teqb es c.
  Proof. intros es c H. unfold in_deg, Kin_of. apply (sum_over_members (@wv T)). exact H. Qed.

  Lemma sum_und_deg : forall (es : list wedge) c, NoDup c ->
    qsum (map (und_deg teqb es) c) == K_of teqb es c.
  Proof.
    intros es c H. unfold K_of. rewrite <- sum_out_deg, <- sum_in_deg by exact H.
    rewrite <- qsum_plus. apply qsum_ext. intros x _. apply und_deg_split.
  Qed.

  (* handshake: the degree sums over all nodes *)
  Lemma Kout_all : forall nodes (es : list wedge),
    (forall e, In e es -> In (wu e) nodes) -> Kout_of teqb es nodes == total_w es.
  Proof. intros nodes es H. apply wsel_all. intros e He. apply memb_In. apply H. exact He. Qed.

  Lemma Kin_all : forall nodes (es : list wedge),
    (forall e, In e es -> In (wv e) nodes) -> Kin_of teqb es nodes == total_w es.
  Proof. intros nodes es H. apply wsel_all. intros e He. apply memb_In. apply H. exact He. Qed.

  Theorem modularity_abs_newman : forall directed nodes (es : list wedge) gamma comms,
    NoDup nodes ->
    (forall e, In e es -> In (wu e) nodes /\ In (wv e) nodes) ->
    Forall (@NoDup T) comms ->
    modularity_abs teqb directed nodes es gamma comms == newman teqb directed es gamma comms.
  Proof.
    intros directed nodes es gamma comms Hn He Hc.
    assert (Hu : forall e, In e es -> In (wu e) nodes) by (intros e H; apply (He e H)).
    assert (Hv : forall e, In e es -> In (wv e) nodes) by (intros e H; apply (He e H)).
    unfold modularity_abs, newman. destruct directed.
    - apply qsum_ext. intros c Hcin. rewrite Forall_forall in Hc. specialize (Hc c Hcin).
      rewrite (sum_out_deg es nodes Hn), (Kout_all nodes es Hu).
      rewrite (sum_out_deg es c Hc), (sum_in_deg es c Hc).
      unfold L_of, subgraph_edges, total_w, wsel. unfold Qdiv.
      rewrite Qinv_mult_distr. ring.
    - apply qsum_ext. intros c Hcin. rewrite Forall_forall in Hc. specialize (Hc c Hcin).
      rewrite (sum_und_deg es nodes Hn). unfold K_of at 1 2 3.
      rewrite (Kout_all nodes es Hu), (Kin_all nodes es Hv).
      rewrite (sum_und_deg es c Hc).
      unfold L_of, subgraph_edges, total_w, wsel. unfold Qdiv.
      set (m := qsum (map (@ww T) es)).
      assert (E1 : (m + m) * / 2 == m) by field.
      assert (E2 : m + m == 2 * m) by ring.
      rewrite E1. rewrite E2. ring.
  Qed.
  Lemma not_partition_rejected : forall nodes comms,
    NoDup nodes -> Forall (@NoDup T) comms ->
    ~ is_partition_spec nodes comms -> is_partition_model teqb nodes comms = false.
  Proof.
    intros nodes comms Hn Hc H. destruct (is_partition_model teqb nodes comms) eqn:E; [|reflexivity].
    exfalso. apply H. apply is_partition_model_correct; assumption.
  Qed.

  Lemma modularity_abs_of_partition : forall directed nodes (es : list wedge) gamma comms,
    NoDup nodes ->
    (forall e, In e es -> In (wu e) nodes /\ In (wv e) nodes) ->
    Forall (@NoDup T) comms ->
    is_partition_model teqb nodes comms = true ->
    0 < total_w es ->
    modularity_abs teqb directed nodes es gamma comms ==
    qsum (map (fun c =>
                 if directed
                 then L_of teqb es c / total_w es
                      - gamma * (Kout_of teqb es c * Kin_of teqb es c) / (total_w es * total_w es)
                 else L_of teqb es c / total_w es
                      - gamma * ((K_of teqb es c / (2 * total_w es)) * (K_of teqb es c / (2 * total_w es))))
              comms).
  Proof. intros. apply modularity_abs_newman; assumption. Qed.
End PartitionOk.

Lemma modularity_rejects : forall (T A : Type) (teqb tltb : T -> T -> bool) (g : gstate T A) comms weighted r,
  is_partition teqb g comms = Ok false ->
  modularity teqb tltb g comms weighted r = Err NotAPartition.
Proof. intros T A teqb tltb g comms weighted r H. unfold modularity. rewrite H. reflexivity. Qed.

(* ---- the hypotheses of the theorems above are satisfiable; small evaluated instances ---- *)
Lemma Zeqb_spec : forall x y : Z, Z.eqb x y = true <-> x = y.
Proof. intros. apply Z.eqb_eq. Qed.

Example is_partition_model_nonvacuous :
  NoDup [1; 2; 3]%Z /\ Forall (@NoDup Z) [[1; 2]; [3]]%Z /\
  is_partition_model Z.eqb [1; 2; 3]%Z [[1; 2]; [3]]%Z = true /\
  (* the family on which the member counts cancel (F8) is rejected *)
  is_partition_model Z.eqb [1; 2; 3]%Z [[1; 2]; [2]]%Z = false /\
  is_partition_model Z.eqb [1; 2; 3]%Z [[1; 2]; [7]]%Z = false.
Proof.
  split; [repeat constructor; cbn; intuition discriminate|].
  split; [repeat constructor; cbn; intuition discriminate|].
  vm_compute. repeat split.
Qed.

(* the path 1 - 2 - 3 with communities {1,2},{3}: Q = -1/8 *)
Example modularity_abs_path :
  modularity_abs Z.eqb false [1; 2; 3]%Z [((1, 2)%Z, 1%Q); ((2, 3)%Z, 1%Q)] 1 [[1; 2]; [3]]%Z == - (1 # 8) /\
  newman Z.eqb false [((1, 2)%Z, 1%Q); ((2, 3)%Z, 1%Q)] 1 [[1; 2]; [3]]%Z == - (1 # 8).
Proof. split; vm_compute; reflexivity. Qed.

Example check_levels_nonvacuous :
  check_levels Z.eqb [1; 2; 3; 4]%Z [[[1]; [2; 3]; [4]]; [[1; 2; 3]; [4]]]%Z = true /\
  check_levels Z.eqb [1; 2; 3; 4]%Z [[[1; 2]; [3; 4]]; [[1; 3]; [2; 4]]]%Z = false.
Proof. vm_compute. split; reflexivity. Qed.
