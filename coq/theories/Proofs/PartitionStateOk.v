(* C12, deepening: the state-level transcription of is_partition (Model/Partition.v, reading
   nodes_map / nodes_map_rev through get_node) computes the list-level test the theorems are
   about, for every state whose node indexes are coherent with its node list.  Coherence is a
   checkable predicate ([nodes_coherentb]); the correspondence run evaluates it on every case.
   (That every state reached through the public API is coherent is the invariant of C01/C02.) *)
From Coq Require Import String List Bool ZArith NArith Arith QArith Lia Permutation.
From GV Require Import Base.Outcome Base.AMap Model.GState Model.Creation Model.Query Model.Partition
     Spec.PartitionDef Proofs.PartitionOk.
Import ListNotations.

Section PartitionState.
  Context {T A : Type}.
  Variable teqb : T -> T -> bool.
  Hypothesis teqb_spec : forall x y, teqb x y = true <-> x = y.
  Notation gstate := (gstate T A).
  Notation memb := (PartitionDef.memb teqb).

  Definition names_of (g : gstate) : list T := map nname (nodes_vec g).

  (* the name index and the reverse index describe exactly the nodes of nodes_vec *)
  Definition nodes_coherent (g : gstate) : Prop :=
    (forall x, In x (map fst (nodes_map g)) <-> In x (names_of g)) /\
    (forall x i, lookup teqb x (nodes_map g) = Some i -> lookup Nat.eqb i (nodes_map_rev g) <> None).

  Definition nodes_coherentb (g : gstate) : bool :=
    subsetb teqb (map fst (nodes_map g)) (names_of g) &&
    subsetb teqb (names_of g) (map fst (nodes_map g)) &&
    forallb (fun kv => match lookup Nat.eqb (snd kv) (nodes_map_rev g) with Some _ => true | None => false end)
            (nodes_map g).

  Lemma lookup_In : forall (m : list (T * nat)) x i, lookup teqb x m = Some i -> exists k, In (k, i) m /\ teqb x k = true.
  Proof.
    induction m as [|[k v] t IH]; intros x i H; cbn in H; [discriminate|].
    destruct (teqb x k) eqn:E.
    - inversion H. subst. exists k. split; [left; reflexivity | exact E].
    - destruct (IH x i H) as [k' [Hin Hk]]. exists k'. split; [right; exact Hin | exact Hk].
  Qed.

  Lemma lookup_first : forall (m : list (T * nat)) x i, lookup teqb x m = Some i -> In (x, i) m.
  Proof.
    intros m x i H. destruct (lookup_In m x i H) as [k [Hin Hk]]. apply teqb_spec in Hk. subst. exact Hin.
  Qed.

  Lemma nodes_coherentb_sound : forall g, nodes_coherentb g = true -> nodes_coherent g.
  Proof.
    intros g H. unfold nodes_coherentb in H.
    apply andb_true_iff in H. destruct H as [H H3]. apply andb_true_iff in H. destruct H as [H1 H2].
    split.
    - intro x. split; [apply (subsetb_incl teqb teqb_spec _ _ H1) | apply (subsetb_incl teqb teqb_spec _ _ H2)].
    - intros x i Hl. apply lookup_first in Hl. rewrite forallb_forall in H3. specialize (H3 _ Hl). cbn in H3.
      destruct (lookup Nat.eqb i (nodes_map_rev g)); [discriminate | discriminate].
  Qed.

  Lemma contains_key_In : forall (m : list (T * nat)) x, contains_key teqb x m = true <-> In x (map fst m).
  Proof.
    intros m x. unfold contains_key. induction m as [|[k v] t IH]; cbn.
    - split; [discriminate | contradiction].
    - destruct (teqb x k) eqn:E.
      + split; [intros _; left; apply teqb_spec in E; congruence | reflexivity].
      + rewrite IH. split; [intro H; right; exact H|].
        intros [H|H]; [|exact H]. subst. rewrite (teqb_refl teqb teqb_spec) in E. discriminate.
  Qed.

  (* get_node on a coherent state: Some exactly for the names of the node list, never a panic *)
  Lemma get_node_coherent : forall g x, nodes_coherent g ->
    exists r, get_node teqb g x = Ok r /\ ((exists n, r = Some n) <-> In x (names_of g)).
  Proof.
    intros g x [Hk Hr]. unfold get_node.
    destruct (contains_key teqb x (nodes_map g)) eqn:Ec.
    - assert (Hin : In x (names_of g)) by (apply Hk; apply contains_key_In; exact Ec).
      unfold get_node_index. unfold contains_key in Ec.
      destruct (lookup teqb x (nodes_map g)) as [i|] eqn:El; [|discriminate].
      unfold get_node_by_index. specialize (Hr x i El).
      destruct (lookup Nat.eqb i (nodes_map_rev g)) as [n|] eqn:En; [|contradiction].
      exists (Some n). split; [reflexivity|]. split; [intros _; exact Hin | intros _; exists n; reflexivity].
    - exists None. split; [reflexivity|]. split.
      + intros [n Hn]. discriminate.
      + intro Hin. apply Hk in Hin. apply contains_key_In in Hin. congruence.
  Qed.

  Lemma mem_memb : forall x l, mem teqb x l = memb x l.
  Proof. reflexivity. Qed.

  (* the two scans agree: the state-level one appends to its set, the list-level one conses *)
  Lemma scans_agree : forall g, nodes_coherent g -> forall names s1 s2,
    Permutation s1 s2 ->
    match is_partition_scan teqb g names s1, scan_names teqb (names_of g) names s2 with
    | Ok (Some r1), Some r2 => Permutation r1 r2
    | Ok None, None => True
    | _, _ => False
    end.
  Proof.
    intros g Hc names. induction names as [|x t IH]; intros s1 s2 HP; cbn [is_partition_scan scan_names].
    - exact HP.
    - destruct (get_node_coherent g x Hc) as [r [Hg Hr]]. rewrite Hg. cbn [bind].
      destruct r as [n|].
      + assert (Hin : In x (names_of g)) by (apply Hr; exists n; reflexivity).
        apply (memb_In teqb teqb_spec) in Hin. rewrite Hin. cbn [negb orb].
        assert (Hm : mem teqb x s1 = memb x s2).
        { rewrite mem_memb. destruct (memb x s2) eqn:E2.
          - apply (memb_In teqb teqb_spec). apply (memb_In teqb teqb_spec) in E2.
            eapply Permutation_in; [symmetry; exact HP | exact E2].
          - apply (memb_false teqb teqb_spec). apply (memb_false teqb teqb_spec) in E2.
            intro H. apply E2. eapply Permutation_in; [exact HP | exact H]. }
        rewrite Hm. destruct (memb x s2) eqn:E2; [exact I|].
        apply IH. unfold set_add. rewrite Hm.
        apply Permutation_trans with (x :: s1); [apply Permutation_sym; apply Permutation_cons_append|].
        constructor. exact HP.
      + assert (Hnin : memb x (names_of g) = false).
        { apply (memb_false teqb teqb_spec). intro H. apply Hr in H. destruct H as [n Hn]. discriminate. }
        rewrite Hnin. cbn [negb orb]. exact I.
  Qed.

  Theorem is_partition_state_eq : forall g comms, nodes_coherent g ->
    is_partition teqb g comms = Ok (is_partition_model teqb (names_of g) comms).
  Proof.
    intros g comms Hc. unfold is_partition, is_partition_model.
    pose proof (scans_agree g Hc (concat comms) [] [] (Permutation_refl _)) as H.
    destruct (is_partition_scan teqb g (concat comms) []) as [[r1|]| | |];
      destruct (scan_names teqb (names_of g) (concat comms) []) as [r2|]; try contradiction; cbn [bind].
    - unfold get_all_nodes, names_of. rewrite map_length. rewrite (Permutation_length H). reflexivity.
    - reflexivity.
  Qed.

  (* hence, on coherent states, the state-level test decides the definition *)
  Corollary is_partition_state_correct : forall g comms,
    nodes_coherent g -> NoDup (names_of g) -> Forall (@NoDup T) comms ->
    (is_partition teqb g comms = Ok true <-> is_partition_spec (names_of g) comms).
  Proof.
    intros g comms Hc Hn Hcs. rewrite (is_partition_state_eq g comms Hc).
    rewrite <- (is_partition_model_correct teqb teqb_spec _ _ Hn Hcs).
    split; [intro H; inversion H; reflexivity | intro H; rewrite H; reflexivity].
  Qed.
End PartitionState.

(* the hypotheses are satisfiable: a state built by new_from_nodes_and_edges is coherent *)
Example nodes_coherent_nonvacuous :
  match new_from_nodes_and_edges Z.eqb Z.ltb
          [mknode 3%Z (None : option Z); mknode 1%Z None; mknode 2%Z None]
          [mkedge 3%Z 1%Z None None; mkedge 1%Z 2%Z None None]
          (mkspecs false DErr MCreate false true SErr) with
  | Ok g => nodes_coherentb Z.eqb g = true /\ is_partition Z.eqb g [[1]; [3; 2]]%Z = Ok true /\
            is_partition Z.eqb g [[1; 3]; [3]]%Z = Ok false
  | _ => False
  end.
Proof. vm_compute. repeat split. Qed.
