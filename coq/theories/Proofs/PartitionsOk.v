(* C10: structure of bfs_equal_size_partitions (Model/Components.v), for every graph
   state and every k >= 1, for every run that returns: exactly k parts, every node index
   in exactly one part, no part larger than n/k + 1. *)
From Coq Require Import String List Bool Arith Lia Permutation.
From GV Require Import Base.Outcome Base.AMap Model.GState Model.Creation Model.Query Model.Components.
Import ListNotations.

(* ---------------- set_nth ---------------- *)
Lemma set_nth_split : forall {X} (l : list X) j q l',
  set_nth j q l = Some l' ->
  exists l1 p l2, l = l1 ++ p :: l2 /\ l' = l1 ++ q :: l2 /\ length l1 = j.
Proof.
  intros X. induction l as [ | h t IH ]; intros j q l' H.
  - destruct j; cbn in H; discriminate.
  - destruct j as [ | j ]; cbn [set_nth] in H.
    + inversion H; subst. exists [], h, t. auto.
    + destruct (set_nth j q t) as [t' | ] eqn:E; [ | discriminate]. inversion H; subst.
      destruct (IH _ _ _ E) as [l1 [p [l2 [H1 [H2 H3]]]]]. subst.
      exists (h :: l1), p, l2. cbn. auto.
Qed.

Lemma nth_error_split : forall {X} (l1 : list X) p l2, nth_error (l1 ++ p :: l2) (length l1) = Some p.
Proof. intros X l1 p l2. rewrite nth_error_app2 by lia. rewrite Nat.sub_diag. reflexivity. Qed.

Lemma nth_error_set_nth : forall {X} (l : list X) j q l' i,
  set_nth j q l = Some l' -> nth_error l' i = if Nat.eqb i j then Some q else nth_error l i.
Proof.
  intros X l j q l' i H. destruct (set_nth_split _ _ _ _ H) as [l1 [p [l2 [H1 [H2 H3]]]]]. subst.
  destruct (Nat.eqb i (length l1)) eqn:E.
  - apply Nat.eqb_eq in E. subst. apply nth_error_split.
  - apply Nat.eqb_neq in E. destruct (Nat.lt_ge_cases i (length l1)).
    + rewrite !nth_error_app1 by lia. reflexivity.
    + rewrite !nth_error_app2 by lia. destruct (i - length l1) as [ | m ] eqn:Em; [lia | reflexivity].
Qed.

Lemma set_nth_length : forall {X} (l : list X) j q l', set_nth j q l = Some l' -> length l' = length l.
Proof.
  intros X l j q l' H. destruct (set_nth_split _ _ _ _ H) as [l1 [p [l2 [H1 [H2 H3]]]]]. subst.
  rewrite !app_length. reflexivity.
Qed.

Lemma concat_set_nth_perm : forall (l : list (list nat)) j p c l',
  nth_error l j = Some p -> set_nth j (p ++ [c]) l = Some l' ->
  Permutation (concat l') (c :: concat l).
Proof.
  intros l j p c l' Hn H. destruct (set_nth_split _ _ _ _ H) as [l1 [p0 [l2 [H1 [H2 H3]]]]]. subst.
  rewrite nth_error_split in Hn. inversion Hn; subst p0.
  rewrite !concat_app. cbn [concat].
  symmetry. transitivity (concat l1 ++ c :: p ++ concat l2).
  - apply Permutation_middle.
  - apply Permutation_app_head. rewrite <- app_assoc. cbn [app]. apply Permutation_middle.
Qed.

Section Partitions.
  Context {T A : Type}.
  Notation gstate := (gstate T A).
  Variable g : gstate.
  Variables k n maxsz : nat.
  Hypothesis maxsz_pos : 1 <= maxsz.

  Record pinv (st : pstate) : Prop := {
    P1 : length (p_parts st) = k;
    P2 : length (p_visited st) = n;
    P3 : NoDup (concat (p_parts st));
    P4 : forall i, In i (concat (p_parts st)) <-> nth_error (p_visited st) i = Some true;
    P5 : p_count st = length (concat (p_parts st));
    P6 : Forall (fun p => length p <= maxsz) (p_parts st);
    P8 : forall j p, p_part st < j -> nth_error (p_parts st) j = Some p -> p = []
  }.

  (* the part being filled is not full *)
  Definition cur_open (st : pstate) : Prop :=
    forall p, nth_error (p_parts st) (p_part st) = Some p -> length p < maxsz.

  Lemma push_inv : forall st cur vis' p parts' q,
    pinv st -> cur_open st ->
    nth_error (p_visited st) cur = Some false ->
    set_nth cur true (p_visited st) = Some vis' ->
    nth_error (p_parts st) (p_part st) = Some p ->
    set_nth (p_part st) (p ++ [cur]) (p_parts st) = Some parts' ->
    pinv (mkp vis' parts' (p_part st) (S (p_count st)) q).
  Proof.
    intros st cur vis' p parts' q [I1 I2 I3 I4 I5 I6 I8] Hopen Hv Hsv Hp Hsp.
    pose proof (concat_set_nth_perm _ _ _ _ _ Hp Hsp) as Hperm.
    assert (Hnot : ~ In cur (concat (p_parts st))).
    { intros Hin. apply I4 in Hin. congruence. }
    constructor; cbn [p_parts p_visited p_part p_count].
    - rewrite (set_nth_length _ _ _ _ Hsp). exact I1.
    - rewrite (set_nth_length _ _ _ _ Hsv). exact I2.
    - apply (Permutation_NoDup (l := cur :: concat (p_parts st))); [symmetry; exact Hperm | ].
      constructor; assumption.
    - intros i. rewrite (nth_error_set_nth _ _ _ _ i Hsv). split.
      + intros Hi. apply (Permutation_in _ Hperm) in Hi. destruct (Nat.eqb i cur) eqn:E; [reflexivity | ].
        apply Nat.eqb_neq in E. destruct Hi as [Hi | Hi]; [congruence | apply I4; exact Hi].
      + intros Hi. apply (Permutation_in _ (Permutation_sym Hperm)).
        destruct (Nat.eqb i cur) eqn:E.
        * apply Nat.eqb_eq in E. left. congruence.
        * right. apply I4. exact Hi.
    - rewrite (Permutation_length Hperm). cbn [length]. rewrite I5. reflexivity.
    - destruct (set_nth_split _ _ _ _ Hsp) as [l1 [p0 [l2 [H1 [H2 H3]]]]]. rewrite H2. rewrite H1 in I6.
      apply Forall_app in I6. destruct I6 as [F1 F2]. inversion F2; subst.
      apply Forall_app. split; [assumption | ]. constructor; [ | assumption].
      rewrite app_length. cbn [length]. specialize (Hopen p Hp). lia.
    - intros j p' Hj Hn. rewrite (nth_error_set_nth _ _ _ _ j Hsp) in Hn.
      destruct (Nat.eqb j (p_part st)) eqn:E; [apply Nat.eqb_eq in E; lia | ].
      apply (I8 j p' Hj Hn).
  Qed.

  Lemma part_inner_inv : forall fuel st st',
    part_inner fuel g maxsz st = Ok st' ->
    pinv st -> cur_open st ->
    pinv st' /\ p_part st' = p_part st.
  Proof.
    induction fuel as [ | f IH ]; intros st st' H Hinv Hopen; cbn [part_inner] in H; [discriminate | ].
    destruct (p_queue st) as [ | cur q ] eqn:Eq.
    - inversion H; subst. auto.
    - destruct (nth_error (p_visited st) cur) as [ [ | ] | ] eqn:Ev; try discriminate.
      + destruct (IH _ _ H) as [H1 H2].
        * destruct Hinv. constructor; assumption.
        * exact Hopen.
        * split; [exact H1 | exact H2].
      + destruct (set_nth cur true (p_visited st)) as [vis' | ] eqn:Esv; [ | discriminate].
        destruct (nth_error (p_parts st) (p_part st)) as [p | ] eqn:Ep; [ | discriminate].
        destruct (set_nth (p_part st) (p ++ [cur]) (p_parts st)) as [parts' | ] eqn:Esp; [ | discriminate].
        destruct (Nat.eqb (length (p ++ [cur])) maxsz) eqn:Efull.
        * inversion H; subst. split; [ | reflexivity]. eapply push_inv; eassumption.
        * destruct (nth_error (successors_vec g) cur) as [row | ] eqn:Er; [ | discriminate].
          assert (Hinv' : pinv (mkp vis' parts' (p_part st) (S (p_count st)) (q ++ map fst row)))
            by (eapply push_inv; eassumption).
          destruct (IH _ _ H Hinv') as [H1 H2].
          -- intros p' Hp'. cbn [p_parts p_part] in Hp'.
             rewrite (nth_error_set_nth _ _ _ _ (p_part st) Esp), Nat.eqb_refl in Hp'. inversion Hp'; subst.
             apply Nat.eqb_neq in Efull. specialize (Hopen p Ep).
             rewrite app_length in *. cbn [length] in *. lia.
          -- split; [exact H1 | exact H2].
  Qed.

  Lemma part_outer_inv : forall fuel st st',
    part_outer fuel g n maxsz st = Ok st' ->
    pinv st -> cur_open st ->
    pinv st' /\ n <= p_count st'.
  Proof.
    induction fuel as [ | f IH ]; intros st st' H Hinv Hopen; cbn [part_outer] in H.
    - destruct (Nat.ltb (p_count st) n) eqn:E; [discriminate | ]. inversion H; subst.
      apply Nat.ltb_ge in E. auto.
    - destruct (Nat.ltb (p_count st) n) eqn:E.
      2:{ inversion H; subst. apply Nat.ltb_ge in E. auto. }
      destruct (find_unvisited (p_visited st) 0) as [node | ]; [ | discriminate].
      destruct (part_inner _ g maxsz _) as [st1 | | | ] eqn:Ei; cbn [bind] in H; try discriminate.
      destruct (part_inner_inv _ _ _ Ei) as [Hinv1 Hpart1].
      { destruct Hinv. constructor; assumption. }
      { exact Hopen. }
      cbn [p_part] in Hpart1.
      unfold part_full in H.
      destruct (nth_error (p_parts st1) (p_part st1)) as [p | ] eqn:Ep; cbn [bind] in H; [ | discriminate].
      destruct (Nat.eqb (length p) maxsz) eqn:Efull.
      + apply (IH _ _ H).
        * destruct Hinv1 as [I1 I2 I3 I4 I5 I6 I8]. constructor; cbn [p_parts p_visited p_part p_count]; try assumption.
          intros j p' Hj Hn. apply (I8 j p'); [lia | exact Hn].
        * intros p' Hp'. cbn [p_parts p_part] in Hp'.
          destruct Hinv1 as [I1 I2 I3 I4 I5 I6 I8].
          rewrite (I8 (S (p_part st1)) p' (Nat.lt_succ_diag_r _) Hp'). cbn. lia.
      + apply (IH _ _ H Hinv1). intros p' Hp'. rewrite Ep in Hp'. inversion Hp'; subst.
        apply Nat.eqb_neq in Efull. destruct Hinv1 as [I1 I2 I3 I4 I5 I6 I8].
        rewrite Forall_forall in I6. specialize (I6 p' (nth_error_In _ _ Ep)). lia.
  Qed.
End Partitions.

Section Final.
  Context {T A : Type}.
  Notation gstate := (gstate T A).

  Lemma repeat_nth_error : forall {X} (x : X) m i y, nth_error (repeat x m) i = Some y -> y = x.
  Proof.
    intros X x m. induction m as [ | m IH ]; intros i y H; cbn [repeat] in H.
    - destruct i; discriminate.
    - destruct i as [ | i ]; cbn in H; [inversion H; reflexivity | apply (IH _ _ H)].
  Qed.

  Lemma concat_repeat_nil : forall {X} m, concat (repeat (@nil X) m) = [].
  Proof. intros X m. induction m; cbn; auto. Qed.

  Lemma names_of_indexes_length : forall (g : gstate) is ns,
    names_of_indexes g is = Ok ns -> length ns = length is.
  Proof.
    intros g. induction is as [ | i t IH ]; intros ns H; cbn [names_of_indexes] in H.
    - inversion H. reflexivity.
    - destruct (get_node_by_index g i); [ | discriminate].
      destruct (names_of_indexes g t) as [r | | | ]; cbn [bind] in H; try discriminate.
      inversion H. cbn. rewrite (IH r eq_refl). reflexivity.
  Qed.

  Lemma omapM_F2 : forall {X Y} (f : X -> outcome Y) l r,
    omapM f l = Ok r -> Forall2 (fun x y => f x = Ok y) l r.
  Proof.
    intros X Y f. induction l as [ | x t IH ]; intros r H; cbn [omapM] in H.
    - inversion H. constructor.
    - destruct (f x) as [y | | | ] eqn:Hf; cbn [bind] in H; try discriminate.
      destruct (omapM f t) as [ys | | | ] eqn:Ht; cbn [bind] in H; try discriminate.
      inversion H. constructor; [exact Hf | apply IH; reflexivity].
  Qed.

  (* the index-level result *)
  Theorem equal_size_indexes : forall (g : gstate) k ps,
    bfs_equal_size_partitions g k = Ok ps ->
    1 <= k /\
    exists idx : list (list nat),
      Forall2 (fun ip p => names_of_indexes g ip = Ok p) idx ps /\
      length idx = k /\
      Forall (fun p => length p <= number_of_nodes g / k + 1) idx /\
      NoDup (concat idx) /\
      (forall i, In i (concat idx) <-> i < number_of_nodes g).
  Proof.
    intros g k ps H. unfold bfs_equal_size_partitions in H.
    destruct (Nat.eqb k 0) eqn:Ek; [discriminate | ]. apply Nat.eqb_neq in Ek.
    split; [lia | ].
    set (n := number_of_nodes g) in *. set (maxsz := S (n / k)) in *.
    destruct (part_outer _ g n maxsz _) as [st | | | ] eqn:Eo; cbn [bind] in H; try discriminate.
    destruct (part_outer_inv g k n maxsz (le_n_S _ _ (Nat.le_0_l _)) _ _ _ Eo) as [[I1 I2 I3 I4 I5 I6 I8] Hcnt].
    { constructor; cbn [p_parts p_visited p_part p_count].
      - apply repeat_length.
      - apply repeat_length.
      - rewrite concat_repeat_nil. constructor.
      - intros i. rewrite concat_repeat_nil. split; [intros [] | ].
        intros Hi. apply repeat_nth_error in Hi. discriminate.
      - rewrite concat_repeat_nil. reflexivity.
      - apply Forall_forall. intros p Hp. apply repeat_spec in Hp. subst. cbn. lia.
      - intros j p _ Hn. apply repeat_nth_error in Hn. exact Hn. }
    { intros p Hp. cbn [p_parts p_part] in Hp. apply repeat_nth_error in Hp. subst. unfold maxsz. cbn. lia. }
    exists (p_parts st). split; [apply omapM_F2; exact H | ].
    split; [exact I1 | ]. split.
    { rewrite Forall_forall in I6 |- *. intros p Hp. specialize (I6 p Hp). unfold maxsz in I6. lia. }
    split; [exact I3 | ].
    assert (Hlt : forall i, In i (concat (p_parts st)) -> i < n).
    { intros i Hi. apply I4 in Hi. rewrite <- I2. apply nth_error_Some. congruence. }
    intros i. split; [apply Hlt | ]. intros Hi.
    assert (Hincl : incl (seq 0 n) (concat (p_parts st))).
    { apply NoDup_length_incl; [exact I3 | rewrite seq_length; lia | ].
      intros j Hj. apply in_seq. specialize (Hlt j Hj). lia. }
    apply Hincl. apply in_seq. lia.
  Qed.

  (* consequences on the returned parts themselves *)
  Corollary equal_size_shape : forall (g : gstate) k ps,
    bfs_equal_size_partitions g k = Ok ps ->
    length ps = k /\
    Forall (fun p => length p <= number_of_nodes g / k + 1) ps /\
    length (concat ps) = number_of_nodes g.
  Proof.
    intros g k ps H. destruct (equal_size_indexes g k ps H) as [_ [idx [HF [Hk [Hsz [Hnd Hall]]]]]].
    assert (Hlen : Forall2 (fun (ip : list nat) (p : list T) => length p = length ip) idx ps).
    { clear H Hk Hsz Hnd Hall. induction HF as [ | a b la lb Hab _ IH ]; [constructor | ].
      constructor; [apply (names_of_indexes_length g a b Hab) | exact IH]. }
    split; [ | split ].
    - rewrite <- Hk. clear H Hk Hsz Hnd Hall HF.
      induction Hlen as [ | ip p li lp Hip _ IH ]; [reflexivity | cbn; rewrite IH; reflexivity].
    - clear H HF Hk Hnd Hall. induction Hlen as [ | ip p li lp Hip _ IH ]; [constructor | ].
      inversion Hsz; subst. constructor; [lia | apply IH; assumption].
    - assert (Hc : length (concat ps) = length (concat idx)).
      { clear H HF Hk Hsz Hnd Hall. induction Hlen as [ | ip p li lp Hip _ IH ]; [reflexivity | ].
        cbn [concat]. rewrite !app_length, IH, Hip. reflexivity. }
      rewrite Hc.
      assert (Hp : Permutation (concat idx) (seq 0 (number_of_nodes g))).
      { apply NoDup_Permutation; [exact Hnd | apply seq_NoDup | ].
        intros i. rewrite Hall, in_seq. lia. }
      rewrite (Permutation_length Hp). apply seq_length.
  Qed.
End Final.
