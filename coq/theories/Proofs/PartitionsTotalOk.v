(* C10: bfs_equal_size_partitions (Model/Components.v) RETURNS for every k >= 1 on every
   graph state whose index adjacency is well formed (executable test): the explicit fuel of
   both loops is never exhausted, `partitions[partition]` is never indexed at k, no other
   index or unwrap fails.  The loop's progress argument is the proof. *)
From Coq Require Import String List Bool Arith Lia Permutation.
From GV Require Import Base.Outcome Base.AMap Model.GState Model.Creation Model.Query Model.Components
     Proofs.PartitionsOk.
Import ListNotations.

(* index adjacency well formed: one row per node, every entry a node index, every index named *)
Definition vec_ok_b {T A} (g : gstate T A) : bool :=
  let n := number_of_nodes g in
  Nat.eqb (length (successors_vec g)) n &&
  forallb (fun row => forallb (fun a : adj => Nat.ltb (fst a) n) row) (successors_vec g) &&
  forallb (fun i => match get_node_by_index g i with Some _ => true | None => false end) (seq 0 n).

(* total length of the rows of the not yet visited indices *)
Fixpoint unvis_weight (vis : list bool) (rows : list (list adj)) : nat :=
  match vis, rows with
  | b :: vt, r :: rt => (if b then 0 else length r) + unvis_weight vt rt
  | _, _ => 0
  end.

Lemma unvis_weight_le : forall vis rows,
  unvis_weight vis rows <= fold_left (fun a (r : list adj) => a + length r) rows 0.
Proof.
  assert (G : forall rows a, fold_left (fun a (r : list adj) => a + length r) rows a =
                             a + fold_left (fun a (r : list adj) => a + length r) rows 0).
  { induction rows as [ | r rt IH ]; intros a; cbn [fold_left]; [lia | ]. rewrite (IH (a + length r)), (IH (0 + length r)). lia. }
  induction vis as [ | b vt IH ]; intros rows; destruct rows as [ | r rt ]; cbn [unvis_weight fold_left]; try lia.
  rewrite G. specialize (IH rt). destruct b; lia.
Qed.

Lemma unvis_weight_visit : forall vis rows cur vis' row,
  nth_error vis cur = Some false -> nth_error rows cur = Some row ->
  set_nth cur true vis = Some vis' ->
  unvis_weight vis rows = length row + unvis_weight vis' rows.
Proof.
  induction vis as [ | b vt IH ]; intros rows cur vis' row Hv Hr Hs.
  - destruct cur; discriminate.
  - destruct rows as [ | r rt ]; [destruct cur; discriminate | ].
    destruct cur as [ | cur ]; cbn in Hv, Hr; cbn [set_nth] in Hs.
    + inversion Hv; subst b. inversion Hr; subst r. inversion Hs; subst vis'. cbn [unvis_weight]. lia.
    + destruct (set_nth cur true vt) as [vt' | ] eqn:E; [ | discriminate]. inversion Hs; subst vis'.
      cbn [unvis_weight]. rewrite (IH rt cur vt' row Hv Hr E). lia.
Qed.

Lemma set_nth_some : forall {X} (l : list X) j q, j < length l -> exists l', set_nth j q l = Some l'.
Proof.
  intros X. induction l as [ | h t IH ]; intros j q Hj; cbn in Hj; [lia | ].
  destruct j as [ | j ]; cbn [set_nth]; [eexists; reflexivity | ].
  destruct (IH j q) as [t' Ht]; [lia | ]. rewrite Ht. eexists. reflexivity.
Qed.

Lemma find_unvisited_spec : forall vis i,
  (exists j, nth_error vis j = Some false) ->
  exists node, find_unvisited vis i = Some node /\ i <= node /\ nth_error vis (node - i) = Some false.
Proof.
  induction vis as [ | b vt IH ]; intros i [j Hj].
  - destruct j; discriminate.
  - cbn [find_unvisited]. destruct b.
    + destruct j as [ | j ]; [discriminate | ]. cbn in Hj.
      destruct (IH (S i) (ex_intro _ j Hj)) as [node [H1 [H2 H3]]]. exists node. split; [exact H1 | split; [lia | ] ].
      replace (node - i) with (S (node - S i)) by lia. exact H3.
    + exists i. rewrite Nat.sub_diag. auto.
Qed.

Lemma concat_firstn_length : forall (l : list (list nat)) m c,
  m <= length l -> (forall j p, j < m -> nth_error l j = Some p -> length p = c) ->
  m * c <= length (concat l).
Proof.
  induction l as [ | h t IH ]; intros m c Hm Hall; cbn in Hm.
  - assert (m = 0) by lia. subst. cbn. lia.
  - destruct m as [ | m ]; [cbn; lia | ]. cbn [concat]. rewrite app_length.
    assert (Hh : length h = c) by (apply (Hall 0 h); [lia | reflexivity]).
    assert (m * c <= length (concat t)).
    { apply IH; [lia | ]. intros j p Hj Hp. apply (Hall (S j) p); [lia | exact Hp]. }
    cbn. lia.
Qed.

Section Total.
  Context {T A : Type}.
  Notation gstate := (gstate T A).
  Variable g : gstate.
  Variable k : nat.
  Hypothesis k_pos : 1 <= k.
  Let n := number_of_nodes g.
  Let maxsz := S (n / k).
  Hypothesis rows_len : length (successors_vec g) = n.
  Hypothesis rows_ok : forall cur row a, nth_error (successors_vec g) cur = Some row -> In a row -> fst a < n.

  Lemma cap_gt : n < k * maxsz.
  Proof. unfold maxsz. apply Nat.mul_succ_div_gt. lia. Qed.

  (* parts before the current one are full *)
  Definition prev_full (st : pstate) : Prop :=
    forall j p, j < p_part st -> nth_error (p_parts st) j = Some p -> length p = maxsz.

  Definition queue_ok (st : pstate) : Prop := forall c, In c (p_queue st) -> c < n.

  (* an unvisited index leaves room: the current part exists *)
  Lemma part_exists : forall st cur,
    pinv k n maxsz st -> prev_full st -> cur < n -> nth_error (p_visited st) cur = Some false ->
    p_part st < k.
  Proof.
    intros st cur [I1 I2 I3 I4 I5 I6 I8] Hprev Hcur Hv.
    destruct (Nat.lt_ge_cases (p_part st) k) as [Hlt | Hge]; [exact Hlt | exfalso].
    assert (Hnot : ~ In cur (concat (p_parts st))) by (intros Hin; apply I4 in Hin; congruence).
    assert (Hle : S (length (concat (p_parts st))) <= n).
    { change (S (length (concat (p_parts st)))) with (length (cur :: concat (p_parts st))).
      rewrite <- (seq_length n 0). apply NoDup_incl_length; [constructor; assumption | ].
      intros i [<- | Hi]; apply in_seq; [lia | ].
      apply I4 in Hi. assert (i < length (p_visited st)) by (apply nth_error_Some; congruence). lia. }
    assert (Hfull : k * maxsz <= length (concat (p_parts st))).
    { apply concat_firstn_length; [lia | ]. intros j p Hj Hp. apply (Hprev j p); [lia | exact Hp]. }
    pose proof cap_gt. lia.
  Qed.

  Definition potential (st : pstate) : nat :=
    length (p_queue st) + unvis_weight (p_visited st) (successors_vec g).

  Lemma part_inner_total : forall fuel st,
    pinv k n maxsz st -> prev_full st -> cur_open maxsz st -> queue_ok st ->
    potential st < fuel ->
    exists st', part_inner fuel g maxsz st = Ok st' /\
                prev_full st' /\
                (p_queue st' = [] \/ exists p, nth_error (p_parts st') (p_part st') = Some p /\ length p = maxsz) /\
                p_count st <= p_count st' /\
                (forall cur q, p_queue st = cur :: q -> nth_error (p_visited st) cur = Some false -> p_count st < p_count st').
  Proof.
    induction fuel as [ | f IH ]; intros st Hinv Hprev Hopen Hq Hpot; [lia | ].
    cbn [part_inner]. destruct (p_queue st) as [ | cur q ] eqn:Eq.
    - exists st. split; [reflexivity | split; [exact Hprev | split; [left; exact Eq | split; [lia | intros c q' Hc; discriminate] ] ] ].
    - assert (Hcur : cur < n) by (apply Hq; rewrite Eq; cbn; tauto).
      pose proof (P2 _ _ _ _ Hinv) as Hlen.
      destruct (nth_error (p_visited st) cur) as [ [ | ] | ] eqn:Ev.
      + (* already visited *)
        destruct (IH (mkp (p_visited st) (p_parts st) (p_part st) (p_count st) q)) as [st' [H1 [H0 [H2 [H3 _]]]]].
        * destruct Hinv. constructor; assumption.
        * exact Hprev.
        * exact Hopen.
        * intros c Hc. apply Hq. rewrite Eq. cbn. tauto.
        * unfold potential in *. cbn [p_queue p_visited] in *. rewrite Eq in Hpot. cbn [length] in Hpot. lia.
        * exists st'. split; [exact H1 | split; [exact H0 | split; [exact H2 | split; [exact H3 | ] ] ] ].
          intros c q' Hc Hv. inversion Hc; subst. congruence.
      + (* visit cur *)
        destruct (set_nth_some (p_visited st) cur true) as [vis' Hsv]; [lia | ]. rewrite Hsv.
        pose proof (part_exists st cur Hinv Hprev Hcur Ev) as Hpk.
        destruct (nth_error (p_parts st) (p_part st)) as [p | ] eqn:Ep.
        2:{ exfalso. apply nth_error_None in Ep. rewrite (P1 _ _ _ _ Hinv) in Ep. lia. }
        destruct (set_nth_some (p_parts st) (p_part st) (p ++ [cur])) as [parts' Hsp];
          [rewrite (P1 _ _ _ _ Hinv); exact Hpk | ]. rewrite Hsp.
        assert (Hinv1 : forall q1, pinv k n maxsz (mkp vis' parts' (p_part st) (S (p_count st)) q1)).
        { intros q1. apply (push_inv k n maxsz (le_n_S _ _ (Nat.le_0_l _)) st cur vis' p parts' q1 Hinv Hopen Ev Hsv Ep Hsp). }
        destruct (Nat.eqb (length (p ++ [cur])) maxsz) eqn:Efull.
        * apply Nat.eqb_eq in Efull. eexists. split; [reflexivity | ]. split.
          { intros j p' Hj Hp'. cbn [p_parts p_part] in *. rewrite (nth_error_set_nth _ _ _ _ j Hsp) in Hp'.
            destruct (Nat.eqb j (p_part st)) eqn:Ej; [apply Nat.eqb_eq in Ej; lia | apply (Hprev j p' Hj Hp')]. }
          cbn [p_queue p_parts p_part p_count]. split.
          -- right. exists (p ++ [cur]). split; [ | exact Efull].
             rewrite (nth_error_set_nth _ _ _ _ (p_part st) Hsp), Nat.eqb_refl. reflexivity.
          -- split; [lia | intros; lia].
        * apply Nat.eqb_neq in Efull.
          destruct (nth_error (successors_vec g) cur) as [row | ] eqn:Er.
          2:{ exfalso. apply nth_error_None in Er. lia. }
          destruct (IH (mkp vis' parts' (p_part st) (S (p_count st)) (q ++ map fst row))) as [st' [H1 [H0 [H2 [H3 _]]]]].
          -- apply Hinv1.
          -- intros j p' Hj Hp'. cbn [p_parts p_part] in *. rewrite (nth_error_set_nth _ _ _ _ j Hsp) in Hp'.
             destruct (Nat.eqb j (p_part st)) eqn:Ej; [apply Nat.eqb_eq in Ej; lia | apply (Hprev j p' Hj Hp')].
          -- intros p' Hp'. cbn [p_parts p_part] in Hp'.
             rewrite (nth_error_set_nth _ _ _ _ (p_part st) Hsp), Nat.eqb_refl in Hp'. inversion Hp'; subst.
             specialize (Hopen p Ep). rewrite app_length in *. cbn [length] in *. lia.
          -- intros c Hc. cbn [p_queue] in Hc. apply in_app_iff in Hc. destruct Hc as [Hc | Hc].
             ++ apply Hq. rewrite Eq. cbn. tauto.
             ++ apply in_map_iff in Hc. destruct Hc as [a [<- Ha]]. apply (rows_ok cur row a Er Ha).
          -- unfold potential in *. cbn [p_queue p_visited] in *. rewrite Eq in Hpot. cbn [length] in Hpot.
             rewrite (unvis_weight_visit _ _ _ _ _ Ev Er Hsv) in Hpot. rewrite app_length, map_length.
             lia.
          -- exists st'. split; [exact H1 | split; [exact H0 | split; [exact H2 | ] ] ]. cbn [p_count] in H3. split; [lia | intros; lia].
      + exfalso. apply nth_error_None in Ev. lia.
  Qed.

  (* some index is unvisited while fewer than n nodes are counted *)
  Lemma has_unvisited : forall st, pinv k n maxsz st -> p_count st < n ->
    exists j, nth_error (p_visited st) j = Some false.
  Proof.
    intros st [I1 I2 I3 I4 I5 I6 I8] Hc.
    destruct (existsb negb (p_visited st)) eqn:E.
    - apply existsb_exists in E. destruct E as [b [Hb Hn]]. destruct b; [discriminate | ].
      apply In_nth_error in Hb. exact Hb.
    - exfalso. assert (Hall : forall i, i < n -> In i (concat (p_parts st))).
      { intros i Hi. apply I4. destruct (nth_error (p_visited st) i) as [b | ] eqn:Eb.
        - destruct b; [reflexivity | ]. exfalso.
          assert (Hex : existsb negb (p_visited st) = true).
          { apply existsb_exists. exists false. split; [apply (nth_error_In _ _ Eb) | reflexivity]. }
          congruence.
        - apply nth_error_None in Eb. lia. }
      assert (n <= length (concat (p_parts st))).
      { rewrite <- (seq_length n 0). apply NoDup_incl_length; [apply seq_NoDup | ].
        intros i Hi. apply in_seq in Hi. apply Hall. lia. }
      lia.
  Qed.

  Lemma part_outer_total : forall fuel st,
    pinv k n maxsz st -> prev_full st -> cur_open maxsz st -> p_queue st = [] ->
    n - p_count st < fuel ->
    exists st', part_outer fuel g n maxsz st = Ok st'.
  Proof.
    induction fuel as [ | f IH ]; intros st Hinv Hprev Hopen Hq Hf; [lia | ].
    cbn [part_outer]. destruct (Nat.ltb (p_count st) n) eqn:Ec; [ | eexists; reflexivity].
    apply Nat.ltb_lt in Ec.
    destruct (find_unvisited_spec (p_visited st) 0 (has_unvisited st Hinv Ec)) as [node [Hfind [_ Hnode]]].
    rewrite Hfind. rewrite Nat.sub_0_r in Hnode.
    assert (Hnlt : node < n).
    { rewrite <- (P2 _ _ _ _ Hinv). apply nth_error_Some. congruence. }
    set (st0 := mkp (p_visited st) (p_parts st) (p_part st) (p_count st) (p_queue st ++ [node])).
    destruct (part_inner_total (S (S (n + n + sum_rows g))) st0) as [st1 [H1 [Hprev1 [H2 [H3 H4]]]]].
    - destruct Hinv. constructor; assumption.
    - exact Hprev.
    - exact Hopen.
    - intros c Hc. unfold st0 in Hc. cbn [p_queue] in Hc. rewrite Hq in Hc. destruct Hc as [<- | []]. exact Hnlt.
    - unfold potential, st0. cbn [p_queue p_visited]. rewrite Hq. cbn [app length].
      pose proof (unvis_weight_le (p_visited st) (successors_vec g)). unfold sum_rows. lia.
    - fold st0. rewrite H1. cbn [bind].
      assert (Hinv0 : pinv k n maxsz st0) by (destruct Hinv; constructor; assumption).
      destruct (part_inner_inv g k n maxsz (le_n_S _ _ (Nat.le_0_l _)) _ _ _ H1 Hinv0 Hopen) as [Hinv1 Hpart1].
      assert (Hprog : p_count st < p_count st1).
      { apply (H4 node []); [unfold st0; cbn [p_queue]; rewrite Hq; reflexivity | exact Hnode]. }
      assert (Hpk : p_part st1 < k).
      { rewrite Hpart1. cbn [p_part st0]. apply (part_exists st node Hinv Hprev Hnlt Hnode). }
      unfold part_full. destruct (nth_error (p_parts st1) (p_part st1)) as [p | ] eqn:Ep.
      2:{ exfalso. apply nth_error_None in Ep. rewrite (P1 _ _ _ _ Hinv1) in Ep. lia. }
      cbn [bind]. destruct (Nat.eqb (length p) maxsz) eqn:Efull.
      + apply Nat.eqb_eq in Efull. apply IH.
        * destruct Hinv1 as [I1 I2 I3 I4 I5 I6 I8]. constructor; cbn [p_parts p_visited p_part p_count]; try assumption.
          intros j p' Hj Hn. apply (I8 j p'); [lia | exact Hn].
        * intros j p' Hj Hp'. cbn [p_parts p_part] in *.
          destruct (Nat.eq_dec j (p_part st1)) as [Hje | Hne].
          { rewrite Hje in Hp'. assert (p = p') by congruence. subst p'. exact Efull. }
          apply (Hprev1 j p'); [lia | exact Hp'].
        * intros p' Hp'. cbn [p_parts p_part] in Hp'.
          rewrite (P8 _ _ _ _ Hinv1 (S (p_part st1)) p' (Nat.lt_succ_diag_r _) Hp'). cbn. unfold maxsz. lia.
        * reflexivity.
        * cbn [p_count]. lia.
      + apply Nat.eqb_neq in Efull. apply IH.
        * exact Hinv1.
        * exact Hprev1.
        * intros p' Hp'. rewrite Ep in Hp'. inversion Hp'; subst.
          pose proof (P6 _ _ _ _ Hinv1) as I6. rewrite Forall_forall in I6. specialize (I6 p' (nth_error_In _ _ Ep)). lia.
        * destruct H2 as [H2 | [p' [Hp' Hl']]]; [exact H2 | ]. inversion Hp'; subst. contradiction.
        * lia.
  Qed.
End Total.

Section TotalFinal.
  Context {T A : Type}.
  Notation gstate := (gstate T A).

  Lemma names_of_indexes_total : forall (g : gstate) is,
    (forall i, In i is -> exists nd, get_node_by_index g i = Some nd) ->
    exists ns, names_of_indexes g is = Ok ns.
  Proof.
    intros g. induction is as [ | i t IH ]; intros H; cbn [names_of_indexes]; [eexists; reflexivity | ].
    destruct (H i (or_introl eq_refl)) as [nd Hnd]. rewrite Hnd.
    destruct IH as [r Hr]; [intros j Hj; apply H; cbn; tauto | ]. rewrite Hr. cbn [bind]. eexists. reflexivity.
  Qed.

  Lemma omapM_total : forall {X Y} (f : X -> outcome Y) l,
    (forall x, In x l -> exists y, f x = Ok y) -> exists r, omapM f l = Ok r.
  Proof.
    intros X Y f. induction l as [ | x t IH ]; intros H; cbn [omapM]; [eexists; reflexivity | ].
    destruct (H x (or_introl eq_refl)) as [y Hy]. rewrite Hy. cbn [bind].
    destruct IH as [r Hr]; [intros z Hz; apply H; cbn; tauto | ]. rewrite Hr. cbn [bind]. eexists. reflexivity.
  Qed.

  (* bfs_equal_size_partitions returns: both loops terminate within the model's fuel, part k
     is never indexed, no other index / unwrap fails *)
  Theorem equal_size_total : forall (g : gstate) k,
    vec_ok_b g = true -> 1 <= k -> exists ps, bfs_equal_size_partitions g k = Ok ps.
  Proof.
    intros g k Hok Hk. unfold vec_ok_b in Hok.
    apply andb_true_iff in Hok. destruct Hok as [Hok Hrev]. apply andb_true_iff in Hok. destruct Hok as [Hlen Hrows].
    apply Nat.eqb_eq in Hlen. rewrite forallb_forall in Hrows, Hrev.
    unfold bfs_equal_size_partitions. destruct (Nat.eqb k 0) eqn:Ek; [apply Nat.eqb_eq in Ek; lia | ].
    set (n := number_of_nodes g) in *. set (maxsz := S (n / k)).
    assert (Hrows' : forall cur row a, nth_error (successors_vec g) cur = Some row -> In a row -> fst a < n).
    { intros cur row a Hr Ha. specialize (Hrows row (nth_error_In _ _ Hr)). rewrite forallb_forall in Hrows.
      apply Nat.ltb_lt. apply Hrows. exact Ha. }
    set (st0 := mkp (repeat false n) (repeat [] k) 0 0 []).
    assert (Hinv0 : pinv k n maxsz st0).
    { constructor; cbn [p_parts p_visited p_part p_count st0].
      - apply repeat_length.
      - apply repeat_length.
      - rewrite concat_repeat_nil. constructor.
      - intros i. rewrite concat_repeat_nil. split; [intros [] | ].
        intros Hi. apply repeat_nth_error in Hi. discriminate.
      - rewrite concat_repeat_nil. reflexivity.
      - apply Forall_forall. intros p Hp. apply repeat_spec in Hp. subst. cbn. lia.
      - intros j p _ Hn. apply repeat_nth_error in Hn. exact Hn. }
    assert (Hopen0 : cur_open maxsz st0).
    { intros p Hp. cbn [p_parts p_part st0] in Hp. apply repeat_nth_error in Hp. subst. unfold maxsz. cbn. lia. }
    destruct (part_outer_total g k Hk Hlen Hrows' (S n) st0 Hinv0) as [st Hst].
    - intros j p Hj. cbn [p_part st0] in Hj. lia.
    - exact Hopen0.
    - reflexivity.
    - cbn [p_count st0]. lia.
    - change (part_outer (S n) g n maxsz st0) with (part_outer (S n) g (number_of_nodes g) (S (number_of_nodes g / k)) st0).
      rewrite Hst. cbn [bind].
      destruct (part_outer_inv g k n maxsz (le_n_S _ _ (Nat.le_0_l _)) _ _ _ Hst Hinv0 Hopen0) as [[I1 I2 I3 I4 I5 I6 I8] _].
      apply omapM_total. intros ip Hip. apply names_of_indexes_total. intros i Hi.
      assert (Hin : In i (concat (p_parts st))) by (apply in_concat; exists ip; tauto).
      apply I4 in Hin. assert (Hlt : i < n) by (rewrite <- I2; apply nth_error_Some; congruence).
      specialize (Hrev i). destruct (get_node_by_index g i) as [nd | ]; [exists nd; reflexivity | ].
      exfalso. assert (false = true) by (apply Hrev; apply in_seq; lia). discriminate.
  Qed.
End TotalFinal.
