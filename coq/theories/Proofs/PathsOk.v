(* C05: the path enumeration behind [spec_sp] (Spec/BetweennessDef.v) is exact.
   For an adjacency with unit costs, one entry per neighbour and indexes in
   range: [simple_paths] lists every simple path once, and [spec_sp g s t] is,
   without repetition, exactly the set of simple s-t paths with the minimal
   number of edges. *)
From Coq Require Import List Bool ZArith Arith QArith Lia Lqa.
From GV Require Import Model.Cent Spec.BetweennessDef Proofs.CentBase Proofs.BrandesOk Proofs.BrandesAccOk.
From GV Require Import Proofs.ClosenessBfsOk.
Import ListNotations.
Open Scope list_scope.

Lemma NoDup_flat_map : forall (X Y : Type) (f : X -> list Y) (l : list X),
  NoDup l -> (forall x, In x l -> NoDup (f x)) ->
  (forall x1 x2 y, In x1 l -> In x2 l -> In y (f x1) -> In y (f x2) -> x1 = x2) ->
  NoDup (flat_map f l).
Proof.
  induction l as [|x t IH]; intros Hl Hf Hd; cbn; [constructor|].
  inversion Hl as [|? ? Hnot Hl']; subst. apply NoDup_app_intro.
  - apply Hf. left. reflexivity.
  - apply IH; [exact Hl' | intros; apply Hf; right; assumption |].
    intros x1 x2 y H1 H2. apply Hd; right; assumption.
  - intros y Hy Hy'. apply in_flat_map in Hy'. destruct Hy' as [x' [Hx' Hy']].
    assert (x = x') by (apply (Hd x x' y); [left; reflexivity | right; exact Hx' | exact Hy | exact Hy']).
    subst. contradiction.
Qed.

Lemma NoDup_map_inj : forall (X Y : Type) (f : X -> Y) (l : list X),
  (forall a b, In a l -> In b l -> f a = f b -> a = b) -> NoDup l -> NoDup (map f l).
Proof.
  induction l as [|x t IH]; intros Hinj Hl; cbn; [constructor|].
  inversion Hl as [|? ? Hnot Hl']; subst. constructor.
  - intro X0. apply in_map_iff in X0. destruct X0 as [y [Ey Hy]].
    assert (y = x) by (apply Hinj; [right; exact Hy | left; reflexivity | exact Ey]). subst. contradiction.
  - apply IH; [|exact Hl']. intros a b Ha Hb. apply Hinj; right; assumption.
Qed.

Section Paths.
  Variable g : qadj.
  Notation n := (length g).
  Hypothesis Hok : adj_ok n g = true.
  Hypothesis Hrows : forall v, NoDup (map fst (get [] g v)).
  Hypothesis Hunit : forall v a, In a (get [] g v) -> snd a = 1.

  Lemma is_path_cons : forall u y rest, is_path g (u :: y :: rest) <-> E g u y /\ is_path g (y :: rest).
  Proof.
    intros u y rest. cbn [is_path]. unfold E. split.
    - intros [[c Hc] Hp]. split; [|exact Hp]. apply in_map_iff. exists (y, c). auto.
    - intros [He Hp]. split; [|exact Hp]. apply in_map_iff in He. destruct He as [[y' c] [Ey Hy]]. cbn in Ey. subst. exists c. exact Hy.
  Qed.

  (* ---------------------------------------------------------------- soundness, with the cost *)
  Lemma qn_S_plus : forall k, 1 + qn k == qn (S k).
  Proof. intros. unfold qn. rewrite Nat2Z.inj_succ. unfold Z.succ. rewrite inject_Z_plus. ring. Qed.

  Lemma simple_paths_sound_full : forall fuel vis u t p c,
    In (p, c) (simple_paths fuel g vis u t) ->
    path_from_to g p u t /\ NoDup p /\ (forall x, In x (tl p) -> ~ In x vis) /\
    c == qn (length p - 1) /\ (length p <= fuel)%nat.
  Proof.
    induction fuel as [|f IH]; intros vis u t p c H; cbn [simple_paths] in H; [destruct H|].
    revert H. destruct (Nat.eqb u t) eqn:E0; intro H.
    - apply Nat.eqb_eq in E0. subst t. destruct H as [H|[]]. inversion H. subst.
      split; [repeat split|]. split; [constructor; [intros []|constructor]|]. split; [intros x []|].
      split; [reflexivity | cbn; lia].
    - apply in_flat_map in H. destruct H as [[w cw] [Hin H]]. cbn [fst snd] in H.
      revert H. destruct (nmem w (u :: vis)) eqn:Em; intro H; [destruct H|].
      apply nmem_false in Em.
      apply in_map_iff in H. destruct H as [[p' c'] [Heq Hp']]. cbn [fst snd] in Heq. apply pair_equal_spec in Heq. destruct Heq as [Ep Ec]. subst p c.
      destruct (IH _ _ _ _ _ Hp') as [[Hpath [Hhd Hlast]] [Hnd [Hvis [Hc Hlen]]]].
      destruct p' as [|y rest]; [destruct Hpath|]. cbn in Hhd. inversion Hhd. subst y.
      assert (Hall : forall x, In x (w :: rest) -> ~ In x (u :: vis)).
      { intros x [Hx|Hx]; [subst; exact Em | apply Hvis; exact Hx]. }
      split; [|split; [|split; [|split]]].
      + split; [|split].
        * apply is_path_cons. split; [|exact Hpath]. unfold E. apply in_map_iff. exists (w, cw). auto.
        * reflexivity.
        * change (last (u :: w :: rest) u) with (last (w :: rest) u).
          rewrite (last_cons_indep rest w u w). exact Hlast.
      + constructor; [|exact Hnd]. intro X. apply (Hall u X). left. reflexivity.
      + intros x Hx. cbn [tl] in Hx. intro Hv. apply (Hall x Hx). right. exact Hv.
      + assert (Hcw : cw = 1) by (exact (Hunit u (w, cw) Hin)). subst cw.
        rewrite Qred_correct. rewrite Hc. cbn [length].
        replace (S (length rest) - 1)%nat with (length rest) by lia.
        replace (S (S (length rest)) - 1)%nat with (S (length rest)) by lia. apply qn_S_plus.
      + cbn [length] in *. lia.
  Qed.

  Lemma last_In : forall (l : list nat) x d, In (last (x :: l) d) (x :: l).
  Proof.
    induction l as [|y t IH]; intros x d; [left; reflexivity|].
    change (last (x :: y :: t) d) with (last (y :: t) d). right. apply IH.
  Qed.

  (* ---------------------------------------------------------------- completeness *)
  Lemma simple_paths_complete : forall fuel vis u t p,
    path_from_to g p u t -> NoDup p -> (forall x, In x (tl p) -> ~ In x vis) -> (length p <= fuel)%nat ->
    exists c, In (p, c) (simple_paths fuel g vis u t).
  Proof.
    induction fuel as [|f IH]; intros vis u t p [Hpath [Hhd Hlast]] Hnd Hvis Hlen.
    - destruct p; [destruct Hpath | cbn in Hlen; lia].
    - destruct p as [|x rest]; [destruct Hpath|]. cbn in Hhd. inversion Hhd. subst x.
      cbn [simple_paths]. destruct rest as [|y rest'].
      + cbn in Hlast. subst t. rewrite Nat.eqb_refl. exists 0. left. reflexivity.
      + assert (Hut : u <> t).
        { intro X. rewrite <- X in Hlast. pose proof Hnd as Hnd0.
          apply NoDup_cons_iff in Hnd0. destruct Hnd0 as [Hnot _]. apply Hnot.
          assert (HL : last (y :: rest') y = u).
          { change (last (u :: y :: rest') u) with (last (y :: rest') u) in Hlast.
            rewrite (last_cons_indep rest' y y u). exact Hlast. }
          rewrite <- HL at 1. apply last_In. }
        replace (Nat.eqb u t) with false by (symmetry; apply Nat.eqb_neq; exact Hut).
        apply is_path_cons in Hpath. destruct Hpath as [He Hpath'].
        unfold E in He. apply in_map_iff in He. destruct He as [[y' cy] [Ey Hy]]. cbn in Ey. subst y'.
        apply NoDup_cons_iff in Hnd. destruct Hnd as [Hnot Hnd'].
        assert (Hyv : ~ In y (u :: vis)).
        { intros [X|X]; [subst; apply Hnot; left; reflexivity | apply (Hvis y); [left; reflexivity | exact X]]. }
        destruct (IH (u :: vis) y t (y :: rest')) as [c Hc].
        * split; [exact Hpath'|]. split; [reflexivity|].
          change (last (u :: y :: rest') u) with (last (y :: rest') u) in Hlast.
          rewrite (last_cons_indep rest' y y u). exact Hlast.
        * exact Hnd'.
        * intros x Hx [X|X]; [subst; apply Hnot; right; exact Hx | apply (Hvis x); [right; exact Hx | exact X]].
        * cbn [length] in *. lia.
        * exists (Qred (cy + c)). apply in_flat_map. exists (y, cy). split; [exact Hy|]. cbn [fst snd].
          replace (nmem y (u :: vis)) with false by (symmetry; apply nmem_false; exact Hyv).
          apply in_map_iff. exists (y :: rest', c). split; [reflexivity | exact Hc].
  Qed.

  (* ---------------------------------------------------------------- every path is listed once *)
  Lemma map_flat_map : forall (X Y Z : Type) (f : Y -> Z) (h : X -> list Y) l,
    map f (flat_map h l) = flat_map (fun x => map f (h x)) l.
  Proof. induction l as [|x t IH]; cbn; [reflexivity|]. rewrite map_app, IH. reflexivity. Qed.

  Lemma fst_inj_row : forall (row : list (nat * Q)) a b,
    NoDup (map fst row) -> In a row -> In b row -> fst a = fst b -> a = b.
  Proof.
    induction row as [|x t IH]; intros a b Hnd Ha Hb Hf; [destruct Ha|].
    cbn in Hnd. apply NoDup_cons_iff in Hnd. destruct Hnd as [Hnot Hnd'].
    destruct Ha as [Ha|Ha]; destruct Hb as [Hb|Hb]; subst.
    - reflexivity.
    - exfalso. apply Hnot. rewrite Hf. apply in_map. exact Hb.
    - exfalso. apply Hnot. rewrite <- Hf. apply in_map. exact Ha.
    - apply IH; assumption.
  Qed.

  Lemma simple_paths_nodup : forall fuel vis u t, NoDup (map fst (simple_paths fuel g vis u t)).
  Proof.
    induction fuel as [|f IH]; intros vis u t; cbn [simple_paths]; [constructor|].
    destruct (Nat.eqb u t); [cbn; constructor; [intros []|constructor]|].
    rewrite map_flat_map. apply NoDup_flat_map.
    - apply (NoDup_map_inv fst). apply Hrows.
    - intros a Ha. destruct (nmem (fst a) (u :: vis)); [constructor|].
      rewrite map_map. cbn [fst].
      rewrite <- (map_map fst (cons u)). apply NoDup_map_inj; [|apply IH].
      intros p1 p2 _ _ Eq. inversion Eq. reflexivity.
    - intros a1 a2 y H1 H2 Hy1 Hy2. apply (fst_inj_row (get [] g u)); auto.
      destruct (nmem (fst a1) (u :: vis)); [destruct Hy1|]. destruct (nmem (fst a2) (u :: vis)); [destruct Hy2|].
      apply in_map_iff in Hy1. destruct Hy1 as [[y1 c1] [E1 Hy1]]. apply in_map_iff in Hy1. destruct Hy1 as [[p1 d1] [E1' Hp1]].
      apply in_map_iff in Hy2. destruct Hy2 as [[y2 c2] [E2 Hy2]]. apply in_map_iff in Hy2. destruct Hy2 as [[p2 d2] [E2' Hp2]].
      cbn [fst snd] in E1, E2, E1', E2'.
      apply pair_equal_spec in E1'. destruct E1' as [E1' _]. apply pair_equal_spec in E2'. destruct E2' as [E2' _].
      assert (Hpp : p1 = p2). { assert (X : u :: p1 = u :: p2) by congruence. inversion X. reflexivity. }
      subst p2.
      destruct (simple_paths_sound_full _ _ _ _ _ _ Hp1) as [[_ [Hh1 _]] _].
      destruct (simple_paths_sound_full _ _ _ _ _ _ Hp2) as [[_ [Hh2 _]] _].
      rewrite Hh1 in Hh2. inversion Hh2. reflexivity.
  Qed.

  (* ---------------------------------------------------------------- the cheapest enumerated cost *)
  Lemma qlt_iff : forall x y, qlt x y = true <-> x < y.
  Proof. intros. unfold qlt. rewrite Qlt_alt. destruct (x ?= y); split; intro; try discriminate; auto. Qed.

  Lemma min_cost_spec : forall ps : list (list nat * Q),
    match min_cost ps with
    | None => ps = []
    | Some m => (exists p, In (p, m) ps) /\ forall p c, In (p, c) ps -> m <= c
    end.
  Proof.
    induction ps as [|[p c] t IH]; cbn [min_cost fold_right]; [reflexivity|].
    fold (min_cost t). destruct (min_cost t) as [m|]; cbn [snd].
    - destruct IH as [[pm Hpm] Hmin]. destruct (qlt c m) eqn:Eq.
      + apply qlt_iff in Eq. split; [exists p; left; reflexivity|].
        intros p' c' [H|H]; [inversion H; subst; apply Qle_refl|]. apply Qle_trans with m; [apply Qlt_le_weak; exact Eq | eapply Hmin; eauto].
      + split; [exists pm; right; exact Hpm|].
        intros p' c' [H|H]; [|eapply Hmin; eauto]. inversion H; subst.
        apply Qnot_lt_le. intro X. apply qlt_iff in X. congruence.
    - subst t. split; [exists p; left; reflexivity|]. intros p' c' [H|[]]. inversion H; subst. apply Qle_refl.
  Qed.

  (* ---------------------------------------------------------------- nodes of a path are in range; simple paths are short *)
  Lemma path_nodes_range : forall p u, is_path g p -> hd_error p = Some u -> (u < n)%nat ->
    forall x, In x p -> (x < n)%nat.
  Proof.
    induction p as [|a rest IH]; intros u Hp Hh Hu x Hx; [destruct Hx|].
    cbn in Hh. inversion Hh. subst a. destruct Hx as [Hx|Hx]; [subst; exact Hu|].
    destruct rest as [|y rest']; [destruct Hx|].
    apply is_path_cons in Hp. destruct Hp as [He Hp].
    apply (IH y Hp eq_refl); [eapply E_range; eauto | exact Hx].
  Qed.

  Lemma nodup_range_length : forall p, NoDup p -> (forall x, In x p -> (x < n)%nat) -> (length p <= n)%nat.
  Proof.
    intros p Hnd Hr. rewrite <- (seq_length n 0). apply NoDup_incl_length; [exact Hnd|].
    intros x Hx. apply in_seq. pose proof (Hr x Hx). lia.
  Qed.

  Lemma qn_inj : forall a b, qn a == qn b -> a = b.
  Proof. intros a b H. unfold qn in H. rewrite inject_Z_injective in H. lia. Qed.

  Lemma NoDup_map_filter : forall (X Y : Type) (f : X -> Y) (h : X -> bool) l, NoDup (map f l) -> NoDup (map f (filter h l)).
  Proof.
    induction l as [|x t IH]; intros H; cbn; [constructor|]. cbn in H. apply NoDup_cons_iff in H. destruct H as [Hnot H].
    destruct (h x); [|apply IH; exact H]. cbn. constructor; [|apply IH; exact H].
    intro X0. apply Hnot. apply in_map_iff in X0. destruct X0 as [y [Ey Hy]]. apply filter_In in Hy. destruct Hy as [Hy _].
    apply in_map_iff. exists y. auto.
  Qed.

  (* ---------------------------------------------------------------- SP s t *)
  Theorem spec_sp_char : forall s t k, (s < n)%nat ->
    (exists p0, path_from_to g p0 s t /\ NoDup p0 /\ length p0 = S k) ->
    (forall p, path_from_to g p s t -> (S k <= length p)%nat) ->
    NoDup (spec_sp g s t) /\
    forall p, In p (spec_sp g s t) <-> path_from_to g p s t /\ NoDup p /\ length p = S k.
  Proof.
    intros s t k Hs [p0 [Hp0 [Hnd0 Hl0]]] Hmin.
    assert (Hr0 : (length p0 <= n)%nat).
    { apply nodup_range_length; [exact Hnd0|]. destruct Hp0 as [A [B _]]. eapply path_nodes_range; eauto. }
    destruct (simple_paths_complete n [] s t p0 Hp0 Hnd0 ltac:(intros x _ []) Hr0) as [c0 Hc0].
    destruct (simple_paths_sound_full _ _ _ _ _ _ Hc0) as [_ [_ [_ [Ec0 _]]]].
    unfold spec_sp. pose proof (min_cost_spec (simple_paths n g [] s t)) as HM.
    destruct (min_cost (simple_paths n g [] s t)) as [m|]; [|rewrite HM in Hc0; destruct Hc0].
    destruct HM as [[pm Hpm] Hle].
    assert (Em : m == qn k).
    { apply Qle_antisym.
      - apply Qle_trans with c0; [eapply Hle; eauto|]. rewrite Ec0, Hl0. replace (S k - 1)%nat with k by lia. apply Qle_refl.
      - destruct (simple_paths_sound_full _ _ _ _ _ _ Hpm) as [Hpp [_ [_ [Ecm _]]]]. rewrite Ecm.
        pose proof (Hmin _ Hpp) as X. unfold qn. rewrite <- Zle_Qle. lia. }
    split.
    - apply NoDup_map_filter. apply simple_paths_nodup.
    - intros p. rewrite in_map_iff. split.
      + intros [[p' c] [Ep Hin]]. cbn in Ep. subst p'. apply filter_In in Hin. destruct Hin as [Hin Hq].
        cbn [snd] in Hq. apply Qeq_bool_iff in Hq.
        destruct (simple_paths_sound_full _ _ _ _ _ _ Hin) as [Hpp [Hndp [_ [Ec _]]]].
        split; [exact Hpp|]. split; [exact Hndp|].
        rewrite Ec, Em in Hq. apply qn_inj in Hq.
        destruct p as [|x rest]; [destruct Hpp as [[] _]|]. cbn [length] in *. lia.
      + intros [Hpp [Hndp Hl]].
        assert (Hr : (length p <= n)%nat).
        { apply nodup_range_length; [exact Hndp|]. destruct Hpp as [A [B _]]. eapply path_nodes_range; eauto. }
        destruct (simple_paths_complete n [] s t p Hpp Hndp ltac:(intros x _ []) Hr) as [c Hc].
        exists (p, c). split; [reflexivity|]. apply filter_In. split; [exact Hc|]. cbn [snd]. unfold qeqb. apply Qeq_bool_iff.
        destruct (simple_paths_sound_full _ _ _ _ _ _ Hc) as [_ [_ [_ [Ec _]]]].
        rewrite Ec, Em, Hl. replace (S k - 1)%nat with k by lia. reflexivity.
  Qed.
End Paths.
