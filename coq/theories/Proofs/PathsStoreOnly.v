(* The "Consequently ..." clause of property C03 for the PATHS `single_source` reports
   (with_paths = true), on top of the end-to-end theorems of C04 (Proofs/DijkstraWF.v) and of
   the distance form (Proofs/EdgeStoreOnly.v).

   first_only = false, strictly positive arcs: the path list reported for a node is, up to
   order, a function of the node list and the edge-store arcs ([edge_arc], extensionally),
   hence — through [edge_arc_edge_multiset] — of the node list, the kind and the multiset of
   stored edges: it is duplicate free and lists exactly the name forms of the shortest paths
   of the edge-store graph ([wf_single_source_paths_exact]).  The ORDER of the list may depend
   on the history, and for a zero stored weight even the SET does (the search finalises a
   node as soon as it is popped; a zero-cost arc from a node popped later at the same distance
   is not followed — which of two such nodes is popped first depends on the order of the
   adjacency row, hence on the history): Proofs/PathsStoreOnlyExamples.v evaluates both.

   first_only = true: each graph reports exactly one path per reported node, the name form of
   a shortest path of the common edge-store graph; WHICH one depends on the history. *)
From Coq Require Import String List Bool ZArith QArith Arith Lia Permutation.
From GV Require Import Base.Outcome Base.AMap Model.GState Model.Creation Model.Query Model.Dijkstra.
From GV Require Import Spec.History Spec.ShortestPathDef Spec.ShortestPathRel Spec.EdgeStoreGraph Spec.EdgeStoreAdj.
From GV Require Import Proofs.AMapOk Proofs.WFDefs Proofs.HistoryOk Proofs.DijkstraModelOk Proofs.DijkstraWF Proofs.BrandesWF Proofs.EdgeStoreOnly.
Import ListNotations.
Open Scope list_scope.

Lemma a_SP_ext (arc arc' : nat -> nat -> Z -> Prop) n :
  (forall u v w, arc u v w <-> arc' u v w) ->
  forall s t p, a_SP arc n s t p -> a_SP arc' n s t p.
Proof.
  intros Hext s t p [d [Hd Hw]]. exists d. split.
  - apply (a_is_dist_ext arc arc' n Hext). exact Hd.
  - apply (awalk_ext arc arc' n Hext). exact Hw.
Qed.

Lemma Forall2_NoDup_r {X Y} (R : X -> Y -> Prop) :
  (forall a b c, R a c -> R b c -> a = b) ->
  forall l l', Forall2 R l l' -> NoDup l -> NoDup l'.
Proof.
  intros Hinj l l' F. induction F as [|a b l l' Hab F IH]; intros Hnd; [constructor|].
  inversion Hnd as [|a0 l0 Hnotin Hnd']; subst. constructor; [|apply IH; exact Hnd'].
  intros Hin. destruct (Forall2_in_r R l l' b F Hin) as [a' [Ha' Hr]].
  assert (a' = a) by (eapply Hinj; eauto). subst a'. contradiction.
Qed.

Section PathsStoreOnly.
  Context {T A : Type}.
  Variable teqb : T -> T -> bool.
  Variable tltb : T -> T -> bool.
  Hypothesis teqb_spec : forall x y, teqb x y = true <-> x = y.
  Hypothesis tltb_asym : forall x y, tltb x y = true -> tltb y x = false.
  Hypothesis tltb_total : forall x y, tltb x y = false -> tltb y x = false -> x = y.

  Notation edge := (edge T A).
  Notation gstate := (gstate T A).
  Notation WF := (@WF T A teqb tltb).
  Notation names := (@names T A).
  Notation name_at := (@name_at T A).
  Notation edge_arc := (@edge_arc T A teqb).
  Notation n_of := number_of_nodes.

  (* ------------------------------------------------------------------ index paths <-> name paths *)
  Lemma names_of_fun (g : gstate) p p' q' : names_of g p p' -> names_of g p q' -> p' = q'.
  Proof.
    unfold names_of. intros F. revert q'. induction F as [|k x p p' Hk F IH]; intros q' G; inversion G; subst; [reflexivity|].
    f_equal; [congruence | apply IH; assumption].
  Qed.

  Lemma names_of_inj (g : gstate) p q p' : WF g -> names_of g p p' -> names_of g q p' -> p = q.
  Proof.
    unfold names_of. intros W F. revert q. induction F as [|k x p p' Hk F IH]; intros q G; inversion G; subst; [reflexivity|].
    f_equal; [eapply (name_at_inj teqb tltb); eauto | apply IH; assumption].
  Qed.

  Lemma names_of_names (g1 g2 : gstate) p p' : names g1 = names g2 -> names_of g1 p p' -> names_of g2 p p'.
  Proof.
    intros Hn F. unfold names_of in *. eapply Forall2_imp; [|exact F]. intros k x Hk. cbn beta in *.
    rewrite <- (name_at_names g1 g2 k Hn). exact Hk.
  Qed.

  (* ================================================================ C04: the reported path list, exactly *)
  (* first_only = false, with_paths = true, positive arcs: the path list of every reported
     name is duplicate free and consists of exactly the name forms of the shortest paths of
     the edge-store graph from the source to that node *)
  Theorem wf_single_source_paths_exact (g : gstate) weighted source target cutoff si :
    WF g -> small_adj g -> (weighted = true -> weights_nonneg g) ->
    a_positive (edge_arc g weighted) ->
    name_at g si = Some source ->
    (forall t, target = Some t -> In t (names g)) ->
    cutoff_exceeded cutoff 0 = false ->
    exists m,
      single_source teqb g weighted source target cutoff false true = Ok m /\
      forall y info, lookup teqb y m = Some info ->
        exists j, name_at g j = Some y /\
          a_is_dist (edge_arc g weighted) (n_of g) si j (sp_distance info) /\
          NoDup (sp_paths info) /\
          forall p', In p' (sp_paths info) <->
                     exists p, names_of g p p' /\ a_SP (edge_arc g weighted) (n_of g) si j p.
  Proof.
    intros W Hs Hw Hpos Hsrc Ht Hc.
    destruct (wf_single_source teqb tltb teqb_spec tltb_total g weighted source target cutoff false true si W Hs Hw Hsrc Ht Hc)
      as [m [ti [r [Hm [Hti [[Hnd [Hent Hrep]] [A1 A2]]]]]]].
    exists m. split; [exact Hm|].
    intros y info Hl. destruct (A2 y info Hl) as [k [i [Hin [Hk [Hdist Hpaths]]]]]. exists k. split; [exact Hk|].
    assert (Hin' : In (k, (sp_distance i, sp_paths i)) (answer_of r)).
    { unfold answer_of. apply in_map_iff. exists (k, i). auto. }
    specialize (Hent _ Hin'). cbn in Hent. destruct Hent as [Hd [Hwi [Hnp Hwp]]].
    destruct (Hwp eq_refl) as [Hsound [_ Hall]]. destruct (Hall eq_refl Hpos) as [Hndp Hcomp].
    rewrite Hdist. split; [exact Hd|]. split.
    - apply (Forall2_NoDup_r (names_of g)) with (l := sp_paths i); [|exact Hpaths | exact Hndp].
      intros a b c Ha Hb. exact (names_of_inj g a b c W Ha Hb).
    - intros p'. split.
      + intros Hp'. destruct (Forall2_in_r _ _ _ _ Hpaths Hp') as [p [Hp Hnames]]. exists p. split; [exact Hnames|].
        apply Hsound. exact Hp.
      + intros [p [Hnames Hsp]]. destruct (Forall2_in_l _ _ _ _ Hpaths (Hcomp p Hsp)) as [p'' [Hp'' Hnames'']].
        rewrite (names_of_fun g p p' p'' Hnames Hnames''). exact Hp''.
  Qed.

  (* ================================================================ C03: all paths, same edge-store arcs *)
  Theorem paths_arcs_only (g1 g2 : gstate) weighted source target cutoff si :
    WF g1 -> WF g2 -> small_adj g1 -> small_adj g2 ->
    (weighted = true -> weights_nonneg g1) -> (weighted = true -> weights_nonneg g2) ->
    a_positive (edge_arc g1 weighted) ->
    names g1 = names g2 ->
    (forall i j c, edge_arc g1 weighted i j c <-> edge_arc g2 weighted i j c) ->
    name_at g1 si = Some source -> (forall t, target = Some t -> In t (names g1)) ->
    cutoff_exceeded cutoff 0 = false ->
    exists m1 m2,
      single_source teqb g1 weighted source target cutoff false true = Ok m1 /\
      single_source teqb g2 weighted source target cutoff false true = Ok m2 /\
      (forall y, target = None \/ target = Some y ->
                 option_map sp_distance (lookup teqb y m1) = option_map sp_distance (lookup teqb y m2)) /\
      (forall y i1 i2, lookup teqb y m1 = Some i1 -> lookup teqb y m2 = Some i2 ->
         sp_distance i1 = sp_distance i2 /\
         NoDup (sp_paths i1) /\ NoDup (sp_paths i2) /\
         (forall p, In p (sp_paths i1) <-> In p (sp_paths i2)) /\
         Permutation (sp_paths i1) (sp_paths i2)).
  Proof.
    intros W1 W2 S1 S2 N1 N2 Hpos Hn Harc Hsrc Ht Hc.
    assert (Hsrc2 : name_at g2 si = Some source) by (rewrite <- (name_at_names g1 g2 si Hn); exact Hsrc).
    assert (Ht2 : forall t, target = Some t -> In t (names g2)) by (intros t Et; rewrite <- Hn; apply Ht; exact Et).
    assert (Harc' : forall i j c, edge_arc g2 weighted i j c <-> edge_arc g1 weighted i j c) by (intros; symmetry; apply Harc).
    assert (Hpos2 : a_positive (edge_arc g2 weighted)).
    { intros u v w Huv. apply (Hpos u v w). apply Harc. exact Huv. }
    pose proof (n_of_names g1 g2 Hn) as Hnn.
    destruct (distances_arcs_only teqb tltb teqb_spec tltb_total g1 g2 weighted source target cutoff false true si
                W1 W2 S1 S2 N1 N2 Hn Harc Hsrc Ht Hc) as [m1 [m2 [E1 [E2 [Dany Dkey]]]]].
    destruct (wf_single_source_paths_exact g1 weighted source target cutoff si W1 S1 N1 Hpos Hsrc Ht Hc) as [m1' [E1' P1]].
    destruct (wf_single_source_paths_exact g2 weighted source target cutoff si W2 S2 N2 Hpos2 Hsrc2 Ht2 Hc) as [m2' [E2' P2]].
    assert (m1' = m1) by congruence. assert (m2' = m2) by congruence. subst m1' m2'.
    exists m1, m2. split; [exact E1|]. split; [exact E2|]. split; [exact Dkey|].
    intros y i1 i2 L1 L2. split; [exact (Dany y i1 i2 L1 L2)|].
    destruct (P1 y i1 L1) as [j1 [Hj1 [_ [Nd1 X1]]]]. destruct (P2 y i2 L2) as [j2 [Hj2 [_ [Nd2 X2]]]].
    rewrite (name_at_names g1 g2 j1 Hn) in Hj1.
    assert (j1 = j2) by (eapply (name_at_inj teqb tltb); eauto). subst j2.
    assert (Hiff : forall p, In p (sp_paths i1) <-> In p (sp_paths i2)).
    { intros p'. rewrite X1, X2. split; intros [p [Hnames Hsp]]; exists p; split.
      - exact (names_of_names g1 g2 p p' Hn Hnames).
      - rewrite <- Hnn. apply (a_SP_ext _ _ (n_of g1) Harc). exact Hsp.
      - exact (names_of_names g2 g1 p p' (eq_sym Hn) Hnames).
      - rewrite Hnn. apply (a_SP_ext _ _ (n_of g2) Harc'). exact Hsp. }
    split; [exact Nd1|]. split; [exact Nd2|]. split; [exact Hiff|].
    apply NoDup_Permutation; assumption.
  Qed.

  (* ================================================================ C03: first_only, same edge-store arcs *)
  (* each graph reports exactly one path per reported node; both are name forms of shortest
     paths of the common edge-store graph (stated over g1's names and arcs); they need not be
     equal: which shortest path is kept depends on the order of the adjacency rows *)
  Theorem first_path_arcs_only (g1 g2 : gstate) weighted source target cutoff si :
    WF g1 -> WF g2 -> small_adj g1 -> small_adj g2 ->
    (weighted = true -> weights_nonneg g1) -> (weighted = true -> weights_nonneg g2) ->
    names g1 = names g2 ->
    (forall i j c, edge_arc g1 weighted i j c <-> edge_arc g2 weighted i j c) ->
    name_at g1 si = Some source -> (forall t, target = Some t -> In t (names g1)) ->
    cutoff_exceeded cutoff 0 = false ->
    exists m1 m2,
      single_source teqb g1 weighted source target cutoff true true = Ok m1 /\
      single_source teqb g2 weighted source target cutoff true true = Ok m2 /\
      (forall y, target = None \/ target = Some y ->
                 option_map sp_distance (lookup teqb y m1) = option_map sp_distance (lookup teqb y m2)) /\
      (forall y i1 i2, lookup teqb y m1 = Some i1 -> lookup teqb y m2 = Some i2 ->
         sp_distance i1 = sp_distance i2 /\
         exists j p1 p2 q1 q2,
           name_at g1 j = Some y /\ sp_paths i1 = [p1] /\ sp_paths i2 = [p2] /\
           names_of g1 q1 p1 /\ a_SP (edge_arc g1 weighted) (n_of g1) si j q1 /\
           names_of g1 q2 p2 /\ a_SP (edge_arc g1 weighted) (n_of g1) si j q2).
  Proof.
    intros W1 W2 S1 S2 N1 N2 Hn Harc Hsrc Ht Hc.
    assert (Hsrc2 : name_at g2 si = Some source) by (rewrite <- (name_at_names g1 g2 si Hn); exact Hsrc).
    assert (Ht2 : forall t, target = Some t -> In t (names g2)) by (intros t Et; rewrite <- Hn; apply Ht; exact Et).
    assert (Harc' : forall i j c, edge_arc g2 weighted i j c <-> edge_arc g1 weighted i j c) by (intros; symmetry; apply Harc).
    pose proof (n_of_names g1 g2 Hn) as Hnn.
    destruct (distances_arcs_only teqb tltb teqb_spec tltb_total g1 g2 weighted source target cutoff true true si
                W1 W2 S1 S2 N1 N2 Hn Harc Hsrc Ht Hc) as [m1 [m2 [E1 [E2 [Dany Dkey]]]]].
    destruct (wf_single_source_answer teqb tltb teqb_spec tltb_total g1 weighted source target cutoff true true si W1 S1 N1 Hsrc Ht Hc)
      as [m1' [E1' [P1 _]]].
    destruct (wf_single_source_answer teqb tltb teqb_spec tltb_total g2 weighted source target cutoff true true si W2 S2 N2 Hsrc2 Ht2 Hc)
      as [m2' [E2' [P2 _]]].
    assert (m1' = m1) by congruence. assert (m2' = m2) by congruence. subst m1' m2'.
    exists m1, m2. split; [exact E1|]. split; [exact E2|]. split; [exact Dkey|].
    intros y i1 i2 L1 L2. split; [exact (Dany y i1 i2 L1 L2)|].
    destruct (P1 y i1 L1) as [j1 [Hj1 [_ [_ [_ [Snd1 [One1 _]]]]]]].
    destruct (P2 y i2 L2) as [j2 [Hj2 [_ [_ [_ [Snd2 [One2 _]]]]]]].
    pose proof Hj1 as Hj1'. rewrite (name_at_names g1 g2 j1 Hn) in Hj1'.
    assert (j1 = j2) by (eapply (name_at_inj teqb tltb); eauto). subst j2.
    specialize (One1 eq_refl eq_refl). specialize (One2 eq_refl eq_refl).
    destruct (sp_paths i1) as [|p1 [|? ?]] eqn:Ep1; cbn in One1; try discriminate.
    destruct (sp_paths i2) as [|p2 [|? ?]] eqn:Ep2; cbn in One2; try discriminate.
    destruct (Snd1 p1 (or_introl eq_refl)) as [q1 [Hq1 Hsp1]].
    destruct (Snd2 p2 (or_introl eq_refl)) as [q2 [Hq2 Hsp2]].
    exists j1, p1, p2, q1, q2. split; [exact Hj1|]. split; [reflexivity|]. split; [reflexivity|].
    split; [exact Hq1|]. split; [exact Hsp1|]. split.
    - exact (names_of_names g2 g1 q2 p2 (eq_sym Hn) Hq2).
    - rewrite Hnn. apply (a_SP_ext _ _ (n_of g2) Harc'). exact Hsp2.
  Qed.

  (* ================================================================ for reachable graphs, possibly under different GraphSpecs *)
  Notation reachable := (reachable teqb tltb).

  Lemma positive_of_real_positive (g : gstate) : weights_real_positive g -> weights_positive g.
  Proof. intros H e z He Hz. destruct (H e He) as [z' [Hz' Hp]]. assert (z = z') by congruence. subst. exact Hp. Qed.

  Lemma nonneg_of_positive (g : gstate) : weights_positive g -> weights_nonneg g.
  Proof. intros H e z He Hz. pose proof (H e z He Hz). lia. Qed.

  Theorem paths_edge_store_only (s1 s2 : specs) (g1 g2 : gstate) weighted source target cutoff si :
    reachable s1 g1 -> reachable s2 g2 -> directed s1 = directed s2 ->
    names g1 = names g2 -> Permutation (get_all_edges g1) (get_all_edges g2) ->
    small_adj g1 -> small_adj g2 ->
    (weighted = true -> weights_real_positive g1) ->
    name_at g1 si = Some source -> (forall t, target = Some t -> In t (names g1)) ->
    cutoff_exceeded cutoff 0 = false ->
    exists m1 m2,
      single_source teqb g1 weighted source target cutoff false true = Ok m1 /\
      single_source teqb g2 weighted source target cutoff false true = Ok m2 /\
      (forall y, target = None \/ target = Some y ->
                 option_map sp_distance (lookup teqb y m1) = option_map sp_distance (lookup teqb y m2)) /\
      (forall y i1 i2, lookup teqb y m1 = Some i1 -> lookup teqb y m2 = Some i2 ->
         sp_distance i1 = sp_distance i2 /\
         NoDup (sp_paths i1) /\ NoDup (sp_paths i2) /\
         (forall p, In p (sp_paths i1) <-> In p (sp_paths i2)) /\
         Permutation (sp_paths i1) (sp_paths i2)).
  Proof.
    intros R1 R2 Hd Hn HP S1 S2 Hw Hsrc Ht Hc.
    destruct (reachable_pair teqb tltb teqb_spec tltb_asym tltb_total s1 s2 g1 g2 R1 R2 Hd) as [W1 [W2 Hd']].
    assert (P1 : weighted = true -> weights_positive g1) by (intros E; apply positive_of_real_positive; apply Hw; exact E).
    assert (N1 : weighted = true -> weights_nonneg g1) by (intros E; apply nonneg_of_positive; apply P1; exact E).
    apply (paths_arcs_only g1 g2 weighted source target cutoff si); try assumption.
    - intros E. apply (weights_nonneg_perm g1 g2 HP). apply N1. exact E.
    - apply (edge_arc_positive teqb). exact P1.
    - apply (edge_arc_edge_multiset teqb tltb teqb_spec tltb_total); try assumption.
      intros E. apply real_of_positive. apply Hw. exact E.
  Qed.

  Theorem first_path_edge_store_only (s1 s2 : specs) (g1 g2 : gstate) weighted source target cutoff si :
    reachable s1 g1 -> reachable s2 g2 -> directed s1 = directed s2 ->
    names g1 = names g2 -> Permutation (get_all_edges g1) (get_all_edges g2) ->
    small_adj g1 -> small_adj g2 ->
    (weighted = true -> weights_nonneg g1 /\ weights_real g1) ->
    name_at g1 si = Some source -> (forall t, target = Some t -> In t (names g1)) ->
    cutoff_exceeded cutoff 0 = false ->
    exists m1 m2,
      single_source teqb g1 weighted source target cutoff true true = Ok m1 /\
      single_source teqb g2 weighted source target cutoff true true = Ok m2 /\
      (forall y, target = None \/ target = Some y ->
                 option_map sp_distance (lookup teqb y m1) = option_map sp_distance (lookup teqb y m2)) /\
      (forall y i1 i2, lookup teqb y m1 = Some i1 -> lookup teqb y m2 = Some i2 ->
         sp_distance i1 = sp_distance i2 /\
         exists j p1 p2 q1 q2,
           name_at g1 j = Some y /\ sp_paths i1 = [p1] /\ sp_paths i2 = [p2] /\
           names_of g1 q1 p1 /\ a_SP (edge_arc g1 weighted) (n_of g1) si j q1 /\
           names_of g1 q2 p2 /\ a_SP (edge_arc g1 weighted) (n_of g1) si j q2).
  Proof.
    intros R1 R2 Hd Hn HP S1 S2 Hw Hsrc Ht Hc.
    destruct (reachable_pair teqb tltb teqb_spec tltb_asym tltb_total s1 s2 g1 g2 R1 R2 Hd) as [W1 [W2 Hd']].
    apply (first_path_arcs_only g1 g2 weighted source target cutoff si); try assumption.
    - intros E. apply (Hw E).
    - intros E. apply (weights_nonneg_perm g1 g2 HP). apply (Hw E).
    - apply (edge_arc_edge_multiset teqb tltb teqb_spec tltb_total); try assumption. intros E. apply (Hw E).
  Qed.
End PathsStoreOnly.
