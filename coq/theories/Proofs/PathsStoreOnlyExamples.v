(* Non-vacuity of the "edge store only" theorems for PATHS (Proofs/PathsStoreOnly.v), and the
   two things they deliberately do not claim, all by evaluation of the model.

   [pa_g]: directed, KeepLast, nodes created on demand; the history adds the diamond
   1->2 (weight 5), 1->3 (1), 2->4 (1), 3->4 (1) with the tail 4->5 (2) and then 1->2 again with
   weight 1, which REPLACES the stored weight.
   [pa_g']: directed, KeepFirst, nodes must exist; the nodes are added first, the edges in
   another order, and two later duplicates 1->2 (9), 1->3 (7) are IGNORED.
   Same node list, same edge multiset in another order, different rows of successors_vec.
   Node 4 has two shortest paths of length 2 (node 5 two of length 4): both graphs report
   both, each once — in a DIFFERENT ORDER; with first_only they report DIFFERENT single paths.

   [zw_g1], [zw_g2]: the same GraphSpecs, the same nodes, edges 1->2 (1), 1->3 (1), 2->3 (0)
   inserted in two orders.  The shortest paths from 1 to 3 are 1-3 and 1-2-3 (both of length 1);
   [zw_g1] reports only 1-3 (node 3 is popped before node 2, and the zero-cost arc 2->3 into a
   finalised node is not followed), [zw_g2] reports both: with a zero weight the reported path
   SET depends on the history — the positivity premise of the all-paths theorems is necessary
   (it is the premise of C04's all-paths clause). *)
From Coq Require Import String List Bool ZArith QArith Arith Lia Permutation.
From GV Require Import Base.Outcome Base.AMap Model.GState Model.Creation Model.Query Model.Dijkstra.
From GV Require Import Spec.History Spec.EdgeStoreGraph Spec.EdgeStoreAdj.
From GV Require Import Proofs.WFDefs Proofs.HistoryOk Proofs.DijkstraWFExamples.
Import ListNotations.

Definition pa_edge (u v w : Z) : edge Z Z := mkedge u v (Some w) None.

Definition pa_specs : specs := mkspecs true DKeepLast MCreate false true SErr.
Definition pa_history : list (mutation Z Z) :=
  [MutEdges [pa_edge 1 2 5; pa_edge 1 3 1; pa_edge 2 4 1; pa_edge 3 4 1; pa_edge 4 5 2];
   MutEdge (pa_edge 1 2 1)].
Definition pa_g : gstate Z Z := run_muts Z.eqb Z.ltb (new pa_specs) pa_history.

Definition pa_specs' : specs := mkspecs true DKeepFirst MErr false false SDrop.
Definition pa_history' : list (mutation Z Z) :=
  [MutNodes [mknode 1%Z None; mknode 2%Z None; mknode 3%Z None; mknode 4%Z None; mknode 5%Z None];
   MutEdge (pa_edge 4 5 2); MutEdge (pa_edge 3 4 1); MutEdge (pa_edge 1 3 1); MutEdge (pa_edge 2 4 1);
   MutEdge (pa_edge 1 2 1); MutEdge (pa_edge 1 2 9); MutEdge (pa_edge 1 3 7)].
Definition pa_g' : gstate Z Z := run_muts Z.eqb Z.ltb (new pa_specs') pa_history'.

Lemma pa_g_reachable : reachable Z.eqb Z.ltb pa_specs pa_g.
Proof. exists pa_history. reflexivity. Qed.
Lemma pa_g'_reachable : reachable Z.eqb Z.ltb pa_specs' pa_g'.
Proof. exists pa_history'. reflexivity. Qed.

Lemma pa_g_positive : weights_real_positive pa_g.
Proof.
  intros e He. vm_compute in He. destruct He as [<-|[<-|[<-|[<-|[<-|[]]]]]]; eexists; split; try reflexivity; reflexivity.
Qed.

Definition paths_to (y : Z) (r : outcome (list (Z * spinfo Z))) : option (list (list Z)) :=
  match r with Ok m => option_map sp_paths (lookup Z.eqb y m) | _ => None end.

Example paths_edge_store_only_nonvacuous :
  reachable Z.eqb Z.ltb pa_specs pa_g /\ reachable Z.eqb Z.ltb pa_specs' pa_g' /\
  pa_specs <> pa_specs' /\ directed pa_specs = directed pa_specs' /\
  names pa_g = [1; 2; 3; 4; 5]%Z /\ names pa_g = names pa_g' /\ weights_real_positive pa_g /\
  Permutation (get_all_edges pa_g) (get_all_edges pa_g') /\
  get_all_edges pa_g <> get_all_edges pa_g' /\ successors_vec pa_g <> successors_vec pa_g' /\
  small_adj pa_g /\ small_adj pa_g' /\ name_at pa_g 0 = Some 1%Z /\
  (* all shortest paths: the same paths, each once, in another order *)
  paths_to 4 (single_source Z.eqb pa_g true 1%Z None None false true) = Some [[1; 3; 4]; [1; 2; 4]]%Z /\
  paths_to 4 (single_source Z.eqb pa_g' true 1%Z None None false true) = Some [[1; 2; 4]; [1; 3; 4]]%Z /\
  paths_to 5 (single_source Z.eqb pa_g true 1%Z None None false true) = Some [[1; 3; 4; 5]; [1; 2; 4; 5]]%Z /\
  paths_to 5 (single_source Z.eqb pa_g' true 1%Z None None false true) = Some [[1; 2; 4; 5]; [1; 3; 4; 5]]%Z /\
  (* first_only: one shortest path each, not the same one *)
  paths_to 4 (single_source Z.eqb pa_g true 1%Z None None true true) = Some [[1; 3; 4]]%Z /\
  paths_to 4 (single_source Z.eqb pa_g' true 1%Z None None true true) = Some [[1; 2; 4]]%Z.
Proof.
  split; [exact pa_g_reachable|]. split; [exact pa_g'_reachable|].
  split; [discriminate|]. split; [reflexivity|]. split; [vm_compute; reflexivity|]. split; [vm_compute; reflexivity|].
  split; [exact pa_g_positive|].
  split; [|split; [vm_compute; discriminate|split; [vm_compute; discriminate|]]].
  2:{ split; [vm_compute; reflexivity|]. split; [vm_compute; reflexivity|]. split; [vm_compute; reflexivity|].
      split; [vm_compute; reflexivity|]. split; [vm_compute; reflexivity|]. split; [vm_compute; reflexivity|].
      split; [vm_compute; reflexivity|]. split; vm_compute; reflexivity. }
  vm_compute.
  (* [e12; e13; e24; e34; e45]  ~  [e45; e34; e13; e24; e12] *)
  apply Permutation_sym.
  apply (Permutation_cons_app [pa_edge 1 2 1; pa_edge 1 3 1; pa_edge 2 4 1; pa_edge 3 4 1] [] (pa_edge 4 5 2)).
  apply (Permutation_cons_app [pa_edge 1 2 1; pa_edge 1 3 1; pa_edge 2 4 1] [] (pa_edge 3 4 1)).
  apply (Permutation_cons_app [pa_edge 1 2 1] [pa_edge 2 4 1] (pa_edge 1 3 1)).
  apply (Permutation_cons_app [pa_edge 1 2 1] [] (pa_edge 2 4 1)).
  apply Permutation_refl.
Qed.

(* ------------------------------------------------------------------ a zero weight: the path SET depends on the history *)
Definition zw_nodes : mutation Z Z := MutNodes [mknode 1%Z None; mknode 2%Z None; mknode 3%Z None].
Definition zw_history1 : list (mutation Z Z) := [zw_nodes; MutEdges [pa_edge 1 2 1; pa_edge 1 3 1; pa_edge 2 3 0]].
Definition zw_history2 : list (mutation Z Z) := [zw_nodes; MutEdges [pa_edge 1 3 1; pa_edge 1 2 1; pa_edge 2 3 0]].
Definition zw_g1 : gstate Z Z := run_muts Z.eqb Z.ltb (new pa_specs) zw_history1.
Definition zw_g2 : gstate Z Z := run_muts Z.eqb Z.ltb (new pa_specs) zw_history2.

Example paths_zero_weight_depend_on_history :
  reachable Z.eqb Z.ltb pa_specs zw_g1 /\ reachable Z.eqb Z.ltb pa_specs zw_g2 /\
  names zw_g1 = names zw_g2 /\ Permutation (get_all_edges zw_g1) (get_all_edges zw_g2) /\
  small_adj zw_g1 /\ small_adj zw_g2 /\ weights_nonneg zw_g1 /\ weights_real zw_g1 /\
  name_at zw_g1 0 = Some 1%Z /\
  paths_to 3 (single_source Z.eqb zw_g1 true 1%Z None None false true) = Some [[1; 3]]%Z /\
  paths_to 3 (single_source Z.eqb zw_g2 true 1%Z None None false true) = Some [[1; 3]; [1; 2; 3]]%Z.
Proof.
  split; [exists zw_history1; reflexivity|]. split; [exists zw_history2; reflexivity|].
  split; [vm_compute; reflexivity|]. split; [vm_compute; apply perm_swap|].
  split; [vm_compute; reflexivity|]. split; [vm_compute; reflexivity|].
  split; [intros e z He Hz; vm_compute in He; destruct He as [<-|[<-|[<-|[]]]]; cbn in Hz; inversion Hz; lia|].
  split; [intros e He; vm_compute in He; destruct He as [<-|[<-|[<-|[]]]]; eexists; reflexivity|].
  split; [vm_compute; reflexivity|]. split; vm_compute; reflexivity.
Qed.
