(* C05, weighted mode: the path enumeration behind [spec_sp] is exact for
   positive integer costs.  For an adjacency with one entry per neighbour, every
   simple path is listed once with its weight [pwz] (sum of the costs of its
   edges), and [spec_sp g s t] is, without repetition, exactly the set of simple
   s-t paths of minimal weight. *)
From Coq Require Import List Bool ZArith Arith QArith Lia Lqa.
From GV Require Import Model.Cent Spec.BetweennessDef Spec.ClosenessDef Proofs.CentBase Proofs.BrandesOk Proofs.BrandesAccOk.
From GV Require Import Proofs.ClosenessOk Proofs.ClosenessBfsOk Proofs.PathsOk Proofs.DijkstraOk.
Import ListNotations.
Open Scope list_scope.

(* cost of the edge u -> w (the first entry for w in row u; 0 when there is none) *)
Definition ecz (g : qadj) (u w : nat) : Z :=
  match find (fun a => Nat.eqb (fst a) w) (get [] g u) with
  | Some a => Qnum (snd a)
  | None => 0%Z
  end.

(* weight of a path *)
Fixpoint pwz (g : qadj) (p : list nat) : Z :=
  match p with
  | u :: ((w :: _) as rest) => (ecz g u w + pwz g rest)%Z
  | _ => 0%Z
  end.

Lemma pwz_cons : forall g u w rest, pwz g (u :: w :: rest) = (ecz g u w + pwz g (w :: rest))%Z.
Proof. reflexivity. Qed.

Lemma pwz_snoc : forall g p t, p <> [] -> pwz g (p ++ [t]) = (pwz g p + ecz g (last p t) t)%Z.
Proof.
  intros g. induction p as [|a rest IH]; intros t Hne; [congruence|].
  destruct rest as [|b rest'].
  - cbn. lia.
  - change ((a :: b :: rest') ++ [t]) with (a :: b :: (rest' ++ [t])).
    rewrite pwz_cons. change (b :: rest' ++ [t]) with ((b :: rest') ++ [t]).
    rewrite (IH t ltac:(discriminate)). rewrite pwz_cons.
    change (last (a :: b :: rest') t) with (last (b :: rest') t). lia.
Qed.

Section PathsW.
  Variable g : qadj.
  Notation n := (length g).
  Hypothesis Hok : adj_ok n g = true.
  Hypothesis Hrows : forall v, NoDup (map fst (get [] g v)).
  Hypothesis Hcost : forall v e, In e (get [] g v) -> exists c, snd e = inject_Z c /\ (0 < c)%Z.

  Lemma ecz_in : forall u w c, In (w, inject_Z c) (get [] g u) -> ecz g u w = c.
  Proof.
    intros u w c Hin. unfold ecz.
    destruct (find (fun a => Nat.eqb (fst a) w) (get [] g u)) as [a|] eqn:Ef.
    - apply find_some in Ef. destruct Ef as [Ha Hf]. apply Nat.eqb_eq in Hf.
      assert (Ea : a = (w, inject_Z c)) by (apply (fst_inj_row (get [] g u)); auto).
      subst a. reflexivity.
    - exfalso. pose proof (find_none _ _ Ef _ Hin) as X. cbn [fst] in X. rewrite Nat.eqb_refl in X. discriminate.
  Qed.

  Lemma ecz_E : forall u w, E g u w -> In (w, inject_Z (ecz g u w)) (get [] g u) /\ (0 < ecz g u w)%Z.
  Proof.
    intros u w He. unfold E in He. apply in_map_iff in He. destruct He as [[w' cq] [Ew Ha]]. cbn [fst] in Ew. subst w'.
    destruct (Hcost u _ Ha) as [c [Ec Hc]]. cbn [snd] in Ec. subst cq.
    rewrite (ecz_in u w c Ha). auto.
  Qed.

  Lemma ecz_nonneg : forall u w, (0 <= ecz g u w)%Z.
  Proof.
    intros u w. unfold ecz. destruct (find (fun a => Nat.eqb (fst a) w) (get [] g u)) as [a|] eqn:Ef; [|lia].
    apply find_some in Ef. destruct Ef as [Ha _]. destruct (Hcost u a Ha) as [c [Ec Hc]]. rewrite Ec. cbn. lia.
  Qed.

  Lemma pwz_nonneg : forall p, (0 <= pwz g p)%Z.
  Proof.
    induction p as [|a rest IH]; [cbn; lia|]. destruct rest as [|b rest']; [cbn; lia|].
    rewrite pwz_cons. pose proof (ecz_nonneg a b). lia.
  Qed.

  (* ---------------------------------------------------------------- soundness, with the weight *)
  Lemma simple_paths_sound_w : forall fuel vis u t p c,
    In (p, c) (simple_paths fuel g vis u t) ->
    path_from_to g p u t /\ NoDup p /\ (forall x, In x (tl p) -> ~ In x vis) /\
    c = inject_Z (pwz g p) /\ (length p <= fuel)%nat.
  Proof.
    induction fuel as [|f IH]; intros vis u t p c H; cbn [simple_paths] in H; [destruct H|].
    revert H. destruct (Nat.eqb u t) eqn:E0; intro H.
    - apply Nat.eqb_eq in E0. subst t. destruct H as [H|[]]. inversion H. subst.
      split; [repeat split|]. split; [constructor; [intros []|constructor]|]. split; [intros x []|].
      split; [reflexivity | cbn; lia].
    - apply in_flat_map in H. destruct H as [[w cw] [Hin H]]. cbn [fst snd] in H.
      revert H. destruct (nmem w (u :: vis)) eqn:Em; intro H; [destruct H|].
      apply nmem_false in Em.
      apply in_map_iff in H. destruct H as [[p' c'] [Heq Hp']]. cbn [fst snd] in Heq. apply pair_equal_spec in Heq. destruct Heq as [Ep Ec]. subst p c.
      destruct (IH _ _ _ _ _ Hp') as [[Hpath [Hhd Hlast]] [Hnd [Hvis [Hc Hlen]]]].
      destruct p' as [|y rest]; [destruct Hpath|]. cbn in Hhd. inversion Hhd. subst y.
      assert (Hall : forall x, In x (w :: rest) -> ~ In x (u :: vis)).
      { intros x [Hx|Hx]; [subst; exact Em | apply Hvis; exact Hx]. }
      split; [|split; [|split; [|split]]].
      + split; [|split].
        * apply is_path_cons. split; [|exact Hpath]. unfold E. apply in_map_iff. exists (w, cw). auto.
        * reflexivity.
        * change (last (u :: w :: rest) u) with (last (w :: rest) u).
          rewrite (last_cons_indep rest w u w). exact Hlast.
      + constructor; [|exact Hnd]. intro X. apply (Hall u X). left. reflexivity.
      + intros x Hx. cbn [tl] in Hx. intro Hv. apply (Hall x Hx). right. exact Hv.
      + destruct (Hcost u _ Hin) as [cz [Ecz _]]. cbn [snd] in Ecz. subst cw.
        rewrite Hc. rewrite Qred_inject_add. rewrite pwz_cons. rewrite (ecz_in u w cz Hin). reflexivity.
      + cbn [length] in *. lia.
  Qed.

  (* ---------------------------------------------------------------- every path is listed once *)
  Lemma simple_paths_nodup_w : forall fuel vis u t, NoDup (map fst (simple_paths fuel g vis u t)).
  Proof.
    induction fuel as [|f IH]; intros vis u t; cbn [simple_paths]; [constructor|].
    destruct (Nat.eqb u t); [cbn; constructor; [intros []|constructor]|].
    rewrite map_flat_map. apply NoDup_flat_map.
    - apply (NoDup_map_inv fst). apply Hrows.
    - intros a Ha. destruct (nmem (fst a) (u :: vis)); [constructor|].
      rewrite map_map. cbn [fst].
      rewrite <- (map_map fst (cons u)). apply NoDup_map_inj; [|apply IH].
      intros p1 p2 _ _ Eq. inversion Eq. reflexivity.
    - intros a1 a2 y H1 H2 Hy1 Hy2. apply (fst_inj_row (get [] g u)); auto.
      destruct (nmem (fst a1) (u :: vis)); [destruct Hy1|]. destruct (nmem (fst a2) (u :: vis)); [destruct Hy2|].
      apply in_map_iff in Hy1. destruct Hy1 as [[y1 c1] [E1 Hy1]]. apply in_map_iff in Hy1. destruct Hy1 as [[p1 d1] [E1' Hp1]].
      apply in_map_iff in Hy2. destruct Hy2 as [[y2 c2] [E2 Hy2]]. apply in_map_iff in Hy2. destruct Hy2 as [[p2 d2] [E2' Hp2]].
      cbn [fst snd] in E1, E2, E1', E2'.
      apply pair_equal_spec in E1'. destruct E1' as [E1' _]. apply pair_equal_spec in E2'. destruct E2' as [E2' _].
      assert (Hpp : p1 = p2). { assert (X : u :: p1 = u :: p2) by congruence. inversion X. reflexivity. }
      subst p2.
      destruct (simple_paths_sound _ _ _ _ _ _ _ Hp1) as [_ [Hh1 _]].
      destruct (simple_paths_sound _ _ _ _ _ _ _ Hp2) as [_ [Hh2 _]].
      rewrite Hh1 in Hh2. inversion Hh2. reflexivity.
  Qed.

  (* ---------------------------------------------------------------- SP s t *)
  Theorem spec_sp_char_w : forall s t mz, (s < n)%nat ->
    (exists p0, path_from_to g p0 s t /\ NoDup p0 /\ pwz g p0 = mz) ->
    (forall p, path_from_to g p s t -> NoDup p -> (mz <= pwz g p)%Z) ->
    NoDup (spec_sp g s t) /\
    forall p, In p (spec_sp g s t) <-> path_from_to g p s t /\ NoDup p /\ pwz g p = mz.
  Proof.
    intros s t mz Hs [p0 [Hp0 [Hnd0 Hl0]]] Hmin.
    assert (Hr0 : (length p0 <= n)%nat).
    { apply nodup_range_length; [exact Hnd0|]. destruct Hp0 as [A [B _]]. eapply path_nodes_range; eauto. }
    destruct (simple_paths_complete g n [] s t p0 Hp0 Hnd0 ltac:(intros x _ []) Hr0) as [c0 Hc0].
    destruct (simple_paths_sound_w _ _ _ _ _ _ Hc0) as [_ [_ [_ [Ec0 _]]]].
    unfold spec_sp. pose proof (min_cost_spec (simple_paths n g [] s t)) as HM.
    destruct (min_cost (simple_paths n g [] s t)) as [m|]; [|rewrite HM in Hc0; destruct Hc0].
    destruct HM as [[pm Hpm] Hle].
    assert (Em : m = inject_Z mz).
    { destruct (simple_paths_sound_w _ _ _ _ _ _ Hpm) as [Hpp [Hndm [_ [Ecm _]]]]. rewrite Ecm. f_equal.
      pose proof (Hmin _ Hpp Hndm) as X. pose proof (Hle _ _ Hc0) as Y. rewrite Ecm, Ec0 in Y. rewrite <- Zle_Qle in Y. lia. }
    subst m. split.
    - apply NoDup_map_filter. apply simple_paths_nodup_w.
    - intros p. rewrite in_map_iff. split.
      + intros [[p' c] [Ep Hin]]. cbn in Ep. subst p'. apply filter_In in Hin. destruct Hin as [Hin Hq].
        cbn [snd] in Hq.
        destruct (simple_paths_sound_w _ _ _ _ _ _ Hin) as [Hpp [Hndp [_ [Ec _]]]].
        split; [exact Hpp|]. split; [exact Hndp|].
        rewrite Ec in Hq. apply qeqb_inject in Hq. exact Hq.
      + intros [Hpp [Hndp Hl]].
        assert (Hr : (length p <= n)%nat).
        { apply nodup_range_length; [exact Hndp|]. destruct Hpp as [A [B _]]. eapply path_nodes_range; eauto. }
        destruct (simple_paths_complete g n [] s t p Hpp Hndp ltac:(intros x _ []) Hr) as [c Hc].
        exists (p, c). split; [reflexivity|]. apply filter_In. split; [exact Hc|]. cbn [snd].
        destruct (simple_paths_sound_w _ _ _ _ _ _ Hc) as [_ [_ [_ [Ec _]]]].
        rewrite Ec. apply qeqb_inject. exact Hl.
  Qed.

  (* ---------------------------------------------------------------- paths are walks of their weight *)
  Lemma path_walk_w : forall p u t, path_from_to g p u t -> walk (zof g) u t (pwz g p).
  Proof.
    induction p as [|a rest IH]; intros u t [Hp [Hh Hl]]; [destruct Hp|].
    cbn in Hh. inversion Hh. subst a. destruct rest as [|y rest'].
    - cbn in Hl. subst t. cbn. apply walk_nil.
    - apply (is_path_cons g) in Hp. destruct Hp as [He Hp].
      assert (Hw : walk (zof g) y t (pwz g (y :: rest'))).
      { apply IH. split; [exact Hp|]. split; [reflexivity|].
        change (last (u :: y :: rest') u) with (last (y :: rest') u) in Hl.
        rewrite (last_cons_indep rest' y y u). exact Hl. }
      rewrite pwz_cons. destruct (ecz_E u y He) as [Hin _].
      apply walk_cons with (w := y); [apply (in_zrow_zof g Hcost); exact Hin | exact Hw].
  Qed.
End PathsW.
