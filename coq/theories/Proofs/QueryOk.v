(* C02 / C09: under WF every read API of Model/Query.v is a function of the abstract graph
   (node list + edge multiset): pair lookups, per-node edge lists, neighbour queries,
   membership, counts and degrees. *)
From Coq Require Import String List Bool Arith ZArith Lia Permutation.
From GV Require Import Base.Outcome Base.AMap Model.GState Model.Creation Model.Query Spec.AGraph.
From GV Require Import Proofs.AMapOk Proofs.WFDefs Proofs.WFNode Proofs.WFAdj Proofs.WFEdge Proofs.Refine
     Proofs.AdjOk.
Import ListNotations.

(* ---- generic: concatenating the groups of a duplicate-free key list ---- *)
Section GroupsPerm.
  Context {K X : Type}.
  Variable keqb : K -> K -> bool.
  Hypothesis keqb_spec : forall x y, keqb x y = true <-> x = y.

  Lemma filter_pick_perm (m : list (K * list X)) (k : K) (l : list X) (p : K -> bool) :
    NoDup (keys m) -> lookup keqb k m = Some l -> p k = false ->
    Permutation (filter (fun kv => keqb (fst kv) k || p (fst kv)) m)
                ((k, l) :: filter (fun kv => p (fst kv)) m).
  Proof.
    induction m as [|[k0 l0] t IH]; intros Hnd Hl Hp; simpl in *; [discriminate|].
    inversion Hnd as [|? ? Hni Hnd']; subst.
    destruct (keqb k k0) eqn:E.
    - apply (proj1 (keqb_spec _ _)) in E. subst k0. inversion Hl. subst l0.
      rewrite (keqb_refl keqb keqb_spec k). simpl. rewrite Hp.
      apply perm_skip.
      assert (Hsame : filter (fun kv : K * list X => keqb (fst kv) k || p (fst kv)) t =
                      filter (fun kv => p (fst kv)) t).
      { apply filter_ext_in. intros [k1 l1] Hin. simpl.
        destruct (keqb k1 k) eqn:E1; [|reflexivity]. exfalso.
        apply (proj1 (keqb_spec _ _)) in E1. subst k1. apply Hni. apply (in_map fst) in Hin. exact Hin. }
      rewrite Hsame. apply Permutation_refl.
    - assert (keqb k0 k = false) as Ek.
      { destruct (keqb k0 k) eqn:E2; [|reflexivity]. apply (proj1 (keqb_spec _ _)) in E2. subst.
        rewrite (keqb_refl keqb keqb_spec k) in E. discriminate. }
      rewrite Ek. simpl. destruct (p k0).
      + eapply Permutation_trans; [apply perm_skip; apply (IH Hnd' Hl Hp)|]. apply perm_swap.
      + apply (IH Hnd' Hl Hp).
  Qed.

  Lemma flat_lookup_perm (m : list (K * list X)) : forall (ks : list K),
    NoDup (keys m) -> NoDup ks -> (forall k, In k ks -> lookup keqb k m <> None) ->
    Permutation (flat_map (fun k => or_default keqb k m) ks)
                (flat_map snd (filter (fun kv => mem keqb (fst kv) ks) m)).
  Proof.
    induction ks as [|k ks IH]; intros Hm Hks Hall.
    - simpl. assert (H : forall mm : list (K * list X), flat_map snd (filter (fun kv => mem keqb (fst kv) []) mm) = []).
      { induction mm as [|a mm IHm]; simpl; [reflexivity|exact IHm]. }
      rewrite H. constructor.
    - inversion Hks as [|? ? Hni Hks']; subst.
      destruct (lookup keqb k m) as [l|] eqn:El; [|exfalso; apply (Hall k (or_introl eq_refl)); exact El].
      cbn [flat_map]. unfold or_default at 1. rewrite El.
      assert (Hp : mem keqb k ks = false).
      { destruct (mem keqb k ks) eqn:E; [|reflexivity]. apply (mem_In keqb keqb_spec) in E. contradiction. }
      assert (Hf : filter (fun kv : K * list X => mem keqb (fst kv) (k :: ks)) m =
                   filter (fun kv => keqb (fst kv) k || mem keqb (fst kv) ks) m).
      { apply filter_ext. intros kv. reflexivity. }
      rewrite Hf.
      eapply Permutation_trans;
        [|apply Permutation_sym; apply Permutation_flat_map_snd;
          apply (filter_pick_perm m k l (fun k' => mem keqb k' ks) Hm El Hp)].
      simpl. apply Permutation_app_head. apply IH; try assumption.
      intros k' Hk'. apply Hall. right. exact Hk'.
  Qed.
End GroupsPerm.

Section QueryOk.
  Context {T A : Type}.
  Variable teqb : T -> T -> bool.
  Variable tltb : T -> T -> bool.
  Hypothesis teqb_spec : forall x y, teqb x y = true <-> x = y.
  Hypothesis tltb_asym : forall x y, tltb x y = true -> tltb y x = false.
  Hypothesis tltb_total : forall x y, tltb x y = false -> tltb y x = false -> x = y.

  Notation node := (node T A).
  Notation edge := (edge T A).
  Notation gstate := (gstate T A).
  Notation WF := (@WF T A teqb tltb).
  Notation names := (@names T A).
  Notation name_at := (@name_at T A).
  Notation group := (@group T A teqb).
  Notation cn := (cn tltb).
  Notation pspec := (peqb_spec teqb teqb_spec).
  Notation all_edges := (fun g : gstate => flat_map snd (edges g)).
  Notation stored_between := (stored_between teqb tltb).
  Let HnI := @has_name_In T A teqb tltb.

  (* ---------------- membership ---------------- *)
  Lemma contains_key_names (g : gstate) x :
    WF g -> contains_key teqb x (nodes_map g) = true <-> In x (names g).
  Proof. intros W. apply (HnI g x W). Qed.

  Lemma get_node_spec (g : gstate) x :
    WF g ->
    get_node teqb g x = Ok (find (fun n => teqb (nname n) x) (nodes_vec g)).
  Proof.
    intros W. unfold get_node.
    destruct (contains_key teqb x (nodes_map g)) eqn:E.
    - apply (contains_key_names g x W) in E. apply In_nth_error in E. destruct E as (i & Hi).
      pose proof (proj2 (wf_nmap _ _ _ W x i) Hi) as Hl. unfold get_node_index. rewrite Hl.
      unfold get_node_by_index. rewrite (wf_nrev _ _ _ W). f_equal.
      apply (proj1 (name_at_nodes g i x)) in Hi. destruct Hi as (n & Hn & En). rewrite Hn.
      (* the first node named x is the i-th one, by uniqueness of names *)
      pose proof (wf_nodup _ _ _ W) as Hnd. unfold WFDefs.names in Hnd.
      clear Hl. subst x. revert i Hn Hnd. generalize (nodes_vec g) as l.
      induction l as [|h t IH]; intros i Hn Hnd; [destruct i; discriminate|].
      simpl. destruct i; simpl in Hn.
      + inversion Hn. subst h. rewrite (proj2 (teqb_spec _ _) eq_refl). reflexivity.
      + simpl in Hnd. inversion Hnd as [|? ? Hni Hnd']; subst.
        destruct (teqb (nname h) (nname n)) eqn:Eh.
        * exfalso. apply teqb_spec in Eh. apply Hni. rewrite Eh.
          apply in_map. eapply nth_error_In. exact Hn.
        * apply (IH i Hn Hnd').
    - f_equal. symmetry.
      assert (Hall : forall n, In n (nodes_vec g) -> teqb (nname n) x = false).
      { intros n Hn. destruct (teqb (nname n) x) eqn:En; [|reflexivity]. exfalso.
        apply teqb_spec in En.
        assert (In x (names g)) by (rewrite <- En; apply in_map; exact Hn).
        apply (contains_key_names g x W) in H. congruence. }
      revert Hall. generalize (nodes_vec g) as l. induction l as [|h t IH]; intros Hall; [reflexivity|].
      simpl. rewrite (Hall h (or_introl eq_refl)). apply IH. intros n Hn. apply Hall. right. exact Hn.
  Qed.

  Lemma has_node_spec (g : gstate) x :
    WF g -> has_node teqb g x = Ok (existsb (fun n => teqb (nname n) x) (nodes_vec g)).
  Proof.
    intros W. unfold has_node. rewrite (get_node_spec g x W). simpl. f_equal.
    induction (nodes_vec g) as [|h t IH]; simpl; [reflexivity|].
    destruct (teqb (nname h) x); [reflexivity|exact IH].
  Qed.

  (* ---------------- pair lookups ---------------- *)
  Theorem get_edges_spec (g : gstate) u v :
    WF g ->
    get_edges teqb g u v =
    if negb (multi (sp g)) then Err WrongMethod
    else if negb (existsb (fun n => teqb (nname n) u) (nodes_vec g))
            || negb (existsb (fun n => teqb (nname n) v) (nodes_vec g)) then Err NodeNotFound
    else match stored_between g u v with [] => Err EdgeNotFound | l => Ok l end.
  Proof.
    intros W. unfold get_edges. destruct (negb (multi (sp g))); [reflexivity|].
    assert (Hk : forall x, contains_key teqb x (nodes_map g) = existsb (fun n => teqb (nname n) x) (nodes_vec g)).
    { intros x. pose proof (Hah := has_name_a_has teqb tltb teqb_spec g x W). unfold has_name in Hah.
      rewrite Hah. reflexivity. }
    rewrite !Hk.
    destruct (existsb (fun n => teqb (nname n) u) (nodes_vec g)) eqn:Eu; [|reflexivity].
    destruct (existsb (fun n => teqb (nname n) v) (nodes_vec g)) eqn:Ev; [|reflexivity]. simpl.
    rewrite <- Hk in Eu, Ev. apply (contains_key_names g u W) in Eu. apply (contains_key_names g v W) in Ev.
    apply In_nth_error in Eu. destruct Eu as (ui & Hui). apply In_nth_error in Ev. destruct Ev as (vi & Hvi).
    unfold get_node_index. rewrite (proj2 (wf_nmap _ _ _ W u ui) Hui), (proj2 (wf_nmap _ _ _ W v vi) Hvi).
    pose proof (group_idx_ci teqb tltb tltb_asym tltb_total g ui vi u v W Hui Hvi) as Hg.
    rewrite (stored_between_group teqb tltb teqb_spec g u v W).
    unfold get_edges_by_indexes, WFEdge.ci, WFDefs.group_idx in *.
    destruct (negb (directed (sp g)) && Nat.ltb vi ui); simpl in Hg.
    - destruct (lookup Nat.eqb vi (edges_map g)) as [m|].
      + rewrite Hg. destruct (group g (cn (sp g) u v)) as [l|] eqn:E; [|reflexivity].
        destruct (wf_egroup _ _ _ W _ _ E) as (Hne & _). destruct l; [congruence|reflexivity].
      + rewrite <- Hg. reflexivity.
    - destruct (lookup Nat.eqb ui (edges_map g)) as [m|].
      + rewrite Hg. destruct (group g (cn (sp g) u v)) as [l|] eqn:E; [|reflexivity].
        destruct (wf_egroup _ _ _ W _ _ E) as (Hne & _). destruct l; [congruence|reflexivity].
      + rewrite <- Hg. reflexivity.
  Qed.

  Theorem get_edge_spec (g : gstate) u v :
    WF g ->
    get_edge teqb g u v =
    if multi (sp g) then Err WrongMethod
    else if negb (existsb (fun n => teqb (nname n) u) (nodes_vec g))
            || negb (existsb (fun n => teqb (nname n) v) (nodes_vec g)) then Err NodeNotFound
    else match stored_between g u v with [] => Err EdgeNotFound | e :: _ => Ok e end.
  Proof.
    intros W. unfold get_edge. destruct (multi (sp g)); [reflexivity|].
    assert (Hk : forall x, contains_key teqb x (nodes_map g) = existsb (fun n => teqb (nname n) x) (nodes_vec g)).
    { intros x. pose proof (Hah := has_name_a_has teqb tltb teqb_spec g x W). unfold has_name in Hah.
      rewrite Hah. reflexivity. }
    rewrite !Hk.
    destruct (existsb (fun n => teqb (nname n) u) (nodes_vec g)) eqn:Eu; [|reflexivity].
    destruct (existsb (fun n => teqb (nname n) v) (nodes_vec g)) eqn:Ev; [|reflexivity]. simpl.
    rewrite <- Hk in Eu, Ev. apply (contains_key_names g u W) in Eu. apply (contains_key_names g v W) in Ev.
    apply In_nth_error in Eu. destruct Eu as (ui & Hui). apply In_nth_error in Ev. destruct Ev as (vi & Hvi).
    unfold get_node_index. rewrite (proj2 (wf_nmap _ _ _ W u ui) Hui), (proj2 (wf_nmap _ _ _ W v vi) Hvi).
    rewrite (get_edge_by_indexes_spec teqb tltb tltb_asym tltb_total g ui vi u v W Hui Hvi).
    rewrite (stored_between_group teqb tltb teqb_spec g u v W).
    destruct (group g (cn (sp g) u v)) as [l|] eqn:E; [|reflexivity].
    destruct (wf_egroup _ _ _ W _ _ E) as (Hne & _). destruct l; [congruence|reflexivity].
  Qed.

  (* on an undirected graph every pairwise query is symmetric, whatever the relation
     between the names' sort order and their insertion order *)
  Lemma stored_between_sym (g : gstate) u v :
    directed (sp g) = false -> stored_between g u v = stored_between g v u.
  Proof.
    intros Hd. unfold AdjOk.stored_between. rewrite (cn_sym tltb tltb_asym tltb_total _ _ _ Hd). reflexivity.
  Qed.

  Theorem get_edge_symmetric (g : gstate) u v :
    WF g -> directed (sp g) = false -> get_edge teqb g u v = get_edge teqb g v u.
  Proof.
    intros W Hd. rewrite !(get_edge_spec _ _ _ W), (stored_between_sym g u v Hd), orb_comm. reflexivity.
  Qed.

  Theorem get_edges_symmetric (g : gstate) u v :
    WF g -> directed (sp g) = false -> get_edges teqb g u v = get_edges teqb g v u.
  Proof.
    intros W Hd. rewrite !(get_edges_spec _ _ _ W), (stored_between_sym g u v Hd), orb_comm. reflexivity.
  Qed.

  (* ---------------- per-node edge lists ---------------- *)
  Definition out_edges_of (g : gstate) (x : T) : list edge := filter (fun e => teqb (eu e) x) (all_edges g).
  Definition in_edges_of (g : gstate) (x : T) : list edge := filter (fun e => teqb (ev e) x) (all_edges g).
  Definition touching (g : gstate) (x : T) : list edge :=
    filter (fun e => teqb (eu e) x || teqb (ev e) x) (all_edges g).

  Lemma collect_groups_ok (g : gstate) (keyof : T -> T * T) : forall ns,
    (forall n, In n ns -> group g (keyof n) <> None) ->
    collect_groups teqb g keyof ns = Ok (flat_map (fun k => or_default (peqb teqb) k (edges g)) (map keyof ns)).
  Proof.
    induction ns as [|n ns IH]; intros Hall; simpl; [reflexivity|].
    unfold q_peqb. destruct (lookup (peqb teqb) (keyof n) (edges g)) as [l|] eqn:El.
    - rewrite IH by (intros m Hm; apply Hall; right; exact Hm). simpl.
      unfold or_default at 2. rewrite El. reflexivity.
    - exfalso. apply (Hall n (or_introl eq_refl)). exact El.
  Qed.

  Lemma filter_flat_groups (m : list ((T * T) * list edge)) (q : edge -> bool) (p : T * T -> bool) :
    (forall k l e, In (k, l) m -> In e l -> q e = p k) ->
    filter q (flat_map snd m) = flat_map snd (filter (fun kv => p (fst kv)) m).
  Proof.
    induction m as [|[k l] t IH]; intros H; simpl; [reflexivity|].
    rewrite filter_app, IH by (intros k' l' e Hin He; apply (H k' l' e); [right; exact Hin | exact He]).
    destruct (p k) eqn:Ep; simpl.
    - rewrite (filter_all q l); [reflexivity|]. intros e He. rewrite (H k l e (or_introl eq_refl) He). exact Ep.
    - rewrite (filter_none q l); [reflexivity|]. intros e He. rewrite (H k l e (or_introl eq_refl) He). exact Ep.
  Qed.

  Lemma group_edge_key (g : gstate) k l e : WF g -> In (k, l) (edges g) -> In e l -> (eu e, ev e) = k.
  Proof.
    intros W Hin He.
    pose proof (In_lookup (peqb teqb) pspec _ _ _ (wf_ekeys _ _ _ W) Hin) as Hl.
    destruct (wf_egroup _ _ _ W _ _ Hl) as (_ & Hall & _). apply Hall. exact He.
  Qed.

  Lemma NoDup_map_inj {X Y} (f : X -> Y) (l : list X) :
    (forall a b, In a l -> In b l -> f a = f b -> a = b) -> NoDup l -> NoDup (map f l).
  Proof.
    induction l as [|h t IH]; intros Hinj Hnd; simpl; [constructor|].
    inversion Hnd as [|? ? Hni Hnd']; subst. constructor.
    - intros Hin. apply in_map_iff in Hin. destruct Hin as (b & Eb & Hb).
      assert (b = h) by (apply Hinj; [right; exact Hb | left; reflexivity | exact Eb]). subst. contradiction.
    - apply IH; [|exact Hnd']. intros a b Ha Hb. apply Hinj; right; assumption.
  Qed.

  (* out-edges of a node of a directed graph = the stored edges leaving it *)
  Theorem get_out_edges_for_node_spec (g : gstate) x :
    WF g -> directed (sp g) = true -> In x (names g) ->
    exists l, get_out_edges_for_node teqb g x = Ok l /\ Permutation l (out_edges_of g x).
  Proof.
    intros W Hd Hx. unfold get_out_edges_for_node. rewrite Hd. simpl.
    unfold node_is_none. rewrite (get_node_spec g x W). simpl.
    assert (Hfind : find (fun n => teqb (nname n) x) (nodes_vec g) <> None).
    { unfold WFDefs.names in Hx. apply in_map_iff in Hx. destruct Hx as (n & En & Hn).
      intros Hf. apply (find_none _ _ Hf) in Hn. rewrite (proj2 (teqb_spec _ _) En) in Hn. discriminate. }
    destruct (find _ _); [|congruence]. clear Hfind.
    destruct (wf_su _ _ _ W x) as (Hnd & Hmem). unfold name_set.
    change (match lookup teqb x (successors g) with Some l => l | None => [] end)
      with (or_default teqb x (successors g)).
    set (ss := or_default teqb x (successors g)) in *.
    assert (Hall : forall s, In s ss -> group g (x, s) <> None).
    { intros s Hs. apply Hmem in Hs. destruct Hs as (_ & _ & Hg). rewrite (cn_directed tltb _ _ _ Hd) in Hg. exact Hg. }
    rewrite (collect_groups_ok g (fun s => (x, s)) ss Hall).
    eexists. split; [reflexivity|].
    eapply Permutation_trans.
    - apply (flat_lookup_perm (peqb teqb) pspec (edges g) (map (fun s => (x, s)) ss)).
      + apply (wf_ekeys _ _ _ W).
      + apply NoDup_map_inj; [|exact Hnd]. intros a b _ _ H. inversion H. reflexivity.
      + intros k Hk. apply in_map_iff in Hk. destruct Hk as (s & <- & Hs). apply Hall. exact Hs.
    - unfold out_edges_of.
      rewrite (filter_flat_groups (edges g) (fun e => teqb (eu e) x)
                 (fun k => mem (peqb teqb) k (map (fun s => (x, s)) ss))); [apply Permutation_refl|].
      intros k l e Hin He. pose proof (group_edge_key g k l e W Hin He) as Hk.
      assert (Hgk : group g k <> None).
      { unfold WFDefs.group. rewrite (In_lookup (peqb teqb) pspec _ _ _ (wf_ekeys _ _ _ W) Hin). discriminate. }
      destruct (teqb (eu e) x) eqn:E.
      + apply teqb_spec in E. symmetry. apply (mem_In (peqb teqb) pspec). apply in_map_iff.
        exists (ev e). split; [rewrite <- Hk, E; reflexivity|].
        apply Hmem. rewrite (cn_directed tltb _ _ _ Hd). rewrite <- E, Hk.
        destruct (wf_egroup _ _ _ W k l) as (_ & _ & Hf & Hs & _).
        { unfold WFDefs.group. apply (In_lookup (peqb teqb) pspec _ _ _ (wf_ekeys _ _ _ W) Hin). }
        rewrite <- Hk in Hf, Hs. simpl in Hf, Hs. repeat split; assumption.
      + symmetry. destruct (mem (peqb teqb) k (map (fun s => (x, s)) ss)) eqn:Em; [|reflexivity]. exfalso.
        apply (mem_In (peqb teqb) pspec) in Em. apply in_map_iff in Em. destruct Em as (s & Es & _).
        rewrite <- Hk in Es. inversion Es. subst. rewrite (proj2 (teqb_spec _ _) eq_refl) in E. discriminate.
  Qed.

  Theorem get_in_edges_for_node_spec (g : gstate) y :
    WF g -> directed (sp g) = true -> In y (names g) ->
    exists l, get_in_edges_for_node teqb g y = Ok l /\ Permutation l (in_edges_of g y).
  Proof.
    intros W Hd Hy. unfold get_in_edges_for_node. rewrite Hd. simpl.
    unfold node_is_none. rewrite (get_node_spec g y W). simpl.
    assert (Hfind : find (fun n => teqb (nname n) y) (nodes_vec g) <> None).
    { unfold WFDefs.names in Hy. apply in_map_iff in Hy. destruct Hy as (n & En & Hn).
      intros Hf. apply (find_none _ _ Hf) in Hn. rewrite (proj2 (teqb_spec _ _) En) in Hn. discriminate. }
    destruct (find _ _); [|congruence]. clear Hfind.
    destruct (wf_pr _ _ _ W y) as (Hnd & Hmem). unfold name_set.
    change (match lookup teqb y (predecessors g) with Some l => l | None => [] end)
      with (or_default teqb y (predecessors g)).
    set (ps := or_default teqb y (predecessors g)) in *.
    assert (Hall : forall p, In p ps -> group g (p, y) <> None).
    { intros p Hp. apply Hmem in Hp. destruct Hp as (_ & Hg). exact Hg. }
    rewrite (collect_groups_ok g (fun p => (p, y)) ps Hall).
    eexists. split; [reflexivity|].
    eapply Permutation_trans.
    - apply (flat_lookup_perm (peqb teqb) pspec (edges g) (map (fun p => (p, y)) ps)).
      + apply (wf_ekeys _ _ _ W).
      + apply NoDup_map_inj; [|exact Hnd]. intros a b _ _ H. inversion H. reflexivity.
      + intros k Hk. apply in_map_iff in Hk. destruct Hk as (p & <- & Hp). apply Hall. exact Hp.
    - unfold in_edges_of.
      rewrite (filter_flat_groups (edges g) (fun e => teqb (ev e) y)
                 (fun k => mem (peqb teqb) k (map (fun p => (p, y)) ps))); [apply Permutation_refl|].
      intros k l e Hin He. pose proof (group_edge_key g k l e W Hin He) as Hk.
      destruct (teqb (ev e) y) eqn:E.
      + apply teqb_spec in E. symmetry. apply (mem_In (peqb teqb) pspec). apply in_map_iff.
        exists (eu e). split; [rewrite <- Hk, E; reflexivity|].
        apply Hmem. split; [exact Hd|]. rewrite <- E, Hk. unfold WFDefs.group.
        rewrite (In_lookup (peqb teqb) pspec _ _ _ (wf_ekeys _ _ _ W) Hin). discriminate.
      + symmetry. destruct (mem (peqb teqb) k (map (fun p => (p, y)) ps)) eqn:Em; [|reflexivity]. exfalso.
        apply (mem_In (peqb teqb) pspec) in Em. apply in_map_iff in Em. destruct Em as (p & Ep & _).
        rewrite <- Hk in Ep. inversion Ep. subst. rewrite (proj2 (teqb_spec _ _) eq_refl) in E. discriminate.
  Qed.

  (* ---------------- get_edges_for_node: all stored edges touching the node ---------------- *)
  Lemma find_in_names (g : gstate) x :
    In x (names g) -> find (fun n => teqb (nname n) x) (nodes_vec g) <> None.
  Proof.
    intros Hx. unfold WFDefs.names in Hx. apply in_map_iff in Hx. destruct Hx as (n & En & Hn).
    intros Hf. apply (find_none _ _ Hf) in Hn. rewrite (proj2 (teqb_spec _ _) En) in Hn. discriminate.
  Qed.

  Lemma no_members_nil {X} (l : list X) : (forall x, ~ In x l) -> l = [].
  Proof. destruct l as [|h t]; [reflexivity|]. intros H. exfalso. apply (H h). left. reflexivity. Qed.

  Theorem get_edges_for_node_spec (g : gstate) x :
    WF g -> In x (names g) ->
    exists l, get_edges_for_node teqb tltb g x = Ok l /\ Permutation l (touching g x).
  Proof.
    intros W Hx. unfold get_edges_for_node.
    unfold node_is_none. rewrite (get_node_spec g x W). simpl.
    pose proof (find_in_names g x Hx) as Hfind. destruct (find _ _); [|congruence]. clear Hfind.
    destruct (wf_su _ _ _ W x) as (Hnds & Hmems). destruct (wf_pr _ _ _ W x) as (Hndp & Hmemp).
    unfold name_set.
    change (match lookup teqb x (successors g) with Some l => l | None => [] end)
      with (or_default teqb x (successors g)).
    change (match lookup teqb x (predecessors g) with Some l => l | None => [] end)
      with (or_default teqb x (predecessors g)).
    set (ss := or_default teqb x (successors g)) in *.
    set (ps := filter (fun p => negb (teqb p x)) (or_default teqb x (predecessors g))).
    set (kof := fun s : T => if negb (directed (sp g)) && tltb s x then (s, x) else (x, s)).
    assert (Hkof : forall s, kof s = cn (sp g) x s) by reflexivity.
    assert (Hps : forall p, In p ps <-> (p <> x /\ directed (sp g) = true /\ group g (p, x) <> None)).
    { intros p. unfold ps. rewrite filter_In, Hmemp. split.
      - intros ((Hd & Hg) & Hne). split; [|auto]. intros ->. rewrite (proj2 (teqb_spec _ _) eq_refl) in Hne. discriminate.
      - intros (Hne & Hd & Hg). split; [auto|]. destruct (teqb p x) eqn:E; [|reflexivity].
        apply teqb_spec in E. contradiction. }
    assert (Hallp : forall p, In p ps -> group g (p, x) <> None) by (intros p Hp; apply Hps in Hp; tauto).
    assert (Halls : forall s, In s ss -> group g (kof s) <> None).
    { intros s Hs. apply Hmems in Hs. rewrite Hkof. tauto. }
    rewrite (collect_groups_ok g (fun p => (p, x)) ps Hallp). simpl.
    rewrite (collect_groups_ok g kof ss Halls). simpl.
    eexists. split; [reflexivity|].
    rewrite <- flat_map_app.
    set (ks := map (fun p => (p, x)) ps ++ map kof ss).
    eapply Permutation_trans.
    - apply (flat_lookup_perm (peqb teqb) pspec (edges g) ks).
      + apply (wf_ekeys _ _ _ W).
      + unfold ks. apply NoDup_app_intro.
        * apply NoDup_map_inj; [|apply NoDup_filter; exact Hndp]. intros a b _ _ H. inversion H. reflexivity.
        * apply NoDup_map_inj; [|exact Hnds]. intros a b _ _ H. rewrite !Hkof in H.
          apply (cn_inj tltb) in H. destruct H as [(_ & H)|(_ & H1 & H2)]; congruence.
        * intros k Hk1 Hk2. apply in_map_iff in Hk1. destruct Hk1 as (p & <- & Hp).
          apply in_map_iff in Hk2. destruct Hk2 as (s & Es & Hs). apply Hps in Hp. destruct Hp as (Hne & Hd & _).
          rewrite Hkof, (cn_directed tltb _ _ _ Hd) in Es. inversion Es. congruence.
      + intros k Hk. unfold ks in Hk. apply in_app_iff in Hk. destruct Hk as [Hk|Hk];
          apply in_map_iff in Hk; destruct Hk as (a & <- & Ha); [apply (Hallp a Ha) | apply (Halls a Ha)].
    - unfold touching.
      rewrite (filter_flat_groups (edges g) (fun e => teqb (eu e) x || teqb (ev e) x)
                 (fun k => mem (peqb teqb) k ks)); [apply Permutation_refl|].
      intros k l e Hin He. pose proof (group_edge_key g k l e W Hin He) as Hk.
      assert (Hgk : group g k = Some l).
      { unfold WFDefs.group. apply (In_lookup (peqb teqb) pspec _ _ _ (wf_ekeys _ _ _ W) Hin). }
      destruct (wf_egroup _ _ _ W _ _ Hgk) as (_ & _ & Hf & Hs & Hord & _).
      assert (Hgne : group g k <> None) by congruence.
      destruct (mem (peqb teqb) k ks) eqn:Em.
      + (* a listed key touches x *)
        apply (mem_In (peqb teqb) pspec) in Em. unfold ks in Em. apply in_app_iff in Em.
        destruct Em as [Em|Em]; apply in_map_iff in Em; destruct Em as (a & Ea & _).
        * rewrite <- Hk in Ea. inversion Ea. subst. rewrite (proj2 (teqb_spec _ _) eq_refl). apply orb_true_r.
        * rewrite Hkof in Ea. rewrite <- Hk in Ea.
          destruct (cn_cases tltb (sp g) x a) as [C|C]; rewrite C in Ea; inversion Ea; subst;
            rewrite (proj2 (teqb_spec _ _) eq_refl); [reflexivity|apply orb_true_r].
      + (* an unlisted key does not *)
        destruct (teqb (eu e) x || teqb (ev e) x) eqn:Eq; [|reflexivity]. exfalso.
        assert (Hin_ks : In k ks); [|apply (mem_In (peqb teqb) pspec) in Hin_ks; congruence].
        unfold ks. apply in_or_app.
        destruct (directed (sp g)) eqn:Hd.
        * (* directed *)
          destruct (teqb (eu e) x) eqn:Eu.
          -- apply teqb_spec in Eu. right. apply in_map_iff. exists (ev e). split.
             ++ rewrite Hkof, (cn_directed tltb _ _ _ Hd), <- Eu. exact Hk.
             ++ apply Hmems. rewrite (cn_directed tltb _ _ _ Hd), <- Eu, Hk.
                rewrite <- Hk in Hf, Hs. simpl in Hf, Hs. repeat split; assumption.
          -- simpl in Eq. apply teqb_spec in Eq. left. apply in_map_iff. exists (eu e). split.
             ++ rewrite <- Eq. exact Hk.
             ++ apply Hps. split; [|split; [reflexivity|]].
                ** intros Heq. rewrite Heq, (proj2 (teqb_spec _ _) eq_refl) in Eu. discriminate.
                ** rewrite <- Eq, Hk. exact Hgne.
        * (* undirected: stored with the smaller name first *)
          right. apply in_map_iff. specialize (Hord eq_refl). rewrite <- Hk in Hord, Hf, Hs. simpl in Hord, Hf, Hs.
          destruct (teqb (eu e) x) eqn:Eu.
          -- apply teqb_spec in Eu. exists (ev e). split.
             ++ rewrite Hkof. unfold WFDefs.cn. rewrite Hd. simpl. rewrite <- Eu, Hord. exact Hk.
             ++ apply Hmems. rewrite <- Eu. split; [exact Hf|]. split; [exact Hs|].
                unfold WFDefs.cn. rewrite Hd. simpl. rewrite Hord, Hk. exact Hgne.
          -- simpl in Eq. apply teqb_spec in Eq. exists (eu e).
             assert (Hc : cn (sp g) x (eu e) = k).
             { unfold WFDefs.cn. rewrite Hd. simpl. rewrite <- Eq.
               destruct (tltb (eu e) (ev e)) eqn:Et; [exact Hk|].
               rewrite (tltb_total _ _ Et Hord) in *. exact Hk. }
             split; [rewrite Hkof; exact Hc|].
             apply Hmems. rewrite Hc. rewrite <- Eq. split; [exact Hs|]. split; [exact Hf|exact Hgne].
  Qed.

  (* ---------------- successor / predecessor node lists ---------------- *)
  Lemma nodes_by_index_ok (g : gstate) site : forall js,
    WF g -> (forall j, In j js -> j < nn g) ->
    exists l, nodes_by_index g site js = Ok l /\
              map (fun n => Some (nname n)) l = map (name_at g) js.
  Proof.
    induction js as [|j js IH]; intros W Hlt; simpl.
    - exists []. auto.
    - assert (Hj : j < nn g) by (apply Hlt; left; reflexivity).
      unfold get_node_by_index. rewrite (wf_nrev _ _ _ W).
      destruct (nth_error (nodes_vec g) j) as [n|] eqn:En.
      + destruct (IH W (fun k Hk => Hlt k (or_intror Hk))) as (l & Hl & Hm). rewrite Hl. simpl.
        exists (n :: l). split; [reflexivity|]. simpl. rewrite Hm. f_equal.
        unfold WFDefs.name_at, WFDefs.names. rewrite nth_error_map, En. reflexivity.
      + exfalso. apply nth_error_None in En. unfold WFDefs.nn in Hj. rewrite names_length in Hj. lia.
  Qed.

  Theorem get_successor_nodes_spec (g : gstate) x :
    WF g -> directed (sp g) = true -> In x (names g) ->
    exists l, get_successor_nodes teqb g x = Ok l /\ NoDup (map nname l) /\
              forall y, In y (map nname l) <-> group g (x, y) <> None.
  Proof.
    intros W Hd Hx. unfold get_successor_nodes, idx_set_nodes. rewrite Hd. simpl.
    assert (Hc : contains_key teqb x (nodes_map g) = true) by (apply (contains_key_names g x W); exact Hx).
    rewrite Hc. simpl.
    apply In_nth_error in Hx. destruct Hx as (i & Hi). change (name_at g i = Some x) in Hi.
    unfold get_node_index. rewrite (proj2 (wf_nmap _ _ _ W x i) Hi).
    assert (Hilt : i < nn g) by (unfold WFDefs.nn; apply nth_error_Some; unfold WFDefs.name_at in Hi; congruence).
    destruct (wf_sm _ _ _ W i Hilt) as (js & Hjs & Hnd & Hmem). rewrite Hjs.
    assert (Hlt : forall j, In j js -> j < nn g).
    { intros j Hj. apply Hmem in Hj. unfold WFDefs.grp_of in Hj. rewrite Hi in Hj.
      destruct (name_at g j) eqn:E; [|congruence].
      unfold WFDefs.nn. apply nth_error_Some. unfold WFDefs.name_at in E. congruence. }
    destruct (nodes_by_index_ok g "query.rs:get_node_by_index unwrap" js W Hlt) as (l & Hl & Hm).
    exists l. split; [exact Hl|].
    assert (Hnames : forall y, In y (map nname l) <-> exists j, In j js /\ name_at g j = Some y).
    { intros y. split.
      - intros Hy. assert (In (Some y) (map (fun n => Some (nname n)) l)).
        { apply in_map_iff in Hy. destruct Hy as (n & <- & Hn). apply in_map_iff. exists n. auto. }
        rewrite Hm in H. apply in_map_iff in H. destruct H as (j & Ej & Hj). eauto.
      - intros (j & Hj & Ej). assert (In (Some y) (map (name_at g) js)) by (rewrite <- Ej; apply in_map; exact Hj).
        rewrite <- Hm in H. apply in_map_iff in H. destruct H as (n & En & Hn). inversion En. subst.
        apply in_map. exact Hn. }
    split.
    - (* distinct indices have distinct names *)
      assert (Hinj : NoDup (map (name_at g) js)).
      { apply NoDup_map_inj; [|exact Hnd]. intros a b Ha Hb E.
        destruct (name_at g a) as [ya|] eqn:Ea.
        - symmetry in E. eapply (name_at_inj teqb tltb); eauto.
        - apply Hlt in Ha. unfold WFDefs.nn in Ha. apply nth_error_Some in Ha. unfold WFDefs.name_at in Ea. congruence. }
      rewrite <- Hm in Hinj. clear -Hinj.
      induction l as [|n l IH]; simpl in *; [constructor|]. inversion Hinj as [|? ? Hni Hnd']; subst. constructor.
      + intros Hin. apply Hni. apply in_map_iff in Hin. destruct Hin as (m & Em & Hm). apply in_map_iff.
        exists m. split; [rewrite Em; reflexivity|exact Hm].
      + apply IH. exact Hnd'.
    - intros y. rewrite Hnames. split.
      + intros (j & Hj & Ej). apply Hmem in Hj. unfold WFDefs.grp_of in Hj. rewrite Hi, Ej in Hj.
        rewrite (cn_directed tltb _ _ _ Hd) in Hj. exact Hj.
      + intros Hg. destruct (group g (x, y)) as [l0|] eqn:Eg; [|congruence].
        destruct (wf_egroup _ _ _ W _ _ Eg) as (_ & _ & _ & Hs & _). simpl in Hs.
        apply In_nth_error in Hs. destruct Hs as (j & Hj). exists j. split; [|exact Hj].
        apply Hmem. unfold WFDefs.grp_of. rewrite Hi. unfold WFDefs.name_at. rewrite Hj.
        rewrite (cn_directed tltb _ _ _ Hd), Eg. discriminate.
  Qed.

  Theorem get_predecessor_nodes_spec (g : gstate) x :
    WF g -> directed (sp g) = true -> In x (names g) ->
    exists l, get_predecessor_nodes teqb g x = Ok l /\ NoDup (map nname l) /\
              forall y, In y (map nname l) <-> group g (y, x) <> None.
  Proof.
    intros W Hd Hx. unfold get_predecessor_nodes, idx_set_nodes. rewrite Hd. simpl.
    assert (Hc : contains_key teqb x (nodes_map g) = true) by (apply (contains_key_names g x W); exact Hx).
    rewrite Hc. simpl.
    apply In_nth_error in Hx. destruct Hx as (i & Hi). change (name_at g i = Some x) in Hi.
    unfold get_node_index. rewrite (proj2 (wf_nmap _ _ _ W x i) Hi).
    assert (Hilt : i < nn g) by (unfold WFDefs.nn; apply nth_error_Some; unfold WFDefs.name_at in Hi; congruence).
    destruct (wf_pm _ _ _ W i Hilt) as (js & Hjs & Hnd & Hmem). rewrite Hjs.
    assert (Hlt : forall j, In j js -> j < nn g).
    { intros j Hj. apply Hmem in Hj. unfold WFDefs.pred_rel, WFDefs.grp_of in Hj. rewrite Hd, Hi in Hj.
      destruct (name_at g j) eqn:E; [|congruence].
      unfold WFDefs.nn. apply nth_error_Some. unfold WFDefs.name_at in E. congruence. }
    destruct (nodes_by_index_ok g "query.rs:get_node_by_index unwrap" js W Hlt) as (l & Hl & Hm).
    exists l. split; [exact Hl|].
    assert (Hnames : forall y, In y (map nname l) <-> exists j, In j js /\ name_at g j = Some y).
    { intros y. split.
      - intros Hy. assert (In (Some y) (map (fun n => Some (nname n)) l)).
        { apply in_map_iff in Hy. destruct Hy as (n & <- & Hn). apply in_map_iff. exists n. auto. }
        rewrite Hm in H. apply in_map_iff in H. destruct H as (j & Ej & Hj). eauto.
      - intros (j & Hj & Ej). assert (In (Some y) (map (name_at g) js)) by (rewrite <- Ej; apply in_map; exact Hj).
        rewrite <- Hm in H. apply in_map_iff in H. destruct H as (n & En & Hn). inversion En. subst.
        apply in_map. exact Hn. }
    split.
    - (* distinct indices have distinct names *)
      assert (Hinj : NoDup (map (name_at g) js)).
      { apply NoDup_map_inj; [|exact Hnd]. intros a b Ha Hb E.
        destruct (name_at g a) as [ya|] eqn:Ea.
        - symmetry in E. eapply (name_at_inj teqb tltb); eauto.
        - apply Hlt in Ha. unfold WFDefs.nn in Ha. apply nth_error_Some in Ha. unfold WFDefs.name_at in Ea. congruence. }
      rewrite <- Hm in Hinj. clear -Hinj.
      induction l as [|n l IH]; simpl in *; [constructor|]. inversion Hinj as [|? ? Hni Hnd']; subst. constructor.
      + intros Hin. apply Hni. apply in_map_iff in Hin. destruct Hin as (m & Em & Hm). apply in_map_iff.
        exists m. split; [rewrite Em; reflexivity|exact Hm].
      + apply IH. exact Hnd'.
    - intros y. rewrite Hnames. split.
      + intros (j & Hj & Ej). apply Hmem in Hj. unfold WFDefs.pred_rel, WFDefs.grp_of in Hj. rewrite Hd, Hi, Ej in Hj.
        rewrite (cn_directed tltb _ _ _ Hd) in Hj. exact Hj.
      + intros Hg. destruct (group g (y, x)) as [l0|] eqn:Eg; [|congruence].
        destruct (wf_egroup _ _ _ W _ _ Eg) as (_ & _ & Hs & _ & _). simpl in Hs.
        apply In_nth_error in Hs. destruct Hs as (j & Hj). exists j. split; [|exact Hj].
        apply Hmem. unfold WFDefs.pred_rel, WFDefs.grp_of. rewrite Hd, Hi. unfold WFDefs.name_at. rewrite Hj.
        rewrite (cn_directed tltb _ _ _ Hd), Eg. discriminate.
  Qed.

  (* ---------------- get_neighbor_nodes ---------------- *)
  Lemma In_ins_nat a x l : In a (ins_nat x l) <-> a = x \/ In a l.
  Proof.
    induction l as [|y t IH]; simpl; [intuition|].
    destruct (Nat.leb x y); simpl; [intuition|]. rewrite IH. intuition.
  Qed.
  Lemma In_sort_nat a l : In a (sort_nat l) <-> In a l.
  Proof.
    unfold sort_nat. induction l as [|y t IH]; simpl; [reflexivity|].
    rewrite In_ins_nat, IH. intuition.
  Qed.
  Inductive sorted_nat : list nat -> Prop :=
  | sn_nil : sorted_nat []
  | sn_one a : sorted_nat [a]
  | sn_cons a b t : a <= b -> sorted_nat (b :: t) -> sorted_nat (a :: b :: t).
  Lemma sorted_ins x l : sorted_nat l -> sorted_nat (ins_nat x l).
  Proof.
    induction 1 as [|a|a b t Hab Hs IH]; simpl.
    - constructor.
    - destruct (Nat.leb x a) eqn:E; [apply Nat.leb_le in E|apply Nat.leb_gt in E]; constructor; try lia; constructor.
    - destruct (Nat.leb x a) eqn:E.
      + apply Nat.leb_le in E. constructor; [exact E|]. constructor; assumption.
      + apply Nat.leb_gt in E. simpl in IH. destruct (Nat.leb x b) eqn:E2.
        * apply Nat.leb_le in E2. constructor; [lia|]. constructor; [exact E2|exact Hs].
        * constructor; [exact Hab|exact IH].
  Qed.
  Lemma sorted_sort l : sorted_nat (sort_nat l).
  Proof. unfold sort_nat. induction l as [|y t IH]; simpl; [constructor|]. apply sorted_ins. exact IH. Qed.
  Lemma sorted_head_le a l : sorted_nat (a :: l) -> forall b, In b l -> a <= b.
  Proof.
    revert a. induction l as [|c t IH]; intros a H b Hb; [destruct Hb|].
    inversion H; subst. destruct Hb as [->|Hb]; [assumption|].
    assert (c <= b) by (apply IH; assumption). lia.
  Qed.
  Lemma sorted_tail a l : sorted_nat (a :: l) -> sorted_nat l.
  Proof. intros H. inversion H; subst; [constructor|assumption]. Qed.
  Lemma dedup_sorted l : sorted_nat l -> NoDup (dedup_nat l) /\ (forall a, In a (dedup_nat l) <-> In a l).
  Proof.
    induction l as [|x t IH]; intros Hs; [simpl; split; [constructor|intuition]|].
    specialize (IH (sorted_tail _ _ Hs)). destruct IH as (Hnd & Hmem).
    destruct t as [|y t']; [simpl; split; [constructor; [intros []|constructor]|intuition]|].
    change (dedup_nat (x :: y :: t')) with (if Nat.eqb x y then dedup_nat (y :: t') else x :: dedup_nat (y :: t')).
    destruct (Nat.eqb x y) eqn:E.
    - apply Nat.eqb_eq in E. subst y. split; [exact Hnd|].
      intros a. rewrite Hmem. simpl. intuition.
    - apply Nat.eqb_neq in E. split.
      + constructor; [|exact Hnd]. intros Hin. apply Hmem in Hin.
        destruct Hin as [Hin|Hin]; [congruence|].
        pose proof (sorted_head_le _ _ (sorted_tail _ _ Hs) x Hin) as H2.
        inversion Hs; subst. lia.
      + intros a. simpl. rewrite Hmem. simpl. intuition.
  Qed.

  Theorem get_neighbor_nodes_spec (g : gstate) x :
    WF g -> In x (names g) ->
    exists l, get_neighbor_nodes teqb g x = Ok l /\ NoDup (map nname l) /\
              forall y, In y (map nname l) <->
                        (In y (names g) /\
                         (group g (cn (sp g) x y) <> None \/ (directed (sp g) = true /\ group g (y, x) <> None))).
  Proof.
    intros W Hx. unfold get_neighbor_nodes.
    assert (Hc : contains_key teqb x (nodes_map g) = true) by (apply (contains_key_names g x W); exact Hx).
    rewrite Hc. simpl.
    apply In_nth_error in Hx. destruct Hx as (i & Hi). change (name_at g i = Some x) in Hi.
    unfold get_node_index. rewrite (proj2 (wf_nmap _ _ _ W x i) Hi).
    assert (Hilt : i < nn g) by (unfold WFDefs.nn; apply nth_error_Some; unfold WFDefs.name_at in Hi; congruence).
    destruct (wf_sv _ _ _ W) as (Hsl & Hsr). destruct (wf_pv _ _ _ W) as (Hpl & Hpr).
    destruct (nth_error (predecessors_vec g) i) as [pr|] eqn:Epr; [|apply nth_error_None in Epr; lia].
    destruct (nth_error (successors_vec g) i) as [su|] eqn:Esu; [|apply nth_error_None in Esu; lia].
    destruct (Hsr i su Esu) as (_ & Hsm). destruct (Hpr i pr Epr) as (_ & Hpm).
    set (js := dedup_nat (sort_nat (map fst pr ++ map fst su))).
    destruct (dedup_sorted _ (sorted_sort (map fst pr ++ map fst su))) as (Hnd & Hmem). fold js in Hnd, Hmem.
    assert (Hjs : forall j, In j js <-> (grp_of teqb tltb g i j <> None \/ pred_rel teqb tltb g i j <> None)).
    { intros j. rewrite Hmem, In_sort_nat, in_app_iff. split.
      - intros [H|H]; apply in_map_iff in H; destruct H as ((j' & w) & Ej & Hin); simpl in Ej; subst j'.
        + right. apply Hpm in Hin. destruct Hin as (l0 & Hl0 & _). congruence.
        + left. apply Hsm in Hin. destruct Hin as (l0 & Hl0 & _). congruence.
      - intros [H|H].
        + right. destruct (grp_of teqb tltb g i j) as [l0|] eqn:E; [|congruence].
          apply in_map_iff. exists (j, adjw (sp g) l0). split; [reflexivity|]. apply Hsm. eauto.
        + left. destruct (pred_rel teqb tltb g i j) as [l0|] eqn:E; [|congruence].
          apply in_map_iff. exists (j, adjw (sp g) l0). split; [reflexivity|]. apply Hpm. eauto. }
    assert (Hname : forall j, In j js -> name_at g j <> None).
    { intros j Hj. apply Hjs in Hj. unfold WFDefs.pred_rel, WFDefs.grp_of in Hj. rewrite Hi in Hj.
      destruct (name_at g j); [discriminate|]. destruct Hj as [Hj|Hj]; [congruence|].
      destruct (directed (sp g)); congruence. }
    assert (Hlt : forall j, In j js -> j < nn g).
    { intros j Hj. apply Hname in Hj. unfold WFDefs.nn. apply nth_error_Some. exact Hj. }
    destruct (nodes_by_index_ok g "query.rs:get_neighbor_nodes unwrap" js W Hlt) as (l & Hl & Hm).
    exists l. split; [exact Hl|].
    assert (Hnames : forall y, In y (map nname l) <-> exists j, In j js /\ name_at g j = Some y).
    { intros y. split.
      - intros Hy. assert (In (Some y) (map (fun n => Some (nname n)) l)).
        { apply in_map_iff in Hy. destruct Hy as (n & <- & Hn). apply in_map_iff. exists n. auto. }
        rewrite Hm in H. apply in_map_iff in H. destruct H as (j & Ej & Hj). eauto.
      - intros (j & Hj & Ej). assert (In (Some y) (map (name_at g) js)) by (rewrite <- Ej; apply in_map; exact Hj).
        rewrite <- Hm in H. apply in_map_iff in H. destruct H as (n & En & Hn). inversion En. subst.
        apply in_map. exact Hn. }
    split.
    - assert (Hinj : NoDup (map (name_at g) js)).
      { apply NoDup_map_inj; [|exact Hnd]. intros a b Ha Hb E.
        destruct (name_at g a) as [ya|] eqn:Ea.
        - symmetry in E. eapply (name_at_inj teqb tltb); eauto.
        - apply Hname in Ha. congruence. }
      rewrite <- Hm in Hinj. clear -Hinj.
      induction l as [|n l IH]; simpl in *; [constructor|]. inversion Hinj as [|? ? Hni Hnd']; subst. constructor.
      + intros Hin. apply Hni. apply in_map_iff in Hin. destruct Hin as (m & Em & Hm). apply in_map_iff.
        exists m. split; [rewrite Em; reflexivity|exact Hm].
      + apply IH. exact Hnd'.
    - intros y. rewrite Hnames. split.
      + intros (j & Hj & Ej). split; [unfold WFDefs.name_at in Ej; eapply nth_error_In; exact Ej|].
        apply Hjs in Hj. unfold WFDefs.pred_rel, WFDefs.grp_of in Hj. rewrite Hi, Ej in Hj.
        destruct Hj as [Hj|Hj]; [left; exact Hj|].
        destruct (directed (sp g)) eqn:Hd; [|congruence]. right. split; [reflexivity|].
        rewrite (cn_directed tltb _ _ _ Hd) in Hj. exact Hj.
      + intros (Hy & Hor). apply In_nth_error in Hy. destruct Hy as (j & Hj). change (name_at g j = Some y) in Hj.
        exists j. split; [|exact Hj]. apply Hjs. unfold WFDefs.pred_rel, WFDefs.grp_of. rewrite Hi, Hj.
        destruct Hor as [H|(Hd & H)]; [left; exact H|]. right. rewrite Hd, (cn_directed tltb _ _ _ Hd). exact H.
  Qed.

  (* ---------------- node-set queries ---------------- *)
  Definition in_names (g : gstate) (x : T) : bool := existsb (fun n => teqb (nname n) x) (nodes_vec g).

  Lemma has_nodes_spec (g : gstate) xs : WF g -> has_nodes teqb g xs = Ok (forallb (in_names g) xs).
  Proof.
    intros W. induction xs as [|x t IH]; simpl; [reflexivity|].
    rewrite (has_node_spec g x W). simpl. unfold in_names at 1.
    destruct (existsb (fun n => teqb (nname n) x) (nodes_vec g)); simpl; [exact IH|reflexivity].
  Qed.

  Theorem get_edges_for_nodes_spec (g : gstate) xs :
    WF g ->
    get_edges_for_nodes teqb g xs =
    if forallb (in_names g) xs
    then Ok (filter (fun e => mem_name teqb (eu e) xs || mem_name teqb (ev e) xs) (all_edges g))
    else Err NodeNotFound.
  Proof.
    intros W. unfold get_edges_for_nodes. rewrite (has_nodes_spec g xs W). simpl.
    destruct (forallb (in_names g) xs); reflexivity.
  Qed.

  Theorem get_in_edges_for_nodes_spec (g : gstate) xs :
    WF g ->
    get_in_edges_for_nodes teqb g xs =
    if negb (directed (sp g)) then Err WrongMethod
    else if forallb (in_names g) xs
    then Ok (filter (fun e => mem_name teqb (ev e) xs) (all_edges g))
    else Err NodeNotFound.
  Proof.
    intros W. unfold get_in_edges_for_nodes. destruct (negb (directed (sp g))); [reflexivity|].
    rewrite (has_nodes_spec g xs W). simpl. destruct (forallb (in_names g) xs); reflexivity.
  Qed.

  Theorem get_out_edges_for_nodes_spec (g : gstate) xs :
    WF g ->
    get_out_edges_for_nodes teqb g xs =
    if negb (directed (sp g)) then Err WrongMethod
    else if forallb (in_names g) xs
    then Ok (filter (fun e => mem_name teqb (eu e) xs) (all_edges g))
    else Err NodeNotFound.
  Proof.
    intros W. unfold get_out_edges_for_nodes. destruct (negb (directed (sp g))); [reflexivity|].
    rewrite (has_nodes_spec g xs W). simpl. destruct (forallb (in_names g) xs); reflexivity.
  Qed.
End QueryOk.
