(* C20 (graph-structure part, complete list): under the coherence invariant WF — i.e. on every
   graph reachable by any history — EVERY modelled query and derived-graph constructor of
   query.rs / degree.rs / density.rs / convert.rs / subgraph.rs / matrix.rs is total: it
   returns Ok or Err, it never reaches one of the transcribed Panic sites (unwrap / index /
   lookup) and never runs out of fuel; an absent name goes through the error channel of the
   functions that have one; the functions without an error channel are total on existing names.
   [total r = true] means: r is Ok _ or Err _. *)
From Coq Require Import String List Bool Arith Lia Permutation QArith.
From GV Require Import Base.Outcome Base.AMap Model.GState Model.Creation Model.Query Model.Derived Spec.AGraph.
From GV Require Import Proofs.AMapOk Proofs.WFDefs Proofs.WFNode Proofs.WFEdge Proofs.Refine Proofs.HistoryOk
     Proofs.AdjOk Proofs.QueryOk Proofs.DegreeOk Proofs.NoPanic Proofs.DerivedOk Proofs.DerivedContent
     Proofs.MatrixOk.
Import ListNotations.
Close Scope Q_scope.

Definition total {X} (r : outcome X) : bool := negb (is_panic r) && negb (is_fuel r).

Lemma total_Ok {X} (x : X) : total (Ok x) = true. Proof. reflexivity. Qed.
Lemma total_Err {X} k : total (@Err X k) = true. Proof. reflexivity. Qed.
Lemma total_ex {X} (r : outcome X) : (exists x, r = Ok x) -> total r = true.
Proof. intros (x & ->). reflexivity. Qed.
Lemma total_cases {X} (r : outcome X) : total r = true <-> (exists x, r = Ok x) \/ (exists k, r = Err k).
Proof.
  destruct r; unfold total; simpl; split; intros H; try discriminate; eauto.
  - destruct H as [(x & H)|(k & H)]; discriminate.
  - destruct H as [(x & H)|(k & H)]; discriminate.
Qed.

Section QueryTotal.
  Context {T A : Type}.
  Variable teqb : T -> T -> bool.
  Variable tltb : T -> T -> bool.
  Hypothesis teqb_spec : forall x y, teqb x y = true <-> x = y.
  Hypothesis tltb_asym : forall x y, tltb x y = true -> tltb y x = false.
  Hypothesis tltb_total : forall x y, tltb x y = false -> tltb y x = false -> x = y.
  Notation gstate := (gstate T A).
  Notation node := (node T A).
  Notation edge := (edge T A).
  Notation WF := (@WF T A teqb tltb).
  Notation names := (@names T A).

  Lemma names_dec (g : gstate) x : In x (names g) \/ ~ In x (names g).
  Proof.
    destruct (in_names teqb g x) eqn:E.
    - left. unfold in_names in E. apply existsb_exists in E. destruct E as (n & Hn & En).
      apply teqb_spec in En. subst x. unfold WFDefs.names. apply in_map. exact Hn.
    - right. intros H. unfold WFDefs.names in H. apply in_map_iff in H. destruct H as (n & En & Hn).
      assert (in_names teqb g x = true); [|congruence].
      unfold in_names. apply existsb_exists. exists n. split; [exact Hn|]. apply teqb_spec. exact En.
  Qed.

  (* ---- name / node lookups ---- *)
  Lemma get_node_total (g : gstate) x : WF g -> total (get_node teqb g x) = true.
  Proof. intros W. rewrite (get_node_spec teqb tltb teqb_spec g x W). reflexivity. Qed.
  Lemma has_node_total (g : gstate) x : WF g -> total (has_node teqb g x) = true.
  Proof. intros W. rewrite (has_node_spec teqb tltb teqb_spec g x W). reflexivity. Qed.
  Lemma has_nodes_total (g : gstate) xs : WF g -> total (has_nodes teqb g xs) = true.
  Proof. intros W. rewrite (has_nodes_spec teqb tltb teqb_spec g xs W). reflexivity. Qed.

  (* ---- pair lookups: any two names, present or not, any kind of graph ---- *)
  Lemma get_edge_total (g : gstate) u v : WF g -> total (get_edge teqb g u v) = true.
  Proof.
    intros W. rewrite (get_edge_spec teqb tltb teqb_spec tltb_asym tltb_total g u v W).
    destruct (multi (sp g)); [reflexivity|]. destruct (_ || _); [reflexivity|].
    destruct (stored_between _ _ g u v); reflexivity.
  Qed.
  Lemma get_edges_total (g : gstate) u v : WF g -> total (get_edges teqb g u v) = true.
  Proof.
    intros W. rewrite (get_edges_spec teqb tltb teqb_spec tltb_asym tltb_total g u v W).
    destruct (negb (multi (sp g))); [reflexivity|]. destruct (_ || _); [reflexivity|].
    destruct (stored_between _ _ g u v); reflexivity.
  Qed.

  (* ---- per-node edge lists: an absent name gives NodeNotFound / WrongMethod ---- *)
  Lemma get_edges_for_node_total (g : gstate) x : WF g -> total (get_edges_for_node teqb tltb g x) = true.
  Proof.
    intros W. destruct (names_dec g x) as [Hx|Hx].
    - destruct (get_edges_for_node_spec teqb tltb teqb_spec tltb_total g x W Hx) as (l & -> & _). reflexivity.
    - rewrite (get_edges_for_node_absent teqb tltb teqb_spec g x W Hx). reflexivity.
  Qed.
  Lemma get_in_edges_for_node_total (g : gstate) x : WF g -> total (get_in_edges_for_node teqb g x) = true.
  Proof.
    intros W. destruct (directed (sp g)) eqn:Hd.
    - destruct (names_dec g x) as [Hx|Hx].
      + destruct (get_in_edges_for_node_spec teqb tltb teqb_spec g x W Hd Hx) as (l & -> & _). reflexivity.
      + rewrite (get_in_edges_for_node_absent teqb tltb teqb_spec g x W Hx). reflexivity.
    - destruct (in_out_edges_wrong_kind teqb g x Hd) as (-> & _). reflexivity.
  Qed.
  Lemma get_out_edges_for_node_total (g : gstate) x : WF g -> total (get_out_edges_for_node teqb g x) = true.
  Proof.
    intros W. destruct (directed (sp g)) eqn:Hd.
    - destruct (names_dec g x) as [Hx|Hx].
      + destruct (get_out_edges_for_node_spec teqb tltb teqb_spec g x W Hd Hx) as (l & -> & _). reflexivity.
      + rewrite (get_out_edges_for_node_absent teqb tltb teqb_spec g x W Hx). reflexivity.
    - destruct (in_out_edges_wrong_kind teqb g x Hd) as (_ & -> & _). reflexivity.
  Qed.
  Lemma get_edges_for_nodes_total (g : gstate) xs : WF g -> total (get_edges_for_nodes teqb g xs) = true.
  Proof.
    intros W. rewrite (get_edges_for_nodes_spec teqb tltb teqb_spec g xs W). destruct (forallb _ _); reflexivity.
  Qed.
  Lemma get_in_edges_for_nodes_total (g : gstate) xs : WF g -> total (get_in_edges_for_nodes teqb g xs) = true.
  Proof.
    intros W. rewrite (get_in_edges_for_nodes_spec teqb tltb teqb_spec g xs W).
    destruct (negb _); [reflexivity|]. destruct (forallb _ _); reflexivity.
  Qed.
  Lemma get_out_edges_for_nodes_total (g : gstate) xs : WF g -> total (get_out_edges_for_nodes teqb g xs) = true.
  Proof.
    intros W. rewrite (get_out_edges_for_nodes_spec teqb tltb teqb_spec g xs W).
    destruct (negb _); [reflexivity|]. destruct (forallb _ _); reflexivity.
  Qed.

  (* ---- neighbour / successor / predecessor node lists ---- *)
  Lemma contains_key_absent (g : gstate) x : WF g -> ~ In x (names g) -> contains_key teqb x (nodes_map g) = false.
  Proof.
    intros W Hx. destruct (contains_key teqb x (nodes_map g)) eqn:E; [|reflexivity].
    exfalso. apply Hx. apply (contains_key_names teqb tltb g x W). exact E.
  Qed.

  Lemma get_neighbor_nodes_total (g : gstate) x : WF g -> total (get_neighbor_nodes teqb g x) = true.
  Proof.
    intros W. destruct (names_dec g x) as [Hx|Hx].
    - destruct (get_neighbor_nodes_spec teqb tltb g x W Hx) as (l & -> & _). reflexivity.
    - unfold get_neighbor_nodes. rewrite (contains_key_absent g x W Hx). reflexivity.
  Qed.
  Lemma get_successor_nodes_total (g : gstate) x : WF g -> total (get_successor_nodes teqb g x) = true.
  Proof.
    intros W. destruct (directed (sp g)) eqn:Hd.
    - destruct (names_dec g x) as [Hx|Hx].
      + destruct (get_successor_nodes_spec teqb tltb g x W Hd Hx) as (l & -> & _). reflexivity.
      + unfold get_successor_nodes, idx_set_nodes. rewrite Hd, (contains_key_absent g x W Hx). reflexivity.
    - unfold get_successor_nodes. rewrite Hd. reflexivity.
  Qed.
  Lemma get_predecessor_nodes_total (g : gstate) x : WF g -> total (get_predecessor_nodes teqb g x) = true.
  Proof.
    intros W. destruct (directed (sp g)) eqn:Hd.
    - destruct (names_dec g x) as [Hx|Hx].
      + destruct (get_predecessor_nodes_spec teqb tltb g x W Hd Hx) as (l & -> & _). reflexivity.
      + unfold get_predecessor_nodes, idx_set_nodes. rewrite Hd, (contains_key_absent g x W Hx). reflexivity.
    - unfold get_predecessor_nodes. rewrite Hd. reflexivity.
  Qed.
  Lemma bind_total {X Y} (r : outcome X) (f : X -> outcome Y) :
    total r = true -> (forall x, r = Ok x -> total (f x) = true) -> total (bind r f) = true.
  Proof. destruct r; simpl; intros H Hf; try discriminate; [apply Hf; reflexivity|reflexivity]. Qed.
  Lemma get_successor_node_names_total (g : gstate) x : WF g -> total (get_successor_node_names teqb g x) = true.
  Proof.
    intros W. unfold get_successor_node_names. apply bind_total; [apply get_successor_nodes_total; exact W|reflexivity].
  Qed.
  Lemma get_predecessor_node_names_total (g : gstate) x : WF g -> total (get_predecessor_node_names teqb g x) = true.
  Proof.
    intros W. unfold get_predecessor_node_names. apply bind_total; [apply get_predecessor_nodes_total; exact W|reflexivity].
  Qed.
  (* no error channel (the Rust function unwraps): total on existing names *)
  Lemma get_successors_or_neighbors_total (g : gstate) x :
    WF g -> In x (names g) -> exists l, get_successors_or_neighbors teqb g x = Ok l.
  Proof.
    intros W Hx. unfold get_successors_or_neighbors. destruct (directed (sp g)) eqn:Hd.
    - destruct (get_successor_nodes_spec teqb tltb g x W Hd Hx) as (l & -> & _). eauto.
    - destruct (get_neighbor_nodes_spec teqb tltb g x W Hx) as (l & -> & _). eauto.
  Qed.

  (* ---- degrees ---- *)
  Lemma get_node_degree_total (g : gstate) x : WF g -> total (get_node_degree teqb tltb g x) = true.
  Proof.
    intros W. unfold get_node_degree. pose proof (get_edges_for_node_total g x W) as H.
    destruct (get_edges_for_node teqb tltb g x); try discriminate; reflexivity.
  Qed.
  Lemma opt_len_total (r : outcome (list edge)) : total r = true -> total (opt_len r) = true.
  Proof. destruct r; intros H; try discriminate; reflexivity. Qed.
  Lemma opt_wsum_total (r : outcome (list edge)) : total r = true -> total (opt_wsum r) = true.
  Proof. destruct r; intros H; try discriminate; reflexivity. Qed.
  Lemma get_node_in_degree_total (g : gstate) x : WF g -> total (get_node_in_degree teqb g x) = true.
  Proof. intros W. apply opt_len_total, get_in_edges_for_node_total, W. Qed.
  Lemma get_node_out_degree_total (g : gstate) x : WF g -> total (get_node_out_degree teqb g x) = true.
  Proof. intros W. apply opt_len_total, get_out_edges_for_node_total, W. Qed.
  Lemma get_node_weighted_degree_total (g : gstate) x : WF g -> total (get_node_weighted_degree teqb tltb g x) = true.
  Proof.
    intros W. unfold get_node_weighted_degree. pose proof (get_edges_for_node_total g x W) as H.
    destruct (get_edges_for_node teqb tltb g x); try discriminate; reflexivity.
  Qed.
  Lemma get_node_weighted_in_degree_total (g : gstate) x : WF g -> total (get_node_weighted_in_degree teqb g x) = true.
  Proof. intros W. apply opt_wsum_total, get_in_edges_for_node_total, W. Qed.
  Lemma get_node_weighted_out_degree_total (g : gstate) x : WF g -> total (get_node_weighted_out_degree teqb g x) = true.
  Proof. intros W. apply opt_wsum_total, get_out_edges_for_node_total, W. Qed.

  (* the *_for_all_nodes maps unwrap one per-node call per node; each is made on an existing name,
     where the per-node function returns Some *)
  Lemma for_all_nodes_list {X} (g : gstate) (f : gstate -> T -> outcome (option X)) (l : list node) :
    (forall n, In n l -> exists d, f g (nname n) = Ok (Some d)) ->
    exists r, omapM (fun n : node => do r <- f g (nname n);
                                     match r with
                                     | Some d => Ok (nname n, d)
                                     | None => Panic "degree.rs:unwrap"
                                     end) l = Ok r /\ map fst r = map (@nname T A) l.
  Proof.
    induction l as [|n t IH]; intros Hf; [exists []; split; reflexivity|].
    destruct (Hf n (or_introl eq_refl)) as (d & Hd).
    destruct IH as (r & Hr & Hm); [intros x Hx; apply Hf; right; exact Hx|].
    exists ((nname n, d) :: r). cbn [omapM]. rewrite Hd. cbn [bind]. rewrite Hr. cbn [bind map fst].
    rewrite Hm. split; reflexivity.
  Qed.
  Lemma for_all_nodes_ok {X} (g : gstate) (f : gstate -> T -> outcome (option X)) :
    (forall x, In x (names g) -> exists d, f g x = Ok (Some d)) ->
    exists l, for_all_nodes g f = Ok l /\ map fst l = names g.
  Proof.
    intros Hf. apply for_all_nodes_list. intros n Hn. apply Hf. unfold WFDefs.names. apply in_map. exact Hn.
  Qed.

  Lemma edges_for_node_some (g : gstate) x :
    WF g -> In x (names g) -> exists l, get_edges_for_node teqb tltb g x = Ok l.
  Proof. intros W Hx. destruct (get_edges_for_node_spec teqb tltb teqb_spec tltb_total g x W Hx) as (l & H & _). eauto. Qed.

  Lemma get_degree_for_all_nodes_total (g : gstate) :
    WF g -> exists l, get_degree_for_all_nodes teqb tltb g = Ok l /\ map fst l = names g.
  Proof.
    intros W. apply for_all_nodes_ok. intros x Hx.
    rewrite (get_node_degree_spec teqb tltb teqb_spec tltb_total g x W Hx). eauto.
  Qed.
  Lemma get_weighted_degree_for_all_nodes_total (g : gstate) :
    WF g -> exists l, get_weighted_degree_for_all_nodes teqb tltb g = Ok l /\ map fst l = names g.
  Proof.
    intros W. apply for_all_nodes_ok. intros x Hx. unfold get_node_weighted_degree.
    destruct (edges_for_node_some g x W Hx) as (l & ->). eauto.
  Qed.
  Lemma get_in_degree_for_all_nodes_total (g : gstate) :
    WF g -> if directed (sp g)
            then exists l, get_in_degree_for_all_nodes teqb g = Ok l /\ map fst l = names g
            else get_in_degree_for_all_nodes teqb g = Err WrongMethod.
  Proof.
    intros W. unfold get_in_degree_for_all_nodes. destruct (directed (sp g)) eqn:Hd; [|reflexivity]. cbn [negb].
    apply for_all_nodes_ok. intros x Hx.
    rewrite (get_node_in_degree_spec teqb tltb teqb_spec g x W Hd Hx). eauto.
  Qed.
  Lemma get_out_degree_for_all_nodes_total (g : gstate) :
    WF g -> if directed (sp g)
            then exists l, get_out_degree_for_all_nodes teqb g = Ok l /\ map fst l = names g
            else get_out_degree_for_all_nodes teqb g = Err WrongMethod.
  Proof.
    intros W. unfold get_out_degree_for_all_nodes. destruct (directed (sp g)) eqn:Hd; [|reflexivity]. cbn [negb].
    apply for_all_nodes_ok. intros x Hx.
    rewrite (get_node_out_degree_spec teqb tltb teqb_spec g x W Hd Hx). eauto.
  Qed.
  Lemma get_weighted_in_degree_for_all_nodes_total (g : gstate) :
    WF g -> if directed (sp g)
            then exists l, get_weighted_in_degree_for_all_nodes teqb g = Ok l /\ map fst l = names g
            else get_weighted_in_degree_for_all_nodes teqb g = Err WrongMethod.
  Proof.
    intros W. unfold get_weighted_in_degree_for_all_nodes. destruct (directed (sp g)) eqn:Hd; [|reflexivity]. cbn [negb].
    apply for_all_nodes_ok. intros x Hx. unfold get_node_weighted_in_degree.
    destruct (get_in_edges_for_node_spec teqb tltb teqb_spec g x W Hd Hx) as (l & -> & _). cbn [opt_wsum]. eauto.
  Qed.
  Lemma get_weighted_out_degree_for_all_nodes_total (g : gstate) :
    WF g -> if directed (sp g)
            then exists l, get_weighted_out_degree_for_all_nodes teqb g = Ok l /\ map fst l = names g
            else get_weighted_out_degree_for_all_nodes teqb g = Err WrongMethod.
  Proof.
    intros W. unfold get_weighted_out_degree_for_all_nodes. destruct (directed (sp g)) eqn:Hd; [|reflexivity]. cbn [negb].
    apply for_all_nodes_ok. intros x Hx. unfold get_node_weighted_out_degree.
    destruct (get_out_edges_for_node_spec teqb tltb teqb_spec g x W Hd Hx) as (l & -> & _). cbn [opt_wsum]. eauto.
  Qed.

  (* ---- derived graphs ---- *)
  Lemma reverse_total (g : gstate) : WF g -> total (reverse teqb tltb g) = true.
  Proof.
    intros W. destruct (directed (sp g)) eqn:Hd.
    - destruct (reverse_content teqb tltb teqb_spec tltb_total g W Hd) as (h & -> & _). reflexivity.
    - rewrite (reverse_wrong_kind teqb tltb g Hd). reflexivity.
  Qed.
  Lemma to_single_edges_total (g : gstate) : WF g -> total (to_single_edges teqb tltb g) = true.
  Proof.
    intros W. destruct (multi (sp g)) eqn:Hm.
    - destruct (to_single_edges_content teqb tltb teqb_spec tltb_total g W Hm) as (h & -> & _). reflexivity.
    - rewrite (to_single_edges_wrong_kind teqb tltb g Hm). reflexivity.
  Qed.

  (* ---- degree centrality, sparse adjacency matrix ---- *)
  Lemma matrix_total (g : gstate) : WF g -> multi (sp g) = false -> total (matrix_triplets g) = true.
  Proof.
    intros W Hm. destruct (matrix_spec teqb tltb tltb_asym tltb_total g W Hm) as (tr & -> & _). reflexivity.
  Qed.

  (* every query at once *)
  Theorem queries_total (g : gstate) : WF g ->
    (forall x, total (get_node teqb g x) = true /\ total (has_node teqb g x) = true /\
               total (get_edges_for_node teqb tltb g x) = true /\
               total (get_in_edges_for_node teqb g x) = true /\ total (get_out_edges_for_node teqb g x) = true /\
               total (get_neighbor_nodes teqb g x) = true /\
               total (get_successor_nodes teqb g x) = true /\ total (get_predecessor_nodes teqb g x) = true /\
               total (get_successor_node_names teqb g x) = true /\ total (get_predecessor_node_names teqb g x) = true /\
               total (get_node_degree teqb tltb g x) = true /\
               total (get_node_in_degree teqb g x) = true /\ total (get_node_out_degree teqb g x) = true /\
               total (get_node_weighted_degree teqb tltb g x) = true /\
               total (get_node_weighted_in_degree teqb g x) = true /\
               total (get_node_weighted_out_degree teqb g x) = true) /\
    (forall u v, total (get_edge teqb g u v) = true /\ total (get_edges teqb g u v) = true) /\
    (forall xs, total (has_nodes teqb g xs) = true /\ total (get_edges_for_nodes teqb g xs) = true /\
                total (get_in_edges_for_nodes teqb g xs) = true /\ total (get_out_edges_for_nodes teqb g xs) = true) /\
    total (reverse teqb tltb g) = true /\ total (to_single_edges teqb tltb g) = true.
  Proof.
    intros W. split; [|split; [|split; [|split]]].
    - intros x. repeat split.
      + apply get_node_total, W. + apply has_node_total, W. + apply get_edges_for_node_total, W.
      + apply get_in_edges_for_node_total, W. + apply get_out_edges_for_node_total, W.
      + apply get_neighbor_nodes_total, W. + apply get_successor_nodes_total, W.
      + apply get_predecessor_nodes_total, W. + apply get_successor_node_names_total, W.
      + apply get_predecessor_node_names_total, W. + apply get_node_degree_total, W.
      + apply get_node_in_degree_total, W. + apply get_node_out_degree_total, W.
      + apply get_node_weighted_degree_total, W. + apply get_node_weighted_in_degree_total, W.
      + apply get_node_weighted_out_degree_total, W.
    - intros u v. split; [apply get_edge_total, W|apply get_edges_total, W].
    - intros xs. repeat split.
      + apply has_nodes_total, W. + apply get_edges_for_nodes_total, W.
      + apply get_in_edges_for_nodes_total, W. + apply get_out_edges_for_nodes_total, W.
    - apply reverse_total, W.
    - apply to_single_edges_total, W.
  Qed.
End QueryTotal.
