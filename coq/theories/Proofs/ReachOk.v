(* Soundness of the executable component-partition checker of Spec/ReachDef.v
   against the inductive definition of reachability (C10 floor). *)
From Coq Require Import List Bool Arith Lia.
From GV Require Import Spec.ReachDef.
Import ListNotations.

Section ReachOk.
  Context {T : Type}.
  Variable teqb : T -> T -> bool.
  Hypothesis teqb_spec : forall x y, teqb x y = true <-> x = y.

  Lemma memb_In : forall x l, memb teqb x l = true <-> In x l.
  Proof.
    intros x l. unfold memb. rewrite existsb_exists. split.
    - intros [y [Hy He]]. apply teqb_spec in He. subst. exact Hy.
    - intros H. exists x. split; [exact H | apply teqb_spec; reflexivity].
  Qed.

  Lemma memb_false : forall x l, memb teqb x l = false <-> ~ In x l.
  Proof.
    intros x l. rewrite <- memb_In. destruct (memb teqb x l); split; congruence.
  Qed.

  Lemma reach_trans : forall (R : T -> T -> Prop) a b c, reach R a b -> reach R b c -> reach R a c.
  Proof.
    intros R a b c Hab Hbc. induction Hbc as [ | x y z Hxy IH Hyz ].
    - exact Hab.
    - eapply reach_step; [apply IH; exact Hab | exact Hyz].
  Qed.

  Lemma reach_one : forall (R : T -> T -> Prop) a b, R a b -> reach R a b.
  Proof. intros R a b H. eapply reach_step; [apply reach_refl | exact H]. Qed.

  Lemma reach_ext : forall (R1 R2 : T -> T -> Prop),
    (forall u v, R1 u v -> R2 u v) -> forall x y, reach R1 x y -> reach R2 x y.
  Proof.
    intros R1 R2 H x y Hr. induction Hr as [ | x y z _ IH Hyz ].
    - apply reach_refl.
    - eapply reach_step; [exact IH | apply H; exact Hyz].
  Qed.

  Lemma reach_sym : forall (R : T -> T -> Prop),
    (forall u v, R u v -> R v u) -> forall x y, reach R x y -> reach R y x.
  Proof.
    intros R Hs x y Hr. induction Hr as [ | x y z _ IH Hyz ].
    - apply reach_refl.
    - eapply reach_trans; [apply reach_one; apply Hs; exact Hyz | exact IH].
  Qed.

  (* ---- closure ---- *)
  Section Closure.
    Variable nodes : list T.
    Variable nb : T -> list T.
    Let R (u v : T) : Prop := In v (nb u).

    Lemma add_all_In : forall l s z, In z (add_all teqb s l) <-> In z s \/ In z l.
    Proof.
      unfold add_all. induction l as [ | a l IH ]; intros s z; cbn [fold_left].
      - cbn. tauto.
      - rewrite IH. destruct (memb teqb a s) eqn:Hm.
        + apply memb_In in Hm. cbn. split; [tauto | ]. intros [H | [H | H]]; subst; tauto.
        + rewrite in_app_iff. cbn. tauto.
    Qed.

    Lemma fold_expand_In : forall l acc z,
      In z (fold_left (fun acc u => add_all teqb acc (nb u)) l acc) <->
      In z acc \/ exists u, In u l /\ In z (nb u).
    Proof.
      induction l as [ | a l IH ]; intros acc z; cbn [fold_left].
      - split; [tauto | ]. intros [H | [u [[] _]]]. exact H.
      - rewrite IH, add_all_In. split.
        + intros [[H | H] | [u [Hu Hz]]].
          * tauto.
          * right. exists a. cbn. tauto.
          * right. exists u. cbn. tauto.
        + intros [H | [u [[Hu | Hu] Hz]]].
          * tauto.
          * subst. tauto.
          * right. exists u. tauto.
    Qed.

    Lemma expand_In : forall s z,
      In z (expand teqb nb s) <-> In z s \/ exists u, In u s /\ In z (nb u).
    Proof. intros s z. unfold expand. apply fold_expand_In. Qed.

    Lemma iter_expand_mono : forall n s z, In z s -> In z (iter_expand teqb nb n s).
    Proof.
      induction n as [ | n IH ]; intros s z H; cbn [iter_expand].
      - exact H.
      - apply IH. apply expand_In. tauto.
    Qed.

    Lemma iter_expand_sound : forall x n s,
      (forall z, In z s -> reach R x z) ->
      forall z, In z (iter_expand teqb nb n s) -> reach R x z.
    Proof.
      intros x. induction n as [ | n IH ]; intros s Hs z Hz; cbn [iter_expand] in Hz.
      - apply Hs. exact Hz.
      - eapply IH; [ | exact Hz]. intros w Hw. apply expand_In in Hw.
        destruct Hw as [Hw | [u [Hu Hw]]].
        + apply Hs. exact Hw.
        + eapply reach_step; [apply Hs; exact Hu | exact Hw].
    Qed.

    Lemma closure_sound : forall x z, In z (closure nodes teqb nb x) -> reach R x z.
    Proof.
      intros x z Hz. unfold closure in Hz. eapply iter_expand_sound; [ | exact Hz].
      intros w [Hw | []]. subst. apply reach_refl.
    Qed.

    Lemma closure_self : forall x, In x (closure nodes teqb nb x).
    Proof. intros x. unfold closure. apply iter_expand_mono. cbn. tauto. Qed.

    Lemma closed_complete : forall s a b,
      closed teqb nb s = true -> In a s -> reach R a b -> In b s.
    Proof.
      intros s a b Hc Ha Hr. induction Hr as [ | x y z _ IH Hyz ].
      - exact Ha.
      - specialize (IH Ha). unfold closed in Hc. rewrite forallb_forall in Hc.
        specialize (Hc y IH). rewrite forallb_forall in Hc.
        apply memb_In. apply Hc. exact Hyz.
    Qed.

    Lemma closure_exact : forall x z,
      closed teqb nb (closure nodes teqb nb x) = true ->
      (memb teqb z (closure nodes teqb nb x) = true <-> reach R x z).
    Proof.
      intros x z Hc. rewrite memb_In. split.
      - apply closure_sound.
      - intros Hr. eapply closed_complete; [exact Hc | apply closure_self | exact Hr].
    Qed.
  End Closure.

  (* ---- the two adjacency functions against E / Esym ---- *)
  Variable nodes : list T.
  Variable adj : T -> list T.

  Lemma adj_e_spec : forall u v, In v (adj_e nodes adj teqb u) <-> E nodes adj u v.
  Proof.
    intros u v. unfold adj_e, E. destruct (memb teqb u nodes) eqn:Hm.
    - apply memb_In in Hm. rewrite filter_In, memb_In. tauto.
    - apply memb_false in Hm. cbn. tauto.
  Qed.

  Lemma adj_s_spec : forall u v, In v (adj_s nodes adj teqb u) <-> Esym nodes adj u v.
  Proof.
    intros u v. unfold adj_s, Esym. rewrite in_app_iff, filter_In, memb_In, !adj_e_spec.
    unfold E. tauto.
  Qed.

  Lemma reach_adj_e : forall x y,
    reach (fun u v => In v (adj_e nodes adj teqb u)) x y <-> reach (E nodes adj) x y.
  Proof. intros x y. split; apply reach_ext; intros u v; apply adj_e_spec. Qed.

  Lemma reach_adj_s : forall x y,
    reach (fun u v => In v (adj_s nodes adj teqb u)) x y <-> connected nodes adj x y.
  Proof. intros x y. unfold connected. split; apply reach_ext; intros u v; apply adj_s_spec. Qed.

  Lemma nodupb_NoDup : forall l, nodupb teqb l = true -> NoDup l.
  Proof.
    induction l as [ | a l IH ]; cbn [nodupb]; intros H.
    - constructor.
    - apply andb_true_iff in H. destruct H as [H1 H2]. constructor.
      + apply negb_true_iff in H1. apply memb_false in H1. exact H1.
      + apply IH. exact H2.
  Qed.

  Lemma relb_spec : forall k x y,
    forallb (fun x => closed teqb (nb_of nodes adj teqb k) (closure nodes teqb (nb_of nodes adj teqb k) x)) nodes = true ->
    In x nodes -> In y nodes ->
    (relb nodes adj teqb k x y = true <-> rel_of nodes adj k x y).
  Proof.
    intros k x y Hc Hx Hy. rewrite forallb_forall in Hc.
    destruct k; cbn [relb rel_of nb_of] in *.
    - rewrite (closure_exact nodes _ x y (Hc x Hx)). apply reach_adj_s.
    - rewrite andb_true_iff.
      rewrite (closure_exact nodes _ x y (Hc x Hx)), (closure_exact nodes _ y x (Hc y Hy)).
      unfold strongly. rewrite !reach_adj_e. tauto.
  Qed.

  Theorem check_components_sound : forall k comps,
    check_components nodes adj teqb k comps = true ->
    is_component_partition nodes (rel_of nodes adj k) comps.
  Proof.
    intros k comps H. unfold check_components in H.
    repeat (apply andb_true_iff in H; destruct H as [H ?]).
    rename H into Hclosed, H0 into Hrel, H1 into Hcov, H2 into Hsub, H3 into Hnd, H4 into Hne.
    rewrite forallb_forall in Hne, Hsub, Hcov, Hrel.
    assert (Hin : forall x, In x nodes <-> In x (concat comps)).
    { intros x. split; intros Hx.
      - apply memb_In. apply Hcov. exact Hx.
      - apply memb_In. apply Hsub. exact Hx. }
    split; [ | split; [ | split ] ].
    - intros c Hc Hnil. specialize (Hne c Hc). subst c. discriminate.
    - apply nodupb_NoDup. exact Hnd.
    - exact Hin.
    - intros c x y Hc Hx Hy.
      specialize (Hrel c Hc). rewrite forallb_forall in Hrel. specialize (Hrel x Hx).
      rewrite forallb_forall in Hrel. specialize (Hrel y Hy).
      apply eqb_prop in Hrel.
      assert (Hxn : In x nodes).
      { apply Hin. apply in_concat. exists c. tauto. }
      rewrite <- (relb_spec k x y Hclosed Hxn Hy), <- Hrel. symmetry. apply memb_In.
  Qed.

  (* consequence in the "two nodes share a set iff related" form *)
  Corollary partition_same_set : forall rel comps,
    is_component_partition nodes rel comps ->
    forall x y, In x nodes -> In y nodes ->
    ((exists c, In c comps /\ In x c /\ In y c) <-> rel x y).
  Proof.
    intros rel comps [_ [_ [Hin Hrel]]] x y Hx Hy. split.
    - intros [c [Hc [Hxc Hyc]]]. apply (Hrel c x y Hc Hxc Hy). exact Hyc.
    - intros Hr. apply Hin in Hx. apply in_concat in Hx. destruct Hx as [c [Hc Hxc]].
      exists c. split; [exact Hc | split; [exact Hxc | ] ].
      apply (Hrel c x y Hc Hxc Hy). exact Hr.
  Qed.
End ReachOk.
