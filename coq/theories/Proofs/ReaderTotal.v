(* C19: read_graphml_string as a whole (event loop + constructor) is total and
   panic-free on every event sequence; its errors; the directedness of its result. *)
From Coq Require Import String List NArith ZArith Bool.
From GV Require Import Base.Outcome Base.AMap Model.GState Model.Creation Model.XmlEscape Model.GraphML.
From GV Require Import Spec.GraphMLDef Proofs.EscapeOk Proofs.GraphMLOk Proofs.CreationNoPanic.
Import ListNotations.

Theorem read_events_total : forall parse evs s,
  exists r, read_events parse evs s = r /\ is_panic r = false /\ is_fuel r = false.
Proof.
  intros parse evs s. eexists. split; [reflexivity|]. rewrite read_events_content.
  destruct (doc_content parse evs) as [[[d ns] es]|]; [|split; reflexivity].
  apply (new_from_no_panic bytes_eqb bytes_ltb bytes_eqb_eq).
Qed.

Theorem read_events_error_kinds : forall parse evs s k,
  read_events parse evs s = Err k ->
  k = ReadError \/ k = SelfLoopsFound \/ k = NodeNotFound \/ k = DuplicateEdge.
Proof.
  intros parse evs s k. rewrite read_events_content.
  destruct (doc_content parse evs) as [[[d ns] es]|]; intro H.
  - right. exact (new_from_error_kinds bytes_eqb bytes_ltb bytes_eqb_eq _ _ _ _ H).
  - inversion H. left. reflexivity.
Qed.

(* Ok: the document was accepted, the graph is the constructor's result on its
   elements, and it has the directedness the document declares (the other spec
   fields are the caller's) *)
Theorem read_events_ok : forall parse evs s g,
  read_events parse evs s = Ok g ->
  exists els,
    doc_elems parse evs s_weight LNone false = Some els /\
    new_from_nodes_and_edges bytes_eqb bytes_ltb (el_nodes els) (el_edges els)
      (with_directed (el_directed true els) s) = Ok g /\
    sp g = with_directed (el_directed true els) s /\
    directed (sp g) = el_directed true els.
Proof.
  intros parse evs s g. rewrite read_events_content. unfold doc_content.
  destruct (doc_elems parse evs s_weight LNone false) as [els|]; [|discriminate].
  intro H. exists els. split; [reflexivity|]. split; [exact H|].
  pose proof (new_from_specs bytes_eqb bytes_ltb bytes_eqb_eq _ _ _ _ H) as Hs.
  split; [exact Hs|]. rewrite Hs. reflexivity.
Qed.

(* Ok: the graph's private indexes are coherent (name indexes in range, one adjacency row per node,
   adjacency entries for every stored pair) *)
Theorem read_events_ok_indexes : forall parse evs s g,
  read_events parse evs s = Ok g -> NP bytes_eqb g.
Proof.
  intros parse evs s g. rewrite read_events_content.
  destruct (doc_content parse evs) as [[[d ns] es]|]; [|discriminate].
  apply (new_from_NP bytes_eqb bytes_ltb bytes_eqb_eq).
Qed.
