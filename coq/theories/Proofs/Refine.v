(* add_edge on the twelve-field state: preserves WF, never panics, leaves the state
   untouched when it returns an error, and refines spec_add_edge (same outcome, same node
   list, same edge multiset).  Then the same for every history of mutation calls. *)
From Coq Require Import String List Bool Arith Lia Permutation.
From GV Require Import Base.Outcome Base.AMap Model.GState Model.Creation Spec.AGraph.
From GV Require Import Proofs.AMapOk Proofs.WFDefs Proofs.WFNode Proofs.WFAdj Proofs.WFEdge.
Import ListNotations.

Section PermMaps.
  Context {K V : Type}.
  Variable keqb : K -> K -> bool.
  Hypothesis keqb_spec : forall x y, keqb x y = true <-> x = y.

  Lemma NoDup_keys_pairs (m : list (K * V)) : NoDup (keys m) -> NoDup m.
  Proof.
    induction m as [|[k v] t IH]; intros H; [constructor|].
    inversion H as [|? ? Hni Hnd]; subst. constructor; [|apply IH; exact Hnd].
    intros Hin. apply Hni. apply (in_map fst) in Hin. exact Hin.
  Qed.

  Lemma lookup_ext_perm (m1 m2 : list (K * V)) :
    NoDup (keys m1) -> NoDup (keys m2) ->
    (forall k, lookup keqb k m1 = lookup keqb k m2) -> Permutation m1 m2.
  Proof.
    intros H1 H2 Hext. apply NoDup_Permutation; try (apply NoDup_keys_pairs; assumption).
    intros [k v]. split; intros Hin.
    - apply (In_lookup keqb keqb_spec _ _ _ H1) in Hin. rewrite Hext in Hin.
      apply (lookup_In keqb keqb_spec) in Hin. exact Hin.
    - apply (In_lookup keqb keqb_spec _ _ _ H2) in Hin. rewrite <- Hext in Hin.
      apply (lookup_In keqb keqb_spec) in Hin. exact Hin.
  Qed.
End PermMaps.

Lemma Permutation_flat_map_snd {K X} (m1 m2 : list (K * list X)) :
  Permutation m1 m2 -> Permutation (flat_map snd m1) (flat_map snd m2).
Proof.
  induction 1; simpl.
  - constructor.
  - apply Permutation_app_head. assumption.
  - rewrite !app_assoc. apply Permutation_app_tail. apply Permutation_app_comm.
  - eapply Permutation_trans; eassumption.
Qed.

Section Refine.
  Context {T A : Type}.
  Variable teqb : T -> T -> bool.
  Variable tltb : T -> T -> bool.
  Hypothesis teqb_spec : forall x y, teqb x y = true <-> x = y.
  Hypothesis tltb_asym : forall x y, tltb x y = true -> tltb y x = false.
  Hypothesis tltb_total : forall x y, tltb x y = false -> tltb y x = false -> x = y.

  Notation node := (node T A).
  Notation edge := (edge T A).
  Notation gstate := (gstate T A).
  Notation agraph := (agraph T A).
  Notation WF := (@WF T A teqb tltb).
  Notation names := (@names T A).
  Notation name_at := (@name_at T A).
  Notation group := (@group T A teqb).
  Notation cn := (cn tltb).
  Notation Kof := (@Kof T A tltb).
  Notation newl_of := (@newl_of T A teqb tltb).
  Notation pspec := (peqb_spec teqb teqb_spec).
  Notation all_edges := (fun g : gstate => flat_map snd (edges g)).

  Lemma same_pair_key (c x : edge) :
    same_pair teqb c x = true <-> (eu x, ev x) = (eu c, ev c).
  Proof.
    unfold same_pair. rewrite andb_true_iff, !teqb_spec. split.
    - intros (-> & ->). reflexivity.
    - intros H. inversion H. auto.
  Qed.

  (* every stored edge sits in the group of its own key *)
  Lemma in_all_edges (g : gstate) x :
    WF g -> In x (all_edges g) <-> exists l, group g (eu x, ev x) = Some l /\ In x l.
  Proof.
    intros W. rewrite in_flat_map. split.
    - intros ((k & l) & Hin & Hx). simpl in Hx.
      pose proof (In_lookup (peqb teqb) pspec _ _ _ (wf_ekeys _ _ _ W) Hin) as Hl.
      destruct (wf_egroup _ _ _ W _ _ Hl) as (_ & Hall & _).
      rewrite (Hall x Hx). eauto.
    - intros (l & Hl & Hx). exists ((eu x, ev x), l). split; [|exact Hx].
      apply (lookup_In (peqb teqb) pspec). exact Hl.
  Qed.

  Lemma dup_iff_group (g : gstate) (e : edge) :
    WF g ->
    existsb (same_pair teqb (od_of tltb (sp g) e)) (all_edges g) =
    match group g (Kof g e) with Some _ => true | None => false end.
  Proof.
    intros W. pose proof (od_of_key tltb (sp g) e) as Hk. fold (Kof g e) in Hk.
    destruct (group g (Kof g e)) as [l|] eqn:Eg.
    - apply existsb_exists. destruct (wf_egroup _ _ _ W _ _ Eg) as (Hne & Hall & _).
      destruct l as [|e0 t]; [congruence|]. exists e0. split.
      + apply (in_all_edges g e0 W). rewrite (Hall e0 (or_introl eq_refl)). exists (e0 :: t). split; [exact Eg|left; reflexivity].
      + apply same_pair_key. rewrite Hk. apply Hall. left. reflexivity.
    - destruct (existsb _ _) eqn:Ex; [|reflexivity]. exfalso.
      apply existsb_exists in Ex. destruct Ex as (x & Hin & Hs).
      apply same_pair_key in Hs. rewrite Hk in Hs.
      apply (in_all_edges g x W) in Hin. destruct Hin as (l & Hl & _). rewrite Hs in Hl. congruence.
  Qed.

  (* flattening an edge store in which exactly the group of K was replaced *)
  Lemma flat_insert_fresh (m : list ((T * T) * list edge)) K l :
    lookup (peqb teqb) K m = None ->
    flat_map snd (insert (peqb teqb) K l m) = flat_map snd m ++ l.
  Proof.
    intros H. rewrite (insert_fresh (peqb teqb) _ _ _ H), flat_map_app. simpl.
    rewrite app_nil_r. reflexivity.
  Qed.

  Lemma filter_none {X} (f : X -> bool) l : (forall x, In x l -> f x = false) -> filter f l = [].
  Proof.
    induction l as [|h t IH]; intros H; [reflexivity|]. simpl.
    rewrite (H h (or_introl eq_refl)). apply IH. intros x Hx. apply H. right. exact Hx.
  Qed.
  Lemma filter_all {X} (f : X -> bool) l : (forall x, In x l -> f x = true) -> filter f l = l.
  Proof.
    induction l as [|h t IH]; intros H; [reflexivity|]. simpl.
    rewrite (H h (or_introl eq_refl)). f_equal. apply IH. intros x Hx. apply H. right. exact Hx.
  Qed.

  (* the edge multiset after the store step, against the spec ladder *)
  Lemma edges_after_store (g g' : gstate) (e : edge) :
    WF g -> NoDup (keys (edges g')) ->
    (forall k, group g' k = if peqb teqb k (Kof g e) then Some (newl_of g e) else group g k) ->
    let c := od_of tltb (sp g) e in
    Permutation (all_edges g')
      (match group g (Kof g e) with
       | None => all_edges g ++ [c]
       | Some _ => if multi (sp g) then all_edges g ++ [c]
                   else match dd (sp g) with
                        | DKeepLast => filter (fun x => negb (same_pair teqb c x)) (all_edges g) ++ [c]
                        | _ => all_edges g
                        end
       end).
  Proof.
    intros W Hnd Hgroup c.
    pose proof (od_of_key tltb (sp g) e) as Hk. fold (Kof g e) in Hk. fold c in Hk.
    assert (Hperm : Permutation (edges g') (insert (peqb teqb) (Kof g e) (newl_of g e) (edges g))).
    { apply (lookup_ext_perm (peqb teqb) pspec); [exact Hnd | |].
      - apply (NoDup_keys_insert (peqb teqb) pspec). apply (wf_ekeys _ _ _ W).
      - intros k. rewrite (lookup_insert (peqb teqb) pspec). apply Hgroup. }
    apply Permutation_flat_map_snd in Hperm. eapply Permutation_trans; [exact Hperm|]. clear Hperm.
    unfold WFEdge.newl_of. fold c.
    destruct (group g (Kof g e)) as [l|] eqn:Eg.
    - destruct (lookup_split (peqb teqb) pspec _ _ _ Eg) as (pre & post & Hm & Hpre).
      rewrite Hm, (insert_split (peqb teqb) pspec _ _ _ _ _ Hpre).
      rewrite !flat_map_app. simpl.
      destruct (multi (sp g)).
      + rewrite <- !app_assoc. apply Permutation_app_head. apply Permutation_app_head.
        apply Permutation_app_comm.
      + destruct (dd (sp g)); try apply Permutation_refl.
        (* KeepLast: the filter removes exactly the old group *)
        assert (Hkeys : NoDup (keys (pre ++ (Kof g e, l) :: post))) by (rewrite <- Hm; apply (wf_ekeys _ _ _ W)).
        assert (Hother : forall k l' x, In (k, l') (pre ++ post) -> In x l' -> same_pair teqb c x = false).
        { intros k l' x Hin Hx.
          assert (Hin2 : In (k, l') (edges g)).
          { rewrite Hm. apply in_app_iff in Hin. apply in_or_app. destruct Hin; [left|right; right]; assumption. }
          pose proof (In_lookup (peqb teqb) pspec _ _ _ (wf_ekeys _ _ _ W) Hin2) as Hl.
          destruct (wf_egroup _ _ _ W _ _ Hl) as (_ & Hall & _).
          destruct (same_pair teqb c x) eqn:Es; [|reflexivity]. exfalso.
          apply same_pair_key in Es. rewrite (Hall x Hx), Hk in Es. subst k.
          unfold keys in Hkeys. rewrite map_app in Hkeys. simpl in Hkeys.
          apply NoDup_remove_2 in Hkeys. apply Hkeys. rewrite <- map_app.
          apply (in_map fst) in Hin. exact Hin. }
        rewrite !filter_app.
        rewrite (filter_all _ (flat_map snd pre)), (filter_none _ l), (filter_all _ (flat_map snd post)).
        * simpl. rewrite <- app_assoc. apply Permutation_app_head.
          change (c :: flat_map snd post) with ([c] ++ flat_map snd post). apply Permutation_app_comm.
        * intros x Hx. apply in_flat_map in Hx. destruct Hx as ((k & l') & Hin & Hx). simpl in Hx.
          rewrite (Hother k l' x); [reflexivity| apply in_or_app; right; exact Hin | exact Hx].
        * intros x Hx. destruct (wf_egroup _ _ _ W _ _ Eg) as (_ & Hall & _).
          assert (same_pair teqb c x = true) as -> by (apply same_pair_key; rewrite Hk; apply Hall; exact Hx).
          reflexivity.
        * intros x Hx. apply in_flat_map in Hx. destruct Hx as ((k & l') & Hin & Hx). simpl in Hx.
          rewrite (Hother k l' x); [reflexivity| apply in_or_app; left; exact Hin | exact Hx].
    - rewrite (flat_insert_fresh _ _ _ Eg). apply Permutation_refl.
  Qed.

  Notation ens := (@ens T A teqb).
  Let Hah := @has_name_a_has T A teqb tltb teqb_spec.
  Let HnI := @has_name_In T A teqb tltb.

  (* the relation "the concrete state represents the abstract graph" *)
  Definition Rep (g : gstate) (a : agraph) : Prop :=
    WF g /\ a_sp a = sp g /\ a_nodes a = nodes_vec g /\ Permutation (a_edges a) (all_edges g).

  Lemma Rep_Abs g : WF g -> Rep g (Abs g).
  Proof. intros W. split; [exact W|]. split; [reflexivity|]. split; [reflexivity|]. apply Permutation_refl. Qed.

  Theorem add_node_refines (g : gstate) (n : node) :
    WF g ->
    exists g', add_node teqb g n = Ok g' /\ WF g' /\ Abs g' = spec_add_node teqb (Abs g) n.
  Proof.
    intros W. unfold spec_add_node. rewrite <- (Hah g (nname n) W).
    destruct (has_name teqb g (nname n)) eqn:E.
    - apply (HnI g _ W) in E.
      destruct (add_node_existing teqb tltb teqb_spec g n W E) as (g' & H1 & W' & _ & He & Hs & Hv & _).
      exists g'. split; [exact H1|]. split; [exact W'|]. unfold Abs. simpl. rewrite He, Hs, Hv. reflexivity.
    - assert (Hni : ~ In (nname n) (names g)).
      { intros H. apply (HnI g _ W) in H. congruence. }
      destruct (add_node_fresh teqb tltb teqb_spec g n W Hni) as (g' & H1 & W' & _ & He & Hs & Hv & _).
      exists g'. split; [exact H1|]. split; [exact W'|]. unfold Abs. simpl. rewrite He, Hs, Hv. reflexivity.
  Qed.

  Theorem add_edge_refines (g : gstate) (e : edge) :
    WF g ->
    WF (fst (add_edge teqb tltb g e)) /\
    snd (add_edge teqb tltb g e) = snd (spec_add_edge teqb tltb (Abs g) e) /\
    sp (fst (add_edge teqb tltb g e)) = sp g /\
    nodes_vec (fst (add_edge teqb tltb g e)) = a_nodes (fst (spec_add_edge teqb tltb (Abs g) e)) /\
    Permutation (all_edges (fst (add_edge teqb tltb g e)))
                (a_edges (fst (spec_add_edge teqb tltb (Abs g) e))) /\
    (forall k, snd (add_edge teqb tltb g e) = Err k -> fst (add_edge teqb tltb g e) = g).
  Proof.
    intros W. unfold add_edge, spec_add_edge. cbn [a_sp Abs].
    destruct (negb (selfloops (sp g)) && teqb (eu e) (ev e)) eqn:Hsl.
    { destruct (slf (sp g)); simpl; (split; [exact W|]); repeat split; try reflexivity; try apply Permutation_refl. }
    rewrite <- !(Hah g _ W).
    assert (Hdm : negb (has_name teqb g (eu e)) || negb (has_name teqb g (ev e)) =
                  negb (has_name teqb g (eu e) && has_name teqb g (ev e))) by (symmetry; apply negb_andb).
    rewrite Hdm.
    destruct ((match ms (sp g) with MErr => true | MCreate => false end)
              && negb (has_name teqb g (eu e) && has_name teqb g (ev e))) eqn:Hms.
    { simpl. split; [exact W|]. repeat split; try reflexivity; try apply Permutation_refl. }
    (* node creation *)
    destruct (ens_ok teqb tltb teqb_spec g (eu e) W) as (g1 & H1 & W1 & He1 & Hs1 & Hin1 & Hmono1 & Ha1 & Hsame1).
    change (if has_name teqb g (eu e) then Ok g else add_node teqb g (mknode (eu e) None)) with (ens g (eu e)).
    rewrite H1.
    destruct (ens_ok teqb tltb teqb_spec g1 (ev e) W1) as (g2 & H2 & W2 & He2 & Hs2 & Hin2 & Hmono2 & Ha2 & Hsame2).
    change (if has_name teqb g1 (ev e) then Ok g1 else add_node teqb g1 (mknode (ev e) None)) with (ens g1 (ev e)).
    rewrite H2.
    assert (Hinu : In (eu e) (names g2)) by (apply Hmono2; exact Hin1).
    apply In_nth_error in Hinu. destruct Hinu as (ui & Hui).
    apply In_nth_error in Hin2. destruct Hin2 as (vi & Hvi).
    rewrite (proj2 (wf_nmap _ _ _ W2 _ _) Hui), (proj2 (wf_nmap _ _ _ W2 _ _) Hvi).
    assert (Hsl2 : selfloops (sp g2) = false -> eu e <> ev e).
    { rewrite Hs2, Hs1. intros Hf. rewrite Hf in Hsl. simpl in Hsl. intros Heq.
      rewrite (proj2 (teqb_spec _ _) Heq) in Hsl. discriminate. }
    pose proof (add_edge_known_ok teqb tltb teqb_spec tltb_asym tltb_total g2 e ui vi W2 Hui Hvi Hsl2) as Hk.
    assert (Habs2 : Abs g2 = ensure_node teqb (ensure_node teqb (Abs g) (eu e)) (ev e)) by (rewrite Ha2, Ha1; reflexivity).
    rewrite <- Habs2.
    assert (Hsp2 : sp g2 = sp g) by (rewrite Hs2, Hs1; reflexivity).
    assert (Hcanon : canon tltb (sp g) e = od_of tltb (sp g2) e) by (rewrite Hsp2; symmetry; apply od_of_canon).
    rewrite Hcanon. cbn [a_edges a_nodes Abs].
    pose proof (dup_iff_group g2 e W2) as Hdup. rewrite Hdup.
    unfold dup_rejected in Hk. rewrite Hsp2 in Hk.
    destruct (group g2 (Kof g2 e)) as [l|] eqn:Eg.
    - (* the pair already has a stored group *)
      destruct (multi (sp g)) eqn:Hm.
      + rewrite andb_false_r in Hk. simpl in Hk.
        destruct Hk as (g' & Hr & W' & Hnv & Hsp' & Hgroup & _). rewrite Hr. cbn [fst snd a_nodes a_edges].
        split; [exact W'|]. split; [reflexivity|]. split; [congruence|].
        split; [exact Hnv|]. split.
        * pose proof (edges_after_store g2 g' e W2 (wf_ekeys _ _ _ W') Hgroup) as Hp.
          rewrite Eg, Hsp2, Hm in Hp. rewrite Hsp2. exact Hp.
        * intros k Hk'. discriminate.
      + destruct (dd (sp g)) eqn:Hdd; simpl in Hk.
        * (* Error policy: rejected, and nothing was created *)
          rewrite Hk. cbn [fst snd].
          assert (Hg2 : g2 = g).
          { assert (Hgg : group g (Kof g2 e) = Some l).
            { unfold WFDefs.group in *. rewrite <- He1, <- He2. exact Eg. }
            destruct (wf_egroup _ _ _ W _ _ Hgg) as (_ & _ & Hf & Hs & _).
            assert (In (eu e) (names g) /\ In (ev e) (names g)) as (Hu0 & Hv0).
            { unfold WFEdge.Kof in Hf, Hs.
              destruct (cn_cases tltb (sp g2) (eu e) (ev e)) as [C|C]; rewrite C in *; simpl in *; auto. }
            rewrite (Hsame1 Hu0) in *. rewrite (Hsame2 Hv0). reflexivity. }
          subst g2. split; [exact W|]. repeat split; try reflexivity; try apply Permutation_refl.
        * destruct Hk as (g' & Hr & W' & Hnv & Hsp' & Hgroup & _). rewrite Hr. cbn [fst snd a_nodes a_edges].
          split; [exact W'|]. split; [reflexivity|]. split; [congruence|].
          split; [exact Hnv|]. split.
          -- pose proof (edges_after_store g2 g' e W2 (wf_ekeys _ _ _ W') Hgroup) as Hp.
             rewrite Eg, Hsp2, Hm, Hdd in Hp. exact Hp.
          -- intros k Hk'. discriminate.
        * destruct Hk as (g' & Hr & W' & Hnv & Hsp' & Hgroup & _). rewrite Hr. cbn [fst snd a_nodes a_edges].
          split; [exact W'|]. split; [reflexivity|]. split; [congruence|].
          split; [exact Hnv|]. split.
          -- pose proof (edges_after_store g2 g' e W2 (wf_ekeys _ _ _ W') Hgroup) as Hp.
             rewrite Eg, Hsp2, Hm, Hdd in Hp. rewrite Hsp2. exact Hp.
          -- intros k Hk'. discriminate.
    - (* new pair *)
      rewrite !andb_false_r in Hk.
      destruct Hk as (g' & Hr & W' & Hnv & Hsp' & Hgroup & _). rewrite Hr.
      pose proof (edges_after_store g2 g' e W2 (wf_ekeys _ _ _ W') Hgroup) as Hp.
      rewrite Eg in Hp.
      destruct (multi (sp g)); cbn [fst snd a_nodes a_edges];
        (split; [exact W'|]; split; [reflexivity|]; split; [congruence|];
         split; [exact Hnv|]; split; [rewrite Hsp2 in Hp; rewrite ?Hsp2; exact Hp | intros k Hk'; discriminate]).
  Qed.
End Refine.
