(* C10, strongly_connected_components (Model/Scc.v): FULL correctness of the iterative
   preorder / low-link loop for every neighbour order oracle: every emitted set is exactly
   a class of mutual reachability along the successor relation the loop reads. *)
From Coq Require Import String List Bool Arith Lia.
From GV Require Import Base.Outcome Base.AMap Model.GState Model.Creation Model.Query
     Model.Components Model.Scc Spec.ReachDef Proofs.ReachOk Proofs.ComponentsOk Proofs.ClusterOk
     Proofs.SccOk.
Import ListNotations.

Section SccFull.
  Context {T A : Type}.
  Variable teqb : T -> T -> bool.
  Hypothesis teqb_spec : forall x y, teqb x y = true <-> x = y.
  Variable ord : list T -> list T.
  Notation gstate := (gstate T A).

  Let mIn := mem_name_In teqb teqb_spec.
  Let mNot := mem_name_false teqb teqb_spec.
  Let lk_ins := fun V => @lookup_insert T teqb teqb_spec V.
  Let t_refl := teqb_refl2 teqb teqb_spec.
  Let t_neq := teqb_neq teqb teqb_spec.

  (* ---------------- what the low-link pass computes ---------------- *)
  Lemma lowlink_pass_full : forall pre found v pv nb low lw l0,
    lowlink_pass teqb pre low found v pv nb = Ok lw ->
    lookup teqb v low = Some l0 ->
    exists l, lookup teqb v lw = Some l /\ l <= l0 /\
      (* bounds *)
      (forall w pw, In w nb -> ~ In w found -> lookup teqb w pre = Some pw ->
         (pw <= pv -> l <= pw) /\
         (pv < pw -> w <> v -> exists lw', lookup teqb w low = Some lw' /\ l <= lw')) /\
      (* witness *)
      (l = l0 \/ exists w pw, In w nb /\ ~ In w found /\ lookup teqb w pre = Some pw /\
                   ((pw <= pv /\ l = pw) \/ (pv < pw /\ w <> v /\ lookup teqb w low = Some l))).
  Proof.
    intros pre found v pv. unfold lowlink_pass.
    induction nb as [ | w t IH ]; intros low lw l0 H Hl0; cbn [ofold] in H.
    - inversion H; subst. exists l0. split; [exact Hl0 | split; [lia | split ] ].
      + intros w pw [].
      + left. reflexivity.
    - destruct (mem_name teqb w found) eqn:Hf; cbn [bind] in H.
      + apply mIn in Hf. destruct (IH _ _ _ H Hl0) as [l [H1 [H2 [H3 H4]]]].
        exists l. split; [exact H1 | split; [exact H2 | split ] ].
        * intros w' pw' [<- | Hw'] Hnf; [contradiction | apply (H3 w' pw' Hw' Hnf)].
        * destruct H4 as [H4 | [w' [pw' [Hw' H4]]]]; [left; exact H4 | right].
          exists w', pw'. split; [cbn; tauto | exact H4].
      + apply mNot in Hf.
        destruct (lookup teqb w pre) as [pw | ] eqn:Hpw; [ | discriminate].
        rewrite Hl0 in H.
        destruct (Nat.ltb pv pw) eqn:Hcmp.
        * apply Nat.ltb_lt in Hcmp.
          destruct (lookup teqb w low) as [lww | ] eqn:Hlww; [ | discriminate]. cbn [bind] in H.
          assert (Hwv : w <> v \/ w = v).
          { destruct (teqb w v) eqn:E; [right; apply teqb_spec; exact E | left; intros ->; rewrite t_refl in E; discriminate]. }
          destruct (IH _ _ (Nat.min l0 lww) H) as [l [H1 [H2 [H3 H4]]]].
          { rewrite (lk_ins nat), t_refl. reflexivity. }
          exists l. split; [exact H1 | split; [lia | split ] ].
          -- intros w' pw' [<- | Hw'] Hnf Hp'.
             ++ rewrite Hpw in Hp'. inversion Hp'; subst pw'. split; [lia | ].
                intros _ Hne. exists lww. split; [exact Hlww | lia].
             ++ destruct (H3 w' pw' Hw' Hnf Hp') as [Ha Hb]. split; [exact Ha | ].
                intros Hlt Hne. destruct (Hb Hlt Hne) as [lw' [Hl' Hle]].
                rewrite (lk_ins nat), (t_neq w' v Hne) in Hl'. exists lw'. auto.
          -- destruct H4 as [H4 | [w' [pw' [Hw' [Hnf' [Hp' H4]]]]]].
             ++ destruct (Nat.le_gt_cases l0 lww) as [Hle | Hgt].
                ** left. lia.
                ** destruct Hwv as [Hne | ->].
                   --- right. exists w, pw. split; [cbn; tauto | split; [exact Hf | split; [exact Hpw | ] ] ].
                       right. split; [exact Hcmp | split; [exact Hne | ] ]. rewrite Hlww. f_equal. lia.
                   --- rewrite Hl0 in Hlww. inversion Hlww; subst. lia.
             ++ right. exists w', pw'. split; [cbn; tauto | split; [exact Hnf' | split; [exact Hp' | ] ] ].
                destruct H4 as [H4 | [Hlt [Hne Hl']]]; [left; exact H4 | right].
                split; [exact Hlt | split; [exact Hne | ] ].
                rewrite (lk_ins nat), (t_neq w' v Hne) in Hl'. exact Hl'.
        * apply Nat.ltb_ge in Hcmp. cbn [bind] in H.
          destruct (IH _ _ (Nat.min l0 pw) H) as [l [H1 [H2 [H3 H4]]]].
          { rewrite (lk_ins nat), t_refl. reflexivity. }
          exists l. split; [exact H1 | split; [lia | split ] ].
          -- intros w' pw' [<- | Hw'] Hnf Hp'.
             ++ rewrite Hpw in Hp'. inversion Hp'; subst pw'. split; [lia | lia].
             ++ destruct (H3 w' pw' Hw' Hnf Hp') as [Ha Hb]. split; [exact Ha | ].
                intros Hlt Hne. destruct (Hb Hlt Hne) as [lw' [Hl' Hle]].
                rewrite (lk_ins nat), (t_neq w' v Hne) in Hl'. exists lw'. auto.
          -- destruct H4 as [H4 | [w' [pw' [Hw' [Hnf' [Hp' H4]]]]]].
             ++ destruct (Nat.le_gt_cases l0 pw) as [Hle | Hgt].
                ** left. lia.
                ** right. exists w, pw. split; [cbn; tauto | split; [exact Hf | split; [exact Hpw | ] ] ].
                   left. split; [exact Hcmp | lia].
             ++ right. exists w', pw'. split; [cbn; tauto | split; [exact Hnf' | split; [exact Hp' | ] ] ].
                destruct H4 as [H4 | [Hlt [Hne Hl']]]; [left; exact H4 | right].
                split; [exact Hlt | split; [exact Hne | ] ].
                rewrite (lk_ins nat), (t_neq w' v Hne) in Hl'. exact Hl'.
  Qed.

  (* ---------------- popq pops exactly a maximal top segment ---------------- *)
  Lemma popq_segment : forall pre v q scc scc' q',
    popq teqb pre v q scc = (scc', q') ->
    exists popped, q = popped ++ q' /\
      (forall k, In k popped -> opt_gt (lookup teqb k pre) (lookup teqb v pre) = true) /\
      (forall k t, q' = k :: t -> opt_gt (lookup teqb k pre) (lookup teqb v pre) = false).
  Proof.
    intros pre v. induction q as [ | k t IH ]; intros scc scc' q' H; cbn [popq] in H.
    - inversion H; subst. exists []. split; [reflexivity | split; [intros k [] | intros k t Hq; discriminate] ].
    - destruct (opt_gt (lookup teqb k pre) (lookup teqb v pre)) eqn:E.
      + destruct (IH _ _ _ H) as [popped [H1 [H2 H3]]]. exists (k :: popped).
        split; [cbn; congruence | split; [ | exact H3] ].
        intros k' [<- | Hk']; [exact E | apply H2; exact Hk'].
      + inversion H; subst. exists []. split; [reflexivity | split; [intros k' [] | ] ].
        intros k' t' Hq. inversion Hq; subst. exact E.
  Qed.

  (* ---------------- the relation the loop follows ---------------- *)
  Variable g : gstate.
  Definition E (u w : T) : Prop := In w (scc_nbrs teqb ord g u).
  Definition R : T -> T -> Prop := reach E.
  Definition mutual (x y : T) : Prop := R x y /\ R y x.

  Lemma R_trans : forall a b c, R a b -> R b c -> R a c.
  Proof. intros a b c. apply reach_trans. Qed.
  Lemma R_one : forall a b, E a b -> R a b.
  Proof. intros a b. apply reach_one. Qed.
  Lemma R_refl : forall a, R a a.
  Proof. intros a. apply reach_refl. Qed.

  Definition U (queue : list T) (s : sst) (x : T) : Prop := In x (s_sccq s) \/ In x queue.

  Record xinv (queue : list T) (s : sst) : Prop := {
    x_inj : forall x y p, lookup teqb x (s_pre s) = Some p -> lookup teqb y (s_pre s) = Some p -> x = y;
    x_qsorted : forall front a back, queue = front ++ a :: back ->
                forall b pa pb, In b back -> lookup teqb a (s_pre s) = Some pa ->
                                lookup teqb b (s_pre s) = Some pb -> pb < pa;
    x_qparent : forall front a b back, queue = front ++ a :: b :: back -> E b a;
    x_qnolow : forall q, In q queue -> lookup teqb q (s_low s) = None;
    x_prefix : forall a pa top k bottom pk,
               In a queue -> lookup teqb a (s_pre s) = Some pa ->
               s_sccq s = top ++ k :: bottom -> lookup teqb k (s_pre s) = Some pk -> pa < pk ->
               forall k' pk', In k' top -> lookup teqb k' (s_pre s) = Some pk' -> pa < pk';
    x_low_hi : forall k, In k (s_sccq s) ->
               exists lk pk, lookup teqb k (s_low s) = Some lk /\ lookup teqb k (s_pre s) = Some pk /\ lk < pk;
    x_low_wit : forall k lk, In k (s_sccq s) -> lookup teqb k (s_low s) = Some lk ->
                exists y, U queue s y /\ lookup teqb y (s_pre s) = Some lk /\ R k y;
    x_parent : forall k pk, In k (s_sccq s) -> lookup teqb k (s_pre s) = Some pk ->
               exists p pp, U queue s p /\ E p k /\ lookup teqb p (s_pre s) = Some pp /\ pp < pk /\
                 (forall q pq, In q queue -> lookup teqb q (s_pre s) = Some pq -> pq < pk -> pq <= pp) /\
                 (In p (s_sccq s) -> forall lp lk, lookup teqb p (s_low s) = Some lp ->
                                                   lookup teqb k (s_low s) = Some lk -> lp <= lk);
    x_succ : forall u w, In u (s_sccq s) -> E u w ->
             numbered teqb (s_pre s) w /\
             (~ In w (s_found s) -> forall pu pw lu,
                lookup teqb u (s_pre s) = Some pu -> lookup teqb w (s_pre s) = Some pw ->
                lookup teqb u (s_low s) = Some lu ->
                (pw < pu -> lu <= pw) /\
                (pu < pw -> exists lw', lookup teqb w (s_low s) = Some lw' /\ lu <= lw'));
    x_closed : forall u w, In u (s_found s) -> E u w -> In w (s_found s);
    x_classes : forall c, In c (s_comps s) -> exists v, forall y, In y c <-> mutual v y
  }.

  (* ---- numbering the top of the stack ---- *)
  Lemma xstep_number : forall base v qt s,
    sinv teqb base (v :: qt) s -> xinv (v :: qt) s -> lookup teqb v (s_pre s) = None ->
    xinv (v :: qt)
         (mks (insert teqb v (S (s_ctr s)) (s_pre s)) (s_low s) (s_found s) (s_sccq s) (S (s_ctr s)) (s_comps s)).
  Proof.
    intros base v qt s I X Hv. destruct X.
    assert (Hk_ne : forall k, In k (s_sccq s) -> k <> v).
    { intros k Hk ->. destruct (i_sccq _ _ _ _ I v Hk) as [_ [Hq _]]. apply Hq. cbn. tauto. }
    assert (Hlk : forall x, x <> v -> lookup teqb x (insert teqb v (S (s_ctr s)) (s_pre s)) = lookup teqb x (s_pre s)).
    { intros x Hx. rewrite (lk_ins nat), (t_neq x v Hx). reflexivity. }
    assert (Hlv : lookup teqb v (insert teqb v (S (s_ctr s)) (s_pre s)) = Some (S (s_ctr s))).
    { rewrite (lk_ins nat), t_refl. reflexivity. }
    assert (Hhi : forall x px, lookup teqb x (s_pre s) = Some px -> px <= s_ctr s) by apply (i_pre_hi _ _ _ _ I).
    assert (Hcases : forall x, x = v \/ x <> v).
    { intros x. destruct (teqb x v) eqn:E0; [left; apply teqb_spec; exact E0 | right; intros ->; rewrite t_refl in E0; discriminate]. }
    constructor; cbn [s_pre s_low s_found s_sccq s_ctr s_comps]; try assumption.
    - intros x y p Hx Hy. destruct (Hcases x) as [-> | Hxv], (Hcases y) as [-> | Hyv]; try reflexivity.
      + rewrite Hlv in Hx. rewrite (Hlk y Hyv) in Hy. inversion Hx; subst. specialize (Hhi y _ Hy). lia.
      + rewrite Hlv in Hy. rewrite (Hlk x Hxv) in Hx. inversion Hy; subst. specialize (Hhi x _ Hx). lia.
      + rewrite (Hlk x Hxv) in Hx. rewrite (Hlk y Hyv) in Hy. apply (x_inj0 x y p Hx Hy).
    - intros front a back Hq b pa pb Hb Ha Hpb.
      assert (Hbv : b <> v).
      { intros ->. pose proof (i_queue_nodup _ _ _ _ I) as Hn. rewrite Hq in Hn.
        destruct front as [ | f0 front ]; cbn in Hq; inversion Hq; subst.
        - inversion Hn; subst. contradiction.
        - cbn in Hn. inversion Hn; subst. apply H1. apply in_app_iff. right. cbn. tauto. }
      rewrite (Hlk b Hbv) in Hpb. destruct (Hcases a) as [-> | Hav].
      + rewrite Hlv in Ha. inversion Ha; subst. specialize (Hhi b _ Hpb). lia.
      + rewrite (Hlk a Hav) in Ha. apply (x_qsorted0 front a back Hq b pa pb Hb Ha Hpb).
    - intros a pa top k bottom pk Ha Hpa Hs Hpk Hlt k' pk' Hk' Hpk'.
      assert (Hkin : In k (s_sccq s)) by (rewrite Hs; apply in_app_iff; cbn; tauto).
      assert (Hk'in : In k' (s_sccq s)) by (rewrite Hs; apply in_app_iff; tauto).
      rewrite (Hlk k (Hk_ne k Hkin)) in Hpk. rewrite (Hlk k' (Hk_ne k' Hk'in)) in Hpk'.
      destruct (Hcases a) as [-> | Hav].
      + rewrite Hlv in Hpa. inversion Hpa; subst. specialize (Hhi k _ Hpk). lia.
      + rewrite (Hlk a Hav) in Hpa. apply (x_prefix0 a pa top k bottom pk Ha Hpa Hs Hpk Hlt k' pk' Hk' Hpk').
    - intros k Hk. destruct (x_low_hi0 k Hk) as [lk [pk [H1 [H2 H3]]]]. exists lk, pk.
      rewrite (Hlk k (Hk_ne k Hk)). auto.
    - intros k lk Hk Hl. destruct (x_low_wit0 k lk Hk Hl) as [y [Hy [Hp Hr]]]. exists y.
      split; [exact Hy | split; [ | exact Hr] ].
      destruct (Hcases y) as [-> | Hyv]; [congruence | rewrite (Hlk y Hyv); exact Hp].
    - intros k pk Hk Hpk. rewrite (Hlk k (Hk_ne k Hk)) in Hpk.
      destruct (x_parent0 k pk Hk Hpk) as [p [pp [H1 [H2 [H3 [H4 [H5 H6]]]]]]].
      exists p, pp. split; [exact H1 | split; [exact H2 | split; [ | split; [exact H4 | split; [ | exact H6] ] ] ] ].
      + destruct (Hcases p) as [-> | Hpv]; [congruence | rewrite (Hlk p Hpv); exact H3].
      + intros q pq Hq Hpq Hlt. destruct (Hcases q) as [-> | Hqv].
        * rewrite Hlv in Hpq. inversion Hpq; subst. specialize (Hhi k _ Hpk). lia.
        * rewrite (Hlk q Hqv) in Hpq. apply (H5 q pq Hq Hpq Hlt).
    - intros u w Hu He. destruct (x_succ0 u w Hu He) as [Hn Hb]. split; [apply numbered_insert; [exact teqb_spec | exact Hn] | ].
      assert (Hwv : w <> v) by (intros ->; destruct Hn as [p Hp]; congruence).
      intros Hnf pu pw lu Hpu Hpw Hlu. rewrite (Hlk u (Hk_ne u Hu)) in Hpu. rewrite (Hlk w Hwv) in Hpw.
      apply (Hb Hnf pu pw lu Hpu Hpw Hlu).
  Qed.

  (* ---- pushing an unnumbered neighbour ---- *)
  Lemma xstep_push : forall base v qt s w,
    sinv teqb base (v :: qt) s -> xinv (v :: qt) s ->
    lookup teqb w (s_pre s) = None -> E v w ->
    xinv (w :: v :: qt) s.
  Proof.
    intros base v qt s w I X Hw Hvw. destruct X.
    constructor; try assumption.
    - intros front a back Hq b pa pb Hb Ha Hpb. destruct front as [ | f0 front ]; cbn in Hq; inversion Hq; subst.
      + congruence.
      + apply (x_qsorted0 front a back H1 b pa pb Hb Ha Hpb).
    - intros front a b back Hq. destruct front as [ | f0 front ]; cbn in Hq; inversion Hq; subst.
      + exact Hvw.
      + apply (x_qparent0 front a b back H1).
    - intros q [<- | Hq]; [ | apply x_qnolow0; exact Hq].
      destruct (lookup teqb w (s_low s)) as [l | ] eqn:El; [ | reflexivity].
      destruct (i_low_num _ _ _ _ I w l El) as [p Hp]. congruence.
    - intros a pa top k bottom pk [<- | Ha] Hpa; [congruence | ]. apply (x_prefix0 a pa top k bottom pk Ha Hpa).
    - intros k lk Hk Hl. destruct (x_low_wit0 k lk Hk Hl) as [y [[Hy | Hy] [Hp Hr]]]; exists y.
      + split; [left; exact Hy | auto].
      + split; [right; cbn; cbn in Hy; tauto | auto].
    - intros k pk Hk Hpk. destruct (x_parent0 k pk Hk Hpk) as [p [pp [H1 [H2 [H3 [H4 [H5 H6]]]]]]].
      exists p, pp. split; [ | split; [exact H2 | split; [exact H3 | split; [exact H4 | split; [ | exact H6] ] ] ] ].
      + destruct H1 as [H1 | H1]; [left; exact H1 | right; cbn; cbn in H1; tauto].
      + intros q pq [<- | Hq] Hpq; [congruence | apply (H5 q pq Hq Hpq)].
  Qed.

  (* ---- finishing a node that has to wait on scc_queue ---- *)
  Lemma xstep_defer : forall base v qt s pv lw l,
    sinv teqb base (v :: qt) s -> xinv (v :: qt) s ->
    lookup teqb v (s_pre s) = Some pv -> qt <> [] ->
    (forall w, E v w -> numbered teqb (s_pre s) w) ->
    (forall x, x <> v -> lookup teqb x lw = lookup teqb x (s_low s)) ->
    lookup teqb v lw = Some l -> l < pv ->
    (forall w pw, E v w -> ~ In w (s_found s) -> lookup teqb w (s_pre s) = Some pw ->
       (pw <= pv -> l <= pw) /\
       (pv < pw -> w <> v -> exists lw', lookup teqb w (s_low s) = Some lw' /\ l <= lw')) ->
    (exists w pw, E v w /\ ~ In w (s_found s) /\ lookup teqb w (s_pre s) = Some pw /\
                  ((pw <= pv /\ l = pw) \/ (pv < pw /\ w <> v /\ lookup teqb w (s_low s) = Some l))) ->
    xinv qt (mks (s_pre s) lw (s_found s) (v :: s_sccq s) (s_ctr s) (s_comps s)).
  Proof.
    intros base v qt s pv lw l I X Hpv Hqt Hnum Hother Hl Hlt Hbound Hwit. destruct X.
    assert (Hvq : ~ In v qt) by (pose proof (i_queue_nodup _ _ _ _ I) as Hn; inversion Hn; assumption).
    assert (Hvs : ~ In v (s_sccq s)).
    { intros Hin. destruct (i_sccq _ _ _ _ I v Hin) as [_ [Hq _]]. apply Hq. cbn. tauto. }
    assert (Hk_ne : forall k, In k (s_sccq s) -> k <> v) by (intros k Hk ->; contradiction).
    assert (Hq_ne : forall q, In q qt -> q <> v) by (intros q Hq ->; contradiction).
    assert (Hbelow : forall q pq, In q qt -> lookup teqb q (s_pre s) = Some pq -> pq < pv).
    { intros q pq Hq Hpq. apply (x_qsorted0 [] v qt eq_refl q pv pq Hq Hpv Hpq). }
    assert (HU : forall y, U (v :: qt) s y -> y <> v -> U qt (mks (s_pre s) lw (s_found s) (v :: s_sccq s) (s_ctr s) (s_comps s)) y).
    { intros y [Hy | [<- | Hy]] Hne; [left; cbn; tauto | contradiction | right; exact Hy]. }
    assert (HU2 : forall y, U (v :: qt) s y -> U qt (mks (s_pre s) lw (s_found s) (v :: s_sccq s) (s_ctr s) (s_comps s)) y).
    { intros y [Hy | [<- | Hy]]; [left; cbn; tauto | left; cbn; tauto | right; exact Hy]. }
    constructor; cbn [s_pre s_low s_found s_sccq s_ctr s_comps]; try assumption.
    - intros front a back Hq. apply (x_qsorted0 (v :: front) a back). rewrite Hq. reflexivity.
    - intros front a b back Hq. apply (x_qparent0 (v :: front) a b back). rewrite Hq. reflexivity.
    - intros q Hq. rewrite (Hother q (Hq_ne q Hq)). apply x_qnolow0. cbn. tauto.
    - intros a pa top k bottom pk Ha Hpa Hs Hpk Hlt' k' pk' Hk' Hpk'.
      destruct top as [ | t0 top ]; [destruct Hk' | ]. cbn in Hs. injection Hs as Ht0 Hs'. subst t0.
      destruct Hk' as [<- | Hk'].
      + rewrite Hpv in Hpk'. inversion Hpk'; subst. apply (Hbelow a pa Ha Hpa).
      + exact (x_prefix0 a pa top k bottom pk (or_intror Ha) Hpa Hs' Hpk Hlt' k' pk' Hk' Hpk').
    - intros k [<- | Hk].
      + exists l, pv. auto.
      + destruct (x_low_hi0 k Hk) as [lk [pk [H1 [H2 H3]]]]. exists lk, pk. rewrite (Hother k (Hk_ne k Hk)). auto.
    - intros k lk [<- | Hk] Hlk.
      + rewrite Hl in Hlk. inversion Hlk; subst lk.
        destruct Hwit as [w [pw [Hvw [Hnf [Hpw [[Hle Heq] | [Hgt [Hne Hlw]]]]]]]].
        * subst l. exists w. split; [ | split; [exact Hpw | apply R_one; exact Hvw] ].
          apply HU; [ | intros ->; rewrite Hpv in Hpw; inversion Hpw; lia].
          destruct (i_numbered _ _ _ _ I w (ex_intro _ pw Hpw)) as [H | [H | H]]; [contradiction | left; exact H | right; exact H].
        * assert (Hws : In w (s_sccq s)).
          { destruct (i_numbered _ _ _ _ I w (ex_intro _ pw Hpw)) as [H | [H | [H | H]]]; [contradiction | exact H | congruence | ].
            specialize (Hbelow w pw H Hpw). lia. }
          destruct (x_low_wit0 w l Hws Hlw) as [y [Hy [Hpy Hry]]]. exists y.
          split; [ | split; [exact Hpy | eapply R_trans; [apply R_one; exact Hvw | exact Hry] ] ].
          apply HU; [exact Hy | intros ->; rewrite Hpv in Hpy; inversion Hpy; lia].
      + rewrite (Hother k (Hk_ne k Hk)) in Hlk. destruct (x_low_wit0 k lk Hk Hlk) as [y [Hy [Hpy Hry]]].
        exists y. split; [apply HU2; exact Hy | auto].
    - intros k pk [<- | Hk] Hpk.
      + rewrite Hpv in Hpk. inversion Hpk; subst pk.
        destruct qt as [ | b qt' ]; [congruence | ].
        destruct (i_queue_tail _ _ _ _ I v (b :: qt') eq_refl b (or_introl eq_refl)) as [pb Hpb].
        exists b, pb. split; [right; cbn; tauto | ].
        split; [apply (x_qparent0 [] v b qt' eq_refl) | ].
        split; [exact Hpb | ]. split; [apply (Hbelow b pb (or_introl eq_refl) Hpb) | ]. split.
        * intros q pq [<- | Hq] Hpq _; [rewrite Hpb in Hpq; inversion Hpq; lia | ].
          pose proof (x_qsorted0 [v] b qt' eq_refl q pb pq Hq Hpb Hpq). lia.
        * intros [Hb | Hb]; [exfalso; apply (Hq_ne b (or_introl eq_refl)); symmetry; exact Hb | ].
          exfalso. destruct (i_sccq _ _ _ _ I b Hb) as [_ [Hnq _]]. apply Hnq. cbn. tauto.
      + destruct (x_parent0 k pk Hk Hpk) as [p [pp [H1 [H2 [H3 [H4 [H5 H6]]]]]]].
        exists p, pp. split; [apply HU2; exact H1 | ]. split; [exact H2 | ]. split; [exact H3 | ].
        split; [exact H4 | ]. split.
        * intros q pq Hq. apply H5. cbn. tauto.
        * intros [Hp | Hp] lp lk Hlp Hlk.
          -- subst p. rewrite Hl in Hlp. inversion Hlp; subst lp. rewrite Hpv in H3. inversion H3; subst pp.
             rewrite (Hother k (Hk_ne k Hk)) in Hlk.
             destruct (i_sccq _ _ _ _ I k Hk) as [Hnf _].
             destruct (Hbound k pk H2 Hnf Hpk) as [_ Hb]. destruct (Hb H4 (Hk_ne k Hk)) as [lw' [Hlw' Hle]].
             rewrite Hlk in Hlw'. inversion Hlw'; subst. exact Hle.
          -- rewrite (Hother p (Hk_ne p Hp)) in Hlp. rewrite (Hother k (Hk_ne k Hk)) in Hlk.
             apply (H6 Hp lp lk Hlp Hlk).
    - intros u w [<- | Hu] He.
      + split; [apply Hnum; exact He | ]. intros Hnf pu pw lu Hpu Hpw Hlu.
        rewrite Hpv in Hpu. inversion Hpu; subst pu. rewrite Hl in Hlu. inversion Hlu; subst lu.
        destruct (Hbound w pw He Hnf Hpw) as [Ha Hb]. split; [intros Hlt'; apply Ha; lia | ].
        intros Hlt'. assert (Hwv : w <> v) by (intros ->; rewrite Hpv in Hpw; inversion Hpw; lia).
        destruct (Hb Hlt' Hwv) as [lw' [Hlw' Hle]]. exists lw'. rewrite (Hother w Hwv). auto.
      + destruct (x_succ0 u w Hu He) as [Hn Hb]. split; [exact Hn | ].
        intros Hnf pu pw lu Hpu Hpw Hlu. rewrite (Hother u (Hk_ne u Hu)) in Hlu.
        destruct (Hb Hnf pu pw lu Hpu Hpw Hlu) as [Ha Hc]. split; [exact Ha | ].
        intros Hlt'. destruct (Hc Hlt') as [lw' [Hlw' Hle]]. exists lw'. split; [ | exact Hle].
        assert (Hwv : w <> v).
        { intros ->. rewrite (x_qnolow0 v (or_introl eq_refl)) in Hlw'. discriminate. }
        rewrite (Hother w Hwv). exact Hlw'.
  Qed.

  Lemma opt_gt_true : forall a pv, opt_gt a (Some pv) = true -> exists pk, a = Some pk /\ pv < pk.
  Proof.
    intros [pk | ] pv H; cbn in H; [ | discriminate]. exists pk. split; [reflexivity | apply Nat.ltb_lt; exact H].
  Qed.

  Lemma R_closed_found : forall (found : list T),
    (forall u w, In u found -> E u w -> In w found) -> forall a b, R a b -> In a found -> In b found.
  Proof.
    intros found Hc a b Hr. induction Hr as [ | x y z _ IH Hyz ]; intros Ha; [exact Ha | ].
    apply (Hc y z); [apply IH; exact Ha | exact Hyz].
  Qed.

  Lemma reach_ind_from : forall (P : T -> Prop) v,
    P v -> (forall y z, R v y -> P y -> E y z -> P z) -> forall x, R v x -> P x.
  Proof.
    intros P v Hv Hs x Hr. unfold R in Hr. induction Hr as [ | a y z Hay IH Hyz ].
    - exact Hv.
    - apply (Hs y z Hay (IH Hv Hs) Hyz).
  Qed.

  (* ---- finishing a node whose low-link equals its preorder: a class is emitted ---- *)
  Lemma xstep_emit : forall base v qt s pv lw scc q',
    sinv teqb base (v :: qt) s -> xinv (v :: qt) s ->
    lookup teqb v (s_pre s) = Some pv ->
    (forall w, E v w -> numbered teqb (s_pre s) w) ->
    (forall x, x <> v -> lookup teqb x lw = lookup teqb x (s_low s)) ->
    (forall w pw, E v w -> ~ In w (s_found s) -> lookup teqb w (s_pre s) = Some pw ->
       (pw <= pv -> pv <= pw) /\
       (pv < pw -> w <> v -> exists lw', lookup teqb w (s_low s) = Some lw' /\ pv <= lw')) ->
    popq teqb (s_pre s) v (s_sccq s) [v] = (scc, q') ->
    xinv qt (mks (s_pre s) lw (union_names teqb (s_found s) scc) q' (s_ctr s) (s_comps s ++ [scc])).
  Proof.
    intros base v qt s pv lw scc q' I X Hpv Hnum Hother Hbound Hpop. destruct X.
    assert (Hvf : ~ In v (s_found s)) by (apply (i_queue _ _ _ _ I); cbn; tauto).
    assert (Hvq : ~ In v qt) by (pose proof (i_queue_nodup _ _ _ _ I) as Hn; inversion Hn; assumption).
    assert (Hvs : ~ In v (s_sccq s)).
    { intros Hin. destruct (i_sccq _ _ _ _ I v Hin) as [_ [Hq _]]. apply Hq. cbn. tauto. }
    assert (Hk_ne : forall k, In k (s_sccq s) -> k <> v) by (intros k Hk ->; contradiction).
    assert (Hq_ne : forall q, In q qt -> q <> v) by (intros q Hq ->; contradiction).
    assert (Hbelow : forall q pq, In q qt -> lookup teqb q (s_pre s) = Some pq -> pq < pv).
    { intros q pq Hq Hpq. apply (x_qsorted0 [] v qt eq_refl q pv pq Hq Hpv Hpq). }
    assert (Hsnum : forall k, In k (s_sccq s) -> exists pk, lookup teqb k (s_pre s) = Some pk).
    { intros k Hk. destruct (i_sccq _ _ _ _ I k Hk) as [_ [_ [pk [Hk1 _]]]]. exists pk. exact Hk1. }
    assert (Hsnf : forall k, In k (s_sccq s) -> ~ In k (s_found s)).
    { intros k Hk. apply (i_sccq _ _ _ _ I k Hk). }
    (* the popped segment *)
    destruct (popq_spec teqb teqb_spec ord _ _ _ _ _ _ Hpop) as [popped [Hsplit [Hscc _]]].
    destruct (popq_segment _ _ _ _ _ _ Hpop) as [popped2 [Hsplit2 [Hseg Hstop]]].
    assert (popped2 = popped).
    { rewrite Hsplit in Hsplit2. apply app_inv_tail in Hsplit2. symmetry. exact Hsplit2. }
    subst popped2. clear Hsplit2.
    assert (F1a : forall k, In k popped -> exists pk, lookup teqb k (s_pre s) = Some pk /\ pv < pk).
    { intros k Hk. specialize (Hseg k Hk). rewrite Hpv in Hseg. apply opt_gt_true in Hseg. exact Hseg. }
    assert (F1b : forall k pk, In k q' -> lookup teqb k (s_pre s) = Some pk -> pk < pv).
    { intros k pk Hk Hpk.
      assert (Hks : In k (s_sccq s)) by (rewrite Hsplit; apply in_app_iff; tauto).
      assert (Hne : pk <> pv) by (intros ->; apply (Hk_ne k Hks); apply (x_inj0 k v pv Hpk Hpv)).
      destruct (Nat.lt_ge_cases pv pk) as [Hgt | Hle]; [exfalso | lia].
      destruct q' as [ | k0 t ]; [destruct Hk | ].
      specialize (Hstop k0 t eq_refl). rewrite Hpv in Hstop.
      assert (Hk0s : In k0 (s_sccq s)) by (rewrite Hsplit; apply in_app_iff; cbn; tauto).
      destruct (Hsnum k0 Hk0s) as [pk0 Hpk0]. rewrite Hpk0 in Hstop. cbn in Hstop. apply Nat.ltb_ge in Hstop.
      destruct Hk as [<- | Hk].
      - rewrite Hpk0 in Hpk. inversion Hpk; subst. lia.
      - apply in_split in Hk. destruct Hk as [t1 [t2 Ht]].
        assert (Hs' : s_sccq s = (popped ++ k0 :: t1) ++ k :: t2).
        { rewrite Hsplit, Ht, <- app_assoc. reflexivity. }
        pose proof (x_prefix0 v pv (popped ++ k0 :: t1) k t2 pk (or_introl eq_refl) Hpv Hs' Hpk Hgt k0 pk0) as Hc.
        assert (pv < pk0) by (apply Hc; [apply in_app_iff; cbn; tauto | exact Hpk0]). lia. }
    assert (Fin : forall k pk, In k (s_sccq s) -> lookup teqb k (s_pre s) = Some pk -> pv < pk -> In k popped).
    { intros k pk Hk Hpk Hgt. rewrite Hsplit in Hk. apply in_app_iff in Hk. destruct Hk as [Hk | Hk]; [exact Hk | ].
      specialize (F1b k pk Hk Hpk). lia. }
    assert (Hpop_s : forall k, In k popped -> In k (s_sccq s)) by (intros k Hk; rewrite Hsplit; apply in_app_iff; tauto).
    assert (Hq'_s : forall k, In k q' -> In k (s_sccq s)) by (intros k Hk; rewrite Hsplit; apply in_app_iff; tauto).
    (* members of the emitted set have preorder >= pv *)
    assert (Fscc : forall x px, In x scc -> lookup teqb x (s_pre s) = Some px -> pv <= px).
    { intros x px Hx Hpx. apply Hscc in Hx. destruct Hx as [[<- | []] | Hx].
      - rewrite Hpv in Hpx. inversion Hpx. lia.
      - destruct (F1a x Hx) as [pk [Hk1 Hk2]]. rewrite Hk1 in Hpx. inversion Hpx; subst. lia. }
    (* where an unassigned numbered node of preorder > pv can be *)
    assert (Fwhere : forall b pb, lookup teqb b (s_pre s) = Some pb -> ~ In b (s_found s) -> pv <= pb -> In b scc).
    { intros b pb Hpb Hnf Hge. apply Hscc.
      destruct (i_numbered _ _ _ _ I b (ex_intro _ pb Hpb)) as [H | [H | [H | H]]].
      - contradiction.
      - destruct (Nat.eq_dec pb pv) as [-> | Hne].
        + left. left. apply (x_inj0 v b pv Hpv Hpb).
        + right. apply (Fin b pb H Hpb). lia.
      - left. left. exact H.
      - specialize (Hbelow b pb H Hpb). lia. }
    (* key lemma: waiting nodes above v have low-link >= pv *)
    assert (KL : forall n k pk lk, pk < n -> In k (s_sccq s) -> lookup teqb k (s_pre s) = Some pk -> pv < pk ->
                 lookup teqb k (s_low s) = Some lk -> pv <= lk).
    { induction n as [ | n IHn ]; intros k pk lk Hn Hk Hpk Hgt Hlk; [lia | ].
      destruct (x_parent0 k pk Hk Hpk) as [p [pp [HUp [Epk [Hpp [Hlt [H5 H6]]]]]]].
      assert (Hge : pv <= pp) by (apply (H5 v pv (or_introl eq_refl) Hpv Hgt)).
      destruct (Nat.eq_dec pp pv) as [-> | Hne].
      - assert (p = v) by (apply (x_inj0 p v pv Hpp Hpv)). subst p.
        destruct (Hbound k pk Epk (Hsnf k Hk) Hpk) as [_ Hb]. destruct (Hb Hgt (Hk_ne k Hk)) as [lw' [Hlw' Hle]].
        rewrite Hlk in Hlw'. inversion Hlw'; subst. exact Hle.
      - assert (Hps : In p (s_sccq s)).
        { destruct HUp as [Hp | [<- | Hp]]; [exact Hp | rewrite Hpv in Hpp; inversion Hpp; lia | ].
          specialize (Hbelow p pp Hp Hpp). lia. }
        destruct (x_low_hi0 p Hps) as [lp [pp' [Hlp [Hpp' _]]]].
        assert (pv <= lp) by (apply (IHn p pp lp); [lia | exact Hps | exact Hpp | lia | exact Hlp]).
        specialize (H6 Hps lp lk Hlp Hlk). lia. }
    assert (KL' : forall k pk lk, In k (s_sccq s) -> lookup teqb k (s_pre s) = Some pk -> pv < pk ->
                  lookup teqb k (s_low s) = Some lk -> pv <= lk).
    { intros k pk lk. apply (KL (S pk)). lia. }
    (* successors of members stay inside found + scc *)
    assert (F3 : forall a b, In a scc -> E a b -> In b (s_found s) \/ In b scc).
    { intros a b Ha Eab. destruct (mem_name teqb b (s_found s)) eqn:Hbf; [left; apply mIn; exact Hbf | right].
      apply mNot in Hbf. apply Hscc in Ha. destruct Ha as [[<- | []] | Ha].
      - destruct (Hnum b Eab) as [pb Hpb]. apply (Fwhere b pb Hpb Hbf).
        destruct (Hbound b pb Eab Hbf Hpb) as [Hb1 _]. destruct (Nat.le_gt_cases pb pv); [apply Hb1; assumption | lia].
      - pose proof (Hpop_s a Ha) as Has. destruct (F1a a Ha) as [pa [Hpa Hgt]].
        destruct (x_low_hi0 a Has) as [la [pa' [Hla [Hpa' Hlt]]]].
        pose proof (KL' a pa la Has Hpa Hgt Hla) as Hla_ge.
        destruct (x_succ0 a b Has Eab) as [[pb Hpb] Hb]. apply (Fwhere b pb Hpb Hbf).
        destruct (Hb Hbf pa pb la Hpa Hpb Hla) as [Hb1 Hb2].
        destruct (Nat.lt_trichotomy pb pa) as [Hc | [Hc | Hc]]; [specialize (Hb1 Hc); lia | lia | lia]. }
    (* soundness: every member is mutually reachable with v *)
    assert (Fto : forall n k pk, pk < n -> In k (s_sccq s) -> lookup teqb k (s_pre s) = Some pk -> pv < pk -> R v k).
    { induction n as [ | n IHn ]; intros k pk Hn Hk Hpk Hgt; [lia | ].
      destruct (x_parent0 k pk Hk Hpk) as [p [pp [HUp [Epk [Hpp [Hlt [H5 _]]]]]]].
      assert (Hge : pv <= pp) by (apply (H5 v pv (or_introl eq_refl) Hpv Hgt)).
      destruct (Nat.eq_dec pp pv) as [-> | Hne].
      - assert (p = v) by (apply (x_inj0 p v pv Hpp Hpv)). subst p. apply R_one. exact Epk.
      - assert (Hps : In p (s_sccq s)).
        { destruct HUp as [Hp | [<- | Hp]]; [exact Hp | rewrite Hpv in Hpp; inversion Hpp; lia | ].
          specialize (Hbelow p pp Hp Hpp). lia. }
        eapply R_trans; [apply (IHn p pp); [lia | exact Hps | exact Hpp | lia] | apply R_one; exact Epk]. }
    assert (Ffrom : forall n k pk, pk < n -> In k (s_sccq s) -> lookup teqb k (s_pre s) = Some pk -> pv < pk -> R k v).
    { induction n as [ | n IHn ]; intros k pk Hn Hk Hpk Hgt; [lia | ].
      destruct (x_low_hi0 k Hk) as [lk [pk' [Hlk [Hpk' Hlt]]]]. rewrite Hpk in Hpk'. inversion Hpk'; subst pk'.
      pose proof (KL' k pk lk Hk Hpk Hgt Hlk) as Hge.
      destruct (x_low_wit0 k lk Hk Hlk) as [y [HUy [Hpy Hry]]].
      destruct (Nat.eq_dec lk pv) as [-> | Hne].
      - assert (y = v) by (apply (x_inj0 y v pv Hpy Hpv)). subst y. exact Hry.
      - assert (Hys : In y (s_sccq s)).
        { destruct HUy as [Hy | [<- | Hy]]; [exact Hy | rewrite Hpv in Hpy; inversion Hpy; lia | ].
          specialize (Hbelow y lk Hy Hpy). lia. }
        eapply R_trans; [exact Hry | apply (IHn y lk); [lia | exact Hys | exact Hpy | lia] ]. }
    assert (F4 : forall y, In y scc -> mutual v y).
    { intros y Hy. apply Hscc in Hy. destruct Hy as [[<- | []] | Hy]; [split; apply R_refl | ].
      destruct (F1a y Hy) as [py [Hpy Hgt]]. split.
      - apply (Fto (S py) y py); [lia | apply Hpop_s; exact Hy | exact Hpy | exact Hgt].
      - apply (Ffrom (S py) y py); [lia | apply Hpop_s; exact Hy | exact Hpy | exact Hgt]. }
    (* maximality *)
    assert (F5 : forall x, R v x -> R x v -> In x scc).
    { intros x Hvx. apply (reach_ind_from (fun x => R x v -> In x scc) v); [ | | exact Hvx].
      - intros _. apply Hscc. cbn. tauto.
      - intros y z _ IH Hyz Hback.
        assert (Hyb : R y v) by (eapply R_trans; [apply R_one; exact Hyz | exact Hback]).
        destruct (F3 y z (IH Hyb) Hyz) as [Hzf | Hzs]; [ | exact Hzs].
        exfalso. apply Hvf. apply (R_closed_found (s_found s) x_closed0 z v Hback Hzf). }
    (* the fields *)
    assert (HU : forall y py, U (v :: qt) s y -> lookup teqb y (s_pre s) = Some py -> py < pv ->
                 U qt (mks (s_pre s) lw (union_names teqb (s_found s) scc) q' (s_ctr s) (s_comps s ++ [scc])) y).
    { intros y py [Hy | [<- | Hy]] Hpy Hlt.
      - left. cbn [s_sccq]. rewrite Hsplit in Hy. apply in_app_iff in Hy. destruct Hy as [Hy | Hy]; [ | exact Hy].
        destruct (F1a y Hy) as [pk [Hk1 Hk2]]. rewrite Hk1 in Hpy. inversion Hpy; subst. lia.
      - rewrite Hpv in Hpy. inversion Hpy; subst. lia.
      - right. exact Hy. }
    constructor; cbn [s_pre s_low s_found s_sccq s_ctr s_comps]; try assumption.
    - intros front a back Hq. apply (x_qsorted0 (v :: front) a back). rewrite Hq. reflexivity.
    - intros front a b back Hq. apply (x_qparent0 (v :: front) a b back). rewrite Hq. reflexivity.
    - intros q Hq. rewrite (Hother q (Hq_ne q Hq)). apply x_qnolow0. cbn. tauto.
    - intros a pa top k bottom pk Ha Hpa Hs Hpk Hlt k' pk' Hk' Hpk'.
      assert (Hs' : s_sccq s = (popped ++ top) ++ k :: bottom).
      { rewrite Hsplit, Hs, <- app_assoc. reflexivity. }
      apply (x_prefix0 a pa (popped ++ top) k bottom pk (or_intror Ha) Hpa Hs' Hpk Hlt k' pk');
        [apply in_app_iff; right; exact Hk' | exact Hpk'].
    - intros k Hk. destruct (x_low_hi0 k (Hq'_s k Hk)) as [lk [pk [H1 [H2 H3]]]]. exists lk, pk.
      rewrite (Hother k (Hk_ne k (Hq'_s k Hk))). auto.
    - intros k lk Hk Hlk. pose proof (Hq'_s k Hk) as Hks. rewrite (Hother k (Hk_ne k Hks)) in Hlk.
      destruct (x_low_wit0 k lk Hks Hlk) as [y [HUy [Hpy Hry]]]. exists y.
      split; [ | split; [exact Hpy | exact Hry] ].
      destruct (x_low_hi0 k Hks) as [lk' [pk [H1 [H2 H3]]]]. rewrite Hlk in H1. inversion H1; subst lk'.
      apply (HU y lk HUy Hpy). specialize (F1b k pk Hk H2). lia.
    - intros k pk Hk Hpk. pose proof (Hq'_s k Hk) as Hks.
      destruct (x_parent0 k pk Hks Hpk) as [p [pp [H1 [H2 [H3 [H4 [H5 H6]]]]]]].
      exists p, pp. split; [apply (HU p pp H1 H3); specialize (F1b k pk Hk Hpk); lia | ].
      split; [exact H2 | split; [exact H3 | split; [exact H4 | split ] ] ].
      + intros q pq Hq. apply H5. cbn. tauto.
      + intros Hp lp lk Hlp Hlk. pose proof (Hq'_s p Hp) as Hps.
        rewrite (Hother p (Hk_ne p Hps)) in Hlp. rewrite (Hother k (Hk_ne k Hks)) in Hlk.
        apply (H6 Hps lp lk Hlp Hlk).
    - intros u w Hu He. pose proof (Hq'_s u Hu) as Hus. destruct (x_succ0 u w Hus He) as [Hn Hb]. split; [exact Hn | ].
      intros Hnf pu pw lu Hpu Hpw Hlu. rewrite (Hother u (Hk_ne u Hus)) in Hlu.
      assert (Hnf' : ~ In w (s_found s)).
      { intros Hin. apply Hnf. apply (union_names_In teqb teqb_spec). tauto. }
      destruct (Hb Hnf' pu pw lu Hpu Hpw Hlu) as [Ha Hc]. split; [exact Ha | ].
      intros Hlt'. destruct (Hc Hlt') as [lw' [Hlw' Hle]]. exists lw'. split; [ | exact Hle].
      assert (Hwv : w <> v).
      { intros ->. rewrite (x_qnolow0 v (or_introl eq_refl)) in Hlw'. discriminate. }
      rewrite (Hother w Hwv). exact Hlw'.
    - intros u w Hu He. apply (union_names_In teqb teqb_spec). apply (union_names_In teqb teqb_spec) in Hu.
      destruct Hu as [Hu | Hu].
      + left. apply (x_closed0 u w Hu He).
      + apply (F3 u w Hu He).
    - intros c Hc. apply in_app_iff in Hc. destruct Hc as [Hc | [<- | []]]; [apply x_classes0; exact Hc | ].
      exists v. intros y. split; [apply F4 | intros [H1 H2]; apply (F5 y H1 H2)].
  Qed.

  (* ---------------- one run of the inner loop, both invariants ---------------- *)
  Lemma scc_inner_full : forall base fuel queue s s',
    scc_inner teqb ord fuel g queue s = Ok s' ->
    sinv teqb base queue s -> xinv queue s ->
    sinv teqb base [] s' /\ xinv [] s'.
  Proof.
    intros base. induction fuel as [ | f IH ]; intros queue s s' H I X; cbn [scc_inner] in H; [discriminate | ].
    destruct queue as [ | v qt ]; [inversion H; subst; split; assumption | ].
    set (s1 := if contains_key teqb v (s_pre s) then s
               else mks (insert teqb v (S (s_ctr s)) (s_pre s)) (s_low s) (s_found s) (s_sccq s)
                        (S (s_ctr s)) (s_comps s)) in *.
    assert (I1 : sinv teqb base (v :: qt) s1 /\ xinv (v :: qt) s1 /\ numbered teqb (s_pre s1) v).
    { unfold s1. destruct (contains_key teqb v (s_pre s)) eqn:E0.
      - split; [exact I | split; [exact X | apply (contains_numbered teqb); exact E0] ].
      - apply (not_contains teqb) in E0. split; [apply step_number; assumption | split ].
        + eapply xstep_number; eassumption.
        + cbn [s_pre]. exists (S (s_ctr s)). rewrite (lk_ins nat), t_refl. reflexivity. }
    destruct I1 as [I1 [X1 Hv1]]. clearbody s1.
    destruct (find _ (scc_nbrs teqb ord g v)) as [w | ] eqn:Ef.
    - apply find_some in Ef. destruct Ef as [Hin Hw]. apply negb_true_iff in Hw. apply (not_contains teqb) in Hw.
      apply (IH _ _ _ H).
      + apply step_push; assumption.
      + eapply xstep_push; eassumption.
    - assert (Hnum : forall w, E v w -> numbered teqb (s_pre s1) w).
      { intros w Hw. pose proof (find_none _ _ Ef w Hw) as Hc. apply negb_false_iff in Hc.
        apply (contains_numbered teqb). exact Hc. }
      destruct (lookup teqb v (s_pre s1)) as [pv | ] eqn:Hpv; [ | discriminate].
      destruct (lowlink_pass teqb (s_pre s1) (insert teqb v pv (s_low s1)) (s_found s1) v pv (scc_nbrs teqb ord g v))
        as [lw | | | ] eqn:Hlw; cbn [bind] in H; try discriminate.
      destruct (finish_low teqb teqb_spec ord base v qt s1 pv _ lw I1 Hpv Hlw) as [Hother [l [Hl [Hlo Hhi]]]].
      destruct (lowlink_pass_full _ _ _ _ _ _ _ pv Hlw) as [l' [Hl' [_ [Hbound Hwit]]]].
      { rewrite (lk_ins nat), t_refl. reflexivity. }
      rewrite Hl in Hl'. inversion Hl'; subst l'. clear Hl'.
      (* restate bounds / witness over the old low-link map *)
      assert (Hbound' : forall w pw, E v w -> ~ In w (s_found s1) -> lookup teqb w (s_pre s1) = Some pw ->
                 (pw <= pv -> l <= pw) /\
                 (pv < pw -> w <> v -> exists lw', lookup teqb w (s_low s1) = Some lw' /\ l <= lw')).
      { intros w pw Hw Hnf Hpw. destruct (Hbound w pw Hw Hnf Hpw) as [Ha Hb]. split; [exact Ha | ].
        intros Hlt Hne. destruct (Hb Hlt Hne) as [lw' [Hlw' Hle]].
        rewrite (lk_ins nat), (t_neq w v Hne) in Hlw'. exists lw'. auto. }
      rewrite Hl in H. destruct (Nat.eqb l pv) eqn:El.
      + apply Nat.eqb_eq in El. subst l.
        destruct (popq teqb (s_pre s1) v (s_sccq s1) [v]) as [scc q'] eqn:Hpop.
        apply (IH _ _ _ H).
        * eapply step_emit; eassumption.
        * eapply xstep_emit; try eassumption.
      + apply Nat.eqb_neq in El. apply (IH _ _ _ H).
        * eapply step_defer; eassumption.
        * eapply xstep_defer; try eassumption.
          -- (* v is not the root *)
             intros Hqt. subst qt. destruct (i_root _ _ _ _ I1 [] v eq_refl) as [[Hn _] | Hr]; [congruence | ].
             rewrite Hpv in Hr. inversion Hr. lia.
          -- lia.
          -- destruct Hwit as [Hw | [w [pw [Hw [Hnf [Hpw Hc]]]]]]; [lia | ].
             exists w, pw. split; [exact Hw | split; [exact Hnf | split; [exact Hpw | ] ] ].
             destruct Hc as [Hc | [Hlt [Hne Hlw']]]; [left; exact Hc | right].
             split; [exact Hlt | split; [exact Hne | ] ].
             rewrite (lk_ins nat), (t_neq w v Hne) in Hlw'. exact Hlw'.
  Qed.

  (* ---------------- the outer loop ---------------- *)
  Record rxinv (s : sst) : Prop := {
    rx_inj : forall x y p, lookup teqb x (s_pre s) = Some p -> lookup teqb y (s_pre s) = Some p -> x = y;
    rx_closed : forall u w, In u (s_found s) -> E u w -> In w (s_found s);
    rx_classes : forall c, In c (s_comps s) -> exists v, forall y, In y c <-> mutual v y
  }.

  Lemma rx_start : forall s src, rinv teqb s -> rxinv s -> ~ In src (s_found s) -> xinv [src] s.
  Proof.
    intros s src Rv [X1 X2 X3] Hsrc. pose proof (r_sccq _ _ Rv) as Hq.
    assert (Hun : lookup teqb src (s_pre s) = None).
    { destruct (lookup teqb src (s_pre s)) as [p | ] eqn:E0; [ | reflexivity].
      exfalso. apply Hsrc. apply (r_numbered _ _ Rv). exists p. exact E0. }
    constructor; try assumption.
    - intros front a back Hqq b pa pb Hb. destruct front as [ | f0 front ]; cbn in Hqq.
      + inversion Hqq; subst. destruct Hb.
      + inversion Hqq. destruct front; discriminate.
    - intros front a b back Hqq. destruct front as [ | f0 front ]; cbn in Hqq; inversion Hqq.
      destruct front; discriminate.
    - intros q [<- | []]. destruct (lookup teqb src (s_low s)) as [l | ] eqn:El; [ | reflexivity].
      destruct (r_low_num _ _ Rv src l El) as [p Hp]. congruence.
    - intros a pa top k bottom pk _ _ Hs. rewrite Hq in Hs. destruct top; discriminate.
    - intros k Hk. rewrite Hq in Hk. destruct Hk.
    - intros k lk Hk. rewrite Hq in Hk. destruct Hk.
    - intros k pk Hk. rewrite Hq in Hk. destruct Hk.
    - intros u w Hu. rewrite Hq in Hu. destruct Hu.
  Qed.

  Lemma rx_end : forall s, xinv [] s -> rxinv s.
  Proof. intros s X. destruct X. constructor; assumption. Qed.

  Lemma outer_full : forall fuel names s s',
    ofold (fun s src => if mem_name teqb src (s_found s) then Ok s
                        else scc_inner teqb ord fuel g [src] s) names s = Ok s' ->
    rinv teqb s -> rxinv s -> rinv teqb s' /\ rxinv s'.
  Proof.
    intros fuel. induction names as [ | src t IH ]; intros s s' H Rv Rx; cbn [ofold] in H.
    - inversion H; subst. split; assumption.
    - destruct (mem_name teqb src (s_found s)) eqn:Em; cbn [bind] in H.
      + apply (IH _ _ H Rv Rx).
      + apply mNot in Em.
        destruct (scc_inner teqb ord fuel g [src] s) as [s1 | | | ] eqn:Ei; cbn [bind] in H; try discriminate.
        destruct (scc_inner_full (s_ctr s) _ _ _ _ Ei (rinv_start teqb s src Rv Em) (rx_start s src Rv Rx Em))
          as [I1 X1].
        apply (IH _ _ H); [apply (rinv_end teqb _ _ I1) | apply rx_end; exact X1].
  Qed.

  (* every emitted set is exactly one class of mutual reachability *)
  Theorem scc_classes : forall cs,
    strongly_connected_components teqb ord g = Ok cs ->
    forall c, In c cs -> exists v, forall y, In y c <-> mutual v y.
  Proof.
    intros cs H. unfold strongly_connected_components in H.
    destruct (ensure_directed g); cbn [bind] in H; try discriminate.
    destruct (ofold _ (get_all_node_names g) (mks [] [] [] [] 0 [])) as [s | | | ] eqn:Eo; cbn [bind] in H;
      try discriminate.
    inversion H; subst cs.
    destruct (outer_full _ _ _ _ Eo) as [_ [_ _ X3]].
    - constructor; cbn [s_pre s_low s_found s_sccq s_ctr s_comps].
      + intros x. cbn. tauto.
      + constructor.
      + intros c [].
      + intros x [].
      + reflexivity.
      + intros x [p Hp]. discriminate.
      + intros x px Hp. discriminate.
      + intros w l Hl. discriminate.
    - constructor; cbn [s_pre s_found s_comps].
      + intros x y p Hx. discriminate.
      + intros u w [].
      + intros c [].
    - exact X3.
  Qed.

  (* ---------------- only nodes of the graph are ever numbered ---------------- *)
  Definition succ_rel (u w : T) : Prop := In w (name_row teqb (successors g) u).
  Definition smutual (x y : T) : Prop := reach succ_rel x y /\ reach succ_rel y x.

  Hypothesis ord_perm : forall l x, In x (ord l) <-> In x l.
  Hypothesis succ_closed : forall u w, succ_rel u w -> In w (get_all_node_names g).

  Lemma E_succ : forall u w, E u w <-> succ_rel u w.
  Proof. intros u w. unfold E, succ_rel, scc_nbrs. apply ord_perm. Qed.

  Lemma mutual_smutual : forall x y, mutual x y <-> smutual x y.
  Proof.
    intros x y. unfold mutual, smutual, R.
    split; intros [H1 H2]; split; (eapply reach_ext; [ | eassumption ]; intros a b; apply E_succ).
  Qed.

  Lemma scc_inner_names : forall fuel queue s s',
    scc_inner teqb ord fuel g queue s = Ok s' ->
    (forall q, In q queue -> In q (get_all_node_names g)) ->
    (forall x, numbered teqb (s_pre s) x -> In x (get_all_node_names g)) ->
    (forall x, numbered teqb (s_pre s') x -> In x (get_all_node_names g)).
  Proof.
    induction fuel as [ | f IH ]; intros queue s s' H Hq Hp; cbn [scc_inner] in H; [discriminate | ].
    destruct queue as [ | v qt ]; [inversion H; subst; exact Hp | ].
    set (s1 := if contains_key teqb v (s_pre s) then s
               else mks (insert teqb v (S (s_ctr s)) (s_pre s)) (s_low s) (s_found s) (s_sccq s)
                        (S (s_ctr s)) (s_comps s)) in *.
    assert (Hp1 : forall x, numbered teqb (s_pre s1) x -> In x (get_all_node_names g)).
    { unfold s1. destruct (contains_key teqb v (s_pre s)); [exact Hp | ]. cbn [s_pre].
      intros x Hx. apply (numbered_insert_inv teqb teqb_spec) in Hx. destruct Hx as [-> | Hx]; [apply Hq; cbn; tauto | apply Hp; exact Hx]. }
    clearbody s1.
    destruct (find _ (scc_nbrs teqb ord g v)) as [w | ] eqn:Ef.
    - apply find_some in Ef. destruct Ef as [Hin _]. apply (IH _ _ _ H); [ | exact Hp1].
      intros q [<- | Hq']; [ | apply Hq; exact Hq']. apply (succ_closed v w). apply E_succ. exact Hin.
    - destruct (lookup teqb v (s_pre s1)) as [pv | ]; [ | discriminate].
      destruct (lowlink_pass _ _ _ _ _ _ _) as [lw | | | ]; cbn [bind] in H; try discriminate.
      destruct (lookup teqb v lw) as [l | ]; [ | discriminate].
      destruct (Nat.eqb l pv).
      + destruct (popq teqb (s_pre s1) v (s_sccq s1) [v]) as [scc q'].
        apply (IH _ _ _ H); [intros q Hq'; apply Hq; cbn; tauto | exact Hp1].
      + apply (IH _ _ _ H); [intros q Hq'; apply Hq; cbn; tauto | exact Hp1].
  Qed.

  Lemma outer_names : forall fuel names s s',
    ofold (fun s src => if mem_name teqb src (s_found s) then Ok s
                        else scc_inner teqb ord fuel g [src] s) names s = Ok s' ->
    incl names (get_all_node_names g) ->
    (forall x, numbered teqb (s_pre s) x -> In x (get_all_node_names g)) ->
    (forall x, numbered teqb (s_pre s') x -> In x (get_all_node_names g)).
  Proof.
    intros fuel. induction names as [ | src t IH ]; intros s s' H Hin Hp; cbn [ofold] in H.
    - inversion H; subst. exact Hp.
    - assert (Ht : incl t (get_all_node_names g)) by (intros z Hz; apply Hin; cbn; tauto).
      destruct (mem_name teqb src (s_found s)); cbn [bind] in H.
      + apply (IH _ _ H Ht Hp).
      + destruct (scc_inner teqb ord fuel g [src] s) as [s1 | | | ] eqn:Ei; cbn [bind] in H; try discriminate.
        apply (IH _ _ H Ht). apply (scc_inner_names _ _ _ _ Ei); [ | exact Hp].
        intros q [<- | []]. apply Hin. cbn. tauto.
  Qed.

  (* strongly_connected_components IS the partition of the node list into the classes of
     mutual reachability along the successor relation, for every neighbour order that is a
     permutation of each successor set, whenever successors are nodes of the graph *)
  Theorem scc_correct : forall cs,
    strongly_connected_components teqb ord g = Ok cs ->
    is_component_partition (get_all_node_names g) smutual cs.
  Proof.
    intros cs H. destruct (scc_partition teqb teqb_spec ord g cs H) as [Hne [Hnd Hcov]].
    pose proof (scc_classes cs H) as Hcl.
    split; [exact Hne | split; [exact Hnd | split ] ].
    - intros x. split; [apply Hcov | ]. intros Hx.
      (* members are numbered nodes, numbered nodes are nodes of the graph *)
      unfold strongly_connected_components in H.
      destruct (ensure_directed g); cbn [bind] in H; try discriminate.
      destruct (ofold _ (get_all_node_names g) (mks [] [] [] [] 0 [])) as [s | | | ] eqn:Eo; cbn [bind] in H;
        try discriminate.
      inversion H; subst cs.
      destruct (outer_inv teqb teqb_spec ord g _ _ _ _ Eo) as [Rv _].
      { constructor; cbn [s_pre s_low s_found s_sccq s_ctr s_comps].
        - intros z. cbn. tauto.
        - constructor.
        - intros c [].
        - intros z [].
        - reflexivity.
        - intros z [p Hp]. discriminate.
        - intros z pz Hp. discriminate.
        - intros w l Hl. discriminate. }
      apply (outer_names _ _ _ _ Eo (incl_refl _)).
      + intros z [p Hp]. discriminate.
      + apply (r_found_num _ _ Rv). apply (r_comps _ _ Rv). exact Hx.
    - intros c x y Hc Hx _. destruct (Hcl c Hc) as [v Hv]. rewrite Hv, <- mutual_smutual.
      apply Hv in Hx. destruct Hx as [Hvx Hxv]. split; intros [H1 H2]; split.
      + eapply R_trans; eassumption.
      + eapply R_trans; eassumption.
      + eapply R_trans; eassumption.
      + eapply R_trans; eassumption.
  Qed.

  (* ---------------- totality: no unwrap fails, the fuel is never exhausted ---------------- *)
  Lemma lowlink_pass_total : forall pre found v pv nb acc0,
    lookup teqb v pre = Some pv ->
    (forall w, In w nb -> ~ In w found ->
       exists pw, lookup teqb w pre = Some pw /\ (pv < pw -> exists lw', lookup teqb w acc0 = Some lw')) ->
    forall acc, (exists l, lookup teqb v acc = Some l) ->
                (forall x, x <> v -> lookup teqb x acc = lookup teqb x acc0) ->
    exists lw, lowlink_pass teqb pre acc found v pv nb = Ok lw.
  Proof.
    intros pre found v pv nb acc0 Hpv. unfold lowlink_pass.
    induction nb as [ | w t IH ]; intros Hnb acc [l Hl] Hsame; cbn [ofold]; [eexists; reflexivity | ].
    assert (Ht : forall w', In w' t -> ~ In w' found ->
                 exists pw, lookup teqb w' pre = Some pw /\ (pv < pw -> exists lw', lookup teqb w' acc0 = Some lw')).
    { intros w' Hw'. apply Hnb. cbn. tauto. }
    destruct (mem_name teqb w found) eqn:Hf; cbn [bind].
    - apply (IH Ht acc); [exists l; exact Hl | exact Hsame].
    - apply mNot in Hf. destruct (Hnb w (or_introl eq_refl) Hf) as [pw [Hpw Hlow]]. rewrite Hpw, Hl.
      destruct (Nat.ltb pv pw) eqn:Hc.
      + apply Nat.ltb_lt in Hc. destruct (Hlow Hc) as [lw' Hlw'].
        assert (Hwv : w <> v) by (intros ->; rewrite Hpv in Hpw; inversion Hpw; lia).
        rewrite (Hsame w Hwv), Hlw'. cbn [bind]. apply (IH Ht).
        * exists (Nat.min l lw'). rewrite (lk_ins nat), t_refl. reflexivity.
        * intros x Hx. rewrite (lk_ins nat), (t_neq x v Hx). apply Hsame. exact Hx.
      + cbn [bind]. apply (IH Ht).
        * exists (Nat.min l pw). rewrite (lk_ins nat), t_refl. reflexivity.
        * intros x Hx. rewrite (lk_ins nat), (t_neq x v Hx). apply Hsame. exact Hx.
  Qed.

  (* nodes of the graph that are neither numbered nor on the stack *)
  Definition undisc (pre : list (T * nat)) (queue : list T) : nat :=
    length (filter (fun x => negb (contains_key teqb x pre) && negb (mem_name teqb x queue)) (get_all_node_names g)).

  Lemma filter_length_mono : forall (p q : T -> bool) l,
    (forall x, In x l -> q x = true -> p x = true) -> length (filter q l) <= length (filter p l).
  Proof.
    intros p q. induction l as [ | x t IH ]; intros H; [cbn; lia | ]. cbn [filter].
    assert (IH' : length (filter q t) <= length (filter p t)) by (apply IH; intros y Hy; apply H; cbn; tauto).
    destruct (q x) eqn:Eq.
    - rewrite (H x (or_introl eq_refl) Eq). cbn. lia.
    - destruct (p x); cbn; lia.
  Qed.

  Lemma filter_length_strict : forall (p q : T -> bool) l w,
    (forall x, In x l -> q x = true -> p x = true) -> In w l -> p w = true -> q w = false ->
    S (length (filter q l)) <= length (filter p l).
  Proof.
    intros p q. induction l as [ | x t IH ]; intros w H Hw Hp Hq; [destruct Hw | ]. cbn [filter].
    assert (Ht : forall y, In y t -> q y = true -> p y = true) by (intros y Hy; apply H; cbn; tauto).
    destruct Hw as [-> | Hw].
    - rewrite Hp, Hq. cbn. pose proof (filter_length_mono p q t Ht). lia.
    - specialize (IH w Ht Hw Hp Hq). destruct (q x) eqn:Eq.
      + rewrite (H x (or_introl eq_refl) Eq). cbn. lia.
      + destruct (p x); cbn; lia.
  Qed.

  Lemma scc_inner_total : forall base fuel queue s,
    sinv teqb base queue s -> xinv queue s ->
    (forall q, In q queue -> In q (get_all_node_names g)) ->
    2 * undisc (s_pre s) queue + length queue < fuel ->
    exists s', scc_inner teqb ord fuel g queue s = Ok s'.
  Proof.
    intros base. induction fuel as [ | f IH ]; intros queue s I X Hqn Hf; [lia | ].
    cbn [scc_inner]. destruct queue as [ | v qt ]; [eexists; reflexivity | ].
    set (s1 := if contains_key teqb v (s_pre s) then s
               else mks (insert teqb v (S (s_ctr s)) (s_pre s)) (s_low s) (s_found s) (s_sccq s)
                        (S (s_ctr s)) (s_comps s)) in *.
    assert (I1 : sinv teqb base (v :: qt) s1 /\ xinv (v :: qt) s1 /\ numbered teqb (s_pre s1) v /\
                 undisc (s_pre s1) (v :: qt) <= undisc (s_pre s) (v :: qt)).
    { unfold s1. destruct (contains_key teqb v (s_pre s)) eqn:E0.
      - split; [exact I | split; [exact X | split; [apply (contains_numbered teqb); exact E0 | lia] ] ].
      - pose proof E0 as E0'. apply (not_contains teqb) in E0'. split; [apply step_number; assumption | split ].
        + eapply xstep_number; eassumption.
        + cbn [s_pre]. split.
          * exists (S (s_ctr s)). rewrite (lk_ins nat), t_refl. reflexivity.
          * unfold undisc. apply filter_length_mono. intros x _ Hx.
            apply andb_true_iff in Hx. destruct Hx as [Hx1 Hx2]. apply andb_true_iff. split; [ | exact Hx2].
            apply negb_true_iff in Hx1. apply negb_true_iff.
            unfold contains_key in *. rewrite (lk_ins nat) in Hx1. destruct (teqb x v); [discriminate | exact Hx1]. }
    destruct I1 as [I1 [X1 [Hv1 Hu1]]]. clearbody s1.
    assert (Hcv : contains_key teqb v (s_pre s1) = true) by (apply (contains_numbered teqb); exact Hv1).
    destruct (find _ (scc_nbrs teqb ord g v)) as [w | ] eqn:Ef.
    - apply find_some in Ef. destruct Ef as [Hin Hw]. apply negb_true_iff in Hw.
      pose proof Hw as Hw'. apply (not_contains teqb) in Hw'.
      assert (Hwn : In w (get_all_node_names g)) by (apply (succ_closed v w); apply E_succ; exact Hin).
      assert (Hwq : mem_name teqb w (v :: qt) = false).
      { apply mNot. intros Hc. assert (Hnum : numbered teqb (s_pre s1) w).
        { destruct Hc as [<- | Hc]; [exact Hv1 | apply (i_queue_tail _ _ _ _ I1 v qt eq_refl w Hc)]. }
        destruct Hnum as [p Hp]. congruence. }
      apply IH.
      + apply step_push; assumption.
      + eapply xstep_push; eassumption.
      + intros q [<- | Hq]; [exact Hwn | apply Hqn; exact Hq].
      + assert (Hstrict : S (undisc (s_pre s1) (w :: v :: qt)) <= undisc (s_pre s1) (v :: qt)).
        { unfold undisc. apply (filter_length_strict _ _ _ w); [ | exact Hwn | | ].
          - intros x _ Hx. apply andb_true_iff in Hx. destruct Hx as [Hx1 Hx2]. apply andb_true_iff. split; [exact Hx1 | ].
            apply negb_true_iff in Hx2. apply negb_true_iff. cbn [mem_name existsb] in Hx2.
            apply orb_false_iff in Hx2. apply Hx2.
          - rewrite Hw, Hwq. reflexivity.
          - cbn [mem_name existsb]. rewrite t_refl. cbn. apply andb_false_r. }
        cbn [length] in *. lia.
    - assert (Hnum : forall w, E v w -> numbered teqb (s_pre s1) w).
      { intros w Hw. pose proof (find_none _ _ Ef w Hw) as Hc. apply negb_false_iff in Hc.
        apply (contains_numbered teqb). exact Hc. }
      destruct Hv1 as [pv Hpv]. rewrite Hpv.
      assert (Hvf : ~ In v (s_found s1)) by (apply (i_queue _ _ _ _ I1); cbn; tauto).
      destruct (lowlink_pass_total (s_pre s1) (s_found s1) v pv (scc_nbrs teqb ord g v) (s_low s1) Hpv) with
          (acc := insert teqb v pv (s_low s1)) as [lw Hlw].
      { intros w Hw Hnf. destruct (Hnum w Hw) as [pw Hpw]. exists pw. split; [exact Hpw | ].
        intros Hlt. destruct (i_numbered _ _ _ _ I1 w (ex_intro _ pw Hpw)) as [H | [H | [H | H]]].
        - contradiction.
        - destruct (x_low_hi _ _ X1 w H) as [lk [pk [H1 _]]]. exists lk. exact H1.
        - subst w. rewrite Hpv in Hpw. inversion Hpw. lia.
        - pose proof (x_qsorted _ _ X1 [] v qt eq_refl w pv pw H Hpv Hpw). lia. }
      { exists pv. rewrite (lk_ins nat), t_refl. reflexivity. }
      { intros x Hx. rewrite (lk_ins nat), (t_neq x v Hx). reflexivity. }
      rewrite Hlw. cbn [bind].
      destruct (finish_low teqb teqb_spec ord base v qt s1 pv _ lw I1 Hpv Hlw) as [Hother [l [Hl [Hlo Hhi]]]].
      destruct (lowlink_pass_full _ _ _ _ _ _ _ pv Hlw) as [l' [Hl' [_ [Hbound Hwit]]]].
      { rewrite (lk_ins nat), t_refl. reflexivity. }
      rewrite Hl in Hl'. inversion Hl'; subst l'. clear Hl'.
      assert (Hbound' : forall w pw, E v w -> ~ In w (s_found s1) -> lookup teqb w (s_pre s1) = Some pw ->
                 (pw <= pv -> l <= pw) /\
                 (pv < pw -> w <> v -> exists lw', lookup teqb w (s_low s1) = Some lw' /\ l <= lw')).
      { intros w pw Hw Hnf Hpw. destruct (Hbound w pw Hw Hnf Hpw) as [Ha Hb]. split; [exact Ha | ].
        intros Hlt Hne. destruct (Hb Hlt Hne) as [lw' [Hlw' Hle]].
        rewrite (lk_ins nat), (t_neq w v Hne) in Hlw'. exists lw'. auto. }
      rewrite Hl.
      (* popping v does not change the undiscovered count *)
      assert (Hpopm : undisc (s_pre s1) qt <= undisc (s_pre s1) (v :: qt)).
      { unfold undisc. apply filter_length_mono. intros x _ Hx.
        apply andb_true_iff in Hx. destruct Hx as [Hx1 Hx2]. apply andb_true_iff. split; [exact Hx1 | ].
        apply negb_true_iff in Hx2. apply negb_true_iff. cbn [mem_name existsb].
        destruct (teqb x v) eqn:Exv; [ | exact Hx2].
        apply teqb_spec in Exv. subst x. apply negb_true_iff in Hx1. congruence. }
      assert (Hqt : forall q, In q qt -> In q (get_all_node_names g)) by (intros q Hq; apply Hqn; cbn; tauto).
      destruct (Nat.eqb l pv) eqn:El.
      + apply Nat.eqb_eq in El. subst l.
        destruct (popq teqb (s_pre s1) v (s_sccq s1) [v]) as [scc q'] eqn:Hpop.
        apply IH.
        * eapply step_emit; eassumption.
        * eapply xstep_emit; try eassumption.
        * exact Hqt.
        * cbn [s_pre length] in *. lia.
      + apply Nat.eqb_neq in El. apply IH.
        * eapply step_defer; eassumption.
        * eapply xstep_defer; try eassumption.
          -- intros Hq0. subst qt. destruct (i_root _ _ _ _ I1 [] v eq_refl) as [[Hn _] | Hr]; [congruence | ].
             rewrite Hpv in Hr. inversion Hr. lia.
          -- lia.
          -- destruct Hwit as [Hw | [w [pw [Hw [Hnf [Hpw Hc]]]]]]; [lia | ].
             exists w, pw. split; [exact Hw | split; [exact Hnf | split; [exact Hpw | ] ] ].
             destruct Hc as [Hc | [Hlt [Hne Hlw']]]; [left; exact Hc | right].
             split; [exact Hlt | split; [exact Hne | ] ].
             rewrite (lk_ins nat), (t_neq w v Hne) in Hlw'. exact Hlw'.
        * exact Hqt.
        * cbn [s_pre length] in *. lia.
  Qed.

  Lemma undisc_start : forall pre src, In src (get_all_node_names g) ->
    S (undisc pre [src]) <= length (get_all_node_names g).
  Proof.
    intros pre src Hsrc. unfold undisc.
    assert (Hall0 : forall l : list T, length (filter (fun _ : T => true) l) = length l).
    { induction l as [ | x t IHt ]; cbn; [reflexivity | rewrite IHt; reflexivity]. }
    pose proof (Hall0 (get_all_node_names g)) as Hall.
    rewrite <- Hall.
    apply (filter_length_strict (fun _ : T => true)
             (fun x => negb (contains_key teqb x pre) && negb (mem_name teqb x [src])) (get_all_node_names g) src).
    - intros; reflexivity.
    - exact Hsrc.
    - reflexivity.
    -
    cbn [mem_name existsb]. rewrite t_refl. cbn. apply andb_false_r.
  Qed.

  Lemma outer_total : forall names s,
    incl names (get_all_node_names g) -> rinv teqb s -> rxinv s ->
    exists s', ofold (fun s src => if mem_name teqb src (s_found s) then Ok s
                                   else scc_inner teqb ord (2 * length (nodes_vec g) + nedges g + 2) g [src] s)
                     names s = Ok s'.
  Proof.
    induction names as [ | src t IH ]; intros s Hin Rv Rx; cbn [ofold]; [eexists; reflexivity | ].
    assert (Ht : incl t (get_all_node_names g)) by (intros z Hz; apply Hin; cbn; tauto).
    assert (Hsrc : In src (get_all_node_names g)) by (apply Hin; cbn; tauto).
    destruct (mem_name teqb src (s_found s)) eqn:Em; cbn [bind].
    - apply IH; assumption.
    - apply mNot in Em.
      pose proof (rinv_start teqb s src Rv Em) as I0. pose proof (rx_start s src Rv Rx Em) as X0.
      destruct (scc_inner_total (s_ctr s) (2 * length (nodes_vec g) + nedges g + 2) [src] s I0 X0) as [s1 Hs1].
      + intros q [<- | []]. exact Hsrc.
      + pose proof (undisc_start (s_pre s) src Hsrc) as Hu.
        unfold get_all_node_names in Hu. rewrite map_length in Hu. cbn [length]. lia.
      + rewrite Hs1. cbn [bind].
        destruct (scc_inner_full (s_ctr s) _ _ _ _ Hs1 I0 X0) as [I1 X1].
        apply IH; [exact Ht | apply (rinv_end teqb _ _ I1) | apply rx_end; exact X1].
  Qed.

  (* strongly_connected_components returns on every directed graph state whose successors
     are nodes of the graph: no unwrap fails and the fuel 2|V|+|E|+2 per source suffices *)
  Theorem scc_total :
    directed (sp g) = true -> exists cs, strongly_connected_components teqb ord g = Ok cs.
  Proof.
    intros Hd. unfold strongly_connected_components, ensure_directed. rewrite Hd. cbn [bind].
    destruct (outer_total (get_all_node_names g) (mks [] [] [] [] 0 []) (incl_refl _)) as [s Hs].
    - constructor; cbn [s_pre s_low s_found s_sccq s_ctr s_comps].
      + intros x. cbn. tauto.
      + constructor.
      + intros c [].
      + intros x [].
      + reflexivity.
      + intros x [p Hp]. discriminate.
      + intros x px Hp. discriminate.
      + intros w l Hl. discriminate.
    - constructor; cbn [s_pre s_found s_comps].
      + intros x y p Hx. discriminate.
      + intros u w [].
      + intros c [].
    - rewrite Hs. cbn [bind]. eexists. reflexivity.
  Qed.
End SccFull.
