(* C10, strongly_connected_components (Model/Scc.v): partition invariants of the
   iterative preorder / low-link loop, for EVERY neighbour order oracle [ord]:
   the emitted sets are non-empty, pairwise disjoint with no node twice, and cover the
   node list (every run that returns).  Which nodes share a set (maximality /
   soundness of the classes) is NOT proved here; it is established per generated case by
   the verified checker of Spec/ReachDef.v. *)
From Coq Require Import String List Bool Arith Lia.
From GV Require Import Base.Outcome Base.AMap Model.GState Model.Creation Model.Query
     Model.Components Model.Scc Spec.ReachDef Proofs.ReachOk Proofs.ComponentsOk Proofs.ClusterOk.
Import ListNotations.

Section SccOk.
  Context {T A : Type}.
  Variable teqb : T -> T -> bool.
  Hypothesis teqb_spec : forall x y, teqb x y = true <-> x = y.
  Variable ord : list T -> list T.
  Notation gstate := (gstate T A).

  Let mIn := mem_name_In teqb teqb_spec.
  Let mNot := mem_name_false teqb teqb_spec.
  Let lk_ins := fun V => @lookup_insert T teqb teqb_spec V.

  Definition numbered (pre : list (T * nat)) (x : T) : Prop := exists p, lookup teqb x pre = Some p.

  Lemma contains_numbered : forall (pre : list (T * nat)) x,
    contains_key teqb x pre = true <-> numbered pre x.
  Proof.
    intros pre x. unfold contains_key, numbered. destruct (lookup teqb x pre) as [p | ].
    - split; [intros _; exists p; reflexivity | reflexivity].
    - split; [discriminate | intros [p Hp]; discriminate].
  Qed.

  Lemma not_contains : forall (pre : list (T * nat)) x,
    contains_key teqb x pre = false <-> lookup teqb x pre = None.
  Proof.
    intros pre x. unfold contains_key. destruct (lookup teqb x pre); split; congruence.
  Qed.

  Lemma teqb_refl2 : forall x, teqb x x = true.
  Proof. intros x. apply teqb_spec. reflexivity. Qed.

  Lemma teqb_neq : forall x y, x <> y -> teqb x y = false.
  Proof. intros x y H. destruct (teqb x y) eqn:E; [apply teqb_spec in E; contradiction | reflexivity]. Qed.

  (* ---------------- popq ---------------- *)
  Lemma popq_spec : forall pre v q scc scc' q',
    popq teqb pre v q scc = (scc', q') ->
    exists popped, q = popped ++ q' /\
      (forall x, In x scc' <-> In x scc \/ In x popped) /\
      (NoDup scc -> NoDup popped -> (forall x, In x popped -> ~ In x scc) -> NoDup scc').
  Proof.
    intros pre v. induction q as [ | k t IH ]; intros scc scc' q' H; cbn [popq] in H.
    - inversion H; subst. exists []. split; [reflexivity | ]. split; [intros x; cbn; tauto | auto].
    - destruct (opt_gt (lookup teqb k pre) (lookup teqb v pre)) eqn:E.
      + destruct (IH _ _ _ H) as [popped [H1 [H2 H3]]]. exists (k :: popped). split; [cbn; congruence | ].
        split.
        * intros x. rewrite H2, (set_add_In teqb teqb_spec). cbn. intuition.
        * intros Hs Hp Hd. inversion Hp; subst. apply H3.
          -- apply (set_add_NoDup teqb teqb_spec). exact Hs.
          -- assumption.
          -- intros x Hx Hin. apply (set_add_In teqb teqb_spec) in Hin. destruct Hin as [Hin | Hin].
             ++ subst. contradiction.
             ++ apply (Hd x); [cbn; tauto | exact Hin].
      + inversion H; subst. exists []. split; [reflexivity | ]. split; [intros x; cbn; tauto | auto].
  Qed.

  Lemma popq_all : forall pre v pv q scc,
    lookup teqb v pre = Some pv ->
    (forall k, In k q -> exists pk, lookup teqb k pre = Some pk /\ pv < pk) ->
    snd (popq teqb pre v q scc) = [].
  Proof.
    intros pre v pv. induction q as [ | k t IH ]; intros scc Hv Hq; cbn [popq]; [reflexivity | ].
    destruct (Hq k) as [pk [Hk Hlt]]; [cbn; tauto | ]. rewrite Hk, Hv. cbn [opt_gt].
    apply Nat.ltb_lt in Hlt. rewrite Hlt. apply IH; [exact Hv | ]. intros k' Hk'. apply Hq. cbn. tauto.
  Qed.

  (* ---------------- lowlink_pass ---------------- *)
  Lemma lowlink_pass_spec : forall pre found v pv nb low lw,
    lowlink_pass teqb pre low found v pv nb = Ok lw ->
    (forall x, x <> v -> lookup teqb x lw = lookup teqb x low) /\
    (forall lo l0, lookup teqb v low = Some l0 -> lo <= l0 ->
       (forall w pw, In w nb -> ~ In w found -> lookup teqb w pre = Some pw -> lo <= pw) ->
       (forall w l, In w nb -> ~ In w found -> w <> v -> lookup teqb w low = Some l -> lo <= l) ->
       exists l, lookup teqb v lw = Some l /\ lo <= l /\ l <= l0).
  Proof.
    intros pre found v pv. unfold lowlink_pass.
    induction nb as [ | w t IH ]; intros low lw H; cbn [ofold] in H.
    - inversion H; subst. split; [reflexivity | ]. intros lo l0 Hl Hle _ _. exists l0. auto.
    - destruct (mem_name teqb w found) eqn:Hf; cbn [bind] in H.
      + apply mIn in Hf. destruct (IH _ _ H) as [H1 H2]. split; [exact H1 | ].
        intros lo l0 Hl Hle Hp Hlw. apply (H2 lo l0 Hl Hle).
        * intros w' pw Hw'. apply Hp. cbn. tauto.
        * intros w' l Hw'. apply Hlw. cbn. tauto.
      + apply mNot in Hf.
        destruct (lookup teqb w pre) as [pw | ] eqn:Hpw; [ | discriminate].
        destruct (lookup teqb v low) as [lv | ] eqn:Hlv; [ | discriminate].
        destruct (Nat.ltb pv pw) eqn:Hcmp.
        * destruct (lookup teqb w low) as [lww | ] eqn:Hlww; [ | discriminate]. cbn [bind] in H.
          destruct (IH _ _ H) as [H1 H2]. split.
          -- intros x Hx. rewrite (H1 x Hx), (lk_ins nat), (teqb_neq x v Hx). reflexivity.
          -- intros lo l0 Hl Hle Hp Hlw. inversion Hl; subst l0.
             assert (Hwv : w <> v \/ w = v) by (destruct (teqb w v) eqn:E; [right; apply teqb_spec; exact E | left; intros ->; rewrite teqb_refl2 in E; discriminate]).
             assert (Hlo : lo <= Nat.min lv lww).
             { destruct Hwv as [Hwv | Hwv].
               - pose proof (Hlw w lww (or_introl eq_refl) Hf Hwv Hlww). lia.
               - subst w. rewrite Hlv in Hlww. inversion Hlww; subst. lia. }
             destruct (H2 lo (Nat.min lv lww)) as [l [Hl1 [Hl2 Hl3]]].
             ++ rewrite (lk_ins nat), teqb_refl2. reflexivity.
             ++ exact Hlo.
             ++ intros w' pw' Hw'. apply Hp. cbn. tauto.
             ++ intros w' l Hw' Hnf Hne Hl'. rewrite (lk_ins nat), (teqb_neq w' v Hne) in Hl'.
                apply (Hlw w' l); [cbn; tauto | assumption | assumption | exact Hl'].
             ++ exists l. split; [exact Hl1 | split; [exact Hl2 | lia] ].
        * cbn [bind] in H. destruct (IH _ _ H) as [H1 H2]. split.
          -- intros x Hx. rewrite (H1 x Hx), (lk_ins nat), (teqb_neq x v Hx). reflexivity.
          -- intros lo l0 Hl Hle Hp Hlw. inversion Hl; subst l0.
             assert (Hlo : lo <= Nat.min lv pw).
             { pose proof (Hp w pw (or_introl eq_refl) Hf Hpw). lia. }
             destruct (H2 lo (Nat.min lv pw)) as [l [Hl1 [Hl2 Hl3]]].
             ++ rewrite (lk_ins nat), teqb_refl2. reflexivity.
             ++ exact Hlo.
             ++ intros w' pw' Hw'. apply Hp. cbn. tauto.
             ++ intros w' l Hw' Hnf Hne Hl'. rewrite (lk_ins nat), (teqb_neq w' v Hne) in Hl'.
                apply (Hlw w' l); [cbn; tauto | assumption | assumption | exact Hl'].
             ++ exists l. split; [exact Hl1 | split; [exact Hl2 | lia] ].
  Qed.

  (* ---------------- small facts ---------------- *)
  Lemma numbered_insert : forall (pre : list (T * nat)) k n x,
    numbered pre x -> numbered (insert teqb k n pre) x.
  Proof.
    intros pre k n x [p Hp]. unfold numbered. rewrite (lk_ins nat).
    destruct (teqb x k); [exists n; reflexivity | exists p; exact Hp].
  Qed.

  Lemma numbered_insert_inv : forall (pre : list (T * nat)) k n x,
    numbered (insert teqb k n pre) x -> x = k \/ numbered pre x.
  Proof.
    intros pre k n x [p Hp]. rewrite (lk_ins nat) in Hp. destruct (teqb x k) eqn:E.
    - left. apply teqb_spec. exact E.
    - right. exists p. exact Hp.
  Qed.

  Lemma last_cases : forall (l : list T), l = [] \/ exists front r, l = front ++ [r].
  Proof.
    induction l as [ | a t IH ]; [left; reflexivity | right].
    destruct IH as [-> | [front [r ->]]].
    - exists [], a. reflexivity.
    - exists (a :: front), r. reflexivity.
  Qed.

  Lemma snoc_cons_inv : forall (a : T) l front r,
    a :: l = front ++ [r] -> (l = [] /\ front = [] /\ r = a) \/ exists front', front = a :: front' /\ l = front' ++ [r].
  Proof.
    intros a l front r H. destruct front as [ | b front' ]; cbn in H.
    - inversion H; subst. left. auto.
    - inversion H; subst. right. exists front'. auto.
  Qed.

  Lemma NoDup_app_l : forall (a b : list T), NoDup (a ++ b) -> NoDup a.
  Proof.
    induction a as [ | x a IH ]; intros b H; [constructor | ]. cbn in H. inversion H; subst.
    constructor; [intros Hx; apply H2; apply in_app_iff; tauto | apply (IH b); assumption].
  Qed.

  Lemma NoDup_app_r : forall (a b : list T), NoDup (a ++ b) -> NoDup b.
  Proof.
    induction a as [ | x a IH ]; intros b H; [exact H | ]. cbn in H. inversion H; subst. apply IH. assumption.
  Qed.

  Lemma NoDup_app_disj : forall (a b : list T) x, NoDup (a ++ b) -> In x a -> ~ In x b.
  Proof.
    induction a as [ | y a IH ]; intros b x H Hx; [destruct Hx | ]. cbn in H. inversion H; subst.
    destruct Hx as [Hx | Hx].
    - subst. intros Hb. apply H2. apply in_app_iff. tauto.
    - apply (IH b x); assumption.
  Qed.

  (* ---------------- the invariant of one run of the inner loop ---------------- *)
  Record sinv (base : nat) (queue : list T) (s : sst) : Prop := {
    i_comps : forall x, In x (s_found s) <-> In x (concat (s_comps s));
    i_nodup : NoDup (concat (s_comps s));
    i_nonempty : forall c, In c (s_comps s) -> c <> [];
    i_found_num : forall x, In x (s_found s) -> numbered (s_pre s) x;
    i_sccq_nodup : NoDup (s_sccq s);
    i_sccq : forall k, In k (s_sccq s) ->
             ~ In k (s_found s) /\ ~ In k queue /\
             exists pk, lookup teqb k (s_pre s) = Some pk /\ base + 2 <= pk;
    i_queue_nodup : NoDup queue;
    i_queue : forall q, In q queue -> ~ In q (s_found s);
    i_queue_tail : forall h t, queue = h :: t -> forall q, In q t -> numbered (s_pre s) q;
    i_numbered : forall x, numbered (s_pre s) x -> In x (s_found s) \/ In x (s_sccq s) \/ In x queue;
    i_pre_lo : forall x px, ~ In x (s_found s) -> lookup teqb x (s_pre s) = Some px -> base + 1 <= px;
    i_pre_hi : forall x px, lookup teqb x (s_pre s) = Some px -> px <= s_ctr s;
    i_base : base <= s_ctr s;
    i_low : forall w l, ~ In w (s_found s) -> lookup teqb w (s_low s) = Some l -> base + 1 <= l;
    i_low_num : forall w l, lookup teqb w (s_low s) = Some l -> numbered (s_pre s) w;
    i_root : forall front r, queue = front ++ [r] ->
             (lookup teqb r (s_pre s) = None /\ s_ctr s = base) \/ lookup teqb r (s_pre s) = Some (base + 1);
    i_nonroot : forall front r q pq, queue = front ++ [r] -> In q front ->
                lookup teqb q (s_pre s) = Some pq -> base + 2 <= pq;
    i_done : queue = [] -> s_sccq s = []
  }.

  (* numbering the node on top of the stack *)
  Lemma step_number : forall base v qt s,
    sinv base (v :: qt) s -> lookup teqb v (s_pre s) = None ->
    sinv base (v :: qt)
         (mks (insert teqb v (S (s_ctr s)) (s_pre s)) (s_low s) (s_found s) (s_sccq s) (S (s_ctr s)) (s_comps s)).
  Proof.
    intros base v qt s I Hv. destruct I. constructor; cbn [s_pre s_low s_found s_sccq s_ctr s_comps]; try assumption.
    - intros x Hx. apply numbered_insert. apply i_found_num0. exact Hx.
    - intros k Hk. destruct (i_sccq0 k Hk) as [H1 [H2 [pk [H3 H4]]]]. split; [exact H1 | split; [exact H2 | ] ].
      exists pk. rewrite (lk_ins nat). rewrite teqb_neq; [auto | ]. intros ->. apply H2. cbn. tauto.
    - intros h t Hq q Hqt. apply numbered_insert. apply (i_queue_tail0 h t Hq q Hqt).
    - intros x Hx. apply numbered_insert_inv in Hx. destruct Hx as [-> | Hx]; [right; right; cbn; tauto | ].
      apply i_numbered0. exact Hx.
    - intros x px Hnf Hl. rewrite (lk_ins nat) in Hl. destruct (teqb x v) eqn:E.
      + inversion Hl; subst. lia.
      + apply (i_pre_lo0 x px Hnf Hl).
    - intros x px Hl. rewrite (lk_ins nat) in Hl. destruct (teqb x v) eqn:E.
      + inversion Hl; subst. lia.
      + specialize (i_pre_hi0 x px Hl). lia.
    - lia.
    - intros w l Hl. apply numbered_insert. apply (i_low_num0 w l Hl).
    - intros front r Hq. rewrite (lk_ins nat). destruct (snoc_cons_inv _ _ _ _ Hq) as [[Hqt [Hf Hr]] | [front' [Hf Hqt]]].
      + subst. rewrite teqb_refl2. right. destruct (i_root0 [] v eq_refl) as [[_ Hc] | Hc]; [ | congruence].
        rewrite Hc. f_equal. lia.
      + assert (Hr : In r qt) by (rewrite Hqt; apply in_app_iff; cbn; tauto).
        assert (Hne : r <> v).
        { intros ->. inversion i_queue_nodup0; subst. contradiction. }
        rewrite (teqb_neq r v Hne). destruct (i_root0 front r Hq) as [[Hn _] | Hc]; [ | right; exact Hc].
        destruct (i_queue_tail0 v qt eq_refl r Hr) as [p Hp]. congruence.
    - intros front r q pq Hq Hin Hl. rewrite (lk_ins nat) in Hl. destruct (teqb q v) eqn:E.
      + inversion Hl; subst pq. destruct (snoc_cons_inv _ _ _ _ Hq) as [[Hqt [Hf Hr]] | [front' [Hf Hqt]]].
        * subst. destruct Hin.
        * assert (Hr : In r qt) by (rewrite Hqt; apply in_app_iff; cbn; tauto).
          destruct (i_queue_tail0 v qt eq_refl r Hr) as [pr Hpr].
          assert (Hnf : ~ In r (s_found s)) by (apply i_queue0; cbn; tauto).
          pose proof (i_pre_lo0 r pr Hnf Hpr). pose proof (i_pre_hi0 r pr Hpr). lia.
      + apply (i_nonroot0 front r q pq Hq Hin Hl).
  Qed.

  (* pushing an unnumbered neighbour *)
  Lemma step_push : forall base v qt s w,
    sinv base (v :: qt) s -> numbered (s_pre s) v -> lookup teqb w (s_pre s) = None ->
    sinv base (w :: v :: qt) s.
  Proof.
    intros base v qt s w I Hv Hw. destruct I.
    assert (Hall : forall q, In q (v :: qt) -> numbered (s_pre s) q).
    { intros q [-> | Hq]; [exact Hv | apply (i_queue_tail0 v qt eq_refl q Hq)]. }
    assert (Hwq : ~ In w (v :: qt)).
    { intros Hin. destruct (Hall w Hin) as [p Hp]. congruence. }
    constructor; try assumption.
    - intros k Hk. destruct (i_sccq0 k Hk) as [H1 [H2 [pk [H3 H4]]]]. split; [exact H1 | split ].
      + intros [Hkw | Hkq]; [subst; congruence | contradiction].
      + exists pk. auto.
    - constructor; assumption.
    - intros q [<- | Hq]; [ | apply i_queue0; exact Hq].
      intros Hf. destruct (i_found_num0 w Hf) as [p Hp]. congruence.
    - intros h t Hq q Hqt. inversion Hq; subst. apply Hall. exact Hqt.
    - intros x Hx. destruct (i_numbered0 x Hx) as [H | [H | H]]; [tauto | tauto | right; right; cbn; cbn in H; tauto].
    - intros front r Hq. destruct (snoc_cons_inv _ _ _ _ Hq) as [[Hqt _] | [front' [Hf Hqt]]]; [discriminate | ].
      apply (i_root0 front' r Hqt).
    - intros front r q pq Hq Hin Hl. destruct (snoc_cons_inv _ _ _ _ Hq) as [[Hqt _] | [front' [Hf Hqt]]]; [discriminate | ].
      subst front. destruct Hin as [-> | Hin]; [congruence | ]. apply (i_nonroot0 front' r q pq Hqt Hin Hl).
    - discriminate.
  Qed.

  (* the low-link value computed when a node is finished *)
  Lemma finish_low : forall base v qt s pv nb lw,
    sinv base (v :: qt) s -> lookup teqb v (s_pre s) = Some pv ->
    lowlink_pass teqb (s_pre s) (insert teqb v pv (s_low s)) (s_found s) v pv nb = Ok lw ->
    (forall x, x <> v -> lookup teqb x lw = lookup teqb x (s_low s)) /\
    exists l, lookup teqb v lw = Some l /\ base + 1 <= l /\ l <= pv.
  Proof.
    intros base v qt s pv nb lw I Hpv Hlw. destruct (lowlink_pass_spec _ _ _ _ _ _ _ Hlw) as [H1 H2].
    assert (Hvf : ~ In v (s_found s)) by (apply (i_queue _ _ _ I); cbn; tauto).
    split.
    - intros x Hx. rewrite (H1 x Hx), (lk_ins nat), (teqb_neq x v Hx). reflexivity.
    - apply (H2 (base + 1) pv).
      + rewrite (lk_ins nat), teqb_refl2. reflexivity.
      + apply (i_pre_lo _ _ _ I v pv Hvf Hpv).
      + intros w pw _ Hnf Hp. apply (i_pre_lo _ _ _ I w pw Hnf Hp).
      + intros w l _ Hnf Hne Hl. rewrite (lk_ins nat), (teqb_neq w v Hne) in Hl.
        apply (i_low _ _ _ I w l Hnf Hl).
  Qed.

  (* finishing a node whose low-link differs from its preorder: it waits on scc_queue *)
  Lemma step_defer : forall base v qt s pv lw l,
    sinv base (v :: qt) s -> lookup teqb v (s_pre s) = Some pv ->
    (forall x, x <> v -> lookup teqb x lw = lookup teqb x (s_low s)) ->
    lookup teqb v lw = Some l -> base + 1 <= l -> l <= pv -> l <> pv ->
    sinv base qt (mks (s_pre s) lw (s_found s) (v :: s_sccq s) (s_ctr s) (s_comps s)).
  Proof.
    intros base v qt s pv lw l I Hpv Hlw Hl Hlo Hhi Hne.
    assert (Hvf : ~ In v (s_found s)) by (apply (i_queue _ _ _ I); cbn; tauto).
    assert (Hvq : ~ In v qt) by (pose proof (i_queue_nodup _ _ _ I) as Hn; inversion Hn; assumption).
    assert (Hvs : ~ In v (s_sccq s)).
    { intros Hin. destruct (i_sccq _ _ _ I v Hin) as [_ [Hq _]]. apply Hq. cbn. tauto. }
    (* v is not the root: the root's low-link equals its preorder *)
    destruct (last_cases qt) as [Hqt | [front [r Hqt]]].
    { exfalso. subst qt. destruct (i_root _ _ _ I [] v eq_refl) as [[Hn _] | Hr]; [congruence | ].
      rewrite Hpv in Hr. inversion Hr. lia. }
    assert (Hpv2 : base + 2 <= pv).
    { apply (i_nonroot _ _ _ I (v :: front) r v pv); [rewrite Hqt; reflexivity | cbn; tauto | exact Hpv]. }
    destruct I. constructor; cbn [s_pre s_low s_found s_sccq s_ctr s_comps]; try assumption.
    - constructor; assumption.
    - intros k [<- | Hk].
      + split; [exact Hvf | split; [exact Hvq | exists pv; auto] ].
      + destruct (i_sccq0 k Hk) as [H1 [H2 H3]]. split; [exact H1 | split; [ | exact H3] ].
        intros Hin. apply H2. cbn. tauto.
    - inversion i_queue_nodup0; assumption.
    - intros q Hq. apply i_queue0. cbn. tauto.
    - intros h t Hq q Hin. apply (i_queue_tail0 v qt eq_refl q). rewrite Hq. cbn. tauto.
    - intros x Hx. destruct (i_numbered0 x Hx) as [H | [H | H]]; [tauto | right; left; cbn; tauto | ].
      destruct H as [<- | H]; [right; left; cbn; tauto | tauto].
    - intros w l' Hnf Hl'. destruct (teqb w v) eqn:E.
      + apply teqb_spec in E. subst w. rewrite Hl in Hl'. inversion Hl'; subst. exact Hlo.
      + assert (Hwv : w <> v) by (intros ->; rewrite teqb_refl2 in E; discriminate).
        rewrite (Hlw w Hwv) in Hl'. apply (i_low0 w l' Hnf Hl').
    - intros w l' Hl'. destruct (teqb w v) eqn:E.
      + apply teqb_spec in E. subst w. exists pv. exact Hpv.
      + assert (Hwv : w <> v) by (intros ->; rewrite teqb_refl2 in E; discriminate).
        rewrite (Hlw w Hwv) in Hl'. apply (i_low_num0 w l' Hl').
    - intros front' r' Hq. apply (i_root0 (v :: front') r'). rewrite Hq. reflexivity.
    - intros front' r' q pq Hq Hin Hlq. apply (i_nonroot0 (v :: front') r' q pq); [rewrite Hq; reflexivity | cbn; tauto | exact Hlq].
    - intros Hnil. rewrite Hqt in Hnil. destruct front; discriminate.
  Qed.

  (* finishing a node whose low-link equals its preorder: a component is emitted *)
  Lemma step_emit : forall base v qt s pv lw scc q',
    sinv base (v :: qt) s -> lookup teqb v (s_pre s) = Some pv ->
    (forall x, x <> v -> lookup teqb x lw = lookup teqb x (s_low s)) ->
    lookup teqb v lw = Some pv ->
    popq teqb (s_pre s) v (s_sccq s) [v] = (scc, q') ->
    sinv base qt (mks (s_pre s) lw (union_names teqb (s_found s) scc) q' (s_ctr s) (s_comps s ++ [scc])).
  Proof.
    intros base v qt s pv lw scc q' I Hpv Hlw Hl Hpop.
    assert (Hvf : ~ In v (s_found s)) by (apply (i_queue _ _ _ I); cbn; tauto).
    assert (Hvq : ~ In v qt) by (pose proof (i_queue_nodup _ _ _ I) as Hn; inversion Hn; assumption).
    destruct (popq_spec _ _ _ _ _ _ Hpop) as [popped [Hsplit [Hscc Hnd]]].
    assert (Hpop_in : forall k, In k popped -> In k (s_sccq s)) by (intros k Hk; rewrite Hsplit; apply in_app_iff; tauto).
    assert (Hq'_in : forall k, In k q' -> In k (s_sccq s)) by (intros k Hk; rewrite Hsplit; apply in_app_iff; tauto).
    pose proof (i_sccq_nodup _ _ _ I) as Hsn. rewrite Hsplit in Hsn.
    assert (Hvp : ~ In v popped).
    { intros Hin. destruct (i_sccq _ _ _ I v (Hpop_in v Hin)) as [_ [Hq _]]. apply Hq. cbn. tauto. }
    assert (Hsccnd : NoDup scc).
    { apply Hnd.
      - constructor; [intros [] | constructor].
      - apply (NoDup_app_l _ _ Hsn).
      - intros x Hx [Hxv | []]. subst. contradiction. }
    assert (Hscc_nf : forall x, In x scc -> ~ In x (s_found s)).
    { intros x Hx. apply Hscc in Hx. destruct Hx as [[<- | []] | Hx]; [exact Hvf | ].
      apply (i_sccq _ _ _ I x (Hpop_in x Hx)). }
    destruct I. constructor; cbn [s_pre s_low s_found s_sccq s_ctr s_comps]; try assumption.
    - intros x. rewrite (union_names_In teqb teqb_spec), concat_app, in_app_iff, i_comps0. cbn [concat].
      rewrite app_nil_r. tauto.
    - rewrite concat_app. cbn [concat]. rewrite app_nil_r.
      apply NoDup_app_disjoint; [exact i_nodup0 | exact Hsccnd | ].
      intros x Hx Hxs. apply (Hscc_nf x Hxs). apply i_comps0. exact Hx.
    - intros c Hc. apply in_app_iff in Hc. destruct Hc as [Hc | [<- | []]]; [apply i_nonempty0; exact Hc | ].
      intros Hnil. assert (In v scc) by (apply Hscc; cbn; tauto). rewrite Hnil in H. destruct H.
    - intros x Hx. apply (union_names_In teqb teqb_spec) in Hx. destruct Hx as [Hx | Hx]; [apply i_found_num0; exact Hx | ].
      apply Hscc in Hx. destruct Hx as [[<- | []] | Hx]; [exists pv; exact Hpv | ].
      destruct (i_sccq0 x (Hpop_in x Hx)) as [_ [_ [pk [Hk _]]]]. exists pk. exact Hk.
    - apply (NoDup_app_r _ _ Hsn).
    - intros k Hk. destruct (i_sccq0 k (Hq'_in k Hk)) as [H1 [H2 H3]]. split; [ | split; [ | exact H3] ].
      + intros Hin. apply (union_names_In teqb teqb_spec) in Hin. destruct Hin as [Hin | Hin]; [contradiction | ].
        apply Hscc in Hin. destruct Hin as [[<- | []] | Hin].
        * apply H2. cbn. tauto.
        * apply (NoDup_app_disj _ _ k Hsn Hin Hk).
      + intros Hin. apply H2. cbn. tauto.
    - inversion i_queue_nodup0; assumption.
    - intros q Hq Hin. apply (union_names_In teqb teqb_spec) in Hin. destruct Hin as [Hin | Hin].
      + apply (i_queue0 q); [cbn; tauto | exact Hin].
      + apply Hscc in Hin. destruct Hin as [[<- | []] | Hin]; [contradiction | ].
        destruct (i_sccq0 q (Hpop_in q Hin)) as [_ [H2 _]]. apply H2. cbn. tauto.
    - intros h t Hq q Hin. apply (i_queue_tail0 v qt eq_refl q). rewrite Hq. cbn. tauto.
    - intros x Hx. rewrite (union_names_In teqb teqb_spec). destruct (i_numbered0 x Hx) as [H | [H | H]].
      + tauto.
      + rewrite Hsplit in H. apply in_app_iff in H. destruct H as [H | H]; [ | tauto].
        left. right. apply Hscc. tauto.
      + destruct H as [<- | H]; [ | tauto]. left. right. apply Hscc. cbn. tauto.
    - intros x px Hnf Hp. apply (i_pre_lo0 x px); [ | exact Hp].
      intros Hin. apply Hnf. apply (union_names_In teqb teqb_spec). tauto.
    - intros w l' Hnf Hl'.
      assert (Hwv : w <> v).
      { intros ->. apply Hnf. apply (union_names_In teqb teqb_spec). right. apply Hscc. cbn. tauto. }
      rewrite (Hlw w Hwv) in Hl'. apply (i_low0 w l'); [ | exact Hl'].
      intros Hin. apply Hnf. apply (union_names_In teqb teqb_spec). tauto.
    - intros w l' Hl'. destruct (teqb w v) eqn:E.
      + apply teqb_spec in E. subst w. exists pv. exact Hpv.
      + assert (Hwv : w <> v) by (intros ->; rewrite teqb_refl2 in E; discriminate).
        rewrite (Hlw w Hwv) in Hl'. apply (i_low_num0 w l' Hl').
    - intros front' r' Hq. apply (i_root0 (v :: front') r'). rewrite Hq. reflexivity.
    - intros front' r' q pq Hq Hin Hlq. apply (i_nonroot0 (v :: front') r' q pq); [rewrite Hq; reflexivity | cbn; tauto | exact Hlq].
    - intros Hnil. subst qt.
      (* v is the root: everything waiting on scc_queue is popped *)
      destruct (i_root0 [] v eq_refl) as [[Hn _] | Hr]; [congruence | ].
      rewrite Hpv in Hr. inversion Hr; subst pv.
      pose proof (popq_all (s_pre s) v (base + 1) (s_sccq s) [v] Hpv) as Hall.
      rewrite Hpop in Hall. cbn [snd] in Hall. apply Hall.
      intros k Hk. destruct (i_sccq0 k Hk) as [_ [_ [pk [Hk1 Hk2]]]]. exists pk. split; [exact Hk1 | lia].
  Qed.

  (* ---------------- one run of the inner loop ---------------- *)
  Lemma scc_inner_inv : forall (g : gstate) base fuel queue s s',
    scc_inner teqb ord fuel g queue s = Ok s' -> sinv base queue s -> sinv base [] s'.
  Proof.
    intros g base. induction fuel as [ | f IH ]; intros queue s s' H I; cbn [scc_inner] in H; [discriminate | ].
    destruct queue as [ | v qt ]; [inversion H; subst; exact I | ].
    set (s1 := if contains_key teqb v (s_pre s) then s
               else mks (insert teqb v (S (s_ctr s)) (s_pre s)) (s_low s) (s_found s) (s_sccq s)
                        (S (s_ctr s)) (s_comps s)) in *.
    assert (I1 : sinv base (v :: qt) s1 /\ numbered (s_pre s1) v).
    { unfold s1. destruct (contains_key teqb v (s_pre s)) eqn:E.
      - split; [exact I | apply contains_numbered; exact E].
      - apply not_contains in E. split; [apply step_number; assumption | ].
        cbn [s_pre]. exists (S (s_ctr s)). rewrite (lk_ins nat), teqb_refl2. reflexivity. }
    destruct I1 as [I1 Hv1]. clearbody s1.
    destruct (find _ (scc_nbrs teqb ord g v)) as [w | ] eqn:Ef.
    - apply find_some in Ef. destruct Ef as [_ Hw]. apply negb_true_iff in Hw. apply not_contains in Hw.
      apply (IH _ _ _ H). apply step_push; assumption.
    - destruct (lookup teqb v (s_pre s1)) as [pv | ] eqn:Hpv; [ | discriminate].
      destruct (lowlink_pass teqb (s_pre s1) (insert teqb v pv (s_low s1)) (s_found s1) v pv (scc_nbrs teqb ord g v))
        as [lw | | | ] eqn:Hlw; cbn [bind] in H; try discriminate.
      destruct (finish_low base v qt s1 pv _ lw I1 Hpv Hlw) as [Hother [l [Hl [Hlo Hhi]]]].
      rewrite Hl in H. destruct (Nat.eqb l pv) eqn:El.
      + apply Nat.eqb_eq in El. subst l.
        destruct (popq teqb (s_pre s1) v (s_sccq s1) [v]) as [scc q'] eqn:Hpop.
        apply (IH _ _ _ H). eapply step_emit; eassumption.
      + apply Nat.eqb_neq in El. apply (IH _ _ _ H). eapply step_defer; eassumption.
  Qed.

  Lemma scc_inner_mono : forall (g : gstate) fuel queue s s',
    scc_inner teqb ord fuel g queue s = Ok s' ->
    (forall x, numbered (s_pre s) x -> numbered (s_pre s') x) /\
    (forall x, In x (s_found s) -> In x (s_found s')) /\
    (forall q, In q queue -> numbered (s_pre s') q).
  Proof.
    intros g. induction fuel as [ | f IH ]; intros queue s s' H; cbn [scc_inner] in H; [discriminate | ].
    destruct queue as [ | v qt ]; [inversion H; subst; split; [auto | split; [auto | intros q []] ] | ].
    set (s1 := if contains_key teqb v (s_pre s) then s
               else mks (insert teqb v (S (s_ctr s)) (s_pre s)) (s_low s) (s_found s) (s_sccq s)
                        (S (s_ctr s)) (s_comps s)) in *.
    assert (M1 : (forall x, numbered (s_pre s) x -> numbered (s_pre s1) x) /\ s_found s1 = s_found s /\
                 numbered (s_pre s1) v).
    { unfold s1. destruct (contains_key teqb v (s_pre s)) eqn:E.
      - split; [auto | split; [reflexivity | apply contains_numbered; exact E] ].
      - cbn [s_pre s_found]. split; [intros x Hx; apply numbered_insert; exact Hx | split; [reflexivity | ] ].
        exists (S (s_ctr s)). rewrite (lk_ins nat), teqb_refl2. reflexivity. }
    destruct M1 as [Mp [Mf Mv]]. clearbody s1.
    destruct (find _ (scc_nbrs teqb ord g v)) as [w | ] eqn:Ef.
    - destruct (IH _ _ _ H) as [H1 [H2 H3]]. split; [intros x Hx; apply H1, Mp, Hx | split ].
      + intros x Hx. apply H2. rewrite Mf. exact Hx.
      + intros q Hq. apply H3. cbn. cbn in Hq. tauto.
    - destruct (lookup teqb v (s_pre s1)) as [pv | ] eqn:Hpv; [ | discriminate].
      destruct (lowlink_pass _ _ _ _ _ _ _) as [lw | | | ] eqn:Hlw; cbn [bind] in H; try discriminate.
      destruct (lookup teqb v lw) as [l | ] eqn:Hl; [ | discriminate].
      destruct (Nat.eqb l pv).
      + destruct (popq teqb (s_pre s1) v (s_sccq s1) [v]) as [scc q'] eqn:Hpop.
        destruct (IH _ _ _ H) as [H1 [H2 H3]]. cbn [s_pre s_found] in H1, H2.
        split; [intros x Hx; apply H1, Mp, Hx | split ].
        * intros x Hx. apply H2. apply (union_names_In teqb teqb_spec). rewrite Mf. tauto.
        * intros q [<- | Hq]; [apply H1; exact Mv | apply H3; exact Hq].
      + destruct (IH _ _ _ H) as [H1 [H2 H3]]. cbn [s_pre s_found] in H1, H2.
        split; [intros x Hx; apply H1, Mp, Hx | split ].
        * intros x Hx. apply H2. rewrite Mf. exact Hx.
        * intros q [<- | Hq]; [apply H1; exact Mv | apply H3; exact Hq].
  Qed.

  (* ---------------- the outer loop over the sources ---------------- *)
  Record rinv (s : sst) : Prop := {
    r_comps : forall x, In x (s_found s) <-> In x (concat (s_comps s));
    r_nodup : NoDup (concat (s_comps s));
    r_nonempty : forall c, In c (s_comps s) -> c <> [];
    r_found_num : forall x, In x (s_found s) -> numbered (s_pre s) x;
    r_sccq : s_sccq s = [];
    r_numbered : forall x, numbered (s_pre s) x -> In x (s_found s);
    r_pre_hi : forall x px, lookup teqb x (s_pre s) = Some px -> px <= s_ctr s;
    r_low_num : forall w l, lookup teqb w (s_low s) = Some l -> numbered (s_pre s) w
  }.

  Lemma rinv_start : forall s src, rinv s -> ~ In src (s_found s) -> sinv (s_ctr s) [src] s.
  Proof.
    intros s src [R1 R2 R3 R4 R5 R6 R7 R8] Hsrc.
    assert (Hun : lookup teqb src (s_pre s) = None).
    { destruct (lookup teqb src (s_pre s)) as [p | ] eqn:E; [ | reflexivity].
      exfalso. apply Hsrc. apply R6. exists p. exact E. }
    constructor; try assumption.
    - rewrite R5. constructor.
    - rewrite R5. intros k [].
    - constructor; [intros [] | constructor].
    - intros q [<- | []]. exact Hsrc.
    - intros h t Hq q Hin. inversion Hq; subst. destruct Hin.
    - intros x Hx. left. apply R6. exact Hx.
    - intros x px Hnf Hp. exfalso. apply Hnf. apply R6. exists px. exact Hp.
    - lia.
    - intros w l Hnf Hl. exfalso. apply Hnf. apply R6. apply (R8 w l Hl).
    - intros front r Hq. destruct front as [ | a front ]; cbn in Hq.
      + inversion Hq; subst. left. auto.
      + inversion Hq. destruct front; discriminate.
    - intros front r q pq Hq Hin. destruct front as [ | a front ]; [destruct Hin | ].
      cbn in Hq. inversion Hq. destruct front; discriminate.
    - discriminate.
  Qed.

  Lemma rinv_end : forall base s, sinv base [] s -> rinv s.
  Proof.
    intros base s I. destruct I. constructor; try assumption.
    - apply i_done0. reflexivity.
    - intros x Hx. destruct (i_numbered0 x Hx) as [H | [H | []]]; [exact H | ].
      rewrite (i_done0 eq_refl) in H. destruct H.
  Qed.

  Lemma outer_inv : forall (g : gstate) fuel names s s',
    ofold (fun s src => if mem_name teqb src (s_found s) then Ok s
                        else scc_inner teqb ord fuel g [src] s) names s = Ok s' ->
    rinv s ->
    rinv s' /\ (forall x, In x (s_found s) -> In x (s_found s')) /\ (forall x, In x names -> In x (s_found s')).
  Proof.
    intros g fuel. induction names as [ | src t IH ]; intros s s' H R; cbn [ofold] in H.
    - inversion H; subst. split; [exact R | split; [auto | intros x []] ].
    - destruct (mem_name teqb src (s_found s)) eqn:Em; cbn [bind] in H.
      + apply mIn in Em. destruct (IH _ _ H R) as [H1 [H2 H3]]. split; [exact H1 | split; [exact H2 | ] ].
        intros x [<- | Hx]; [apply H2; exact Em | apply H3; exact Hx].
      + apply mNot in Em.
        destruct (scc_inner teqb ord fuel g [src] s) as [s1 | | | ] eqn:Ei; cbn [bind] in H; try discriminate.
        pose proof (scc_inner_inv g (s_ctr s) _ _ _ _ Ei (rinv_start s src R Em)) as I1.
        pose proof (rinv_end _ _ I1) as R1.
        destruct (scc_inner_mono g _ _ _ _ Ei) as [M1 [M2 M3]].
        destruct (IH _ _ H R1) as [H1 [H2 H3]]. split; [exact H1 | split ].
        * intros x Hx. apply H2, M2, Hx.
        * intros x [<- | Hx]; [ | apply H3; exact Hx]. apply H2. apply (r_numbered _ R1). apply M3. cbn. tauto.
  Qed.

  (* strongly_connected_components: the emitted sets are non-empty, no node occurs twice
     (so the sets are pairwise disjoint), and every node of the graph is in one of them -
     for every neighbour iteration order [ord] *)
  Theorem scc_partition : forall (g : gstate) cs,
    strongly_connected_components teqb ord g = Ok cs ->
    (forall c, In c cs -> c <> []) /\
    NoDup (concat cs) /\
    (forall x, In x (get_all_node_names g) -> In x (concat cs)).
  Proof.
    intros g cs H. unfold strongly_connected_components in H.
    destruct (ensure_directed g); cbn [bind] in H; try discriminate.
    destruct (ofold _ (get_all_node_names g) (mks [] [] [] [] 0 [])) as [s | | | ] eqn:Eo; cbn [bind] in H;
      try discriminate.
    inversion H; subst cs.
    destruct (outer_inv g _ _ _ _ Eo) as [[R1 R2 R3 R4 R5 R6 R7 R8] [_ Hall]].
    { constructor; cbn [s_pre s_low s_found s_sccq s_ctr s_comps].
      - intros x. cbn. tauto.
      - constructor.
      - intros c [].
      - intros x [].
      - reflexivity.
      - intros x [p Hp]. discriminate.
      - intros x px Hp. discriminate.
      - intros w l Hl. discriminate. }
    split; [exact R3 | split; [exact R2 | ] ].
    intros x Hx. apply R1. apply Hall. exact Hx.
  Qed.
End SccOk.
