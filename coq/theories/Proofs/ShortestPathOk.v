(* Soundness of the executable checkers of Spec/ShortestPathCheck.v w.r.t. the
   definitions of Spec/ShortestPathDef.v, and the pure graph-theory facts used
   by C08 (uniqueness of the distance, triangle inequality, symmetry on a
   symmetric adjacency, optimal substructure).  All statements are for every
   adjacency, every source, every vector / answer: induction on walks, on the
   closure sweeps and on the enumeration fuel. *)
From Coq Require Import List Bool ZArith QArith Arith Lia.
From GV Require Import Spec.ShortestPathDef Spec.ShortestPathCheck.
Import ListNotations.
Open Scope Z_scope.

(* ---------------------------------------------------------------- basics *)
Lemma memn_In : forall x l, memn x l = true <-> In x l.
Proof.
  intros x l. unfold memn. rewrite existsb_exists. split.
  - intros [y [Hy He]]. apply Nat.eqb_eq in He. subst. exact Hy.
  - intros H. exists x. split; [exact H | apply Nat.eqb_refl].
Qed.

Lemma list_eqb_eq : forall a b, list_eqb a b = true <-> a = b.
Proof.
  induction a as [|x a IH]; destruct b as [|y b]; cbn [list_eqb]; split; intros H;
    try reflexivity; try discriminate.
  - apply andb_true_iff in H. destruct H as [H1 H2]. apply Nat.eqb_eq in H1.
    apply IH in H2. subst. reflexivity.
  - inversion H; subst. rewrite Nat.eqb_refl. cbn. apply IH. reflexivity.
Qed.

Lemma memp_In : forall p l, memp p l = true <-> In p l.
Proof.
  intros p l. unfold memp. rewrite existsb_exists. split.
  - intros [q [Hq He]]. apply list_eqb_eq in He. subst. exact Hq.
  - intros H. exists p. split; [exact H | apply list_eqb_eq; reflexivity].
Qed.

Lemma nodup_nb_NoDup : forall l, nodup_nb l = true -> NoDup l.
Proof.
  induction l as [|x l IH]; cbn [nodup_nb]; intros H.
  - constructor.
  - apply andb_true_iff in H. destruct H as [H1 H2]. constructor.
    + intros Hin. apply memn_In in Hin. rewrite Hin in H1. discriminate.
    + apply IH. exact H2.
Qed.

Lemma nodup_pb_NoDup : forall l, nodup_pb l = true -> NoDup l.
Proof.
  induction l as [|x l IH]; cbn [nodup_pb]; intros H.
  - constructor.
  - apply andb_true_iff in H. destruct H as [H1 H2]. constructor.
    + intros Hin. apply memp_In in Hin. rewrite Hin in H1. discriminate.
    + apply IH. exact H2.
Qed.

Lemma oz_eqb_eq : forall a b, oz_eqb a b = true -> a = b.
Proof.
  intros [x|] [y|]; cbn; intros H; try discriminate; try reflexivity.
  apply Z.eqb_eq in H. subst. reflexivity.
Qed.

Lemma within_b_within : forall c x, within_b c x = true <-> within c x.
Proof.
  intros [c|] x; cbn.
  - apply Qle_bool_iff.
  - split; auto.
Qed.

Lemma dget_lt : forall d v x, dget d v = Some x -> (v < length d)%nat.
Proof.
  intros d v x H. unfold dget in H. destruct (nth_error d v) eqn:E; [|discriminate].
  apply nth_error_Some. rewrite E. discriminate.
Qed.

(* ------------------------------------------------- entries = adjacency entries *)
Lemma in_entries_from : forall g k u v w,
  In (u, v, w) (entries_from k g) <->
  exists row, (k <= u)%nat /\ nth_error g (u - k) = Some row /\ In (v, w) row.
Proof.
  induction g as [|row t IH]; intros k u v w; cbn [entries_from].
  - split; [intros [] | intros [r [_ [H _]]]]. destruct (u - k)%nat; discriminate.
  - rewrite in_app_iff. split.
    + intros [H | H].
      * unfold row_entries in H. apply in_map_iff in H. destruct H as [[v' w'] [He Hin]].
        cbn in He. inversion He; subst. exists row. rewrite Nat.sub_diag. cbn. auto.
      * apply IH in H. destruct H as [r [Hle [Hn Hin]]]. exists r. split; [lia|]. split; [|exact Hin].
        replace (u - k)%nat with (S (u - S k)) by lia. exact Hn.
    + intros [r [Hle [Hn Hin]]]. destruct (Nat.eq_dec u k) as [->|Hne].
      * left. rewrite Nat.sub_diag in Hn. cbn in Hn. inversion Hn; subst.
        unfold row_entries. apply in_map_iff. exists (v, w). auto.
      * right. apply IH. exists r. split; [lia|]. split; [|exact Hin].
        replace (u - k)%nat with (S (u - S k)) in Hn by lia. exact Hn.
Qed.

Lemma in_entries : forall g u v w, In (u, v, w) (entries g) <-> wedge g u v w.
Proof.
  intros g u v w. unfold entries, wedge. rewrite in_entries_from. rewrite Nat.sub_0_r.
  split; intros [r H]; exists r; intuition lia.
Qed.

Lemma wedge_lt : forall g u v w, wedge g u v w -> (u < length g)%nat.
Proof.
  intros g u v w [row [H _]]. apply nth_error_Some. rewrite H. discriminate.
Qed.

(* ---------------------------------------------------------- walks *)
Lemma walk_src_lt : forall g s t p x, walk g s t p x -> (s < length g)%nat.
Proof. induction 1; auto. Qed.

Lemma walk_nonneg : forall g s t p x, nonneg g -> walk g s t p x -> 0 <= x.
Proof.
  intros g s t p x Hn H. induction H as [Hs | u v w p d Hw IH He]; [lia|].
  specialize (Hn _ _ _ He). lia.
Qed.

Lemma positive_nonneg : forall g, positive g -> nonneg g.
Proof. intros g H u v w He. specialize (H _ _ _ He). lia. Qed.

(* concatenation: s ->* u (p1) and u ->* t (u :: p2) *)
Lemma walk_app : forall g s u t p1 x1 p2 x2,
  walk g s u p1 x1 -> walk g u t p2 x2 -> walk g s t (p1 ++ tl p2) (x1 + x2).
Proof.
  intros g s u t p1 x1 p2 x2 H1 H2. induction H2 as [Hu | a b w p d Hw IH He].
  - cbn. rewrite app_nil_r. replace (x1 + 0) with x1 by lia. exact H1.
  - assert (Hp : exists q, p = u :: q).
    { clear - Hw. induction Hw; [eexists; reflexivity|]. destruct IHHw as [q ->]. eexists. cbn. reflexivity. }
    destruct Hp as [q ->]. cbn [app tl] in *. rewrite app_assoc. rewrite Z.add_assoc.
    eapply walk_snoc; eauto.
Qed.

(* a walk is a non-empty list starting at s and ending at t *)
Lemma walk_shape : forall g s t p x, walk g s t p x -> exists q, p = s :: q /\ last p s = t.
Proof.
  induction 1 as [Hs | u v w p d Hw [q [-> Hl]] He].
  - exists []. auto.
  - exists (q ++ [v]). split; [reflexivity|]. change (s :: q ++ [v]) with ((s :: q) ++ [v]).
    rewrite last_last. reflexivity.
Qed.

(* ---------------------------------------------------------- distances *)
Lemma is_dist_unique : forall g s t a b, is_dist g s t a -> is_dist g s t b -> a = b.
Proof.
  intros g s t a b [[pa Ha] La] [[pb Hb] Lb].
  specialize (La _ _ Hb). specialize (Lb _ _ Ha). lia.
Qed.

Lemma is_dist_reach : forall g s t x, is_dist g s t x -> reach g s t.
Proof. intros g s t x [[p H] _]. exists p, x. exact H. Qed.

(* triangle inequality *)
Lemma dist_triangle : forall g s u t a b c,
  is_dist g s u a -> is_dist g u t b -> is_dist g s t c -> c <= a + b.
Proof.
  intros g s u t a b c [[p1 H1] _] [[p2 H2] _] [_ L].
  eapply L. eapply walk_app; eauto.
Qed.

(* optimal substructure: the part of a shortest walk before its last hop is shortest *)
Lemma sp_prefix : forall g s u v w p d x,
  walk g s u p d -> wedge g u v w -> is_dist g s v x -> d + w = x -> is_dist g s u d.
Proof.
  intros g s u v w p d x Hw He [_ L] Hx. split; [exists p; exact Hw|].
  intros p' d' Hw'. assert (H := L _ _ (walk_snoc _ _ _ _ _ _ _ Hw' He)). lia.
Qed.

(* reversal on a symmetric adjacency *)
Lemma walk_rev : forall g s t p x, symmetric g -> walk g s t p x -> walk g t s (rev p) x.
Proof.
  intros g s t p x Hs H. induction H as [Hlt | u v w p d Hw IH He].
  - cbn. constructor. exact Hlt.
  - rewrite rev_app_distr. cbn [rev app].
    assert (Hv : walk g v u [v; u] (0 + w)).
    { change [v; u] with ([v] ++ [u]). eapply walk_snoc; [constructor|apply Hs; exact He].
      apply Hs in He. eapply wedge_lt; eauto. }
    assert (H2 := walk_app _ _ _ _ _ _ _ _ Hv IH).
    assert (Hp : exists q, rev p = u :: q).
    { destruct (walk_shape _ _ _ _ _ IH) as [q [-> _]]. eexists; reflexivity. }
    destruct Hp as [q Hq]. rewrite Hq in *. cbn [tl app] in H2.
    replace (d + w) with (0 + w + d) by lia. exact H2.
Qed.

Lemma dist_symmetric : forall g s t x, symmetric g -> is_dist g s t x -> is_dist g t s x.
Proof.
  intros g s t x Hs [[p Hp] L]. split.
  - exists (rev p). apply walk_rev; assumption.
  - intros p' d' H'. apply (L (rev p')). apply walk_rev; assumption.
Qed.

(* ------------------------------------------------- check_dist is sound *)
Record dist_cert (g : wgraph) (s : nat) (d : dvec) : Prop := {
  dc_len : length d = length g;
  dc_s : (s < length g)%nat;
  dc_s0 : dget d s = Some 0;
  dc_feas : forall u v w a, wedge g u v w -> dget d u = Some a ->
                            exists b, dget d v = Some b /\ b <= a + w;
  dc_ach : forall v x, dget d v = Some x -> exists p, walk g s v p x
}.

Definition ach_inv (g : wgraph) (s : nat) (d : dvec) (acc : list nat) : Prop :=
  forall v, In v acc -> exists x p, dget d v = Some x /\ walk g s v p x.

Lemma tight_entry_spec : forall d u v w, tight_entry d (u, v, w) = true ->
  exists a, dget d u = Some a /\ dget d v = Some (a + w).
Proof.
  intros d u v w H. cbn in H. destruct (dget d u) as [a|]; [|discriminate].
  destruct (dget d v) as [b|]; [|discriminate]. apply Z.eqb_eq in H. subst. eauto.
Qed.

Lemma ach_sweep_inv : forall g s d es acc,
  (forall u v w, In (u, v, w) es -> wedge g u v w) ->
  ach_inv g s d acc -> ach_inv g s d (ach_sweep d es acc).
Proof.
  intros g s d es. unfold ach_sweep. induction es as [|[[u v] w] es IH]; intros acc Hes Hinv; cbn [fold_left].
  - exact Hinv.
  - apply IH; [intros; apply Hes; right; assumption|].
    unfold ach_add. destruct (tight_entry d (u, v, w) && memn u acc && negb (memn v acc)) eqn:E; [|exact Hinv].
    apply andb_true_iff in E. destruct E as [E _]. apply andb_true_iff in E. destruct E as [Et Eu].
    apply tight_entry_spec in Et. destruct Et as [a [Hu Hv]]. apply memn_In in Eu.
    intros v' [<- | Hin]; [|apply Hinv; exact Hin].
    destruct (Hinv _ Eu) as [x [p [Hx Hw]]]. rewrite Hu in Hx. inversion Hx; subst.
    exists (x + w), (p ++ [v]). split; [exact Hv|]. eapply walk_snoc; eauto. apply Hes. left. reflexivity.
Qed.

Lemma ach_iter_inv : forall g s d es k acc,
  (forall u v w, In (u, v, w) es -> wedge g u v w) ->
  ach_inv g s d acc -> ach_inv g s d (ach_iter k d es acc).
Proof.
  intros g s d es. induction k as [|k IH]; intros acc Hes Hinv; cbn [ach_iter]; [exact Hinv|].
  apply IH; [exact Hes|]. apply ach_sweep_inv; assumption.
Qed.

Lemma check_dist_cert : forall g s d, check_dist g s d = true -> dist_cert g s d.
Proof.
  intros g s d H. unfold check_dist in H.
  repeat (apply andb_true_iff in H; destruct H as [H ?]).
  rename H0 into Hach, H1 into Hfeas, H2 into Hs0, H3 into Hs. apply Nat.eqb_eq in H.
  apply Nat.ltb_lt in Hs. apply oz_eqb_eq in Hs0.
  split; try assumption.
  - intros u v w a He Hu. apply in_entries in He. rewrite forallb_forall in Hfeas.
    specialize (Hfeas _ He). cbn in Hfeas. rewrite Hu in Hfeas.
    destruct (dget d v) as [b|]; [|discriminate]. exists b. split; [reflexivity|]. apply Z.leb_le. exact Hfeas.
  - intros v x Hv. rewrite forallb_forall in Hach.
    assert (Hlt : (v < length g)%nat) by (rewrite <- H; eapply dget_lt; eauto).
    assert (Hin : In v (seq 0 (length g))) by (apply in_seq; lia).
    specialize (Hach _ Hin). rewrite Hv in Hach. apply memn_In in Hach.
    assert (Hinv : ach_inv g s d (ach_iter (length g) d (entries g) [s])).
    { apply ach_iter_inv.
      - intros; apply in_entries; assumption.
      - intros v' [<- | []]. exists 0, [s]. split; [exact Hs0 | constructor; exact Hs]. }
    destruct (Hinv _ Hach) as [x' [p [Hx' Hw]]]. rewrite Hv in Hx'. inversion Hx'; subst. eauto.
Qed.

(* every walk from s is at least as long as the certified value *)
Lemma cert_lower : forall g s d, dist_cert g s d ->
  forall t p x, walk g s t p x -> exists b, dget d t = Some b /\ b <= x.
Proof.
  intros g s d C t p x H. induction H as [Hs | u v w p x Hw [a [Ha Hle]] He].
  - exists 0. split; [apply (dc_s0 _ _ _ C) | lia].
  - destruct (dc_feas _ _ _ C _ _ _ _ He Ha) as [b [Hb Hb2]]. exists b. split; [exact Hb | lia].
Qed.

Theorem cert_is_dist : forall g s d, dist_cert g s d ->
  forall t, (forall x, dget d t = Some x -> is_dist g s t x) /\
            (dget d t = None -> ~ reach g s t).
Proof.
  intros g s d C t. split.
  - intros x Hx. split; [apply (dc_ach _ _ _ C); exact Hx|].
    intros p d' Hw. destruct (cert_lower _ _ _ C _ _ _ Hw) as [b [Hb Hle]].
    rewrite Hx in Hb. inversion Hb; subst. exact Hle.
  - intros Hn [p [x Hw]]. destruct (cert_lower _ _ _ C _ _ _ Hw) as [b [Hb _]]. congruence.
Qed.

Theorem check_dist_sound : forall g s d, check_dist g s d = true ->
  forall t, (forall x, dget d t = Some x -> is_dist g s t x) /\
            (dget d t = None -> ~ reach g s t).
Proof. intros g s d H. apply cert_is_dist. apply check_dist_cert. exact H. Qed.

Lemma cert_dist_inv : forall g s d, dist_cert g s d ->
  forall t x, is_dist g s t x -> dget d t = Some x.
Proof.
  intros g s d C t x Hd. destruct Hd as [[p Hp] L].
  destruct (cert_lower _ _ _ C _ _ _ Hp) as [b [Hb Hle]].
  destruct (dc_ach _ _ _ C _ _ Hb) as [q Hq]. specialize (L _ _ Hq).
  assert (b = x) by lia. subst. exact Hb.
Qed.

(* ------------------------------------------------- tight paths *)
Lemma tight_b_spec : forall g d u t, tight_b g d u t = true <->
  exists w a, wedge g u t w /\ dget d u = Some a /\ dget d t = Some (a + w).
Proof.
  intros g d u t. unfold tight_b, wedge. split.
  - destruct (nth_error g u) as [row|] eqn:E; [|discriminate]. intros H.
    apply existsb_exists in H. destruct H as [[v w] [Hin H]]. cbn [fst snd] in H.
    apply andb_true_iff in H. destruct H as [Hv Ht]. apply Nat.eqb_eq in Hv. subst v.
    apply tight_entry_spec in Ht. destruct Ht as [a [Ha Hb]]. exists w, a. split; [|auto].
    exists row. auto.
  - intros [w [a [[row [Hn Hin]] [Ha Hb]]]]. rewrite Hn. apply existsb_exists.
    exists (t, w). split; [exact Hin|]. cbn [fst snd]. rewrite Nat.eqb_refl. cbn.
    rewrite Ha, Hb. apply Z.eqb_refl.
Qed.

Lemma sp_rev_sound : forall g s d, dist_cert g s d ->
  forall rp l x, sp_rev_b g d s l rp = true -> dget d l = Some x ->
                 walk g s l (rev rp ++ [l]) x.
Proof.
  intros g s d C. induction rp as [|u rp IH]; intros l x H Hx; cbn [sp_rev_b] in H.
  - apply Nat.eqb_eq in H. subst l. rewrite (dc_s0 _ _ _ C) in Hx. inversion Hx; subst.
    cbn. constructor. apply (dc_s _ _ _ C).
  - apply andb_true_iff in H. destruct H as [Ht Hr]. apply tight_b_spec in Ht.
    destruct Ht as [w [a [He [Ha Hb]]]]. rewrite Hx in Hb. inversion Hb; subst.
    cbn [rev]. eapply walk_snoc; [|exact He]. apply IH; assumption.
Qed.

Lemma sp_path_sound : forall g s d, dist_cert g s d ->
  forall t p x, sp_path_b g d s t p = true -> dget d t = Some x -> walk g s t p x.
Proof.
  intros g s d C t p x H Hx. unfold sp_path_b in H. destruct (rev p) as [|l rp] eqn:E; [discriminate|].
  apply andb_true_iff in H. destruct H as [Hl Hr]. apply Nat.eqb_eq in Hl. subst l.
  assert (p = rev rp ++ [t]).
  { rewrite <- (rev_involutive p). rewrite E. reflexivity. }
  subst p. eapply sp_rev_sound; eauto.
Qed.

Lemma sp_path_SP : forall g s d, dist_cert g s d ->
  forall t p x, sp_path_b g d s t p = true -> dget d t = Some x -> SP g s t p.
Proof.
  intros g s d C t p x H Hx. exists x. split.
  - apply (cert_is_dist _ _ _ C t). exact Hx.
  - eapply sp_path_sound; eauto.
Qed.

(* ------------------------------------------------- the enumeration *)
Lemma asp_sound : forall g s d, dist_cert g s d ->
  forall fuel t p, In p (asp fuel g d s t) -> exists x, dget d t = Some x /\ walk g s t p x.
Proof.
  intros g s d C. induction fuel as [|f IH]; intros t p H; cbn [asp] in H;
    destruct (Nat.eqb t s) eqn:Ets.
  - apply Nat.eqb_eq in Ets. subst. destruct H as [<- | []].
    exists 0. split; [apply (dc_s0 _ _ _ C) | constructor; apply (dc_s _ _ _ C)].
  - destruct H.
  - apply Nat.eqb_eq in Ets. subst. destruct H as [<- | []].
    exists 0. split; [apply (dc_s0 _ _ _ C) | constructor; apply (dc_s _ _ _ C)].
  - apply in_flat_map in H. destruct H as [u [_ H]].
    destruct (tight_b g d u t) eqn:Et; [|destruct H].
    apply in_map_iff in H. destruct H as [p' [<- Hp']].
    apply tight_b_spec in Et. destruct Et as [w [a [He [Ha Hb]]]].
    destruct (IH _ _ Hp') as [x' [Hx' Hw']]. rewrite Ha in Hx'. inversion Hx'; subst.
    exists (x' + w). split; [exact Hb|]. eapply walk_snoc; eauto.
Qed.

Lemma asp_complete : forall g s d, dist_cert g s d -> positive g ->
  forall fuel t p x, walk g s t p x -> dget d t = Some x -> (Z.to_nat x < fuel)%nat ->
                     In p (asp fuel g d s t).
Proof.
  intros g s d C Hpos. assert (Hnn := positive_nonneg _ Hpos).
  induction fuel as [|f IH]; intros t p x Hw Hx Hf; [lia|].
  cbn [asp]. destruct (Nat.eqb t s) eqn:Ets.
  - apply Nat.eqb_eq in Ets. subst t. rewrite (dc_s0 _ _ _ C) in Hx. inversion Hx; subst x.
    inversion Hw as [Hs | u v w p0 d0 Hw0 He]; subst.
    + left. reflexivity.
    + assert (0 <= d0) by (eapply walk_nonneg; eauto). specialize (Hpos _ _ _ He). lia.
  - apply Nat.eqb_neq in Ets.
    inversion Hw as [Hs | u v w p0 d0 Hw0 He]; subst; [congruence|].
    destruct (cert_lower _ _ _ C _ _ _ Hw0) as [a [Ha Hle]].
    destruct (dc_feas _ _ _ C _ _ _ _ He Ha) as [b [Hb Hb2]].
    rewrite Hx in Hb. inversion Hb; subst b.
    assert (a = d0) by lia. subst a.
    assert (Hw0pos := Hpos _ _ _ He).
    assert (0 <= d0) by (eapply walk_nonneg; eauto).
    apply in_flat_map. exists u. split.
    + apply in_seq. apply wedge_lt in He. lia.
    + assert (Et : tight_b g d u t = true).
      { apply tight_b_spec. exists w, d0. auto. }
      rewrite Et. apply in_map_iff. exists p0. split; [reflexivity|]. eapply IH; eauto. lia.
Qed.

(* ------------------------------------------------- check_result is sound *)
Lemma positive_b_positive : forall g, positive_b g = true -> positive g.
Proof.
  intros g H u v w He. apply in_entries in He. unfold positive_b in H.
  rewrite forallb_forall in H. specialize (H _ He). cbn in H. apply Z.ltb_lt. exact H.
Qed.

Lemma positive_positive_b : forall g, positive g -> positive_b g = true.
Proof.
  intros g H. unfold positive_b. apply forallb_forall. intros [[u v] w] He.
  apply in_entries in He. cbn. apply Z.ltb_lt. eapply H; eauto.
Qed.

Lemma nonneg_b_nonneg : forall g, nonneg_b g = true -> nonneg g.
Proof.
  intros g H u v w He. apply in_entries in He. unfold nonneg_b in H.
  rewrite forallb_forall in H. specialize (H _ He). cbn in H. apply Z.leb_le. exact H.
Qed.

Lemma result_ok_sound : forall g s t c fo wp r, result_ok g s t c fo wp r -> result_sound g s t c fo wp r.
Proof.
  intros g s t c fo wp r [H1 [H2 H3]]. split; [exact H1|]. split; [|exact H3].
  intros [v [x ps]] Hin. specialize (H2 _ Hin). cbn in H2 |- *.
  destruct H2 as [Hd [Hc [Hn Hp]]]. split; [exact Hd|]. split; [exact Hc|]. split; [exact Hn|].
  intros Hwp. destruct (Hp Hwp) as [Hs [Ho _]]. auto.
Qed.

Lemma check_entry_ok : forall g s d cutoff fo wp e, dist_cert g s d ->
  check_entry g d s cutoff fo wp e = true -> entry_ok g s cutoff fo wp e.
Proof.
  intros g s d cutoff fo wp [v [x ps]] C H. unfold check_entry in H.
  apply andb_true_iff in H. destruct H as [H Hp]. apply andb_true_iff in H. destruct H as [Hd Hc].
  apply oz_eqb_eq in Hd. apply within_b_within in Hc.
  unfold entry_ok. split; [apply (cert_is_dist _ _ _ C v); exact Hd|]. split; [exact Hc|].
  destruct wp.
  - split; [discriminate|]. intros _. apply andb_true_iff in Hp. destruct Hp as [Hs Hrest].
    rewrite forallb_forall in Hs. split; [|split].
    + intros p Hin. eapply sp_path_SP; eauto.
    + intros ->. apply Nat.eqb_eq. exact Hrest.
    + intros -> Hpos. rewrite (positive_positive_b _ Hpos) in Hrest.
      apply andb_true_iff in Hrest. destruct Hrest as [Hnd Hall]. split; [apply nodup_pb_NoDup; exact Hnd|].
      intros p [x' [Hx' Hw]]. rewrite forallb_forall in Hall. apply memp_In. apply Hall.
      assert (x' = x).
      { eapply is_dist_unique; eauto. apply (cert_is_dist _ _ _ C v). exact Hd. }
      subst x'. eapply asp_complete; eauto.
  - split; [|discriminate]. intros _. destruct ps; [reflexivity|discriminate].
Qed.

Theorem check_result_sound : forall g s d target cutoff fo wp r,
  check_dist g s d = true ->
  check_result g d s target cutoff fo wp r = true ->
  result_ok g s target cutoff fo wp r.
Proof.
  intros g s d target cutoff fo wp r Hd H. apply check_dist_cert in Hd. rename Hd into C.
  unfold check_result in H. apply andb_true_iff in H. destruct H as [H Ht].
  apply andb_true_iff in H. destruct H as [Hk He].
  unfold result_ok. split; [apply nodup_nb_NoDup; exact Hk|]. split.
  - intros e Hin. rewrite forallb_forall in He. eapply check_entry_ok; eauto.
  - assert (R : forall v x, reported_b d cutoff (map fst r) v = true ->
                            is_dist g s v x -> within cutoff x -> In v (map fst r)).
    { intros v x Hr Hx Hw. unfold reported_b in Hr.
      rewrite (cert_dist_inv _ _ _ C _ _ Hx) in Hr.
      apply within_b_within in Hw. rewrite Hw in Hr. apply memn_In. exact Hr. }
    destruct target as [t|].
    + intros x. apply R. exact Ht.
    + intros v x Hx. apply R; [|exact Hx]. rewrite forallb_forall in Ht. apply Ht.
      apply in_seq. rewrite <- (dc_len _ _ _ C).
      assert (Hv := cert_dist_inv _ _ _ C _ _ Hx). apply dget_lt in Hv. lia.
Qed.

(* ------------------------------------------------- the hypotheses are satisfiable *)
Definition ex_g : wgraph := [[(1%nat, 1); (2%nat, 2)]; [(3%nat, 2)]; [(3%nat, 1)]; []; [(4%nat, 5)]].
Definition ex_d : dvec := [Some 0; Some 1; Some 2; Some 3; None].
Definition ex_r : answer :=
  [(0%nat, (0, [[0%nat]])); (1%nat, (1, [[0;1]%nat])); (2%nat, (2, [[0;2]%nat]));
   (3%nat, (3, [[0;1;3]%nat; [0;2;3]%nat]))].

Example check_dist_nonvacuous : check_dist ex_g 0 ex_d = true.
Proof. vm_compute. reflexivity. Qed.
Example check_result_nonvacuous : check_result ex_g ex_d 0 None None false true ex_r = true.
Proof. vm_compute. reflexivity. Qed.
Example positive_nonvacuous : positive ex_g.
Proof. apply positive_b_positive. vm_compute. reflexivity. Qed.
Example check_result_rejects_missing_path :
  check_result ex_g ex_d 0 None None false true
    [(0%nat, (0, [[0%nat]])); (1%nat, (1, [[0;1]%nat])); (2%nat, (2, [[0;2]%nat]));
     (3%nat, (3, [[0;1;3]%nat]))] = false.
Proof. vm_compute. reflexivity. Qed.
Example check_dist_rejects_wrong : check_dist ex_g 0 [Some 0; Some 1; Some 2; Some 4; None] = false.
Proof. vm_compute. reflexivity. Qed.

(* ------------------------------------------------- C08: options restrict, never change.
   Two answers for the same source, one unrestricted with all paths ([r0]), one
   with options ([r]), both meeting the per-call statement, are related as the
   property says — pure consequence of the definitions. *)
Lemma result_ok_entry : forall g s t c fo wp r e,
  result_ok g s t c fo wp r -> In e r -> entry_ok g s c fo wp e.
Proof. intros g s t c fo wp r e [_ [H _]] Hin. apply H. exact Hin. Qed.

Theorem options_restrict_never_change : forall g s t c fo wp r0 r v x ps,
  result_ok g s None None false true r0 ->
  result_ok g s t c fo wp r ->
  In (v, (x, ps)) r ->
  within c x /\
  exists ps0, In (v, (x, ps0)) r0 /\
    (wp = false -> ps = []) /\
    (wp = true -> fo = true -> exists p, ps = [p] /\ (positive g -> In p ps0)) /\
    (wp = true -> fo = false -> positive g -> forall p, In p ps <-> In p ps0).
Proof.
  intros g s t c fo wp r0 r v x ps H0 H Hin.
  assert (E := result_ok_entry _ _ _ _ _ _ _ _ H Hin). cbn in E.
  destruct E as [Hd [Hc [Hnp Hp]]]. split; [exact Hc|].
  destruct H0 as [_ [He0 Hrep0]]. cbn in Hrep0.
  assert (Hk : In v (map fst r0)) by (eapply Hrep0; [exact Hd | exact I]).
  apply in_map_iff in Hk. destruct Hk as [[v' [x0 ps0]] [Hv Hin0]]. cbn in Hv. subst v'.
  assert (E0 := He0 _ Hin0). cbn in E0. destruct E0 as [Hd0 [_ [_ Hp0]]].
  assert (x0 = x) by (eapply is_dist_unique; eauto). subst x0.
  destruct (Hp0 eq_refl) as [Hs0 [_ Hc0]].
  exists ps0. split; [exact Hin0|]. split; [exact Hnp|]. split.
  - intros Hwp Hfo. destruct (Hp Hwp) as [Hs [Hone _]]. specialize (Hone Hfo).
    destruct ps as [|p [|q ps]]; try discriminate. exists p. split; [reflexivity|].
    intros Hpos. apply (Hc0 eq_refl Hpos). apply Hs. left. reflexivity.
  - intros Hwp Hfo Hpos p. destruct (Hp Hwp) as [Hs [_ Hall]]. destruct (Hall Hfo Hpos) as [_ Hcomp].
    split; intros Hi.
    + apply (Hc0 eq_refl Hpos). apply Hs. exact Hi.
    + apply Hcomp. apply Hs0. exact Hi.
Qed.

(* a cutoff (no target) reports exactly the nodes at distance <= c; a target is
   reported iff it is reachable within the cutoff *)
Theorem cutoff_exact : forall g s c fo wp r v,
  result_ok g s None c fo wp r ->
  (In v (map fst r) <-> exists x, is_dist g s v x /\ within c x).
Proof.
  intros g s c fo wp r v [_ [He Hrep]]. split.
  - intros Hin. apply in_map_iff in Hin. destruct Hin as [[v' [x ps]] [Hv Hin]]. cbn in Hv. subst v'.
    specialize (He _ Hin). cbn in He. destruct He as [Hd [Hc _]]. eauto.
  - intros [x [Hd Hc]]. eapply Hrep; eauto.
Qed.

Theorem target_reported : forall g s t c fo wp r,
  result_ok g s (Some t) c fo wp r ->
  (In t (map fst r) <-> exists x, is_dist g s t x /\ within c x).
Proof.
  intros g s t c fo wp r [_ [He Hrep]]. split.
  - intros Hin. apply in_map_iff in Hin. destruct Hin as [[v' [x ps]] [Hv Hin]]. cbn in Hv. subst v'.
    specialize (He _ Hin). cbn in He. destruct He as [Hd [Hc _]]. eauto.
  - intros [x [Hd Hc]]. eapply Hrep; eauto.
Qed.

(* reported iff reachable, for the unrestricted search *)
Theorem reported_iff_reachable : forall g s fo wp r v,
  result_ok g s None None fo wp r -> (exists d, check_dist g s d = true) ->
  (In v (map fst r) <-> reach g s v).
Proof.
  intros g s fo wp r v H [d Hd]. rewrite (cutoff_exact _ _ _ _ _ _ v H). split.
  - intros [x [Hx _]]. eapply is_dist_reach; eauto.
  - intros Hr. destruct (check_dist_sound _ _ _ Hd v) as [H1 H2].
    destruct (dget d v) as [x|] eqn:E.
    + exists x. split; [apply H1; reflexivity | exact I].
    + exfalso. apply H2; auto.
Qed.
