(* Facts about the spec-level mutation ladder (property C01, sentence by sentence). *)
From Coq Require Import List Bool ZArith Lia.
From GV Require Import Base.Outcome Base.AMap Model.GState Spec.AGraph.
Import ListNotations.

Section SpecOpsOk.
  Context {T A : Type}.
  Variable teqb : T -> T -> bool.
  Variable tltb : T -> T -> bool.
  Hypothesis teqb_spec : forall x y, teqb x y = true <-> x = y.

  Notation node := (node T A).
  Notation edge := (edge T A).
  Notation agraph := (agraph T A).
  Notation add_edge := (@spec_add_edge T A teqb tltb).
  Notation add_edges := (@spec_add_edges T A teqb tltb).
  Notation add_node := (@spec_add_node T A teqb).
  Implicit Types (a : agraph) (e : edge) (n m : node) (es : list edge).

  (* --- "A call that returns an error leaves the graph exactly as it was" --- *)
  Lemma spec_add_edge_error_noop a e a' k :
    add_edge a e = (a', Err k) -> a' = a.
  Proof.
    unfold spec_add_edge.
    destruct (negb (selfloops (a_sp a)) && teqb (eu e) (ev e)).
    { destruct (slf (a_sp a)); intros H; inversion H; reflexivity. }
    destruct ((match ms (a_sp a) with MErr => true | MCreate => false end)
              && negb (a_has teqb a (eu e) && a_has teqb a (ev e))).
    { intros H; inversion H; reflexivity. }
    destruct (multi (a_sp a)).
    { intros H; inversion H. }
    destruct (existsb _ _).
    - destruct (dd (a_sp a)); intros H; inversion H; reflexivity.
    - intros H; inversion H.
  Qed.

  (* the only error kinds are the three named by the property *)
  Lemma spec_add_edge_error_kinds a e a' k :
    add_edge a e = (a', Err k) ->
    k = SelfLoopsFound \/ k = NodeNotFound \/ k = DuplicateEdge.
  Proof.
    unfold spec_add_edge.
    destruct (negb (selfloops (a_sp a)) && teqb (eu e) (ev e)).
    { destruct (slf (a_sp a)); intros H; inversion H; auto. }
    destruct ((match ms (a_sp a) with MErr => true | MCreate => false end)
              && negb (a_has teqb a (eu e) && a_has teqb a (ev e))).
    { intros H; inversion H; auto. }
    destruct (multi (a_sp a)).
    { intros H; inversion H. }
    destruct (existsb _ _).
    - destruct (dd (a_sp a)); intros H; inversion H; auto.
    - intros H; inversion H.
  Qed.

  Lemma spec_add_edge_no_panic a e :
    is_panic (snd (add_edge a e)) = false /\ is_fuel (snd (add_edge a e)) = false.
  Proof.
    unfold spec_add_edge.
    destruct (negb (selfloops (a_sp a)) && teqb (eu e) (ev e)).
    { destruct (slf (a_sp a)); simpl; auto. }
    destruct ((match ms (a_sp a) with MErr => true | MCreate => false end)
              && negb (a_has teqb a (eu e) && a_has teqb a (ev e))).
    { simpl; auto. }
    destruct (multi (a_sp a)); [simpl; auto|].
    destruct (existsb _ _); [destruct (dd (a_sp a))|]; simpl; auto.
  Qed.

  (* --- self-loop policy --- *)
  Lemma spec_selfloop_policy a e :
    selfloops (a_sp a) = false -> eu e = ev e ->
    add_edge a e = (a, match slf (a_sp a) with SErr => Err SelfLoopsFound | SDrop => Ok tt end).
  Proof.
    intros Hs He. unfold spec_add_edge. rewrite Hs. simpl.
    assert (teqb (eu e) (ev e) = true) as -> by (apply teqb_spec; exact He).
    reflexivity.
  Qed.

  (* a self-loop is stored when the specs allow self-loops (multi-edge graph) *)
  Lemma spec_selfloop_stored a e :
    selfloops (a_sp a) = true -> multi (a_sp a) = true ->
    ms (a_sp a) = MCreate ->
    exists a', add_edge a e = (a', Ok tt) /\
               a_edges a' = a_edges a ++ [canon tltb (a_sp a) e].
  Proof.
    intros Hs Hm Hc. unfold spec_add_edge. rewrite Hs, Hm, Hc. simpl.
    eexists; split; [reflexivity|].
    simpl. unfold ensure_node, spec_add_node.
    repeat (match goal with |- context [if ?b then _ else _] => destruct b end; simpl); reflexivity.
  Qed.

  (* --- missing-node policy --- *)
  Lemma spec_missing_error a e :
    ms (a_sp a) = MErr ->
    (negb (selfloops (a_sp a)) && teqb (eu e) (ev e)) = false ->
    (a_has teqb a (eu e) && a_has teqb a (ev e)) = false ->
    add_edge a e = (a, Err NodeNotFound).
  Proof.
    intros Hm Hs Hh. unfold spec_add_edge. rewrite Hs, Hm, Hh. reflexivity.
  Qed.

  Lemma a_has_app (a : agraph) x (n : node) :
    a_has teqb (mka (a_sp a) (a_nodes a ++ [n]) (a_edges a)) x = a_has teqb a x || teqb (nname n) x.
  Proof.
    unfold a_has; simpl. rewrite existsb_app. simpl. rewrite orb_false_r. reflexivity.
  Qed.

  (* unknown endpoints are created, source first, with no attributes *)
  Lemma ensure_nodes_source_first a u v :
    a_has teqb a u = false -> a_has teqb a v = false -> u <> v ->
    a_nodes (ensure_node teqb (ensure_node teqb a u) v)
    = a_nodes a ++ [mknode u None; mknode v None].
  Proof.
    intros Hu Hv Hne.
    assert (E1 : ensure_node teqb a u = mka (a_sp a) (a_nodes a ++ [mknode u None]) (a_edges a)).
    { unfold ensure_node. rewrite Hu. unfold spec_add_node. simpl. rewrite Hu. reflexivity. }
    rewrite E1. unfold ensure_node. rewrite a_has_app, Hv. simpl.
    destruct (teqb u v) eqn:E. { apply teqb_spec in E. contradiction. }
    unfold spec_add_node. simpl. rewrite a_has_app. simpl. rewrite Hv, E. simpl.
    rewrite <- app_assoc. reflexivity.
  Qed.

  Lemma ensure_node_existing a x : a_has teqb a x = true -> ensure_node teqb a x = a.
  Proof. intros H. unfold ensure_node. rewrite H. reflexivity. Qed.

  (* --- duplicate policy on a single-edge graph --- *)
  Lemma spec_duplicate_policy a e :
    let s := a_sp a in
    multi s = false ->
    (negb (selfloops s) && teqb (eu e) (ev e)) = false ->
    a_has teqb a (eu e) = true -> a_has teqb a (ev e) = true ->
    existsb (same_pair teqb (canon tltb s e)) (a_edges a) = true ->
    add_edge a e =
    match dd s with
    | DErr => (a, Err DuplicateEdge)
    | DKeepFirst => (a, Ok tt)
    | DKeepLast => (mka s (a_nodes a)
                        (filter (fun x => negb (same_pair teqb (canon tltb s e) x)) (a_edges a)
                                ++ [canon tltb s e]), Ok tt)
    end.
  Proof.
    intros s Hm Hs Hu Hv Hd. unfold spec_add_edge. fold s. rewrite Hs, Hm, Hu, Hv. simpl.
    rewrite andb_false_r.
    rewrite (ensure_node_existing a (eu e) Hu), (ensure_node_existing a (ev e) Hv), Hd.
    destruct (dd s); reflexivity.
  Qed.

  (* on a multi-edge graph a second edge between the same endpoints is appended *)
  Lemma spec_multi_appends a e :
    let s := a_sp a in
    multi s = true ->
    (negb (selfloops s) && teqb (eu e) (ev e)) = false ->
    a_has teqb a (eu e) = true -> a_has teqb a (ev e) = true ->
    add_edge a e = (mka s (a_nodes a) (a_edges a ++ [canon tltb s e]), Ok tt).
  Proof.
    intros s Hm Hs Hu Hv. unfold spec_add_edge. fold s. rewrite Hs, Hm, Hu, Hv. simpl.
    rewrite andb_false_r.
    rewrite (ensure_node_existing a (eu e) Hu), (ensure_node_existing a (ev e) Hv). reflexivity.
  Qed.

  (* undirected graphs: both orientations name the same stored pair *)
  Hypothesis tltb_irrefl : forall x, tltb x x = false.
  Hypothesis tltb_asym : forall x y, tltb x y = true -> tltb y x = false.
  Hypothesis tltb_total : forall x y, tltb x y = false -> tltb y x = false -> x = y.

  Lemma canon_orientation_irrelevant s e :
    directed s = false ->
    same_pair teqb (canon tltb s e) (canon tltb s (a_reversed e)) = true.
  Proof.
    intros Hd. unfold canon, same_pair, a_reversed. rewrite Hd. simpl.
    destruct (tltb (ev e) (eu e)) eqn:E1; destruct (tltb (eu e) (ev e)) eqn:E2; simpl.
    - apply tltb_asym in E1. congruence.
    - apply andb_true_intro; split; apply teqb_spec; reflexivity.
    - apply andb_true_intro; split; apply teqb_spec; reflexivity.
    - pose proof (tltb_total _ _ E1 E2) as H. rewrite H.
      apply andb_true_intro; split; apply teqb_spec; reflexivity.
  Qed.

  (* --- re-adding an existing node keeps its position and replaces its attributes --- *)
  Lemma spec_readd_keeps_names a n :
    map nname (a_nodes (add_node a n)) =
    if a_has teqb a (nname n) then map nname (a_nodes a) else map nname (a_nodes a) ++ [nname n].
  Proof.
    unfold spec_add_node. destruct (a_has teqb a (nname n)); simpl.
    - rewrite map_map. apply map_ext_in. intros m _.
      destruct (teqb (nname m) (nname n)) eqn:E; [|reflexivity].
      apply teqb_spec in E. symmetry; exact E.
    - rewrite map_app. reflexivity.
  Qed.

  Lemma spec_readd_replaces a n i m :
    a_has teqb a (nname n) = true ->
    nth_error (a_nodes a) i = Some m ->
    nth_error (a_nodes (add_node a n)) i = Some (if teqb (nname m) (nname n) then n else m).
  Proof.
    intros H Hn. unfold spec_add_node. rewrite H. simpl.
    rewrite nth_error_map, Hn. reflexivity.
  Qed.

  Lemma spec_add_node_edges a n : a_edges (add_node a n) = a_edges a.
  Proof. unfold spec_add_node. destruct (a_has teqb a (nname n)); reflexivity. Qed.

  (* --- a batch add applies exactly the prefix that precedes the first failing edge --- *)
  Fixpoint apply_ok (a : agraph) (es : list edge) : agraph :=
    match es with [] => a | e :: t => apply_ok (fst (add_edge a e)) t end.

  Lemma spec_batch_prefix es : forall a a' k,
    add_edges a es = (a', Err k) ->
    exists p e rest,
      es = p ++ e :: rest /\
      a' = apply_ok a p /\
      (forall q x q', p = q ++ x :: q' -> snd (add_edge (apply_ok a q) x) = Ok tt) /\
      add_edge a' e = (a', Err k).
  Proof.
    induction es as [|e es IH]; intros a a' k H; simpl in H.
    - inversion H.
    - destruct (add_edge a e) as [a1 r1] eqn:E1. destruct r1 as [u|k1|s1|].
      + destruct u. apply IH in H. destruct H as (p & e' & rest & Hes & Ha' & Hall & Hfail).
        exists (e :: p), e', rest. repeat split.
        * simpl. rewrite Hes. reflexivity.
        * simpl. rewrite E1. simpl. exact Ha'.
        * intros q x q' Hq. destruct q as [|y q]; simpl in Hq; inversion Hq; subst.
          -- simpl. rewrite E1. reflexivity.
          -- simpl. rewrite E1. simpl. eapply Hall. reflexivity.
        * exact Hfail.
      + inversion H; subst.
        pose proof (spec_add_edge_error_noop _ _ _ _ E1) as Hn. subst a'.
        exists [], e, es. repeat split.
        * intros q x q' Hq. destruct q; inversion Hq.
        * exact E1.
      + inversion H.
      + inversion H.
  Qed.

  Lemma spec_batch_ok es : forall a a',
    add_edges a es = (a', Ok tt) -> a' = apply_ok a es.
  Proof.
    induction es as [|e es IH]; intros a a' H; simpl in H.
    - inversion H. reflexivity.
    - destruct (add_edge a e) as [a1 r1] eqn:E1. destruct r1 as [u|k1|s1|]; try (inversion H; fail).
      simpl. rewrite E1. simpl. apply IH. exact H.
  Qed.
End SpecOpsOk.
