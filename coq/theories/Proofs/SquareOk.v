(* C11: the MODEL of `square_clustering` on an UNDIRECTED graph equals Lind's coefficient
   ([square_def] of Spec/ClusterDef.v) over the adjacency of the EDGE LIST ([edge_adjb]),
   for every coherent (WF) graph state and every node; the computation never fails on a node. *)
From Coq Require Import String List Bool Arith ZArith QArith Lia Permutation.
From GV Require Import Base.Outcome Base.AMap Model.GState Model.Creation Model.Query
     Model.Components Model.Cluster Model.Square
     Spec.ReachDef Spec.CompSpec Spec.EdgeAdj Spec.ClusterDef Spec.ClusterSpec.
From GV Require Import Proofs.AMapOk Proofs.WFDefs Proofs.WFNode Proofs.WFAdj Proofs.WFEdge Proofs.Refine
     Proofs.AdjOk Proofs.QueryOk Proofs.ReachOk Proofs.ComponentsOk Proofs.CompWF
     Proofs.ClusterDefOk Proofs.ClusterOk Proofs.ClusterEqOk Proofs.ClusterDirOk Proofs.ClusterRangeOk.
Import ListNotations.
Close Scope Q_scope.

(* ---------------- sums over the unordered pairs of a list are permutation invariant -------- *)
Definition zsum {X} (h : X -> Z) (l : list X) : Z := fold_right (fun x a => (h x + a)%Z) 0%Z l.

Lemma zsum_perm : forall {X} (h : X -> Z) l l', Permutation l l' -> zsum h l = zsum h l'.
Proof. intros X h l l' H. induction H; unfold zsum in *; cbn [fold_right]; lia. Qed.

Lemma zsum_app : forall {X} (h : X -> Z) l1 l2, zsum h (l1 ++ l2) = (zsum h l1 + zsum h l2)%Z.
Proof. intros X h l1 l2. induction l1 as [ | x t IH ]; unfold zsum in *; cbn [fold_right app]; [lia | rewrite IH; lia]. Qed.

Lemma zsum_map : forall {X Y} (h : Y -> Z) (k : X -> Y) l, zsum h (map k l) = zsum (fun x => h (k x)) l.
Proof. intros X Y h k l. induction l as [ | x t IH ]; unfold zsum in *; cbn [fold_right map]; [reflexivity | rewrite IH; reflexivity]. Qed.

Lemma zsum_ext_in : forall {X} (h1 h2 : X -> Z) l, (forall x, In x l -> h1 x = h2 x) -> zsum h1 l = zsum h2 l.
Proof.
  intros X h1 h2 l H. induction l as [ | x t IH ]; [reflexivity | ]. unfold zsum in *. cbn [fold_right].
  rewrite (H x (or_introl eq_refl)), IH; [reflexivity | ]. intros y Hy. apply H. cbn. tauto.
Qed.

Lemma zsum_cons : forall {X} (h : X -> Z) x t, zsum h (x :: t) = (h x + zsum h t)%Z.
Proof. reflexivity. Qed.
Lemma sumf_cons : forall {X} (h : X -> nat) x t, sumf h (x :: t) = h x + sumf h t.
Proof. reflexivity. Qed.

Lemma pairs_zsum_perm : forall {X} (f : X -> X -> Z), (forall a b, f a b = f b a) ->
  forall l l', Permutation l l' ->
  zsum (fun p => f (fst p) (snd p)) (ClusterDef.pairs l) = zsum (fun p => f (fst p) (snd p)) (ClusterDef.pairs l').
Proof.
  intros X f Hs l l' H. induction H as [ | x l l' H IH | x y l | l l' l'' H1 IH1 H2 IH2 ].
  - reflexivity.
  - cbn [ClusterDef.pairs]. rewrite !zsum_app, !zsum_map, IH. cbn [fst snd]. rewrite (zsum_perm _ _ _ H). reflexivity.
  - cbn [ClusterDef.pairs map]. rewrite !zsum_app, !zsum_cons, ?zsum_app, !zsum_map. cbn [fst snd]. rewrite (Hs x y). lia.
  - rewrite IH1. exact IH2.
Qed.

Lemma pairs_sumf_perm : forall {X} (f : X -> X -> nat), (forall a b, f a b = f b a) ->
  forall l l', Permutation l l' ->
  sumf (fun p => f (fst p) (snd p)) (ClusterDef.pairs l) = sumf (fun p => f (fst p) (snd p)) (ClusterDef.pairs l').
Proof.
  intros X f Hs l l' H. induction H as [ | x l l' H IH | x y l | l l' l'' H1 IH1 H2 IH2 ].
  - reflexivity.
  - cbn [ClusterDef.pairs]. rewrite !sumf_app, !sumf_map, IH. cbn [fst snd]. rewrite (sumf_perm _ _ _ H). reflexivity.
  - cbn [ClusterDef.pairs map]. rewrite !sumf_app, !sumf_cons, ?sumf_app, !sumf_map. cbn [fst snd]. rewrite (Hs x y). lia.
  - rewrite IH1. exact IH2.
Qed.

Lemma square_pairs_eq : forall {X} (l : list X), Square.pairs l = ClusterDef.pairs l.
Proof. intros X l. induction l as [ | x t IH ]; [reflexivity | ]. cbn [Square.pairs ClusterDef.pairs]. rewrite IH. reflexivity. Qed.

Lemma omapM_map : forall {X Y} (f : X -> outcome Y) (h : X -> Y) l,
  (forall x, In x l -> f x = Ok (h x)) -> omapM f l = Ok (map h l).
Proof.
  intros X Y f h l H. induction l as [ | x t IH ]; [reflexivity | ]. cbn [omapM map].
  rewrite (H x (or_introl eq_refl)). cbn [bind]. rewrite IH; [reflexivity | ]. intros y Hy. apply H. cbn. tauto.
Qed.

Lemma fold_left_zadd : forall {X} (h : X -> Z) l a, fold_left (fun a x => (a + h x)%Z) l a = (a + zsum h l)%Z.
Proof.
  intros X h. induction l as [ | x t IH ]; intros a; cbn [fold_left]; [unfold zsum; cbn; lia | ].
  rewrite IH. unfold zsum. cbn [fold_right]. lia.
Qed.

Section SquareOk.
  Context {T A : Type}.
  Variable teqb : T -> T -> bool.
  Variable tltb : T -> T -> bool.
  Hypothesis teqb_spec : forall x y, teqb x y = true <-> x = y.
  Hypothesis tltb_asym : forall x y, tltb x y = true -> tltb y x = false.
  Hypothesis tltb_total : forall x y, tltb x y = false -> tltb y x = false -> x = y.

  Notation gstate := (gstate T A).
  Notation WF := (@WF T A teqb tltb).
  Let mIn := memb_In teqb teqb_spec.

  Variable g : gstate.
  Hypothesis W : WF g.
  Hypothesis Hund : directed (sp g) = false.
  Let names := get_all_node_names g.
  Let adj := edge_adjb teqb g.
  Let L := linked teqb adj.
  Notation lists := (lists names).

  Let Hnd : NoDup names.
  Proof. apply (wf_nodup _ _ _ W). Qed.

  Lemma adj_iff : forall u v, adj u v = true <-> (edge_rel g u v \/ edge_rel g v u).
  Proof.
    intros u v. unfold adj, edge_adjb. rewrite orb_true_iff.
    assert (H : forall a b, has_edge_b teqb g a b = true <-> edge_rel g a b).
    { intros a b. unfold has_edge_b, edge_rel. rewrite existsb_exists. split.
      - intros (e & He & Hk). apply andb_true_iff in Hk. destruct Hk as (Hu & Hv).
        apply teqb_spec in Hu. apply teqb_spec in Hv.
        destruct (edge_endpoints teqb tltb teqb_spec g e W He) as (H1 & H2 & _).
        rewrite Hu in H1. rewrite Hv in H2. split; [exact H1|]. split; [exact H2|]. exists e. auto.
      - intros (_ & _ & e & He & Hu & Hv). exists e. split; [exact He|].
        apply andb_true_iff. split; apply teqb_spec; assumption. }
    rewrite !H. tauto.
  Qed.

  Lemma adj_sym : forall u v, adj u v = adj v u.
  Proof. intros u v. unfold adj, edge_adjb. apply orb_comm. Qed.

  (* the adjacency query on an undirected graph: duplicate-free, exactly the adjacent nodes *)
  Lemma nbr_query_wf : forall u, In u names ->
    exists ns, get_successors_or_neighbors teqb g u = Ok ns /\ lists (adj u) (map nname ns).
  Proof.
    intros u Hu. unfold get_successors_or_neighbors. rewrite Hund.
    destruct (get_neighbor_nodes_spec teqb tltb g u W Hu) as (l & Hl & Hn & Hm). rewrite Hl.
    exists l. split; [reflexivity | ]. split; [exact Hn | ]. intros y. rewrite (Hm y), adj_iff.
    rewrite (cn_group_iff teqb tltb teqb_spec tltb_total g u y W). unfold g_follow. rewrite Hund.
    split.
    - intros (Hy & [H | (H & _)]); [ | discriminate]. split; [exact Hy | ]. destruct H as [H | (_ & H)]; tauto.
    - intros (Hy & H). split; [exact Hy | ]. left. destruct H as [H | H]; [left; exact H | right; split; [reflexivity | exact H]].
  Qed.

  (* square.rs gnos: the neighbours of u other than u *)
  Lemma gnos_wf : forall u, In u names -> exists l, gnos teqb g u = Ok l /\ lists (L u) l.
  Proof.
    intros u Hu. destruct (nbr_query_wf u Hu) as (ns & Hq & Hnd' & Hm). unfold gnos. rewrite Hq. cbn [bind].
    eexists. split; [reflexivity | ].
    destruct (to_hashset_spec teqb teqb_spec (map nname ns)) as (Hn & Hin).
    split; [apply without_NoDup; exact Hn | ].
    intros y. rewrite (without_In teqb teqb_spec), Hin, Hm. unfold L, linked.
    rewrite andb_true_iff, negb_true_iff, (teqb_false teqb teqb_spec).
    split; [intros ((H1 & H2) & H3); split; [exact H1 | split; [exact H2 | congruence]]
           | intros (H1 & H2 & H3); split; [split; assumption | congruence]].
  Qed.

  Notation common_not := (common_not teqb names adj).
  Notation deg := (ClusterDef.deg teqb names adj).

  (* the term of the potential for one pair of neighbours, as in the definition *)
  Definition pair_term (v u w : T) : Z :=
    let q := Z.of_nat (common_not v u w) in
    let th := if L u w then 1%Z else 0%Z in
    ((Z.of_nat (deg u) - (1 + q + th)) + (Z.of_nat (deg w) - (1 + q + th)) + q)%Z.

  Lemma combination_wf : forall v u w, In u names -> In w names ->
    coefficient_for_combination teqb g v u w = Ok (common_not v u w, pair_term v u w).
  Proof.
    intros v u w Hu Hw. unfold coefficient_for_combination.
    destruct (gnos_wf u Hu) as (un & Hun & Lun). destruct (gnos_wf w Hw) as (wn & Hwn & Lwn).
    rewrite Hun, Hwn. cbn [bind].
    assert (Hsq : length (without teqb v (inter teqb un wn)) = common_not v u w).
    { unfold without, inter. rewrite filter_filter, count_sumf.
      rewrite (lists_sum names Hnd _ _ _ Lun). unfold ClusterDef.common_not. rewrite count_sumf.
      apply sumf_ext_in. intros x Hx. fold (L u x) (L w x).
      destruct Lwn as [_ Hmw]. change (mem_name teqb x wn) with (memb teqb x wn).
      assert (Hmem : memb teqb x wn = L w x).
      { destruct (memb teqb x wn) eqn:E.
        - apply mIn in E. apply Hmw in E. symmetry. tauto.
        - destruct (L w x) eqn:E2; [ | reflexivity]. exfalso.
          assert (In x wn) by (apply Hmw; auto). apply mIn in H. congruence. }
      rewrite Hmem. destruct (L u x), (L w x), (negb (teqb x v)); reflexivity. }
    assert (Hth : mem_name teqb w un = L u w).
    { destruct Lun as [_ Hmu]. change (mem_name teqb w un) with (memb teqb w un).
      destruct (memb teqb w un) eqn:E.
      - apply mIn in E. apply Hmu in E. symmetry. tauto.
      - destruct (L u w) eqn:E2; [ | reflexivity]. exfalso.
        assert (In w un) by (apply Hmu; auto). apply mIn in H. congruence. }
    assert (Hdu : length un = deg u).
    { rewrite (lists_length names Hnd _ _ Lun). unfold ClusterDef.deg, ClusterDef.nbrs. rewrite count_sumf. reflexivity. }
    assert (Hdw : length wn = deg w).
    { rewrite (lists_length names Hnd _ _ Lwn). unfold ClusterDef.deg, ClusterDef.nbrs. rewrite count_sumf. reflexivity. }
    rewrite Hsq, Hth, Hdu, Hdw. f_equal. f_equal. unfold pair_term. cbv zeta.
    destruct (L u w); lia.
  Qed.

  Lemma pair_term_sym : forall v a b, pair_term v a b = pair_term v b a.
  Proof.
    intros v a b. unfold pair_term. cbv zeta.
    rewrite (common_not_sym teqb names adj v b a).
    assert (Hl : L b a = L a b) by (unfold L; apply (linked_sym teqb teqb_spec adj adj_sym)).
    rewrite Hl. lia.
  Qed.

  Lemma sq_den_zsum : forall v,
    sq_den teqb names adj v = zsum (fun p => pair_term v (fst p) (snd p)) (ClusterDef.pairs (nbrs teqb names adj v)).
  Proof.
    intros v. unfold sq_den, zsum. generalize (ClusterDef.pairs (nbrs teqb names adj v)) as ps.
    induction ps as [ | [u w] ps IH ]; [reflexivity | ]. cbn [fold_right fst snd]. rewrite IH.
    unfold pair_term. cbv zeta. fold (L u w). lia.
  Qed.

  (* square.rs get_coefficient_for_node: total on nodes, and equal to the definition *)
  Theorem coefficient_for_node_wf : forall v, In v names ->
    exists c, coefficient_for_node teqb g v = Ok (v, c) /\ (c == square_def teqb names adj v)%Q.
  Proof.
    intros v Hv. destruct (nbr_query_wf v Hv) as (ns & Hq & Hnn & Hm).
    unfold coefficient_for_node. rewrite Hq. cbn [bind].
    set (nb := filter (fun n => negb (teqb n v)) (map nname ns)).
    assert (Lnb : lists (L v) nb).
    { split; [apply NoDup_filter; exact Hnn | ]. intros y. unfold nb. rewrite filter_In, Hm.
      unfold L, linked. rewrite andb_true_iff, !negb_true_iff, !(teqb_false teqb teqb_spec).
      split; [intros ((H1 & H2) & H3); split; [exact H1 | split; [exact H2 | congruence]]
             | intros (H1 & H2 & H3); split; [split; assumption | congruence]]. }
    pose proof (lists_perm names Hnd _ _ Lnb) as Hperm. fold (nbrs teqb names adj v) in Hperm.
    rewrite (omapM_map _ (fun p => (common_not v (fst p) (snd p), pair_term v (fst p) (snd p)))).
    2:{ intros p Hp. rewrite square_pairs_eq in Hp. apply pairs_In in Hp. destruct Hp as (H1 & H2).
        destruct Lnb as [_ Hmn]. apply Hmn in H1. apply Hmn in H2. apply combination_wf; tauto. }
    cbn [bind]. rewrite square_pairs_eq.
    set (cs := map _ (ClusterDef.pairs nb)).
    assert (Hcv : fold_left (fun a (c : nat * Z) => a + fst c) cs 0 = sq_num teqb names adj v).
    { rewrite fold_left_add. cbn [Nat.add]. unfold cs. rewrite sumf_map. cbn [fst].
      rewrite (pairs_sumf_perm (fun a b => common_not v a b) (common_not_sym teqb names adj v) _ _ Hperm).
      reflexivity. }
    assert (Hpot : fold_left (fun a (c : nat * Z) => (a + snd c)%Z) cs 0%Z = sq_den teqb names adj v).
    { rewrite fold_left_zadd. unfold cs. rewrite zsum_map. cbn [snd]. rewrite Z.add_0_l.
      rewrite (pairs_zsum_perm (fun a b => pair_term v a b) (pair_term_sym v) _ _ Hperm).
      symmetry. apply sq_den_zsum. }
    rewrite Hcv, Hpot. unfold square_def.
    destruct (Z.ltb 0 (sq_den teqb names adj v)).
    - eexists. split; [reflexivity | ]. rewrite Qred_correct. reflexivity.
    - eexists. split; [reflexivity | ]. reflexivity.
  Qed.

  (* square_clustering: every requested node of the graph gets Lind's coefficient over the edge list *)
  Theorem square_clustering_wf : forall nn m v,
    square_clustering teqb g nn = Ok m ->
    In v (names_of g nn) -> In v names ->
    exists c, lookup teqb v m = Some c /\ (c == square_def teqb names adj v)%Q.
  Proof.
    intros nn m v H Hreq Hv. rewrite (square_lookup teqb teqb_spec g nn m v H).
    assert (Hm : mem_name teqb v (names_of g nn) = true) by (apply mIn; exact Hreq).
    rewrite Hm. destruct (coefficient_for_node_wf v Hv) as (c & Hc & Hq). rewrite Hc. cbn.
    exists c. auto.
  Qed.

  (* ... and with node_names = None (or any list of nodes) the call returns *)
  Theorem square_clustering_total : forall nn,
    (forall v, In v (names_of g nn) -> In v names) ->
    exists m, square_clustering teqb g nn = Ok m.
  Proof.
    intros nn Hin. unfold square_clustering. fold (names_of g nn).
    assert (G : forall l, (forall v, In v l -> In v names) -> exists kvs, omapM (coefficient_for_node teqb g) l = Ok kvs).
    { induction l as [ | v t IH ]; intros Hl; [eexists; reflexivity | ]. cbn [omapM].
      destruct (coefficient_for_node_wf v (Hl v (or_introl eq_refl))) as (c & Hc & _). rewrite Hc. cbn [bind].
      destruct (IH (fun y Hy => Hl y (or_intror Hy))) as (kvs & Hk). rewrite Hk. cbn [bind]. eauto. }
    destruct (G (names_of g nn) Hin) as (kvs & Hk). rewrite Hk. cbn [bind]. eauto.
  Qed.
End SquareOk.
