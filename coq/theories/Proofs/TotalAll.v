(* C20, the roll-up: for EVERY modelled public algorithm entry point of the crate, on every
   coherent graph state ([WF], hence every state reachable by any history of mutations and every
   graph built by a constructor / generator / the GraphML reader) and EVERY argument value, the
   outcome of the model is a value or an Error of the documented kind - never a Panic site, and
   never OutOfFuel under the fuel the statement names.  Everything here is DERIVED from the family
   theorems (C05, C06, C09, C10, C11, C12, C13, C16, C18, C14/C19); what is new is
     - the case analysis on graph kind and on present / absent names in one statement,
     - weighted betweenness / closeness for ANY real weights (zero and negative included),
     - square_clustering on directed graphs,
     - eigenvector_centrality: no Panic site on any WF single-edge graph, any Num instance,
     - modularity: the only Panic site left is the model-domain one (total weight 0 with a
       non-zero term - needs a negative weight), excluded for non-negative weights.
   Statements that carry a hypothesis C20's quantifier does not grant end in [_partial]. *)
From Coq Require Import String List Bool Arith ZArith QArith Lia Permutation.
From GV Require Import Base.Outcome Base.AMap Model.GState Model.Creation Model.Query Model.Derived
     Model.Components Model.Scc Model.Cluster Model.ClusterW Model.Square Model.Partition.
From GV Require Import Spec.ReachDef Spec.CompSpec Spec.EdgeAdj Spec.History.
From GV Require Import Proofs.AMapOk Proofs.WFDefs Proofs.HistoryOk Proofs.QueryOk Proofs.DegreeOk Proofs.QueryTotal
     Proofs.ComponentsOk Proofs.CompWF Proofs.ClusterOk Proofs.ClusterTotalOk Proofs.SquareOk Proofs.MatrixOk.
Import ListNotations.
Close Scope Q_scope.

(* ====================================================================================== *)
Section Structure.
  Context {T A : Type}.
  Variable teqb : T -> T -> bool.
  Variable tltb : T -> T -> bool.
  Hypothesis teqb_spec : forall x y, teqb x y = true <-> x = y.
  Hypothesis tltb_asym : forall x y, tltb x y = true -> tltb y x = false.
  Hypothesis tltb_total : forall x y, tltb x y = false -> tltb y x = false -> x = y.

  Notation gstate := (gstate T A).
  Notation WF := (@WF T A teqb tltb).

  (* a requested node list (the `Option<&[T]>` argument of the cluster functions) *)
  Definition all_present (g : gstate) (nn : option (list T)) : Prop :=
    forall l, nn = Some l -> forall v, In v l -> In v (get_all_node_names g).
  Definition some_absent (g : gstate) (nn : option (list T)) : Prop :=
    exists l v, nn = Some l /\ In v l /\ ~ In v (get_all_node_names g).

  Lemma in_names_iff (g : gstate) x : in_names teqb g x = true <-> In x (get_all_node_names g).
  Proof.
    unfold in_names, get_all_node_names. rewrite existsb_exists. split.
    - intros (n & Hn & E). apply teqb_spec in E. subst x. apply in_map. exact Hn.
    - intros H. apply in_map_iff in H. destruct H as (n & <- & Hn). exists n. split; [exact Hn|].
      apply teqb_spec. reflexivity.
  Qed.

  Lemma present_or_absent (g : gstate) nn : all_present g nn \/ some_absent g nn.
  Proof.
    destruct nn as [l|]; [|left; intros l H; discriminate].
    destruct (forallb (in_names teqb g) l) eqn:E.
    - left. intros l' H v Hv. inversion H. subst l'. rewrite forallb_forall in E.
      apply in_names_iff. apply E. exact Hv.
    - right. assert (H : exists v, In v l /\ in_names teqb g v = false).
      { clear -E. induction l as [|x t IH]; [discriminate|]. cbn [forallb] in E.
        destruct (in_names teqb g x) eqn:Ex.
        - destruct (IH E) as (v & Hv & Hf). exists v. split; [right; exact Hv|exact Hf].
        - exists x. split; [left; reflexivity|exact Ex]. }
      destruct H as (v & Hv & Hf). exists l, v. split; [reflexivity|]. split; [exact Hv|].
      intros Hin. apply in_names_iff in Hin. congruence.
  Qed.

  Lemma ensure_nodes_exist_absent (g : gstate) nn :
    WF g -> some_absent g nn -> ensure_nodes_exist teqb g nn = Err NodeNotFound.
  Proof.
    intros W (l & v & -> & Hv & Hn). cbn [ensure_nodes_exist].
    rewrite (has_nodes_spec teqb tltb teqb_spec g l W). cbn [bind].
    assert (E : forallb (in_names teqb g) l = false).
    { destruct (forallb (in_names teqb g) l) eqn:E; [|reflexivity]. exfalso. apply Hn.
      rewrite forallb_forall in E. apply in_names_iff. apply E. exact Hv. }
    rewrite E. reflexivity.
  Qed.

  (* ---------------------------------------------------------------- components, BFS (C10) *)
  Theorem total_connected_components (g : gstate) : WF g ->
    if directed (sp g) then connected_components teqb g = Err WrongMethod
    else exists cs, connected_components teqb g = Ok cs.
  Proof.
    intros W. destruct (directed (sp g)) eqn:Hd.
    - apply (wrong_kind teqb g). exact Hd.
    - destruct (connected_components_wf teqb tltb teqb_spec tltb_total g W Hd) as (cs & H & _). eauto.
  Qed.

  Theorem total_number_of_connected_components (g : gstate) : WF g ->
    if directed (sp g) then number_of_connected_components teqb g = Err WrongMethod
    else exists k, number_of_connected_components teqb g = Ok k.
  Proof.
    intros W. destruct (directed (sp g)) eqn:Hd.
    - apply (wrong_kind teqb g). exact Hd.
    - destruct (number_of_connected_components_wf teqb tltb teqb_spec tltb_total g W Hd) as (cs & H & _). eauto.
  Qed.

  Theorem total_node_connected_component (g : gstate) x : WF g ->
    if directed (sp g) then node_connected_component teqb g x = Err WrongMethod
    else (In x (get_all_node_names g) -> exists s, node_connected_component teqb g x = Ok s) /\
         (~ In x (get_all_node_names g) -> node_connected_component teqb g x = Err NodeNotFound).
  Proof.
    intros W. destruct (directed (sp g)) eqn:Hd.
    - apply (wrong_kind teqb g). exact Hd.
    - destruct (node_component_wf teqb tltb teqb_spec tltb_total g x W Hd) as (H1 & H2). split.
      + intros Hx. destruct (H1 Hx) as (s & H & _). eauto.
      + exact H2.
  Qed.

  Theorem total_weakly_connected_components (g : gstate) : WF g ->
    if directed (sp g) then exists cs, weakly_connected_components teqb g = Ok cs
    else weakly_connected_components teqb g = Err WrongMethod.
  Proof.
    intros W. destruct (directed (sp g)) eqn:Hd.
    - destruct (weakly_connected_components_wf teqb tltb teqb_spec tltb_total g W Hd) as (cs & H & _). eauto.
    - apply (wrong_kind teqb g). exact Hd.
  Qed.

  (* [ord]: the iteration order of each successor HashSet (an oracle of the model); any
     order that permutes the set *)
  Theorem total_strongly_connected_components (ord : list T -> list T) (g : gstate) :
    (forall l x, In x (ord l) <-> In x l) -> WF g ->
    if directed (sp g) then exists cs, strongly_connected_components teqb ord g = Ok cs
    else strongly_connected_components teqb ord g = Err WrongMethod.
  Proof.
    intros Hord W. destruct (directed (sp g)) eqn:Hd.
    - destruct (strongly_connected_components_wf teqb tltb teqb_spec tltb_total ord g Hord W Hd) as (cs & H & _). eauto.
    - apply (wrong_kind teqb g). exact Hd.
  Qed.

  Theorem total_bfs_equal_size_partitions (g : gstate) k : WF g -> 1 <= k ->
    exists ps, bfs_equal_size_partitions g k = Ok ps.
  Proof. intros W Hk. exact (equal_size_total_wf teqb tltb g k W Hk). Qed.

  Theorem total_breadth_first_search (g : gstate) x : WF g -> In x (get_all_node_names g) ->
    exists l, breadth_first_search teqb g x = Ok l.
  Proof. intros W Hx. destruct (bfs_wf teqb tltb teqb_spec tltb_total g x W Hx) as (l & H & _). eauto. Qed.

  (* ---------------------------------------------------------------- degree_centrality (C09) *)
  Theorem total_degree_centrality (g : gstate) : WF g ->
    exists l, degree_centrality teqb tltb g = Ok l /\ map fst l = get_all_node_names g.
  Proof.
    intros W. destruct (le_lt_dec 2 (length (nodes_vec g))) as [Hn|Hn].
    - destruct (degree_centrality_spec teqb tltb teqb_spec tltb_total g W Hn) as (l & H & Hk & _). eauto.
    - unfold degree_centrality. assert (E : Nat.leb (length (nodes_vec g)) 1 = true) by (apply Nat.leb_le; lia).
      rewrite E. eexists. split; [reflexivity|]. rewrite map_map. reflexivity.
  Qed.

  (* ---------------------------------------------------------------- clustering family (C11), weighted = false *)
  Theorem total_triangles (g : gstate) nn : WF g ->
    (directed (sp g) = true \/ multi (sp g) = true -> triangles teqb g nn = Err WrongMethod) /\
    (directed (sp g) = false -> multi (sp g) = false -> some_absent g nn -> triangles teqb g nn = Err NodeNotFound) /\
    (directed (sp g) = false -> multi (sp g) = false -> all_present g nn -> exists m, triangles teqb g nn = Ok m).
  Proof.
    intros W. split; [|split].
    - intros [Hd|Hm].
      + apply (refuses_directed teqb g nn Hd).
      + apply (refuses_multi teqb g nn true Hm).
    - intros Hd Hm Ha. unfold triangles, ensure_undirected, ensure_not_multi_edges. rewrite Hd, Hm. cbn [bind].
      rewrite (ensure_nodes_exist_absent g nn W Ha). reflexivity.
    - intros Hd Hm Hp.
      destruct (cluster_total_wf teqb tltb teqb_spec tltb_total g W nn Hm Hp) as (_ & _ & H).
      destruct (H Hd) as (H1 & _). exact H1.
  Qed.

  Theorem total_generalized_degree (g : gstate) nn : WF g ->
    (directed (sp g) = true \/ multi (sp g) = true -> generalized_degree teqb g nn = Err WrongMethod) /\
    (directed (sp g) = false -> multi (sp g) = false -> some_absent g nn ->
       generalized_degree teqb g nn = Err NodeNotFound) /\
    (directed (sp g) = false -> multi (sp g) = false -> all_present g nn ->
       exists m, generalized_degree teqb g nn = Ok m).
  Proof.
    intros W. split; [|split].
    - intros [Hd|Hm].
      + apply (refuses_directed teqb g nn Hd).
      + apply (refuses_multi teqb g nn true Hm).
    - intros Hd Hm Ha. unfold generalized_degree, ensure_undirected, ensure_not_multi_edges. rewrite Hd, Hm. cbn [bind].
      rewrite (ensure_nodes_exist_absent g nn W Ha). reflexivity.
    - intros Hd Hm Hp.
      destruct (cluster_total_wf teqb tltb teqb_spec tltb_total g W nn Hm Hp) as (_ & _ & H).
      destruct (H Hd) as (_ & H1 & _). exact H1.
  Qed.

  Theorem total_transitivity (g : gstate) : WF g ->
    if directed (sp g) || multi (sp g) then transitivity teqb g = Err WrongMethod
    else exists q, transitivity teqb g = Ok q.
  Proof.
    intros W. destruct (directed (sp g)) eqn:Hd; cbn [orb].
    - apply (refuses_directed teqb g None Hd).
    - destruct (multi (sp g)) eqn:Hm.
      + apply (refuses_multi teqb g None true Hm).
      + destruct (cluster_total_wf teqb tltb teqb_spec tltb_total g W None Hm) as (_ & _ & H).
        { intros l Hl. discriminate. }
        destruct (H Hd) as (_ & _ & H1). exact H1.
  Qed.

  Theorem total_clustering (g : gstate) nn : WF g ->
    (multi (sp g) = true -> clustering teqb g nn = Err WrongMethod) /\
    (multi (sp g) = false -> some_absent g nn -> clustering teqb g nn = Err NodeNotFound) /\
    (multi (sp g) = false -> all_present g nn -> exists m, clustering teqb g nn = Ok m).
  Proof.
    intros W. split; [|split].
    - intros Hm. apply (refuses_multi teqb g nn true Hm).
    - intros Hm Ha. unfold clustering, ensure_not_multi_edges. rewrite Hm. cbn [bind].
      rewrite (ensure_nodes_exist_absent g nn W Ha). reflexivity.
    - intros Hm Hp. destruct (cluster_total_wf teqb tltb teqb_spec tltb_total g W nn Hm Hp) as (H & _). exact H.
  Qed.

  Theorem total_average_clustering (g : gstate) nn cz : WF g ->
    (multi (sp g) = true -> average_clustering teqb g nn cz = Err WrongMethod) /\
    (multi (sp g) = false -> some_absent g nn -> average_clustering teqb g nn cz = Err NodeNotFound) /\
    (multi (sp g) = false -> all_present g nn -> exists a, average_clustering teqb g nn cz = Ok a).
  Proof.
    intros W. split; [|split].
    - intros Hm. apply (refuses_multi teqb g nn cz Hm).
    - intros Hm Ha. unfold average_clustering.
      destruct (total_clustering g nn W) as (_ & H & _). rewrite (H Hm Ha). reflexivity.
    - intros Hm Hp. destruct (cluster_total_wf teqb tltb teqb_spec tltb_total g W nn Hm Hp) as (_ & H & _). apply H.
  Qed.

  (* the weighted = true path of clustering / average_clustering: the guards.  The numeric body
     (cube roots of products of normalised weights) is modelled only where f64::cbrt is exact
     (perfect cubes), so its totality is NOT a theorem: sweep only. *)
  Theorem total_clustering_weighted_guards (g : gstate) nn : WF g ->
    (multi (sp g) = true -> clustering_weighted teqb g nn = Err WrongMethod) /\
    (multi (sp g) = false -> some_absent g nn -> clustering_weighted teqb g nn = Err NodeNotFound) /\
    (multi (sp g) = false -> all_present g nn -> edges_have_weight g = false ->
       clustering_weighted teqb g nn = Err EdgeWeightNotSpecified).
  Proof.
    intros W. unfold clustering_weighted, ensure_not_multi_edges. split; [|split].
    - intros ->. reflexivity.
    - intros -> Ha. cbn [bind]. rewrite (ensure_nodes_exist_absent g nn W Ha). reflexivity.
    - intros -> Hp Hw. cbn [bind].
      rewrite (ensure_nodes_exist_ok teqb tltb teqb_spec g W nn); cbn [bind].
      2:{ destruct nn as [l|]; [|exact I]. intros v Hv. exact (Hp l eq_refl v Hv). }
      unfold ensure_weighted. rewrite Hw. reflexivity.
  Qed.

  Theorem total_average_clustering_weighted_guards (g : gstate) nn cz : WF g ->
    (multi (sp g) = true -> average_clustering_weighted teqb g nn cz = Err WrongMethod) /\
    (multi (sp g) = false -> some_absent g nn -> average_clustering_weighted teqb g nn cz = Err NodeNotFound) /\
    (multi (sp g) = false -> all_present g nn -> edges_have_weight g = false ->
       average_clustering_weighted teqb g nn cz = Err EdgeWeightNotSpecified).
  Proof.
    intros W. destruct (total_clustering_weighted_guards g nn W) as (H1 & H2 & H3).
    unfold average_clustering_weighted. split; [|split].
    - intros Hm. rewrite (H1 Hm). reflexivity.
    - intros Hm Ha. rewrite (H2 Hm Ha). reflexivity.
    - intros Hm Hp Hw. rewrite (H3 Hm Hp Hw). reflexivity.
  Qed.
  Theorem total_clustering_weighted_partial : forall (g : gstate) nn cz, WF g ->
    (multi (sp g) = true ->
       clustering_weighted teqb g nn = Err WrongMethod /\
       average_clustering_weighted teqb g nn cz = Err WrongMethod) /\
    (multi (sp g) = false -> some_absent g nn ->
       clustering_weighted teqb g nn = Err NodeNotFound /\
       average_clustering_weighted teqb g nn cz = Err NodeNotFound) /\
    (multi (sp g) = false -> all_present g nn -> edges_have_weight g = false ->
       clustering_weighted teqb g nn = Err EdgeWeightNotSpecified /\
       average_clustering_weighted teqb g nn cz = Err EdgeWeightNotSpecified).
  Proof.
    intros g nn cz W.
    destruct (total_clustering_weighted_guards g nn W) as (A1 & A2 & A3).
    destruct (total_average_clustering_weighted_guards g nn cz W) as (B1 & B2 & B3).
    repeat split; auto.
  Qed.
  (* ---------------------------------------------------------------- get_sparse_adjacency_matrix (C09) *)
  Theorem total_sparse_adjacency_matrix (g : gstate) : WF g ->
    if multi (sp g) then matrix_triplets g = Err WrongMethod
    else exists tr, matrix_triplets g = Ok tr.
  Proof.
    intros W. destruct (multi (sp g)) eqn:Hm.
    - unfold matrix_triplets. rewrite Hm. reflexivity.
    - destruct (matrix_spec teqb tltb tltb_asym tltb_total g W Hm) as (tr & H & _). eauto.
  Qed.
End Structure.

(* ====================================================================================== *)
(* square_clustering on EVERY kind of graph (C11 proves it, with the value, for undirected
   ones): the function has no error channel; on names of the graph it returns.  The only
   Panic sites are the unwrap inside get_successors_or_neighbors, reached only with a name
   that is not a node, and every name the loops look up is a successor / neighbour of a
   node, hence a node; the `potential` sum is signed since the repair of F15. *)
Section SquareAnyKind.
  Context {T A : Type}.
  Variable teqb : T -> T -> bool.
  Variable tltb : T -> T -> bool.
  Hypothesis teqb_spec : forall x y, teqb x y = true <-> x = y.
  Hypothesis tltb_asym : forall x y, tltb x y = true -> tltb y x = false.
  Hypothesis tltb_total : forall x y, tltb x y = false -> tltb y x = false -> x = y.
  Notation gstate := (gstate T A).
  Notation WF := (@WF T A teqb tltb).

  Variable g : gstate.
  Hypothesis W : WF g.

  Lemma son_total x : In x (names g) ->
    exists l, get_successors_or_neighbors teqb g x = Ok l /\ forall y, In y (map nname l) -> In y (names g).
  Proof.
    intros Hx. unfold get_successors_or_neighbors. destruct (directed (sp g)) eqn:Hd.
    - destruct (get_successor_nodes_spec teqb tltb g x W Hd Hx) as (l & -> & _ & Hm).
      exists l. split; [reflexivity|]. intros y Hy. apply Hm in Hy.
      destruct (group teqb g (x, y)) as [grp|] eqn:Eg; [|congruence].
      destruct (wf_egroup _ _ _ W (x, y) grp Eg) as (_ & _ & _ & H & _). exact H.
    - destruct (get_neighbor_nodes_spec teqb tltb g x W Hx) as (l & -> & _ & Hm).
      exists l. split; [reflexivity|]. intros y Hy. apply Hm in Hy. apply Hy.
  Qed.

  Lemma gnos_total x : In x (names g) ->
    exists l, gnos teqb g x = Ok l.
  Proof. intros Hx. unfold gnos. destruct (son_total x Hx) as (l & -> & _). cbn [bind]. eauto. Qed.

  Lemma combination_total v u w : In u (names g) -> In w (names g) ->
    exists c, coefficient_for_combination teqb g v u w = Ok c.
  Proof.
    intros Hu Hw. unfold coefficient_for_combination.
    destruct (gnos_total u Hu) as (lu & ->). destruct (gnos_total w Hw) as (lw & ->). cbn [bind]. eauto.
  Qed.

  Lemma pairs_in {X} (l : list X) p : In p (pairs l) -> In (fst p) l /\ In (snd p) l.
  Proof.
    induction l as [|x t IH]; [intros []|]. cbn [pairs]. intros H. apply in_app_or in H. destruct H as [H|H].
    - apply in_map_iff in H. destruct H as (y & <- & Hy). cbn [fst snd]. split; [left; reflexivity|right; exact Hy].
    - destruct (IH H) as (H1 & H2). split; right; assumption.
  Qed.

  Lemma coefficient_for_node_total v : In v (names g) -> exists c, coefficient_for_node teqb g v = Ok c.
  Proof.
    intros Hv. unfold coefficient_for_node. destruct (son_total v Hv) as (l & -> & Hl). cbn [bind].
    set (nbrs := filter (fun n => negb (teqb n v)) (map nname l)).
    assert (Hn : forall y, In y nbrs -> In y (names g)).
    { intros y Hy. apply filter_In in Hy. apply Hl. apply Hy. }
    destruct (omapM_total (fun p => coefficient_for_combination teqb g v (fst p) (snd p)) (pairs nbrs)) as (cs & ->).
    { intros p Hp. apply pairs_in in Hp. apply combination_total; apply Hn; apply Hp. }
    cbn [bind]. destruct (Z.ltb 0 _); eauto.
  Qed.

  Theorem square_clustering_total_any nn :
    (forall l, nn = Some l -> forall v, In v l -> In v (get_all_node_names g)) ->
    exists m, square_clustering teqb g nn = Ok m.
  Proof.
    intros Hp. unfold square_clustering.
    destruct (omapM_total (coefficient_for_node teqb g)
                (match nn with None => get_all_node_names g | Some l => l end)) as (kvs & ->).
    { intros v Hv. apply coefficient_for_node_total. destruct nn as [l|]; [apply (Hp l eq_refl v Hv)|exact Hv]. }
    cbn [bind]. eauto.
  Qed.
End SquareAnyKind.

(* ====================================================================================== *)
(* is_partition / modularity (partitions.rs), C12 *)
From GV Require Import Spec.PartitionDef Proofs.PartitionOk Proofs.PartitionStateOk Proofs.ModularityStateOk.

Definition modularity_domain_site : string :=
  "model: infinite intermediate value (negative weights), outside the modelled domain".

Section PartitionTotal.
  Context {T A : Type}.
  Variable teqb : T -> T -> bool.
  Variable tltb : T -> T -> bool.
  Hypothesis teqb_spec : forall x y, teqb x y = true <-> x = y.
  Hypothesis tltb_asym : forall x y, tltb x y = true -> tltb y x = false.
  Hypothesis tltb_total : forall x y, tltb x y = false -> tltb y x = false -> x = y.
  Notation gstate := (gstate T A).
  Notation WF := (@WF T A teqb tltb).

  (* is_partition has no error channel (it returns bool): every family of name lists - foreign
     names, repetitions, empty sets included - is answered *)
  Theorem total_is_partition (g : gstate) comms : WF g ->
    is_partition teqb g comms = Ok (is_partition_model teqb (get_all_node_names g) comms).
  Proof. intros W. exact (is_partition_WF teqb tltb teqb_spec g comms W). Qed.

  (* modularity, ANY weights: a family that is not a partition is refused with NotAPartition;
     on a partition the call returns, except at the one model-domain site (total weight 0 while
     some community term is not 0: the implementation then computes with inf, which the exact
     model does not represent; needs a negative weight) - never another Panic site, never fuel *)
  Theorem modularity_outcomes (g : gstate) comms weighted gamma : WF g ->
    (is_partition_model teqb (get_all_node_names g) comms = false ->
       modularity teqb tltb g comms weighted gamma = Err NotAPartition) /\
    (is_partition_model teqb (get_all_node_names g) comms = true ->
       (exists q, modularity teqb tltb g comms weighted gamma = Ok q) \/
       modularity teqb tltb g comms weighted gamma = Panic modularity_domain_site).
  Proof.
    intros W. split.
    - intros Hip. apply modularity_rejects. rewrite (is_partition_WF teqb tltb teqb_spec g comms W).
      f_equal. exact Hip.
    - intros Hip. change (get_all_node_names g) with (names g) in Hip.
      assert (Hinc : forall c, In c comms -> incl c (names g)).
      { intros c Hc x Hx. apply (is_partition_model_char teqb teqb_spec) in Hip. destruct Hip as (_ & Hi & _).
        apply Hi. apply in_concat. exists c. split; assumption. }
      unfold modularity. rewrite (is_partition_WF teqb tltb teqb_spec g comms W), Hip. cbn [bind negb].
      destruct (directed (sp g)) eqn:Hd.
      + destruct (out_keys teqb tltb teqb_spec g W weighted "partitions.rs:97" "partitions.rs:101" Hd) as (od & Hod & Kod).
        destruct (in_keys teqb tltb teqb_spec g W weighted "partitions.rs:98" "partitions.rs:102" Hd) as (id & Hid & Kid).
        rewrite Hod. cbn [bind]. rewrite Hid. cbn [bind].
        destruct (parts_total teqb tltb teqb_spec tltb_total g W weighted "partitions.rs:125" "partitions.rs:127"
                    od id Kod Kid comms Hinc) as (parts & Hparts).
        rewrite Hd in Hparts. rewrite Hparts. cbn [bind].
        repeat match goal with |- context [match ?x with _ => _ end] => destruct x end;
          first [left; eexists; reflexivity | right; reflexivity].
      + destruct (deg_keys teqb tltb teqb_spec tltb_total g W weighted) as (dg & Hdg & Kdg). rewrite Hdg. cbn [bind].
        destruct (parts_total teqb tltb teqb_spec tltb_total g W weighted "partitions.rs:125" "partitions.rs:127"
                    dg dg Kdg Kdg comms Hinc) as (parts & Hparts).
        rewrite Hd in Hparts. cbn [bind] in Hparts. rewrite Hparts. cbn [bind].
        repeat match goal with |- context [match ?x with _ => _ end] => destruct x end;
          first [left; eexists; reflexivity | right; reflexivity].
  Qed.

  (* no stored weight is negative (NaN, i.e. an edge without weight, is allowed) *)
  Definition no_negative_weight (g : gstate) : Prop :=
    forall e z, In e (get_all_edges g) -> ew e = Some z -> (0 <= z)%Z.

  Lemma has_nan_dec (l : list (edge T A)) :
    (exists e, In e l /\ ew e = None) \/ (forall e, In e l -> exists z, ew e = Some z).
  Proof.
    induction l as [|e t [IH|IH]].
    - right. intros e [].
    - left. destruct IH as (e0 & H0 & E0). exists e0. split; [right; exact H0|exact E0].
    - destruct (ew e) as [z|] eqn:Ez.
      + right. intros e0 [<-|H0]; [eauto|apply IH; exact H0].
      + left. exists e. split; [left; reflexivity|exact Ez].
  Qed.

  (* ... and FULL whenever no stored weight is negative (weighted = false: no hypothesis at all) *)
  Theorem total_modularity (g : gstate) comms weighted gamma : WF g ->
    (weighted = true -> no_negative_weight g) ->
    if is_partition_model teqb (get_all_node_names g) comms
    then exists q, modularity teqb tltb g comms weighted gamma = Ok q
    else modularity teqb tltb g comms weighted gamma = Err NotAPartition.
  Proof.
    intros W Hnn. destruct (is_partition_model teqb (get_all_node_names g) comms) eqn:Hip.
    2:{ apply (modularity_outcomes g comms weighted gamma W). exact Hip. }
    change (get_all_node_names g) with (names g) in Hip.
    assert (Hcase : (weighted = true /\ exists e, In e (get_all_edges g) /\ ew e = None) \/
                    (weighted = true -> all_real (get_all_edges g))).
    { destruct weighted; [|right; discriminate].
      destruct (has_nan_dec (get_all_edges g)) as [H|H]; [left; split; [reflexivity|exact H]|right; intros _; exact H]. }
    destruct Hcase as [(-> & He)|Hreal].
    - rewrite (modularity_WF_nan teqb tltb teqb_spec tltb_total g comms gamma W Hip He). eauto.
    - pose proof (wedges_of_total weighted (get_all_edges g) Hreal) as Hes.
      set (es := map (toW weighted) (get_all_edges g)) in *.
      destruct (Qeq_dec (total_w es) 0) as [Hz|Hz].
      + rewrite (modularity_WF_zero teqb tltb teqb_spec tltb_total g comms weighted gamma es W Hes Hip); [eauto| |exact Hz].
        intros e He. apply in_map_iff in He. destruct He as (e0 & <- & H0). unfold toW, ww, wq. cbn [snd].
        destruct weighted; [|discriminate].
        destruct (ew e0) as [z|] eqn:Ez; [|apply Qle_refl].
        change 0%Q with (inject_Z 0). rewrite <- Zle_Qle. exact (Hnn eq_refl e0 z H0 Ez).
      + destruct (modularity_WF_abs teqb tltb teqb_spec tltb_total g comms weighted gamma es W Hes Hip Hz) as (q & -> & _).
        eauto.
  Qed.
End PartitionTotal.

(* ====================================================================================== *)
(* eigenvector_centrality (eigenvector.rs), C18: for ANY number structure (the executed binary64
   instance, Coq's reals, ...): no law of arithmetic is used *)
From GV Require Import Model.Eigen Proofs.EigenOk Proofs.EigenMatrix Proofs.EigenWF.

Section EigenTotal.
  Context {T A : Type}.
  Variable teqb : T -> T -> bool.
  Variable tltb : T -> T -> bool.
  Hypothesis teqb_spec : forall x y, teqb x y = true <-> x = y.
  Hypothesis tltb_asym : forall x y, tltb x y = true -> tltb y x = false.
  Hypothesis tltb_total : forall x y, tltb x y = false -> tltb y x = false -> x = y.
  Variable F : Num.
  Notation gstate := (gstate T A).
  Notation WF := (@WF T A teqb tltb).
  Notation xmap := (@xmap T F).

  Lemma l1_change_total (xlast : xmap) : forall (x : xmap) a,
    (forall k, In k (keys x) -> In k (keys xlast)) ->
    exists y, ofold (fun a kv =>
                       match lookup teqb (fst kv) xlast with
                       | None => Panic "eigenvector.rs:73 xlast.get unwrap"%string
                       | Some l => Ok (nadd F a (nabs F (nsub F (snd kv) l)))
                       end) x a = Ok y.
  Proof.
    induction x as [|kv t IH]; intros a Hk; cbn [ofold]; [eauto|].
    destruct (lookup teqb (fst kv) xlast) as [l|] eqn:El.
    - cbn [bind]. apply IH. intros k Hin. apply Hk. right. exact Hin.
    - exfalso. apply (AMapOk.lookup_None_keys teqb teqb_spec) in El. apply El. apply Hk. left. reflexivity.
  Qed.

  Lemma step_total (g : gstate) weighted (x : xmap) :
    WF g -> multi (sp g) = false -> (forall k, In k (keys x) <-> In k (names g)) ->
    exists x' y, step teqb F g weighted x = Ok (x', y) /\ keys x' = keys x.
  Proof.
    intros W Hm Hk. unfold step.
    destruct (spread_node_form teqb tltb teqb_spec tltb_asym tltb_total F g weighted W Hm x Hk) as (x1 & -> & Hk1 & _).
    cbn [bind]. unfold l1_change.
    destruct (l1_change_total x (normalise F x1) (n0 F)) as (y & ->).
    { intros k Hin. rewrite normalise_keys, Hk1 in Hin. exact Hin. }
    cbn [bind]. exists (normalise F x1), y. split; [reflexivity|]. rewrite normalise_keys. exact Hk1.
  Qed.

  Lemma iterate_total (g : gstate) weighted : WF g -> multi (sp g) = false ->
    forall fuel thr (x : xmap), (forall k, In k (keys x) <-> In k (names g)) ->
    (exists r, iterate teqb F fuel g weighted thr x = Ok r) \/
    iterate teqb F fuel g weighted thr x = Err PowerIterationFailedConvergence.
  Proof.
    intros W Hm. induction fuel as [|f IH]; intros thr x Hk; cbn [iterate]; [right; reflexivity|].
    destruct (step_total g weighted x W Hm Hk) as (x' & y & -> & Hk'). cbn [bind fst snd].
    destruct (nltb F y thr); [left; eauto|]. apply IH. intros k. rewrite Hk'. apply Hk.
  Qed.

  (* every WF graph, weighted flag, max_iter and tolerance (None = the documented defaults): a
     multi-edge graph is refused; otherwise a vector or the convergence error.  No Panic site; the
     model's fuel is the loop bound max_iter itself, so OutOfFuel does not exist here. *)
  Theorem total_eigenvector_centrality (g : gstate) weighted max_iter tol : WF g ->
    if multi (sp g) then eigenvector_centrality teqb F g weighted max_iter tol = Err WrongMethod
    else (exists x, eigenvector_centrality teqb F g weighted max_iter tol = Ok x) \/
         eigenvector_centrality teqb F g weighted max_iter tol = Err PowerIterationFailedConvergence.
  Proof.
    intros W. unfold eigenvector_centrality. destruct (multi (sp g)) eqn:Hm; [reflexivity|].
    apply (iterate_total g weighted W Hm). intros k. rewrite (init_keys_WF teqb tltb teqb_spec F g W). reflexivity.
  Qed.
End EigenTotal.

(* ====================================================================================== *)
(* betweenness_centrality / closeness_centrality (C05, C06): hop-count mode on EVERY WF graph,
   weighted mode for ANY real weights (zero and negative included: the C05 / C06 value theorems
   need positive weights, totality does not).  Not covered: weighted = true on a graph with an
   edge WITHOUT weight (NaN) - the model has no NaN arithmetic and reports [site_nan]. *)
From GV Require Import Model.Cent Model.Brandes Model.Closeness.
From GV Require Import Proofs.AdjOk Proofs.CentBase Proofs.BrandesBfsOk Proofs.BrandesOk Proofs.ClosenessBfsOk
     Proofs.DijkstraFuelOk Proofs.DerivedOk Proofs.DerivedContent Proofs.ClosenessStateOk Proofs.WFNode Proofs.WFEdge.

Lemma conv_row_fst : forall weighted r r', conv_row weighted r = Some r' -> map fst r' = map fst r.
Proof.
  intros weighted. induction r as [|a t IH]; intros r' H; cbn [conv_row] in H; [inversion H; reflexivity|].
  destruct (conv_entry weighted a) as [e|] eqn:Ee; [|discriminate].
  destruct (conv_row weighted t) as [t'|]; [|discriminate]. inversion H. cbn [map]. f_equal; [|apply IH; reflexivity].
  unfold conv_entry in Ee. destruct weighted; [destruct (snd a); inversion Ee|inversion Ee]; reflexivity.
Qed.

Lemma conv_adj_row_fst : forall weighted sv a, conv_adj weighted sv = Some a ->
  forall v, map fst (get [] a v) = map fst (nth v sv []).
Proof.
  intros weighted. induction sv as [|r t IH]; intros a H v; cbn [conv_adj] in H.
  - inversion H. unfold get. destruct v; reflexivity.
  - destruct (conv_row weighted r) as [r'|] eqn:Er; [|discriminate].
    destruct (conv_adj weighted t) as [t'|] eqn:Et; [|discriminate]. inversion H. unfold get.
    destruct v as [|v]; cbn [nth]; [apply (conv_row_fst _ _ _ Er)|apply (IH t' eq_refl v)].
Qed.

Section CentralityTotal.
  Context {T A : Type}.
  Variable teqb : T -> T -> bool.
  Variable tltb : T -> T -> bool.
  Hypothesis teqb_spec : forall x y, teqb x y = true <-> x = y.
  Hypothesis tltb_asym : forall x y, tltb x y = true -> tltb y x = false.
  Hypothesis tltb_total : forall x y, tltb x y = false -> tltb y x = false -> x = y.
  Notation gstate := (gstate T A).
  Notation WF := (@WF T A teqb tltb).
  Notation all_real := (@all_real T A).

  (* the traversal adjacency of a coherent state converts, has one row per node, in-range
     indexes and one entry per neighbour *)
  Lemma conv_ok (tg : gstate) weighted :
    WF tg -> (weighted = true -> all_real (get_all_edges tg)) ->
    exists a, conv_adj weighted (successors_vec tg) = Some a /\
              length a = number_of_nodes tg /\
              adj_ok (length a) a = true /\ (forall v, NoDup (map fst (get [] a v))).
  Proof.
    intros Wt Hreal. destruct (wf_sv _ _ _ Wt) as (Hlen & Hrows).
    assert (Hn : WFDefs.nn tg = number_of_nodes tg) by (unfold WFDefs.nn, number_of_nodes; apply (names_length tg)).
    assert (Hconv : exists a, conv_adj weighted (successors_vec tg) = Some a).
    { destruct weighted; [|apply conv_adj_false_total]. apply conv_adj_true_total.
      intros row e Hrow He. apply In_nth_error in Hrow. destruct Hrow as (v & Hrow). destruct e as [j w].
      destruct (entry_of_tg teqb tltb teqb_spec tg v j w row Wt Hrow He) as (x & y & _ & _ & Hne & Hw).
      destruct (adjw_is_minimum teqb tltb teqb_spec tg x y Wt Hne) as (z & Ez & _).
      { intros e He'. apply (stored_between_In teqb tltb teqb_spec tltb_total tg x y e Wt) in He'.
        apply (Hreal eq_refl). apply He'. }
      cbn [snd]. congruence. }
    destruct Hconv as (a & Hconv). exists a. split; [exact Hconv|].
    assert (Hla : length a = number_of_nodes tg) by (rewrite (conv_adj_length _ _ _ Hconv), Hlen; exact Hn).
    split; [exact Hla|]. split.
    - unfold adj_ok. apply andb_true_iff. split; [apply Nat.eqb_eq; reflexivity|].
      apply forallb_forall. intros row Hrow. apply forallb_forall. intros e He. apply Nat.ltb_lt.
      apply (In_nth _ _ []) in Hrow. destruct Hrow as (v & _ & Hrow).
      assert (He' : In e (get [] a v)) by (unfold get; rewrite Hrow; exact He).
      destruct (conv_adj_entries _ _ _ Hconv v e He') as (row0 & w & Hrow0 & Hin & _).
      destruct (entry_of_tg teqb tltb teqb_spec tg v (fst e) w row0 Wt Hrow0 Hin) as (x & y & _ & Hy & _).
      rewrite Hla, <- Hn. apply (name_at_lt tg (fst e) y Hy).
    - intros v. rewrite (conv_adj_row_fst _ _ _ Hconv v).
      destruct (nth_error (successors_vec tg) v) as [row|] eqn:Er.
      + rewrite (nth_error_nth _ _ _ Er). apply (Hrows v row Er).
      + apply nth_error_None in Er. rewrite (nth_overflow _ _ Er). constructor.
  Qed.

  Lemma node_by_index_some (g : gstate) i : WF g -> i < number_of_nodes g ->
    exists nd, get_node_by_index g i = Some nd.
  Proof.
    intros W Hi. unfold get_node_by_index. rewrite (wf_nrev _ _ _ W i).
    destruct (nth_error (nodes_vec g) i) as [nd|] eqn:E; [eauto|]. apply nth_error_None in E.
    unfold number_of_nodes in Hi. lia.
  Qed.

  Lemma name_values_total site (g : gstate) vals : WF g -> length vals = number_of_nodes g ->
    exists m, name_values site g vals = Ok m.
  Proof.
    intros W Hl. unfold name_values. apply omapM_total. intros iv Hiv.
    assert (Hi : fst iv < number_of_nodes g).
    { destruct iv as [i v]. apply in_combine_l in Hiv. apply in_seq in Hiv. cbn [fst]. lia. }
    destruct (node_by_index_some g (fst iv) W Hi) as (nd & ->). eauto.
  Qed.

  (* the per-source stage never exhausts the fuel the model passes, whatever the costs *)
  Lemma single_source_total lw weighted (a : qadj) src :
    adj_ok (length a) a = true -> (forall v, NoDup (map fst (get [] a v))) -> src < length a ->
    exists r, Brandes.single_source lw weighted a src = Some r.
  Proof.
    intros Hok Hnd Hsrc. unfold Brandes.single_source. destruct weighted.
    - destruct (DijkstraFuelOk.bdijkstra_total a Hok lw src Hsrc) as (s & ->). eauto.
    - destruct (bbfs_total a src Hok Hsrc Hnd) as (s & ->). eauto.
  Qed.

  Lemma bc_core_total lw weighted (a : qadj) :
    adj_ok (length a) a = true -> (forall v, NoDup (map fst (get [] a v))) ->
    exists bet, bc_core lw weighted a = Some bet.
  Proof.
    intros Hok Hnd.
    assert (G : forall l bet0, (forall x, In x l -> x < length a) ->
              exists bet, fold_left (fun ob src =>
                 match ob with
                 | None => None
                 | Some b => match Brandes.single_source lw weighted a src with
                             | Some r => Some (accumulate_r b r)
                             | None => None
                             end
                 end) l (Some bet0) = Some bet).
    { induction l as [|src t IH]; intros bet0 Hr; cbn [fold_left]; [eexists; reflexivity|].
      destruct (single_source_total lw weighted a src Hok Hnd (Hr src (or_introl eq_refl))) as (r & ->).
      apply IH. intros x Hx. apply Hr. right. exact Hx. }
    assert (Hser : exists bet, bc_serial lw weighted a = Some bet).
    { unfold bc_serial. apply G. intros x Hx. apply in_seq in Hx. lia. }
    unfold bc_core. destruct (Nat.ltb PAR_THRESHOLD (length a)); [rewrite parallel_eq_serial|]; exact Hser.
  Qed.

  Theorem total_betweenness_centrality (g : gstate) lw weighted normalized :
    WF g -> (weighted = true -> all_real (get_all_edges g)) ->
    exists m, betweenness_centrality lw g weighted normalized = Ok m.
  Proof.
    intros W Hreal. unfold betweenness_centrality.
    destruct (conv_ok g weighted W Hreal) as (a & -> & Hla & Hok & Hnd).
    rewrite <- Hla, Hok. cbn [negb].
    destruct (bc_core_total lw weighted a Hok Hnd) as (bet & Hb). rewrite Hb.
    apply (name_values_total _ g _ W).
    rewrite rescale_length, (bc_core_length _ _ _ _ Hb). exact Hla.
  Qed.

  (* closeness.rs get_node_centrality: `len - 1` cannot underflow when the distance sum is > 0 *)
  Lemma get_node_centrality_total sp n wf : exists cc, get_node_centrality sp n wf = Ok cc.
  Proof.
    unfold get_node_centrality. destruct (qlt 0 (Qred (Closeness.qsum (map snd sp))) && Nat.ltb 1 n) eqn:E; [|eauto].
    destruct sp as [|p t]; [|cbn [length]; destruct wf; eauto].
    exfalso. cbn in E. discriminate.
  Qed.

  Lemma closeness_body_total (tg : gstate) lw weighted wf :
    WF tg -> (weighted = true -> all_real (get_all_edges tg)) ->
    exists m,
      (let n := number_of_nodes tg in
       match conv_adj weighted (successors_vec tg) with
       | None => Panic site_nan
       | Some a =>
         if negb (adj_ok n a) then Panic "closeness.rs: successors_vec index out of range"%string
         else omapM (closeness_one lw weighted wf tg a n) (seq 0 n)
       end) = Ok m.
  Proof.
    intros Wt Hreal. cbv zeta.
    destruct (conv_ok tg weighted Wt Hreal) as (a & -> & Hla & Hok & Hnd).
    rewrite <- Hla, Hok. cbn [negb]. apply omapM_total. intros src Hsrc. apply in_seq in Hsrc.
    assert (Hs : src < length a) by lia.
    unfold closeness_one.
    assert (Hsp : exists sp, sssp lw weighted a src = Some sp).
    { unfold sssp. destruct weighted.
      - apply (sssp_weighted_total a Hok lw src Hs).
      - apply (sssp_unweighted_total a src Hok Hs). }
    destruct Hsp as (sp & ->). destruct (get_node_centrality_total sp (length a) wf) as (cc & ->). cbn [bind].
    rewrite Hla in Hs. destruct (node_by_index_some tg src Wt Hs) as (nd & ->). eauto.
  Qed.

  Theorem total_closeness_centrality (g : gstate) lw weighted wf :
    WF g -> (weighted = true -> all_real (get_all_edges g)) ->
    exists m, closeness_centrality teqb tltb lw g weighted wf = Ok m.
  Proof.
    intros W Hreal. unfold closeness_centrality. destruct (directed (sp g)) eqn:Hd.
    - destruct (reverse_content teqb tltb teqb_spec tltb_total g W Hd) as (h & Hh & _ & _ & Hp).
      rewrite Hh. cbn [bind].
      destruct (reverse_WF teqb tltb teqb_spec tltb_asym tltb_total g h Hh) as (Wh & _).
      apply (closeness_body_total h lw weighted wf Wh).
      intros Hw e He. unfold get_all_edges in He. apply (Permutation_in _ Hp) in He.
      apply in_map_iff in He. destruct He as (e0 & <- & H0). cbn. apply (Hreal Hw). exact H0.
    - cbn [bind]. apply (closeness_body_total g lw weighted wf W Hreal).
  Qed.
End CentralityTotal.

(* ====================================================================================== *)
(* generators (C16): their arguments are numbers, not graphs *)
From GV Require Import Model.Classic Model.Gnp Spec.GnpDef Proofs.GnpOk Proofs.GensCreationOk Proofs.GensOk
     Proofs.GensWF Gen.KarateData.

Section GeneratorsTotal.
  Local Open Scope Z_scope.

  (* complete_graph(n, directed) for EVERY i32 n (n <= 0: the empty graph): the unwrap of the
     constructor's Result (classic.rs:40) is never reached with an Err *)
  Theorem total_complete_graph n dir :
    exists g, complete_graph n dir = Ok g /\ @WF Z unit Z.eqb Z.ltb g.
  Proof. exact (proj1 generators_wf_total n dir). Qed.

  (* karate_club_graph(): no argument; the adjacency literal of social.rs is re-extracted on
     every run (Gen/KarateData.v) *)
  Theorem total_karate_club_graph :
    exists g, karate_club_graph karate_rows karate_node_bound = Ok g /\ @WF Z unit Z.eqb Z.ltb g.
  Proof. exact (proj2 (proj2 generators_wf_total)). Qed.

  Lemma zrange_nonpos n : n <= 0 -> zrange n = [].
  Proof. intros H. unfold zrange. replace (Z.to_nat n) with O by lia. reflexivity. Qed.

  Lemma gnp_pairs_nonpos n dir gaps : n <= 0 -> gnp_pairs n dir gaps = Ok [].
  Proof.
    intros H. unfold gnp_pairs. destruct dir.
    - assert (E : (0 <? n) = false) by (apply Z.ltb_ge; lia). destruct gaps; cbn [dir_loop]; rewrite E; reflexivity.
    - assert (E : (1 <? n) = false) by (apply Z.ltb_ge; lia). destruct gaps; cbn [und_loop]; rewrite E; reflexivity.
  Qed.

  (* fast_gnp_random_graph(n, p, directed, seed) for EVERY i32 n and EVERY f64 p (NaN and the
     infinities included).  [gaps] is the stream of skips (ln(1-r)/ln(1-p)) as i64 drawn from the
     seed: non-negative because both logarithms are <= 0; the model's only fuel is the length of
     the supplied stream (OutOfFuel = "the stream given to the model ended before the loop did",
     not a hang of the code: the third clause says how long a stream always suffices). *)
  Theorem total_fast_gnp_random_graph n p dir gaps :
    - 2147483648 <= n <= i32_max -> Forall (fun k => 0 <= k) gaps ->
    (~ p_valid p -> fast_gnp_random_graph n p dir gaps = Err InvalidArgument) /\
    (p_valid p ->
       (exists g, fast_gnp_random_graph n p dir gaps = Ok g /\ @WF Z unit Z.eqb Z.ltb g) \/
       fast_gnp_random_graph n p dir gaps = OutOfFuel) /\
    (p_valid p -> gnp_slots (Z.max 0 n) dir < Z.of_nat (length gaps) ->
       exists g, fast_gnp_random_graph n p dir gaps = Ok g /\ @WF Z unit Z.eqb Z.ltb g).
  Proof.
    intros Hn Hg.
    assert (HW : forall g, fast_gnp_random_graph n p dir gaps = Ok g -> @WF Z unit Z.eqb Z.ltb g).
    { intros g H. apply (proj1 (proj2 generators_wf) n p dir gaps g H). }
    assert (Hneg : n < 0 -> p_valid p -> exists g, fast_gnp_random_graph n p dir gaps = Ok g).
    { intros Hlt Hp. unfold fast_gnp_random_graph. apply p_valid_check in Hp. rewrite Hp. cbn [negb].
      unfold gnp_graph, gnp_empty. rewrite (zrange_nonpos n) by lia. cbn [map add_nodes ofold bind].
      rewrite (gnp_pairs_nonpos n dir gaps) by lia. cbn [bind add_edge_tuples map add_edges]. eauto. }
    split; [apply gnp_rejects_p|]. split.
    - intros Hp. destruct (Z_lt_le_dec n 0) as [Hlt|Hge].
      + left. destruct (Hneg Hlt Hp) as (g & H). exists g. split; [exact H|apply HW; exact H].
      + assert (Hn' : 0 <= n <= i32_max) by lia.
        destruct (gnp_pairs_total n dir gaps Hn' Hg) as [E | (l & E & F & N)].
        * right. unfold fast_gnp_random_graph. pose proof Hp as Hp'. apply p_valid_check in Hp'. rewrite Hp'. cbn [negb].
          unfold gnp_graph, gnp_empty.
          destruct (empty_graph_ok (with_create (if dir then specs_directed else specs_undirected)) n) as [g0 E0].
          rewrite E0. cbn [bind]. rewrite E. reflexivity.
        * left. destruct (gnp_graph_ok n p dir gaps l ltac:(lia) Hp E F N) as (g & Eg & _).
          exists g. split; [exact Eg|apply HW; exact Eg].
    - intros Hp Hs. destruct (Z_lt_le_dec n 0) as [Hlt|Hge].
      + destruct (Hneg Hlt Hp) as (g & H). exists g. split; [exact H|apply HW; exact H].
      + rewrite Z.max_r in Hs by lia.
        exact (proj1 (proj2 generators_wf_total) n p dir gaps (conj Hge (proj2 Hn)) Hp Hg Hs).
  Qed.
End GeneratorsTotal.

(* ====================================================================================== *)
(* GraphML (C14 / C19).  The reader's argument is a string, not a graph: [evs] ranges over every
   sequence of results quick-xml can hand to the event loop, [parse] over every behaviour of
   str::parse::<f64>.  The writer model [write_events] is a total function (a list of events,
   no outcome type: `assert!(writer.write_event(..).is_ok())` writes into a Vec and cannot fail),
   so its totality is by type; what is stated is that its output is always readable. *)
From GV Require Import Model.XmlEscape Model.GraphML Spec.GraphMLDef Proofs.EscapeOk Proofs.GraphMLOk
     Proofs.ReaderTotal Proofs.GraphMLRoundTrip Proofs.GraphMLStateOk.

Section GraphMLTotal.
  Theorem total_read_graphml_string (parse : bytes -> option weight) (evs : list event) (s : specs) :
    (exists g, read_events parse evs s = Ok g /\ WF bytes_eqb bytes_ltb g) \/
    (exists k, read_events parse evs s = Err k /\
               (k = ReadError \/ k = SelfLoopsFound \/ k = NodeNotFound \/ k = DuplicateEdge)).
  Proof.
    destruct (read_events_total parse evs s) as (r & Hr & Hp & Hf).
    destruct (read_events parse evs s) as [g|k|site|] eqn:E; subst r; try discriminate.
    - left. exists g. split; [reflexivity|]. apply (read_events_ok_valid parse evs s g E).
    - right. exists k. split; [reflexivity|]. apply (read_events_error_kinds parse evs s k E).
  Qed.

  (* write_graphml_string on ANY graph state (coherent or not), then read back with the graph's
     own specs: a value or an error, never a panic, never out of fuel; on a reachable graph: Ok *)
  Theorem total_write_graphml_string (fmt : Z -> bytes) (parse : bytes -> option weight) (g : ggraph) :
    exists evs, write_events fmt g = evs /\
      is_panic (read_events parse evs (sp g)) = false /\ is_fuel (read_events parse evs (sp g)) = false.
  Proof.
    eexists. split; [reflexivity|].
    destruct (read_events_total parse (write_events fmt g) (sp g)) as (r & <- & Hp & Hf). auto.
  Qed.
End GraphMLTotal.

(* louvain_partitions / louvain_communities: Proofs/LouvainTotal.v (it uses total_modularity above) *)
