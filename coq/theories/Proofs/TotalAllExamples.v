(* Non-vacuity of the C20 roll-up (Proofs/TotalAll.v), one evaluated example per family, on
   graphs BUILT THROUGH THE PUBLIC CONSTRUCTOR (hence reachable, hence WF), with the degenerate
   features C20 names: an isolated node, a degree-one node, a self-loop, weights 0 and < 0, an
   edge without weight, parallel edges, an absent name, the unsupported graph kind.  Also the
   evaluated witnesses of what the [_partial] statements leave out. *)
From Coq Require Import String List Bool ZArith QArith Qabs Arith Lia.
From GV Require Import Base.Outcome Base.AMap Model.GState Model.Creation Model.Query Model.Derived
  Model.Components Model.Scc Model.Cluster Model.ClusterW Model.Square Model.Partition Model.Eigen Model.Cent
  Model.Brandes Model.Closeness Model.Louvain.
From GV Require Import Model.Classic Model.Gnp.
From GV Require Import Spec.History Proofs.WFDefs Proofs.HistoryOk Proofs.DegreeOk Proofs.LouvainModelOk Proofs.TotalAll Proofs.LouvainTotal.
Import ListNotations.
Open Scope string_scope.

Lemma tZeqb_spec : forall x y : Z, Z.eqb x y = true <-> x = y.
Proof. exact Z.eqb_eq. Qed.
Lemma tZltb_asym : forall x y : Z, Z.ltb x y = true -> Z.ltb y x = false.
Proof. intros x y H. apply Z.ltb_lt in H. apply Z.ltb_ge. lia. Qed.
Lemma tZltb_total : forall x y : Z, Z.ltb x y = false -> Z.ltb y x = false -> x = y.
Proof. intros x y H1 H2. apply Z.ltb_ge in H1. apply Z.ltb_ge in H2. lia. Qed.

Definition t_spU := mkspecs false DErr MCreate false true SErr.   (* undirected, single edges, self-loops *)
Definition t_spD := mkspecs true DErr MCreate false true SErr.    (* directed *)
Definition t_spM := mkspecs false DErr MCreate true true SErr.    (* undirected multigraph *)
Definition t_nodes (l : list Z) : list (node Z Z) := map (fun z => mknode z None) l.
Definition t_build (ns : list Z) (s : specs) (es : list (edge Z Z)) : gstate Z Z :=
  match new_from_nodes_and_edges Z.eqb Z.ltb (t_nodes ns) es s with Ok g => g | _ => new s end.

(* nodes 5 3 7 1 9 (9 isolated, 1 of degree one); a triangle 5-3-7 with weights 2, 0, -1; a tail
   7-1; a self-loop on 7 *)
Definition t_edges5 : list (edge Z Z) :=
  [mkedge 5 3 (Some 2) None; mkedge 3 7 (Some 0) None; mkedge 7 5 (Some (-1)) None;
   mkedge 7 1 (Some 1) None; mkedge 7 7 (Some 3) None]%Z.
Definition t_gU := t_build [5; 3; 7; 1; 9]%Z t_spU t_edges5.
Definition t_gD := t_build [5; 3; 7; 1; 9]%Z t_spD t_edges5.
Definition t_gM := t_build [5; 3; 7; 1; 9]%Z t_spM (t_edges5 ++ [mkedge 5 3 (Some 4) None]%Z).
(* one edge without weight *)
Definition t_gN := t_build [5; 3; 7; 1; 9]%Z t_spU [mkedge 5 3 (Some 2) None; mkedge 3 7 None None]%Z.
(* a triangle with weights 2, 1, 1: the normalised product 1/4 has no rational cube root *)
Definition t_gT := t_build [1; 2; 3]%Z t_spU
  [mkedge 1 2 (Some 2) None; mkedge 2 3 (Some 1) None; mkedge 3 1 (Some 1) None]%Z.
(* total weight 0 with non-zero terms *)
Definition t_gZ := t_build [1; 2; 3; 4]%Z t_spU [mkedge 1 2 (Some 1) None; mkedge 3 4 (Some (-1)) None]%Z.

Lemma t_build_WF ns s es g :
  new_from_nodes_and_edges Z.eqb Z.ltb (t_nodes ns) es s = Ok g -> WF Z.eqb Z.ltb g.
Proof.
  intros H. exact (WF_reachable Z.eqb Z.ltb tZeqb_spec tZltb_asym tZltb_total _ _
                     (new_from_reachable Z.eqb Z.ltb tZeqb_spec _ _ _ _ H)).
Qed.

Lemma t_gU_WF : WF Z.eqb Z.ltb t_gU.
Proof. apply (t_build_WF [5; 3; 7; 1; 9]%Z t_spU t_edges5). vm_compute. reflexivity. Qed.
Lemma t_gD_WF : WF Z.eqb Z.ltb t_gD.
Proof. apply (t_build_WF [5; 3; 7; 1; 9]%Z t_spD t_edges5). vm_compute. reflexivity. Qed.
Lemma t_gM_WF : WF Z.eqb Z.ltb t_gM.
Proof. apply (t_build_WF [5; 3; 7; 1; 9]%Z t_spM (t_edges5 ++ [mkedge 5 3 (Some 4) None]%Z)). vm_compute. reflexivity. Qed.
Lemma t_gN_WF : WF Z.eqb Z.ltb t_gN.
Proof. apply (t_build_WF [5; 3; 7; 1; 9]%Z t_spU [mkedge 5 3 (Some 2) None; mkedge 3 7 None None]%Z). vm_compute. reflexivity. Qed.
Lemma t_gT_WF : WF Z.eqb Z.ltb t_gT.
Proof.
  apply (t_build_WF [1; 2; 3]%Z t_spU [mkedge 1 2 (Some 2) None; mkedge 2 3 (Some 1) None; mkedge 3 1 (Some 1) None]%Z).
  vm_compute. reflexivity.
Qed.
Lemma t_gZ_WF : WF Z.eqb Z.ltb t_gZ.
Proof.
  apply (t_build_WF [1; 2; 3; 4]%Z t_spU [mkedge 1 2 (Some 1) None; mkedge 3 4 (Some (-1)) None]%Z).
  vm_compute. reflexivity.
Qed.

(* ---------------------------------------------------------------- components, BFS *)
Example total_components_example :
  WF Z.eqb Z.ltb t_gU /\ WF Z.eqb Z.ltb t_gD /\
  connected_components Z.eqb t_gU = Ok [[5; 3; 7; 1]; [9]]%Z /\
  number_of_connected_components Z.eqb t_gU = Ok 2%nat /\
  node_connected_component Z.eqb t_gU 1%Z = Ok [1; 7; 5; 3]%Z /\
  node_connected_component Z.eqb t_gU 42%Z = Err NodeNotFound /\
  connected_components Z.eqb t_gD = Err WrongMethod /\
  node_connected_component Z.eqb t_gD 1%Z = Err WrongMethod /\
  weakly_connected_components Z.eqb t_gD = Ok [[5; 3; 7; 1]; [9]]%Z /\
  strongly_connected_components Z.eqb (fun l => l) t_gD = Ok [[1]; [5; 3; 7]; [9]]%Z /\
  weakly_connected_components Z.eqb t_gU = Err WrongMethod /\
  strongly_connected_components Z.eqb (fun l => l) t_gU = Err WrongMethod /\
  bfs_equal_size_partitions t_gU 2 = Ok [[5; 3; 7]; [1; 9]]%Z /\
  breadth_first_search Z.eqb t_gD 3%Z = Ok [3; 7; 5; 1]%Z /\
  breadth_first_search Z.eqb t_gU 9%Z = Ok [9]%Z.
Proof. split; [exact t_gU_WF|]. split; [exact t_gD_WF|]. vm_compute. repeat split. Qed.

(* ---------------------------------------------------------------- degree centrality, clustering family *)
Example total_cluster_example :
  WF Z.eqb Z.ltb t_gM /\
  (exists l, degree_centrality Z.eqb Z.ltb t_gU = Ok l /\ map fst l = [5; 3; 7; 1; 9]%Z) /\
  triangles Z.eqb t_gU None = Ok [(5%Z, 1%nat); (3%Z, 1%nat); (7%Z, 1%nat); (1%Z, 0%nat); (9%Z, 0%nat)] /\
  triangles Z.eqb t_gU (Some [42%Z]) = Err NodeNotFound /\
  triangles Z.eqb t_gD None = Err WrongMethod /\
  generalized_degree Z.eqb t_gM None = Err WrongMethod /\
  transitivity Z.eqb t_gU = Ok (3 # 5)%Q /\
  transitivity Z.eqb t_gD = Err WrongMethod /\
  clustering Z.eqb t_gD (Some [7; 9]%Z) = Ok [(7%Z, (1 # 6)%Q); (9%Z, 0%Q)] /\
  clustering Z.eqb t_gD (Some [7; 42]%Z) = Err NodeNotFound /\
  clustering Z.eqb t_gM None = Err WrongMethod /\
  average_clustering Z.eqb t_gU None false = Ok (Some (7 # 9)%Q) /\
  (exists m, square_clustering Z.eqb t_gU None = Ok m /\ length m = 5%nat) /\
  square_clustering Z.eqb t_gD (Some [7%Z]) = Ok [(7%Z, 0%Q)] /\
  (exists m, square_clustering Z.eqb t_gM None = Ok m /\ length m = 5%nat).
Proof.
  split; [exact t_gM_WF|]. vm_compute.
  repeat match goal with |- _ /\ _ => split end; try reflexivity; eexists; split; reflexivity.
Qed.

(* weighted = true: the guards answer; the numeric body is outside the model's exact domain as
   soon as a product of normalised weights is not a perfect cube (weights 2, 1, 1) *)
Example total_clustering_weighted_example :
  WF Z.eqb Z.ltb t_gN /\ WF Z.eqb Z.ltb t_gT /\
  clustering_weighted Z.eqb t_gM None = Err WrongMethod /\
  clustering_weighted Z.eqb t_gU (Some [42%Z]) = Err NodeNotFound /\
  clustering_weighted Z.eqb t_gN None = Err EdgeWeightNotSpecified /\
  average_clustering_weighted Z.eqb t_gN None true = Err EdgeWeightNotSpecified /\
  (exists m, clustering_weighted Z.eqb t_gU None = Ok m /\ length m = 5%nat) /\
  clustering_weighted Z.eqb t_gT None = Panic "cbrt: not a perfect cube".
Proof.
  split; [exact t_gN_WF|]. split; [exact t_gT_WF|]. vm_compute.
  repeat match goal with |- _ /\ _ => split end; try reflexivity; eexists; split; reflexivity.
Qed.

(* ---------------------------------------------------------------- is_partition, modularity *)
Example total_partition_example :
  is_partition Z.eqb t_gU [[5; 3]; [7; 1; 9]]%Z = Ok true /\
  is_partition Z.eqb t_gU [[5; 3]; [7; 1; 42]]%Z = Ok false /\
  is_partition Z.eqb t_gU [[5; 3]; [3; 7; 1; 9]; []]%Z = Ok false /\
  modularity Z.eqb Z.ltb t_gU [[5; 3]; [7; 1; 9]]%Z false 1 = Ok (Some (2 # 25)%Q) /\
  modularity Z.eqb Z.ltb t_gU [[5; 3]; [7; 1]]%Z false 1 = Err NotAPartition /\
  (* a negative weight, total weight not 0: a value *)
  modularity Z.eqb Z.ltb t_gU [[5; 3]; [7; 1; 9]]%Z true 1 = Ok (Some (31 # 50)%Q) /\
  (* an edge without weight under weighted = true: NaN *)
  no_negative_weight t_gN /\ modularity Z.eqb Z.ltb t_gN [[5; 3]; [7; 1; 9]]%Z true 1 = Ok None /\
  (* the one input class the full statement excludes: weights 1 and -1, total weight 0, non-zero terms *)
  WF Z.eqb Z.ltb t_gZ /\ ~ no_negative_weight t_gZ /\
  modularity Z.eqb Z.ltb t_gZ [[1; 2]; [3; 4]]%Z true 1 = Panic modularity_domain_site /\
  modularity Z.eqb Z.ltb t_gZ [[1; 2]; [3; 4]]%Z false 1 = Ok (Some (1 # 2)%Q) /\
  modularity Z.eqb Z.ltb t_gZ [[1; 2]; [3; 3]]%Z true 1 = Err NotAPartition.
Proof.
  repeat match goal with |- _ /\ _ => split end; try (vm_compute; reflexivity).
  - intros e z He Hz. vm_compute in He. destruct He as [<-|[<-|[]]]; cbn in Hz; inversion Hz; lia.
  - exact t_gZ_WF.
  - intros H. assert (C : (0 <= -1)%Z); [|lia].
    apply (H (mkedge 3%Z 4%Z (Some (-1)%Z) None) (-1)%Z); [vm_compute; tauto|reflexivity].
Qed.

(* ---------------------------------------------------------------- eigenvector centrality *)
(* the theorem holds for EVERY number structure and uses no law; the example runs the model in
   exact rationals with the identity standing for sqrt *)
Definition NumQ : Num := mkNum Q 0%Q 1%Q Qplus Qminus Qmult Qdiv Qabs (fun x => x)
   (fun a b => match Qcompare a b with Lt => true | _ => false end) Qeq_bool inject_Z.

Example total_eigenvector_example :
  (exists x, eigenvector_centrality Z.eqb NumQ t_gT true (Some 3%nat) (Some (1 # 2)%Q) = Ok x /\ length x = 3%nat) /\
  eigenvector_centrality Z.eqb NumQ t_gT true (Some 1%nat) (Some (1 # 1000000)%Q) = Err PowerIterationFailedConvergence /\
  (exists x, eigenvector_centrality Z.eqb NumQ t_gN true (Some 5%nat) (Some (1 # 1)%Q) = Ok x /\ length x = 5%nat) /\
  eigenvector_centrality Z.eqb NumQ t_gM true None None = Err WrongMethod.
Proof.
  vm_compute. repeat match goal with |- _ /\ _ => split end; try reflexivity; eexists; split; reflexivity.
Qed.

(* ---------------------------------------------------------------- betweenness, closeness *)
(* weights 2, 0, -1, 1, 3: all real, not positive - outside the hypotheses of the C05 / C06 value
   theorems, inside those of the totality theorems; and the excluded input: an edge without
   weight with weighted = true *)
Example total_centrality_example :
  all_real (get_all_edges t_gU) /\ all_real (get_all_edges t_gD) /\ ~ all_real (get_all_edges t_gN) /\
  betweenness_centrality false t_gU true true = Ok [(5%Z, 0%Q); (3%Z, 0%Q); (7%Z, (3 # 4)%Q); (1%Z, 0%Q); (9%Z, 0%Q)] /\
  betweenness_centrality true t_gD true false = Ok [(5%Z, 1%Q); (3%Z, 2%Q); (7%Z, 3%Q); (1%Z, 0%Q); (9%Z, 0%Q)] /\
  betweenness_centrality false t_gN false true = Ok [(5%Z, 0%Q); (3%Z, (1 # 6)%Q); (7%Z, 0%Q); (1%Z, 0%Q); (9%Z, 0%Q)] /\
  betweenness_centrality false t_gN true true = Panic site_nan /\
  closeness_centrality Z.eqb Z.ltb false t_gU true true = Ok [(5%Z, 0%Q); (3%Z, 0%Q); (7%Z, 0%Q); (1%Z, (9 # 8)%Q); (9%Z, 0%Q)] /\
  closeness_centrality Z.eqb Z.ltb true t_gD true false = Ok [(5%Z, 0%Q); (3%Z, (2 # 3)%Q); (7%Z, 1%Q); (1%Z, (3 # 5)%Q); (9%Z, 0%Q)] /\
  closeness_centrality Z.eqb Z.ltb false t_gN false true = Ok [(5%Z, (1 # 3)%Q); (3%Z, (1 # 2)%Q); (7%Z, (1 # 3)%Q); (1%Z, 0%Q); (9%Z, 0%Q)] /\
  closeness_centrality Z.eqb Z.ltb false t_gN true true = Panic site_nan.
Proof.
  assert (R : forall es : list (edge Z Z), forallb (fun e => match ew e with Some _ => true | None => false end) es = true -> all_real es).
  { intros es H e He. rewrite forallb_forall in H. specialize (H e He). destruct (ew e) as [z|]; [eauto|discriminate]. }
  split; [apply R; vm_compute; reflexivity|]. split; [apply R; vm_compute; reflexivity|]. split.
  { intros H. destruct (H (mkedge 3%Z 7%Z None None)) as (z & Hz); [vm_compute; tauto|discriminate]. }
  vm_compute. repeat split.
Qed.

(* ---------------------------------------------------------------- Louvain *)
Definition t_perms3 : list (list nat) := [[0]; [1; 0]; [2; 0; 1]]%nat.
Definition t_perms5 : list (list nat) := [[0]; [1; 0]; [2; 0; 1]; [3; 1; 0; 2]; [4; 2; 0; 3; 1]]%nat.

Example total_louvain_example :
  WF Z.eqb Z.ltb t_gT /\ weights_ok t_gT true /\ weights_ok t_gT false /\ (0 <= 1)%Q /\
  (length (nodes_vec t_gT) < 4)%nat /\ (length (nodes_vec t_gT) ^ length (nodes_vec t_gT) <= 27)%nat /\
  shuffle_ok t_perms3 (length (nodes_vec t_gT)) /\
  louvain_partitions Z.eqb Z.ltb 4 27 t_gT true 1 (1 # 10000000)%Q t_perms3 = Ok [[[2; 1; 3]]]%Z /\
  louvain_communities Z.eqb Z.ltb 4 27 t_gT false 1 (1 # 10000000)%Q t_perms3 = Ok [[1; 3; 2]]%Z /\
  (* directed, and multi-edge (collapsed by to_single_edges first), five nodes, fuel 6 and 5^5 *)
  louvain_communities Z.eqb Z.ltb 6 3125 t_gD false 1 (1 # 10000000)%Q t_perms5 = Ok [[1; 7]; [3; 5]; [9]]%Z /\
  louvain_communities Z.eqb Z.ltb 6 3125 t_gM false 1 (1 # 10000000)%Q t_perms5 = Ok [[1; 7]; [3; 5]; [9]]%Z /\
  (* what the hypotheses exclude, evaluated: an ill-formed shuffle table (the model's own oracle) ... *)
  louvain_partitions Z.eqb Z.ltb 4 27 t_gT true 1 (1 # 10000000)%Q [[0%nat]] =
    Panic "model: shuffle table has no row for this node count" /\
  (* ... weighted = true with an edge without weight: a model-domain site (no NaN arithmetic in the
     exact model) ... *)
  ~ weights_ok t_gN true /\
  louvain_partitions Z.eqb Z.ltb 6 3125 t_gN true 1 (1 # 10000000)%Q t_perms5 = Panic nan_site /\
  (* ... a negative weight under weighted = true (all weights real: the hypothesis of
     [louvain_total_guarded]) is answered by the guard of F23, whether the total is 0 (t_gZ: 1, -1)
     or not (t_gU); before the repair the model reported a domain site resp. returned levels ... *)
  ~ weights_ok t_gU true /\ all_real (get_all_edges t_gU) /\ has_negative_edge t_gU /\ has_negative_edge t_gZ /\
  louvain_partitions Z.eqb Z.ltb 6 3125 t_gZ true 1 (1 # 10000000)%Q t_perms5 = Err InvalidArgument /\
  louvain_partitions Z.eqb Z.ltb 6 3125 t_gU true 1 (1 # 10000000)%Q t_perms5 = Err InvalidArgument /\
  louvain_communities Z.eqb Z.ltb 6 3125 t_gU true 1 (1 # 10000000)%Q t_perms5 = Err InvalidArgument /\
  (* ... and not under weighted = false; a negative resolution just returns *)
  louvain_partitions Z.eqb Z.ltb 6 3125 t_gU false (-1) (1 # 10000000)%Q t_perms5 = Ok [[[3; 7; 5; 1]; [9]]]%Z.
Proof.
  split; [exact t_gT_WF|]. split.
  { intros _ e He. vm_compute in He. destruct He as [<-|[<-|[<-|[]]]]; cbn; eexists; split; try reflexivity; lia. }
  split; [intros H; discriminate|]. split; [discriminate|].
  split; [vm_compute; lia|]. split; [vm_compute; lia|].
  split.
  { intros k Hk. change (length (nodes_vec t_gT)) with 3%nat in Hk.
    assert (Hc : (k = 1 \/ k = 2 \/ k = 3)%nat) by lia.
    destruct Hc as [ -> | [ -> | -> ] ]; eexists; (split; [reflexivity|]); (split; [reflexivity|]);
      cbn; intros i Hi; intuition lia. }
  split; [vm_compute; reflexivity|]. split; [vm_compute; reflexivity|].
  split; [vm_compute; reflexivity|]. split; [vm_compute; reflexivity|].
  split; [vm_compute; reflexivity|].
  split.
  { intros H. destruct (H eq_refl (mkedge 3%Z 7%Z None None)) as (z & Hz & _); [vm_compute; tauto|discriminate]. }
  split; [vm_compute; reflexivity|].
  split.
  { intros H. destruct (H eq_refl (mkedge 5%Z 7%Z (Some (-1)%Z) None)) as (z & Hz & Hp); [vm_compute; tauto|].
    cbn in Hz. inversion Hz. subst z. lia. }
  split.
  { intros e He. vm_compute in He. destruct He as [<-|[<-|[<-|[<-|[<-|[]]]]]]; cbn; eexists; reflexivity. }
  split.
  { exists (mkedge 5%Z 7%Z (Some (-1)%Z) None), (-1)%Z. split; [vm_compute; tauto|]. split; [reflexivity|lia]. }
  split.
  { exists (mkedge 3%Z 4%Z (Some (-1)%Z) None), (-1)%Z. split; [vm_compute; tauto|]. split; [reflexivity|lia]. }
  split; [vm_compute; reflexivity|]. split; [vm_compute; reflexivity|].
  split; vm_compute; reflexivity.
Qed.

(* F23's input: the undirected star 2-3 (2), 2-5 (2), 2-11 (-1), 2-7 (-2).  Weighted: the guard
   answers InvalidArgument (the pre-repair implementation did not return); unweighted: levels. *)
Definition t_gS := t_build [2; 3; 5; 11; 7]%Z t_spU
  [mkedge 2 3 (Some 2) None; mkedge 2 5 (Some 2) None; mkedge 2 11 (Some (-1)) None; mkedge 2 7 (Some (-2)) None]%Z.
Lemma t_gS_WF : WF Z.eqb Z.ltb t_gS.
Proof.
  apply (t_build_WF [2; 3; 5; 11; 7]%Z t_spU
    [mkedge 2 3 (Some 2) None; mkedge 2 5 (Some 2) None; mkedge 2 11 (Some (-1)) None; mkedge 2 7 (Some (-2)) None]%Z).
  vm_compute. reflexivity.
Qed.

Example louvain_negative_weights_example :
  WF Z.eqb Z.ltb t_gS /\ all_real (get_all_edges t_gS) /\ has_negative_edge t_gS /\
  louvain_partitions Z.eqb Z.ltb 6 3125 t_gS true 1 (1 # 10000000)%Q t_perms5 = Err InvalidArgument /\
  louvain_communities Z.eqb Z.ltb 6 3125 t_gS true 1 (1 # 10000000)%Q t_perms5 = Err InvalidArgument /\
  (* whatever the fuel and the shuffle table: nothing is computed before the guard *)
  louvain_communities Z.eqb Z.ltb 0 0 t_gS true 1 (1 # 10000000)%Q [] = Err InvalidArgument /\
  louvain_partitions Z.eqb Z.ltb 6 3125 t_gS false 1 (1 # 10000000)%Q t_perms5 = Ok [[[2; 7; 5; 11; 3]]]%Z /\
  louvain_communities Z.eqb Z.ltb 6 3125 t_gS false 1 (1 # 10000000)%Q t_perms5 = Ok [[2; 7; 5; 11; 3]]%Z.
Proof.
  split; [exact t_gS_WF|]. split.
  { intros e He. vm_compute in He. destruct He as [<-|[<-|[<-|[<-|[]]]]]; cbn; eexists; reflexivity. }
  split.
  { exists (mkedge 2%Z 11%Z (Some (-1)%Z) None), (-1)%Z. split; [vm_compute; tauto|]. split; [reflexivity|lia]. }
  split; [vm_compute; reflexivity|]. split; [vm_compute; reflexivity|]. split; [vm_compute; reflexivity|].
  split; vm_compute; reflexivity.
Qed.

(* ---------------------------------------------------------------- generators: arguments outside the valid range *)
Example total_generators_example :
  (exists g, complete_graph (-3) true = Ok g /\ get_all_nodes g = []) /\
  (exists g, complete_graph 1 false = Ok g /\ length (get_all_nodes g) = 1%nat /\ get_all_edges g = []) /\
  fast_gnp_random_graph 4 FNaN true [0%Z] = Err InvalidArgument /\
  fast_gnp_random_graph 4 (FInf false) false [] = Err InvalidArgument /\
  (exists g, fast_gnp_random_graph (-7) (FFin (1 # 2)) false [] = Ok g /\ get_all_nodes g = []) /\
  fast_gnp_random_graph 4 (FFin (1 # 2)) false [1%Z] = OutOfFuel /\
  (exists g, fast_gnp_random_graph 4 (FFin (1 # 2)) false [1; 0; 2; 0; 0; 7; 0]%Z = Ok g /\
             length (get_all_edges g) = 3%nat).
Proof.
  split. { eexists. split; vm_compute; reflexivity. }
  split. { eexists. split; [vm_compute; reflexivity|]. split; vm_compute; reflexivity. }
  split; [vm_compute; reflexivity|]. split; [vm_compute; reflexivity|].
  split. { eexists. split; vm_compute; reflexivity. }
  split; [vm_compute; reflexivity|].
  eexists. split; vm_compute; reflexivity.
Qed.
