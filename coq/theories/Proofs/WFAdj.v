(* Generic lemmas about the building blocks of add_edge's index updates:
   storage keys ([cn]), HashMap<K, HashSet<X>> updates ([upd_set]), and the
   traversal-list update [add_to_adjacency_vec]. *)
From Coq Require Import List Bool Arith Lia.
From GV Require Import Base.Outcome Base.AMap Model.GState Model.Creation.
From GV Require Import Proofs.AMapOk Proofs.WFDefs.
Import ListNotations.

Section CnOk.
  Context {T : Type}.
  Variable tltb : T -> T -> bool.
  Hypothesis tltb_asym : forall x y, tltb x y = true -> tltb y x = false.
  Hypothesis tltb_total : forall x y, tltb x y = false -> tltb y x = false -> x = y.

  Lemma cn_directed s x y : directed s = true -> cn tltb s x y = (x, y).
  Proof. intros H. unfold cn. rewrite H. reflexivity. Qed.

  Lemma cn_sym s x y : directed s = false -> cn tltb s x y = cn tltb s y x.
  Proof.
    intros H. unfold cn. rewrite H. simpl.
    destruct (tltb y x) eqn:E1; destruct (tltb x y) eqn:E2; try reflexivity.
    - apply tltb_asym in E1. congruence.
    - rewrite (tltb_total _ _ E1 E2). reflexivity.
  Qed.

  Lemma cn_inj s x y x' y' :
    cn tltb s x y = cn tltb s x' y' ->
    (x = x' /\ y = y') \/ (directed s = false /\ x = y' /\ y = x').
  Proof.
    unfold cn. destruct (directed s); simpl.
    - intros H. inversion H. auto.
    - destruct (tltb y x); destruct (tltb y' x'); intros H; inversion H; auto.
  Qed.

  Lemma cn_ordered s x y : directed s = false -> tltb (snd (cn tltb s x y)) (fst (cn tltb s x y)) = false.
  Proof.
    intros H. unfold cn. rewrite H. simpl. destruct (tltb y x) eqn:E; simpl; [|exact E].
    apply tltb_asym. exact E.
  Qed.
End CnOk.

Section UpdSet.
  Context {K X : Type}.
  Variable keqb : K -> K -> bool.
  Variable xeqb : X -> X -> bool.
  Hypothesis keqb_spec : forall a b, keqb a b = true <-> a = b.
  Hypothesis xeqb_spec : forall a b, xeqb a b = true <-> a = b.

  Lemma or_default_upd_set k k' x (m : list (K * list X)) :
    or_default keqb k' (upd_set keqb xeqb k x m) =
    if keqb k' k then set_add xeqb x (or_default keqb k m) else or_default keqb k' m.
  Proof.
    unfold or_default, upd_set. rewrite (lookup_insert keqb keqb_spec).
    destruct (keqb k' k); reflexivity.
  Qed.

  Lemma lookup_upd_set k k' x (m : list (K * list X)) :
    lookup keqb k' (upd_set keqb xeqb k x m) =
    if keqb k' k then Some (set_add xeqb x (or_default keqb k m)) else lookup keqb k' m.
  Proof. unfold upd_set. rewrite (lookup_insert keqb keqb_spec). reflexivity. Qed.
End UpdSet.

Section AdjVec.
  Context {T A : Type}.
  Notation edge := (edge T A).

  Lemma position_spec v (row : list adj) : forall i0,
    match position v row i0 with
    | Some idx => i0 <= idx /\ exists w, nth_error row (idx - i0) = Some (v, w) /\
                  forall k, k < idx - i0 -> forall a, nth_error row k = Some a -> fst a <> v
    | None => ~ In v (map fst row)
    end.
  Proof.
    induction row as [|[j w] t IH]; intros i0; simpl.
    - intros [].
    - destruct (Nat.eqb j v) eqn:E.
      + apply Nat.eqb_eq in E. subst j. split; [lia|]. exists w. rewrite Nat.sub_diag. simpl.
        split; [reflexivity|]. intros k Hk. lia.
      + apply Nat.eqb_neq in E. specialize (IH (S i0)).
        destruct (position v t (S i0)) as [idx|].
        * destruct IH as (Hle & w' & Hn & Hbefore). split; [lia|]. exists w'.
          replace (idx - i0) with (S (idx - S i0)) by lia. simpl. split; [exact Hn|].
          intros k Hk a Ha. destruct k; simpl in Ha.
          -- inversion Ha. subst a. simpl. exact E.
          -- eapply Hbefore; [|exact Ha]. lia.
        * simpl. intros [H|H]; [congruence | contradiction].
  Qed.

  Lemma run_min_snoc (l : list edge) (e : edge) :
    l <> [] ->
    run_min (l ++ [e]) = if wlt (ew e) (run_min l) then ew e else run_min l.
  Proof.
    destruct l as [|h t]; [congruence|]. intros _. simpl.
    rewrite fold_left_app. reflexivity.
  Qed.

  (* one call of add_to_adjacency_vec on row u, entry v *)
  Lemma add_to_adjacency_vec_ok (s : specs) (av : list (list adj)) (rel : nat -> nat -> option (list edge))
        (u v : nat) (w : weight) (newl : list edge) :
    u < length av ->
    (forall i row, nth_error av i = Some row -> row_ok s (rel i) row) ->
    (forall l, rel u v = Some l ->
       adjw s newl = if (if multi s then wlt w (adjw s l) else match dd s with DKeepLast => true | _ => false end)
                     then w else adjw s l) ->
    (rel u v = None -> adjw s newl = w) ->
    exists av',
      add_to_adjacency_vec s av u v w (match rel u v with Some _ => true | None => false end) = Ok av' /\
      length av' = length av /\
      forall i row, nth_error av' i = Some row ->
        row_ok s (fun j => if Nat.eqb i u && Nat.eqb j v then Some newl else rel i j) row.
  Proof.
    intros Hu Hrows Hex Hnew. unfold add_to_adjacency_vec.
    destruct (nth_error av u) as [row|] eqn:Erow; [|apply nth_error_None in Erow; lia].
    destruct (Hrows u row Erow) as (Hnd & Hmem).
    assert (Hother : forall i r, i <> u -> nth_error av i = Some r ->
              row_ok s (fun j => if Nat.eqb i u && Nat.eqb j v then Some newl else rel i j) r).
    { intros i r Hi Hr. destruct (Hrows i r Hr) as (Ha & Hb). split; [exact Ha|].
      intros j w'. rewrite (proj2 (Nat.eqb_neq i u) Hi). simpl. apply Hb. }
    destruct (rel u v) as [l|] eqn:Erel.
    - (* the pair already has an entry *)
      specialize (Hex l eq_refl).
      assert (Hin : In (v, adjw s l) row) by (apply Hmem; eauto).
      pose proof (position_spec v row 0) as Hpos.
      destruct (position v row 0) as [idx|].
      2:{ exfalso. apply Hpos. apply (in_map fst) in Hin. exact Hin. }
      destruct Hpos as (_ & w0 & Hn & _). rewrite Nat.sub_0_r in Hn. rewrite Hn.
      assert (Hw0 : w0 = adjw s l).
      { assert (In (v, w0) row) as Hin0 by (eapply nth_error_In; exact Hn).
        apply Hmem in Hin0. destruct Hin0 as (l' & Hl' & Hw'). rewrite Erel in Hl'. inversion Hl'. subst. reflexivity. }
      subst w0.
      set (replace := if multi s then wlt w (adjw s l) else match dd s with DKeepLast => true | _ => false end) in *.
      destruct replace eqn:Erep.
      + assert (Hidx : idx < length row) by (apply nth_error_Some; congruence).
        destruct (set_nth_Some idx (v, w) row Hidx) as (row' & Hrow'). rewrite Hrow'.
        destruct (set_nth_Some u row' av Hu) as (av' & Hav'). rewrite Hav'.
        exists av'. split; [reflexivity|]. split; [eapply set_nth_length; exact Hav'|].
        intros i r Hr. rewrite (set_nth_nth _ i _ _ _ Hav') in Hr.
        destruct (Nat.eq_dec i u) as [Eiu|Eiu].
        * subst i. rewrite Nat.eqb_refl in Hr. inversion Hr. subst r. clear Hr.
          assert (Hfst : map fst row' = map fst row).
          { eapply set_nth_same_map with (x := (v, w)); [exact Hn | reflexivity | exact Hrow']. }
          split; [rewrite Hfst; exact Hnd|].
          intros j w'. rewrite Nat.eqb_refl. cbn [andb]. split.
          -- intros Hin'. apply In_nth_error in Hin'. destruct Hin' as (k & Hk).
             rewrite (set_nth_nth _ k _ _ _ Hrow') in Hk.
             destruct (Nat.eqb k idx) eqn:Ek.
             ++ inversion Hk. subst j w'. rewrite Nat.eqb_refl. exists newl. split; [reflexivity|].
                rewrite Hex. reflexivity.
             ++ assert (Hin2 : In (j, w') row) by (eapply nth_error_In; exact Hk).
                destruct (Nat.eqb j v) eqn:Ejv.
                ** exfalso. apply Nat.eqb_eq in Ejv. subst j.
                   apply Nat.eqb_neq in Ek. apply Ek.
                   rewrite NoDup_nth_error in Hnd.
                   apply Hnd; [rewrite map_length; apply nth_error_Some; congruence|].
                   rewrite !nth_error_map, Hk, Hn. reflexivity.
                ** apply Hmem. exact Hin2.
          -- intros (l' & Hl' & Hw'). destruct (Nat.eqb j v) eqn:Ejv.
             ++ apply Nat.eqb_eq in Ejv. subst j. inversion Hl'. subst l'. rewrite Hex in Hw'. subst w'.
                eapply nth_error_In. rewrite (set_nth_nth _ idx _ _ _ Hrow'), Nat.eqb_refl. reflexivity.
             ++ assert (Hin2 : In (j, w') row) by (apply Hmem; eauto).
                apply In_nth_error in Hin2. destruct Hin2 as (k & Hk).
                eapply nth_error_In. rewrite (set_nth_nth _ k _ _ _ Hrow').
                destruct (Nat.eqb k idx) eqn:Ek; [|exact Hk].
                apply Nat.eqb_eq in Ek. subst k. rewrite Hn in Hk. inversion Hk. subst.
                rewrite Nat.eqb_refl in Ejv. discriminate.
        * rewrite (proj2 (Nat.eqb_neq i u) Eiu) in Hr. apply Hother; assumption.
      + exists av. split; [reflexivity|]. split; [reflexivity|].
        intros i r Hr. destruct (Nat.eq_dec i u) as [Eiu|Eiu].
        * subst i. rewrite Erow in Hr. inversion Hr. subst r.
          split; [exact Hnd|]. intros j w'. rewrite Nat.eqb_refl. cbn [andb].
          destruct (Nat.eqb j v) eqn:Ejv.
          -- apply Nat.eqb_eq in Ejv. subst j. rewrite Hmem, Erel. split.
             ++ intros (l' & Hl' & Hw'). inversion Hl'. subst l'. exists newl. split; [reflexivity|].
                rewrite Hex. exact Hw'.
             ++ intros (l' & Hl' & Hw'). inversion Hl'. subst l'. exists l. split; [reflexivity|].
                rewrite Hex in Hw'. exact Hw'.
          -- apply Hmem.
        * apply Hother; assumption.
    - (* new pair: push *)
      specialize (Hnew eq_refl).
      destruct (set_nth_Some u (row ++ [(v, w)]) av Hu) as (av' & Hav'). rewrite Hav'.
      exists av'. split; [reflexivity|]. split; [eapply set_nth_length; exact Hav'|].
      intros i r Hr. rewrite (set_nth_nth _ i _ _ _ Hav') in Hr.
      destruct (Nat.eq_dec i u) as [Eiu|Eiu].
      + subst i. rewrite Nat.eqb_refl in Hr. inversion Hr. subst r. clear Hr.
        assert (Hnv : ~ In v (map fst row)).
        { intros Hv. apply in_map_iff in Hv. destruct Hv as ((j, w') & Ej & Hin). simpl in Ej. subst j.
          apply Hmem in Hin. destruct Hin as (l' & Hl' & _). congruence. }
        split.
        * rewrite map_app. simpl. apply NoDup_snoc; assumption.
        * intros j w'. rewrite in_app_iff, Nat.eqb_refl. cbn [andb In]. destruct (Nat.eqb j v) eqn:Ejv.
          -- apply Nat.eqb_eq in Ejv. subst j. split.
             ++ intros [Hin|[Hin|[]]].
                ** exfalso. apply Hnv. apply (in_map fst) in Hin. exact Hin.
                ** inversion Hin. subst w'. exists newl. split; [reflexivity|]. symmetry. exact Hnew.
             ++ intros (l' & Hl' & Hw'). inversion Hl'. subst l'. right. left. rewrite Hw', Hnew. reflexivity.
          -- rewrite Hmem. split.
             ++ intros [H|[H|[]]]; [exact H|]. inversion H. subst. rewrite Nat.eqb_refl in Ejv. discriminate.
             ++ intros H. left. exact H.
      + rewrite (proj2 (Nat.eqb_neq i u) Eiu) in Hr. apply Hother; assumption.
  Qed.
End AdjVec.
