(* The coherence invariant WF of the twelve-field graph state (DESIGN.md
   Appendix A): every private index of [Graph] agrees with the node list and
   the name-keyed edge store.  All clauses are phrased through one function,
   [grp_of g i j] — the stored group of edges between the i-th and the j-th
   node (in storage orientation) — so that an [add_edge] step is "one group
   changes, everything else follows". *)
From Coq Require Import List Bool Arith Lia.
From GV Require Import Base.Outcome Base.AMap Model.GState Model.Creation.
Import ListNotations.

Section WFDefs.
  Context {T A : Type}.
  Variable teqb : T -> T -> bool.
  Variable tltb : T -> T -> bool.

  Notation node := (node T A).
  Notation edge := (edge T A).
  Notation gstate := (gstate T A).
  Notation peqb := (peqb teqb).

  Definition names (g : gstate) : list T := map nname (nodes_vec g).
  Definition name_at (g : gstate) (i : nat) : option T := nth_error (names g) i.
  Definition nn (g : gstate) : nat := length (names g).

  (* storage key of a pair of names: smaller name first when undirected *)
  Definition cn (s : specs) (x y : T) : T * T :=
    if negb (directed s) && tltb y x then (y, x) else (x, y).

  Definition group (g : gstate) (k : T * T) : option (list edge) := lookup peqb k (edges g).

  Definition grp_of (g : gstate) (i j : nat) : option (list edge) :=
    match name_at g i, name_at g j with
    | Some x, Some y => group g (cn (sp g) x y)
    | _, _ => None
    end.

  Definition group_idx (g : gstate) (i j : nat) : option (list edge) :=
    match lookup Nat.eqb i (edges_map g) with
    | Some m => lookup Nat.eqb j m
    | None => None
    end.

  (* the weight the traversal lists carry for a stored group: the code's running
     minimum on a multi-edge graph, the weight of the single stored edge otherwise *)
  Definition run_min (l : list edge) : weight :=
    match l with
    | [] => None
    | e :: t => fold_left (fun acc x => if wlt (ew x) acc then ew x else acc) t (ew e)
    end.
  Definition adjw (s : specs) (l : list edge) : weight :=
    if multi s then run_min l else match l with e :: _ => ew e | [] => None end.

  Definition row_ok (s : specs) (rel : nat -> option (list edge)) (row : list adj) : Prop :=
    NoDup (map fst row) /\
    forall j w, In (j, w) row <-> exists l, rel j = Some l /\ w = adjw s l.

  Definition set_ok (rel : nat -> option (list edge)) (l : list nat) : Prop :=
    NoDup l /\ forall j, In j l <-> rel j <> None.

  Definition pred_rel (g : gstate) (j i : nat) : option (list edge) :=
    if directed (sp g) then grp_of g i j else None.

  Record WF (g : gstate) : Prop := mkWF {
    wf_nodup : NoDup (names g);
    wf_nmap : forall x i, lookup teqb x (nodes_map g) = Some i <-> name_at g i = Some x;
    wf_nrev : forall i, lookup Nat.eqb i (nodes_map_rev g) = nth_error (nodes_vec g) i;
    wf_ekeys : NoDup (keys (edges g));
    wf_egroup : forall k l, group g k = Some l ->
        l <> [] /\ (forall e, In e l -> (eu e, ev e) = k) /\
        In (fst k) (names g) /\ In (snd k) (names g) /\
        (directed (sp g) = false -> tltb (snd k) (fst k) = false) /\
        (multi (sp g) = false -> length l = 1) /\
        (selfloops (sp g) = false -> fst k <> snd k);
    wf_emap : forall i j,
        group_idx g i j = if directed (sp g) || Nat.leb i j then grp_of g i j else None;
    wf_emkeys : NoDup (keys (edges_map g)) /\
                forall i m, lookup Nat.eqb i (edges_map g) = Some m -> NoDup (keys m);
    wf_sv : length (successors_vec g) = nn g /\
            forall i row, nth_error (successors_vec g) i = Some row -> row_ok (sp g) (grp_of g i) row;
    wf_pv : length (predecessors_vec g) = nn g /\
            forall j row, nth_error (predecessors_vec g) j = Some row -> row_ok (sp g) (pred_rel g j) row;
    wf_sm : forall i, i < nn g ->
            exists l, lookup Nat.eqb i (successors_map g) = Some l /\ set_ok (grp_of g i) l;
    wf_sm_dom : forall i l, lookup Nat.eqb i (successors_map g) = Some l -> i < nn g;
    wf_pm : forall j, j < nn g ->
            exists l, lookup Nat.eqb j (predecessors_map g) = Some l /\ set_ok (pred_rel g j) l;
    wf_pm_dom : forall j l, lookup Nat.eqb j (predecessors_map g) = Some l -> j < nn g;
    wf_su : forall x, NoDup (or_default teqb x (successors g)) /\
            forall y, In y (or_default teqb x (successors g)) <->
                      (In x (names g) /\ In y (names g) /\ group g (cn (sp g) x y) <> None);
    wf_pr : forall y, NoDup (or_default teqb y (predecessors g)) /\
            forall x, In x (or_default teqb y (predecessors g)) <->
                      (directed (sp g) = true /\ group g (x, y) <> None)
  }.
End WFDefs.
