(* add_edge preserves WF, never panics under WF, and refines spec_add_edge. Part 1: preliminaries. *)
From Coq Require Import String List Bool Arith Lia Permutation.
From GV Require Import Base.Outcome Base.AMap Model.GState Model.Creation Spec.AGraph.
From GV Require Import Proofs.AMapOk Proofs.WFDefs Proofs.WFNode Proofs.WFAdj.
Import ListNotations.

Section WFEdge.
  Context {T A : Type}.
  Variable teqb : T -> T -> bool.
  Variable tltb : T -> T -> bool.
  Hypothesis teqb_spec : forall x y, teqb x y = true <-> x = y.
  Hypothesis tltb_asym : forall x y, tltb x y = true -> tltb y x = false.
  Hypothesis tltb_total : forall x y, tltb x y = false -> tltb y x = false -> x = y.

  Notation node := (node T A).
  Notation edge := (edge T A).
  Notation gstate := (gstate T A).
  Notation WF := (@WF T A teqb tltb).
  Notation names := (@names T A).
  Notation name_at := (@name_at T A).
  Notation nn := (@nn T A).
  Notation group := (@group T A teqb).
  Notation grp_of := (@grp_of T A teqb tltb).
  Notation group_idx := (@group_idx T A).
  Notation pred_rel := (@pred_rel T A teqb tltb).
  Notation cn := (cn tltb).
  Notation peqb_spec := (peqb_spec teqb teqb_spec).
  Let HnI := @has_name_In T A teqb tltb.
  Let Hah := @has_name_a_has T A teqb tltb teqb_spec.
  Let anf := @add_node_fresh T A teqb tltb teqb_spec.
  Let gcf := @group_cn_fresh T A teqb tltb.
  Let gkn := @group_key_names T A teqb tltb.

  Definition ens (g : gstate) (x : T) : outcome gstate :=
    if has_name teqb g x then Ok g else add_node teqb g (mknode x None).

  Lemma ens_ok (g : gstate) x :
    WF g ->
    exists g1, ens g x = Ok g1 /\ WF g1 /\ edges g1 = edges g /\ sp g1 = sp g /\
               In x (names g1) /\ (forall y, In y (names g) -> In y (names g1)) /\
               Abs g1 = ensure_node teqb (Abs g) x /\
               (In x (names g) -> g1 = g).
  Proof.
    intros W. unfold ens, ensure_node. rewrite <- (Hah g x W).
    destruct (has_name teqb g x) eqn:E.
    - exists g. apply (HnI g x W) in E. split; [reflexivity|]. split; [exact W|]. repeat split; auto.
    - assert (Hni : ~ In x (names g)).
      { intros H. apply (HnI g x W) in H. congruence. }
      destruct (anf g (mknode x None) W Hni)
        as (g1 & H1 & W1 & Hn & He & Hs & Hv & _).
      exists g1. split; [exact H1|]. split; [exact W1|]. split; [exact He|]. split; [exact Hs|].
      split; [rewrite Hn; apply in_or_app; right; left; reflexivity|].
      split; [intros y Hy; rewrite Hn; apply in_or_app; left; exact Hy|].
      split.
      + assert (Ha : a_has teqb (Abs g) x = false) by (rewrite <- (Hah g x W); exact E).
        unfold spec_add_node. cbn [nname]. rewrite Ha. unfold Abs. simpl. rewrite Hs, Hv, He. reflexivity.
      + intros H. contradiction.
  Qed.

  (* the storage form of the new edge *)
  Definition od_of (s : specs) (e : edge) : edge := if directed s then e else ordered tltb e.

  Lemma od_of_canon s e : od_of s e = canon tltb s e.
  Proof.
    unfold od_of, canon, ordered, reversed, a_reversed. destruct (directed s); simpl; reflexivity.
  Qed.

  Lemma od_of_key s e : (eu (od_of s e), ev (od_of s e)) = cn s (eu e) (ev e).
  Proof.
    unfold od_of, WFDefs.cn, ordered, reversed. destruct (directed s); simpl; [reflexivity|].
    destruct (tltb (ev e) (eu e)); reflexivity.
  Qed.

  Lemma od_of_weight s e : ew (od_of s e) = ew e.
  Proof.
    unfold od_of, ordered, reversed. destruct (directed s); [reflexivity|].
    destruct (tltb (ev e) (eu e)); reflexivity.
  Qed.

  (* index pair in storage orientation *)
  Definition ci (s : specs) (i j : nat) : nat * nat :=
    if negb (directed s) && Nat.ltb j i then (j, i) else (i, j).

  Lemma name_at_inj (g : gstate) i j x :
    WF g -> name_at g i = Some x -> name_at g j = Some x -> i = j.
  Proof.
    intros W Hi Hj. pose proof (wf_nodup _ _ _ W) as Hnd. rewrite NoDup_nth_error in Hnd.
    apply Hnd; [apply nth_error_Some; unfold WFDefs.name_at in Hi; congruence|].
    unfold WFDefs.name_at in *. congruence.
  Qed.

  Lemma grp_of_sym (g : gstate) i j : directed (sp g) = false -> grp_of g i j = grp_of g j i.
  Proof.
    intros Hd. unfold WFDefs.grp_of. destruct (name_at g i); destruct (name_at g j); try reflexivity.
    rewrite (cn_sym tltb tltb_asym tltb_total _ _ _ Hd). reflexivity.
  Qed.

  Lemma group_idx_ci (g : gstate) ui vi x y :
    WF g -> name_at g ui = Some x -> name_at g vi = Some y ->
    group_idx g (fst (ci (sp g) ui vi)) (snd (ci (sp g) ui vi)) = group g (cn (sp g) x y).
  Proof.
    intros W Hx Hy. rewrite (wf_emap _ _ _ W). unfold ci.
    destruct (directed (sp g)) eqn:Hd; simpl.
    - unfold WFDefs.grp_of. rewrite Hx, Hy. reflexivity.
    - destruct (Nat.ltb vi ui) eqn:Hlt; simpl.
      + apply Nat.ltb_lt in Hlt. assert (Nat.leb vi ui = true) as -> by (apply Nat.leb_le; lia).
        rewrite (grp_of_sym g vi ui Hd). unfold WFDefs.grp_of. rewrite Hx, Hy. reflexivity.
      + apply Nat.ltb_ge in Hlt. assert (Nat.leb ui vi = true) as -> by (apply Nat.leb_le; lia).
        unfold WFDefs.grp_of. rewrite Hx, Hy. reflexivity.
  Qed.

  Lemma get_edge_by_indexes_spec (g : gstate) ui vi x y :
    WF g -> name_at g ui = Some x -> name_at g vi = Some y ->
    get_edge_by_indexes g ui vi =
    match group g (cn (sp g) x y) with
    | Some (e0 :: _) => Ok e0
    | Some [] => Panic "query.rs:226"%string
    | None => Err EdgeNotFound
    end.
  Proof.
    intros W Hx Hy. pose proof (group_idx_ci g ui vi x y W Hx Hy) as H.
    unfold get_edge_by_indexes, ci, WFDefs.group_idx in *.
    destruct (negb (directed (sp g)) && Nat.ltb vi ui); simpl in H.
    - destruct (lookup Nat.eqb vi (edges_map g)) as [m|]; [|rewrite <- H; reflexivity].
      rewrite H. reflexivity.
    - destruct (lookup Nat.eqb ui (edges_map g)) as [m|]; [|rewrite <- H; reflexivity].
      rewrite H. reflexivity.
  Qed.

  Lemma is_ok_get_edge (g : gstate) ui vi x y :
    WF g -> name_at g ui = Some x -> name_at g vi = Some y ->
    is_ok (get_edge_by_indexes g ui vi) =
    match group g (cn (sp g) x y) with Some _ => true | None => false end.
  Proof.
    intros W Hx Hy. rewrite (get_edge_by_indexes_spec g ui vi x y W Hx Hy).
    destruct (group g (cn (sp g) x y)) as [l|] eqn:E; [|reflexivity].
    destruct (wf_egroup _ _ _ W _ _ E) as (Hne & _). destruct l; [congruence|reflexivity].
  Qed.

  (* get_edge_by_indexes on the already ordered pair gives the same answer *)
  Lemma ci_idem s i j : ci s (fst (ci s i j)) (snd (ci s i j)) = ci s i j.
  Proof.
    unfold ci. destruct (directed s); simpl; [reflexivity|].
    destruct (Nat.ltb j i) eqn:E; simpl.
    - apply Nat.ltb_lt in E. assert (Nat.ltb i j = false) as -> by (apply Nat.ltb_ge; lia). reflexivity.
    - rewrite E. reflexivity.
  Qed.

  Lemma get_edge_by_indexes_ci (g : gstate) i j :
    get_edge_by_indexes g (fst (ci (sp g) i j)) (snd (ci (sp g) i j)) = get_edge_by_indexes g i j.
  Proof.
    unfold get_edge_by_indexes.
    change (if negb (directed (sp g)) && Nat.ltb j i then (j, i) else (i, j)) with (ci (sp g) i j).
    change (if negb (directed (sp g)) && Nat.ltb (snd (ci (sp g) i j)) (fst (ci (sp g) i j))
            then (snd (ci (sp g) i j), fst (ci (sp g) i j))
            else (fst (ci (sp g) i j), snd (ci (sp g) i j)))
      with (ci (sp g) (fst (ci (sp g) i j)) (snd (ci (sp g) i j))).
    rewrite ci_idem. reflexivity.
  Qed.

  (* ------------------------------------------------------------------ *)
  (* the edge stores after store_edge                                    *)
  (* ------------------------------------------------------------------ *)
  Definition Kof (g : gstate) (e : edge) : T * T := cn (sp g) (eu e) (ev e).

  Definition newl_of (g : gstate) (e : edge) : list edge :=
    let od := od_of (sp g) e in
    match group g (Kof g e) with
    | None => [od]
    | Some l => if multi (sp g) then l ++ [od]
                else match dd (sp g) with DKeepLast => [od] | _ => l end
    end.

  Lemma newl_nonempty (g : gstate) (e : edge) : WF g -> newl_of g e <> [].
  Proof.
    intros W. unfold newl_of. destruct (group g (Kof g e)) as [l|] eqn:E; [|discriminate].
    destruct (wf_egroup _ _ _ W _ _ E) as (Hne & _).
    destruct (multi (sp g)); [destruct l; discriminate|].
    destruct (dd (sp g)); try exact Hne. discriminate.
  Qed.

  Lemma two_level_insert (m : list (nat * list (nat * list edge))) ou ov (X : list edge) i j :
    match lookup Nat.eqb i (insert Nat.eqb ou (insert Nat.eqb ov X (or_default Nat.eqb ou m)) m) with
    | Some mm => lookup Nat.eqb j mm
    | None => None
    end =
    if Nat.eqb i ou && Nat.eqb j ov then Some X
    else match lookup Nat.eqb i m with Some mm => lookup Nat.eqb j mm | None => None end.
  Proof.
    rewrite (lookup_insert Nat.eqb nat_eqb_spec).
    destruct (Nat.eqb i ou) eqn:Ei; simpl; [|reflexivity].
    apply Nat.eqb_eq in Ei. subst i.
    rewrite (lookup_insert Nat.eqb nat_eqb_spec).
    destruct (Nat.eqb j ov); [reflexivity|].
    unfold or_default. destruct (lookup Nat.eqb ou m); reflexivity.
  Qed.

  Lemma store_edge_spec (g : gstate) (e : edge) ui vi :
    WF g -> name_at g ui = Some (eu e) -> name_at g vi = Some (ev e) ->
    ((match dd (sp g) with DErr => true | _ => false end) && negb (multi (sp g))
       && is_ok (get_edge_by_indexes g ui vi)) = false ->
    let ou := fst (ci (sp g) ui vi) in
    let ov := snd (ci (sp g) ui vi) in
    let es := fst (store_edge teqb g (od_of (sp g) e) ou ov) in
    let em := snd (store_edge teqb g (od_of (sp g) e) ou ov) in
    (forall k, lookup (peqb teqb) k es =
               if peqb teqb k (Kof g e) then Some (newl_of g e) else group g k) /\
    NoDup (keys es) /\
    (forall i j, match lookup Nat.eqb i em with Some mm => lookup Nat.eqb j mm | None => None end =
                 if Nat.eqb i ou && Nat.eqb j ov then Some (newl_of g e) else group_idx g i j).
  Proof.
    intros W Hu Hv Hnd ou ov es em.
    pose proof (is_ok_get_edge g ui vi _ _ W Hu Hv) as Hex. fold (Kof g e) in Hex.
    pose proof (od_of_key (sp g) e) as Hk. fold (Kof g e) in Hk.
    assert (Hex2 : is_ok (get_edge_by_indexes g ou ov) = is_ok (get_edge_by_indexes g ui vi)).
    { unfold ou, ov. rewrite get_edge_by_indexes_ci. reflexivity. }
    assert (Hgi : group_idx g ou ov = group g (Kof g e)).
    { unfold ou, ov. apply (group_idx_ci g ui vi _ _ W Hu Hv). }
    unfold es, em, store_edge. rewrite Hk, Hex2, Hex. unfold newl_of.
    change (lookup (peqb teqb) (Kof g e) (edges g)) with (group g (Kof g e)).
    assert (Hinner : or_default Nat.eqb ov (or_default Nat.eqb ou (edges_map g)) =
                     match group g (Kof g e) with Some l => l | None => [] end).
    { rewrite <- Hgi. unfold WFDefs.group_idx, or_default.
      destruct (lookup Nat.eqb ou (edges_map g)); reflexivity. }
    destruct (multi (sp g)) eqn:Hm.
    - simpl. rewrite Hinner. unfold or_default at 1.
      change (lookup (peqb teqb) (Kof g e) (edges g)) with (group g (Kof g e)).
      assert (Hl : match group g (Kof g e) with Some l => l | None => [] end ++ [od_of (sp g) e] =
                   match group g (Kof g e) with Some l => l ++ [od_of (sp g) e] | None => [od_of (sp g) e] end).
      { destruct (group g (Kof g e)); reflexivity. }
      rewrite Hl. split; [|split].
      + intros k. rewrite (lookup_insert (peqb teqb) peqb_spec). reflexivity.
      + apply (NoDup_keys_insert (peqb teqb) peqb_spec). apply (wf_ekeys _ _ _ W).
      + intros i j. apply two_level_insert.
    - destruct (group g (Kof g e)) as [l|] eqn:Eg.
      + rewrite Hex in Hnd. simpl in Hnd.
        destruct (dd (sp g)) eqn:Hdd; try discriminate; simpl.
        * (* KeepFirst: nothing stored *)
          split; [|split].
          -- intros k. destruct (peqb teqb k (Kof g e)) eqn:Ek; [|reflexivity].
             apply peqb_spec in Ek. subst k. exact Eg.
          -- apply (wf_ekeys _ _ _ W).
          -- intros i j. destruct (Nat.eqb i ou && Nat.eqb j ov) eqn:Eij; [|reflexivity].
             apply andb_true_iff in Eij. destruct Eij as (Ei & Ej).
             apply Nat.eqb_eq in Ei. apply Nat.eqb_eq in Ej. subst i j. exact Hgi.
        * split; [|split].
          -- intros k. rewrite (lookup_insert (peqb teqb) peqb_spec). reflexivity.
          -- apply (NoDup_keys_insert (peqb teqb) peqb_spec). apply (wf_ekeys _ _ _ W).
          -- intros i j. apply two_level_insert.
      + simpl. split; [|split].
        * intros k. rewrite (lookup_insert (peqb teqb) peqb_spec). reflexivity.
        * apply (NoDup_keys_insert (peqb teqb) peqb_spec). apply (wf_ekeys _ _ _ W).
        * intros i j. apply two_level_insert.
  Qed.

  Lemma store_edge_emkeys (g : gstate) (od : edge) ou ov :
    WF g ->
    let em := snd (store_edge teqb g od ou ov) in
    NoDup (keys em) /\ forall i m, lookup Nat.eqb i em = Some m -> NoDup (keys m).
  Proof.
    intros W em. destruct (wf_emkeys _ _ _ W) as (Hk & Hin).
    assert (Hins : forall X : list edge,
              let em' := insert Nat.eqb ou (insert Nat.eqb ov X (or_default Nat.eqb ou (edges_map g))) (edges_map g) in
              NoDup (keys em') /\ forall i m, lookup Nat.eqb i em' = Some m -> NoDup (keys m)).
    { intros X em'. split.
      - apply (NoDup_keys_insert Nat.eqb nat_eqb_spec). exact Hk.
      - intros i m. unfold em'. rewrite (lookup_insert Nat.eqb nat_eqb_spec).
        destruct (Nat.eqb i ou) eqn:E.
        + intros H. inversion H. subst m. apply (NoDup_keys_insert Nat.eqb nat_eqb_spec).
          unfold or_default. destruct (lookup Nat.eqb ou (edges_map g)) as [m0|] eqn:E0;
            [apply (Hin ou m0 E0)|constructor].
        + apply Hin. }
    unfold em, store_edge. destruct (multi (sp g)); [apply Hins|].
    destruct (is_ok (get_edge_by_indexes g ou ov)); [|apply Hins].
    destruct (dd (sp g)); simpl; try (split; assumption). apply Hins.
  Qed.

  (* ------------------------------------------------------------------ *)
  (* the adjacency indexes after link_adjacency                          *)
  (* ------------------------------------------------------------------ *)
  Definition hitb (s : specs) (ui vi i j : nat) : bool :=
    (Nat.eqb i ui && Nat.eqb j vi) || (negb (directed s) && Nat.eqb i vi && Nat.eqb j ui).

  Definition rel_new (g : gstate) (e : edge) (ui vi : nat) (i j : nat) : option (list edge) :=
    if hitb (sp g) ui vi i j then Some (newl_of g e) else grp_of g i j.

  Definition prel_new (g : gstate) (e : edge) (ui vi : nat) (j i : nat) : option (list edge) :=
    if directed (sp g) then rel_new g e ui vi i j else None.

  Lemma row_ok_ext s (r1 r2 : nat -> option (list edge)) row :
    (forall j, r1 j = r2 j) -> row_ok s r1 row -> row_ok s r2 row.
  Proof.
    intros H (Ha & Hb). split; [exact Ha|]. intros j w. rewrite <- H. apply Hb.
  Qed.

  Lemma set_ok_ext (r1 r2 : nat -> option (list edge)) l :
    (forall j, r1 j = r2 j) -> set_ok r1 l -> set_ok r2 l.
  Proof.
    intros H (Ha & Hb). split; [exact Ha|]. intros j. rewrite <- H. apply Hb.
  Qed.

  Lemma set_ok_add (r r' : nat -> option (list edge)) l j0 :
    set_ok r l -> (forall j, r' j <> None <-> (j = j0 \/ r j <> None)) ->
    set_ok r' (set_add Nat.eqb j0 l).
  Proof.
    intros (Ha & Hb) H. split; [apply (NoDup_set_add Nat.eqb nat_eqb_spec); exact Ha|].
    intros j. rewrite (In_set_add Nat.eqb nat_eqb_spec), H, Hb. reflexivity.
  Qed.

  Lemma set_ok_add2 (r r' : nat -> option (list edge)) l a b :
    set_ok r l -> (forall j, r' j <> None <-> (j = a \/ j = b \/ r j <> None)) ->
    set_ok r' (set_add Nat.eqb a (set_add Nat.eqb b l)).
  Proof.
    intros (Ha & Hb) H. split.
    - apply (NoDup_set_add Nat.eqb nat_eqb_spec). apply (NoDup_set_add Nat.eqb nat_eqb_spec). exact Ha.
    - intros j. rewrite !(In_set_add Nat.eqb nat_eqb_spec), H, Hb. reflexivity.
  Qed.

  Lemma grp_of_ci (g : gstate) (e : edge) ui vi :
    WF g -> name_at g ui = Some (eu e) -> name_at g vi = Some (ev e) ->
    grp_of g (fst (ci (sp g) ui vi)) (snd (ci (sp g) ui vi)) = group g (Kof g e).
  Proof.
    intros W Hu Hv. unfold ci, Kof. destruct (directed (sp g)) eqn:Hd; simpl.
    - unfold WFDefs.grp_of. rewrite Hu, Hv. reflexivity.
    - destruct (Nat.ltb vi ui); simpl.
      + rewrite (grp_of_sym g vi ui Hd). unfold WFDefs.grp_of. rewrite Hu, Hv. reflexivity.
      + unfold WFDefs.grp_of. rewrite Hu, Hv. reflexivity.
  Qed.

  Lemma adjw_newl_old (g : gstate) (e : edge) l :
    WF g -> group g (Kof g e) = Some l ->
    adjw (sp g) (newl_of g e) =
    if (if multi (sp g) then wlt (ew e) (adjw (sp g) l)
        else match dd (sp g) with DKeepLast => true | _ => false end)
    then ew e else adjw (sp g) l.
  Proof.
    intros W Hg. unfold newl_of. rewrite Hg.
    destruct (wf_egroup _ _ _ W _ _ Hg) as (Hne & _).
    unfold adjw. destruct (multi (sp g)).
    - rewrite (run_min_snoc l (od_of (sp g) e) Hne), od_of_weight. reflexivity.
    - destruct (dd (sp g)); try reflexivity. simpl. apply od_of_weight.
  Qed.

  Lemma adjw_newl_fresh (g : gstate) (e : edge) :
    group g (Kof g e) = None -> adjw (sp g) (newl_of g e) = ew e.
  Proof.
    intros Hg. unfold newl_of. rewrite Hg. unfold adjw. destruct (multi (sp g)); simpl; apply od_of_weight.
  Qed.

  Lemma ci_cases s ui vi :
    (ci s ui vi = (ui, vi) /\ (directed s = true \/ ui <= vi)) \/
    (ci s ui vi = (vi, ui) /\ directed s = false /\ vi < ui).
  Proof.
    unfold ci. destruct (directed s); simpl; [left; auto|].
    destruct (Nat.ltb vi ui) eqn:E.
    - apply Nat.ltb_lt in E. right. auto.
    - apply Nat.ltb_ge in E. left. auto.
  Qed.

  Lemma hitb_ci s ui vi i j :
    Nat.eqb i (fst (ci s ui vi)) && Nat.eqb j (snd (ci s ui vi)) =
    hitb s ui vi i j && (directed s || Nat.leb i j).
  Proof.
    unfold hitb. destruct (ci_cases s ui vi) as [(-> & H)|(-> & Hd & Hlt)]; simpl;
      destruct (directed s); simpl;
      destruct (Nat.eqb_spec i ui); destruct (Nat.eqb_spec j vi);
      destruct (Nat.eqb_spec i vi); destruct (Nat.eqb_spec j ui);
      destruct (Nat.leb_spec i j); simpl; try reflexivity; try discriminate; try lia;
      try (destruct H as [H|H]; [discriminate|lia]).
  Qed.

  Lemma name_at_lt (g : gstate) i x : name_at g i = Some x -> i < nn g.
  Proof. intros H. unfold WFDefs.nn. apply nth_error_Some. unfold WFDefs.name_at in H. congruence. Qed.

  Lemma hitb_names (g : gstate) (e : edge) ui vi i j x y :
    WF g -> name_at g ui = Some (eu e) -> name_at g vi = Some (ev e) ->
    name_at g i = Some x -> name_at g j = Some y ->
    hitb (sp g) ui vi i j = true <->
    ((x = eu e /\ y = ev e) \/ (directed (sp g) = false /\ x = ev e /\ y = eu e)).
  Proof.
    intros W Hu Hv Hi Hj. unfold hitb. rewrite orb_true_iff, !andb_true_iff, negb_true_iff, !Nat.eqb_eq.
    split.
    - intros [(-> & ->)|((Hd & ->) & ->)].
      + left. split; congruence.
      + right. repeat split; congruence.
    - intros [(-> & ->)|(Hd & -> & ->)].
      + left. split; eapply name_at_inj; eauto.
      + right. repeat split; try assumption; eapply name_at_inj; eauto.
  Qed.

  Lemma link_adjacency_spec (g : gstate) (e : edge) ui vi :
    WF g -> name_at g ui = Some (eu e) -> name_at g vi = Some (ev e) ->
    let s := sp g in
    let ou := fst (ci s ui vi) in
    let ov := snd (ci s ui vi) in
    let ex := match group g (Kof g e) with Some _ => true | None => false end in
    exists su sm sv pr pm pv,
      link_adjacency teqb g e ui vi ou ov ex = Ok (su, sm, sv, pr, pm, pv) /\
      (length sv = nn g /\
       forall i row, nth_error sv i = Some row -> row_ok s (rel_new g e ui vi i) row) /\
      (length pv = nn g /\
       forall j row, nth_error pv j = Some row -> row_ok s (prel_new g e ui vi j) row) /\
      (forall i, i < nn g -> exists l, lookup Nat.eqb i sm = Some l /\ set_ok (rel_new g e ui vi i) l) /\
      (forall i l, lookup Nat.eqb i sm = Some l -> i < nn g) /\
      (forall j, j < nn g -> exists l, lookup Nat.eqb j pm = Some l /\ set_ok (prel_new g e ui vi j) l) /\
      (forall j l, lookup Nat.eqb j pm = Some l -> j < nn g) /\
      (forall x, NoDup (or_default teqb x su) /\
                 forall y, In y (or_default teqb x su) <->
                           ((x = eu e /\ y = ev e) \/ (directed s = false /\ x = ev e /\ y = eu e) \/
                            In y (or_default teqb x (successors g)))) /\
      (forall y, NoDup (or_default teqb y pr) /\
                 forall x, In x (or_default teqb y pr) <->
                           ((directed s = true /\ y = ev e /\ x = eu e) \/
                            In x (or_default teqb y (predecessors g)))).
  Proof.
    intros W Hu Hv s ou ov ex.
    pose proof (name_at_lt _ _ _ Hu) as Hui. pose proof (name_at_lt _ _ _ Hv) as Hvi.
    destruct (wf_sv _ _ _ W) as (Hsvl & Hsvr). destruct (wf_pv _ _ _ W) as (Hpvl & Hpvr).
    pose proof (grp_of_ci g e ui vi W Hu Hv) as Hgci. fold s ou ov in Hgci.
    assert (Hou : ou < nn g /\ ov < nn g).
    { unfold ou, ov. destruct (ci_cases s ui vi) as [(-> & _)|(-> & _)]; simpl; auto. }
    destruct Hou as (Hou & Hov).
    (* ---- first traversal-list update ---- *)
    assert (Hold1 : forall l, grp_of g ou ov = Some l ->
              adjw s (newl_of g e) =
              if (if multi s then wlt (ew e) (adjw s l)
                  else match dd s with DKeepLast => true | _ => false end) then ew e else adjw s l).
    { intros l Hl. rewrite Hgci in Hl. apply (adjw_newl_old g e l W Hl). }
    assert (Hnew1 : grp_of g ou ov = None -> adjw s (newl_of g e) = ew e).
    { intros Hn. rewrite Hgci in Hn. apply (adjw_newl_fresh g e Hn). }
    destruct (add_to_adjacency_vec_ok s (successors_vec g) (grp_of g) ou ov (ew e) (newl_of g e))
      as (sv1 & Hsv1 & Hsv1l & Hsv1r); try assumption; [rewrite Hsvl; exact Hou|].
    rewrite Hgci in Hsv1. fold ex in Hsv1.
    unfold link_adjacency. fold s. rewrite Hsv1. cbn [bind].
    (* name-keyed and index-keyed successor sets after the first upd_set *)
    set (su1 := upd_set teqb teqb (eu e) (ev e) (successors g)).
    set (sm1 := upd_set Nat.eqb Nat.eqb ui vi (successors_map g)).
    destruct (directed s) eqn:Hd.
    - (* ================= directed ================= *)
      assert (Hci : ou = ui /\ ov = vi).
      { unfold ou, ov, ci. fold s. rewrite Hd. simpl. auto. }
      destruct Hci as (-> & ->).
      assert (Hold2 : forall l, pred_rel g vi ui = Some l ->
                adjw s (newl_of g e) =
                if (if multi s then wlt (ew e) (adjw s l)
                    else match dd s with DKeepLast => true | _ => false end) then ew e else adjw s l).
      { intros l Hl. unfold WFDefs.pred_rel in Hl. fold s in Hl. rewrite Hd in Hl. apply Hold1. exact Hl. }
      assert (Hnew2 : pred_rel g vi ui = None -> adjw s (newl_of g e) = ew e).
      { intros Hn. unfold WFDefs.pred_rel in Hn. fold s in Hn. rewrite Hd in Hn. apply Hnew1. exact Hn. }
      destruct (add_to_adjacency_vec_ok s (predecessors_vec g) (pred_rel g) vi ui (ew e) (newl_of g e))
        as (pv1 & Hpv1 & Hpv1l & Hpv1r); try assumption; [rewrite Hpvl; exact Hvi|].
      assert (Hprel : pred_rel g vi ui = grp_of g ui vi).
      { unfold WFDefs.pred_rel. fold s. rewrite Hd. reflexivity. }
      rewrite Hprel, Hgci in Hpv1. fold ex in Hpv1. rewrite Hpv1. cbn [bind].
      do 6 eexists. split; [reflexivity|].
      assert (Hrel : forall i j, rel_new g e ui vi i j =
                                 if Nat.eqb i ui && Nat.eqb j vi then Some (newl_of g e) else grp_of g i j).
      { intros i j. unfold rel_new, hitb. fold s. rewrite Hd. simpl. rewrite orb_false_r. reflexivity. }
      split; [|split; [|split; [|split; [|split; [|split; [|split]]]]]].
      + split; [rewrite Hsv1l; exact Hsvl|]. intros i row Hr.
        eapply row_ok_ext; [|apply (Hsv1r i row Hr)]. intros j. symmetry. apply Hrel.
      + split; [rewrite Hpv1l; exact Hpvl|]. intros j row Hr.
        eapply row_ok_ext; [|apply (Hpv1r j row Hr)]. intros i. cbv beta.
        unfold prel_new. fold s. rewrite Hd, Hrel. unfold WFDefs.pred_rel. fold s. rewrite Hd.
        rewrite (andb_comm (Nat.eqb i ui)). reflexivity.
      + intros i Hi. unfold sm1. rewrite (lookup_upd_set Nat.eqb Nat.eqb nat_eqb_spec).
        destruct (wf_sm _ _ _ W i Hi) as (l & Hl & Hs).
        destruct (Nat.eqb i ui) eqn:Ei.
        * apply Nat.eqb_eq in Ei. subst i. eexists. split; [reflexivity|].
          unfold or_default. rewrite Hl. eapply set_ok_add; [exact Hs|].
          intros j. rewrite Hrel, Nat.eqb_refl. simpl. destruct (Nat.eqb_spec j vi).
          -- split; [auto|discriminate].
          -- split; [auto|]. intros [H|H]; [contradiction|exact H].
        * exists l. split; [exact Hl|]. eapply set_ok_ext; [|exact Hs].
          intros j. rewrite Hrel, Ei. reflexivity.
      + intros i l. unfold sm1. rewrite (lookup_upd_set Nat.eqb Nat.eqb nat_eqb_spec).
        destruct (Nat.eqb i ui) eqn:Ei; [apply Nat.eqb_eq in Ei; subst; auto|]. apply (wf_sm_dom _ _ _ W).
      + intros j Hj. rewrite (lookup_upd_set Nat.eqb Nat.eqb nat_eqb_spec).
        destruct (wf_pm _ _ _ W j Hj) as (l & Hl & Hs).
        assert (Hprn : forall i, prel_new g e ui vi j i =
                  if Nat.eqb j vi && Nat.eqb i ui then Some (newl_of g e) else pred_rel g j i).
        { intros i. unfold prel_new. fold s. rewrite Hd, Hrel. unfold WFDefs.pred_rel. fold s. rewrite Hd.
          rewrite (andb_comm (Nat.eqb i ui)). reflexivity. }
        destruct (Nat.eqb j vi) eqn:Ej.
        * apply Nat.eqb_eq in Ej. subst j. eexists. split; [reflexivity|].
          unfold or_default. rewrite Hl. eapply set_ok_add; [exact Hs|].
          intros i. rewrite Hprn, ?Nat.eqb_refl. simpl. destruct (Nat.eqb_spec i ui).
          -- split; [auto|discriminate].
          -- split; [auto|]. intros [H|H]; [contradiction|exact H].
        * exists l. split; [exact Hl|]. eapply set_ok_ext; [|exact Hs].
          intros i. rewrite Hprn, ?Ej. reflexivity.
      + intros j l. rewrite (lookup_upd_set Nat.eqb Nat.eqb nat_eqb_spec).
        destruct (Nat.eqb j vi) eqn:Ej; [apply Nat.eqb_eq in Ej; subst; auto|]. apply (wf_pm_dom _ _ _ W).
      + intros x. unfold su1. rewrite (or_default_upd_set teqb teqb teqb_spec).
        destruct (wf_su _ _ _ W x) as (Hnd & _).
        destruct (teqb x (eu e)) eqn:Ex.
        * apply teqb_spec in Ex. subst x. split; [apply (NoDup_set_add teqb teqb_spec); exact Hnd|].
          intros y. rewrite (In_set_add teqb teqb_spec). split.
          -- intros [->|H]; auto.
          -- intros [(_ & ->)|[(Hf & _)|H]]; auto. discriminate.
        * split; [exact Hnd|]. intros y. split; [auto|].
          intros [(Hx & _)|[(Hf & _)|H]]; [|discriminate|exact H].
          subst x. rewrite (proj2 (teqb_spec _ _) eq_refl) in Ex. discriminate.
      + intros y. rewrite (or_default_upd_set teqb teqb teqb_spec).
        destruct (wf_pr _ _ _ W y) as (Hnd & _).
        destruct (teqb y (ev e)) eqn:Ey.
        * apply teqb_spec in Ey. subst y. split; [apply (NoDup_set_add teqb teqb_spec); exact Hnd|].
          intros x. rewrite (In_set_add teqb teqb_spec). split.
          -- intros [->|H]; auto.
          -- intros [(_ & _ & ->)|H]; auto.
        * split; [exact Hnd|]. intros x. split; [auto|].
          intros [(_ & Hy & _)|H]; [|exact H].
          subst y. rewrite (proj2 (teqb_spec _ _) eq_refl) in Ey. discriminate.
    - (* ================= undirected ================= *)
      assert (Hpair : (ou = ui /\ ov = vi) \/ (ou = vi /\ ov = ui)).
      { unfold ou, ov. destruct (ci_cases s ui vi) as [(-> & _)|(-> & _)]; simpl; auto. }
      assert (Hsym : grp_of g ov ou = grp_of g ou ov) by (apply grp_of_sym; exact Hd).
      (* second (mirrored) traversal-list update *)
      assert (Hsv2 : exists sv2,
                (if Nat.eqb ui vi then Ok sv1 else add_to_adjacency_vec s sv1 ov ou (ew e) ex) = Ok sv2 /\
                length sv2 = nn g /\
                forall i row, nth_error sv2 i = Some row -> row_ok s (rel_new g e ui vi i) row).
      { destruct (Nat.eqb_spec ui vi) as [Euv|Euv].
        - exists sv1. split; [reflexivity|]. split; [rewrite Hsv1l; exact Hsvl|].
          intros i row Hr. eapply row_ok_ext; [|apply (Hsv1r i row Hr)]. intros j. cbv beta.
          unfold rel_new, hitb. fold s. rewrite Hd. subst vi.
          destruct Hpair as [(-> & ->)|(-> & ->)]; simpl;
            destruct (Nat.eqb i ui && Nat.eqb j ui); reflexivity.
        - set (rel1 := fun i j => if Nat.eqb i ou && Nat.eqb j ov then Some (newl_of g e) else grp_of g i j).
          assert (Hne : ou <> ov) by (destruct Hpair as [(-> & ->)|(-> & ->)]; auto).
          assert (Hr1 : rel1 ov ou = grp_of g ou ov).
          { unfold rel1. destruct (Nat.eqb_spec ov ou); [congruence|]. simpl. exact Hsym. }
          destruct (add_to_adjacency_vec_ok s sv1 rel1 ov ou (ew e) (newl_of g e))
            as (sv2 & Hsv2 & Hsv2l & Hsv2r).
          + rewrite Hsv1l, Hsvl. exact Hov.
          + exact Hsv1r.
          + intros l Hl. rewrite Hr1 in Hl. apply Hold1. exact Hl.
          + intros Hn. rewrite Hr1 in Hn. apply Hnew1. exact Hn.
          + rewrite Hr1, Hgci in Hsv2. fold ex in Hsv2. exists sv2. split; [exact Hsv2|].
            split; [rewrite Hsv2l, Hsv1l; exact Hsvl|].
            intros i row Hr. eapply row_ok_ext; [|apply (Hsv2r i row Hr)]. intros j. cbv beta.
            unfold rel1, rel_new, hitb. fold s. rewrite Hd. simpl.
            destruct Hpair as [(-> & ->)|(-> & ->)];
              destruct (Nat.eqb_spec i ui); destruct (Nat.eqb_spec j vi);
              destruct (Nat.eqb_spec i vi); destruct (Nat.eqb_spec j ui); simpl; try reflexivity; congruence. }
      destruct Hsv2 as (sv2 & Hsv2 & Hsv2l & Hsv2r). rewrite Hsv2. cbn [bind].
      do 6 eexists. split; [reflexivity|].
      assert (Hrel : forall i j, rel_new g e ui vi i j <> None <->
                                 (hitb s ui vi i j = true \/ grp_of g i j <> None)).
      { intros i j. unfold rel_new. fold s. destruct (hitb s ui vi i j).
        - split; [auto|discriminate].
        - split; [auto|]. intros [H|H]; [discriminate|exact H]. }
      assert (Hhit : forall i j, hitb s ui vi i j = true <-> ((i = ui /\ j = vi) \/ (i = vi /\ j = ui))).
      { intros i j. unfold hitb. rewrite Hd. simpl. rewrite orb_true_iff, !andb_true_iff, !Nat.eqb_eq. reflexivity. }
      split; [|split; [|split; [|split; [|split; [|split; [|split]]]]]].
      + split; assumption.
      + split; [exact Hpvl|]. intros j row Hr. eapply row_ok_ext; [|apply (Hpvr j row Hr)].
        intros i. unfold prel_new, WFDefs.pred_rel. fold s. rewrite Hd. reflexivity.
      + intros i Hi. rewrite (lookup_upd_set Nat.eqb Nat.eqb nat_eqb_spec).
        unfold sm1. rewrite (or_default_upd_set Nat.eqb Nat.eqb nat_eqb_spec),
                            (lookup_upd_set Nat.eqb Nat.eqb nat_eqb_spec).
        destruct (wf_sm _ _ _ W ui Hui) as (lu & Hlu & Hsu).
        destruct (wf_sm _ _ _ W vi Hvi) as (lv & Hlv & Hsv).
        destruct (wf_sm _ _ _ W i Hi) as (l & Hl & Hs).
        destruct (Nat.eqb_spec i vi) as [Eiv|Eiv].
        * subst i. eexists. split; [reflexivity|].
          destruct (Nat.eqb_spec vi ui) as [Evu|Evu].
          -- subst vi. unfold or_default. rewrite Hlu.
             eapply set_ok_add2; [exact Hsu|].
             intros j. rewrite Hrel, Hhit. split.
             ++ intros [[(_ & ->)|(_ & ->)]|H]; auto.
             ++ intros [->|[->|H]]; auto.
          -- unfold or_default. rewrite Hlv. eapply set_ok_add; [exact Hsv|].
             intros j. rewrite Hrel, Hhit. split.
             ++ intros [[(Ha & _)|(_ & ->)]|H]; auto; try congruence.
             ++ intros [->|H]; auto.
        * destruct (Nat.eqb_spec i ui) as [Eiu|Eiu].
          -- subst i. eexists. split; [reflexivity|]. unfold or_default. rewrite Hlu.
             eapply set_ok_add; [exact Hsu|].
             intros j. rewrite Hrel, Hhit. split.
             ++ intros [[(_ & ->)|(Ha & _)]|H]; auto; try congruence.
             ++ intros [->|H]; auto.
          -- exists l. split; [exact Hl|]. destruct Hs as (Ha & Hb). split; [exact Ha|].
             intros j. rewrite Hrel, Hhit, Hb. split; [auto|].
             intros [[(Hx & _)|(Hx & _)]|H]; [contradiction|contradiction|exact H].
      + intros i l. rewrite (lookup_upd_set Nat.eqb Nat.eqb nat_eqb_spec).
        destruct (Nat.eqb_spec i vi); [subst; auto|].
        unfold sm1. rewrite (lookup_upd_set Nat.eqb Nat.eqb nat_eqb_spec).
        destruct (Nat.eqb_spec i ui); [subst; auto|]. apply (wf_sm_dom _ _ _ W).
      + intros j Hj. destruct (wf_pm _ _ _ W j Hj) as (l & Hl & Hs). exists l. split; [exact Hl|].
        eapply set_ok_ext; [|exact Hs]. intros i. unfold prel_new, WFDefs.pred_rel. fold s. rewrite Hd. reflexivity.
      + apply (wf_pm_dom _ _ _ W).
      + intros x. rewrite (or_default_upd_set teqb teqb teqb_spec).
        unfold su1. rewrite !(or_default_upd_set teqb teqb teqb_spec).
        destruct (wf_su _ _ _ W x) as (Hndx & _).
        destruct (wf_su _ _ _ W (eu e)) as (Hndu & _).
        destruct (wf_su _ _ _ W (ev e)) as (Hndv & _).
        destruct (teqb x (ev e)) eqn:Exv.
        * apply teqb_spec in Exv. subst x. destruct (teqb (ev e) (eu e)) eqn:Evu.
          -- apply teqb_spec in Evu.
             split; [apply (NoDup_set_add teqb teqb_spec); apply (NoDup_set_add teqb teqb_spec); exact Hndu|].
             intros y. rewrite !(In_set_add teqb teqb_spec), <- Evu. split.
             ++ intros [->|[->|H]]; auto.
             ++ intros [(_ & ->)|[(_ & _ & ->)|H]]; auto.
          -- split; [apply (NoDup_set_add teqb teqb_spec); exact Hndv|].
             intros y. rewrite (In_set_add teqb teqb_spec). split.
             ++ intros [->|H]; auto.
             ++ intros [(Hx & _)|[(_ & _ & ->)|H]]; auto.
                rewrite Hx, (proj2 (teqb_spec _ _) eq_refl) in Evu. discriminate.
        * destruct (teqb x (eu e)) eqn:Exu.
          -- apply teqb_spec in Exu. subst x.
             split; [apply (NoDup_set_add teqb teqb_spec); exact Hndu|].
             intros y. rewrite (In_set_add teqb teqb_spec). split.
             ++ intros [->|H]; auto.
             ++ intros [(_ & ->)|[(_ & Hx & _)|H]]; auto.
                rewrite Hx, (proj2 (teqb_spec _ _) eq_refl) in Exv. discriminate.
          -- split; [exact Hndx|]. intros y. split; [auto|].
             intros [(Hx & _)|[(_ & Hx & _)|H]]; [| |exact H]; subst x;
               rewrite (proj2 (teqb_spec _ _) eq_refl) in *; discriminate.
      + intros y. destruct (wf_pr _ _ _ W y) as (Hnd & _). split; [exact Hnd|].
        intros x. split; [auto|]. intros [(Hf & _)|H]; [discriminate|exact H].
  Qed.

  (* ------------------------------------------------------------------ *)
  (* assembly: add_edge_known                                            *)
  (* ------------------------------------------------------------------ *)
  Lemma cn_hit_iff s (x y u v : T) :
    cn s x y = cn s u v <-> ((x = u /\ y = v) \/ (directed s = false /\ x = v /\ y = u)).
  Proof.
    split.
    - apply (cn_inj tltb).
    - intros [(-> & ->)|(Hd & -> & ->)]; [reflexivity|]. apply (cn_sym tltb tltb_asym tltb_total). exact Hd.
  Qed.

  Lemma hitb_has_names (g : gstate) (e : edge) ui vi i j :
    name_at g ui = Some (eu e) -> name_at g vi = Some (ev e) ->
    hitb (sp g) ui vi i j = true -> name_at g i <> None /\ name_at g j <> None.
  Proof.
    intros Hu Hv. unfold hitb. rewrite orb_true_iff, !andb_true_iff, !Nat.eqb_eq.
    intros [(-> & ->)|((_ & ->) & ->)]; split; congruence.
  Qed.

  Definition dup_rejected (g : gstate) (e : edge) : bool :=
    (match dd (sp g) with DErr => true | _ => false end) && negb (multi (sp g))
    && (match group g (Kof g e) with Some _ => true | None => false end).

  Lemma add_edge_known_ok (g : gstate) (e : edge) ui vi :
    WF g -> name_at g ui = Some (eu e) -> name_at g vi = Some (ev e) ->
    (selfloops (sp g) = false -> eu e <> ev e) ->
    if dup_rejected g e then add_edge_known teqb tltb g e ui vi = (g, Err DuplicateEdge)
    else exists g', add_edge_known teqb tltb g e ui vi = (g', Ok tt) /\ WF g' /\
                    nodes_vec g' = nodes_vec g /\ sp g' = sp g /\
                    (forall k, group g' k = if peqb teqb k (Kof g e) then Some (newl_of g e) else group g k) /\
                    (forall i j, grp_of g' i j = rel_new g e ui vi i j).
  Proof.
    intros W Hu Hv Hsl. unfold add_edge_known, dup_rejected.
    pose proof (is_ok_get_edge g ui vi _ _ W Hu Hv) as Hex. fold (Kof g e) in Hex.
    rewrite Hex.
    destruct ((match dd (sp g) with DErr => true | _ => false end) && negb (multi (sp g))
              && (match group g (Kof g e) with Some _ => true | None => false end)) eqn:Hdup;
      [reflexivity|].
    change (if negb (directed (sp g)) && Nat.ltb vi ui then (vi, ui) else (ui, vi)) with (ci (sp g) ui vi).
    change (if directed (sp g) then e else ordered tltb e) with (od_of (sp g) e).
    destruct (link_adjacency_spec g e ui vi W Hu Hv)
      as (su & sm & sv & pr & pm & pv & Hlink & Hsv & Hpv & Hsm & Hsmd & Hpm & Hpmd & Hsu & Hpr).
    assert (Hnd : ((match dd (sp g) with DErr => true | _ => false end) && negb (multi (sp g))
                   && is_ok (get_edge_by_indexes g ui vi)) = false) by (rewrite Hex; exact Hdup).
    destruct (store_edge_spec g e ui vi W Hu Hv Hnd) as (Hes & Hek & Hem).
    destruct (ci (sp g) ui vi) as [ou ov] eqn:Eci. simpl in Hlink, Hes, Hek, Hem.
    rewrite Hlink.
    destruct (store_edge teqb g (od_of (sp g) e) ou ov) as [es em] eqn:Est. simpl in Hes, Hek, Hem.
    set (g' := {| nodes_map := nodes_map g; nodes_map_rev := nodes_map_rev g; nodes_vec := nodes_vec g;
                  edges := es; edges_map := em; sp := sp g; successors := su; successors_map := sm;
                  successors_vec := sv; predecessors := pr; predecessors_map := pm;
                  predecessors_vec := pv |}).
    exists g'. split; [reflexivity|].
    assert (Hgroup : forall k, group g' k = if peqb teqb k (Kof g e) then Some (newl_of g e) else group g k).
    { intros k. unfold WFDefs.group, g'. simpl. apply Hes. }
    assert (Hgrp : forall i j, grp_of g' i j = rel_new g e ui vi i j).
    { intros i j. unfold rel_new. unfold WFDefs.grp_of.
      change (name_at g' i) with (name_at g i). change (name_at g' j) with (name_at g j).
      change (sp g') with (sp g).
      destruct (name_at g i) as [x|] eqn:Ei.
      - destruct (name_at g j) as [y|] eqn:Ej.
        + rewrite Hgroup. unfold Kof.
          destruct (peqb teqb (cn (sp g) x y) (cn (sp g) (eu e) (ev e))) eqn:Ek.
          * apply peqb_spec in Ek. apply cn_hit_iff in Ek.
            apply (hitb_names g e ui vi i j x y W Hu Hv Ei Ej) in Ek. rewrite Ek. reflexivity.
          * destruct (hitb (sp g) ui vi i j) eqn:Eh; [|reflexivity]. exfalso.
            apply (hitb_names g e ui vi i j x y W Hu Hv Ei Ej) in Eh. apply cn_hit_iff in Eh.
            apply peqb_spec in Eh. congruence.
        + destruct (hitb (sp g) ui vi i j) eqn:Eh; [|reflexivity]. exfalso.
          destruct (hitb_has_names g e ui vi i j Hu Hv Eh) as (_ & H). congruence.
      - destruct (hitb (sp g) ui vi i j) eqn:Eh; [|reflexivity]. exfalso.
        destruct (hitb_has_names g e ui vi i j Hu Hv Eh) as (H & _). congruence. }
    assert (Hprel : forall j i, pred_rel g' j i = prel_new g e ui vi j i).
    { intros j i. unfold WFDefs.pred_rel, prel_new. change (sp g') with (sp g). rewrite Hgrp. reflexivity. }
    assert (HKn : In (fst (Kof g e)) (names g) /\ In (snd (Kof g e)) (names g)).
    { assert (In (eu e) (names g)) by (eapply nth_error_In; exact Hu).
      assert (In (ev e) (names g)) by (eapply nth_error_In; exact Hv).
      unfold Kof. destruct (cn_cases tltb (sp g) (eu e) (ev e)) as [C|C]; rewrite C; simpl; auto. }
    split; [|split; [reflexivity|split; [reflexivity|split; [exact Hgroup|exact Hgrp]]]].
    constructor.
    - exact (wf_nodup _ _ _ W).
    - exact (wf_nmap _ _ _ W).
    - exact (wf_nrev _ _ _ W).
    - exact Hek.
    - intros k l. rewrite Hgroup. change (names g') with (names g). change (sp g') with (sp g).
      destruct (peqb teqb k (Kof g e)) eqn:Ek.
      + apply peqb_spec in Ek. subst k. intros H. inversion H. subst l. clear H.
        split; [apply newl_nonempty; exact W|].
        split.
        { intros e0. unfold newl_of. destruct (group g (Kof g e)) as [l0|] eqn:Eg.
          - destruct (wf_egroup _ _ _ W _ _ Eg) as (_ & Hall & _).
            destruct (multi (sp g)).
            + rewrite in_app_iff. intros [H|[H|[]]]; [apply Hall; exact H|]. subst e0. apply od_of_key.
            + destruct (dd (sp g)); try (apply Hall). intros [H|[]]. subst e0. apply od_of_key.
          - intros [H|[]]. subst e0. apply od_of_key. }
        split; [exact (proj1 HKn)|]. split; [exact (proj2 HKn)|].
        split; [intros Hd; apply (cn_ordered tltb tltb_asym); exact Hd|].
        split.
        { intros Hm. unfold newl_of. rewrite Hm. destruct (group g (Kof g e)) as [l0|] eqn:Eg; [|reflexivity].
          destruct (wf_egroup _ _ _ W _ _ Eg) as (_ & _ & _ & _ & _ & Hlen & _).
          destruct (dd (sp g)); try (apply Hlen; exact Hm). reflexivity. }
        { intros Hs. specialize (Hsl Hs). unfold Kof.
          destruct (cn_cases tltb (sp g) (eu e) (ev e)) as [C|C]; rewrite C; simpl; congruence. }
      + apply (wf_egroup _ _ _ W).
    - intros i j. change (group_idx g' i j) with
          (match lookup Nat.eqb i em with Some mm => lookup Nat.eqb j mm | None => None end).
      rewrite Hem, Hgrp. change (sp g') with (sp g). rewrite (wf_emap _ _ _ W).
      unfold rel_new.
      pose proof (hitb_ci (sp g) ui vi i j) as Hh. rewrite Eci in Hh. simpl in Hh. rewrite Hh.
      destruct (hitb (sp g) ui vi i j); destruct (directed (sp g) || Nat.leb i j); reflexivity.
    - pose proof (store_edge_emkeys g (od_of (sp g) e) ou ov W) as Hem2. rewrite Est in Hem2. exact Hem2.
    - destruct Hsv as (Hl & Hr). split; [exact Hl|]. intros i row Hrow.
      eapply row_ok_ext; [|apply (Hr i row Hrow)]. intros j. symmetry. apply Hgrp.
    - destruct Hpv as (Hl & Hr). split; [exact Hl|]. intros j row Hrow.
      eapply row_ok_ext; [|apply (Hr j row Hrow)]. intros i. symmetry. apply Hprel.
    - intros i Hi. destruct (Hsm i Hi) as (l & Hl & Hs). exists l. split; [exact Hl|].
      eapply set_ok_ext; [|exact Hs]. intros j. symmetry. apply Hgrp.
    - exact Hsmd.
    - intros j Hj. destruct (Hpm j Hj) as (l & Hl & Hs). exists l. split; [exact Hl|].
      eapply set_ok_ext; [|exact Hs]. intros i. symmetry. apply Hprel.
    - exact Hpmd.
    - intros x. destruct (Hsu x) as (Hnd1 & Hmem). split; [exact Hnd1|].
      intros y. change (successors g') with su. rewrite Hmem.
      change (names g') with (names g). change (sp g') with (sp g). rewrite Hgroup.
      destruct (wf_su _ _ _ W x) as (_ & Hold). rewrite Hold.
      assert (Hin_u : In (eu e) (names g)) by (eapply nth_error_In; exact Hu).
      assert (Hin_v : In (ev e) (names g)) by (eapply nth_error_In; exact Hv).
      destruct (peqb teqb (cn (sp g) x y) (Kof g e)) eqn:Ek.
      + apply peqb_spec in Ek. unfold Kof in Ek. apply cn_hit_iff in Ek. split.
        * intros _. destruct Ek as [(-> & ->)|(_ & -> & ->)]; repeat split; auto; discriminate.
        * intros _. destruct Ek as [H|H]; auto.
      + split.
        * intros [H|[H|H]]; [| |exact H]; exfalso.
          -- assert (cn (sp g) x y = cn (sp g) (eu e) (ev e)) as Hc by (apply cn_hit_iff; left; exact H).
             apply peqb_spec in Hc. unfold Kof in Ek. congruence.
          -- assert (cn (sp g) x y = cn (sp g) (eu e) (ev e)) as Hc by (apply cn_hit_iff; right; exact H).
             apply peqb_spec in Hc. unfold Kof in Ek. congruence.
        * intros H. right. right. exact H.
    - intros y. destruct (Hpr y) as (Hnd1 & Hmem). split; [exact Hnd1|].
      intros x. change (predecessors g') with pr. rewrite Hmem.
      change (sp g') with (sp g). rewrite Hgroup.
      destruct (wf_pr _ _ _ W y) as (_ & Hold). rewrite Hold.
      destruct (peqb teqb (x, y) (Kof g e)) eqn:Ek.
      + apply peqb_spec in Ek. split.
        * intros [(Hd & _)|(Hd & _)]; (split; [exact Hd|discriminate]).
        * intros (Hd & _). left. unfold Kof in Ek. rewrite (cn_directed tltb _ _ _ Hd) in Ek.
          inversion Ek. auto.
      + split.
        * intros [(Hd & -> & ->)|H]; [|exact H]. exfalso.
          unfold Kof in Ek. rewrite (cn_directed tltb _ _ _ Hd) in Ek.
          rewrite (proj2 (peqb_spec _ _) eq_refl) in Ek. discriminate.
        * intros H. right. exact H.
  Qed.
End WFEdge.
