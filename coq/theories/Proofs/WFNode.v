(* WF holds of the empty graph and is preserved by add_node (which never panics under WF). *)
From Coq Require Import List Bool Arith Lia.
From GV Require Import Base.Outcome Base.AMap Model.GState Model.Creation Spec.AGraph.
From GV Require Import Proofs.AMapOk Proofs.WFDefs.
Import ListNotations.

Section WFNode.
  Context {T A : Type}.
  Variable teqb : T -> T -> bool.
  Variable tltb : T -> T -> bool.
  Hypothesis teqb_spec : forall x y, teqb x y = true <-> x = y.

  Notation node := (node T A).
  Notation edge := (edge T A).
  Notation gstate := (gstate T A).
  Notation WF := (@WF T A teqb tltb).
  Notation names := (@names T A).
  Notation name_at := (@name_at T A).
  Notation nn := (@nn T A).
  Notation group := (@group T A teqb).
  Notation grp_of := (@grp_of T A teqb tltb).
  Notation group_idx := (@group_idx T A).
  Notation pred_rel := (@pred_rel T A teqb tltb).

  Lemma nat_eqb_spec : forall x y, Nat.eqb x y = true <-> x = y.
  Proof. intros. apply Nat.eqb_eq. Qed.

  Lemma peqb_spec : forall p q : T * T, peqb teqb p q = true <-> p = q.
  Proof.
    intros [a b] [c d]. unfold peqb. simpl. rewrite andb_true_iff, !teqb_spec.
    split; [intros [-> ->]; reflexivity | intros H; inversion H; auto].
  Qed.

  Lemma WF_new s : WF (new s).
  Proof.
    constructor; unfold new, names, name_at, nn, group, grp_of, group_idx, pred_rel, or_default; simpl.
    - constructor.
    - intros x i. split; [discriminate|]. destruct i; discriminate.
    - intros i. destruct i; reflexivity.
    - constructor.
    - intros k l H. discriminate.
    - intros i j. destruct (directed s || Nat.leb i j); destruct i; reflexivity.
    - split; [constructor|]. intros i m H. discriminate.
    - split; [reflexivity|]. intros i row H. destruct i; discriminate.
    - split; [reflexivity|]. intros i row H. destruct i; discriminate.
    - intros i H. lia.
    - intros i l H. discriminate.
    - intros i H. lia.
    - intros i l H. discriminate.
    - intros x. split; [constructor|]. intros y. split; [intros []|]. intros (H & _). destruct H.
    - intros y. split; [constructor|]. intros x. split; [intros []|]. intros (_ & H). congruence.
  Qed.

  (* a state that differs only in node attributes is still well formed *)
  Lemma WF_same_names (g g' : gstate) :
    WF g ->
    names g' = names g ->
    nodes_map g' = nodes_map g -> edges g' = edges g -> edges_map g' = edges_map g ->
    sp g' = sp g -> successors g' = successors g -> successors_map g' = successors_map g ->
    successors_vec g' = successors_vec g -> predecessors g' = predecessors g ->
    predecessors_map g' = predecessors_map g -> predecessors_vec g' = predecessors_vec g ->
    (forall i, lookup Nat.eqb i (nodes_map_rev g') = nth_error (nodes_vec g') i) ->
    WF g'.
  Proof.
    intros [H1 H2 H3 H4 H5 H6 H6b H7 H8 H9 H10 H11 H12 H13 H14] En Enm Ee Eem Esp Esu Esm Esv Epr Epm Epv Hrev.
    constructor;
      unfold pred_rel, grp_of, group_idx, name_at, nn, group in *;
      rewrite ?En, ?Enm, ?Ee, ?Eem, ?Esp, ?Esu, ?Esm, ?Esv, ?Epr, ?Epm, ?Epv; try assumption.
  Qed.

  Lemma names_length (g : gstate) : length (names g) = length (nodes_vec g).
  Proof. unfold names. apply map_length. Qed.

  Lemma name_at_nodes (g : gstate) i x :
    name_at g i = Some x <-> exists n, nth_error (nodes_vec g) i = Some n /\ nname n = x.
  Proof.
    unfold name_at, names. rewrite nth_error_map.
    destruct (nth_error (nodes_vec g) i) as [n|]; simpl.
    - split; [intros H; inversion H; eauto|]. intros (n' & H & E). inversion H. subst. reflexivity.
    - split; [discriminate|]. intros (n' & H & _). discriminate.
  Qed.

  Lemma has_name_In (g : gstate) x : WF g -> has_name teqb g x = true <-> In x (names g).
  Proof.
    intros W. unfold has_name, contains_key.
    destruct (lookup teqb x (nodes_map g)) as [i|] eqn:E.
    - split; [|reflexivity]. intros _. apply (wf_nmap _ _ _ W) in E.
      unfold name_at in E. eapply nth_error_In. exact E.
    - split; [discriminate|]. intros H. apply In_nth_error in H. destruct H as (i & Hi).
      apply (wf_nmap _ _ _ W) in Hi. congruence.
  Qed.

  Lemma a_has_names (g : gstate) x : a_has teqb (Abs g) x = true <-> In x (names g).
  Proof.
    unfold a_has, Abs, names. simpl. rewrite existsb_exists, in_map_iff. split.
    - intros (n & Hn & E). apply teqb_spec in E. eauto.
    - intros (n & E & Hn). exists n. split; [exact Hn | apply teqb_spec; exact E].
  Qed.

  Lemma has_name_a_has (g : gstate) x : WF g -> has_name teqb g x = a_has teqb (Abs g) x.
  Proof.
    intros W. destruct (has_name teqb g x) eqn:E1; destruct (a_has teqb (Abs g) x) eqn:E2; try reflexivity.
    - apply (has_name_In _ _ W) in E1. apply a_has_names in E1. congruence.
    - apply a_has_names in E2. apply (has_name_In _ _ W) in E2. congruence.
  Qed.

  (* group keys only mention existing names *)
  Lemma group_fresh (g : gstate) x k l :
    WF g -> ~ In x (names g) -> group g k = Some l -> fst k <> x /\ snd k <> x.
  Proof.
    intros W Hx Hg. destruct (wf_egroup _ _ _ W _ _ Hg) as (_ & _ & Hf & Hs & _).
    split; intros E; subst; contradiction.
  Qed.

  Lemma cn_cases s x y : cn tltb s x y = (x, y) \/ cn tltb s x y = (y, x).
  Proof. unfold cn. destruct (negb (directed s) && tltb y x); auto. Qed.

  Lemma group_cn_fresh (g : gstate) x y :
    WF g -> (~ In x (names g) \/ ~ In y (names g)) -> group g (cn tltb (sp g) x y) = None.
  Proof.
    intros W H. destruct (group g (cn tltb (sp g) x y)) as [l|] eqn:E; [|reflexivity]. exfalso.
    destruct (wf_egroup _ _ _ W _ _ E) as (_ & _ & Hf & Hs & _).
    destruct (cn_cases (sp g) x y) as [C|C]; rewrite C in *; simpl in *; destruct H; contradiction.
  Qed.

  (* ---------------- add_node, existing name: replace in place ---------------- *)
  Lemma add_node_existing (g : gstate) (n : node) :
    WF g -> In (nname n) (names g) ->
    exists g', add_node teqb g n = Ok g' /\ WF g' /\ names g' = names g /\
               edges g' = edges g /\ sp g' = sp g /\
               nodes_vec g' = map (fun m => if teqb (nname m) (nname n) then n else m) (nodes_vec g) /\
               successors_vec g' = successors_vec g /\ predecessors_vec g' = predecessors_vec g.
  Proof.
    intros W Hin. unfold add_node.
    assert (has_name teqb g (nname n) = true) as -> by (apply has_name_In; assumption).
    apply In_nth_error in Hin. destruct Hin as (i & Hi).
    pose proof (proj2 (wf_nmap _ _ _ W (nname n) i) Hi) as Hl.
    unfold get_node_index. rewrite Hl.
    assert (Hlt : i < length (nodes_vec g)).
    { rewrite <- names_length. apply nth_error_Some. unfold name_at in Hi. congruence. }
    destruct (set_nth_Some i n (nodes_vec g) Hlt) as (nv & Hnv). rewrite Hnv.
    assert (Hnames : map nname nv = names g).
    { apply (proj1 (name_at_nodes g i (nname n))) in Hi. destruct Hi as (m & Hm & Em).
      eapply set_nth_same_map; [exact Hm | symmetry; exact Em | exact Hnv]. }
    assert (Hnv_eq : nv = map (fun m => if teqb (nname m) (nname n) then n else m) (nodes_vec g)).
    { apply nth_ext with (d := n) (d' := n).
      - rewrite map_length. eapply set_nth_length. exact Hnv.
      - intros j Hj. rewrite (set_nth_length _ _ _ _ Hnv) in Hj.
        apply nth_error_nth'  with (d := n) in Hj as Hj2.
        assert (nth_error nv j = nth_error (map (fun m => if teqb (nname m) (nname n) then n else m) (nodes_vec g)) j).
        { rewrite (set_nth_nth _ j _ _ _ Hnv), nth_error_map.
          destruct (Nat.eqb j i) eqn:Eji.
          - apply Nat.eqb_eq in Eji. subst j.
            apply (proj1 (name_at_nodes g i (nname n))) in Hi. destruct Hi as (m & Hm & Em).
            rewrite Hm. simpl. assert (teqb (nname m) (nname n) = true) as -> by (apply teqb_spec; exact Em).
            reflexivity.
          - destruct (nth_error (nodes_vec g) j) as [m|] eqn:Em; simpl; [|reflexivity].
            destruct (teqb (nname m) (nname n)) eqn:Et; [|reflexivity]. exfalso.
            apply teqb_spec in Et.
            assert (name_at g j = Some (nname n)).
            { apply name_at_nodes. eauto. }
            pose proof (wf_nodup _ _ _ W) as Hnd.
            rewrite NoDup_nth_error in Hnd.
            assert (j = i).
            { apply Hnd; [rewrite names_length; exact Hj|]. unfold name_at in *. congruence. }
            subst. rewrite Nat.eqb_refl in Eji. discriminate. }
        assert (Hlen2 : j < length nv) by (rewrite (set_nth_length _ _ _ _ Hnv); exact Hj).
        rewrite (nth_error_nth' nv n Hlen2) in H.
        assert (Hlen3 : j < length (map (fun m => if teqb (nname m) (nname n) then n else m) (nodes_vec g)))
          by (rewrite map_length; exact Hj).
        rewrite (nth_error_nth' _ n Hlen3) in H. inversion H. reflexivity. }
    eexists. split; [reflexivity|]. split.
    { eapply WF_same_names; try exact W; simpl; try reflexivity; try assumption.
      intros j. rewrite (lookup_insert Nat.eqb nat_eqb_spec), (set_nth_nth _ j _ _ _ Hnv).
      destruct (Nat.eqb j i); [reflexivity|]. apply (wf_nrev _ _ _ W). }
    simpl. repeat split; try reflexivity; assumption.
  Qed.

  (* ---------------- add_node, new name: append ---------------- *)
  Lemma group_key_names (g : gstate) k l :
    WF g -> group g k = Some l -> In (fst k) (names g) /\ In (snd k) (names g).
  Proof. intros W H. destruct (wf_egroup _ _ _ W _ _ H) as (_ & _ & Hf & Hs & _). auto. Qed.

  Lemma add_node_fresh (g : gstate) (n : node) :
    WF g -> ~ In (nname n) (names g) ->
    exists g', add_node teqb g n = Ok g' /\ WF g' /\ names g' = names g ++ [nname n] /\
               edges g' = edges g /\ sp g' = sp g /\ nodes_vec g' = nodes_vec g ++ [n] /\
               edges_map g' = edges_map g /\
               successors_vec g' = successors_vec g ++ [[]] /\
               predecessors_vec g' = predecessors_vec g ++ [[]].
  Proof.
    intros W Hni. unfold add_node.
    assert (Hh : has_name teqb g (nname n) = false).
    { destruct (has_name teqb g (nname n)) eqn:E; [|reflexivity].
      apply (has_name_In _ _ W) in E. contradiction. }
    rewrite Hh. unfold has_name in Hh. rewrite Hh.
    set (n0 := length (nodes_vec g)).
    assert (Hrev0 : lookup Nat.eqb n0 (nodes_map_rev g) = None).
    { rewrite (wf_nrev _ _ _ W). apply nth_error_None. unfold n0. lia. }
    unfold contains_key at 1. rewrite Hrev0.
    eexists. split; [reflexivity|].
    assert (Hlen : length (names g) = n0) by apply names_length.
    assert (Hlk : lookup teqb (nname n) (nodes_map g) = None).
    { unfold contains_key in Hh. destruct (lookup teqb (nname n) (nodes_map g)); [discriminate|reflexivity]. }
    set (g' := {| nodes_map := insert teqb (nname n) n0 (nodes_map g);
                  nodes_map_rev := insert Nat.eqb n0 n (nodes_map_rev g);
                  nodes_vec := nodes_vec g ++ [n]; edges := edges g; edges_map := edges_map g;
                  sp := sp g; successors := successors g;
                  successors_map := insert Nat.eqb n0 [] (successors_map g);
                  successors_vec := successors_vec g ++ [[]];
                  predecessors := predecessors g;
                  predecessors_map := insert Nat.eqb n0 [] (predecessors_map g);
                  predecessors_vec := predecessors_vec g ++ [[]] |}).
    assert (Hnames : names g' = names g ++ [nname n]).
    { unfold names, g'. simpl. rewrite map_app. reflexivity. }
    assert (Hna : forall i, name_at g' i =
                            if Nat.ltb i n0 then name_at g i else if Nat.eqb i n0 then Some (nname n) else None).
    { intros i. unfold name_at. rewrite Hnames.
      destruct (Nat.ltb i n0) eqn:E1.
      - apply Nat.ltb_lt in E1. rewrite nth_error_app1 by lia. reflexivity.
      - apply Nat.ltb_ge in E1. destruct (Nat.eqb i n0) eqn:E2.
        + apply Nat.eqb_eq in E2. subst i. rewrite <- Hlen. apply nth_error_app_last.
        + apply Nat.eqb_neq in E2. apply nth_error_None. rewrite app_length. simpl. lia. }
    assert (Hna_old : forall i, n0 <= i -> name_at g i = None).
    { intros i Hi. unfold name_at. apply nth_error_None. lia. }
    assert (Hgrp : forall i j, grp_of g' i j = grp_of g i j).
    { intros i j. unfold WFDefs.grp_of. rewrite !Hna.
      change (WFDefs.group teqb g') with (group g). change (sp g') with (sp g).
      destruct (Nat.ltb i n0) eqn:Ei.
      - destruct (name_at g i) as [x|] eqn:Exi; [|reflexivity].
        destruct (Nat.ltb j n0) eqn:Ej; [reflexivity|].
        apply Nat.ltb_ge in Ej. rewrite (Hna_old j Ej).
        destruct (Nat.eqb j n0); [|reflexivity].
        apply group_cn_fresh; [exact W | right; exact Hni].
      - apply Nat.ltb_ge in Ei. rewrite (Hna_old i Ei).
        destruct (Nat.eqb i n0); [|reflexivity].
        destruct (if Nat.ltb j n0 then name_at g j else if Nat.eqb j n0 then Some (nname n) else None);
          [|reflexivity].
        apply group_cn_fresh; [exact W | left; exact Hni]. }
    assert (Hprel : forall i j, pred_rel g' j i = pred_rel g j i).
    { intros i j. unfold WFDefs.pred_rel. change (sp g') with (sp g). rewrite Hgrp. reflexivity. }
    assert (Hnn : nn g' = S n0).
    { unfold WFDefs.nn. rewrite Hnames, app_length. simpl. lia. }
    assert (Hnn0 : nn g = n0) by exact Hlen.
    split; [|repeat split; try reflexivity; exact Hnames].
    constructor.
    - rewrite Hnames. apply NoDup_snoc; [apply (wf_nodup _ _ _ W) | exact Hni].
    - intros y i. simpl. rewrite (lookup_insert teqb teqb_spec), Hna.
      destruct (teqb y (nname n)) eqn:Ey.
      + apply teqb_spec in Ey. subst y. split.
        * intros H. inversion H. subst i. rewrite Nat.ltb_irrefl, Nat.eqb_refl. reflexivity.
        * destruct (Nat.ltb i n0) eqn:Ei.
          -- intros H. exfalso. apply Hni. unfold name_at in H. eapply nth_error_In. exact H.
          -- destruct (Nat.eqb i n0) eqn:Ei2; [|discriminate].
             apply Nat.eqb_eq in Ei2. subst. reflexivity.
      + rewrite (wf_nmap _ _ _ W). destruct (Nat.ltb i n0) eqn:Ei; [reflexivity|].
        apply Nat.ltb_ge in Ei. rewrite (Hna_old i Ei). split; [discriminate|].
        destruct (Nat.eqb i n0); [|discriminate]. intros H. inversion H. subst.
        rewrite (proj2 (teqb_spec _ _) eq_refl) in Ey. discriminate.
    - intros i. simpl. rewrite (lookup_insert Nat.eqb nat_eqb_spec).
      destruct (Nat.eqb i n0) eqn:Ei.
      + apply Nat.eqb_eq in Ei. subst i. symmetry. apply nth_error_app_last.
      + apply Nat.eqb_neq in Ei. rewrite (wf_nrev _ _ _ W).
        destruct (Nat.lt_ge_cases i n0) as [Hlt|Hge].
        * rewrite nth_error_app1 by exact Hlt. reflexivity.
        * symmetry. transitivity (@None node); [apply nth_error_None; rewrite app_length; simpl; lia|].
          symmetry. apply nth_error_None. unfold n0 in *. lia.
    - apply (wf_ekeys _ _ _ W).
    - intros k l H. change (group g k = Some l) in H.
      destruct (wf_egroup _ _ _ W _ _ H) as (H1 & H2 & H3 & H4 & H5 & H6 & H7).
      rewrite Hnames. repeat split; try assumption; apply in_or_app; left; assumption.
    - intros i j. rewrite Hgrp. apply (wf_emap _ _ _ W).
    - apply (wf_emkeys _ _ _ W).
    - destruct (wf_sv _ _ _ W) as (Hl & Hr). split.
      + simpl. rewrite app_length, Hnn, Hl, Hnn0. simpl. lia.
      + intros i row Hrow. simpl in Hrow. change (sp g') with (sp g).
        assert (Hext : forall r, row_ok (sp g) (grp_of g i) r -> row_ok (sp g) (grp_of g' i) r).
        { intros r (Ha & Hb). split; [exact Ha|]. intros j w. rewrite Hgrp. apply Hb. }
        apply Hext.
        destruct (Nat.lt_ge_cases i (length (successors_vec g))) as [Hlt|Hge].
        * rewrite nth_error_app1 in Hrow by exact Hlt. apply Hr. exact Hrow.
        * rewrite nth_error_app2 in Hrow by exact Hge.
          destruct (i - length (successors_vec g)) as [|d] eqn:Ed; simpl in Hrow;
            [|destruct d; discriminate].
          inversion Hrow. subst row. split; [constructor|].
          intros j w. split; [intros []|]. intros (l & Hl2 & _).
          assert (i = n0) by lia. subst i.
          unfold WFDefs.grp_of in Hl2. rewrite (Hna_old n0) in Hl2 by lia. discriminate.
    - destruct (wf_pv _ _ _ W) as (Hl & Hr). split.
      + simpl. rewrite app_length, Hnn, Hl, Hnn0. simpl. lia.
      + intros j row Hrow. simpl in Hrow. change (sp g') with (sp g).
        assert (Hext : forall r, row_ok (sp g) (pred_rel g j) r -> row_ok (sp g) (pred_rel g' j) r).
        { intros r (Ha & Hb). split; [exact Ha|]. intros i w. rewrite Hprel. apply Hb. }
        apply Hext.
        destruct (Nat.lt_ge_cases j (length (predecessors_vec g))) as [Hlt|Hge].
        * rewrite nth_error_app1 in Hrow by exact Hlt. apply Hr. exact Hrow.
        * rewrite nth_error_app2 in Hrow by exact Hge.
          destruct (j - length (predecessors_vec g)) as [|d] eqn:Ed; simpl in Hrow;
            [|destruct d; discriminate].
          inversion Hrow. subst row. split; [constructor|].
          intros i w. split; [intros []|]. intros (l & Hl2 & _).
          assert (j = n0) by lia. subst j.
          unfold WFDefs.pred_rel, WFDefs.grp_of in Hl2.
          destruct (directed (sp g)); [|discriminate].
          rewrite (Hna_old n0) in Hl2 by lia.
          destruct (name_at g i); discriminate.
    - intros i Hi. rewrite Hnn in Hi. simpl. rewrite (lookup_insert Nat.eqb nat_eqb_spec).
      destruct (Nat.eqb i n0) eqn:Ei.
      + apply Nat.eqb_eq in Ei. subst i. exists []. split; [reflexivity|]. split; [constructor|].
        intros j. split; [intros []|]. intros H. exfalso. apply H. rewrite Hgrp.
        unfold WFDefs.grp_of. rewrite (Hna_old n0) by lia. reflexivity.
      + apply Nat.eqb_neq in Ei. destruct (wf_sm _ _ _ W i) as (l & Hl & Hs & Hm); [rewrite Hnn0; lia|].
        exists l. split; [exact Hl|]. split; [exact Hs|]. intros j. rewrite Hgrp. apply Hm.
    - intros i l. simpl. rewrite (lookup_insert Nat.eqb nat_eqb_spec), Hnn.
      destruct (Nat.eqb i n0) eqn:Ei.
      + apply Nat.eqb_eq in Ei. lia.
      + intros H. apply (wf_sm_dom _ _ _ W) in H. rewrite Hnn0 in H. lia.
    - intros j Hj. rewrite Hnn in Hj. simpl. rewrite (lookup_insert Nat.eqb nat_eqb_spec).
      destruct (Nat.eqb j n0) eqn:Ej.
      + apply Nat.eqb_eq in Ej. subst j. exists []. split; [reflexivity|]. split; [constructor|].
        intros i. split; [intros []|]. intros H. exfalso. apply H. rewrite Hprel.
        unfold WFDefs.pred_rel, WFDefs.grp_of. destruct (directed (sp g)); [|reflexivity].
        rewrite (Hna_old n0) by lia. destruct (name_at g i); reflexivity.
      + apply Nat.eqb_neq in Ej. destruct (wf_pm _ _ _ W j) as (l & Hl & Hs & Hm); [rewrite Hnn0; lia|].
        exists l. split; [exact Hl|]. split; [exact Hs|]. intros i. rewrite Hprel. apply Hm.
    - intros j l. simpl. rewrite (lookup_insert Nat.eqb nat_eqb_spec), Hnn.
      destruct (Nat.eqb j n0) eqn:Ej.
      + apply Nat.eqb_eq in Ej. lia.
      + intros H. apply (wf_pm_dom _ _ _ W) in H. rewrite Hnn0 in H. lia.
    - intros x. destruct (wf_su _ _ _ W x) as (Hnd & Hm). split; [exact Hnd|].
      intros y. change (successors g') with (successors g). rewrite Hm, Hnames.
      change (WFDefs.group teqb g') with (group g). change (sp g') with (sp g).
      split.
      + intros (Hx & Hy & Hg). repeat split; try (apply in_or_app; left; assumption). exact Hg.
      + intros (_ & _ & Hg). destruct (group g (cn tltb (sp g) x y)) as [l|] eqn:E; [|congruence].
        destruct (group_key_names _ _ _ W E) as (Hf & Hs).
        destruct (cn_cases (sp g) x y) as [C|C]; rewrite C in *; simpl in *;
          repeat split; try assumption; congruence.
    - apply (wf_pr _ _ _ W).
  Qed.
End WFNode.
