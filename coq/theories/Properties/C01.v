(* Property C01 — Mutations follow GraphSpecs exactly; a rejected operation changes nothing.
   This file contains only the pinned statements; proofs live in Proofs/.  The
   statements are repeated in coq/pins/C01.v and re-checked on every run. *)
From Coq Require Import List Bool ZArith.
From Coq Require Import Permutation.
From GV Require Import Base.Outcome Base.AMap Model.GState Model.Creation Spec.AGraph Spec.History.
From GV Require Import Proofs.SpecOpsOk Proofs.WFDefs Proofs.Refine Proofs.HistoryOk.
From GV Require Import Proofs.HistoryRefine.
Import ListNotations.

Section C01.
  Context {T A : Type}.
  Variable teqb : T -> T -> bool.
  Variable tltb : T -> T -> bool.
  Hypothesis teqb_spec : forall x y, teqb x y = true <-> x = y.
  Hypothesis tltb_irrefl : forall x, tltb x x = false.
  Hypothesis tltb_asym : forall x y, tltb x y = true -> tltb y x = false.
  Hypothesis tltb_total : forall x y, tltb x y = false -> tltb y x = false -> x = y.
  Notation agraph := (agraph T A).
  Notation edge := (edge T A).
  Notation node := (node T A).

  Theorem C01_error_is_noop : forall (a : agraph) (e : edge) (a' : agraph) k,
    spec_add_edge teqb tltb a e = (a', Err k) -> a' = a.
  Proof. exact (spec_add_edge_error_noop teqb tltb). Qed.

  Theorem C01_error_kinds : forall (a : agraph) (e : edge) (a' : agraph) k,
    spec_add_edge teqb tltb a e = (a', Err k) ->
    k = SelfLoopsFound \/ k = NodeNotFound \/ k = DuplicateEdge.
  Proof. exact (spec_add_edge_error_kinds teqb tltb). Qed.

  Theorem C01_selfloop_policy : forall (a : agraph) (e : edge),
    selfloops (a_sp a) = false -> eu e = ev e ->
    spec_add_edge teqb tltb a e =
    (a, match slf (a_sp a) with SErr => Err SelfLoopsFound | SDrop => Ok tt end).
  Proof. exact (spec_selfloop_policy teqb tltb teqb_spec). Qed.

  Theorem C01_missing_node_error : forall (a : agraph) (e : edge),
    ms (a_sp a) = MErr ->
    (negb (selfloops (a_sp a)) && teqb (eu e) (ev e)) = false ->
    (a_has teqb a (eu e) && a_has teqb a (ev e)) = false ->
    spec_add_edge teqb tltb a e = (a, Err NodeNotFound).
  Proof. exact (spec_missing_error teqb tltb). Qed.

  Theorem C01_missing_nodes_created_source_first : forall (a : agraph) u v,
    a_has teqb a u = false -> a_has teqb a v = false -> u <> v ->
    a_nodes (ensure_node teqb (ensure_node teqb a u) v)
    = a_nodes a ++ [mknode u None; mknode v None].
  Proof. exact (ensure_nodes_source_first teqb teqb_spec). Qed.

  Theorem C01_duplicate_policy : forall (a : agraph) (e : edge),
    let s := a_sp a in
    multi s = false ->
    (negb (selfloops s) && teqb (eu e) (ev e)) = false ->
    a_has teqb a (eu e) = true -> a_has teqb a (ev e) = true ->
    existsb (same_pair teqb (canon tltb s e)) (a_edges a) = true ->
    spec_add_edge teqb tltb a e =
    match dd s with
    | DErr => (a, Err DuplicateEdge)
    | DKeepFirst => (a, Ok tt)
    | DKeepLast => (mka s (a_nodes a)
                        (filter (fun x => negb (same_pair teqb (canon tltb s e) x)) (a_edges a)
                                ++ [canon tltb s e]), Ok tt)
    end.
  Proof. exact (spec_duplicate_policy teqb tltb). Qed.

  Theorem C01_multi_appends : forall (a : agraph) (e : edge),
    let s := a_sp a in
    multi s = true ->
    (negb (selfloops s) && teqb (eu e) (ev e)) = false ->
    a_has teqb a (eu e) = true -> a_has teqb a (ev e) = true ->
    spec_add_edge teqb tltb a e = (mka s (a_nodes a) (a_edges a ++ [canon tltb s e]), Ok tt).
  Proof. exact (spec_multi_appends teqb tltb). Qed.

  Theorem C01_undirected_either_orientation : forall s (e : edge),
    directed s = false ->
    same_pair teqb (canon tltb s e) (canon tltb s (a_reversed e)) = true.
  Proof. exact (canon_orientation_irrelevant teqb tltb teqb_spec tltb_asym tltb_total). Qed.

  Theorem C01_readd_keeps_position : forall (a : agraph) (n : node),
    map nname (a_nodes (spec_add_node teqb a n)) =
    if a_has teqb a (nname n) then map nname (a_nodes a) else map nname (a_nodes a) ++ [nname n].
  Proof. exact (spec_readd_keeps_names teqb teqb_spec). Qed.

  Theorem C01_readd_replaces_attributes : forall (a : agraph) (n : node) i m,
    a_has teqb a (nname n) = true ->
    nth_error (a_nodes a) i = Some m ->
    nth_error (a_nodes (spec_add_node teqb a n)) i = Some (if teqb (nname m) (nname n) then n else m).
  Proof. exact (spec_readd_replaces teqb). Qed.

  Theorem C01_batch_prefix : forall es (a a' : agraph) k,
    spec_add_edges teqb tltb a es = (a', Err k) ->
    exists p e rest,
      es = p ++ e :: rest /\
      a' = apply_ok teqb tltb a p /\
      (forall q x q', p = q ++ x :: q' ->
                      snd (spec_add_edge teqb tltb (apply_ok teqb tltb a q) x) = Ok tt) /\
      spec_add_edge teqb tltb a' e = (a', Err k).
  Proof. exact (spec_batch_prefix teqb tltb). Qed.

  Theorem C01_never_panics : forall (a : agraph) (e : edge),
    is_panic (snd (spec_add_edge teqb tltb a e)) = false /\
    is_fuel (snd (spec_add_edge teqb tltb a e)) = false.
  Proof. exact (spec_add_edge_no_panic teqb tltb). Qed.

  (* ---- the faithful twelve-field model (Model/Creation.v) refines the spec ladder ---- *)
  Notation gstate := (gstate T A).
  Notation WF := (@WF T A teqb tltb).

  (* every state reachable by any history of mutation calls is coherent *)
  Theorem C01_model_reachable_WF : forall s (g : gstate), reachable teqb tltb s g -> WF g.
  Proof. exact (WF_reachable teqb tltb teqb_spec tltb_asym tltb_total). Qed.

  (* one add_edge call on a coherent state: stays coherent, returns the outcome the spec
     dictates, yields the node list and the edge multiset the spec dictates, and leaves
     all twelve fields untouched when it returns an error *)
  Theorem C01_model_add_edge_refines : forall (g : gstate) (e : edge),
    WF g ->
    WF (fst (add_edge teqb tltb g e)) /\
    snd (add_edge teqb tltb g e) = snd (spec_add_edge teqb tltb (Abs g) e) /\
    sp (fst (add_edge teqb tltb g e)) = sp g /\
    nodes_vec (fst (add_edge teqb tltb g e)) = a_nodes (fst (spec_add_edge teqb tltb (Abs g) e)) /\
    Permutation (flat_map snd (edges (fst (add_edge teqb tltb g e))))
                (a_edges (fst (spec_add_edge teqb tltb (Abs g) e))) /\
    (forall k, snd (add_edge teqb tltb g e) = Err k -> fst (add_edge teqb tltb g e) = g).
  Proof. exact (add_edge_refines teqb tltb teqb_spec tltb_asym tltb_total). Qed.

  Theorem C01_model_add_node_refines : forall (g : gstate) (n : node),
    WF g ->
    exists g', add_node teqb g n = Ok g' /\ WF g' /\ Abs g' = spec_add_node teqb (Abs g) n.
  Proof. exact (add_node_refines teqb tltb teqb_spec). Qed.

  Theorem C01_model_never_panics : forall (g : gstate) (e : edge),
    WF g ->
    is_panic (snd (add_edge teqb tltb g e)) = false /\ is_fuel (snd (add_edge teqb tltb g e)) = false.
  Proof. exact (add_edge_no_panic teqb tltb teqb_spec tltb_asym tltb_total). Qed.

  Theorem C01_model_batch_prefix : forall es (g g' : gstate) k,
    WF g -> add_edges teqb tltb g es = (g', Err k) ->
    exists p e rest,
      es = p ++ e :: rest /\ g' = apply_ok_m teqb tltb g p /\
      (forall q x q', p = q ++ x :: q' ->
                      snd (add_edge teqb tltb (apply_ok_m teqb tltb g q) x) = Ok tt) /\
      add_edge teqb tltb g' e = (g', Err k).
  Proof. exact (add_edges_prefix teqb tltb teqb_spec tltb_asym tltb_total). Qed.

  Theorem C01_model_new_from_is_history : forall ns es s (g : gstate),
    new_from_nodes_and_edges teqb tltb ns es s = Ok g -> reachable teqb tltb s g.
  Proof. exact (new_from_reachable teqb tltb teqb_spec). Qed.
  (* ---- whole histories: model and specification in lockstep ----
     For every sequence of add_node / add_nodes / add_edge / add_edges calls from any coherent
     state [g] representing the abstract graph [a] (Rep: WF, same specs, same node list, same edge
     multiset): the outcomes agree call by call and the final states are again related. *)
  Theorem C01_history_refines : forall ms (g : gstate) (a : agraph),
    Rep teqb tltb g a ->
    snd (run_outs teqb tltb g ms) = snd (spec_run_outs teqb tltb a ms) /\
    Rep teqb tltb (fst (run_outs teqb tltb g ms)) (fst (spec_run_outs teqb tltb a ms)).
  Proof. exact (history_refines teqb tltb teqb_spec tltb_asym tltb_total). Qed.

  (* from new(specs), what a caller of the API sees: every call returns exactly the outcome the
     policy specification dictates (never a panic), and the graph held afterwards has the specs it was
     created with, the node list and the edge multiset of the specification, and is coherent *)
  Theorem C01_history_from_new : forall s ms,
    let g := fst (run_outs teqb tltb (new s) ms) in
    let a := fst (spec_run_outs teqb tltb (a_new s) ms) in
    snd (run_outs teqb tltb (new s) ms) = snd (spec_run_outs teqb tltb (a_new s) ms) /\
    WF g /\ sp g = s /\ nodes_vec g = a_nodes a /\
    Permutation (flat_map snd (edges g)) (a_edges a) /\
    Forall (fun r => is_panic r = false /\ is_fuel r = false) (snd (run_outs teqb tltb (new s) ms)).
  Proof. exact (history_from_new teqb tltb teqb_spec tltb_asym tltb_total). Qed.
End C01.

(* non-vacuity: the hypotheses on the name order are met by integers, and a coherent
   non-trivial state exists *)
From Coq Require Import ZArith Lia.
Example C01_nonvacuous :
  (forall x y, Z.eqb x y = true <-> x = y) /\
  (forall x y, Z.ltb x y = true -> Z.ltb y x = false) /\
  (forall x y, Z.ltb x y = false -> Z.ltb y x = false -> x = y) /\
  reachable Z.eqb Z.ltb (mkspecs false DKeepLast MCreate false true SErr)
    (run_muts Z.eqb Z.ltb (new (mkspecs false DKeepLast MCreate false true SErr))
       [MutEdge (mkedge 5 3 (Some 1) (@None Z)); MutEdge (mkedge 3 5 (Some 7) None);
        MutEdge (mkedge 3 3 None None)]%Z).
Proof.
  split; [apply Z.eqb_eq|]. split; [intros x y H; apply Z.ltb_lt in H; apply Z.ltb_ge; lia|].
  split; [intros x y H1 H2; apply Z.ltb_ge in H1; apply Z.ltb_ge in H2; lia|].
  eexists. reflexivity.
Qed.
