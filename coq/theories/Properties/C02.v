(* Property C02 — Every read API describes one and the same graph.
   Only pinned statements; proofs in Proofs/QueryOk.v on top of the WF invariant
   (which holds after every history: C01_model_reachable_WF). *)
From Coq Require Import String List Bool Permutation.
From GV Require Import Base.Outcome Base.AMap Model.GState Model.Creation Model.Query Spec.AGraph.
From GV Require Import Proofs.WFDefs Proofs.AdjOk Proofs.QueryOk.
From GV Require Import Spec.ReachDef Spec.CompSpec Spec.EdgeAdj Proofs.CompWF.
Import ListNotations.

Section C02.
  Context {T A : Type}.
  Variable teqb : T -> T -> bool.
  Variable tltb : T -> T -> bool.
  Hypothesis teqb_spec : forall x y, teqb x y = true <-> x = y.
  Hypothesis tltb_asym : forall x y, tltb x y = true -> tltb y x = false.
  Hypothesis tltb_total : forall x y, tltb x y = false -> tltb y x = false -> x = y.
  Notation gstate := (gstate T A).
  Notation WF := (@WF T A teqb tltb).
  Notation all_edges := (fun g : gstate => flat_map snd (edges g)).

  (* name lookups answer from the node list *)
  Theorem C02_get_node : forall (g : gstate) x,
    WF g -> get_node teqb g x = Ok (find (fun n => teqb (nname n) x) (nodes_vec g)).
  Proof. exact (get_node_spec teqb tltb teqb_spec). Qed.

  Theorem C02_has_node : forall (g : gstate) x,
    WF g -> has_node teqb g x = Ok (existsb (fun n => teqb (nname n) x) (nodes_vec g)).
  Proof. exact (has_node_spec teqb tltb teqb_spec). Qed.

  (* name <-> position lookups are mutually inverse views of the node list: the position stored for
     a name is where that name sits in get_all_nodes, get_node_by_index reads that very list *)
  Theorem C02_name_position : forall (g : gstate),
    WF g ->
    (forall x i, get_node_index teqb g x = Ok i <-> nth_error (map nname (nodes_vec g)) i = Some x) /\
    (forall i, get_node_by_index g i = nth_error (nodes_vec g) i) /\
    NoDup (get_all_node_names g).
  Proof.
    intros g W. split; [|split].
    - intros x i. unfold get_node_index. rewrite <- (wf_nmap _ _ _ W x i).
      destruct (lookup teqb x (nodes_map g)); split; intros H; inversion H; reflexivity.
    - exact (wf_nrev _ _ _ W).
    - exact (wf_nodup _ _ _ W).
  Qed.

  (* get_successors_map / get_predecessors_map (the name-keyed adjacency maps handed out by
     reference) list, without repetition, exactly the names joined by a stored edge group *)
  Theorem C02_successors_map : forall (g : gstate) x,
    WF g ->
    NoDup (or_default teqb x (successors g)) /\
    forall y, In y (or_default teqb x (successors g)) <->
              (In x (names g) /\ In y (names g) /\ group teqb g (cn tltb (sp g) x y) <> None).
  Proof. intros g x W. exact (wf_su _ _ _ W x). Qed.

  Theorem C02_predecessors_map : forall (g : gstate) y,
    WF g ->
    NoDup (or_default teqb y (predecessors g)) /\
    forall x, In x (or_default teqb y (predecessors g)) <->
              (directed (sp g) = true /\ group teqb g (x, y) <> None).
  Proof. intros g y W. exact (wf_pr _ _ _ W y). Qed.

  (* pair lookups answer from get_all_edges alone (stored_between = the edges of get_all_edges
     whose endpoints are the pair, in storage orientation, in insertion order), with the kind
     guards WrongMethod / NodeNotFound / EdgeNotFound exactly as specified *)
  Theorem C02_get_edges : forall (g : gstate) u v,
    WF g ->
    get_edges teqb g u v =
    if negb (multi (sp g)) then Err WrongMethod
    else if negb (existsb (fun n => teqb (nname n) u) (nodes_vec g))
            || negb (existsb (fun n => teqb (nname n) v) (nodes_vec g)) then Err NodeNotFound
    else match stored_between teqb tltb g u v with [] => Err EdgeNotFound | l => Ok l end.
  Proof. exact (get_edges_spec teqb tltb teqb_spec tltb_asym tltb_total). Qed.

  Theorem C02_get_edge : forall (g : gstate) u v,
    WF g ->
    get_edge teqb g u v =
    if multi (sp g) then Err WrongMethod
    else if negb (existsb (fun n => teqb (nname n) u) (nodes_vec g))
            || negb (existsb (fun n => teqb (nname n) v) (nodes_vec g)) then Err NodeNotFound
    else match stored_between teqb tltb g u v with [] => Err EdgeNotFound | e :: _ => Ok e end.
  Proof. exact (get_edge_spec teqb tltb teqb_spec tltb_asym tltb_total). Qed.

  (* undirected graphs: symmetric in the two arguments, for ANY relation between the names'
     sort order and their insertion order *)
  Theorem C02_get_edge_symmetric : forall (g : gstate) u v,
    WF g -> directed (sp g) = false -> get_edge teqb g u v = get_edge teqb g v u.
  Proof. exact (get_edge_symmetric teqb tltb teqb_spec tltb_asym tltb_total). Qed.

  Theorem C02_get_edges_symmetric : forall (g : gstate) u v,
    WF g -> directed (sp g) = false -> get_edges teqb g u v = get_edges teqb g v u.
  Proof. exact (get_edges_symmetric teqb tltb teqb_spec tltb_asym tltb_total). Qed.

  (* per-node edge lists are exactly (as multisets) the edges of get_all_edges at that node *)
  Theorem C02_out_edges : forall (g : gstate) x,
    WF g -> directed (sp g) = true -> In x (names g) ->
    exists l, get_out_edges_for_node teqb g x = Ok l /\ Permutation l (out_edges_of teqb g x).
  Proof. exact (get_out_edges_for_node_spec teqb tltb teqb_spec). Qed.

  Theorem C02_in_edges : forall (g : gstate) y,
    WF g -> directed (sp g) = true -> In y (names g) ->
    exists l, get_in_edges_for_node teqb g y = Ok l /\ Permutation l (in_edges_of teqb g y).
  Proof. exact (get_in_edges_for_node_spec teqb tltb teqb_spec). Qed.

  Theorem C02_edges_for_node : forall (g : gstate) x,
    WF g -> In x (names g) ->
    exists l, get_edges_for_node teqb tltb g x = Ok l /\ Permutation l (touching teqb g x).
  Proof. exact (get_edges_for_node_spec teqb tltb teqb_spec tltb_total). Qed.

  (* successor / predecessor node lists: duplicate-free, exactly the nodes joined by a stored edge *)
  Theorem C02_successor_nodes : forall (g : gstate) x,
    WF g -> directed (sp g) = true -> In x (names g) ->
    exists l, get_successor_nodes teqb g x = Ok l /\ NoDup (map nname l) /\
              forall y, In y (map nname l) <-> group teqb g (x, y) <> None.
  Proof. exact (get_successor_nodes_spec teqb tltb). Qed.

  Theorem C02_predecessor_nodes : forall (g : gstate) x,
    WF g -> directed (sp g) = true -> In x (names g) ->
    exists l, get_predecessor_nodes teqb g x = Ok l /\ NoDup (map nname l) /\
              forall y, In y (map nname l) <-> group teqb g (y, x) <> None.
  Proof. exact (get_predecessor_nodes_spec teqb tltb). Qed.

  (* neighbour list (both graph kinds): duplicate-free; exactly the nodes joined to x by a stored
     edge in either direction *)
  Theorem C02_neighbor_nodes : forall (g : gstate) x,
    WF g -> In x (names g) ->
    exists l, get_neighbor_nodes teqb g x = Ok l /\ NoDup (map nname l) /\
              forall y, In y (map nname l) <->
                        (In y (names g) /\
                         (group teqb g (cn tltb (sp g) x y) <> None \/
                          (directed (sp g) = true /\ group teqb g (y, x) <> None))).
  Proof. exact (get_neighbor_nodes_spec teqb tltb). Qed.

  (* node-set variants: answered from the node list and get_all_edges alone *)
  Theorem C02_has_nodes : forall (g : gstate) xs,
    WF g -> has_nodes teqb g xs = Ok (forallb (in_names teqb g) xs).
  Proof. exact (has_nodes_spec teqb tltb teqb_spec). Qed.

  Theorem C02_edges_for_nodes : forall (g : gstate) xs,
    WF g ->
    get_edges_for_nodes teqb g xs =
    if forallb (in_names teqb g) xs
    then Ok (filter (fun e => mem_name teqb (eu e) xs || mem_name teqb (ev e) xs) (flat_map snd (edges g)))
    else Err NodeNotFound.
  Proof. exact (get_edges_for_nodes_spec teqb tltb teqb_spec). Qed.

  Theorem C02_in_edges_for_nodes : forall (g : gstate) xs,
    WF g ->
    get_in_edges_for_nodes teqb g xs =
    if negb (directed (sp g)) then Err WrongMethod
    else if forallb (in_names teqb g) xs
    then Ok (filter (fun e => mem_name teqb (ev e) xs) (flat_map snd (edges g)))
    else Err NodeNotFound.
  Proof. exact (get_in_edges_for_nodes_spec teqb tltb teqb_spec). Qed.

  Theorem C02_out_edges_for_nodes : forall (g : gstate) xs,
    WF g ->
    get_out_edges_for_nodes teqb g xs =
    if negb (directed (sp g)) then Err WrongMethod
    else if forallb (in_names teqb g) xs
    then Ok (filter (fun e => mem_name teqb (eu e) xs) (flat_map snd (edges g)))
    else Err NodeNotFound.
  Proof. exact (get_out_edges_for_nodes_spec teqb tltb teqb_spec). Qed.

  (* the adjacency query the searches use (successors on a directed graph, neighbours on an
     undirected one) succeeds on every node and lists exactly the nodes one step away along a
     stored edge of get_all_edges (g_follow: along u -> v, on an undirected graph also against it) *)
  Theorem C02_successors_or_neighbors : forall (g : gstate) u,
    WF g -> In u (names g) ->
    exists ns, get_successors_or_neighbors teqb g u = Ok ns /\
               forall v, In v (map nname ns) <-> g_follow g u v.
  Proof. exact (successors_or_neighbors_wf teqb tltb teqb_spec tltb_total). Qed.

  (* breadth_first_search from a node returns: x first, no node twice, exactly the nodes
     reachable from x along stored edges (reflexive-transitive closure of g_follow); from a
     name that is not a node the unwrap of the adjacency query fails *)
  Theorem C02_breadth_first_search : forall (g : gstate) x,
    WF g -> In x (names g) ->
    exists l, breadth_first_search teqb g x = Ok l /\
              (exists t, l = x :: t) /\ NoDup l /\ (forall y, In y l <-> reach (g_follow g) x y).
  Proof. exact (bfs_wf teqb tltb teqb_spec tltb_total). Qed.

  Theorem C02_breadth_first_search_absent : forall (g : gstate) x,
    WF g -> ~ In x (names g) ->
    breadth_first_search teqb g x = Panic "query.rs:get_successors_or_neighbors unwrap".
  Proof. exact (bfs_absent teqb tltb). Qed.
End C02.
