(* Property C02 — Every read API describes one and the same graph.
   Only pinned statements; proofs in Proofs/QueryOk.v on top of the WF invariant
   (which holds after every history: C01_model_reachable_WF). *)
From Coq Require Import String List Bool Permutation.
From GV Require Import Base.Outcome Base.AMap Model.GState Model.Creation Model.Query Spec.AGraph.
From GV Require Import Proofs.WFDefs Proofs.AdjOk Proofs.QueryOk.
From GV Require Import Spec.History Proofs.WFEdge Proofs.HistoryRefine Proofs.InsertionOrder.
From GV Require Import Spec.ReachDef Spec.CompSpec Spec.EdgeAdj Proofs.CompWF.
Import ListNotations.

Section C02.
  Context {T A : Type}.
  Variable teqb : T -> T -> bool.
  Variable tltb : T -> T -> bool.
  Hypothesis teqb_spec : forall x y, teqb x y = true <-> x = y.
  Hypothesis tltb_asym : forall x y, tltb x y = true -> tltb y x = false.
  Hypothesis tltb_total : forall x y, tltb x y = false -> tltb y x = false -> x = y.
  Notation gstate := (gstate T A).
  Notation WF := (@WF T A teqb tltb).
  Notation all_edges := (fun g : gstate => flat_map snd (edges g)).

  (* name lookups answer from the node list *)
  Theorem C02_get_node : forall (g : gstate) x,
    WF g -> get_node teqb g x = Ok (find (fun n => teqb (nname n) x) (nodes_vec g)).
  Proof. exact (get_node_spec teqb tltb teqb_spec). Qed.

  Theorem C02_has_node : forall (g : gstate) x,
    WF g -> has_node teqb g x = Ok (existsb (fun n => teqb (nname n) x) (nodes_vec g)).
  Proof. exact (has_node_spec teqb tltb teqb_spec). Qed.

  (* name <-> position lookups are mutually inverse views of the node list: the position stored for
     a name is where that name sits in get_all_nodes, get_node_by_index reads that very list *)
  Theorem C02_name_position : forall (g : gstate),
    WF g ->
    (forall x i, get_node_index teqb g x = Ok i <-> nth_error (map nname (nodes_vec g)) i = Some x) /\
    (forall i, get_node_by_index g i = nth_error (nodes_vec g) i) /\
    NoDup (get_all_node_names g).
  Proof.
    intros g W. split; [|split].
    - intros x i. unfold get_node_index. rewrite <- (wf_nmap _ _ _ W x i).
      destruct (lookup teqb x (nodes_map g)); split; intros H; inversion H; reflexivity.
    - exact (wf_nrev _ _ _ W).
    - exact (wf_nodup _ _ _ W).
  Qed.

  (* get_successors_map / get_predecessors_map (the name-keyed adjacency maps handed out by
     reference) list, without repetition, exactly the names joined by a stored edge group *)
  Theorem C02_successors_map : forall (g : gstate) x,
    WF g ->
    NoDup (or_default teqb x (successors g)) /\
    forall y, In y (or_default teqb x (successors g)) <->
              (In x (names g) /\ In y (names g) /\ group teqb g (cn tltb (sp g) x y) <> None).
  Proof. intros g x W. exact (wf_su _ _ _ W x). Qed.

  Theorem C02_predecessors_map : forall (g : gstate) y,
    WF g ->
    NoDup (or_default teqb y (predecessors g)) /\
    forall x, In x (or_default teqb y (predecessors g)) <->
              (directed (sp g) = true /\ group teqb g (x, y) <> None).
  Proof. intros g y W. exact (wf_pr _ _ _ W y). Qed.

  (* pair lookups answer from get_all_edges alone (stored_between = the edges of get_all_edges
     whose endpoints are the pair, in storage orientation, in insertion order), with the kind
     guards WrongMethod / NodeNotFound / EdgeNotFound exactly as specified *)
  Theorem C02_get_edges : forall (g : gstate) u v,
    WF g ->
    get_edges teqb g u v =
    if negb (multi (sp g)) then Err WrongMethod
    else if negb (existsb (fun n => teqb (nname n) u) (nodes_vec g))
            || negb (existsb (fun n => teqb (nname n) v) (nodes_vec g)) then Err NodeNotFound
    else match stored_between teqb tltb g u v with [] => Err EdgeNotFound | l => Ok l end.
  Proof. exact (get_edges_spec teqb tltb teqb_spec tltb_asym tltb_total). Qed.

  Theorem C02_get_edge : forall (g : gstate) u v,
    WF g ->
    get_edge teqb g u v =
    if multi (sp g) then Err WrongMethod
    else if negb (existsb (fun n => teqb (nname n) u) (nodes_vec g))
            || negb (existsb (fun n => teqb (nname n) v) (nodes_vec g)) then Err NodeNotFound
    else match stored_between teqb tltb g u v with [] => Err EdgeNotFound | e :: _ => Ok e end.
  Proof. exact (get_edge_spec teqb tltb teqb_spec tltb_asym tltb_total). Qed.

  (* undirected graphs: symmetric in the two arguments, for ANY relation between the names'
     sort order and their insertion order *)
  Theorem C02_get_edge_symmetric : forall (g : gstate) u v,
    WF g -> directed (sp g) = false -> get_edge teqb g u v = get_edge teqb g v u.
  Proof. exact (get_edge_symmetric teqb tltb teqb_spec tltb_asym tltb_total). Qed.

  Theorem C02_get_edges_symmetric : forall (g : gstate) u v,
    WF g -> directed (sp g) = false -> get_edges teqb g u v = get_edges teqb g v u.
  Proof. exact (get_edges_symmetric teqb tltb teqb_spec tltb_asym tltb_total). Qed.

  (* per-node edge lists are exactly (as multisets) the edges of get_all_edges at that node *)
  Theorem C02_out_edges : forall (g : gstate) x,
    WF g -> directed (sp g) = true -> In x (names g) ->
    exists l, get_out_edges_for_node teqb g x = Ok l /\ Permutation l (out_edges_of teqb g x).
  Proof. exact (get_out_edges_for_node_spec teqb tltb teqb_spec). Qed.

  Theorem C02_in_edges : forall (g : gstate) y,
    WF g -> directed (sp g) = true -> In y (names g) ->
    exists l, get_in_edges_for_node teqb g y = Ok l /\ Permutation l (in_edges_of teqb g y).
  Proof. exact (get_in_edges_for_node_spec teqb tltb teqb_spec). Qed.

  Theorem C02_edges_for_node : forall (g : gstate) x,
    WF g -> In x (names g) ->
    exists l, get_edges_for_node teqb tltb g x = Ok l /\ Permutation l (touching teqb g x).
  Proof. exact (get_edges_for_node_spec teqb tltb teqb_spec tltb_total). Qed.

  (* successor / predecessor node lists: duplicate-free, exactly the nodes joined by a stored edge *)
  Theorem C02_successor_nodes : forall (g : gstate) x,
    WF g -> directed (sp g) = true -> In x (names g) ->
    exists l, get_successor_nodes teqb g x = Ok l /\ NoDup (map nname l) /\
              forall y, In y (map nname l) <-> group teqb g (x, y) <> None.
  Proof. exact (get_successor_nodes_spec teqb tltb). Qed.

  Theorem C02_predecessor_nodes : forall (g : gstate) x,
    WF g -> directed (sp g) = true -> In x (names g) ->
    exists l, get_predecessor_nodes teqb g x = Ok l /\ NoDup (map nname l) /\
              forall y, In y (map nname l) <-> group teqb g (y, x) <> None.
  Proof. exact (get_predecessor_nodes_spec teqb tltb). Qed.

  (* neighbour list (both graph kinds): duplicate-free; exactly the nodes joined to x by a stored
     edge in either direction *)
  Theorem C02_neighbor_nodes : forall (g : gstate) x,
    WF g -> In x (names g) ->
    exists l, get_neighbor_nodes teqb g x = Ok l /\ NoDup (map nname l) /\
              forall y, In y (map nname l) <->
                        (In y (names g) /\
                         (group teqb g (cn tltb (sp g) x y) <> None \/
                          (directed (sp g) = true /\ group teqb g (y, x) <> None))).
  Proof. exact (get_neighbor_nodes_spec teqb tltb). Qed.

  (* node-set variants: answered from the node list and get_all_edges alone *)
  Theorem C02_has_nodes : forall (g : gstate) xs,
    WF g -> has_nodes teqb g xs = Ok (forallb (in_names teqb g) xs).
  Proof. exact (has_nodes_spec teqb tltb teqb_spec). Qed.

  Theorem C02_edges_for_nodes : forall (g : gstate) xs,
    WF g ->
    get_edges_for_nodes teqb g xs =
    if forallb (in_names teqb g) xs
    then Ok (filter (fun e => mem_name teqb (eu e) xs || mem_name teqb (ev e) xs) (flat_map snd (edges g)))
    else Err NodeNotFound.
  Proof. exact (get_edges_for_nodes_spec teqb tltb teqb_spec). Qed.

  Theorem C02_in_edges_for_nodes : forall (g : gstate) xs,
    WF g ->
    get_in_edges_for_nodes teqb g xs =
    if negb (directed (sp g)) then Err WrongMethod
    else if forallb (in_names teqb g) xs
    then Ok (filter (fun e => mem_name teqb (ev e) xs) (flat_map snd (edges g)))
    else Err NodeNotFound.
  Proof. exact (get_in_edges_for_nodes_spec teqb tltb teqb_spec). Qed.

  Theorem C02_out_edges_for_nodes : forall (g : gstate) xs,
    WF g ->
    get_out_edges_for_nodes teqb g xs =
    if negb (directed (sp g)) then Err WrongMethod
    else if forallb (in_names teqb g) xs
    then Ok (filter (fun e => mem_name teqb (eu e) xs) (flat_map snd (edges g)))
    else Err NodeNotFound.
  Proof. exact (get_out_edges_for_nodes_spec teqb tltb teqb_spec). Qed.

  (* the adjacency query the searches use (successors on a directed graph, neighbours on an
     undirected one) succeeds on every node and lists exactly the nodes one step away along a
     stored edge of get_all_edges (g_follow: along u -> v, on an undirected graph also against it) *)
  Theorem C02_successors_or_neighbors : forall (g : gstate) u,
    WF g -> In u (names g) ->
    exists ns, get_successors_or_neighbors teqb g u = Ok ns /\
               forall v, In v (map nname ns) <-> g_follow g u v.
  Proof. exact (successors_or_neighbors_wf teqb tltb teqb_spec tltb_total). Qed.

  (* breadth_first_search from a node returns: x first, no node twice, exactly the nodes
     reachable from x along stored edges (reflexive-transitive closure of g_follow); from a
     name that is not a node the unwrap of the adjacency query fails *)
  Theorem C02_breadth_first_search : forall (g : gstate) x,
    WF g -> In x (names g) ->
    exists l, breadth_first_search teqb g x = Ok l /\
              (exists t, l = x :: t) /\ NoDup l /\ (forall y, In y l <-> reach (g_follow g) x y).
  Proof. exact (bfs_wf teqb tltb teqb_spec tltb_total). Qed.

  Theorem C02_breadth_first_search_absent : forall (g : gstate) x,
    WF g -> ~ In x (names g) ->
    breadth_first_search teqb g x = Panic "query.rs:get_successors_or_neighbors unwrap".
  Proof. exact (bfs_absent teqb tltb). Qed.

  (* ---- "all parallel edges are retrievable, IN INSERTION ORDER" (Proofs/InsertionOrder.v) ----
     C02_get_edges says get_edges = stored_between = the pair's edges in the order of get_all_edges.
     The theorems below tie that order to the order of the caller's add_edge calls.

     One add_edge call that returns Ok on a coherent multigraph, for EVERY pair u v: the list
     stored between u and v is the old one, with the new edge (oriented smaller name first when
     undirected: od_of) APPENDED iff its endpoints are that pair (hits); a dropped self-loop
     (dropped) changes nothing. *)
  Notation edge := (edge T A).
  Notation mutation := (mutation T A).

  Theorem C02_parallel_edges_insertion_order_step : forall (g : gstate) (e : edge) u v,
    WF g -> multi (sp g) = true -> snd (add_edge teqb tltb g e) = Ok tt -> dropped teqb (sp g) e = false ->
    stored_between teqb tltb (fst (add_edge teqb tltb g e)) u v =
    stored_between teqb tltb g u v ++ (if hits teqb tltb (sp g) e u v then [od_of tltb (sp g) e] else []).
  Proof. exact (add_edge_multi_step teqb tltb teqb_spec tltb_asym tltb_total). Qed.

  Theorem C02_hits_iff : forall s (e : edge) u v,
    hits teqb tltb s e u v = true <->
    ((u = eu e /\ v = ev e) \/ (directed s = false /\ u = ev e /\ v = eu e)).
  Proof. exact (hits_iff teqb tltb teqb_spec tltb_asym tltb_total). Qed.

  (* single-edge graph: first insertion creates the singleton, KeepLast replaces it by the new edge,
     KeepFirst keeps the old one; under Error a second insertion does not return Ok *)
  Theorem C02_single_edge_step : forall (g : gstate) (e : edge) u v,
    WF g -> multi (sp g) = false -> snd (add_edge teqb tltb g e) = Ok tt -> dropped teqb (sp g) e = false ->
    stored_between teqb tltb (fst (add_edge teqb tltb g e)) u v =
    if hits teqb tltb (sp g) e u v then
      match stored_between teqb tltb g u v with
      | [] => [od_of tltb (sp g) e]
      | old => match dd (sp g) with DKeepLast => [od_of tltb (sp g) e] | _ => old end
      end
    else stored_between teqb tltb g u v.
  Proof. exact (add_edge_single_step teqb tltb teqb_spec tltb_asym tltb_total). Qed.

  Theorem C02_single_edge_occupied_error : forall (g : gstate) (e : edge),
    WF g -> multi (sp g) = false -> dd (sp g) = DErr -> dropped teqb (sp g) e = false ->
    stored_between teqb tltb g (eu e) (ev e) <> [] -> snd (add_edge teqb tltb g e) <> Ok tt.
  Proof. exact (add_edge_single_occupied_error teqb tltb teqb_spec tltb_asym tltb_total). Qed.

  (* the calls that store nothing: a dropped self-loop, an error, add_node, add_nodes *)
  Theorem C02_other_calls_keep_order : forall (g : gstate),
    WF g ->
    (forall (e : edge), dropped teqb (sp g) e = true -> fst (add_edge teqb tltb g e) = g) /\
    (forall (e : edge) k u v, snd (add_edge teqb tltb g e) = Err k ->
        stored_between teqb tltb (fst (add_edge teqb tltb g e)) u v = stored_between teqb tltb g u v) /\
    (forall n g' u v, add_node teqb g n = Ok g' -> stored_between teqb tltb g' u v = stored_between teqb tltb g u v) /\
    (forall ns g' u v, add_nodes teqb g ns = Ok g' -> stored_between teqb tltb g' u v = stored_between teqb tltb g u v).
  Proof.
    intros g W. split; [exact (add_edge_dropped_step teqb tltb g)|].
    split; [intros e k u v; exact (add_edge_err_step teqb tltb teqb_spec tltb_asym tltb_total g e k u v W)|].
    split; [intros n g' u v; exact (add_node_step teqb tltb teqb_spec g g' n u v W)
           |intros ns g' u v; exact (add_nodes_step teqb tltb teqb_spec ns g g' u v W)].
  Qed.

  (* a batch = its add_edge calls one by one, stopping after the first that fails (batch_log lists
     them with their outcomes; replay folds the one-step law over such a list) *)
  Theorem C02_batch_insertion_order_step : forall es (g : gstate) u v,
    WF g ->
    stored_between teqb tltb (fst (add_edges teqb tltb g es)) u v =
    replay teqb tltb (sp g) u v (batch_log teqb tltb g es) (stored_between teqb tltb g u v).
  Proof. exact (add_edges_step teqb tltb teqb_spec tltb_asym tltb_total). Qed.

  (* WHOLE HISTORIES.  edge_log (new s) ms = every add_edge call the history performs (direct or
     through a batch), in call order, paired with the outcome it returned.  inserted_between, a
     function of that log and the specs alone: the calls that returned Ok, were not a dropped
     self-loop and hit the pair, in call order and storage orientation (calls_between); all of them
     on a multigraph, the first (KeepFirst/Error) or the last (KeepLast) on a single-edge graph. *)
  Theorem C02_parallel_edges_insertion_order_history : forall s (ms : list mutation) u v,
    stored_between teqb tltb (fst (run_outs teqb tltb (new s) ms)) u v =
    inserted_between teqb tltb s (edge_log teqb tltb (new s) ms) u v.
  Proof. exact (insertion_order_history teqb tltb teqb_spec tltb_asym tltb_total). Qed.

  Theorem C02_inserted_between_unfold : forall s (log : list (edge * outcome unit)) u v,
    inserted_between teqb tltb s log u v =
    let calls := map (od_of tltb s)
                   (filter (fun e => hits teqb tltb s e u v)
                      (map fst (filter (fun p => is_ok (snd p) && negb (dropped teqb s (fst p))) log))) in
    if multi s then calls
    else match dd s with
         | DKeepLast => match rev calls with [] => [] | x :: _ => [x] end
         | _ => firstn 1 calls
         end.
  Proof. reflexivity. Qed.

  (* get_edges after any history: exactly the caller's accepted parallel edges, in call order *)
  Theorem C02_get_edges_history : forall s (ms : list mutation) u v,
    let g := fst (run_outs teqb tltb (new s) ms) in
    get_edges teqb g u v =
    if negb (multi s) then Err WrongMethod
    else if negb (existsb (fun n => teqb (nname n) u) (nodes_vec g))
            || negb (existsb (fun n => teqb (nname n) v) (nodes_vec g)) then Err NodeNotFound
    else match calls_between teqb tltb s (edge_log teqb tltb (new s) ms) u v with
         | [] => Err EdgeNotFound | l => Ok l end.
  Proof. exact (get_edges_history teqb tltb teqb_spec tltb_asym tltb_total). Qed.

  (* get_edge after any history: the first accepted call of the pair, the last one under KeepLast *)
  Theorem C02_single_edge_kept_history : forall s (ms : list mutation) u v,
    let g := fst (run_outs teqb tltb (new s) ms) in
    get_edge teqb g u v =
    if multi s then Err WrongMethod
    else if negb (existsb (fun n => teqb (nname n) u) (nodes_vec g))
            || negb (existsb (fun n => teqb (nname n) v) (nodes_vec g)) then Err NodeNotFound
    else match calls_between teqb tltb s (edge_log teqb tltb (new s) ms) u v with
         | [] => Err EdgeNotFound
         | x :: t => Ok (match dd s with DKeepLast => last t x | _ => x end)
         end.
  Proof. exact (get_edge_history teqb tltb teqb_spec tltb_asym tltb_total). Qed.

  (* model-free reading: when every call of the history returned Ok, the log is the history itself —
     the stored list is computed from the edges the caller passed, in the order he passed them *)
  Theorem C02_insertion_order_all_ok : forall s (ms : list mutation) u v,
    Forall (fun r => r = Ok tt) (snd (run_outs teqb tltb (new s) ms)) ->
    stored_between teqb tltb (fst (run_outs teqb tltb (new s) ms)) u v =
    kept s (edges_between teqb tltb s (history_edges ms) u v).
  Proof. exact (insertion_order_all_ok teqb tltb teqb_spec tltb_asym tltb_total). Qed.

  Theorem C02_edges_between_unfold : forall s (es : list edge) u v,
    edges_between teqb tltb s es u v =
    map (od_of tltb s) (filter (fun e => hits teqb tltb s e u v) (filter (fun e => negb (dropped teqb s e)) es)).
  Proof. reflexivity. Qed.

  (* the log of a batch: all Ok and the whole list, or Ok up to the first failing edge whose
     outcome is the outcome of the batch *)
  Theorem C02_batch_log : forall es (g : gstate),
    (snd (add_edges teqb tltb g es) = Ok tt /\ map fst (batch_log teqb tltb g es) = es /\
     Forall (fun p => snd p = Ok tt) (batch_log teqb tltb g es)) \/
    (exists pre e rest r, es = pre ++ e :: rest /\ r <> Ok tt /\ snd (add_edges teqb tltb g es) = r /\
                          batch_log teqb tltb g es = map (fun x => (x, Ok tt)) pre ++ [(e, r)]).
  Proof. exact (batch_log_outcome teqb tltb). Qed.

  (* new_from_nodes_and_edges is such a history *)
  Theorem C02_new_from_insertion_order : forall ns es s (g : gstate) u v,
    new_from_nodes_and_edges teqb tltb ns es s = Ok g ->
    stored_between teqb tltb g u v = kept s (edges_between teqb tltb s es u v).
  Proof. exact (new_from_insertion_order teqb tltb teqb_spec tltb_asym tltb_total). Qed.

  Theorem C02_new_from_get_edges : forall ns es s (g : gstate) u v,
    new_from_nodes_and_edges teqb tltb ns es s = Ok g -> multi s = true ->
    get_edges teqb g u v =
    if negb (existsb (fun n => teqb (nname n) u) (nodes_vec g))
       || negb (existsb (fun n => teqb (nname n) v) (nodes_vec g)) then Err NodeNotFound
    else match edges_between teqb tltb s es u v with [] => Err EdgeNotFound | l => Ok l end.
  Proof. exact (new_from_get_edges teqb tltb teqb_spec tltb_asym tltb_total). Qed.
End C02.

(* non-vacuity, evaluated: an undirected multigraph, names whose sort order (2 < 5 < 9) differs from
   insertion order (5, 2, 9), MissingNode = Error for the third call (rejected: 7 is not a node),
   parallel edges given in both orientations with weights 5, 2, 7 — get_edges 2 5 and get_edges 5 2
   list the weights 5, 2, 7 in call order, all stored as (2,5); the rejected and the other-pair
   calls do not show; the same through new_from_nodes_and_edges and, on the KeepFirst / KeepLast
   single-edge graphs, get_edge answers weight 5 / weight 7. *)
From Coq Require Import ZArith.
Definition c02_ms (m : bool) (d : dedupe) := mkspecs false d MErr m true SErr.
Definition c02_hist : list (mutation Z Z) :=
  [MutNodes [mknode 5 None; mknode 2 None; mknode 9 None];
   MutEdge (mkedge 5 2 (Some 5) None);
   MutEdge (mkedge 7 2 (Some 1) None);
   MutEdges [mkedge 2 5 (Some 2) None; mkedge 9 5 (Some 3) None];
   MutEdge (mkedge 5 2 (Some 7) None)]%Z.
Example C02_insertion_order_nonvacuous :
  (let g := fst (run_outs Z.eqb Z.ltb (new (c02_ms true DErr)) c02_hist) in
  snd (run_outs Z.eqb Z.ltb (new (c02_ms true DErr)) c02_hist)
    = [Ok tt; Ok tt; Err NodeNotFound; Ok tt; Ok tt] /\
  get_edges Z.eqb g 2 5 = Ok [mkedge 2 5 (Some 5) None; mkedge 2 5 (Some 2) None; mkedge 2 5 (Some 7) None] /\
  get_edges Z.eqb g 5 2 = get_edges Z.eqb g 2 5 /\
  inserted_between Z.eqb Z.ltb (c02_ms true DErr) (edge_log Z.eqb Z.ltb (new (c02_ms true DErr)) c02_hist) 5 2
    = [mkedge 2 5 (Some 5) None; mkedge 2 5 (Some 2) None; mkedge 2 5 (Some 7) None] /\
  map (fun e => ew e) (flat_map snd (edges g)) = [Some 5; Some 2; Some 7; Some 3] /\
  (exists g', new_from_nodes_and_edges Z.eqb Z.ltb [mknode 5 None; mknode 2 None]
                [mkedge 5 2 (Some 5) None; mkedge 2 5 (Some 2) None; mkedge 5 2 (Some 7) None] (c02_ms true DErr)
              = Ok g' /\
              get_edges Z.eqb g' 2 5
              = Ok [mkedge 2 5 (Some 5) (@None Z); mkedge 2 5 (Some 2) None; mkedge 2 5 (Some 7) None]) /\
  get_edge Z.eqb (fst (run_outs Z.eqb Z.ltb (new (c02_ms false DKeepFirst)) c02_hist)) 5 2
    = Ok (mkedge 2 5 (Some 5) None) /\
  get_edge Z.eqb (fst (run_outs Z.eqb Z.ltb (new (c02_ms false DKeepLast)) c02_hist)) 5 2
    = Ok (mkedge 2 5 (Some 7) None) /\
  snd (run_outs Z.eqb Z.ltb (new (c02_ms false DErr)) c02_hist)
    = [Ok tt; Ok tt; Err NodeNotFound; Err DuplicateEdge; Err DuplicateEdge])%Z.
Proof. vm_compute. repeat split; try reflexivity. eexists. split; reflexivity. Qed.
