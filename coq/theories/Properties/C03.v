(* Property C03 — Algorithms traverse exactly the stored edges, with their current weights.
   Only pinned statements; proofs in Proofs/AdjOk.v (on top of the WF invariant). *)
From Coq Require Import List Bool ZArith Lia.
From GV Require Import Base.Outcome Base.AMap Model.GState Model.Creation Spec.AGraph Spec.History.
From GV Require Import Proofs.WFDefs Proofs.HistoryOk Proofs.AdjOk.
Import ListNotations.

Section C03.
  Context {T A : Type}.
  Variable teqb : T -> T -> bool.
  Variable tltb : T -> T -> bool.
  Hypothesis teqb_spec : forall x y, teqb x y = true <-> x = y.
  Hypothesis tltb_asym : forall x y, tltb x y = true -> tltb y x = false.
  Hypothesis tltb_total : forall x y, tltb x y = false -> tltb y x = false -> x = y.
  Notation gstate := (gstate T A).
  Notation edge := (edge T A).
  Notation WF := (@WF T A teqb tltb).

  (* WF holds after every history (C01_model_reachable_WF); under it the traversal list of the
     i-th node lists exactly the nodes joined to it by a stored edge (found in get_all_edges
     alone, in storage orientation), each once, with the weight [adjw] of the stored edges *)
  Theorem C03_successors_vec_matches_store : forall (g : gstate) i row x,
    WF g -> nth_error (successors_vec g) i = Some row -> name_at g i = Some x ->
    NoDup (map fst row) /\
    forall j w, In (j, w) row <->
                exists y, name_at g j = Some y /\ stored_between teqb tltb g x y <> [] /\
                          w = adjw (sp g) (stored_between teqb tltb g x y).
  Proof. exact (successors_vec_matches_store teqb tltb teqb_spec). Qed.

  Theorem C03_predecessors_vec_matches_store : forall (g : gstate) j row y,
    WF g -> nth_error (predecessors_vec g) j = Some row -> name_at g j = Some y ->
    NoDup (map fst row) /\
    forall i w, In (i, w) row <->
                directed (sp g) = true /\
                exists x, name_at g i = Some x /\ stored_between teqb tltb g x y <> [] /\
                          w = adjw (sp g) (stored_between teqb tltb g x y).
  Proof. exact (predecessors_vec_matches_store teqb tltb teqb_spec). Qed.

  (* uniformly weighted stores: that weight is the minimum over the stored edges of the pair *)
  Theorem C03_weight_is_minimum : forall (g : gstate) x y,
    WF g -> stored_between teqb tltb g x y <> [] ->
    (forall e, In e (stored_between teqb tltb g x y) -> exists z, ew e = Some z) ->
    exists z, adjw (sp g) (stored_between teqb tltb g x y) = Some z /\
              (exists e, In e (stored_between teqb tltb g x y) /\ ew e = Some z) /\
              forall e z', In e (stored_between teqb tltb g x y) -> ew e = Some z' -> (z <= z')%Z.
  Proof. exact (adjw_is_minimum teqb tltb teqb_spec). Qed.

  (* uniformly unweighted stores: the traversal weight is NaN as well *)
  Theorem C03_unweighted_stays_unweighted : forall (l : list edge),
    (forall e, In e l -> ew e = None) -> run_min l = None.
  Proof. exact run_min_nan. Qed.

  Theorem C03_holds_after_every_history : forall s (g : gstate),
    reachable teqb tltb s g -> WF g.
  Proof. exact (WF_reachable teqb tltb teqb_spec tltb_asym tltb_total). Qed.
End C03.
