(* Property C03 — Algorithms traverse exactly the stored edges, with their current weights.
   Only pinned statements; proofs in Proofs/AdjOk.v (on top of the WF invariant) and, for the
   "Consequently ..." clause (distances, closeness and betweenness are functions of the node
   list, the kind and the multiset of stored edges, whatever history produced the graph),
   in Proofs/BrandesWF.v and Proofs/EdgeStoreOnly.v, on top of the end-to-end theorems of
   C04 (Proofs/DijkstraWF.v), C06 (Proofs/ClosenessStateOk.v) and C05 (Proofs/BrandesWF.v);
   for the shortest PATHS of single_source in Proofs/PathsStoreOnly.v; for the other entry points of
   dijkstra.rs (all_pairs, multi_source, get_all_shortest_paths_involving; every thread count, every
   arm of `match parallel` under every complete schedule) in Proofs/EntryStoreOnly.v, by composition
   with C08 (all_pairs / multi_source are single_source per source). *)
From Coq Require Import List Bool ZArith QArith Lia Permutation.
From GV Require Import Base.Outcome Base.AMap Model.GState Model.Creation Model.Query Model.Cent Model.Brandes Model.Closeness Model.Dijkstra Model.Par Model.ParFns.
From GV Require Import Spec.AGraph Spec.History Spec.ShortestPathDef Spec.ShortestPathRel Spec.EdgeStoreGraph Spec.EdgeStoreAdj.
From GV Require Import Proofs.WFDefs Proofs.HistoryOk Proofs.AdjOk Proofs.ClosenessStateOk Proofs.BrandesWF Proofs.EdgeStoreOnly Proofs.BrandesWFExamples Proofs.PathsStoreOnly Proofs.PathsStoreOnlyExamples Proofs.InvolvingOk Proofs.ParFnsOk Proofs.EntryStoreOnly Proofs.EntryStoreOnlyExamples.
Import ListNotations.

Section C03.
  Context {T A : Type}.
  Variable teqb : T -> T -> bool.
  Variable tltb : T -> T -> bool.
  Hypothesis teqb_spec : forall x y, teqb x y = true <-> x = y.
  Hypothesis tltb_asym : forall x y, tltb x y = true -> tltb y x = false.
  Hypothesis tltb_total : forall x y, tltb x y = false -> tltb y x = false -> x = y.
  Notation gstate := (gstate T A).
  Notation edge := (edge T A).
  Notation WF := (@WF T A teqb tltb).

  (* WF holds after every history (C01_model_reachable_WF); under it the traversal list of the
     i-th node lists exactly the nodes joined to it by a stored edge (found in get_all_edges
     alone, in storage orientation), each once, with the weight [adjw] of the stored edges *)
  Theorem C03_successors_vec_matches_store : forall (g : gstate) i row x,
    WF g -> nth_error (successors_vec g) i = Some row -> name_at g i = Some x ->
    NoDup (map fst row) /\
    forall j w, In (j, w) row <->
                exists y, name_at g j = Some y /\ stored_between teqb tltb g x y <> [] /\
                          w = adjw (sp g) (stored_between teqb tltb g x y).
  Proof. exact (successors_vec_matches_store teqb tltb teqb_spec). Qed.

  Theorem C03_predecessors_vec_matches_store : forall (g : gstate) j row y,
    WF g -> nth_error (predecessors_vec g) j = Some row -> name_at g j = Some y ->
    NoDup (map fst row) /\
    forall i w, In (i, w) row <->
                directed (sp g) = true /\
                exists x, name_at g i = Some x /\ stored_between teqb tltb g x y <> [] /\
                          w = adjw (sp g) (stored_between teqb tltb g x y).
  Proof. exact (predecessors_vec_matches_store teqb tltb teqb_spec). Qed.

  (* uniformly weighted stores: that weight is the minimum over the stored edges of the pair *)
  Theorem C03_weight_is_minimum : forall (g : gstate) x y,
    WF g -> stored_between teqb tltb g x y <> [] ->
    (forall e, In e (stored_between teqb tltb g x y) -> exists z, ew e = Some z) ->
    exists z, adjw (sp g) (stored_between teqb tltb g x y) = Some z /\
              (exists e, In e (stored_between teqb tltb g x y) /\ ew e = Some z) /\
              forall e z', In e (stored_between teqb tltb g x y) -> ew e = Some z' -> (z <= z')%Z.
  Proof. exact (adjw_is_minimum teqb tltb teqb_spec). Qed.

  (* uniformly unweighted stores: the traversal weight is NaN as well *)
  Theorem C03_unweighted_stays_unweighted : forall (l : list edge),
    (forall e, In e l -> ew e = None) -> run_min l = None.
  Proof. exact run_min_nan. Qed.

  Theorem C03_holds_after_every_history : forall s (g : gstate),
    reachable teqb tltb s g -> WF g.
  Proof. exact (WF_reachable teqb tltb teqb_spec tltb_asym tltb_total). Qed.

  (* ================================================================ "Consequently ..."
     Weighted distances and centralities reported for a graph equal those computed from
     get_all_edges() alone, whatever sequence of insertions, ignored duplicates or replacements
     produced the graph: for two graphs reached by ANY two histories, under possibly different
     GraphSpecs (duplicate policy, multigraph flag, missing-node rule, self-loop rule) of the same
     kind (directed flag), with the same node list and get_all_edges equal up to order, the
     reports are equal.  Premises are those of the end-to-end theorems of C04 / C06 / C05 quoted
     here (in weighted mode no stored weight is NaN — "uniformly weighted"; for the centralities,
     positive); [small_adj] is the size bound of dijkstra.rs' i32 counter. *)

  (* the arcs the algorithms traverse (Spec/EdgeStoreGraph.v [edge_arc]: i -> j of cost c iff an
     edge is stored between the i-th and the j-th node, c = 1 / the minimum stored weight) are a
     function of the node list, the kind and the edge multiset *)
  Theorem C03_traversal_arcs_depend_on_edge_store_only : forall (g1 g2 : gstate) weighted,
    WF g1 -> WF g2 -> names g1 = names g2 -> directed (sp g1) = directed (sp g2) ->
    Permutation (get_all_edges g1) (get_all_edges g2) ->
    (weighted = true -> weights_real g1) ->
    forall i j c, edge_arc teqb g1 weighted i j c <-> edge_arc teqb g2 weighted i j c.
  Proof. exact (edge_arc_edge_multiset teqb tltb teqb_spec tltb_total). Qed.

  (* C04 (quotes C04_reachable_single_source_answer): `single_source` returns on both graphs;
     every name reported by both has the same distance; with no target the two maps have the same
     keys and distances, with a target the target's entry is the same (which OTHER nodes happen to
     be finalised before the target depends on the pop order among ties, i.e. on the history) *)
  Theorem C03_distances_depend_on_edge_store_only : forall (s1 s2 : specs) (g1 g2 : gstate) (weighted : bool)
      (source : T) (target : option T) (cutoff : option Q) (fo wp : bool) (si : nat),
    reachable teqb tltb s1 g1 -> reachable teqb tltb s2 g2 -> directed s1 = directed s2 ->
    names g1 = names g2 -> Permutation (get_all_edges g1) (get_all_edges g2) ->
    small_adj g1 -> small_adj g2 ->
    (weighted = true -> weights_nonneg g1 /\ weights_real g1) ->
    name_at g1 si = Some source -> (forall t, target = Some t -> In t (names g1)) ->
    cutoff_exceeded cutoff 0 = false ->
    exists m1 m2,
      single_source teqb g1 weighted source target cutoff fo wp = Ok m1 /\
      single_source teqb g2 weighted source target cutoff fo wp = Ok m2 /\
      (forall y i1 i2, lookup teqb y m1 = Some i1 -> lookup teqb y m2 = Some i2 -> sp_distance i1 = sp_distance i2) /\
      (forall y, target = None \/ target = Some y ->
                 option_map sp_distance (lookup teqb y m1) = option_map sp_distance (lookup teqb y m2)).
  Proof. exact (distances_edge_store_only teqb tltb teqb_spec tltb_asym tltb_total). Qed.

  (* the same for two coherent states with the same edge-store arcs (extensionally) *)
  Theorem C03_distances_depend_on_arcs_only : forall (g1 g2 : gstate) (weighted : bool)
      (source : T) (target : option T) (cutoff : option Q) (fo wp : bool) (si : nat),
    WF g1 -> WF g2 -> small_adj g1 -> small_adj g2 ->
    (weighted = true -> weights_nonneg g1) -> (weighted = true -> weights_nonneg g2) ->
    names g1 = names g2 ->
    (forall i j c, edge_arc teqb g1 weighted i j c <-> edge_arc teqb g2 weighted i j c) ->
    name_at g1 si = Some source -> (forall t, target = Some t -> In t (names g1)) ->
    cutoff_exceeded cutoff 0 = false ->
    exists m1 m2,
      single_source teqb g1 weighted source target cutoff fo wp = Ok m1 /\
      single_source teqb g2 weighted source target cutoff fo wp = Ok m2 /\
      (forall y i1 i2, lookup teqb y m1 = Some i1 -> lookup teqb y m2 = Some i2 -> sp_distance i1 = sp_distance i2) /\
      (forall y, target = None \/ target = Some y ->
                 option_map sp_distance (lookup teqb y m1) = option_map sp_distance (lookup teqb y m2)).
  Proof. exact (distances_arcs_only teqb tltb teqb_spec tltb_total). Qed.

  (* ---------------------------------------------------------------- the PATHS single_source reports
     (with_paths = true).  first_only = false and strictly positive arcs (the premise of C04's
     all-paths clause; it is necessary: C03_paths_zero_weight_depend_on_history below): for two
     coherent states with the same node list and the same edge-store arcs both calls return, the
     maps have the same keys and distances (no target) / the same target entry, and for every
     name reported by both the two path lists are duplicate free and contain the same paths —
     they are permutations of each other (the ORDER may depend on the history:
     C03_paths_edge_store_only_nonvacuous).  Proved from the exact characterisation of the
     reported list, C04_reachable_single_source_paths_exact: the name forms of the shortest
     paths of the edge-store graph, each once. *)
  Theorem C03_paths_depend_on_arcs_only : forall (g1 g2 : gstate) (weighted : bool)
      (source : T) (target : option T) (cutoff : option Q) (si : nat),
    WF g1 -> WF g2 -> small_adj g1 -> small_adj g2 ->
    (weighted = true -> weights_nonneg g1) -> (weighted = true -> weights_nonneg g2) ->
    a_positive (edge_arc teqb g1 weighted) ->
    names g1 = names g2 ->
    (forall i j c, edge_arc teqb g1 weighted i j c <-> edge_arc teqb g2 weighted i j c) ->
    name_at g1 si = Some source -> (forall t, target = Some t -> In t (names g1)) ->
    cutoff_exceeded cutoff 0 = false ->
    exists m1 m2,
      single_source teqb g1 weighted source target cutoff false true = Ok m1 /\
      single_source teqb g2 weighted source target cutoff false true = Ok m2 /\
      (forall y, target = None \/ target = Some y ->
                 option_map sp_distance (lookup teqb y m1) = option_map sp_distance (lookup teqb y m2)) /\
      (forall y i1 i2, lookup teqb y m1 = Some i1 -> lookup teqb y m2 = Some i2 ->
         sp_distance i1 = sp_distance i2 /\
         NoDup (sp_paths i1) /\ NoDup (sp_paths i2) /\
         (forall p, In p (sp_paths i1) <-> In p (sp_paths i2)) /\
         Permutation (sp_paths i1) (sp_paths i2)).
  Proof. exact (paths_arcs_only teqb tltb teqb_spec tltb_total). Qed.

  (* ... hence for two graphs reached by ANY two histories under possibly different GraphSpecs
     of the same kind, with the same node list and get_all_edges equal up to order (weighted
     mode: every stored weight a positive real) *)
  Theorem C03_paths_depend_on_edge_store_only : forall (s1 s2 : specs) (g1 g2 : gstate) (weighted : bool)
      (source : T) (target : option T) (cutoff : option Q) (si : nat),
    reachable teqb tltb s1 g1 -> reachable teqb tltb s2 g2 -> directed s1 = directed s2 ->
    names g1 = names g2 -> Permutation (get_all_edges g1) (get_all_edges g2) ->
    small_adj g1 -> small_adj g2 ->
    (weighted = true -> weights_real_positive g1) ->
    name_at g1 si = Some source -> (forall t, target = Some t -> In t (names g1)) ->
    cutoff_exceeded cutoff 0 = false ->
    exists m1 m2,
      single_source teqb g1 weighted source target cutoff false true = Ok m1 /\
      single_source teqb g2 weighted source target cutoff false true = Ok m2 /\
      (forall y, target = None \/ target = Some y ->
                 option_map sp_distance (lookup teqb y m1) = option_map sp_distance (lookup teqb y m2)) /\
      (forall y i1 i2, lookup teqb y m1 = Some i1 -> lookup teqb y m2 = Some i2 ->
         sp_distance i1 = sp_distance i2 /\
         NoDup (sp_paths i1) /\ NoDup (sp_paths i2) /\
         (forall p, In p (sp_paths i1) <-> In p (sp_paths i2)) /\
         Permutation (sp_paths i1) (sp_paths i2)).
  Proof. exact (paths_edge_store_only teqb tltb teqb_spec tltb_asym tltb_total). Qed.

  (* first_only = true (non-negative weights suffice): each graph reports exactly ONE path per
     reported node, and both are name forms of shortest paths of the common edge-store graph
     (stated over g1's names and arcs).  WHICH shortest path is kept depends on the order of the
     adjacency rows, hence on the history — no equality is claimed, and none holds
     (C03_paths_edge_store_only_nonvacuous). *)
  Theorem C03_first_path_depends_on_arcs_only : forall (g1 g2 : gstate) (weighted : bool)
      (source : T) (target : option T) (cutoff : option Q) (si : nat),
    WF g1 -> WF g2 -> small_adj g1 -> small_adj g2 ->
    (weighted = true -> weights_nonneg g1) -> (weighted = true -> weights_nonneg g2) ->
    names g1 = names g2 ->
    (forall i j c, edge_arc teqb g1 weighted i j c <-> edge_arc teqb g2 weighted i j c) ->
    name_at g1 si = Some source -> (forall t, target = Some t -> In t (names g1)) ->
    cutoff_exceeded cutoff 0 = false ->
    exists m1 m2,
      single_source teqb g1 weighted source target cutoff true true = Ok m1 /\
      single_source teqb g2 weighted source target cutoff true true = Ok m2 /\
      (forall y, target = None \/ target = Some y ->
                 option_map sp_distance (lookup teqb y m1) = option_map sp_distance (lookup teqb y m2)) /\
      (forall y i1 i2, lookup teqb y m1 = Some i1 -> lookup teqb y m2 = Some i2 ->
         sp_distance i1 = sp_distance i2 /\
         exists j p1 p2 q1 q2,
           name_at g1 j = Some y /\ sp_paths i1 = [p1] /\ sp_paths i2 = [p2] /\
           names_of g1 q1 p1 /\ a_SP (edge_arc teqb g1 weighted) (number_of_nodes g1) si j q1 /\
           names_of g1 q2 p2 /\ a_SP (edge_arc teqb g1 weighted) (number_of_nodes g1) si j q2).
  Proof. exact (first_path_arcs_only teqb tltb teqb_spec tltb_total). Qed.

  Theorem C03_first_path_depends_on_edge_store_only : forall (s1 s2 : specs) (g1 g2 : gstate) (weighted : bool)
      (source : T) (target : option T) (cutoff : option Q) (si : nat),
    reachable teqb tltb s1 g1 -> reachable teqb tltb s2 g2 -> directed s1 = directed s2 ->
    names g1 = names g2 -> Permutation (get_all_edges g1) (get_all_edges g2) ->
    small_adj g1 -> small_adj g2 ->
    (weighted = true -> weights_nonneg g1 /\ weights_real g1) ->
    name_at g1 si = Some source -> (forall t, target = Some t -> In t (names g1)) ->
    cutoff_exceeded cutoff 0 = false ->
    exists m1 m2,
      single_source teqb g1 weighted source target cutoff true true = Ok m1 /\
      single_source teqb g2 weighted source target cutoff true true = Ok m2 /\
      (forall y, target = None \/ target = Some y ->
                 option_map sp_distance (lookup teqb y m1) = option_map sp_distance (lookup teqb y m2)) /\
      (forall y i1 i2, lookup teqb y m1 = Some i1 -> lookup teqb y m2 = Some i2 ->
         sp_distance i1 = sp_distance i2 /\
         exists j p1 p2 q1 q2,
           name_at g1 j = Some y /\ sp_paths i1 = [p1] /\ sp_paths i2 = [p2] /\
           names_of g1 q1 p1 /\ a_SP (edge_arc teqb g1 weighted) (number_of_nodes g1) si j q1 /\
           names_of g1 q2 p2 /\ a_SP (edge_arc teqb g1 weighted) (number_of_nodes g1) si j q2).
  Proof. exact (first_path_edge_store_only teqb tltb teqb_spec tltb_asym tltb_total). Qed.

  (* ---------------------------------------------------------------- the other entry points of dijkstra.rs
     all_pairs / multi_source are single_source per source (C08_model_all_pairs_per_source,
     C08_model_multi_source_per_source; on every coherent graph C08_reachable_all_pairs,
     C08_reachable_multi_source), get_all_shortest_paths_involving is a filter of all_pairs
     (C08_model_involving_filter): composed with the single-source theorems above.  Premises exactly
     those of C03_paths_depend_on_edge_store_only (resp. C03_distances_..., C03_first_path_...), plus,
     for multi_source, "the listed sources are node names" (the premise of C08_reachable_multi_source;
     an absent source is Err NodeNotFound on both graphs).  all_pairs' extra premise in weighted mode
     (every stored edge carries a weight, C08_reachable_all_pairs) follows from "every stored weight is
     a real".  No size threshold: ANY thread count on either side, so both values of
     `number_of_nodes() > 20 && current_num_threads() > 1` are covered.

     Both calls return Ok; the two maps have the same source keys (the node names / the listed
     sources); under every source key the two inner maps are related exactly as the single-source
     theorems relate them: with no target the same keys and distances, with a target the same target
     entry; every name reported by both has the same distance and (first_only = false,
     with_paths = true, positive weights) duplicate-free path lists with the same paths. *)
  Theorem C03_all_pairs_depends_on_edge_store_only : forall (s1 s2 : specs) (g1 g2 : gstate) (weighted : bool)
      (target : option T) (cutoff : option Q) (threads1 threads2 : nat),
    reachable teqb tltb s1 g1 -> reachable teqb tltb s2 g2 -> directed s1 = directed s2 ->
    names g1 = names g2 -> Permutation (get_all_edges g1) (get_all_edges g2) ->
    small_adj g1 -> small_adj g2 ->
    (weighted = true -> weights_real_positive g1) ->
    (forall t, target = Some t -> In t (names g1)) ->
    cutoff_exceeded cutoff 0 = false ->
    exists mm1 mm2,
      all_pairs teqb threads1 g1 weighted target cutoff false true = Ok mm1 /\
      all_pairs teqb threads2 g2 weighted target cutoff false true = Ok mm2 /\
      (forall s, In s (names g1) <-> exists m, lookup teqb s mm1 = Some m) /\
      (forall s, In s (names g1) <-> exists m, lookup teqb s mm2 = Some m) /\
      (forall s m1 m2, lookup teqb s mm1 = Some m1 -> lookup teqb s mm2 = Some m2 ->
         (forall y, target = None \/ target = Some y ->
                    option_map sp_distance (lookup teqb y m1) = option_map sp_distance (lookup teqb y m2)) /\
         (forall y i1 i2, lookup teqb y m1 = Some i1 -> lookup teqb y m2 = Some i2 ->
            sp_distance i1 = sp_distance i2 /\
            NoDup (sp_paths i1) /\ NoDup (sp_paths i2) /\
            (forall p, In p (sp_paths i1) <-> In p (sp_paths i2)) /\
            Permutation (sp_paths i1) (sp_paths i2))).
  Proof. exact (all_pairs_paths_edge_store_only teqb tltb teqb_spec tltb_asym tltb_total). Qed.

  Theorem C03_multi_source_depends_on_edge_store_only : forall (s1 s2 : specs) (g1 g2 : gstate) (weighted : bool)
      (sources : list T) (target : option T) (cutoff : option Q) (threads1 threads2 : nat),
    reachable teqb tltb s1 g1 -> reachable teqb tltb s2 g2 -> directed s1 = directed s2 ->
    names g1 = names g2 -> Permutation (get_all_edges g1) (get_all_edges g2) ->
    small_adj g1 -> small_adj g2 ->
    (weighted = true -> weights_real_positive g1) ->
    (forall s, In s sources -> In s (names g1)) ->
    (forall t, target = Some t -> In t (names g1)) ->
    cutoff_exceeded cutoff 0 = false ->
    exists mm1 mm2,
      multi_source teqb threads1 g1 weighted sources target cutoff false true = Ok mm1 /\
      multi_source teqb threads2 g2 weighted sources target cutoff false true = Ok mm2 /\
      (forall s, In s sources <-> exists m, lookup teqb s mm1 = Some m) /\
      (forall s, In s sources <-> exists m, lookup teqb s mm2 = Some m) /\
      (forall s m1 m2, lookup teqb s mm1 = Some m1 -> lookup teqb s mm2 = Some m2 ->
         (forall y, target = None \/ target = Some y ->
                    option_map sp_distance (lookup teqb y m1) = option_map sp_distance (lookup teqb y m2)) /\
         (forall y i1 i2, lookup teqb y m1 = Some i1 -> lookup teqb y m2 = Some i2 ->
            sp_distance i1 = sp_distance i2 /\
            NoDup (sp_paths i1) /\ NoDup (sp_paths i2) /\
            (forall p, In p (sp_paths i1) <-> In p (sp_paths i2)) /\
            Permutation (sp_paths i1) (sp_paths i2))).
  Proof. exact (multi_source_paths_edge_store_only teqb tltb teqb_spec tltb_asym tltb_total). Qed.

  (* distances alone: any first_only / with_paths, non-negative real weights (the premises of
     C03_distances_depend_on_edge_store_only) *)
  Theorem C03_all_pairs_distances_depend_on_edge_store_only : forall (s1 s2 : specs) (g1 g2 : gstate) (weighted : bool)
      (target : option T) (cutoff : option Q) (fo wp : bool) (threads1 threads2 : nat),
    reachable teqb tltb s1 g1 -> reachable teqb tltb s2 g2 -> directed s1 = directed s2 ->
    names g1 = names g2 -> Permutation (get_all_edges g1) (get_all_edges g2) ->
    small_adj g1 -> small_adj g2 ->
    (weighted = true -> weights_nonneg g1 /\ weights_real g1) ->
    (forall t, target = Some t -> In t (names g1)) ->
    cutoff_exceeded cutoff 0 = false ->
    exists mm1 mm2,
      all_pairs teqb threads1 g1 weighted target cutoff fo wp = Ok mm1 /\
      all_pairs teqb threads2 g2 weighted target cutoff fo wp = Ok mm2 /\
      (forall s, In s (names g1) <-> exists m, lookup teqb s mm1 = Some m) /\
      (forall s, In s (names g1) <-> exists m, lookup teqb s mm2 = Some m) /\
      (forall s m1 m2, lookup teqb s mm1 = Some m1 -> lookup teqb s mm2 = Some m2 ->
         (forall y i1 i2, lookup teqb y m1 = Some i1 -> lookup teqb y m2 = Some i2 -> sp_distance i1 = sp_distance i2) /\
         (forall y, target = None \/ target = Some y ->
                    option_map sp_distance (lookup teqb y m1) = option_map sp_distance (lookup teqb y m2))).
  Proof. exact (all_pairs_distances_edge_store_only teqb tltb teqb_spec tltb_asym tltb_total). Qed.

  Theorem C03_multi_source_distances_depend_on_edge_store_only : forall (s1 s2 : specs) (g1 g2 : gstate) (weighted : bool)
      (sources : list T) (target : option T) (cutoff : option Q) (fo wp : bool) (threads1 threads2 : nat),
    reachable teqb tltb s1 g1 -> reachable teqb tltb s2 g2 -> directed s1 = directed s2 ->
    names g1 = names g2 -> Permutation (get_all_edges g1) (get_all_edges g2) ->
    small_adj g1 -> small_adj g2 ->
    (weighted = true -> weights_nonneg g1 /\ weights_real g1) ->
    (forall s, In s sources -> In s (names g1)) ->
    (forall t, target = Some t -> In t (names g1)) ->
    cutoff_exceeded cutoff 0 = false ->
    exists mm1 mm2,
      multi_source teqb threads1 g1 weighted sources target cutoff fo wp = Ok mm1 /\
      multi_source teqb threads2 g2 weighted sources target cutoff fo wp = Ok mm2 /\
      (forall s, In s sources <-> exists m, lookup teqb s mm1 = Some m) /\
      (forall s, In s sources <-> exists m, lookup teqb s mm2 = Some m) /\
      (forall s m1 m2, lookup teqb s mm1 = Some m1 -> lookup teqb s mm2 = Some m2 ->
         (forall y i1 i2, lookup teqb y m1 = Some i1 -> lookup teqb y m2 = Some i2 -> sp_distance i1 = sp_distance i2) /\
         (forall y, target = None \/ target = Some y ->
                    option_map sp_distance (lookup teqb y m1) = option_map sp_distance (lookup teqb y m2))).
  Proof. exact (multi_source_distances_edge_store_only teqb tltb teqb_spec tltb_asym tltb_total). Qed.

  (* first_only = true: one path per reported node on each graph, both name forms of shortest paths of the
     common edge-store graph from the source's index; which one is kept depends on the history *)
  Theorem C03_all_pairs_first_path_depends_on_edge_store_only : forall (s1 s2 : specs) (g1 g2 : gstate) (weighted : bool)
      (target : option T) (cutoff : option Q) (threads1 threads2 : nat),
    reachable teqb tltb s1 g1 -> reachable teqb tltb s2 g2 -> directed s1 = directed s2 ->
    names g1 = names g2 -> Permutation (get_all_edges g1) (get_all_edges g2) ->
    small_adj g1 -> small_adj g2 ->
    (weighted = true -> weights_nonneg g1 /\ weights_real g1) ->
    (forall t, target = Some t -> In t (names g1)) ->
    cutoff_exceeded cutoff 0 = false ->
    exists mm1 mm2,
      all_pairs teqb threads1 g1 weighted target cutoff true true = Ok mm1 /\
      all_pairs teqb threads2 g2 weighted target cutoff true true = Ok mm2 /\
      (forall s, In s (names g1) <-> exists m, lookup teqb s mm1 = Some m) /\
      (forall s, In s (names g1) <-> exists m, lookup teqb s mm2 = Some m) /\
      (forall s m1 m2, lookup teqb s mm1 = Some m1 -> lookup teqb s mm2 = Some m2 ->
         exists si, name_at g1 si = Some s /\
         (forall y, target = None \/ target = Some y ->
                    option_map sp_distance (lookup teqb y m1) = option_map sp_distance (lookup teqb y m2)) /\
         (forall y i1 i2, lookup teqb y m1 = Some i1 -> lookup teqb y m2 = Some i2 ->
            sp_distance i1 = sp_distance i2 /\
            exists j p1 p2 q1 q2,
              name_at g1 j = Some y /\ sp_paths i1 = [p1] /\ sp_paths i2 = [p2] /\
              names_of g1 q1 p1 /\ a_SP (edge_arc teqb g1 weighted) (number_of_nodes g1) si j q1 /\
              names_of g1 q2 p2 /\ a_SP (edge_arc teqb g1 weighted) (number_of_nodes g1) si j q2)).
  Proof. exact (all_pairs_first_path_edge_store_only teqb tltb teqb_spec tltb_asym tltb_total). Qed.

  Theorem C03_multi_source_first_path_depends_on_edge_store_only : forall (s1 s2 : specs) (g1 g2 : gstate) (weighted : bool)
      (sources : list T) (target : option T) (cutoff : option Q) (threads1 threads2 : nat),
    reachable teqb tltb s1 g1 -> reachable teqb tltb s2 g2 -> directed s1 = directed s2 ->
    names g1 = names g2 -> Permutation (get_all_edges g1) (get_all_edges g2) ->
    small_adj g1 -> small_adj g2 ->
    (weighted = true -> weights_nonneg g1 /\ weights_real g1) ->
    (forall s, In s sources -> In s (names g1)) ->
    (forall t, target = Some t -> In t (names g1)) ->
    cutoff_exceeded cutoff 0 = false ->
    exists mm1 mm2,
      multi_source teqb threads1 g1 weighted sources target cutoff true true = Ok mm1 /\
      multi_source teqb threads2 g2 weighted sources target cutoff true true = Ok mm2 /\
      (forall s, In s sources <-> exists m, lookup teqb s mm1 = Some m) /\
      (forall s, In s sources <-> exists m, lookup teqb s mm2 = Some m) /\
      (forall s m1 m2, lookup teqb s mm1 = Some m1 -> lookup teqb s mm2 = Some m2 ->
         exists si, name_at g1 si = Some s /\
         (forall y, target = None \/ target = Some y ->
                    option_map sp_distance (lookup teqb y m1) = option_map sp_distance (lookup teqb y m2)) /\
         (forall y i1 i2, lookup teqb y m1 = Some i1 -> lookup teqb y m2 = Some i2 ->
            sp_distance i1 = sp_distance i2 /\
            exists j p1 p2 q1 q2,
              name_at g1 j = Some y /\ sp_paths i1 = [p1] /\ sp_paths i2 = [p2] /\
              names_of g1 q1 p1 /\ a_SP (edge_arc teqb g1 weighted) (number_of_nodes g1) si j q1 /\
              names_of g1 q2 p2 /\ a_SP (edge_arc teqb g1 weighted) (number_of_nodes g1) si j q2)).
  Proof. exact (multi_source_first_path_edge_store_only teqb tltb teqb_spec tltb_asym tltb_total). Qed.

  (* ... and for EVERY arm of `match parallel` (Model/ParFns.v: Serial; Rayon pi — the rayon region under the
     schedule pi with rayon::join's panic rule; RayonAbort pi — under the pessimistic rule), possibly
     different arms and schedules on the two sides, provided the schedule is complete ([arm_schedule]:
     a permutation of the work-item indices).  The `_sched` functions of C07 (arm chosen from node count
     and thread count like the Rust code) are these functions at [arm_of]. *)
  Theorem C03_arm_schedule_unfold : forall (n : nat) (a : arm),
    arm_schedule n a <-> match a with Serial => True | Rayon pi | RayonAbort pi => Permutation pi (seq 0 n) end.
  Proof. intros n a. destruct a; reflexivity. Qed.

  Theorem C03_sched_functions_are_arms : forall (g : gstate) (threads : nat) (pi : list nat),
    (forall n, schedule n pi -> arm_schedule n (arm_of g threads pi)) /\
    (forall weighted target cutoff fo wp,
       all_pairs_sched teqb threads pi g weighted target cutoff fo wp =
       all_pairs_arm teqb (arm_of g threads pi) g weighted target cutoff fo wp) /\
    (forall weighted sources target cutoff fo wp,
       multi_source_sched teqb threads pi g weighted sources target cutoff fo wp =
       multi_source_arm teqb (arm_of g threads pi) g weighted sources target cutoff fo wp) /\
    (forall x weighted,
       get_all_shortest_paths_involving_sched teqb threads pi g x weighted =
       get_all_shortest_paths_involving_arm teqb (arm_of g threads pi) g x weighted).
  Proof. exact (sched_functions_are_arms teqb). Qed.

  Theorem C03_all_pairs_arm_depends_on_edge_store_only : forall (s1 s2 : specs) (g1 g2 : gstate) (weighted : bool)
      (target : option T) (cutoff : option Q) (a1 a2 : arm),
    reachable teqb tltb s1 g1 -> reachable teqb tltb s2 g2 -> directed s1 = directed s2 ->
    names g1 = names g2 -> Permutation (get_all_edges g1) (get_all_edges g2) ->
    small_adj g1 -> small_adj g2 ->
    (weighted = true -> weights_real_positive g1) ->
    (forall t, target = Some t -> In t (names g1)) ->
    cutoff_exceeded cutoff 0 = false ->
    arm_schedule (number_of_nodes g1) a1 -> arm_schedule (number_of_nodes g2) a2 ->
    exists mm1 mm2,
      all_pairs_arm teqb a1 g1 weighted target cutoff false true = Ok mm1 /\
      all_pairs_arm teqb a2 g2 weighted target cutoff false true = Ok mm2 /\
      (forall s, In s (names g1) <-> exists m, lookup teqb s mm1 = Some m) /\
      (forall s, In s (names g1) <-> exists m, lookup teqb s mm2 = Some m) /\
      (forall s m1 m2, lookup teqb s mm1 = Some m1 -> lookup teqb s mm2 = Some m2 ->
         (forall y, target = None \/ target = Some y ->
                    option_map sp_distance (lookup teqb y m1) = option_map sp_distance (lookup teqb y m2)) /\
         (forall y i1 i2, lookup teqb y m1 = Some i1 -> lookup teqb y m2 = Some i2 ->
            sp_distance i1 = sp_distance i2 /\
            NoDup (sp_paths i1) /\ NoDup (sp_paths i2) /\
            (forall p, In p (sp_paths i1) <-> In p (sp_paths i2)) /\
            Permutation (sp_paths i1) (sp_paths i2))).
  Proof. exact (all_pairs_arm_paths_edge_store_only teqb tltb teqb_spec tltb_asym tltb_total). Qed.

  Theorem C03_multi_source_arm_depends_on_edge_store_only : forall (s1 s2 : specs) (g1 g2 : gstate) (weighted : bool)
      (sources : list T) (target : option T) (cutoff : option Q) (a1 a2 : arm),
    reachable teqb tltb s1 g1 -> reachable teqb tltb s2 g2 -> directed s1 = directed s2 ->
    names g1 = names g2 -> Permutation (get_all_edges g1) (get_all_edges g2) ->
    small_adj g1 -> small_adj g2 ->
    (weighted = true -> weights_real_positive g1) ->
    (forall s, In s sources -> In s (names g1)) ->
    (forall t, target = Some t -> In t (names g1)) ->
    cutoff_exceeded cutoff 0 = false ->
    arm_schedule (length sources) a1 -> arm_schedule (length sources) a2 ->
    exists mm1 mm2,
      multi_source_arm teqb a1 g1 weighted sources target cutoff false true = Ok mm1 /\
      multi_source_arm teqb a2 g2 weighted sources target cutoff false true = Ok mm2 /\
      (forall s, In s sources <-> exists m, lookup teqb s mm1 = Some m) /\
      (forall s, In s sources <-> exists m, lookup teqb s mm2 = Some m) /\
      (forall s m1 m2, lookup teqb s mm1 = Some m1 -> lookup teqb s mm2 = Some m2 ->
         (forall y, target = None \/ target = Some y ->
                    option_map sp_distance (lookup teqb y m1) = option_map sp_distance (lookup teqb y m2)) /\
         (forall y i1 i2, lookup teqb y m1 = Some i1 -> lookup teqb y m2 = Some i2 ->
            sp_distance i1 = sp_distance i2 /\
            NoDup (sp_paths i1) /\ NoDup (sp_paths i2) /\
            (forall p, In p (sp_paths i1) <-> In p (sp_paths i2)) /\
            Permutation (sp_paths i1) (sp_paths i2))).
  Proof. exact (multi_source_arm_paths_edge_store_only teqb tltb teqb_spec tltb_asym tltb_total). Qed.

  (* get_all_shortest_paths_involving(x) returns the all-pairs entries (distance, path list) having a path
     with x strictly inside (C08_model_involving_filter), WITHOUT their (source, target) keys and in the
     iteration order of the two hash maps.  Positive weights: both calls return Ok; the two lists are the
     same collection up to order and up to the order of each path list — some permutation of l2 is, entry
     by entry, l1 with equal distance and a permuted (duplicate-free) path list; hence equal lengths and
     mutual inclusion; and the all-pairs entry of a pair (s, t) is kept on one graph iff it is on the other. *)
  Theorem C03_involving_depends_on_edge_store_only : forall (s1 s2 : specs) (g1 g2 : gstate) (weighted : bool)
      (x : T) (threads1 threads2 : nat),
    reachable teqb tltb s1 g1 -> reachable teqb tltb s2 g2 -> directed s1 = directed s2 ->
    names g1 = names g2 -> Permutation (get_all_edges g1) (get_all_edges g2) ->
    small_adj g1 -> small_adj g2 ->
    (weighted = true -> weights_real_positive g1) ->
    exists pairs1 pairs2 l1 l2,
      all_pairs teqb threads1 g1 weighted None None false true = Ok pairs1 /\
      all_pairs teqb threads2 g2 weighted None None false true = Ok pairs2 /\
      get_all_shortest_paths_involving teqb threads1 g1 x weighted = Ok l1 /\
      get_all_shortest_paths_involving teqb threads2 g2 x weighted = Ok l2 /\
      (exists l2', Permutation l2 l2' /\
         Forall2 (fun a b => sp_distance a = sp_distance b /\ NoDup (sp_paths a) /\ NoDup (sp_paths b) /\
                             Permutation (sp_paths a) (sp_paths b)) l1 l2') /\
      length l1 = length l2 /\
      (forall a, In a l1 -> exists b, In b l2 /\
         sp_distance a = sp_distance b /\ NoDup (sp_paths a) /\ NoDup (sp_paths b) /\ Permutation (sp_paths a) (sp_paths b)) /\
      (forall b, In b l2 -> exists a, In a l1 /\
         sp_distance a = sp_distance b /\ NoDup (sp_paths a) /\ NoDup (sp_paths b) /\ Permutation (sp_paths a) (sp_paths b)) /\
      (forall s t m1 m2 i1 i2,
         lookup teqb s pairs1 = Some m1 -> lookup teqb t m1 = Some i1 ->
         lookup teqb s pairs2 = Some m2 -> lookup teqb t m2 = Some i2 ->
         (sp_distance i1 = sp_distance i2 /\ NoDup (sp_paths i1) /\ NoDup (sp_paths i2) /\
          Permutation (sp_paths i1) (sp_paths i2)) /\
         (In i1 l1 <-> In i2 l2)).
  Proof. exact (involving_edge_store_only teqb tltb teqb_spec tltb_asym tltb_total). Qed.

  Theorem C03_involving_arm_depends_on_edge_store_only : forall (s1 s2 : specs) (g1 g2 : gstate) (weighted : bool)
      (x : T) (a1 a2 : arm),
    reachable teqb tltb s1 g1 -> reachable teqb tltb s2 g2 -> directed s1 = directed s2 ->
    names g1 = names g2 -> Permutation (get_all_edges g1) (get_all_edges g2) ->
    small_adj g1 -> small_adj g2 ->
    (weighted = true -> weights_real_positive g1) ->
    arm_schedule (number_of_nodes g1) a1 -> arm_schedule (number_of_nodes g2) a2 ->
    exists l1 l2,
      get_all_shortest_paths_involving_arm teqb a1 g1 x weighted = Ok l1 /\
      get_all_shortest_paths_involving_arm teqb a2 g2 x weighted = Ok l2 /\
      (exists l2', Permutation l2 l2' /\
         Forall2 (fun a b => sp_distance a = sp_distance b /\ NoDup (sp_paths a) /\ NoDup (sp_paths b) /\
                             Permutation (sp_paths a) (sp_paths b)) l1 l2') /\
      length l1 = length l2 /\
      (forall a, In a l1 -> exists b, In b l2 /\
         sp_distance a = sp_distance b /\ NoDup (sp_paths a) /\ NoDup (sp_paths b) /\ Permutation (sp_paths a) (sp_paths b)) /\
      (forall b, In b l2 -> exists a, In a l1 /\
         sp_distance a = sp_distance b /\ NoDup (sp_paths a) /\ NoDup (sp_paths b) /\ Permutation (sp_paths a) (sp_paths b)).
  Proof. exact (involving_arm_edge_store_only teqb tltb teqb_spec tltb_asym tltb_total). Qed.

  (* C06 (quotes C06_closeness_reachable): same keys in the same order, equal values *)
  Theorem C03_closeness_depends_on_edge_store_only : forall (s1 s2 : specs) (g1 g2 : gstate) lw1 lw2 weighted wf,
    reachable teqb tltb s1 g1 -> reachable teqb tltb s2 g2 -> directed s1 = directed s2 ->
    names g1 = names g2 -> Permutation (get_all_edges g1) (get_all_edges g2) ->
    (weighted = true -> positive_weights g1) ->
    exists m1 m2,
      closeness_centrality teqb tltb lw1 g1 weighted wf = Ok m1 /\
      closeness_centrality teqb tltb lw2 g2 weighted wf = Ok m2 /\
      map fst m1 = map fst m2 /\ Forall2 Qeq (map snd m1) (map snd m2).
  Proof. exact (closeness_edge_store_only teqb tltb teqb_spec tltb_asym tltb_total). Qed.

  (* C05 (quotes C05_betweenness_reachable): same keys in the same order, equal values, whatever
     the heap tie choices *)
  Theorem C03_betweenness_depends_on_edge_store_only : forall (s1 s2 : specs) (g1 g2 : gstate) lw1 lw2 weighted normalized,
    reachable teqb tltb s1 g1 -> reachable teqb tltb s2 g2 -> directed s1 = directed s2 ->
    names g1 = names g2 -> Permutation (get_all_edges g1) (get_all_edges g2) ->
    (weighted = true -> weights_real_positive g1) ->
    exists m1 m2,
      betweenness_centrality lw1 g1 weighted normalized = Ok m1 /\
      betweenness_centrality lw2 g2 weighted normalized = Ok m2 /\
      map fst m1 = map fst m2 /\ Forall2 Qeq (map snd m1) (map snd m2).
  Proof. exact (betweenness_edge_store_only teqb tltb teqb_spec tltb_asym tltb_total). Qed.
End C03.

(* non-vacuity of the premises: [bw_g] (directed, KeepLast, no multi-edges, nodes created on
   demand; its history REPLACES the weight 5 of 1->2 by 1) and [bw_g'] (directed, duplicates are
   errors, multigraph, nodes must exist; another insertion order) are reachable under different
   GraphSpecs of the same kind, have the same node list and the same edge multiset in a different
   order (their successors_vec differ), and betweenness, closeness and distances coincide *)
Theorem C03_edge_store_only_nonvacuous :
  reachable Z.eqb Z.ltb bw_specs bw_g /\ reachable Z.eqb Z.ltb bw_specs' bw_g' /\
  bw_specs <> bw_specs' /\ directed bw_specs = directed bw_specs' /\
  names bw_g = names bw_g' /\ weights_real_positive bw_g /\
  Permutation (get_all_edges bw_g) (get_all_edges bw_g') /\
  get_all_edges bw_g <> get_all_edges bw_g' /\ successors_vec bw_g <> successors_vec bw_g' /\
  small_adj bw_g /\ small_adj bw_g' /\ weights_nonneg bw_g /\ weights_real bw_g /\
  betweenness_centrality false bw_g true false = Ok [(1%Z, 0%Q); (2%Z, 1%Q); (3%Z, 0%Q)] /\
  betweenness_centrality true bw_g' true false = Ok [(1%Z, 0%Q); (2%Z, 1%Q); (3%Z, 0%Q)] /\
  closeness_centrality Z.eqb Z.ltb false bw_g true false = Ok [(1%Z, 0%Q); (2%Z, 1%Q); (3%Z, (2 # 3)%Q)] /\
  closeness_centrality Z.eqb Z.ltb true bw_g' true false = Ok [(1%Z, 0%Q); (2%Z, 1%Q); (3%Z, (2 # 3)%Q)] /\
  (exists m, single_source Z.eqb bw_g true 1%Z None None false true = Ok m /\
             option_map sp_distance (lookup Z.eqb 3%Z m) = Some 2%Z) /\
  (exists m, single_source Z.eqb bw_g' true 1%Z None None false true = Ok m /\
             option_map sp_distance (lookup Z.eqb 3%Z m) = Some 2%Z).
Proof. exact edge_store_only_nonvacuous. Qed.

(* non-vacuity of the path theorems: [pa_g] (directed, KeepLast, nodes created on demand; the
   history REPLACES the weight 5 of 1->2 by 1) and [pa_g'] (directed, KeepFirst, nodes must exist,
   another insertion order; two later duplicates are IGNORED) have the same five nodes and the
   same edge multiset (the diamond 1->2->4, 1->3->4 and 4->5) in a different order, different
   successors_vec.  Nodes 4 and 5 have two shortest paths each: both graphs report both, each
   once, in a DIFFERENT order; with first_only they report DIFFERENT single paths *)
Theorem C03_paths_edge_store_only_nonvacuous :
  reachable Z.eqb Z.ltb pa_specs pa_g /\ reachable Z.eqb Z.ltb pa_specs' pa_g' /\
  pa_specs <> pa_specs' /\ directed pa_specs = directed pa_specs' /\
  names pa_g = [1; 2; 3; 4; 5]%Z /\ names pa_g = names pa_g' /\ weights_real_positive pa_g /\
  Permutation (get_all_edges pa_g) (get_all_edges pa_g') /\
  get_all_edges pa_g <> get_all_edges pa_g' /\ successors_vec pa_g <> successors_vec pa_g' /\
  small_adj pa_g /\ small_adj pa_g' /\ name_at pa_g 0 = Some 1%Z /\
  paths_to 4 (single_source Z.eqb pa_g true 1%Z None None false true) = Some [[1; 3; 4]; [1; 2; 4]]%Z /\
  paths_to 4 (single_source Z.eqb pa_g' true 1%Z None None false true) = Some [[1; 2; 4]; [1; 3; 4]]%Z /\
  paths_to 5 (single_source Z.eqb pa_g true 1%Z None None false true) = Some [[1; 3; 4; 5]; [1; 2; 4; 5]]%Z /\
  paths_to 5 (single_source Z.eqb pa_g' true 1%Z None None false true) = Some [[1; 2; 4; 5]; [1; 3; 4; 5]]%Z /\
  paths_to 4 (single_source Z.eqb pa_g true 1%Z None None true true) = Some [[1; 3; 4]]%Z /\
  paths_to 4 (single_source Z.eqb pa_g' true 1%Z None None true true) = Some [[1; 2; 4]]%Z.
Proof. exact paths_edge_store_only_nonvacuous. Qed.

(* non-vacuity of the all_pairs / multi_source / involving theorems on the same two graphs (premises:
   C03_paths_edge_store_only_nonvacuous), 1 thread on one side and 8 on the other: the pair (1, 5) has two
   shortest paths, reported by both graphs in a DIFFERENT order under all_pairs and under multi_source
   (target 5, cutoff = the realised distance 4, a source listed twice); get_all_shortest_paths_involving(4)
   returns three entries on both graphs, the two lists are NOT equal (path order of the first entry) but
   equal up to it; the rayon arm under a reversed schedule, the pessimistic arm under a shuffled one
   return what the serial model returns *)
Theorem C03_entry_points_edge_store_only_nonvacuous :
  source_keys (all_pairs Z.eqb 1 pa_g true None None false true) = Some [1; 2; 3; 4; 5]%Z /\
  source_keys (all_pairs Z.eqb 8 pa_g' true None None false true) = Some [1; 2; 3; 4; 5]%Z /\
  entry_of 1 5 (all_pairs Z.eqb 1 pa_g true None None false true) = Some (4, [[1; 3; 4; 5]; [1; 2; 4; 5]])%Z /\
  entry_of 1 5 (all_pairs Z.eqb 8 pa_g' true None None false true) = Some (4, [[1; 2; 4; 5]; [1; 3; 4; 5]])%Z /\
  entry_of 2 5 (all_pairs Z.eqb 1 pa_g true None None false true) = Some (3, [[2; 4; 5]])%Z /\
  entry_of 2 5 (all_pairs Z.eqb 8 pa_g' true None None false true) = Some (3, [[2; 4; 5]])%Z /\
  source_keys (multi_source Z.eqb 1 pa_g true [4; 1; 1]%Z (Some 5%Z) (Some 4%Q) false true) = Some [4; 1]%Z /\
  source_keys (multi_source Z.eqb 8 pa_g' true [4; 1; 1]%Z (Some 5%Z) (Some 4%Q) false true) = Some [4; 1]%Z /\
  entry_of 1 5 (multi_source Z.eqb 1 pa_g true [4; 1; 1]%Z (Some 5%Z) (Some 4%Q) false true)
    = Some (4, [[1; 3; 4; 5]; [1; 2; 4; 5]])%Z /\
  entry_of 1 5 (multi_source Z.eqb 8 pa_g' true [4; 1; 1]%Z (Some 5%Z) (Some 4%Q) false true)
    = Some (4, [[1; 2; 4; 5]; [1; 3; 4; 5]])%Z /\
  infos (get_all_shortest_paths_involving Z.eqb 1 pa_g 4%Z true)
    = Some [(4, [[1; 3; 4; 5]; [1; 2; 4; 5]]); (3, [[2; 4; 5]]); (3, [[3; 4; 5]])]%Z /\
  infos (get_all_shortest_paths_involving Z.eqb 8 pa_g' 4%Z true)
    = Some [(4, [[1; 2; 4; 5]; [1; 3; 4; 5]]); (3, [[2; 4; 5]]); (3, [[3; 4; 5]])]%Z /\
  get_all_shortest_paths_involving Z.eqb 1 pa_g 4%Z true <> get_all_shortest_paths_involving Z.eqb 8 pa_g' 4%Z true /\
  arm_schedule (number_of_nodes pa_g) (Rayon [4; 3; 2; 1; 0]%nat) /\
  arm_schedule (number_of_nodes pa_g') (RayonAbort [2; 0; 4; 1; 3]%nat) /\
  arm_schedule (length [4; 1; 1]%Z) (Rayon [2; 0; 1]%nat) /\
  all_pairs_arm Z.eqb (Rayon [4; 3; 2; 1; 0]%nat) pa_g true None None false true
    = all_pairs Z.eqb 1 pa_g true None None false true /\
  all_pairs_arm Z.eqb (RayonAbort [2; 0; 4; 1; 3]%nat) pa_g' true None None false true
    = all_pairs Z.eqb 8 pa_g' true None None false true /\
  multi_source_arm Z.eqb (Rayon [2; 0; 1]%nat) pa_g' true [4; 1; 1]%Z (Some 5%Z) (Some 4%Q) false true
    = multi_source Z.eqb 8 pa_g' true [4; 1; 1]%Z (Some 5%Z) (Some 4%Q) false true /\
  get_all_shortest_paths_involving_arm Z.eqb (RayonAbort [2; 0; 4; 1; 3]%nat) pa_g' 4%Z true
    = get_all_shortest_paths_involving Z.eqb 8 pa_g' 4%Z true.
Proof. exact entry_points_edge_store_only_nonvacuous. Qed.

(* the positivity premise of the all-paths theorems is necessary: two histories under the SAME
   GraphSpecs, same nodes, edges 1->2 (1), 1->3 (1), 2->3 (0) inserted in two orders; the shortest
   paths from 1 to 3 are 1-3 and 1-2-3; one graph reports only the first, the other both *)
Theorem C03_paths_zero_weight_depend_on_history :
  reachable Z.eqb Z.ltb pa_specs zw_g1 /\ reachable Z.eqb Z.ltb pa_specs zw_g2 /\
  names zw_g1 = names zw_g2 /\ Permutation (get_all_edges zw_g1) (get_all_edges zw_g2) /\
  small_adj zw_g1 /\ small_adj zw_g2 /\ weights_nonneg zw_g1 /\ weights_real zw_g1 /\
  name_at zw_g1 0 = Some 1%Z /\
  paths_to 3 (single_source Z.eqb zw_g1 true 1%Z None None false true) = Some [[1; 3]]%Z /\
  paths_to 3 (single_source Z.eqb zw_g2 true 1%Z None None false true) = Some [[1; 3]; [1; 2; 3]]%Z.
Proof. exact paths_zero_weight_depend_on_history. Qed.
