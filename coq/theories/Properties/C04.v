(* Property C04 — Dijkstra returns exactly the shortest distances and shortest paths.
   Only pinned statements; proofs live in Proofs/ShortestPathOk.v.  The statements
   are repeated in coq/pins/C04.v and re-checked on every run.

   Route: verified checkers.  [check_dist] / [check_result] are executable; the
   theorems below say that whatever they accept satisfies the property's
   statement; Run/RunDijkstra.v evaluates them on the answer of the transcribed
   algorithm (Model/Dijkstra.v) for every generated call, and that answer is
   compared with the implementation's. *)
From Coq Require Import List Bool ZArith QArith.
From GV Require Import Spec.ShortestPathDef Spec.ShortestPathCheck Proofs.ShortestPathOk.
Import ListNotations.

(* an accepted vector is THE distance function: finite value = shortest-path
   length, None = unreachable.  No hypothesis on the sign of the costs. *)
Theorem C04_check_dist_sound : forall (g : wgraph) (s : nat) (d : dvec),
  check_dist g s d = true ->
  forall t, (forall x, dget d t = Some x -> is_dist g s t x) /\
            (dget d t = None -> ~ reach g s t).
Proof. exact check_dist_sound. Qed.

(* an accepted answer of one call meets the statement of C04 (and the option
   laws of C08) for that call: see [result_ok] / [entry_ok] in Spec/ShortestPathDef.v *)
Theorem C04_check_result_sound : forall (g : wgraph) (s : nat) (d : dvec) (target : option nat)
    (cutoff : option Q) (first_only with_paths : bool) (r : answer),
  check_dist g s d = true ->
  check_result g d s target cutoff first_only with_paths r = true ->
  result_ok g s target cutoff first_only with_paths r.
Proof. exact check_result_sound. Qed.

(* the path checker: a path accepted w.r.t. a certified vector is a shortest path *)
Theorem C04_path_check_sound : forall (g : wgraph) (s : nat) (d : dvec),
  check_dist g s d = true ->
  forall t p x, sp_path_b g d s t p = true -> dget d t = Some x ->
                walk g s t p x /\ SP g s t p.
Proof.
  intros g s d H t p x Hp Hx. apply check_dist_cert in H. split.
  - exact (sp_path_sound g s d H t p x Hp Hx).
  - exact (sp_path_SP g s d H t p x Hp Hx).
Qed.

(* the enumeration over the shortest-path DAG lists exactly the shortest paths
   (positive integer costs; fuel beyond the distance) *)
Theorem C04_enumeration_exact : forall (g : wgraph) (s : nat) (d : dvec),
  check_dist g s d = true -> positive g ->
  forall t x, dget d t = Some x ->
  forall p, In p (asp (S (Z.to_nat x)) g d s t) <-> SP g s t p.
Proof.
  intros g s d H Hpos t x Hx p. apply check_dist_cert in H. split.
  - intros Hin. destruct (asp_sound g s d H _ _ _ Hin) as [x' [Hx' Hw]].
    exists x'. split; [apply (cert_is_dist g s d H t); exact Hx' | exact Hw].
  - intros [x' [Hd Hw]]. assert (x' = x).
    { eapply is_dist_unique; eauto. apply (cert_is_dist g s d H t). exact Hx. }
    subst x'. eapply asp_complete; eauto.
Qed.

(* for the unrestricted search: reported iff reachable *)
Theorem C04_reported_iff_reachable : forall (g : wgraph) (s : nat) (fo wp : bool) (r : answer) (v : nat),
  result_ok g s None None fo wp r -> (exists d, check_dist g s d = true) ->
  (In v (map fst r) <-> reach g s v).
Proof. exact reported_iff_reachable. Qed.
