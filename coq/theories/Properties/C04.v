(* Property C04 — Dijkstra returns exactly the shortest distances and shortest paths.
   Only pinned statements; proofs live in Proofs/.  The statements are repeated in
   coq/pins/C04.v and re-checked on every run.

   Two routes, both unbounded (every graph state, source, option tuple):
   (A) the transcribed algorithm (Model/Dijkstra.v) itself: C04_model_* —
       loop invariants over the pop loop and the row fold (Proofs/DijkstraLoopOk.v,
       DijkstraPathsOk.v, DijkstraCompleteOk.v, DijkstraNoErrOk.v, DijkstraTotalOk.v);
   (B) verified checkers: C04_check_* — whatever [check_dist] / [check_result]
       accept satisfies the statement; Run/RunDijkstra.v evaluates them on the
       model's answer of every generated call (flag compared with the harness).
   The per-call statement is [result_ok] in Spec/ShortestPathDef.v. *)
From Coq Require Import List Bool ZArith QArith.
From GV Require Import Base.Outcome Model.GState Model.Query Model.Dijkstra.
From GV Require Import Spec.ShortestPathDef Spec.ShortestPathCheck Proofs.ShortestPathOk.
From GV Require Import Base.AMap Proofs.DijkstraLoopOk Proofs.DijkstraModelOk Proofs.DijkstraNamesOk.
Import ListNotations.

(* ---------------------------------------------------------------- (A) the model *)

(* Total correctness of the full algorithm: on a well-formed adjacency (one row per
   node, neighbour indexes in range, one entry per neighbour, < 2^31-1 entries),
   non-negative traversal costs (hop count: all 1), a non-negative cutoff and a valid
   source index, [dijkstra] returns [Ok r] — no panic, no fuel exhaustion, no
   ContradictoryPaths — and [r] satisfies the whole per-call statement:
   reported iff reachable (within the cutoff; the target when one is given), exact
   distances, every path a shortest path from the source to its node, no paths when
   with_paths=false, exactly one when first_only, and — positive costs,
   first_only=false — a duplicate-free list of ALL shortest paths. *)
Theorem C04_model_dijkstra_total : forall (T A : Type) (g : gstate T A) (weighted : bool) (src : nat)
    (target : option nat) (cutoff : option Q) (fo wp : bool),
  wf_adj g -> nonneg (wgraph_of weighted (successors_vec g)) ->
  cutoff_exceeded cutoff 0 = false -> (src < number_of_nodes g)%nat ->
  exists r, dijkstra g weighted src target cutoff fo wp = Ok r /\
            result_ok (wgraph_of weighted (successors_vec g)) src target cutoff fo wp (answer_of r).
Proof. exact model_dijkstra_total. Qed.

(* The same for the distance-only fast path (taken when all options are off). *)
Theorem C04_model_fast_path_total : forall (T A : Type) (g : gstate T A) (weighted : bool) (src : nat),
  wf_adj g -> nonneg (wgraph_of weighted (successors_vec g)) -> (src < number_of_nodes g)%nat ->
  exists r, dijkstra_basic g weighted src = Ok r /\
            distances_ok g weighted src None None r /\ forall t i, In (t, i) r -> sp_paths i = [].
Proof. exact model_dijkstra_basic_total. Qed.

(* The entry point on node names: with coherent name indexes, single_source from an
   existing node (and to an existing target, if any) returns Ok, and its map is exactly
   the name translation of an index-level answer [r] meeting the per-call statement. *)
Theorem C04_model_single_source_names : forall (T A : Type) (teqb : T -> T -> bool),
  (forall a b, teqb a b = true <-> a = b) ->
  forall (g : gstate T A) (weighted : bool),
  wf_adj g -> names_wf teqb g -> nonneg (wgraph_of weighted (successors_vec g)) ->
  forall source target cutoff fo wp si,
  lookup teqb source (nodes_map g) = Some si ->
  (forall t, target = Some t -> exists i, lookup teqb t (nodes_map g) = Some i) ->
  cutoff_exceeded cutoff 0 = false ->
  exists m ti r,
    single_source teqb g weighted source target cutoff fo wp = Ok m /\
    match target with
    | Some t => exists i, lookup teqb t (nodes_map g) = Some i /\ ti = Some i
    | None => ti = None
    end /\
    result_ok (wgraph_of weighted (successors_vec g)) si ti cutoff fo wp (answer_of r) /\
    (forall k i, In (k, i) r -> exists x i', name g k = Some x /\ tr_info g i i' /\ lookup teqb x m = Some i') /\
    (forall x i', lookup teqb x m = Some i' -> exists k i, In (k, i) r /\ name g k = Some x /\ tr_info g i i').
Proof. exact @single_source_names_ok. Qed.

(* Partial correctness needs less: any [Ok] answer is right as soon as the costs are
   non-negative and there is one adjacency row per node. *)
Theorem C04_model_dijkstra_ok : forall (T A : Type) (g : gstate T A) (weighted : bool) (src : nat),
  nonneg (wgraph_of weighted (successors_vec g)) ->
  length (successors_vec g) = number_of_nodes g ->
  forall (target : option nat) (cutoff : option Q) (fo wp : bool) (r : list (nat * spinfo nat)),
  (forall v row, nth_error (successors_vec g) v = Some row -> NoDup (map fst row)) ->
  cutoff_exceeded cutoff 0 = false ->
  dijkstra g weighted src target cutoff fo wp = Ok r ->
  result_ok (wgraph_of weighted (successors_vec g)) src target cutoff fo wp (answer_of r).
Proof. exact @model_dijkstra_ok. Qed.

(* ---------------------------------------------------------------- (B) verified checkers *)

(* an accepted vector is THE distance function: finite value = shortest-path
   length, None = unreachable.  No hypothesis on the sign of the costs. *)
Theorem C04_check_dist_sound : forall (g : wgraph) (s : nat) (d : dvec),
  check_dist g s d = true ->
  forall t, (forall x, dget d t = Some x -> is_dist g s t x) /\
            (dget d t = None -> ~ reach g s t).
Proof. exact check_dist_sound. Qed.

(* an accepted answer of one call meets the per-call statement *)
Theorem C04_check_result_sound : forall (g : wgraph) (s : nat) (d : dvec) (target : option nat)
    (cutoff : option Q) (first_only with_paths : bool) (r : answer),
  check_dist g s d = true ->
  check_result g d s target cutoff first_only with_paths r = true ->
  result_ok g s target cutoff first_only with_paths r.
Proof. exact check_result_sound. Qed.

(* the path checker: a path accepted w.r.t. a certified vector is a shortest path *)
Theorem C04_path_check_sound : forall (g : wgraph) (s : nat) (d : dvec),
  check_dist g s d = true ->
  forall t p x, sp_path_b g d s t p = true -> dget d t = Some x ->
                walk g s t p x /\ SP g s t p.
Proof.
  intros g s d H t p x Hp Hx. apply check_dist_cert in H. split.
  - exact (sp_path_sound g s d H t p x Hp Hx).
  - exact (sp_path_SP g s d H t p x Hp Hx).
Qed.

(* the enumeration over the shortest-path DAG lists exactly the shortest paths
   (positive integer costs; fuel beyond the distance) *)
Theorem C04_enumeration_exact : forall (g : wgraph) (s : nat) (d : dvec),
  check_dist g s d = true -> positive g ->
  forall t x, dget d t = Some x ->
  forall p, In p (asp (S (Z.to_nat x)) g d s t) <-> SP g s t p.
Proof.
  intros g s d H Hpos t x Hx p. apply check_dist_cert in H. split.
  - intros Hin. destruct (asp_sound g s d H _ _ _ Hin) as [x' [Hx' Hw]].
    exists x'. split; [apply (cert_is_dist g s d H t); exact Hx' | exact Hw].
  - intros [x' [Hd Hw]]. assert (x' = x).
    { eapply is_dist_unique; eauto. apply (cert_is_dist g s d H t). exact Hx. }
    subst x'. eapply asp_complete; eauto.
Qed.

(* for the unrestricted search: reported iff reachable *)
Theorem C04_reported_iff_reachable : forall (g : wgraph) (s : nat) (fo wp : bool) (r : answer) (v : nat),
  result_ok g s None None fo wp r -> (exists d, check_dist g s d = true) ->
  (In v (map fst r) <-> reach g s v).
Proof. exact reported_iff_reachable. Qed.
