(* Property C04 — Dijkstra returns exactly the shortest distances and shortest paths.
   Only pinned statements; proofs live in Proofs/.  The statements are repeated in
   coq/pins/C04.v and re-checked on every run.

   Two routes, both unbounded (every graph state, source, option tuple):
   (A) the transcribed algorithm (Model/Dijkstra.v) itself: C04_model_* —
       loop invariants over the pop loop and the row fold (Proofs/DijkstraLoopOk.v,
       DijkstraPathsOk.v, DijkstraCompleteOk.v, DijkstraNoErrOk.v, DijkstraTotalOk.v);
   (B) verified checkers: C04_check_* — whatever [check_dist] / [check_result]
       accept satisfies the statement; Run/RunDijkstra.v evaluates them on the
       model's answer of every generated call (flag compared with the harness).
   The per-call statement is [result_ok] in Spec/ShortestPathDef.v.
   (C) end to end: C04_reachable_* / C04_history_* / C04_constructed_* — for EVERY graph
       state satisfying the coherence invariant [WF] (Proofs/WFDefs.v), hence every
       state reachable by any history of add_node / add_edge calls: the structural
       hypotheses of (A) are theorems (Proofs/DijkstraWF.v), the traversal graph is
       exactly the arc relation [edge_arc] of the edge store (Spec/EdgeStoreGraph.v), and
       the entry points return Ok with an answer meeting the per-call statement over
       that relation ([a_result_ok], Spec/ShortestPathRel.v).  Remaining hypotheses: the
       property's own premises (non-negative stored weights, existing names, cutoff >= 0)
       and the size bound [small_adj] of the i32 counter. *)
From Coq Require Import List Bool ZArith QArith.
From GV Require Import Base.Outcome Model.GState Model.Query Model.Dijkstra.
From GV Require Import Spec.ShortestPathDef Spec.ShortestPathCheck Proofs.ShortestPathOk.
From GV Require Import Base.AMap Proofs.DijkstraLoopOk Proofs.DijkstraModelOk Proofs.DijkstraNamesOk.
From GV Require Import Model.Creation Spec.History Spec.ShortestPathRel Spec.EdgeStoreGraph.
From GV Require Import Proofs.WFDefs Proofs.HistoryOk Proofs.DijkstraWF Proofs.DijkstraWFExamples Proofs.PathsStoreOnly.
Import ListNotations.

(* ---------------------------------------------------------------- (A) the model *)

(* Total correctness of the full algorithm: on a well-formed adjacency (one row per
   node, neighbour indexes in range, one entry per neighbour, < 2^31-1 entries),
   non-negative traversal costs (hop count: all 1), a non-negative cutoff and a valid
   source index, [dijkstra] returns [Ok r] — no panic, no fuel exhaustion, no
   ContradictoryPaths — and [r] satisfies the whole per-call statement:
   reported iff reachable (within the cutoff; the target when one is given), exact
   distances, every path a shortest path from the source to its node, no paths when
   with_paths=false, exactly one when first_only, and — positive costs,
   first_only=false — a duplicate-free list of ALL shortest paths. *)
Theorem C04_model_dijkstra_total : forall (T A : Type) (g : gstate T A) (weighted : bool) (src : nat)
    (target : option nat) (cutoff : option Q) (fo wp : bool),
  wf_adj g -> nonneg (wgraph_of weighted (successors_vec g)) ->
  cutoff_exceeded cutoff 0 = false -> (src < number_of_nodes g)%nat ->
  exists r, dijkstra g weighted src target cutoff fo wp = Ok r /\
            result_ok (wgraph_of weighted (successors_vec g)) src target cutoff fo wp (answer_of r).
Proof. exact model_dijkstra_total. Qed.

(* The same for the distance-only fast path (taken when all options are off). *)
Theorem C04_model_fast_path_total : forall (T A : Type) (g : gstate T A) (weighted : bool) (src : nat),
  wf_adj g -> nonneg (wgraph_of weighted (successors_vec g)) -> (src < number_of_nodes g)%nat ->
  exists r, dijkstra_basic g weighted src = Ok r /\
            distances_ok g weighted src None None r /\ forall t i, In (t, i) r -> sp_paths i = [].
Proof. exact model_dijkstra_basic_total. Qed.

(* The entry point on node names: with coherent name indexes, single_source from an
   existing node (and to an existing target, if any) returns Ok, and its map is exactly
   the name translation of an index-level answer [r] meeting the per-call statement. *)
Theorem C04_model_single_source_names : forall (T A : Type) (teqb : T -> T -> bool),
  (forall a b, teqb a b = true <-> a = b) ->
  forall (g : gstate T A) (weighted : bool),
  wf_adj g -> names_wf teqb g -> nonneg (wgraph_of weighted (successors_vec g)) ->
  forall source target cutoff fo wp si,
  lookup teqb source (nodes_map g) = Some si ->
  (forall t, target = Some t -> exists i, lookup teqb t (nodes_map g) = Some i) ->
  cutoff_exceeded cutoff 0 = false ->
  exists m ti r,
    single_source teqb g weighted source target cutoff fo wp = Ok m /\
    match target with
    | Some t => exists i, lookup teqb t (nodes_map g) = Some i /\ ti = Some i
    | None => ti = None
    end /\
    result_ok (wgraph_of weighted (successors_vec g)) si ti cutoff fo wp (answer_of r) /\
    (forall k i, In (k, i) r -> exists x i', name g k = Some x /\ tr_info g i i' /\ lookup teqb x m = Some i') /\
    (forall x i', lookup teqb x m = Some i' -> exists k i, In (k, i) r /\ name g k = Some x /\ tr_info g i i').
Proof. exact @single_source_names_ok. Qed.

(* Partial correctness needs less: any [Ok] answer is right as soon as the costs are
   non-negative and there is one adjacency row per node. *)
Theorem C04_model_dijkstra_ok : forall (T A : Type) (g : gstate T A) (weighted : bool) (src : nat),
  nonneg (wgraph_of weighted (successors_vec g)) ->
  length (successors_vec g) = number_of_nodes g ->
  forall (target : option nat) (cutoff : option Q) (fo wp : bool) (r : list (nat * spinfo nat)),
  (forall v row, nth_error (successors_vec g) v = Some row -> NoDup (map fst row)) ->
  cutoff_exceeded cutoff 0 = false ->
  dijkstra g weighted src target cutoff fo wp = Ok r ->
  result_ok (wgraph_of weighted (successors_vec g)) src target cutoff fo wp (answer_of r).
Proof. exact @model_dijkstra_ok. Qed.

(* ---------------------------------------------------------------- (B) verified checkers *)

(* an accepted vector is THE distance function: finite value = shortest-path
   length, None = unreachable.  No hypothesis on the sign of the costs. *)
Theorem C04_check_dist_sound : forall (g : wgraph) (s : nat) (d : dvec),
  check_dist g s d = true ->
  forall t, (forall x, dget d t = Some x -> is_dist g s t x) /\
            (dget d t = None -> ~ reach g s t).
Proof. exact check_dist_sound. Qed.

(* an accepted answer of one call meets the per-call statement *)
Theorem C04_check_result_sound : forall (g : wgraph) (s : nat) (d : dvec) (target : option nat)
    (cutoff : option Q) (first_only with_paths : bool) (r : answer),
  check_dist g s d = true ->
  check_result g d s target cutoff first_only with_paths r = true ->
  result_ok g s target cutoff first_only with_paths r.
Proof. exact check_result_sound. Qed.

(* the path checker: a path accepted w.r.t. a certified vector is a shortest path *)
Theorem C04_path_check_sound : forall (g : wgraph) (s : nat) (d : dvec),
  check_dist g s d = true ->
  forall t p x, sp_path_b g d s t p = true -> dget d t = Some x ->
                walk g s t p x /\ SP g s t p.
Proof.
  intros g s d H t p x Hp Hx. apply check_dist_cert in H. split.
  - exact (sp_path_sound g s d H t p x Hp Hx).
  - exact (sp_path_SP g s d H t p x Hp Hx).
Qed.

(* the enumeration over the shortest-path DAG lists exactly the shortest paths
   (positive integer costs; fuel beyond the distance) *)
Theorem C04_enumeration_exact : forall (g : wgraph) (s : nat) (d : dvec),
  check_dist g s d = true -> positive g ->
  forall t x, dget d t = Some x ->
  forall p, In p (asp (S (Z.to_nat x)) g d s t) <-> SP g s t p.
Proof.
  intros g s d H Hpos t x Hx p. apply check_dist_cert in H. split.
  - intros Hin. destruct (asp_sound g s d H _ _ _ Hin) as [x' [Hx' Hw]].
    exists x'. split; [apply (cert_is_dist g s d H t); exact Hx' | exact Hw].
  - intros [x' [Hd Hw]]. assert (x' = x).
    { eapply is_dist_unique; eauto. apply (cert_is_dist g s d H t). exact Hx. }
    subst x'. eapply asp_complete; eauto.
Qed.

(* for the unrestricted search: reported iff reachable *)
Theorem C04_reported_iff_reachable : forall (g : wgraph) (s : nat) (fo wp : bool) (r : answer) (v : nat),
  result_ok g s None None fo wp r -> (exists d, check_dist g s d = true) ->
  (In v (map fst r) <-> reach g s v).
Proof. exact reported_iff_reachable. Qed.

(* ---------------------------------------------------------------- (C) end to end: every reachable graph *)
Section Reachable.
  Context {T A : Type}.
  Variable teqb : T -> T -> bool.
  Variable tltb : T -> T -> bool.
  Hypothesis teqb_spec : forall x y, teqb x y = true <-> x = y.
  Hypothesis tltb_asym : forall x y, tltb x y = true -> tltb y x = false.
  Hypothesis tltb_total : forall x y, tltb x y = false -> tltb y x = false -> x = y.
  Notation gstate := (gstate T A).
  Notation WF := (@WF T A teqb tltb).

  (* The hypotheses of (A) — [wf_adj], [names_wf], [nonneg] — hold in every WF state with
     fewer than 2^31-1 adjacency entries whose stored weights are non-negative (weighted
     mode; hop-count mode needs nothing).  The per-case flags wf_adj_b / names_wf_b /
     nonneg_b of Run/RunDijkstra.v validate the same facts on the generated cases. *)
  Theorem C04_WF_gives_search_hypotheses : forall (g : gstate) (weighted : bool),
    WF g -> small_adj g -> (weighted = true -> weights_nonneg g) ->
    wf_adj g /\ names_wf teqb g /\ nonneg (wgraph_of weighted (successors_vec g)).
  Proof. exact (wf_search_hypotheses teqb tltb teqb_spec tltb_total). Qed.

  (* the size bound holds for every graph of at most 46340 nodes (<= n^2 entries) *)
  Theorem C04_small_adj_of_nodes : forall (g : gstate),
    WF g -> (Z.of_nat (number_of_nodes g) <= 46340)%Z -> small_adj g.
  Proof. exact (small_adj_of_nodes teqb tltb). Qed.

  (* The traversal graph the search reads has one row per node and exactly the arcs of
     the edge store: i -> j of cost c iff an edge is stored between the names of i and j
     (either orientation when undirected) and c is the cost of the pair. *)
  Theorem C04_traversal_graph_is_edge_store : forall (g : gstate) (weighted : bool),
    WF g ->
    length (wgraph_of weighted (successors_vec g)) = number_of_nodes g /\
    forall i j c, wedge (wgraph_of weighted (successors_vec g)) i j c <-> edge_arc teqb g weighted i j c.
  Proof. exact (traversal_graph_is_edge_store teqb tltb teqb_spec tltb_total). Qed.

  (* the cost of a pair: 1 in hop-count mode; in weighted mode, when the stored edges of
     the pair all carry real weights, the smallest of them (and it is unique) *)
  Theorem C04_arc_cost_hop : forall (g : gstate) i j c, edge_arc teqb g false i j c -> c = 1%Z.
  Proof. exact (edge_arc_hop teqb). Qed.

  Theorem C04_arc_cost_is_min_weight : forall (g : gstate) i j x y,
    WF g -> name_at g i = Some x -> name_at g j = Some y -> between teqb g x y <> [] ->
    (forall e, In e (between teqb g x y) -> exists z, ew e = Some z) ->
    exists c, edge_arc teqb g true i j c /\
              (exists e, In e (between teqb g x y) /\ ew e = Some c) /\
              (forall e z, In e (between teqb g x y) -> ew e = Some z -> (c <= z)%Z) /\
              forall c', edge_arc teqb g true i j c' -> c' = c.
  Proof. exact (edge_arc_min_weight teqb tltb teqb_spec tltb_total). Qed.

  Theorem C04_arcs_symmetric_when_undirected : forall (g : gstate) weighted i j c,
    WF g -> directed (sp g) = false -> edge_arc teqb g weighted i j c -> edge_arc teqb g weighted j i c.
  Proof. exact (edge_arc_symmetric teqb tltb teqb_spec tltb_asym tltb_total). Qed.

  (* the per-call statement over the adjacency list and over the edge-store arcs are the same *)
  Theorem C04_result_ok_edge_store : forall (g : gstate) weighted s t c fo wp r,
    WF g ->
    (result_ok (wgraph_of weighted (successors_vec g)) s t c fo wp r <->
     a_result_ok (edge_arc teqb g weighted) (number_of_nodes g) s t c fo wp r).
  Proof. exact (result_ok_edge_store teqb tltb teqb_spec tltb_total). Qed.

  (* Total correctness of [dijkstra] on every WF graph: Ok, and the answer meets the whole
     per-call statement w.r.t. walks over the edge-store arcs. *)
  Theorem C04_reachable_dijkstra_total : forall (g : gstate) (weighted : bool) (src : nat)
      (target : option nat) (cutoff : option Q) (fo wp : bool),
    WF g -> small_adj g -> (weighted = true -> weights_nonneg g) ->
    cutoff_exceeded cutoff 0 = false -> (src < number_of_nodes g)%nat ->
    exists r, dijkstra g weighted src target cutoff fo wp = Ok r /\
              a_result_ok (edge_arc teqb g weighted) (number_of_nodes g) src target cutoff fo wp (answer_of r).
  Proof. exact (wf_dijkstra_total teqb tltb teqb_spec tltb_total). Qed.

  (* the same for the per-source function all entry points call (fast path when all
     options are off, full algorithm otherwise) *)
  Theorem C04_reachable_per_source : forall (g : gstate) (weighted : bool) (si : nat)
      (target : option T) (ti : option nat) (cutoff : option Q) (fo wp : bool),
    WF g -> small_adj g -> (weighted = true -> weights_nonneg g) ->
    (si < number_of_nodes g)%nat -> (target = None <-> ti = None) -> cutoff_exceeded cutoff 0 = false ->
    exists r, run_from_index g weighted si target ti cutoff fo wp = Ok r /\
              a_result_ok (edge_arc teqb g weighted) (number_of_nodes g) si ti cutoff fo wp (answer_of r) /\
              forall k i, In (k, i) r -> (k < number_of_nodes g)%nat.
  Proof. exact (wf_run_from_index teqb tltb teqb_spec tltb_total). Qed.

  (* single_source on node names: from an existing source (to an existing target, if any)
     it returns Ok, and the returned map is exactly the name translation of an
     index-level answer [r] meeting the per-call statement over the edge-store arcs. *)
  Theorem C04_reachable_single_source : forall (g : gstate) (weighted : bool)
      (source : T) (target : option T) (cutoff : option Q) (fo wp : bool) (si : nat),
    WF g -> small_adj g -> (weighted = true -> weights_nonneg g) ->
    name_at g si = Some source ->
    (forall t, target = Some t -> In t (names g)) ->
    cutoff_exceeded cutoff 0 = false ->
    exists m ti r,
      single_source teqb g weighted source target cutoff fo wp = Ok m /\
      match target with Some t => exists i, name_at g i = Some t /\ ti = Some i | None => ti = None end /\
      a_result_ok (edge_arc teqb g weighted) (number_of_nodes g) si ti cutoff fo wp (answer_of r) /\
      (forall k i, In (k, i) r -> exists x i', name_at g k = Some x /\ info_names g i i' /\ lookup teqb x m = Some i') /\
      (forall x i', lookup teqb x m = Some i' -> exists k i, In (k, i) r /\ name_at g k = Some x /\ info_names g i i').
  Proof. exact (wf_single_source teqb tltb teqb_spec tltb_total). Qed.

  (* The same, read entirely on node names and the edge store — "Dijkstra returns exactly
     the shortest distances and shortest paths": every name in the returned map is a node,
     with its exact shortest distance from the source (within the cutoff) and paths that
     are the name form of shortest paths (none when with_paths=false, exactly one when
     first_only, ALL of them for positive weights otherwise); and every node within the
     cutoff — the target, when one is given — is in the map with that distance. *)
  Theorem C04_reachable_single_source_answer : forall (g : gstate) (weighted : bool)
      (source : T) (target : option T) (cutoff : option Q) (fo wp : bool) (si : nat),
    WF g -> small_adj g -> (weighted = true -> weights_nonneg g) ->
    name_at g si = Some source ->
    (forall t, target = Some t -> In t (names g)) ->
    cutoff_exceeded cutoff 0 = false ->
    exists m,
      single_source teqb g weighted source target cutoff fo wp = Ok m /\
      (forall y info, lookup teqb y m = Some info ->
         exists j, name_at g j = Some y /\
           a_is_dist (edge_arc teqb g weighted) (number_of_nodes g) si j (sp_distance info) /\
           within cutoff (sp_distance info) /\
           (wp = false -> sp_paths info = []) /\
           (forall p', In p' (sp_paths info) ->
              exists p, names_of g p p' /\ a_SP (edge_arc teqb g weighted) (number_of_nodes g) si j p) /\
           (wp = true -> fo = true -> length (sp_paths info) = 1%nat) /\
           (wp = true -> fo = false -> a_positive (edge_arc teqb g weighted) ->
              forall p, a_SP (edge_arc teqb g weighted) (number_of_nodes g) si j p ->
                        exists p', In p' (sp_paths info) /\ names_of g p p')) /\
      (forall j y d, name_at g j = Some y ->
         a_is_dist (edge_arc teqb g weighted) (number_of_nodes g) si j d -> within cutoff d ->
         (target = None \/ target = Some y) ->
         exists info, lookup teqb y m = Some info /\ sp_distance info = d).
  Proof. exact (wf_single_source_answer teqb tltb teqb_spec tltb_total). Qed.

  (* the all-paths clause in exact form (first_only = false, with_paths = true, positive arcs):
     the path list of every reported name is duplicate free ON NODE NAMES and its members are
     exactly the name forms of the shortest paths of the edge-store graph from the source *)
  Theorem C04_reachable_single_source_paths_exact : forall (g : gstate) (weighted : bool)
      (source : T) (target : option T) (cutoff : option Q) (si : nat),
    WF g -> small_adj g -> (weighted = true -> weights_nonneg g) ->
    a_positive (edge_arc teqb g weighted) ->
    name_at g si = Some source ->
    (forall t, target = Some t -> In t (names g)) ->
    cutoff_exceeded cutoff 0 = false ->
    exists m,
      single_source teqb g weighted source target cutoff false true = Ok m /\
      forall y info, lookup teqb y m = Some info ->
        exists j, name_at g j = Some y /\
          a_is_dist (edge_arc teqb g weighted) (number_of_nodes g) si j (sp_distance info) /\
          NoDup (sp_paths info) /\
          forall p', In p' (sp_paths info) <->
                     exists p, names_of g p p' /\ a_SP (edge_arc teqb g weighted) (number_of_nodes g) si j p.
  Proof. exact (wf_single_source_paths_exact teqb tltb teqb_spec tltb_total). Qed.

  (* positivity of the arcs (premise of the all-paths clause) from the stored weights *)
  Theorem C04_arcs_positive : forall (g : gstate) (weighted : bool),
    (weighted = true -> weights_positive g) -> a_positive (edge_arc teqb g weighted).
  Proof. exact (edge_arc_positive teqb). Qed.

  (* ... hence for every state reached by any history of mutations from Graph::new(specs) ... *)
  Corollary C04_history_single_source : forall (s : specs) (g : gstate) (weighted : bool)
      (source : T) (target : option T) (cutoff : option Q) (fo wp : bool) (si : nat),
    reachable teqb tltb s g -> small_adj g -> (weighted = true -> weights_nonneg g) ->
    name_at g si = Some source ->
    (forall t, target = Some t -> In t (names g)) ->
    cutoff_exceeded cutoff 0 = false ->
    exists m ti r,
      single_source teqb g weighted source target cutoff fo wp = Ok m /\
      match target with Some t => exists i, name_at g i = Some t /\ ti = Some i | None => ti = None end /\
      a_result_ok (edge_arc teqb g weighted) (number_of_nodes g) si ti cutoff fo wp (answer_of r) /\
      (forall k i, In (k, i) r -> exists x i', name_at g k = Some x /\ info_names g i i' /\ lookup teqb x m = Some i') /\
      (forall x i', lookup teqb x m = Some i' -> exists k i, In (k, i) r /\ name_at g k = Some x /\ info_names g i i').
  Proof.
    intros s g weighted source target cutoff fo wp si R.
    exact (wf_single_source teqb tltb teqb_spec tltb_total g weighted source target cutoff fo wp si
             (WF_reachable teqb tltb teqb_spec tltb_asym tltb_total s g R)).
  Qed.

  (* ... and for every graph returned by Graph::new_from_nodes_and_edges *)
  Corollary C04_constructed_dijkstra_total : forall ns es (s : specs) (g : gstate) (weighted : bool) (src : nat)
      (target : option nat) (cutoff : option Q) (fo wp : bool),
    new_from_nodes_and_edges teqb tltb ns es s = Ok g ->
    small_adj g -> (weighted = true -> weights_nonneg g) ->
    cutoff_exceeded cutoff 0 = false -> (src < number_of_nodes g)%nat ->
    exists r, dijkstra g weighted src target cutoff fo wp = Ok r /\
              a_result_ok (edge_arc teqb g weighted) (number_of_nodes g) src target cutoff fo wp (answer_of r).
  Proof.
    intros ns es s g weighted src target cutoff fo wp H.
    exact (wf_dijkstra_total teqb tltb teqb_spec tltb_total g weighted src target cutoff fo wp
             (WF_reachable teqb tltb teqb_spec tltb_asym tltb_total s g (new_from_reachable teqb tltb teqb_spec ns es s g H))).
  Qed.
End Reachable.

(* non-vacuity: a graph built by the transcribed constructor (a history of add_node /
   add_edge calls) is reachable, WF, small, has non-negative weights, and the entry
   points return answers on it *)
Example C04_reachable_hypotheses_nonvacuous :
  reachable Z.eqb Z.ltb ex_specs ex_g /\ WF Z.eqb Z.ltb ex_g /\
  small_adj ex_g /\ weights_nonneg ex_g /\ edges_have_weight ex_g = true /\
  name_at ex_g 0 = Some 5%Z /\ In 1%Z (names ex_g) /\
  (exists m, single_source Z.eqb ex_g true 5%Z (Some 1%Z) (Some (9 # 2)%Q) false true = Ok m /\ length m = 4%nat) /\
  (exists mm, multi_source Z.eqb 1 ex_g true [3%Z; 5%Z] None None false true = Ok mm /\ length mm = 2%nat) /\
  (exists mm, all_pairs Z.eqb 1 ex_g true None None false true = Ok mm /\ length mm = 4%nat).
Proof. exact reachable_hypotheses_nonvacuous. Qed.
