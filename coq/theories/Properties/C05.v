(* Property C05 — betweenness centrality equals its definition.  Only pinned
   statements; proofs live in Proofs/BrandesOk.v.  Repeated in coq/pins/C05.v
   and re-checked on every run.

   The full statement
     forall g (adjacency with positive costs), bc_core lw weighted g = Some bet ->
       Forall2 Qeq (rescale bet n normalized directed) (bc_def g normalized directed)
   (Brandes' theorem for the transcribed BFS / Dijkstra stage + accumulation) is NOT
   proved here.  It is validated per generated graph: the Run module evaluates both
   sides in exact rational arithmetic and emits their equality as observation kind 52,
   [bc_def_tab] being the definition by C05_def_executed_form.  What is proved for all
   graphs: the facts about the definition named in the property text, the rescaling
   rules, the source exclusion of the accumulation step, one entry per node, that the
   rayon path computes the same vector as the serial path, and (hop-count mode, by loop
   invariant) the whole single-source stage: D = hop distances, S = the reachable nodes
   in non-decreasing distance, P[w] = the shortest-path predecessors, sigma = the path
   count recurrence, fuel never exhausted; and that the accumulation adds the solution of
   Brandes' dependency recurrence over that P and sigma (C05_bfs_source_contribution_partial).
   MISSING for the full hop-count statement: Brandes' lemma itself, i.e. that the solution of
   the recurrence equals  sum over t of  #{p in SP s t | v in p} / #SP s t  for the path
   enumeration of [bc_def]; and the weighted (heap) stage. *)
From Coq Require Import String List Bool ZArith Arith QArith.
From GV Require Import Base.Outcome Base.AMap Model.GState Model.Query Model.Cent Model.Brandes.
From GV Require Import Spec.BetweennessDef Spec.ClosenessDef Proofs.BrandesOk Proofs.BrandesAccOk Proofs.ClosenessBfsOk Proofs.BrandesBfsOk.
Import ListNotations.

(* ---- the definition ---- *)
Theorem C05_def_endpoints_never_count : forall (g : qadj) v s t,
  s = v \/ t = v \/ s = t -> pair_term g v s t = 0.
Proof. exact pair_term_endpoint. Qed.

Theorem C05_def_shortest_paths_are_paths : forall (g : qadj) s t p,
  In p (spec_sp g s t) -> path_from_to g p s t.
Proof. exact spec_sp_sound. Qed.

Theorem C05_def_unreachable_pairs_contribute_nothing : forall (g : qadj) v s t,
  (forall p, ~ path_from_to g p s t) -> pair_term g v s t = 0.
Proof. exact pair_term_unreachable. Qed.

Theorem C05_def_at_most_two_nodes_all_zero : forall (g : qadj) normalized directed,
  (length g <= 2)%nat -> Forall (fun x => x == 0) (bc_def g normalized directed).
Proof. exact bc_def_small. Qed.

Theorem C05_def_one_value_per_node : forall (g : qadj) normalized directed,
  length (bc_def g normalized directed) = length g.
Proof. exact bc_def_length. Qed.

(* the table-sharing form evaluated per case (kind 52) is the definition *)
Theorem C05_def_executed_form : forall (g : qadj) normalized directed,
  bc_def_tab g normalized directed = bc_def g normalized directed.
Proof. exact bc_def_tab_eq. Qed.

(* ---- rescaling: the four cases of get_scale are the rules of the property text ---- *)
Theorem C05_get_scale_cases : forall n normalized directed,
  get_scale n normalized directed =
  match normalized, directed with
  | true, _ => if Nat.leb n 2 then None else Some (1 / ((qn n - 1) * (qn n - 2)))
  | false, true => None
  | false, false => Some (1 # 2)
  end.
Proof. exact get_scale_cases. Qed.

Theorem C05_rescale : forall bet n normalized directed,
  Forall2 Qeq (rescale bet n normalized directed) (map (bc_scale n normalized directed) bet).
Proof. exact rescale_is_bc_scale. Qed.

(* ---- accumulation: the source's own entry is never touched; nodes off the stack neither ---- *)
Theorem C05_accumulate_excludes_source : forall src S P sig bet,
  get 0 (accumulate src S P sig bet) src = get 0 bet src.
Proof. exact accumulate_source_untouched. Qed.

Theorem C05_accumulate_only_reached_nodes : forall src S P sig bet u,
  ~ In u S -> get 0 (accumulate src S P sig bet) u = get 0 bet u.
Proof. exact accumulate_off_stack. Qed.

(* ---- the model ---- *)
Theorem C05_parallel_eq_serial : forall lw weighted (g : qadj),
  bc_parallel lw weighted g = bc_serial lw weighted g.
Proof. exact parallel_eq_serial. Qed.

Theorem C05_one_entry_per_node : forall (T A : Type) lw (g : gstate T A) weighted normalized m,
  betweenness_centrality lw g weighted normalized = Ok m -> length m = number_of_nodes g.
Proof. intros T A. exact (@betweenness_entries T A). Qed.

(* ---- hop-count mode: the single-source stage `bfs`, for every graph and source ---- *)

Theorem C05_stage_bfs_distances : forall (g : qadj) (src : nat) (s : qs),
  adj_ok (length g) g = true -> (src < length g)%nat -> (forall v, NoDup (map fst (get [] g v))) ->
  bbfs g src = Some s ->
  forall w, dist_spec (unit_z g) src w (oget (dvec s) w).
Proof. intros g src s H1 H2 H3 H4. exact (stage_D g src H1 H2 H3 s H4). Qed.

Theorem C05_stage_bfs_stack : forall (g : qadj) (src : nat) (s : qs),
  adj_ok (length g) g = true -> (src < length g)%nat -> (forall v, NoDup (map fst (get [] g v))) ->
  bbfs g src = Some s ->
  NoDup (qS s) /\ (forall w, In w (qS s) <-> Dn s w <> None) /\
  sorted_by (dval s) (qS s) /\ (forall w, In w (qS s) -> (w < length g)%nat).
Proof. intros g src s H1 H2 H3 H4. exact (stage_S g src H1 H2 H3 s H4). Qed.

Theorem C05_stage_bfs_predecessors : forall (g : qadj) (src : nat) (s : qs),
  adj_ok (length g) g = true -> (src < length g)%nat -> (forall v, NoDup (map fst (get [] g v))) ->
  bbfs g src = Some s ->
  forall w, NoDup (get [] (qP s) w) /\
    forall u, In u (get [] (qP s) w) <-> E g u w /\ exists k, Dn s u = Some k /\ Dn s w = Some (S k).
Proof. intros g src s H1 H2 H3 H4. exact (stage_P g src H1 H2 H3 s H4). Qed.

Theorem C05_stage_bfs_sigma : forall (g : qadj) (src : nat) (s : qs),
  adj_ok (length g) g = true -> (src < length g)%nat -> (forall v, NoDup (map fst (get [] g v))) ->
  bbfs g src = Some s ->
  get 0 (qsig s) src = 1 /\
  forall w, w <> src -> get 0 (qsig s) w == Qsum (map (get 0 (qsig s)) (get [] (qP s) w)).
Proof. intros g src s H1 H2 H3 H4. exact (stage_sigma g src H1 H2 H3 s H4). Qed.

Theorem C05_stage_bfs_total : forall (g : qadj) (src : nat),
  adj_ok (length g) g = true -> (src < length g)%nat -> (forall v, NoDup (map fst (get [] g v))) ->
  exists s, bbfs g src = Some s.
Proof. exact bbfs_total. Qed.

(* ---- accumulation: for any stack without repetitions whose predecessors come first, the loop
   adds to every stack node other than the source the solution of Brandes' recurrence ---- *)
Theorem C05_accumulate_recurrence : forall src S P sig bet,
  NoDup S -> preds_first P S ->
  (forall w, In w S -> NoDup (get [] P w) /\ (forall u, In u (get [] P w) -> (u < length bet)%nat) /\
                       (w < length bet)%nat) ->
  exists D : list Q,
    length D = length bet /\
    (forall v, get 0 D v == Qsum (map (contrib P sig D v) S)) /\
    (forall w, get 0 (accumulate src S P sig bet) w ==
               get 0 bet w + (if nmem w S && negb (Nat.eqb w src) then get 0 D w else 0)).
Proof. exact accumulate_recurrence. Qed.

Theorem C05_bfs_source_contribution_partial : forall (g : qadj) (src : nat) (s : qs),
  adj_ok (length g) g = true -> (src < length g)%nat -> (forall v, NoDup (map fst (get [] g v))) ->
  bbfs g src = Some s ->
  forall bet, length bet = length g ->
  exists D : list Q,
    length D = length bet /\
    (forall v, get 0 D v == Qsum (map (contrib (qP s) (qsig s) D v) (qS s))) /\
    (forall w, get 0 (accumulate src (qS s) (qP s) (qsig s) bet) w ==
               get 0 bet w + (if nmem w (qS s) && negb (Nat.eqb w src) then get 0 D w else 0)).
Proof. intros g src s H1 H2 H3 H4. exact (stage_accumulate g src H1 H2 H3 s H4). Qed.

(* the per-case check of observation kind 53 establishes the row-shape hypothesis above *)
Theorem C05_rows_check_sound : forall g : qadj,
  rows_nodup g = true -> forall v, NoDup (map fst (get [] g v)).
Proof. exact rows_nodup_sound. Qed.
