(* Property C05 — betweenness centrality equals its definition.  Only pinned
   statements; proofs live in Proofs/BrandesOk.v.  Repeated in coq/pins/C05.v
   and re-checked on every run.

   The full statement
     forall g (adjacency with positive costs), bc_core lw weighted g = Some bet ->
       Forall2 Qeq (rescale bet n normalized directed) (bc_def g normalized directed)
   (Brandes' theorem for the transcribed BFS / Dijkstra stage + accumulation) is NOT
   proved here.  It is validated per generated graph: the Run module evaluates both
   sides in exact rational arithmetic and emits their equality as observation kind 52,
   [bc_def_tab] being the definition by C05_def_executed_form.  What is proved for all
   graphs: the facts about the definition named in the property text, the rescaling
   rules, the source exclusion of the accumulation step, one entry per node, and that
   the rayon path computes the same vector as the serial path. *)
From Coq Require Import String List Bool ZArith Arith QArith.
From GV Require Import Base.Outcome Base.AMap Model.GState Model.Query Model.Cent Model.Brandes.
From GV Require Import Spec.BetweennessDef Proofs.BrandesOk.
Import ListNotations.

(* ---- the definition ---- *)
Theorem C05_def_endpoints_never_count : forall (g : qadj) v s t,
  s = v \/ t = v \/ s = t -> pair_term g v s t = 0.
Proof. exact pair_term_endpoint. Qed.

Theorem C05_def_shortest_paths_are_paths : forall (g : qadj) s t p,
  In p (spec_sp g s t) -> path_from_to g p s t.
Proof. exact spec_sp_sound. Qed.

Theorem C05_def_unreachable_pairs_contribute_nothing : forall (g : qadj) v s t,
  (forall p, ~ path_from_to g p s t) -> pair_term g v s t = 0.
Proof. exact pair_term_unreachable. Qed.

Theorem C05_def_at_most_two_nodes_all_zero : forall (g : qadj) normalized directed,
  (length g <= 2)%nat -> Forall (fun x => x == 0) (bc_def g normalized directed).
Proof. exact bc_def_small. Qed.

Theorem C05_def_one_value_per_node : forall (g : qadj) normalized directed,
  length (bc_def g normalized directed) = length g.
Proof. exact bc_def_length. Qed.

(* the table-sharing form evaluated per case (kind 52) is the definition *)
Theorem C05_def_executed_form : forall (g : qadj) normalized directed,
  bc_def_tab g normalized directed = bc_def g normalized directed.
Proof. exact bc_def_tab_eq. Qed.

(* ---- rescaling: the four cases of get_scale are the rules of the property text ---- *)
Theorem C05_get_scale_cases : forall n normalized directed,
  get_scale n normalized directed =
  match normalized, directed with
  | true, _ => if Nat.leb n 2 then None else Some (1 / ((qn n - 1) * (qn n - 2)))
  | false, true => None
  | false, false => Some (1 # 2)
  end.
Proof. exact get_scale_cases. Qed.

Theorem C05_rescale : forall bet n normalized directed,
  Forall2 Qeq (rescale bet n normalized directed) (map (bc_scale n normalized directed) bet).
Proof. exact rescale_is_bc_scale. Qed.

(* ---- accumulation: the source's own entry is never touched; nodes off the stack neither ---- *)
Theorem C05_accumulate_excludes_source : forall src S P sig bet,
  get 0 (accumulate src S P sig bet) src = get 0 bet src.
Proof. exact accumulate_source_untouched. Qed.

Theorem C05_accumulate_only_reached_nodes : forall src S P sig bet u,
  ~ In u S -> get 0 (accumulate src S P sig bet) u = get 0 bet u.
Proof. exact accumulate_off_stack. Qed.

(* ---- the model ---- *)
Theorem C05_parallel_eq_serial : forall lw weighted (g : qadj),
  bc_parallel lw weighted g = bc_serial lw weighted g.
Proof. exact parallel_eq_serial. Qed.

Theorem C05_one_entry_per_node : forall (T A : Type) lw (g : gstate T A) weighted normalized m,
  betweenness_centrality lw g weighted normalized = Ok m -> length m = number_of_nodes g.
Proof. intros T A. exact (@betweenness_entries T A). Qed.
