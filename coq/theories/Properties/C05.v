(* Property C05 — betweenness centrality equals its definition.  Only pinned
   statements; proofs live in Proofs/BrandesOk.v.  Repeated in coq/pins/C05.v
   and re-checked on every run.

   HOP-COUNT MODE IS PROVED IN FULL, for every graph (C05_brandes_hop_count,
   C05_model_hop_count): the vector computed by the transcribed BFS stage, the accumulation
   over all sources (serial or rayon path) and the rescaling equals [bc_def] — the sum over
   ordered pairs (s,t), s <> v <> t, of the fraction of the shortest s-t paths (brute-force
   enumeration of simple paths, those of minimal length) that pass through v, halved when
   undirected and raw, divided by (n-1)(n-2) when normalized and n > 2.  Hypotheses: the
   adjacency read by the algorithm has indexes in range (checked by the model itself) and
   lists each neighbour once per row (the shape of successors_vec; checked per case,
   observation 53, and sound by C05_rows_check_sound).
   WEIGHTED MODE IS PROVED IN FULL AS WELL (C05_brandes_weighted, C05_model_weighted), for every
   graph whose costs are strictly positive integers (an edge weight of the model is an integer;
   positivity checked per case, observation 53, sound by C05_rows_pos_check_sound), with the same
   row-shape hypothesis, and for EVERY tie choice of the BinaryHeap: the heap stage finalises the
   true distances, S lists the reachable nodes in non-decreasing distance, P[w] = the tight
   incoming edges, sigma[w] = 2 * #SP(src,w) — the factor 2 comes from `sigma[v] += sigma[pred]`
   at the pop of the source's own entry (pred = source: 1 + 1) and is inherited by every other
   node, whose own share from its discoverer is added only at its pop (tentative entries are reset
   to 0 / [v] on a strict improvement and extended on a tie) — Brandes' recurrence does not see a
   uniform factor (C05_recurrence_ignores_uniform_sigma_factor), and Brandes' lemma holds in the
   weighted shortest-path DAG (Proofs/BrandesDag.v, generic in the DAG).  Observation 52 (model =
   definition evaluated per generated graph) and 51 (tie choice unobservable) remain as
   correspondence checks.
   END TO END (round 2, Proofs/BrandesWF.v): C05_betweenness_WF / _reachable / _constructed — for
   every graph state satisfying the coherence invariant WF, hence every state reachable by any
   history of mutations (positive real stored weights in weighted mode; any weights in hop-count
   mode) and every tie choice of the heap, `betweenness_centrality` returns Ok (no error, no panic,
   fuel never exhausted), one entry per node in node order, with values equal to [bc_def] of the
   EDGE-STORE GRAPH: one row per node, arc i -> j of cost c iff an edge is stored between the i-th
   and the j-th node (either orientation when undirected), c = 1 (hop count) or the minimum stored
   weight of the pair (weighted) — the relation [edge_arc] of Spec/EdgeStoreGraph.v.  The row
   hypotheses of the model theorems ([rows_nodup], [rows_pos], existence of the conversion) are
   consequences of WF (C05_WF_gives_model_hypotheses); observation 53 stays as a per-case tie
   between model and code.  [bc_def] does not depend on the order of the entries in a row
   (C05_def_row_order_irrelevant), so the value is a function of the arc relation alone. *)
From Coq Require Import String List Bool ZArith Arith QArith Permutation.
From GV Require Import Base.Outcome Base.AMap Model.GState Model.Creation Model.Query Model.Cent Model.Brandes.
From GV Require Import Spec.History Spec.EdgeStoreGraph Spec.EdgeStoreAdj Proofs.WFDefs Proofs.HistoryOk Proofs.DijkstraWF Proofs.BrandesWF Proofs.BrandesWFExamples.
From GV Require Import Spec.BetweennessDef Spec.ClosenessDef Proofs.BrandesOk Proofs.BrandesAccOk Proofs.ClosenessBfsOk Proofs.BrandesBfsOk Proofs.PathsOk Proofs.BrandesLemma Proofs.BrandesLemma2 Proofs.BrandesFull Proofs.DijkstraOk Proofs.BrandesHeapOk Proofs.BrandesDag Proofs.PathsWOk Proofs.BrandesWeighted.
Import ListNotations.

(* ---- the definition ---- *)
Theorem C05_def_endpoints_never_count : forall (g : qadj) v s t,
  s = v \/ t = v \/ s = t -> pair_term g v s t = 0.
Proof. exact pair_term_endpoint. Qed.

Theorem C05_def_shortest_paths_are_paths : forall (g : qadj) s t p,
  In p (spec_sp g s t) -> path_from_to g p s t.
Proof. exact spec_sp_sound. Qed.

Theorem C05_def_unreachable_pairs_contribute_nothing : forall (g : qadj) v s t,
  (forall p, ~ path_from_to g p s t) -> pair_term g v s t = 0.
Proof. exact pair_term_unreachable. Qed.

Theorem C05_def_at_most_two_nodes_all_zero : forall (g : qadj) normalized directed,
  (length g <= 2)%nat -> Forall (fun x => x == 0) (bc_def g normalized directed).
Proof. exact bc_def_small. Qed.

Theorem C05_def_one_value_per_node : forall (g : qadj) normalized directed,
  length (bc_def g normalized directed) = length g.
Proof. exact bc_def_length. Qed.

(* the table-sharing form evaluated per case (kind 52) is the definition *)
Theorem C05_def_executed_form : forall (g : qadj) normalized directed,
  bc_def_tab g normalized directed = bc_def g normalized directed.
Proof. exact bc_def_tab_eq. Qed.

(* ---- rescaling: the four cases of get_scale are the rules of the property text ---- *)
Theorem C05_get_scale_cases : forall n normalized directed,
  get_scale n normalized directed =
  match normalized, directed with
  | true, _ => if Nat.leb n 2 then None else Some (1 / ((qn n - 1) * (qn n - 2)))
  | false, true => None
  | false, false => Some (1 # 2)
  end.
Proof. exact get_scale_cases. Qed.

Theorem C05_rescale : forall bet n normalized directed,
  Forall2 Qeq (rescale bet n normalized directed) (map (bc_scale n normalized directed) bet).
Proof. exact rescale_is_bc_scale. Qed.

(* ---- accumulation: the source's own entry is never touched; nodes off the stack neither ---- *)
Theorem C05_accumulate_excludes_source : forall src S P sig bet,
  get 0 (accumulate src S P sig bet) src = get 0 bet src.
Proof. exact accumulate_source_untouched. Qed.

Theorem C05_accumulate_only_reached_nodes : forall src S P sig bet u,
  ~ In u S -> get 0 (accumulate src S P sig bet) u = get 0 bet u.
Proof. exact accumulate_off_stack. Qed.

(* ---- the model ---- *)
Theorem C05_parallel_eq_serial : forall lw weighted (g : qadj),
  bc_parallel lw weighted g = bc_serial lw weighted g.
Proof. exact parallel_eq_serial. Qed.

Theorem C05_one_entry_per_node : forall (T A : Type) lw (g : gstate T A) weighted normalized m,
  betweenness_centrality lw g weighted normalized = Ok m -> length m = number_of_nodes g.
Proof. intros T A. exact (@betweenness_entries T A). Qed.

(* ---- hop-count mode: the single-source stage `bfs`, for every graph and source ---- *)

Theorem C05_stage_bfs_distances : forall (g : qadj) (src : nat) (s : qs),
  adj_ok (length g) g = true -> (src < length g)%nat -> (forall v, NoDup (map fst (get [] g v))) ->
  bbfs g src = Some s ->
  forall w, dist_spec (unit_z g) src w (oget (dvec s) w).
Proof. intros g src s H1 H2 H3 H4. exact (stage_D g src H1 H2 H3 s H4). Qed.

Theorem C05_stage_bfs_stack : forall (g : qadj) (src : nat) (s : qs),
  adj_ok (length g) g = true -> (src < length g)%nat -> (forall v, NoDup (map fst (get [] g v))) ->
  bbfs g src = Some s ->
  NoDup (qS s) /\ (forall w, In w (qS s) <-> Dn s w <> None) /\
  sorted_by (dval s) (qS s) /\ (forall w, In w (qS s) -> (w < length g)%nat).
Proof. intros g src s H1 H2 H3 H4. exact (stage_S g src H1 H2 H3 s H4). Qed.

Theorem C05_stage_bfs_predecessors : forall (g : qadj) (src : nat) (s : qs),
  adj_ok (length g) g = true -> (src < length g)%nat -> (forall v, NoDup (map fst (get [] g v))) ->
  bbfs g src = Some s ->
  forall w, NoDup (get [] (qP s) w) /\
    forall u, In u (get [] (qP s) w) <-> E g u w /\ exists k, Dn s u = Some k /\ Dn s w = Some (S k).
Proof. intros g src s H1 H2 H3 H4. exact (stage_P g src H1 H2 H3 s H4). Qed.

Theorem C05_stage_bfs_sigma : forall (g : qadj) (src : nat) (s : qs),
  adj_ok (length g) g = true -> (src < length g)%nat -> (forall v, NoDup (map fst (get [] g v))) ->
  bbfs g src = Some s ->
  get 0 (qsig s) src = 1 /\
  forall w, w <> src -> get 0 (qsig s) w == Qsum (map (get 0 (qsig s)) (get [] (qP s) w)).
Proof. intros g src s H1 H2 H3 H4. exact (stage_sigma g src H1 H2 H3 s H4). Qed.

Theorem C05_stage_bfs_total : forall (g : qadj) (src : nat),
  adj_ok (length g) g = true -> (src < length g)%nat -> (forall v, NoDup (map fst (get [] g v))) ->
  exists s, bbfs g src = Some s.
Proof. exact bbfs_total. Qed.

(* ---- accumulation: for any stack without repetitions whose predecessors come first, the loop
   adds to every stack node other than the source the solution of Brandes' recurrence ---- *)
Theorem C05_accumulate_recurrence : forall src S P sig bet,
  NoDup S -> preds_first P S ->
  (forall w, In w S -> NoDup (get [] P w) /\ (forall u, In u (get [] P w) -> (u < length bet)%nat) /\
                       (w < length bet)%nat) ->
  exists D : list Q,
    length D = length bet /\
    (forall v, get 0 D v == Qsum (map (contrib P sig D v) S)) /\
    (forall w, get 0 (accumulate src S P sig bet) w ==
               get 0 bet w + (if nmem w S && negb (Nat.eqb w src) then get 0 D w else 0)).
Proof. exact accumulate_recurrence. Qed.

Theorem C05_bfs_source_contribution_partial : forall (g : qadj) (src : nat) (s : qs),
  adj_ok (length g) g = true -> (src < length g)%nat -> (forall v, NoDup (map fst (get [] g v))) ->
  bbfs g src = Some s ->
  forall bet, length bet = length g ->
  exists D : list Q,
    length D = length bet /\
    (forall v, get 0 D v == Qsum (map (contrib (qP s) (qsig s) D v) (qS s))) /\
    (forall w, get 0 (accumulate src (qS s) (qP s) (qsig s) bet) w ==
               get 0 bet w + (if nmem w (qS s) && negb (Nat.eqb w src) then get 0 D w else 0)).
Proof. intros g src s H1 H2 H3 H4. exact (stage_accumulate g src H1 H2 H3 s H4). Qed.

(* the per-case check of observation kind 53 establishes the row-shape hypothesis above *)
Theorem C05_rows_check_sound : forall g : qadj,
  rows_nodup g = true -> forall v, NoDup (map fst (get [] g v)).
Proof. exact rows_nodup_sound. Qed.

(* ---- hop-count mode, in full ---- *)

(* the enumeration behind the definition is exact: SP s t is, without repetition, the set of
   simple s-t paths with the minimal number of edges *)
Theorem C05_def_shortest_paths_exact : forall (g : qadj),
  adj_ok (length g) g = true -> (forall v, NoDup (map fst (get [] g v))) ->
  (forall v a, In a (get [] g v) -> snd a = 1) ->
  forall s t k, (s < length g)%nat ->
  (exists p0, path_from_to g p0 s t /\ NoDup p0 /\ length p0 = S k) ->
  (forall p, path_from_to g p s t -> (S k <= length p)%nat) ->
  NoDup (spec_sp g s t) /\
  forall p, In p (spec_sp g s t) <-> path_from_to g p s t /\ NoDup p /\ length p = S k.
Proof. exact spec_sp_char. Qed.

(* what one source adds to every node: exactly its row of the definition's double sum *)
Theorem C05_source_contribution : forall (g : qadj) (src : nat),
  adj_ok (length g) g = true -> (src < length g)%nat -> (forall v, NoDup (map fst (get [] g v))) ->
  (forall v a, In a (get [] g v) -> snd a = 1) ->
  forall s, bbfs g src = Some s ->
  forall bet, length bet = length g -> forall v,
  get 0 (accumulate src (qS s) (qP s) (qsig s) bet) v ==
  get 0 bet v + Qsum (map (fun t => pair_term g v src t) (seq 0 (length g))).
Proof. exact source_contribution. Qed.

Theorem C05_brandes_hop_count : forall (g : qadj),
  adj_ok (length g) g = true -> (forall v, NoDup (map fst (get [] g v))) ->
  (forall v a, In a (get [] g v) -> snd a = 1) ->
  forall lw bet normalized directed,
  bc_core lw false g = Some bet ->
  Forall2 Qeq (rescale bet (length g) normalized directed) (bc_def g normalized directed).
Proof. exact brandes_hop_count. Qed.

Theorem C05_model_hop_count : forall (T A : Type) lw (gs : gstate T A) normalized m,
  betweenness_centrality lw gs false normalized = Ok m ->
  exists a, conv_adj false (successors_vec gs) = Some a /\
    (rows_nodup a = true ->
     Forall2 Qeq (map snd m) (bc_def a normalized (directed (sp gs)))).
Proof. intros T A. exact (@model_hop_count T A). Qed.

(* ---- weighted mode: the heap stage finalises the true shortest distances, for every tie choice of the
   BinaryHeap (kept under its round-1 name; it is one part of the full weighted statement below) ---- *)
Theorem C05_stage_dijkstra_distances_partial : forall (g : qadj) (src : nat),
  adj_ok (length g) g = true -> (src < length g)%nat ->
  (forall v e, In e (get [] g v) -> exists c, snd e = inject_Z c /\ (0 < c)%Z) ->
  forall lw s, bdijkstra lw g src = Some s ->
  (forall w, dist_spec (zof g) src w (oget (dz s) w)) /\
  oget (dz s) src = Some 0%Z /\
  (forall w x, oget (dz s) w = Some x -> w <> src -> (0 < x)%Z) /\
  (forall w q, DD s w = Some q -> q = inject_Z (Qnum q)).
Proof. exact dijkstra_distances. Qed.

(* ---- weighted mode: the single-source stage `dijkstra`, for every graph with positive integer costs
   and one entry per neighbour, every source and every tie choice of the heap ---- *)

Theorem C05_stage_dijkstra_stack : forall (g : qadj) (src : nat),
  adj_ok (length g) g = true -> (src < length g)%nat ->
  (forall v e, In e (get [] g v) -> exists c, snd e = inject_Z c /\ (0 < c)%Z) ->
  (forall v, NoDup (map fst (get [] g v))) ->
  forall lw s, bdijkstra lw g src = Some s ->
  NoDup (bS s) /\ (forall w, In w (bS s) <-> DD s w <> None) /\
  sorted_z (dzv s) (bS s) /\ (forall w, In w (bS s) -> (w < length g)%nat).
Proof. exact wstage_S. Qed.

Theorem C05_stage_dijkstra_predecessors : forall (g : qadj) (src : nat),
  adj_ok (length g) g = true -> (src < length g)%nat ->
  (forall v e, In e (get [] g v) -> exists c, snd e = inject_Z c /\ (0 < c)%Z) ->
  (forall v, NoDup (map fst (get [] g v))) ->
  forall lw s, bdijkstra lw g src = Some s ->
  forall w, NoDup (get [] (bP s) w) /\
    forall u, In u (get [] (bP s) w) <->
      exists c du, In (w, inject_Z c) (get [] g u) /\ DD s u = Some (inject_Z du) /\ DD s w = Some (inject_Z (du + c)).
Proof. exact wstage_P. Qed.

(* the doubling quirk: 2 at the source, and the plain recursion everywhere else *)
Theorem C05_stage_dijkstra_sigma : forall (g : qadj) (src : nat),
  adj_ok (length g) g = true -> (src < length g)%nat ->
  (forall v e, In e (get [] g v) -> exists c, snd e = inject_Z c /\ (0 < c)%Z) ->
  (forall v, NoDup (map fst (get [] g v))) ->
  forall lw s, bdijkstra lw g src = Some s ->
  get 0 (bsig s) src == 2 /\
  forall w, w <> src -> get 0 (bsig s) w == Qsum (map (get 0 (bsig s)) (get [] (bP s) w)).
Proof. exact wstage_sigma. Qed.

(* hence sigma[t] = 2 * (number of shortest src-t paths of the definition), for every node t *)
Theorem C05_stage_dijkstra_sigma_counts_paths : forall (g : qadj) (src : nat),
  adj_ok (length g) g = true -> (src < length g)%nat ->
  (forall v e, In e (get [] g v) -> exists c, snd e = inject_Z c /\ (0 < c)%Z) ->
  (forall v, NoDup (map fst (get [] g v))) ->
  forall lw s, bdijkstra lw g src = Some s ->
  forall t, get 0 (bsig s) t == 2 * qn (length (spec_sp g src t)).
Proof. exact sigma_counts_w. Qed.

(* the enumeration behind the definition is exact for positive integer costs: SP s t is, without
   repetition, the set of simple s-t paths of minimal weight *)
Theorem C05_def_shortest_paths_exact_weighted : forall (g : qadj),
  adj_ok (length g) g = true -> (forall v, NoDup (map fst (get [] g v))) ->
  (forall v e, In e (get [] g v) -> exists c, snd e = inject_Z c /\ (0 < c)%Z) ->
  forall s t mz, (s < length g)%nat ->
  (exists p0, path_from_to g p0 s t /\ NoDup p0 /\ pwz g p0 = mz) ->
  (forall p, path_from_to g p s t -> NoDup p -> (mz <= pwz g p)%Z) ->
  NoDup (spec_sp g s t) /\
  forall p, In p (spec_sp g s t) <-> path_from_to g p s t /\ NoDup p /\ pwz g p = mz.
Proof. exact spec_sp_char_w. Qed.

(* Brandes' recurrence does not see a uniform factor on sigma: for any predecessor lists P with a
   rank that increases along them and any sigma with sigma[src] = c0 <> 0, sigma[w] = sum over P[w],
   its right-hand side equals the one written with the path counts N *)
Theorem C05_recurrence_ignores_uniform_sigma_factor :
  forall (n src : nat) (Pl : list (list nat)) (rk : nat -> option nat),
  (src < n)%nat -> rk src <> None ->
  (forall w u, In u (get [] Pl w) -> exists i j, rk u = Some i /\ rk w = Some j /\ (i < j)%nat) ->
  (forall w k, rk w = Some k -> w <> src -> get [] Pl w <> []) ->
  forall (sigl : list Q) (c0 : Q), ~ c0 == 0 -> get 0 sigl src == c0 ->
  (forall w, w <> src -> get 0 sigl w == Qsum (map (fun u => get 0 sigl u) (get [] Pl w))) ->
  forall (X : nat -> Q) (v : nat), rec_rhs n Pl sigl X v == rec_rhsN n src Pl rk X v.
Proof. exact rec_rhs_factor. Qed.

(* what one source adds to every node: exactly its row of the definition's double sum *)
Theorem C05_source_contribution_weighted : forall (g : qadj) (src : nat),
  adj_ok (length g) g = true -> (src < length g)%nat ->
  (forall v e, In e (get [] g v) -> exists c, snd e = inject_Z c /\ (0 < c)%Z) ->
  (forall v, NoDup (map fst (get [] g v))) ->
  forall lw s, bdijkstra lw g src = Some s ->
  forall bet, length bet = length g -> forall v,
  get 0 (accumulate src (bS s) (bP s) (bsig s) bet) v ==
  get 0 bet v + Qsum (map (fun t => pair_term g v src t) (seq 0 (length g))).
Proof. exact source_contribution_w. Qed.

(* the fuel the model passes (2 + |E| + n pops) is never exhausted: every pop either drops a stale
   entry or finalises a node, and a finalised node pushes at most one entry per adjacency entry *)
Theorem C05_stage_dijkstra_total : forall (g : qadj) (src : nat),
  adj_ok (length g) g = true -> (src < length g)%nat ->
  (forall v e, In e (get [] g v) -> exists c, snd e = inject_Z c /\ (0 < c)%Z) ->
  forall lw, exists s, bdijkstra lw g src = Some s.
Proof. exact bdijkstra_total. Qed.

Theorem C05_weighted_total : forall (g : qadj),
  adj_ok (length g) g = true ->
  (forall v e, In e (get [] g v) -> exists c, snd e = inject_Z c /\ (0 < c)%Z) ->
  forall lw, exists bet, bc_core lw true g = Some bet.
Proof. exact weighted_core_total. Qed.

(* ---- weighted mode, in full ---- *)
Theorem C05_brandes_weighted : forall (g : qadj),
  adj_ok (length g) g = true -> (forall v, NoDup (map fst (get [] g v))) ->
  (forall v e, In e (get [] g v) -> exists c, snd e = inject_Z c /\ (0 < c)%Z) ->
  forall lw bet normalized directed,
  bc_core lw true g = Some bet ->
  Forall2 Qeq (rescale bet (length g) normalized directed) (bc_def g normalized directed).
Proof. exact brandes_weighted. Qed.

Theorem C05_model_weighted : forall (T A : Type) lw (gs : gstate T A) normalized m,
  betweenness_centrality lw gs true normalized = Ok m ->
  exists a, conv_adj true (successors_vec gs) = Some a /\
    (rows_nodup a = true -> rows_pos a = true ->
     Forall2 Qeq (map snd m) (bc_def a normalized (directed (sp gs)))).
Proof. intros T A. exact (@model_weighted T A). Qed.

(* the per-case check of observation kind 53 (weighted cases) establishes the positivity hypothesis *)
Theorem C05_rows_pos_check_sound : forall g : qadj,
  rows_pos g = true -> forall v e, In e (get [] g v) -> 0 < snd e.
Proof. exact rows_pos_sound. Qed.

(* the hypotheses are met and both stage and result are as described on a graph where a tentatively
   tied node is later reached along a strictly shorter route (both tie choices of the heap) *)
Theorem C05_weighted_nonvacuous :
  adj_ok (length ex_wg) ex_wg = true /\ rows_nodup ex_wg = true /\ rows_pos ex_wg = true /\
  (forall v e, In e (get [] ex_wg v) -> exists c, snd e = inject_Z c /\ (0 < c)%Z) /\
  (exists s, bdijkstra false ex_wg 0 = Some s /\ bS s = [0; 1; 2; 4; 3; 5]%nat /\ get 0 (bsig s) 3 == 2 /\ get [] (bP s) 3 = [4%nat]) /\
  (exists bet, bc_core false true ex_wg = Some bet /\ get 0 bet 4%nat == 2 /\ get 0 bet 1%nat == 0) /\
  (exists bet, bc_core true true ex_wg = Some bet /\ get 0 bet 4%nat == 2 /\ get 0 bet 1%nat == 0).
Proof. exact ex_weighted_hyps. Qed.

(* ================================================================ END TO END: every reachable graph *)

(* the definition is a function of the arc relation: reordering the entries of the rows does not
   change it, and two adjacencies with one entry per neighbour and the same entries agree *)
Theorem C05_def_row_order_irrelevant : forall (a a' : qadj) normalized directed,
  length a = length a' -> (forall v, Permutation (get [] a v) (get [] a' v)) ->
  bc_def a normalized directed = bc_def a' normalized directed.
Proof. exact bc_def_rows_perm. Qed.

Theorem C05_def_depends_on_arcs_only : forall (a a' : qadj) normalized directed,
  length a = length a' ->
  (forall v, NoDup (map fst (get [] a v))) -> (forall v, NoDup (map fst (get [] a' v))) ->
  (forall v e, In e (get [] a v) <-> In e (get [] a' v)) ->
  bc_def a normalized directed = bc_def a' normalized directed.
Proof. exact bc_def_arcs_only. Qed.

(* the hop-count core never runs out of fuel either (weighted: C05_weighted_total) *)
Theorem C05_hop_count_total : forall (g : qadj),
  adj_ok (length g) g = true -> (forall v, NoDup (map fst (get [] g v))) ->
  forall lw, exists bet, bc_core lw false g = Some bet.
Proof. exact hop_core_total. Qed.

Section Reachable.
  Context {T A : Type}.
  Variable teqb : T -> T -> bool.
  Variable tltb : T -> T -> bool.
  Hypothesis teqb_spec : forall x y, teqb x y = true <-> x = y.
  Hypothesis tltb_asym : forall x y, tltb x y = true -> tltb y x = false.
  Hypothesis tltb_total : forall x y, tltb x y = false -> tltb y x = false -> x = y.
  Notation gstate := (gstate T A).
  Notation WF := (@WF T A teqb tltb).

  (* what "a is the edge-store graph of g" says *)
  Theorem C05_edge_store_adj_meaning : forall (g : gstate) weighted (a : qadj),
    edge_store_adj teqb g weighted a <->
    length a = number_of_nodes g /\
    (forall i, NoDup (map fst (get [] a i))) /\
    (forall i j q, In (j, q) (get [] a i) <-> exists c, q = inject_Z c /\ edge_arc teqb g weighted i j c).
  Proof. intros. reflexivity. Qed.

  (* the adjacency the algorithm reads IS the edge-store graph *)
  Theorem C05_traversal_graph_is_edge_store : forall (g : gstate) weighted (a : qadj),
    WF g -> conv_adj weighted (successors_vec g) = Some a ->
    length a = number_of_nodes g /\
    (forall i, NoDup (map fst (get [] a i))) /\
    (forall i j q, In (j, q) (get [] a i) <-> exists c, q = inject_Z c /\ edge_arc teqb g weighted i j c).
  Proof. exact (conv_adj_edge_store teqb tltb teqb_spec tltb_total). Qed.

  (* weighted mode: the cost of an arc is THE minimum stored weight of the pair *)
  Theorem C05_arc_cost_is_min_weight : forall (g : gstate) i j x y,
    WF g -> name_at g i = Some x -> name_at g j = Some y -> between teqb g x y <> [] ->
    (forall e, In e (between teqb g x y) -> exists z, ew e = Some z) ->
    exists c, edge_arc teqb g true i j c /\
              (exists e, In e (between teqb g x y) /\ ew e = Some c) /\
              (forall e z, In e (between teqb g x y) -> ew e = Some z -> (c <= z)%Z) /\
              forall c', edge_arc teqb g true i j c' -> c' = c.
  Proof. exact (edge_arc_min_weight teqb tltb teqb_spec tltb_total). Qed.

  (* every hypothesis of C05_model_hop_count / C05_model_weighted follows from WF (and, in weighted
     mode, from "every stored weight is a positive real") *)
  Theorem C05_WF_gives_model_hypotheses : forall (g : gstate) weighted,
    WF g -> (weighted = true -> weights_real_positive g) ->
    exists a, conv_adj weighted (successors_vec g) = Some a /\
              edge_store_adj teqb g weighted a /\
              adj_ok (number_of_nodes g) a = true /\
              rows_nodup a = true /\
              (weighted = true -> rows_pos a = true).
  Proof. exact (brandes_hypotheses_WF teqb tltb teqb_spec tltb_total). Qed.

  (* END TO END.  For every coherent state, every tie choice [lw] of the BinaryHeap, both modes and
     both scalings: the call returns Ok — no error, no panic, fuel never exhausted — one entry per
     node in node order, and the values are those of the definition [bc_def] (fraction of the
     shortest s-t paths through v, summed over ordered pairs, shortest = minimal total cost, with
     the rescaling rules) on the EDGE-STORE GRAPH [a]: one row per node, one entry per neighbour,
     (j, c) in row i iff an edge is stored between the i-th and the j-th node (either orientation
     when undirected) and c is 1 (hop count) / the minimum stored weight of the pair (weighted). *)
  Theorem C05_betweenness_WF : forall (g : gstate) lw weighted normalized,
    WF g ->
    (weighted = true -> forall e, In e (get_all_edges g) -> exists z, ew e = Some z /\ (0 < z)%Z) ->
    exists m a,
      betweenness_centrality lw g weighted normalized = Ok m /\
      map fst m = names g /\
      length a = number_of_nodes g /\
      (forall i, NoDup (map fst (get [] a i))) /\
      (forall i j q, In (j, q) (get [] a i) <-> exists c, q = inject_Z c /\ edge_arc teqb g weighted i j c) /\
      Forall2 Qeq (map snd m) (bc_def a normalized (directed (sp g))).
  Proof.
    intros g lw weighted normalized W Hpos.
    destruct (betweenness_WF teqb tltb teqb_spec tltb_total g lw weighted normalized W Hpos) as [m [a [H1 [H2 [_ [H3 H4]]]]]].
    exists m, a. split; [exact H1|]. split; [exact H2|]. destruct H3 as [L [N M]]. auto.
  Qed.

  (* ... and the value does not depend on which adjacency is used to write the edge-store graph down *)
  Theorem C05_betweenness_WF_any_adjacency : forall (g : gstate) lw weighted normalized,
    WF g -> (weighted = true -> weights_real_positive g) ->
    exists m,
      betweenness_centrality lw g weighted normalized = Ok m /\
      map fst m = names g /\
      forall a, edge_store_adj teqb g weighted a ->
                Forall2 Qeq (map snd m) (bc_def a normalized (directed (sp g))).
  Proof. exact (betweenness_WF_any_adj teqb tltb teqb_spec tltb_total). Qed.

  (* hence for every state reached by any history of mutations from Graph::new(specs) ... *)
  Corollary C05_betweenness_reachable : forall (s : specs) (g : gstate) lw weighted normalized,
    reachable teqb tltb s g ->
    (weighted = true -> forall e, In e (get_all_edges g) -> exists z, ew e = Some z /\ (0 < z)%Z) ->
    exists m a,
      betweenness_centrality lw g weighted normalized = Ok m /\
      map fst m = names g /\
      length a = number_of_nodes g /\
      (forall i, NoDup (map fst (get [] a i))) /\
      (forall i j q, In (j, q) (get [] a i) <-> exists c, q = inject_Z c /\ edge_arc teqb g weighted i j c) /\
      Forall2 Qeq (map snd m) (bc_def a normalized (directed s)).
  Proof.
    intros s g lw weighted normalized R.
    rewrite <- (reachable_sp teqb tltb teqb_spec tltb_asym tltb_total s g R).
    apply C05_betweenness_WF. exact (WF_reachable teqb tltb teqb_spec tltb_asym tltb_total s g R).
  Qed.

  (* ... and for every graph returned by the constructor *)
  Corollary C05_betweenness_constructed : forall ns es (s : specs) (g : gstate) lw weighted normalized,
    new_from_nodes_and_edges teqb tltb ns es s = Ok g ->
    (weighted = true -> forall e, In e (get_all_edges g) -> exists z, ew e = Some z /\ (0 < z)%Z) ->
    exists m a,
      betweenness_centrality lw g weighted normalized = Ok m /\
      map fst m = names g /\
      length a = number_of_nodes g /\
      (forall i, NoDup (map fst (get [] a i))) /\
      (forall i j q, In (j, q) (get [] a i) <-> exists c, q = inject_Z c /\ edge_arc teqb g weighted i j c) /\
      Forall2 Qeq (map snd m) (bc_def a normalized (directed s)).
  Proof.
    intros ns es s g lw weighted normalized H.
    exact (C05_betweenness_reachable s g lw weighted normalized (new_from_reachable teqb tltb teqb_spec ns es s g H)).
  Qed.

  (* two coherent states with the same node list, the same kind and the same edge-store arcs have
     the same betweenness (same keys in the same order, values equal as rationals), whatever the
     tie choices *)
  Theorem C05_betweenness_depends_on_arcs_only : forall (g1 g2 : gstate) lw1 lw2 weighted normalized m1 m2,
    WF g1 -> WF g2 ->
    (weighted = true -> weights_real_positive g1) -> (weighted = true -> weights_real_positive g2) ->
    names g1 = names g2 -> directed (sp g1) = directed (sp g2) ->
    (forall i j c, edge_arc teqb g1 weighted i j c <-> edge_arc teqb g2 weighted i j c) ->
    betweenness_centrality lw1 g1 weighted normalized = Ok m1 ->
    betweenness_centrality lw2 g2 weighted normalized = Ok m2 ->
    map fst m1 = map fst m2 /\ Forall2 Qeq (map snd m1) (map snd m2).
  Proof. exact (betweenness_arcs_only teqb tltb teqb_spec tltb_total). Qed.
End Reachable.

(* non-vacuity: a directed graph under the KeepLast policy, built by a history that adds 1->2 (5),
   2->3 (1), 1->3 (3) and then REPLACES the weight of 1->2 by 1, is reachable with positive real
   weights; before the replacement node 2 lies on no shortest path (3 < 5+1), after it on the only
   shortest 1-3 path (1+1 < 3): betweenness 0 -> 1 (1/2 normalized), for both tie choices; the
   edge-store graph is [[(1,1);(2,3)];[(2,1)];[]] and the definition gives [0;1;0] on it *)
Theorem C05_reachable_nonvacuous :
  reachable Z.eqb Z.ltb bw_specs bw_g /\ weights_real_positive bw_g /\
  get_all_edges bw_g_before =
    [mkedge 1%Z 2%Z (Some 5%Z) None; mkedge 2%Z 3%Z (Some 1%Z) None; mkedge 1%Z 3%Z (Some 3%Z) None] /\
  get_all_edges bw_g =
    [mkedge 1%Z 2%Z (Some 1%Z) None; mkedge 2%Z 3%Z (Some 1%Z) None; mkedge 1%Z 3%Z (Some 3%Z) None] /\
  betweenness_centrality false bw_g_before true false = Ok [(1%Z, 0); (2%Z, 0); (3%Z, 0)] /\
  betweenness_centrality false bw_g true false = Ok [(1%Z, 0); (2%Z, 1); (3%Z, 0)] /\
  betweenness_centrality true bw_g true true = Ok [(1%Z, 0); (2%Z, 1 # 2); (3%Z, 0)] /\
  edge_store_adj Z.eqb bw_g true [[(1%nat, 1); (2%nat, 3)]; [(2%nat, 1)]; []] /\
  bc_def [[(1%nat, 1); (2%nat, 3)]; [(2%nat, 1)]; []] false true = [0; 1; 0].
Proof. exact betweenness_reachable_nonvacuous. Qed.
