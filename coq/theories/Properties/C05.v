(* Property C05 — betweenness centrality equals its definition.  Only pinned
   statements; proofs live in Proofs/BrandesOk.v.  Repeated in coq/pins/C05.v
   and re-checked on every run.

   HOP-COUNT MODE IS PROVED IN FULL, for every graph (C05_brandes_hop_count,
   C05_model_hop_count): the vector computed by the transcribed BFS stage, the accumulation
   over all sources (serial or rayon path) and the rescaling equals [bc_def] — the sum over
   ordered pairs (s,t), s <> v <> t, of the fraction of the shortest s-t paths (brute-force
   enumeration of simple paths, those of minimal length) that pass through v, halved when
   undirected and raw, divided by (n-1)(n-2) when normalized and n > 2.  Hypotheses: the
   adjacency read by the algorithm has indexes in range (checked by the model itself) and
   lists each neighbour once per row (the shape of successors_vec; checked per case,
   observation 53, and sound by C05_rows_check_sound).
   WEIGHTED MODE (heap stage with the sigma-doubling quirk): the statement
     forall g (positive costs), bc_core lw true g = Some bet ->
       Forall2 Qeq (rescale bet n normalized directed) (bc_def g normalized directed)
   is NOT proved; it is validated per generated graph inside Coq in exact rationals
   (observation 52; [bc_def_tab] is the definition by C05_def_executed_form), and the heap's
   tie choice is checked to be unobservable per case (observation 51). *)
From Coq Require Import String List Bool ZArith Arith QArith.
From GV Require Import Base.Outcome Base.AMap Model.GState Model.Query Model.Cent Model.Brandes.
From GV Require Import Spec.BetweennessDef Spec.ClosenessDef Proofs.BrandesOk Proofs.BrandesAccOk Proofs.ClosenessBfsOk Proofs.BrandesBfsOk Proofs.PathsOk Proofs.BrandesLemma Proofs.BrandesLemma2 Proofs.BrandesFull Proofs.DijkstraOk.
Import ListNotations.

(* ---- the definition ---- *)
Theorem C05_def_endpoints_never_count : forall (g : qadj) v s t,
  s = v \/ t = v \/ s = t -> pair_term g v s t = 0.
Proof. exact pair_term_endpoint. Qed.

Theorem C05_def_shortest_paths_are_paths : forall (g : qadj) s t p,
  In p (spec_sp g s t) -> path_from_to g p s t.
Proof. exact spec_sp_sound. Qed.

Theorem C05_def_unreachable_pairs_contribute_nothing : forall (g : qadj) v s t,
  (forall p, ~ path_from_to g p s t) -> pair_term g v s t = 0.
Proof. exact pair_term_unreachable. Qed.

Theorem C05_def_at_most_two_nodes_all_zero : forall (g : qadj) normalized directed,
  (length g <= 2)%nat -> Forall (fun x => x == 0) (bc_def g normalized directed).
Proof. exact bc_def_small. Qed.

Theorem C05_def_one_value_per_node : forall (g : qadj) normalized directed,
  length (bc_def g normalized directed) = length g.
Proof. exact bc_def_length. Qed.

(* the table-sharing form evaluated per case (kind 52) is the definition *)
Theorem C05_def_executed_form : forall (g : qadj) normalized directed,
  bc_def_tab g normalized directed = bc_def g normalized directed.
Proof. exact bc_def_tab_eq. Qed.

(* ---- rescaling: the four cases of get_scale are the rules of the property text ---- *)
Theorem C05_get_scale_cases : forall n normalized directed,
  get_scale n normalized directed =
  match normalized, directed with
  | true, _ => if Nat.leb n 2 then None else Some (1 / ((qn n - 1) * (qn n - 2)))
  | false, true => None
  | false, false => Some (1 # 2)
  end.
Proof. exact get_scale_cases. Qed.

Theorem C05_rescale : forall bet n normalized directed,
  Forall2 Qeq (rescale bet n normalized directed) (map (bc_scale n normalized directed) bet).
Proof. exact rescale_is_bc_scale. Qed.

(* ---- accumulation: the source's own entry is never touched; nodes off the stack neither ---- *)
Theorem C05_accumulate_excludes_source : forall src S P sig bet,
  get 0 (accumulate src S P sig bet) src = get 0 bet src.
Proof. exact accumulate_source_untouched. Qed.

Theorem C05_accumulate_only_reached_nodes : forall src S P sig bet u,
  ~ In u S -> get 0 (accumulate src S P sig bet) u = get 0 bet u.
Proof. exact accumulate_off_stack. Qed.

(* ---- the model ---- *)
Theorem C05_parallel_eq_serial : forall lw weighted (g : qadj),
  bc_parallel lw weighted g = bc_serial lw weighted g.
Proof. exact parallel_eq_serial. Qed.

Theorem C05_one_entry_per_node : forall (T A : Type) lw (g : gstate T A) weighted normalized m,
  betweenness_centrality lw g weighted normalized = Ok m -> length m = number_of_nodes g.
Proof. intros T A. exact (@betweenness_entries T A). Qed.

(* ---- hop-count mode: the single-source stage `bfs`, for every graph and source ---- *)

Theorem C05_stage_bfs_distances : forall (g : qadj) (src : nat) (s : qs),
  adj_ok (length g) g = true -> (src < length g)%nat -> (forall v, NoDup (map fst (get [] g v))) ->
  bbfs g src = Some s ->
  forall w, dist_spec (unit_z g) src w (oget (dvec s) w).
Proof. intros g src s H1 H2 H3 H4. exact (stage_D g src H1 H2 H3 s H4). Qed.

Theorem C05_stage_bfs_stack : forall (g : qadj) (src : nat) (s : qs),
  adj_ok (length g) g = true -> (src < length g)%nat -> (forall v, NoDup (map fst (get [] g v))) ->
  bbfs g src = Some s ->
  NoDup (qS s) /\ (forall w, In w (qS s) <-> Dn s w <> None) /\
  sorted_by (dval s) (qS s) /\ (forall w, In w (qS s) -> (w < length g)%nat).
Proof. intros g src s H1 H2 H3 H4. exact (stage_S g src H1 H2 H3 s H4). Qed.

Theorem C05_stage_bfs_predecessors : forall (g : qadj) (src : nat) (s : qs),
  adj_ok (length g) g = true -> (src < length g)%nat -> (forall v, NoDup (map fst (get [] g v))) ->
  bbfs g src = Some s ->
  forall w, NoDup (get [] (qP s) w) /\
    forall u, In u (get [] (qP s) w) <-> E g u w /\ exists k, Dn s u = Some k /\ Dn s w = Some (S k).
Proof. intros g src s H1 H2 H3 H4. exact (stage_P g src H1 H2 H3 s H4). Qed.

Theorem C05_stage_bfs_sigma : forall (g : qadj) (src : nat) (s : qs),
  adj_ok (length g) g = true -> (src < length g)%nat -> (forall v, NoDup (map fst (get [] g v))) ->
  bbfs g src = Some s ->
  get 0 (qsig s) src = 1 /\
  forall w, w <> src -> get 0 (qsig s) w == Qsum (map (get 0 (qsig s)) (get [] (qP s) w)).
Proof. intros g src s H1 H2 H3 H4. exact (stage_sigma g src H1 H2 H3 s H4). Qed.

Theorem C05_stage_bfs_total : forall (g : qadj) (src : nat),
  adj_ok (length g) g = true -> (src < length g)%nat -> (forall v, NoDup (map fst (get [] g v))) ->
  exists s, bbfs g src = Some s.
Proof. exact bbfs_total. Qed.

(* ---- accumulation: for any stack without repetitions whose predecessors come first, the loop
   adds to every stack node other than the source the solution of Brandes' recurrence ---- *)
Theorem C05_accumulate_recurrence : forall src S P sig bet,
  NoDup S -> preds_first P S ->
  (forall w, In w S -> NoDup (get [] P w) /\ (forall u, In u (get [] P w) -> (u < length bet)%nat) /\
                       (w < length bet)%nat) ->
  exists D : list Q,
    length D = length bet /\
    (forall v, get 0 D v == Qsum (map (contrib P sig D v) S)) /\
    (forall w, get 0 (accumulate src S P sig bet) w ==
               get 0 bet w + (if nmem w S && negb (Nat.eqb w src) then get 0 D w else 0)).
Proof. exact accumulate_recurrence. Qed.

Theorem C05_bfs_source_contribution_partial : forall (g : qadj) (src : nat) (s : qs),
  adj_ok (length g) g = true -> (src < length g)%nat -> (forall v, NoDup (map fst (get [] g v))) ->
  bbfs g src = Some s ->
  forall bet, length bet = length g ->
  exists D : list Q,
    length D = length bet /\
    (forall v, get 0 D v == Qsum (map (contrib (qP s) (qsig s) D v) (qS s))) /\
    (forall w, get 0 (accumulate src (qS s) (qP s) (qsig s) bet) w ==
               get 0 bet w + (if nmem w (qS s) && negb (Nat.eqb w src) then get 0 D w else 0)).
Proof. intros g src s H1 H2 H3 H4. exact (stage_accumulate g src H1 H2 H3 s H4). Qed.

(* the per-case check of observation kind 53 establishes the row-shape hypothesis above *)
Theorem C05_rows_check_sound : forall g : qadj,
  rows_nodup g = true -> forall v, NoDup (map fst (get [] g v)).
Proof. exact rows_nodup_sound. Qed.

(* ---- hop-count mode, in full ---- *)

(* the enumeration behind the definition is exact: SP s t is, without repetition, the set of
   simple s-t paths with the minimal number of edges *)
Theorem C05_def_shortest_paths_exact : forall (g : qadj),
  adj_ok (length g) g = true -> (forall v, NoDup (map fst (get [] g v))) ->
  (forall v a, In a (get [] g v) -> snd a = 1) ->
  forall s t k, (s < length g)%nat ->
  (exists p0, path_from_to g p0 s t /\ NoDup p0 /\ length p0 = S k) ->
  (forall p, path_from_to g p s t -> (S k <= length p)%nat) ->
  NoDup (spec_sp g s t) /\
  forall p, In p (spec_sp g s t) <-> path_from_to g p s t /\ NoDup p /\ length p = S k.
Proof. exact spec_sp_char. Qed.

(* what one source adds to every node: exactly its row of the definition's double sum *)
Theorem C05_source_contribution : forall (g : qadj) (src : nat),
  adj_ok (length g) g = true -> (src < length g)%nat -> (forall v, NoDup (map fst (get [] g v))) ->
  (forall v a, In a (get [] g v) -> snd a = 1) ->
  forall s, bbfs g src = Some s ->
  forall bet, length bet = length g -> forall v,
  get 0 (accumulate src (qS s) (qP s) (qsig s) bet) v ==
  get 0 bet v + Qsum (map (fun t => pair_term g v src t) (seq 0 (length g))).
Proof. exact source_contribution. Qed.

Theorem C05_brandes_hop_count : forall (g : qadj),
  adj_ok (length g) g = true -> (forall v, NoDup (map fst (get [] g v))) ->
  (forall v a, In a (get [] g v) -> snd a = 1) ->
  forall lw bet normalized directed,
  bc_core lw false g = Some bet ->
  Forall2 Qeq (rescale bet (length g) normalized directed) (bc_def g normalized directed).
Proof. exact brandes_hop_count. Qed.

Theorem C05_model_hop_count : forall (T A : Type) lw (gs : gstate T A) normalized m,
  betweenness_centrality lw gs false normalized = Ok m ->
  exists a, conv_adj false (successors_vec gs) = Some a /\
    (rows_nodup a = true ->
     Forall2 Qeq (map snd m) (bc_def a normalized (directed (sp gs)))).
Proof. intros T A. exact (@model_hop_count T A). Qed.

(* ---- weighted mode, partial: the heap stage finalises the true shortest distances, for every
   tie choice of the BinaryHeap (what is missing for the full weighted statement: the P / sigma
   part of the stage invariant with the uniform factor 2, and Brandes' lemma for weighted
   shortest-path DAGs) ---- *)
Theorem C05_stage_dijkstra_distances_partial : forall (g : qadj) (src : nat),
  adj_ok (length g) g = true -> (src < length g)%nat ->
  (forall v e, In e (get [] g v) -> exists c, snd e = inject_Z c /\ (0 < c)%Z) ->
  forall lw s, bdijkstra lw g src = Some s ->
  (forall w, dist_spec (zof g) src w (oget (dz s) w)) /\
  oget (dz s) src = Some 0%Z /\
  (forall w x, oget (dz s) w = Some x -> w <> src -> (0 < x)%Z) /\
  (forall w q, DD s w = Some q -> q = inject_Z (Qnum q)).
Proof. exact dijkstra_distances. Qed.
