(* Property C06 — closeness centrality equals its definition.  Only pinned
   statements; proofs live in Proofs/ClosenessOk.v.  Repeated in coq/pins/C06.v
   and re-checked on every run.

   BOTH SEARCH LOOPS OF THE MODEL ARE PROVED CORRECT BY LOOP INVARIANT, for every graph and
   every source: the level-synchronous BFS of hop-count mode (Proofs/ClosenessBfsOk.v; also:
   its fuel is never exhausted) and the heap search of weighted mode (Proofs/DijkstraOk.v;
   positive integer weights, EVERY tie choice of the BinaryHeap) return exactly the reachable
   nodes with their shortest distances; with the exactly proved formula stage the value the
   model reports is the closeness (theorems C06_bfs_..., C06_hop_count_..., C06_dijkstra_...,
   C06_weighted_...).
   In addition a VERIFIED CHECKER is evaluated on every generated case: [check_dist] on the
   distance list of every source (observation kind 62; it also checks that every weight is
   positive) and [check_transpose] on the searched adjacency (kind 63).
   Round 2: the two facts about graph construction that were per-case only (kind 63) are PROVED
   from the coherence invariant WF (Proofs/ClosenessStateOk.v): the successors_vec of `reverse()`
   is the transpose of the source's (its rows are, up to the order of their entries, the source's
   predecessors_vec rows), and the successors_vec of an undirected graph is symmetric; the fuel
   of the weighted loop is never exhausted (Proofs/DijkstraFuelOk.v); and END TO END
   (C06_closeness_reachable): for every reachable graph the model's closeness_centrality returns
   Ok, one entry per node in node order, each value being the closeness of the definition over
   the adjacency read off get_all_edges (INCOMING distances when directed; an undirected graph's
   edge-list adjacency is symmetric, so ordinary distances: C06_closeness_undirected_reachable).
   Observation 63 is kept as a per-case tie between model and code. *)
From Coq Require Import List Bool ZArith Arith QArith.
From GV Require Import Base.Outcome Base.AMap Model.GState Model.Query Model.Derived Model.Cent Model.Brandes Model.Closeness.
From GV Require Import Spec.History Spec.ClosenessDef Proofs.WFDefs Proofs.HistoryOk Proofs.ClosenessOk
     Proofs.ClosenessBfsOk Proofs.DijkstraOk Proofs.DijkstraFuelOk Proofs.ClosenessStateOk.
Import ListNotations.

(* a vector accepted by the checker holds, for every node, the true shortest
   distance from the source (None = unreachable): any adjacency, any vector *)
Theorem C06_check_dist_sound : forall (a : zadj) (s : nat) (d : list (option Z)),
  check_dist a s d = true -> forall w, dist_spec a s w (oget d w).
Proof. exact check_dist_sound. Qed.

(* an adjacency accepted as the transpose is the transpose *)
Theorem C06_check_transpose_sound : forall a0 b : zadj,
  check_transpose a0 b = true ->
  forall v w c, In (w, c) (zrow a0 v) <-> In (v, c) (zrow b w).
Proof. exact check_transpose_sound. Qed.

(* searching the transposed adjacency from u yields the distances of paths ARRIVING at u *)
Theorem C06_reverse_gives_incoming : forall a0 b : zadj,
  (forall v w c, In (w, c) (zrow a0 v) <-> In (v, c) (zrow b w)) ->
  forall u v o, dist_spec b u v o -> dist_spec a0 v u o.
Proof. exact dist_spec_transposed. Qed.

(* the formula stage: on a distance list that holds 0 for the source and positive
   values elsewhere, get_node_centrality returns (r-1)/tot, times (r-1)/(n-1) with
   wf_improved, and 0 when r <= 1 or n <= 1; it never panics *)
Theorem C06_formula : forall (sp : list (nat * Q)) (n : nat) (wf : bool) (d : list (option Z)) (s : nat),
  dvec_of n sp = Some d ->
  oget d s = Some 0%Z ->
  (forall w x, oget d w = Some x -> w <> s -> (0 < x)%Z) ->
  exists cc, get_node_centrality sp n wf = Ok cc /\
             cc == closeness_val n (count_some d) (inject_Z (sum_some d)) wf.
Proof. exact formula_stage. Qed.

(* checker + formula: the value computed from a checked distance list is the closeness
   (incoming distances) of the source node in the graph with adjacency a0 *)
Theorem C06_checked : forall (a0 za : zadj) (sp : list (nat * Q)) (d : list (option Z)) (src : nat) (wf : bool),
  dvec_of (length za) sp = Some d ->
  check_dist za src d = true ->
  check_transpose a0 za = true ->
  exists cc, get_node_centrality sp (length za) wf = Ok cc /\ is_closeness a0 src wf cc.
Proof. exact closeness_checked. Qed.

(* ... and that is the value the model's per-node function reports *)
Theorem C06_model_value_checked : forall (T A : Type) lw weighted wf (tg : gstate T A) a (a0 za : zadj) src nm cc sp d,
  closeness_one lw weighted wf tg a (length za) src = Ok (nm, cc) ->
  sssp lw weighted a src = Some sp ->
  dvec_of (length za) sp = Some d ->
  check_dist za src d = true ->
  check_transpose a0 za = true ->
  is_closeness a0 src wf cc.
Proof. intros T A. exact (@model_value_checked T A). Qed.

Theorem C06_one_entry_per_node : forall (T A : Type) (teqb tltb : T -> T -> bool) lw (g : gstate T A) weighted wf m,
  closeness_centrality teqb tltb lw g weighted wf = Ok m ->
  exists tg, (if directed (sp g) then reverse teqb tltb g = Ok tg else tg = g) /\
             length m = number_of_nodes tg.
Proof. intros T A. exact (@closeness_entries T A). Qed.

(* ---- hop-count mode: the model's own BFS loop, for every graph and source ---- *)

(* the returned list holds exactly the nodes reachable from src, each once, with its hop distance *)
Theorem C06_bfs_distances : forall (g : qadj) (src : nat) (sp : list (nat * Q)),
  adj_ok (length g) g = true -> (src < length g)%nat ->
  sssp_unweighted g src = Some sp ->
  forall w z, In (w, inject_Z z) sp <-> is_dist (unit_z g) src w z.
Proof. intros g src sp H1 H2 H3. exact (bfs_distances g src H1 H2 sp H3). Qed.

Theorem C06_bfs_entries_wellformed : forall (g : qadj) (src : nat) (sp : list (nat * Q)),
  adj_ok (length g) g = true -> (src < length g)%nat ->
  sssp_unweighted g src = Some sp ->
  NoDup (map fst sp) /\ forall v q, In (v, q) sp -> exists z, q = inject_Z z.
Proof. intros g src sp H1 H2 H3. exact (bfs_entries_wellformed g src H1 H2 sp H3). Qed.

(* the fuel passed by the model is never exhausted *)
Theorem C06_bfs_total : forall (g : qadj) (src : nat),
  adj_ok (length g) g = true -> (src < length g)%nat ->
  exists sp, sssp_unweighted g src = Some sp.
Proof. exact sssp_unweighted_total. Qed.

(* BFS + formula: the hop-count closeness of src in the graph whose adjacency a0 is the
   transpose of the searched one *)
Theorem C06_hop_count_closeness : forall (g : qadj) (src : nat) (sp : list (nat * Q)),
  adj_ok (length g) g = true -> (src < length g)%nat ->
  sssp_unweighted g src = Some sp ->
  forall (a0 : zadj) wf,
  (forall v w c, In (w, c) (zrow a0 v) <-> In (v, c) (zrow (unit_z g) w)) -> length a0 = length g ->
  exists cc, get_node_centrality sp (length g) wf = Ok cc /\ is_closeness a0 src wf cc.
Proof. intros g src sp H1 H2 H3. exact (bfs_closeness g src H1 H2 sp H3). Qed.

Theorem C06_hop_count_model_value : forall (T A : Type) lw wf (tg : gstate T A) (a : qadj) (a0 : zadj) src nm cc,
  adj_ok (length a) a = true -> (src < length a)%nat ->
  closeness_one lw false wf tg a (length a) src = Ok (nm, cc) ->
  (forall v w c, In (w, c) (zrow a0 v) <-> In (v, c) (zrow (unit_z a) w)) -> length a0 = length a ->
  is_closeness a0 src wf cc.
Proof. intros T A. exact (@hop_model_value T A). Qed.

Theorem C06_hop_count_no_fuel_exhaustion : forall (T A : Type) lw wf (tg : gstate T A) (a : qadj) src,
  adj_ok (length a) a = true -> (src < length a)%nat ->
  closeness_one lw false wf tg a (length a) src <> OutOfFuel.
Proof. intros T A. exact (@hop_model_no_fuel_exhaustion T A). Qed.

(* ---- weighted mode: the model's heap search, for every graph, source and heap tie choice ---- *)

Theorem C06_dijkstra_distances : forall (g : qadj) (src : nat),
  adj_ok (length g) g = true -> (src < length g)%nat ->
  (forall v e, In e (get [] g v) -> exists c, snd e = inject_Z c /\ (0 < c)%Z) ->
  forall lw sp, sssp_weighted lw g src = Some sp ->
  forall w z, In (w, inject_Z z) sp <-> is_dist (zof g) src w z.
Proof. exact sssp_weighted_distances. Qed.

Theorem C06_weighted_closeness : forall (g : qadj) (src : nat),
  adj_ok (length g) g = true -> (src < length g)%nat ->
  (forall v e, In e (get [] g v) -> exists c, snd e = inject_Z c /\ (0 < c)%Z) ->
  forall lw sp (a0 : zadj) wf,
  sssp_weighted lw g src = Some sp ->
  (forall v w c, In (w, c) (zrow a0 v) <-> In (v, c) (zrow (zof g) w)) -> length a0 = length g ->
  exists cc, get_node_centrality sp (length g) wf = Ok cc /\ is_closeness a0 src wf cc.
Proof. exact weighted_closeness. Qed.

Theorem C06_weighted_model_value : forall (T A : Type) lw wf (tg : gstate T A) (a : qadj) (a0 : zadj) src nm cc,
  adj_ok (length a) a = true -> (src < length a)%nat ->
  (forall v e, In e (get [] a v) -> exists c, snd e = inject_Z c /\ (0 < c)%Z) ->
  closeness_one lw true wf tg a (length a) src = Ok (nm, cc) ->
  (forall v w c, In (w, c) (zrow a0 v) <-> In (v, c) (zrow (zof a) w)) -> length a0 = length a ->
  is_closeness a0 src wf cc.
Proof. intros T A. exact (@weighted_model_value T A). Qed.

(* the integer view of the weighted adjacency used above is the one the checkers run on *)
Theorem C06_integer_view : forall sv a za,
  conv_adj true sv = Some a -> zconv_adj true sv = Some za -> zof a = za.
Proof. exact zof_conv_adj. Qed.

(* ---------------------------------------------------------------------------------------------
   Round 2.  [sv_entry g i j w]: (j, w) is listed in row i of successors_vec; [pv_entry g j i w]:
   (i, w) is listed in row j of predecessors_vec; [weights_transposable g]: single-edge graph, or
   all stored weights real (the traversal weight of a group is then independent of the order of
   the group: the one edge's weight / the minimum).
   --------------------------------------------------------------------------------------------- *)

(* the weighted search always returns: the fuel 2 + |E| + |V| is never exhausted (no hypothesis
   on the costs, every tie choice of the heap) *)
Theorem C06_dijkstra_total : forall (g : qadj) (lw : bool) (src : nat),
  adj_ok (length g) g = true -> (src < length g)%nat ->
  exists sp, sssp_weighted lw g src = Some sp.
Proof. intros g lw src Hok Hsrc. exact (sssp_weighted_total g Hok lw src Hsrc). Qed.

Theorem C06_weighted_no_fuel_exhaustion : forall (T A : Type) lw wf (tg : gstate T A) (a : qadj) src,
  adj_ok (length a) a = true -> (src < length a)%nat ->
  closeness_one lw true wf tg a (length a) src <> OutOfFuel.
Proof. intros T A. exact (@weighted_model_no_fuel_exhaustion T A). Qed.

Section C06_state.
  Context {T A : Type}.
  Variable teqb : T -> T -> bool.
  Variable tltb : T -> T -> bool.
  Hypothesis teqb_spec : forall x y, teqb x y = true <-> x = y.
  Hypothesis tltb_asym : forall x y, tltb x y = true -> tltb y x = false.
  Hypothesis tltb_total : forall x y, tltb x y = false -> tltb y x = false -> x = y.

  (* predecessors_vec is the transpose of successors_vec, weights included *)
  Theorem C06_predecessors_transpose_successors : forall (g : gstate T A) i j w,
    WF teqb tltb g -> directed (sp g) = true -> (pv_entry g j i w <-> sv_entry g i j w).
  Proof. exact (predecessors_transpose_successors teqb tltb teqb_spec). Qed.

  (* reverse(): the traversal adjacency of the result is the transpose of the source's ... *)
  Theorem C06_reverse_transposes_pairs : forall (g h : gstate T A),
    WF teqb tltb g -> directed (sp g) = true -> reverse teqb tltb g = Ok h ->
    forall i j, (exists w, sv_entry h j i w) <-> (exists w, sv_entry g i j w).
  Proof. exact (reverse_transposes_pairs teqb tltb teqb_spec tltb_asym tltb_total). Qed.

  Theorem C06_reverse_transposes : forall (g h : gstate T A),
    WF teqb tltb g -> directed (sp g) = true -> reverse teqb tltb g = Ok h ->
    forall i j w, weights_transposable g -> (sv_entry h j i w <-> sv_entry g i j w).
  Proof. exact (reverse_transposes teqb tltb teqb_spec tltb_asym tltb_total). Qed.

  (* ... i.e. its rows are the source's predecessor rows up to the order of their entries *)
  Theorem C06_reverse_rows_are_predecessor_rows : forall (g h : gstate T A),
    WF teqb tltb g -> directed (sp g) = true -> reverse teqb tltb g = Ok h ->
    forall j rh rg,
      nth_error (successors_vec h) j = Some rh -> nth_error (predecessors_vec g) j = Some rg ->
      Permutation.Permutation (map fst rh) (map fst rg) /\
      (weights_transposable g -> Permutation.Permutation rh rg).
  Proof. exact (reverse_rows_are_predecessor_rows teqb tltb teqb_spec tltb_asym tltb_total). Qed.

  (* the traversal adjacency of an undirected graph is symmetric, weights included *)
  Theorem C06_undirected_adjacency_symmetric : forall (g : gstate T A) i j w,
    WF teqb tltb g -> directed (sp g) = false -> (sv_entry g i j w <-> sv_entry g j i w).
  Proof. exact (undirected_adjacency_symmetric teqb tltb teqb_spec tltb_asym tltb_total). Qed.

  (* what [edge_zadj weighted g] is: row i lists (j, c) exactly for the stored edges from the i-th
     to the j-th node (in either orientation when undirected), c the edge's weight / 1 per hop;
     parallel edges are separate entries *)
  Theorem C06_edge_list_adjacency : forall weighted (g : gstate T A) i j c,
    NoDup (names g) ->
    (In (j, c) (zrow (edge_zadj teqb weighted g) i) <->
     exists x y e, name_at g i = Some x /\ name_at g j = Some y /\ In e (get_all_edges g) /\
                   ecost weighted e = Some c /\
                   ((eu e = x /\ ev e = y) \/ (directed (sp g) = false /\ eu e = y /\ ev e = x))).
  Proof. exact (in_edge_zadj teqb teqb_spec). Qed.

  (* END TO END: closeness_centrality of a reachable graph *)
  Theorem C06_closeness_reachable : forall s (g : gstate T A) lw weighted wf,
    reachable teqb tltb s g -> (weighted = true -> positive_weights g) ->
    exists m, closeness_centrality teqb tltb lw g weighted wf = Ok m /\
              map fst m = get_all_node_names g /\
              forall i x cc, nth_error m i = Some (x, cc) ->
                             is_closeness (edge_zadj teqb weighted g) i wf cc.
  Proof.
    intros s g lw weighted wf Hr.
    apply (closeness_centrality_spec teqb tltb teqb_spec tltb_asym tltb_total).
    exact (WF_reachable teqb tltb teqb_spec tltb_asym tltb_total s g Hr).
  Qed.

  (* undirected graphs: the same value over ordinary (outgoing) distances *)
  Theorem C06_closeness_undirected_reachable : forall s (g : gstate T A) lw weighted wf,
    reachable teqb tltb s g -> directed s = false -> (weighted = true -> positive_weights g) ->
    exists m, closeness_centrality teqb tltb lw g weighted wf = Ok m /\
              map fst m = get_all_node_names g /\
              forall u x cc, nth_error m u = Some (x, cc) ->
                exists dv : list (option Z),
                  length dv = length (edge_zadj teqb weighted g) /\
                  (forall v, (v < length (edge_zadj teqb weighted g))%nat ->
                             dist_spec (edge_zadj teqb weighted g) u v (oget dv v)) /\
                  cc == closeness_val (length (edge_zadj teqb weighted g)) (count_some dv)
                                      (inject_Z (sum_some dv)) wf.
  Proof.
    intros s g lw weighted wf Hr Hd Hpos.
    pose proof (WF_reachable teqb tltb teqb_spec tltb_asym tltb_total s g Hr) as W.
    rewrite <- (reachable_sp teqb tltb teqb_spec tltb_asym tltb_total s g Hr) in Hd.
    destruct (closeness_centrality_spec teqb tltb teqb_spec tltb_asym tltb_total g lw weighted wf W Hpos)
      as (m & Hm & Hk & Hcl).
    exists m. split; [exact Hm|]. split; [exact Hk|]. intros u x cc Hu.
    exact (is_closeness_undirected_outgoing teqb tltb teqb_spec weighted g u wf cc W Hd (Hcl u x cc Hu)).
  Qed.
End C06_state.
