(* Property C07 — Parallel execution is unobservable.
   Only the pinned statements; proofs in Proofs/ParOk.v, Proofs/ParSitesOk.v, Proofs/ParFnsOk.v.

   PART 1 (generic).  A model of the rayon fragment the crate uses (Model/Par.v: indexed
   source, `map f`, `collect` into a Vec; a schedule is the order in which the work items are
   executed) returns the same vector for every schedule and every pure f, and "gather, then
   combine sequentially" equals the serial loop for an arbitrary (non-associative) combine.
   The hypotheses of the model (indexed source, only `map`, collect into Vec, no shared
   mutable state, no unsafe, no interior mutability in the crate) are re-extracted from the
   source and re-proved on every run (C07_par_sites_ok).

   PART 2 (per function).  Model/ParFns.v transcribes BOTH arms of `match parallel` of
   multi_source, all_pairs (all_pairs_iter / all_pairs_par_iter), get_all_shortest_paths_involving,
   betweenness_centrality and closeness_centrality on top of the per-source functions of the
   algorithm models (Model/Dijkstra.v, Model/Brandes.v, Model/Closeness.v), with the arm and the
   schedule as an argument.  For every argument tuple and EVERY schedule (permutation of the work
   items) the parallel arm returns exactly the outcome of the serial arm — Ok values, Err kinds and
   panics alike — and both equal the algorithm model that the correspondence checks of C04 / C05 /
   C06 tie to the code (`*_sched_unobservable`: for every thread count, through the
   `number_of_nodes() > 20 && current_num_threads() > 1` switch): for betweenness / closeness on every
   graph state; for the three dijkstra.rs functions on every graph state as far as success and the Ok
   value are concerned (`*_ok_any_state`) and in full on every state with a coherent adjacency
   ([wf_adj]; multi_source: and coherent name indexes [names_wf]) — in particular on every WF state,
   i.e. every state a mutation history can reach — for ANY weights, names, options (see below why
   coherence is needed there since the repair of F22).
   The proofs never unfold the per-source functions nor the combine functions
   (accumulate_betweenness, HashMap insert), so the same fold order — hence the same value —
   holds in any number structure (C07_loop_shape_any_combine is the statement with the
   combine universally quantified).
   Failing work items.  (a) PANICS (`.unwrap()` / Vec indexing inside the closures; betweenness,
   closeness): rayon::join re-raises the panic of its FIRST closure when both panic, an indexed split
   is join(lower half, upper half), a leaf runs its items in index order — so the region fails with
   the failure of the lowest failing index, like the serial loop (C07_region_plan_semantics: every
   fork-join plan).  (b) RETURNED ERRORS (all_pairs, multi_source since the repair of F22: the closure
   returns the per-source `Result`, the region is `collect::<Result<Vec<_>, Error>>()`): rayon keeps the
   error of the erring item that ran FIRST and starts no further item ("If there are multiple errors,
   the one returned is not deterministic"), the serial collect returns the error of the LOWEST index.
   [gather_result_par] is that region; C07_result_region: success and the Ok value never depend on
   the schedule, a failure is that of SOME failing item, and the region equals the serial one as soon
   as the failing items fail alike (Example result_region_keeps_some_error: otherwise it need not).
   They do fail alike on every coherent state: the per-source search neither panics nor runs out of
   fuel (DijkstraTotalOk), the only `Err` it can return is ContradictoryPaths (DijkstraErrKind —
   every graph state), and multi_source has checked the source / target names up front
   (C07_multi_source_items_fail_alike, C07_all_pairs_items_fail_alike).  On an INCOHERENT state an item
   could panic (index out of range) while another returns Err; then the real arms could differ too,
   which is why the full equalities are no longer stated for every graph state.
   The `_pessimistic` theorems use "the failing item executed first wins" for every kind of failure
   (no reliance on join's rule): same conclusions under the same hypotheses; betweenness always,
   closeness under the stated hypothesis.
   What is NOT proved: rayon's implementation of the indexed collect and of join, real work
   stealing and memory ordering, and that the Rust closures are the pure functions of
   (&Graph, item) the models say — supported by "Graph has no interior mutability, the crate
   has no unsafe" (re-proved per run) and by the bit-for-bit exploration on the implementation
   (tools/p_par.py), which is testing, not proof. *)
From Coq Require Import String List Bool ZArith QArith Sorting.Permutation.
From GV Require Import Base.Outcome Base.AMap Model.GState Model.Creation Model.Query Model.Par.
From GV Require Import Model.Dijkstra Model.Cent Model.Brandes Model.Closeness Model.ParFns.
From GV Require Import Spec.ParSiteDef Spec.ShortestPathDef Spec.ShortestPathCheck Gen.ParSites.
From GV Require Import Spec.EdgeStoreGraph Proofs.WFDefs Proofs.DijkstraModelOk Proofs.DijkstraNamesOk.
From GV Require Import Proofs.ParOk Proofs.ParSitesOk Proofs.ParFnsOk.
Import ListNotations.
Open Scope string_scope.

(* every schedule (a permutation of the item indices), every pure f *)
Theorem C07_schedule_independent : forall (X Y : Type) (f : X -> Y) (pi : list nat) (xs : list X),
  Permutation pi (seq 0 (length xs)) -> run_par pi f xs = Ok (map f xs).
Proof. exact @run_par_schedule_independent. Qed.

Theorem C07_two_schedules_agree : forall (X Y : Type) (f : X -> Y) (pi1 pi2 : list nat) (xs : list X),
  Permutation pi1 (seq 0 (length xs)) -> Permutation pi2 (seq 0 (length xs)) ->
  run_par pi1 f xs = run_par pi2 f xs.
Proof. exact @run_par_two_schedules. Qed.

(* in particular every fork-join plan rayon can follow (recursive splitting, either half first) *)
Theorem C07_plan_independent : forall (X Y : Type) (f : X -> Y) (p : plan) (xs : list X),
  run_par (plan_order p 0 (length xs)) f xs = Ok (map f xs).
Proof. exact @run_par_plan_independent. Qed.

(* all_pairs / multi_source (and get_all_shortest_paths_involving through all_pairs):
   parallel gather + sequential post-processing = serial gather + the same post-processing *)
Theorem C07_gather_then_post : forall (X Y : Type) (f : X -> Y) (R : Type) (post : list Y -> R)
                                      (pi : list nat) (xs : list X),
  Permutation pi (seq 0 (length xs)) -> par_then_post post pi f xs = seq_then_post post f xs.
Proof. exact @par_then_post_eq_seq. Qed.

(* betweenness / closeness: parallel gather, then `for r in results { combine }` = the serial loop
   `for x in xs { combine(f x) }`, for ANY combine (non-associative float accumulation included) *)
Theorem C07_gather_then_fold : forall (X Y : Type) (f : X -> Y) (A : Type) (combine : A -> Y -> A) (init : A)
                                      (pi : list nat) (xs : list X),
  Permutation pi (seq 0 (length xs)) ->
  par_then_fold combine init pi f xs = serial_loop combine init f xs.
Proof. exact @par_then_fold_eq_serial_loop. Qed.

(* the model's hypotheses, on the call sites extracted from the current source tree *)
Theorem C07_par_sites_ok :
  forallb site_ok par_sites = true /\
  no_unsafe = true /\ no_interior_mutability = true /\
  map ps_fn par_sites = expected_site_fns /\
  par_callers = expected_callers /\
  Forall (fun t => (snd t <= 20)%Z) par_thresholds /\
  map fst par_thresholds = ["all_pairs"; "betweenness_centrality"; "closeness_centrality"; "multi_source"] /\
  par_extractor_error = "" /\ (0 < par_files_scanned)%nat.
Proof. exact par_sites_ok. Qed.

Theorem C07_par_sites_modelled :
  forall s, In s par_sites ->
    exists k, site_shape s = ShapeIndexedMapCollect k \/ site_shape s = ShapeIndexedMapCollectResult k.
Proof. exact par_sites_modelled. Qed.

(* which region each function uses in the CURRENT source: the centrality loops collect into a Vec,
   all_pairs / multi_source collect `Result` items into `Result<Vec<_>, Error>` — what Model/ParFns.v
   transcribes ([loop_arm] / [post_arm]) *)
Theorem C07_par_site_shapes :
  map (fun s => (ps_fn s, site_shape s)) par_sites =
  [("betweenness_centrality", ShapeIndexedMapCollect 1); ("closeness_centrality", ShapeIndexedMapCollect 1);
   ("all_pairs", ShapeIndexedMapCollectResult 1); ("multi_source", ShapeIndexedMapCollectResult 1)].
Proof. exact par_site_shapes. Qed.

(* ====================================================================== PART 2: per function *)

(* ---- the region with work items that can fail (unwrap / index panics inside the closure) ---- *)
(* every schedule: the region returns what the sequential map/collect returns, failures included *)
Theorem C07_region_with_failing_items : forall (X Y : Type) (f : X -> outcome Y) (pi : list nat) (xs : list X),
  Permutation pi (seq 0 (length xs)) -> gather_par pi f xs = gather_seq f xs.
Proof. exact @gather_par_eq_seq. Qed.

(* every fork-join plan under rayon::join's rule "the first closure's panic wins" *)
Theorem C07_region_plan_semantics : forall (X Y : Type) (f : X -> outcome Y) (p : plan) (xs : list X),
  run_plan p f xs 0 (length xs) = gather_seq f xs.
Proof. exact @run_plan_eq_seq. Qed.

(* gather under any schedule, then `for y in ys { combine(&mut acc, y) }` = the serial loop
   `for x in xs { combine(&mut acc, f(x)) }` — for ANY combine, any accumulator type *)
Theorem C07_loop_shape_any_combine : forall (X Y B : Type) (f : X -> outcome Y) (combine : B -> Y -> B)
                                            (pi : list nat) (xs : list X) (init : B),
  Permutation pi (seq 0 (length xs)) ->
  loop_arm (Rayon pi) f combine xs init = loop_arm Serial f combine xs init.
Proof. exact @loop_arm_par_eq_serial. Qed.

(* ---- the region that collects `Result` items into `Result<Vec<_>, Error>` (all_pairs, multi_source) ---- *)
(* success and the value on success never depend on the schedule; a failure is that of SOME failing item;
   and the region equals the serial collect as soon as the failing items fail alike *)
Theorem C07_result_region :
  forall (X Y : Type) (f : X -> outcome Y) (pi : list nat) (xs : list X),
  Permutation pi (seq 0 (length xs)) ->
  (forall ys, gather_seq f xs = Ok ys -> gather_result_par pi f xs = Ok ys) /\
  (is_ok (gather_seq f xs) = false ->
   exists x, In x xs /\ is_ok (f x) = false /\ gather_result_par pi f xs = as_failure (f x)) /\
  (fail_alike f xs -> gather_result_par pi f xs = gather_seq f xs).
Proof. exact @result_region. Qed.

(* ---- dijkstra::multi_source ---- *)
(* every graph state: one arm returns Ok mm iff the other does *)
Theorem C07_multi_source_ok_any_state :
  forall (T A : Type) (teqb : T -> T -> bool) (pi : list nat) (g : gstate T A) (weighted : bool)
         (sources : list T) (target : option T) (cutoff : option Q) (first_only with_paths : bool) mm,
  Permutation pi (seq 0 (length sources)) ->
  (multi_source_arm teqb (Rayon pi) g weighted sources target cutoff first_only with_paths = Ok mm <->
   multi_source_arm teqb Serial g weighted sources target cutoff first_only with_paths = Ok mm).
Proof. exact @multi_source_ok_any_state. Qed.

(* every graph state, under "the failing items fail alike" *)
Theorem C07_multi_source_parallel_eq_serial :
  forall (T A : Type) (teqb : T -> T -> bool) (pi : list nat) (g : gstate T A) (weighted : bool)
         (sources : list T) (target : option T) (cutoff : option Q) (first_only with_paths : bool),
  Permutation pi (seq 0 (length sources)) ->
  fail_alike (multi_source_item teqb g weighted target cutoff first_only with_paths) sources ->
  multi_source_arm teqb (Rayon pi) g weighted sources target cutoff first_only with_paths =
  multi_source_arm teqb Serial g weighted sources target cutoff first_only with_paths.
Proof. exact @multi_source_parallel_eq_serial. Qed.

(* which holds whenever the names are present — ANY weights, any cutoff: every item is Ok or
   Err ContradictoryPaths *)
Theorem C07_multi_source_items_fail_alike :
  forall (T A : Type) (teqb : T -> T -> bool)
         (g : gstate T A) (weighted : bool) (sources : list T) (target : option T) (cutoff : option Q)
         (first_only with_paths : bool),
  wf_adj g -> names_wf teqb g ->
  (forall s, In s sources -> exists si, lookup teqb s (nodes_map g) = Some si) ->
  (forall t, target = Some t -> exists i, lookup teqb t (nodes_map g) = Some i) ->
  fail_alike (multi_source_item teqb g weighted target cutoff first_only with_paths) sources.
Proof. exact @multi_source_items_fail_alike. Qed.

(* hence, with the up-front checks of multi_source itself: every coherent state, ANY weights, ANY names
   (absent ones: both arms return NodeNotFound before the region), any options *)
Theorem C07_multi_source_parallel_eq_serial_wf :
  forall (T A : Type) (teqb : T -> T -> bool) (pi : list nat) (g : gstate T A) (weighted : bool)
         (sources : list T) (target : option T) (cutoff : option Q) (first_only with_paths : bool),
  wf_adj g -> names_wf teqb g -> Permutation pi (seq 0 (length sources)) ->
  multi_source_arm teqb (Rayon pi) g weighted sources target cutoff first_only with_paths =
  multi_source_arm teqb Serial g weighted sources target cutoff first_only with_paths.
Proof. exact @multi_source_parallel_eq_serial_wf. Qed.

(* every state reachable by a mutation history is WF *)
Theorem C07_multi_source_parallel_eq_serial_WF :
  forall (T A : Type) (teqb tltb : T -> T -> bool) (pi : list nat) (g : gstate T A) (weighted : bool)
         (sources : list T) (target : option T) (cutoff : option Q) (first_only with_paths : bool),
  @WF T A teqb tltb g -> small_adj g -> Permutation pi (seq 0 (length sources)) ->
  multi_source_arm teqb (Rayon pi) g weighted sources target cutoff first_only with_paths =
  multi_source_arm teqb Serial g weighted sources target cutoff first_only with_paths.
Proof. exact @multi_source_parallel_eq_serial_WF. Qed.

(* whatever the thread count and the schedule, the thresholded function is the model of C04 *)
Theorem C07_multi_source_sched_unobservable :
  forall (T A : Type) (teqb : T -> T -> bool) (threads : nat) (pi : list nat) (threads' : nat) (g : gstate T A)
         (weighted : bool) (sources : list T) (target : option T) (cutoff : option Q) (first_only with_paths : bool),
  wf_adj g -> names_wf teqb g -> Permutation pi (seq 0 (length sources)) ->
  multi_source_sched teqb threads pi g weighted sources target cutoff first_only with_paths =
  multi_source teqb threads' g weighted sources target cutoff first_only with_paths.
Proof. exact @multi_source_sched_unobservable. Qed.

(* ---- dijkstra::all_pairs (all_pairs_iter / all_pairs_par_iter) ---- *)
Theorem C07_all_pairs_ok_any_state :
  forall (T A : Type) (teqb : T -> T -> bool) (pi : list nat) (g : gstate T A) (weighted : bool)
         (target : option T) (cutoff : option Q) (first_only with_paths : bool) mm,
  Permutation pi (seq 0 (number_of_nodes g)) ->
  (all_pairs_arm teqb (Rayon pi) g weighted target cutoff first_only with_paths = Ok mm <->
   all_pairs_arm teqb Serial g weighted target cutoff first_only with_paths = Ok mm).
Proof. exact @all_pairs_ok_any_state. Qed.

(* the items fail alike on every coherent adjacency, whatever the weights: Ok or Err ContradictoryPaths *)
Theorem C07_all_pairs_items_fail_alike :
  forall (T A : Type) (g : gstate T A) (weighted : bool) (target : option T) (ti : option nat)
         (cutoff : option Q) (first_only with_paths : bool),
  wf_adj g ->
  fail_alike (all_pairs_item g weighted target ti cutoff first_only with_paths) (seq 0 (number_of_nodes g)).
Proof. exact @all_pairs_items_fail_alike. Qed.

Theorem C07_all_pairs_parallel_eq_serial :
  forall (T A : Type) (teqb : T -> T -> bool) (pi : list nat) (g : gstate T A) (weighted : bool)
         (target : option T) (cutoff : option Q) (first_only with_paths : bool),
  wf_adj g -> Permutation pi (seq 0 (number_of_nodes g)) ->
  all_pairs_arm teqb (Rayon pi) g weighted target cutoff first_only with_paths =
  all_pairs_arm teqb Serial g weighted target cutoff first_only with_paths.
Proof. exact @all_pairs_parallel_eq_serial. Qed.

Theorem C07_all_pairs_parallel_eq_serial_WF :
  forall (T A : Type) (teqb tltb : T -> T -> bool) (pi : list nat) (g : gstate T A) (weighted : bool)
         (target : option T) (cutoff : option Q) (first_only with_paths : bool),
  @WF T A teqb tltb g -> small_adj g -> Permutation pi (seq 0 (number_of_nodes g)) ->
  all_pairs_arm teqb (Rayon pi) g weighted target cutoff first_only with_paths =
  all_pairs_arm teqb Serial g weighted target cutoff first_only with_paths.
Proof. exact @all_pairs_parallel_eq_serial_WF. Qed.

Theorem C07_all_pairs_sched_unobservable :
  forall (T A : Type) (teqb : T -> T -> bool) (threads : nat) (pi : list nat) (threads' : nat) (g : gstate T A)
         (weighted : bool) (target : option T) (cutoff : option Q) (first_only with_paths : bool),
  wf_adj g -> Permutation pi (seq 0 (number_of_nodes g)) ->
  all_pairs_sched teqb threads pi g weighted target cutoff first_only with_paths =
  all_pairs teqb threads' g weighted target cutoff first_only with_paths.
Proof. exact @all_pairs_sched_unobservable. Qed.

(* ---- dijkstra::get_all_shortest_paths_involving (its rayon path is all_pairs') ---- *)
Theorem C07_involving_parallel_eq_serial :
  forall (T A : Type) (teqb : T -> T -> bool) (pi : list nat) (g : gstate T A) (node_name : T) (weighted : bool),
  wf_adj g -> Permutation pi (seq 0 (number_of_nodes g)) ->
  get_all_shortest_paths_involving_arm teqb (Rayon pi) g node_name weighted =
  get_all_shortest_paths_involving_arm teqb Serial g node_name weighted.
Proof. exact @involving_parallel_eq_serial. Qed.

Theorem C07_involving_sched_unobservable :
  forall (T A : Type) (teqb : T -> T -> bool) (threads : nat) (pi : list nat) (threads' : nat) (g : gstate T A)
         (node_name : T) (weighted : bool),
  wf_adj g -> Permutation pi (seq 0 (number_of_nodes g)) ->
  get_all_shortest_paths_involving_sched teqb threads pi g node_name weighted =
  get_all_shortest_paths_involving teqb threads' g node_name weighted.
Proof. exact @involving_sched_unobservable. Qed.

(* ---- betweenness_centrality ---- *)
Theorem C07_betweenness_parallel_eq_serial :
  forall (T A : Type) (pi : list nat) (lw : bool) (g : gstate T A) (weighted normalized : bool),
  Permutation pi (seq 0 (number_of_nodes g)) ->
  betweenness_centrality_arm (Rayon pi) lw g weighted normalized =
  betweenness_centrality_arm Serial lw g weighted normalized.
Proof. exact @betweenness_parallel_eq_serial. Qed.

(* the model of C05 ([betweenness_centrality], whose parallel path was written schedule-free) *)
Theorem C07_betweenness_sched_unobservable :
  forall (T A : Type) (threads : nat) (pi : list nat) (lw : bool) (g : gstate T A) (weighted normalized : bool),
  Permutation pi (seq 0 (number_of_nodes g)) ->
  betweenness_centrality_sched threads pi lw g weighted normalized =
  betweenness_centrality lw g weighted normalized.
Proof. exact @betweenness_sched_unobservable. Qed.

(* ---- closeness_centrality ---- *)
(* the work items are the node indices of `the_graph` (the reversed copy when directed) *)
Theorem C07_closeness_parallel_eq_serial :
  forall (T A : Type) (teqb tltb : T -> T -> bool) (pi : list nat) (lw : bool) (g : gstate T A)
         (weighted wf_improved : bool),
  (forall tg, closeness_graph teqb tltb g = Ok tg -> Permutation pi (seq 0 (number_of_nodes tg))) ->
  closeness_centrality_arm teqb tltb (Rayon pi) lw g weighted wf_improved =
  closeness_centrality_arm teqb tltb Serial lw g weighted wf_improved.
Proof. exact @closeness_parallel_eq_serial. Qed.

(* on a coherent graph state (every state a mutation history can reach: C01) `the_graph` has the
   nodes of the graph, so the schedule is a permutation of 0..number_of_nodes-1 *)
Theorem C07_closeness_parallel_eq_serial_WF :
  forall (T A : Type) (teqb tltb : T -> T -> bool),
  (forall x y, teqb x y = true <-> x = y) ->
  (forall x y, tltb x y = false -> tltb y x = false -> x = y) ->
  forall (pi : list nat) (lw : bool) (g : gstate T A) (weighted wf_improved : bool),
  @WF T A teqb tltb g -> Permutation pi (seq 0 (number_of_nodes g)) ->
  closeness_centrality_arm teqb tltb (Rayon pi) lw g weighted wf_improved =
  closeness_centrality_arm teqb tltb Serial lw g weighted wf_improved.
Proof. exact @closeness_parallel_eq_serial_WF. Qed.

(* the model of C06 returns the (name, cc) pairs; the arms insert them into the HashMap *)
Theorem C07_closeness_sched_unobservable :
  forall (T A : Type) (teqb tltb : T -> T -> bool) (threads : nat) (pi : list nat) (lw : bool) (g : gstate T A)
         (weighted wf_improved : bool),
  (forall tg, closeness_graph teqb tltb g = Ok tg -> Permutation pi (seq 0 (number_of_nodes tg))) ->
  closeness_centrality_sched teqb tltb threads pi lw g weighted wf_improved =
  (do l <- closeness_centrality teqb tltb lw g weighted wf_improved; Ok (collect_map teqb l)).
Proof. exact @closeness_sched_unobservable. Qed.

(* ---- without rayon::join's panic rule: "the failing item executed first aborts the region" ---- *)
(* success and the value on success never depend on the rule; a failure is that of SOME failing
   item; and the region equals the serial one as soon as the failing items fail alike *)
Theorem C07_pessimistic_region :
  forall (X Y : Type) (f : X -> outcome Y) (pi : list nat) (xs : list X),
  Permutation pi (seq 0 (length xs)) ->
  (forall ys, gather_seq f xs = Ok ys -> gather_abort pi f xs = Ok ys) /\
  (is_ok (gather_seq f xs) = false ->
   exists x, In x xs /\ is_ok (f x) = false /\ gather_abort pi f xs = as_failure (f x)) /\
  (fail_alike f xs -> gather_abort pi f xs = gather_seq f xs).
Proof. exact @pessimistic_region. Qed.

Theorem C07_all_pairs_pessimistic :
  forall (T A : Type) (teqb : T -> T -> bool) (pi : list nat) (g : gstate T A) (weighted : bool)
         (target : option T) (cutoff : option Q) (first_only with_paths : bool),
  wf_adj g -> Permutation pi (seq 0 (number_of_nodes g)) ->
  all_pairs_arm teqb (RayonAbort pi) g weighted target cutoff first_only with_paths =
  all_pairs_arm teqb Serial g weighted target cutoff first_only with_paths.
Proof. exact @all_pairs_abort_eq_serial. Qed.

Theorem C07_involving_pessimistic :
  forall (T A : Type) (teqb : T -> T -> bool) (pi : list nat) (g : gstate T A) (node_name : T) (weighted : bool),
  wf_adj g -> Permutation pi (seq 0 (number_of_nodes g)) ->
  get_all_shortest_paths_involving_arm teqb (RayonAbort pi) g node_name weighted =
  get_all_shortest_paths_involving_arm teqb Serial g node_name weighted.
Proof. exact @involving_abort_eq_serial. Qed.

Theorem C07_betweenness_pessimistic :
  forall (T A : Type) (pi : list nat) (lw : bool) (g : gstate T A) (weighted normalized : bool),
  Permutation pi (seq 0 (number_of_nodes g)) ->
  betweenness_centrality_arm (RayonAbort pi) lw g weighted normalized =
  betweenness_centrality_arm Serial lw g weighted normalized.
Proof. exact @betweenness_abort_eq_serial. Qed.

Theorem C07_multi_source_pessimistic :
  forall (T A : Type) (teqb : T -> T -> bool) (pi : list nat) (g : gstate T A) (weighted : bool)
         (sources : list T) (target : option T) (cutoff : option Q) (first_only with_paths : bool),
  Permutation pi (seq 0 (length sources)) ->
  fail_alike (multi_source_item teqb g weighted target cutoff first_only with_paths) sources ->
  multi_source_arm teqb (RayonAbort pi) g weighted sources target cutoff first_only with_paths =
  multi_source_arm teqb Serial g weighted sources target cutoff first_only with_paths.
Proof. exact @multi_source_abort_eq_serial. Qed.

(* since the repair of F22 no hypothesis on the weights, the names or the cutoff is left (it used to be
   "under the hypotheses of C04_model_single_source_names", C07_multi_source_items_ok: a per-source Err
   was a panic whose site did not depend on the item, but NodeNotFound / ContradictoryPaths had to be
   excluded to know the items do not fail at all) *)
Theorem C07_multi_source_pessimistic_wf :
  forall (T A : Type) (teqb : T -> T -> bool) (pi : list nat) (g : gstate T A) (weighted : bool)
         (sources : list T) (target : option T) (cutoff : option Q) (first_only with_paths : bool),
  wf_adj g -> names_wf teqb g -> Permutation pi (seq 0 (length sources)) ->
  multi_source_arm teqb (RayonAbort pi) g weighted sources target cutoff first_only with_paths =
  multi_source_arm teqb Serial g weighted sources target cutoff first_only with_paths.
Proof. exact @multi_source_abort_eq_serial_wf. Qed.

Theorem C07_closeness_pessimistic :
  forall (T A : Type) (teqb tltb : T -> T -> bool) (pi : list nat) (lw : bool) (g : gstate T A)
         (weighted wf_improved : bool),
  (forall tg, closeness_graph teqb tltb g = Ok tg -> Permutation pi (seq 0 (number_of_nodes tg))) ->
  (forall tg ad, closeness_graph teqb tltb g = Ok tg -> conv_adj weighted (successors_vec tg) = Some ad ->
     fail_alike (closeness_one lw weighted wf_improved tg ad (number_of_nodes tg)) (seq 0 (number_of_nodes tg))) ->
  closeness_centrality_arm teqb tltb (RayonAbort pi) lw g weighted wf_improved =
  closeness_centrality_arm teqb tltb Serial lw g weighted wf_improved.
Proof. exact @closeness_abort_eq_serial. Qed.
